(** Proofs for C16: the model of DeepSearch reports exactly the visible
    matching locations. *)
From Coq Require Import List ZArith NArith Bool Arith String Lia.
Import ListNotations.
From DD Require Import Base.Sx Base.PyStr Base.Value Search.SearchModel Search.SearchSpec.

(* ---------- generalities the Base files do not provide ---------- *)

Lemma pystr_eqb_eq : forall a b, pystr_eqb a b = true -> a = b.
Proof.
  unfold pystr_eqb. induction a as [|x a IH]; destruct b as [|y b]; intro H; try discriminate; auto.
  apply andb_true_iff in H. destruct H as [H1 H2]. apply N.eqb_eq in H1. subst. f_equal. auto.
Qed.

Lemma pystr_eqb_refl : forall a, pystr_eqb a a = true.
Proof. unfold pystr_eqb. induction a as [|x a IH]; auto. rewrite N.eqb_refl. exact IH. Qed.

Lemma atom_eqb_eq : forall a b, atom_eqb a b = true -> a = b.
Proof.
  intros x y. destruct x as [|b1|z1|t1|s1|s1], y as [|b2|z2|t2|s2|s2]; cbn; intro H; try discriminate; auto.
  - apply Bool.eqb_prop in H. subst. auto.
  - apply Z.eqb_eq in H. subst. auto.
  - apply Z.eqb_eq in H. subst. auto.
  - apply pystr_eqb_eq in H. subst. auto.
  - apply pystr_eqb_eq in H. subst. auto.
Qed.

Lemma atom_eqb_refl : forall a, atom_eqb a a = true.
Proof.
  intros x. destruct x as [|b1|z1|t1|s1|s1]; cbn; auto using Z.eqb_refl, pystr_eqb_refl. destruct b1; auto.
Qed.

Lemma py_eq_refl : forall a, py_eq a a = true.
Proof.
  intros x. destruct x as [|b1|z1|t1|s1|s1]; cbn; auto using Z.eqb_refl, pystr_eqb_refl.
Qed.

(* induction over values with the nested lists *)
Section ValueInd.
  Variable P : value -> Prop.
  Hypothesis Hatom : forall a, P (VAtom a).
  Hypothesis Hlist : forall xs, Forall P xs -> P (VList xs).
  Hypothesis Htuple : forall xs, Forall P xs -> P (VTuple xs).
  Hypothesis Hdict : forall kvs, Forall (fun kv => P (snd kv)) kvs -> P (VDict kvs).
  Hypothesis Hset : forall xs, P (VSet xs).
  Hypothesis Hfrozen : forall xs, P (VFrozen xs).
  Fixpoint value_ind' (v : value) : P v :=
    match v with
    | VAtom a => Hatom a
    | VList xs => Hlist xs ((fix go (l : list value) : Forall P l :=
                               match l with [] => Forall_nil _ | x :: r => Forall_cons _ (value_ind' x) (go r) end) xs)
    | VTuple xs => Htuple xs ((fix go (l : list value) : Forall P l :=
                               match l with [] => Forall_nil _ | x :: r => Forall_cons _ (value_ind' x) (go r) end) xs)
    | VDict kvs => Hdict kvs ((fix go (l : list (atom * value)) : Forall (fun kv => P (snd kv)) l :=
                               match l with [] => Forall_nil _ | x :: r => Forall_cons _ (value_ind' (snd x)) (go r) end) kvs)
    | VSet xs => Hset xs
    | VFrozen xs => Hfrozen xs
    end.
End ValueInd.

(* a dictionary with pairwise non-equal keys maps a key to the entry that holds it *)
Lemma mem_atom_in : forall k l, In k l -> mem_atom k l = true.
Proof.
  unfold mem_atom. intros k l H. apply existsb_exists. exists k. split; auto using py_eq_refl.
Qed.

Lemma find_key_in : forall (kvs : list (atom * value)) k v,
  nodup_atoms (map fst kvs) = true -> In (k, v) kvs ->
  find (fun kv => atom_eqb (fst kv) k) kvs = Some (k, v).
Proof.
  induction kvs as [|[k0 v0] r IH]; intros k v Hnd Hin; [destruct Hin|].
  cbn in Hnd. apply andb_true_iff in Hnd. destruct Hnd as [Hnot Hnd].
  cbn [find fst]. destruct Hin as [Heq|Hin].
  - inversion Heq; subst. rewrite atom_eqb_refl. reflexivity.
  - destruct (atom_eqb k0 k) eqn:E.
    + apply atom_eqb_eq in E. subst k0.
      assert (Hm : mem_atom k (map fst r) = true) by (apply mem_atom_in; apply (in_map fst _ _ Hin)).
      rewrite Hm in Hnot. discriminate.
    + apply IH; auto.
Qed.

Lemma find_key_some : forall (kvs : list (atom * value)) k kv,
  find (fun kv => atom_eqb (fst kv) k) kvs = Some kv -> In kv kvs /\ fst kv = k.
Proof.
  intros kvs k kv H. apply find_some in H. destruct H as [H1 H2]. split; auto using atom_eqb_eq.
Qed.

Lemma wf_dict_inv : forall kvs, wf (VDict kvs) = true ->
  nodup_atoms (map fst kvs) = true /\ forall kv, In kv kvs -> wf (snd kv) = true.
Proof.
  intros kvs H. cbn in H. apply andb_true_iff in H. destruct H as [H1 H2]. split; auto.
  intros kv Hin. rewrite forallb_forall in H2. auto.
Qed.

Lemma wf_list_inv : forall xs, forallb wf xs = true -> forall x, In x xs -> wf x = true.
Proof. intros xs H x Hin. rewrite forallb_forall in H. auto. Qed.

Lemma nth_error_map_atom : forall (xs : list atom) i,
  nth_error (map VAtom xs) i = option_map VAtom (nth_error xs i).
Proof. induction xs as [|a r IH]; destruct i; cbn; auto. Qed.

Section Proofs.
  Variable brepr : pystr -> pystr.
  Variable re_search : pystr -> bool.
  Variable excl_re : pystr -> bool.
  Variable re_text : pystr.
  Variable str_attrs bytes_attrs : list pystr.
  Variable c : config.
  Variable cs : bool.
  Variable it : eitem.

  Notation render := (render brepr).
  Notation path_excl := (path_excl brepr excl_re c).
  Notation ty_excl := (ty_excl c).
  Notation item_excl := (item_excl c it).
  Notation skip_item := (skip_item brepr excl_re c it).
  Notation skip_this := (skip_this brepr excl_re c).
  Notation fold_s := (fold_s cs).
  Notation search := (search brepr re_search excl_re re_text str_attrs bytes_attrs c cs it).
  Notation search_leaf := (search_leaf brepr re_search re_text str_attrs bytes_attrs c cs it).
  Notation search_atom := (search_atom brepr re_search excl_re re_text str_attrs bytes_attrs c cs it).
  Notation search_str := (search_str re_search c cs it).
  Notation search_numbers := (search_numbers brepr re_search c it).
  Notation search_obj_atom := (search_obj_atom brepr re_search re_text str_attrs bytes_attrs c cs it).
  Notation attr_events := (attr_events brepr re_search re_text c cs it).
  Notation thing_events := (thing_events brepr excl_re c cs it).
  Notation path_event := (path_event brepr re_search re_text c cs it).
  Notation path_test := (path_test brepr re_search re_text c it).
  Notation shortcut := (shortcut c cs it).
  Notation vis := (vis brepr excl_re c).
  Notation vis_doc := (vis_doc brepr excl_re c).
  Notation leaf_match := (leaf_match brepr re_search c cs it).
  Notation leaf_raises := (leaf_raises c it).
  Notation atom_match := (atom_match brepr re_search c cs it).
  Notation atom_raises := (atom_raises c it).
  Notation str_match := (str_match re_search c cs it).
  Notation str_raises := (str_raises c it).
  Notation num_match := (num_match brepr re_search c it).
  Notation num_raises := (num_raises c it).
  Notation text_match := (text_match brepr re_search re_text c it).
  Notation text_raises := (text_raises brepr re_text c it).
  Notation path_match := (path_match brepr re_search re_text c cs it).
  Notation attrs_of := (attrs_of str_attrs bytes_attrs it).
  Notation attr_text := (attr_text brepr cs).
  Notation matches_spec := (matches_spec brepr re_search excl_re c cs it).
  Notation matches_spec_doc := (matches_spec_doc brepr re_search excl_re c cs it).
  Notation paths_spec := (paths_spec brepr re_search excl_re re_text c cs it).
  Notation paths_spec_doc := (paths_spec_doc brepr re_search excl_re re_text c cs it).
  Notation raises_spec := (raises_spec brepr excl_re re_text c cs it).
  Notation k16_guard := (k16_guard c).
  Notation k16b_guard := (k16b_guard brepr excl_re c).

  (* what the search emits AT one location (p, w), not counting what it emits
     below it *)
  Inductive local_ev (p : path) (w : value) : event -> Prop :=
  | LValue : leaf_match w = true -> local_ev p w (EvValue p w)
  | LRaise : leaf_raises w = true -> local_ev p w EvRaise
  | LAttr : forall n, In n (attrs_of w) -> text_match (attr_text p n) = true ->
                      local_ev p w (EvAttr p n)
  | LPath : forall kvs k ch, w = VDict kvs -> In (k, ch) kvs ->
                             path_match (p ++ [SKey k]) = true ->
                             local_ev p w (EvPath (p ++ [SKey k]) ch)
  | LPathRaise : forall kvs k ch, w = VDict kvs -> In (k, ch) kvs ->
                             text_raises (fold_s (render (p ++ [SKey k]))) = true ->
                             local_ev p w EvRaise.

  (* ---------- the leaf comparers ---------- *)

  Ltac crush := cbn [In]; intuition (try discriminate; try congruence; auto).
  Ltac noattr := match goal with
                 | H : exists n, In n [] /\ _ |- _ => destruct H as [? [[] _]]
                 | H : exists n, False /\ _ |- _ => destruct H as [? [[] _]]
                 end.

  Lemma path_test_iff : forall txt hit ev,
    In ev (path_test txt hit) <->
    (text_match txt = true /\ In ev hit) \/ (text_raises txt = true /\ ev = EvRaise).
  Proof.
    intros txt hit ev. unfold SearchModel.path_test, SearchSpec.text_match, SearchSpec.text_raises.
    destruct (match_string c && pystr_eqb _ txt || negb (match_string c) && contains_sub _ txt) eqn:E;
      cbn [negb orb andb]; [crush|].
    destruct it as [a|[|]]; try destruct (re_search txt); crush.
  Qed.

  Lemma search_str_iff : forall isb s p ev,
    In ev (search_str isb s p) <->
    (str_match isb s = true /\ ev = EvValue p (VAtom (if isb then ABytes s else AStr s)))
    \/ (str_raises isb = true /\ ev = EvRaise).
  Proof.
    intros isb s p ev. unfold SearchModel.search_str, SearchSpec.str_match, SearchSpec.str_raises.
    destruct it as [[| | | |i|i]|b]; try (crush; fail).
    - destruct (match_string c), isb; cbn;
        try destruct (pystr_eqb i _); try destruct (contains_sub i _); crush.
    - destruct (match_string c), isb; cbn;
        try destruct (pystr_eqb i _); try destruct (contains_sub i _); crush.
    - destruct b, isb; cbn; try destruct (re_search _); crush.
  Qed.

  Lemma search_numbers_iff : forall a p ev,
    In ev (search_numbers a p) <->
    (num_match a = true /\ ev = EvValue p (VAtom a)) \/ (num_raises = true /\ ev = EvRaise).
  Proof.
    intros a p ev. unfold SearchModel.search_numbers, SearchSpec.num_match, SearchSpec.num_raises, eq_item.
    destruct it as [b|[|]].
    - destruct (py_eq b a); cbn [orb]; [crush|].
      destruct (strict c); cbn [negb andb]; [crush|].
      destruct b; try destruct (pystr_eqb _ _); crush.
    - destruct (strict c); crush.
    - destruct (strict c); cbn [negb andb]; try destruct (re_search _); crush.
  Qed.

  Lemma attr_events_iff : forall names p ev,
    In ev (attr_events names p) <->
    exists n, In n names /\ ((text_match (attr_text p n) = true /\ ev = EvAttr p n)
                             \/ (text_raises (attr_text p n) = true /\ ev = EvRaise)).
  Proof.
    intros names p ev. unfold SearchModel.attr_events. rewrite in_flat_map. split.
    - intros [n [Hn H]]. apply path_test_iff in H. exists n. split; auto.
      destruct H as [[H1 [H2|[]]]|[H1 H2]]; auto.
    - intros [n [Hn H]]. exists n. split; auto. apply path_test_iff.
      destruct H as [[H1 H2]|[H1 H2]]; [left|right]; split; auto. left; auto.
  Qed.

  Lemma local_ev_atom : forall p a ev,
    local_ev p (VAtom a) ev <->
    (atom_match a = true /\ ev = EvValue p (VAtom a))
    \/ (atom_raises a = true /\ ev = EvRaise)
    \/ (exists n, In n (attrs_of (VAtom a)) /\ text_match (attr_text p n) = true /\ ev = EvAttr p n).
  Proof.
    intros p a ev. split.
    - intro H. inversion H; subst; auto; try discriminate.
      right. right. eauto.
    - intros [[H1 H2]|[[H1 H2]|[n [H1 [H2 H3]]]]]; subst.
      + apply LValue. exact H1.
      + apply LRaise. exact H1.
      + eapply LAttr; eauto.
  Qed.

  Lemma py_eq_none : forall b, py_eq b ANone = true <-> b = ANone.
  Proof. intro b. destruct b; cbn; intuition discriminate. Qed.

  Lemma text_raises_atom : forall a txt, it = EAtom a -> text_raises txt = false.
  Proof.
    intros a txt E. unfold SearchSpec.text_raises. rewrite E. apply andb_false_r.
  Qed.

  Lemma search_leaf_iff : forall a p ev, In ev (search_leaf a p) <-> local_ev p (VAtom a) ev.
  Proof.
    intros a p ev. rewrite local_ev_atom. unfold SearchModel.search_leaf.
    destruct a as [|b0|z0|t0|s|s].
    - (* None *)
      cbn [is_strlike is_number andb]. unfold SearchModel.search_obj_atom, eq_item.
      cbn [SearchSpec.atom_match SearchSpec.atom_raises SearchSpec.attrs_of].
      rewrite app_nil_r.
      assert (Hat : attrs_of (VAtom ANone) = []) by (unfold SearchSpec.attrs_of; destruct it as [[| | | | |]|]; auto).
      rewrite Hat.
      destruct it as [b|b].
      + destruct (py_eq b ANone) eqn:E.
        * apply py_eq_none in E. subst b. crush; try noattr.
        * assert (b <> ANone) by (intro; subst; cbn in E; discriminate).
          destruct b; crush; try noattr.
      + crush; try noattr.
    - cbn [is_strlike is_number andb]. rewrite search_numbers_iff.
      assert (Hat : attrs_of (VAtom (ABool b0)) = []) by (unfold SearchSpec.attrs_of; destruct it as [[| | | | |]|]; auto).
      rewrite Hat. cbn [SearchSpec.atom_match SearchSpec.atom_raises]. crush; try noattr.
    - cbn [is_strlike is_number andb]. rewrite search_numbers_iff.
      assert (Hat : attrs_of (VAtom (AInt z0)) = []) by (unfold SearchSpec.attrs_of; destruct it as [[| | | | |]|]; auto).
      rewrite Hat. cbn [SearchSpec.atom_match SearchSpec.atom_raises]. crush; try noattr.
    - cbn [is_strlike is_number andb]. rewrite search_numbers_iff.
      assert (Hat : attrs_of (VAtom (AHalf t0)) = []) by (unfold SearchSpec.attrs_of; destruct it as [[| | | | |]|]; auto).
      rewrite Hat. cbn [SearchSpec.atom_match SearchSpec.atom_raises]. crush; try noattr.
    - (* str *)
      cbn [is_strlike is_number andb SearchSpec.atom_match SearchSpec.atom_raises].
      destruct it as [[|b1|z1|t1|i|i]|b] eqn:Eit;
        cbn [item_is_str_or_re item_is_number is_number SearchSpec.attrs_of].
      + (* item None: the str is searched as an object *)
        unfold SearchModel.search_obj_atom, eq_item. cbn [py_eq num2 app].
        rewrite <- Eit. rewrite attr_events_iff. rewrite Eit.
        unfold SearchSpec.str_match, SearchSpec.str_raises. split.
        * intros [n [Hn [[H1 H2]|[H1 H2]]]].
          -- right. right. exists n. auto.
          -- rewrite <- Eit in H1. rewrite (text_raises_atom ANone) in H1 by exact Eit. discriminate.
        * intros [[H _]|[[H _]|[n [Hn [H1 H2]]]]]; try discriminate. exists n. auto.
      + unfold SearchSpec.str_match, SearchSpec.str_raises. crush; try noattr.
      + unfold SearchSpec.str_match, SearchSpec.str_raises. crush; try noattr.
      + unfold SearchSpec.str_match, SearchSpec.str_raises. crush; try noattr.
      + rewrite <- Eit. rewrite search_str_iff. rewrite Eit. crush; try noattr.
      + rewrite <- Eit. rewrite search_str_iff. rewrite Eit. crush; try noattr.
      + rewrite <- Eit. rewrite search_str_iff. rewrite Eit. crush; try noattr.
    - (* bytes *)
      cbn [is_strlike is_number andb SearchSpec.atom_match SearchSpec.atom_raises].
      destruct it as [[|b1|z1|t1|i|i]|b] eqn:Eit;
        cbn [item_is_str_or_re item_is_number is_number SearchSpec.attrs_of].
      + unfold SearchModel.search_obj_atom, eq_item. cbn [py_eq num2 app].
        rewrite <- Eit. rewrite attr_events_iff. rewrite Eit.
        unfold SearchSpec.str_match, SearchSpec.str_raises. split.
        * intros [n [Hn [[H1 H2]|[H1 H2]]]].
          -- right. right. exists n. auto.
          -- rewrite <- Eit in H1. rewrite (text_raises_atom ANone) in H1 by exact Eit. discriminate.
        * intros [[H _]|[[H _]|[n [Hn [H1 H2]]]]]; try discriminate. exists n. auto.
      + unfold SearchSpec.str_match, SearchSpec.str_raises. crush; try noattr.
      + unfold SearchSpec.str_match, SearchSpec.str_raises. crush; try noattr.
      + unfold SearchSpec.str_match, SearchSpec.str_raises. crush; try noattr.
      + rewrite <- Eit. rewrite search_str_iff. rewrite Eit. crush; try noattr.
      + rewrite <- Eit. rewrite search_str_iff. rewrite Eit. crush; try noattr.
      + rewrite <- Eit. rewrite search_str_iff. rewrite Eit. crush; try noattr.
  Qed.

  (* ---------- the equality shortcut of __search_iterable ---------- *)

  Lemma is_prefix_refl : forall s, is_prefix s s = true.
  Proof. induction s as [|x s IH]; cbn; auto. rewrite N.eqb_refl. exact IH. Qed.
  Lemma contains_sub_refl : forall s, contains_sub s s = true.
  Proof. intro s. destruct s; cbn; auto. rewrite N.eqb_refl, is_prefix_refl. reflexivity. Qed.

  Lemma py_eq_str : forall b t, py_eq b (AStr t) = true -> exists i, b = AStr i /\ pystr_eqb i t = true.
  Proof. intros b t. destruct b; cbn; intro H; try discriminate. eauto. Qed.
  Lemma py_eq_bytes : forall b t, py_eq b (ABytes t) = true -> exists i, b = ABytes i /\ pystr_eqb i t = true.
  Proof. intros b t. destruct b; cbn; intro H; try discriminate. eauto. Qed.

  Lemma shortcut_atom : forall x, shortcut x = true -> exists a, x = VAtom a.
  Proof.
    intros x H. unfold SearchModel.shortcut in H. apply andb_true_iff in H. destruct H as [_ H].
    destruct x; cbn in H; try discriminate. eauto.
  Qed.

  Lemma shortcut_facts : forall a, shortcut (VAtom a) = true ->
    atom_match a = true /\ atom_raises a = false /\ attrs_of (VAtom a) = [].
  Proof.
    intros a H. unfold SearchModel.shortcut in H. apply andb_true_iff in H. destruct H as [_ H].
    cbn [thing_eq_item] in H. unfold eq_item in H.
    destruct it as [b|b] eqn:Eit; [|discriminate].
    destruct a as [|b0|z0|t0|s|s].
    - assert (b = ANone) by (apply py_eq_none; destruct cs; exact H). subst b. cbn. auto.
    - assert (H' : py_eq b (ABool b0) = true) by (destruct cs; exact H).
      cbn [SearchSpec.atom_match SearchSpec.atom_raises]. unfold SearchSpec.num_match, SearchSpec.num_raises.
      rewrite H'. cbn. repeat split; auto. destruct b; reflexivity.
    - assert (H' : py_eq b (AInt z0) = true) by (destruct cs; exact H).
      cbn [SearchSpec.atom_match SearchSpec.atom_raises]. unfold SearchSpec.num_match, SearchSpec.num_raises.
      rewrite H'. cbn. repeat split; auto. destruct b; reflexivity.
    - assert (H' : py_eq b (AHalf t0) = true) by (destruct cs; exact H).
      cbn [SearchSpec.atom_match SearchSpec.atom_raises]. unfold SearchSpec.num_match, SearchSpec.num_raises.
      rewrite H'. cbn. repeat split; auto. destruct b; reflexivity.
    - assert (H' : py_eq b (AStr (fold_s s)) = true) by (unfold SearchModel.fold_s; destruct cs; exact H).
      apply py_eq_str in H'. destruct H' as [i [Hb Hi]]. subst b.
      cbn [SearchSpec.atom_match SearchSpec.atom_raises SearchSpec.attrs_of].
      unfold SearchSpec.str_match, SearchSpec.str_raises. cbn [negb andb].
      repeat split; auto.
      destruct (match_string c); [exact Hi|]. apply pystr_eqb_eq in Hi. rewrite Hi. apply contains_sub_refl.
    - assert (H' : py_eq b (ABytes (fold_s s)) = true) by (unfold SearchModel.fold_s; destruct cs; exact H).
      apply py_eq_bytes in H'. destruct H' as [i [Hb Hi]]. subst b.
      cbn [SearchSpec.atom_match SearchSpec.atom_raises SearchSpec.attrs_of].
      unfold SearchSpec.str_match, SearchSpec.str_raises. cbn [negb andb].
      repeat split; auto.
      destruct (match_string c); [exact Hi|]. apply pystr_eqb_eq in Hi. rewrite Hi. apply contains_sub_refl.
  Qed.

  Lemma shortcut_local : forall a, shortcut (VAtom a) = true ->
    forall p ev, local_ev p (VAtom a) ev <-> ev = EvValue p (VAtom a).
  Proof.
    intros a H p ev. destruct (shortcut_facts a H) as [H1 [H2 H3]].
    rewrite local_ev_atom. rewrite H1, H2, H3. crush. noattr.
  Qed.

  Lemma thing_events_iff : forall srch x p' ev,
    In ev (thing_events srch x p') <->
    skip_this (type_of x) p' = false /\
    ((shortcut x = true /\ ev = EvValue p' x) \/ (shortcut x = false /\ In ev (srch p'))).
  Proof.
    intros srch x p' ev. unfold SearchModel.thing_events.
    destruct (skip_this (type_of x) p'); [crush|]. destruct (shortcut x); crush.
  Qed.

  (* ---------- the traversal ---------- *)

  Definition spec_ev (obj : value) (pre : path) (ev : event) : Prop :=
    item_excl = false /\
    exists rest w, get_at obj rest = Some w /\ vis pre obj rest = true /\ local_ev (pre ++ rest) w ev.

  Lemma vis_head : forall pre obj rest, vis pre obj rest = true -> path_excl pre = false.
  Proof.
    intros pre obj rest H. destruct rest; cbn in H; apply andb_true_iff in H; destruct H as [H _];
      apply negb_true_iff in H; exact H.
  Qed.

  Lemma child_atom : forall a s, child (VAtom a) s = None.
  Proof. intros a s. destruct s; reflexivity. Qed.

  Lemma get_at_atom : forall a rest w, get_at (VAtom a) rest = Some w -> rest = [] /\ w = VAtom a.
  Proof.
    intros a rest w H. destruct rest as [|s r]; cbn [get_at] in H.
    - inversion H. auto.
    - rewrite child_atom in H. discriminate.
  Qed.

  Lemma search_atom_iff : forall a pre ev, In ev (search_atom a pre) <-> spec_ev (VAtom a) pre ev.
  Proof.
    intros a pre ev. unfold SearchModel.search_atom, SearchModel.skip_item, spec_ev. split.
    - destruct (path_excl pre) eqn:E1; [intros []|]. destruct item_excl eqn:E2; [intros []|].
      cbn [orb]. intro H. apply search_leaf_iff in H. split; auto.
      exists [], (VAtom a). cbn. rewrite E1, app_nil_r. auto.
    - intros [Hi [rest [w [Hg [Hv Hl]]]]]. apply get_at_atom in Hg. destruct Hg; subst.
      apply vis_head in Hv. rewrite Hv, Hi. cbn [orb]. apply search_leaf_iff.
      rewrite app_nil_r in Hl. exact Hl.
  Qed.

  Lemma seq_case : forall (obj : value) (ys : list value) (srch : value -> path -> list event)
                          (evs : path -> list event),
    (forall i, child obj (SIdx i) = nth_error ys i) ->
    (forall k, child obj (SKey k) = None) ->
    (forall p ev, ~ local_ev p obj ev) ->
    (forall pre ev, In ev (evs pre) <->
                    exists i x, nth_error ys i = Some x /\ In ev (thing_events (srch x) x (pre ++ [SIdx i]))) ->
    (forall x, In x ys -> forall p' ev, In ev (srch x p') <-> spec_ev x p' ev) ->
    forall pre ev, In ev (if skip_item pre then [] else evs pre) <-> spec_ev obj pre ev.
  Proof.
    intros obj ys srch evs Hidx Hkey Hloc Hevs IH pre ev. unfold SearchModel.skip_item. split.
    - destruct (path_excl pre) eqn:E1; [intros []|]. destruct item_excl eqn:E2; [intros []|].
      cbn [orb]. intro H. apply Hevs in H. destruct H as [i [x [Hn H]]].
      apply thing_events_iff in H. destruct H as [Hsk H]. unfold SearchModel.skip_this in Hsk.
      apply orb_false_iff in Hsk. destruct Hsk as [Hp' Hty].
      split; auto. destruct H as [[Hsc Hev]|[Hsc Hin]].
      + exists [SIdx i], x. cbn [get_at SearchSpec.vis]. rewrite Hidx, Hn.
        cbn [step_is_idx]. rewrite E1, Hp', Hty. cbn. repeat split; auto.
        destruct (shortcut_atom x Hsc) as [a Ha]. subst x. apply shortcut_local; auto.
      + apply IH in Hin; [|eapply nth_error_In; eauto].
        destruct Hin as [_ [rest [w [Hg [Hv Hl]]]]].
        exists (SIdx i :: rest), w. cbn [get_at SearchSpec.vis]. rewrite Hidx, Hn.
        cbn [step_is_idx]. rewrite E1, Hty, Hv. cbn. repeat split; auto.
        rewrite <- app_assoc in Hl. exact Hl.
    - intros [Hi [rest [w [Hg [Hv Hl]]]]]. destruct rest as [|s r].
      + cbn in Hg. inversion Hg; subst w. exfalso. eapply Hloc; eauto.
      + cbn [get_at SearchSpec.vis] in Hg, Hv. destruct s as [k|i].
        { rewrite Hkey in Hg. discriminate. }
        rewrite Hidx in Hg, Hv. destruct (nth_error ys i) as [x|] eqn:Hn; [|discriminate].
        cbn [step_is_idx andb] in Hv.
        apply andb_true_iff in Hv. destruct Hv as [Hv1 Hv]. apply andb_true_iff in Hv. destruct Hv as [Hv2 Hv3].
        apply negb_true_iff in Hv1. apply negb_true_iff in Hv2.
        rewrite Hv1, Hi. cbn [orb]. apply Hevs. exists i, x. split; auto.
        apply thing_events_iff. split.
        { unfold SearchModel.skip_this. rewrite (vis_head _ _ _ Hv3), Hv2. reflexivity. }
        destruct (shortcut x) eqn:Hsc.
        * left. split; auto. destruct (shortcut_atom x Hsc) as [a Ha]. subst x.
          apply get_at_atom in Hg. destruct Hg; subst. apply (shortcut_local a Hsc) in Hl. exact Hl.
        * right. split; auto. apply IH; [eapply nth_error_In; eauto|]. split; auto.
          exists r, w. repeat split; auto. rewrite <- app_assoc. exact Hl.
  Qed.

  Definition iter_list (pre : path) :=
    fix go (xs : list value) (i : nat) : list event :=
      match xs with
      | [] => []
      | x :: r => (thing_events (search x) x (pre ++ [SIdx i]) ++ go r (S i))%list
      end.
  Definition iter_atoms (pre : path) :=
    fix go (xs : list atom) (i : nat) : list event :=
      match xs with
      | [] => []
      | a :: r => (thing_events (search_atom a) (VAtom a) (pre ++ [SIdx i]) ++ go r (S i))%list
      end.
  Definition iter_dict (pre : path) :=
    fix go (kvs : list (atom * value)) : list event :=
      match kvs with
      | [] => []
      | kv :: r => let p' := (pre ++ [SKey (fst kv)])%list in
                   (path_event p' (snd kv) ++ search (snd kv) p' ++ go r)%list
      end.

  Lemma search_list_eq : forall xs pre,
    search (VList xs) pre = if skip_item pre then [] else iter_list pre xs 0.
  Proof. reflexivity. Qed.
  Lemma search_tuple_eq : forall xs pre,
    search (VTuple xs) pre = if skip_item pre then [] else iter_list pre xs 0.
  Proof. reflexivity. Qed.
  Lemma search_set_eq : forall xs pre,
    search (VSet xs) pre = if skip_item pre then [] else iter_atoms pre xs 0.
  Proof. reflexivity. Qed.
  Lemma search_frozen_eq : forall xs pre,
    search (VFrozen xs) pre = if skip_item pre then [] else iter_atoms pre xs 0.
  Proof. reflexivity. Qed.
  Lemma search_dict_eq : forall kvs pre,
    search (VDict kvs) pre = if skip_item pre then [] else iter_dict pre kvs.
  Proof. reflexivity. Qed.
  Lemma search_atom_eq : forall a pre, search (VAtom a) pre = search_atom a pre.
  Proof. reflexivity. Qed.

  Lemma iter_list_in : forall pre xs n ev,
    In ev (iter_list pre xs n) <->
    exists i x, nth_error xs i = Some x /\ In ev (thing_events (search x) x (pre ++ [SIdx (n + i)])).
  Proof.
    intros pre xs. induction xs as [|x r IH]; intros n ev.
    - cbn. split; [intros []|]. intros [i [y [H _]]]. destruct i; discriminate.
    - cbn [iter_list]. rewrite in_app_iff. fold (iter_list pre). rewrite IH. split.
      + intros [H|[i [y [Hn H]]]].
        * exists 0, x. rewrite Nat.add_0_r. auto.
        * exists (S i), y. rewrite Nat.add_succ_r. auto.
      + intros [i [y [Hn H]]]. destruct i as [|i].
        * cbn in Hn. inversion Hn; subst y. rewrite Nat.add_0_r in H. auto.
        * right. exists i, y. rewrite Nat.add_succ_r in H. auto.
  Qed.

  Lemma iter_atoms_in : forall pre xs n ev,
    In ev (iter_atoms pre xs n) <->
    exists i x, nth_error (map VAtom xs) i = Some x
                /\ In ev (thing_events (search x) x (pre ++ [SIdx (n + i)])).
  Proof.
    intros pre xs. induction xs as [|a r IH]; intros n ev.
    - cbn. split; [intros []|]. intros [i [y [H _]]]. destruct i; discriminate.
    - cbn [iter_atoms map]. rewrite in_app_iff. fold (iter_atoms pre). rewrite IH. split.
      + intros [H|[i [y [Hn H]]]].
        * exists 0, (VAtom a). rewrite Nat.add_0_r. auto.
        * exists (S i), y. rewrite Nat.add_succ_r. auto.
      + intros [i [y [Hn H]]]. destruct i as [|i].
        * cbn in Hn. inversion Hn; subst y. rewrite Nat.add_0_r in H. auto.
        * right. exists i, y. rewrite Nat.add_succ_r in H. auto.
  Qed.

  Lemma iter_dict_in : forall pre kvs ev,
    In ev (iter_dict pre kvs) <->
    exists kv, In kv kvs /\ (In ev (path_event (pre ++ [SKey (fst kv)]) (snd kv))
                             \/ In ev (search (snd kv) (pre ++ [SKey (fst kv)]))).
  Proof.
    intros pre kvs ev. induction kvs as [|kv r IH].
    - cbn. split; [intros []|]. intros [kv [[] _]].
    - cbn [iter_dict]. fold (iter_dict pre). rewrite !in_app_iff, IH. split.
      + intros [H|[H|[kv' [Hin H]]]].
        * exists kv. split; [left|]; auto.
        * exists kv. split; [left|]; auto.
        * exists kv'. split; [right|]; auto.
      + intros [kv' [[Heq|Hin] H]].
        * subst kv'. destruct H; auto.
        * right. right. exists kv'. auto.
  Qed.

  Lemma attrs_of_nonatom : forall w n, In n (attrs_of w) -> exists a, w = VAtom a.
  Proof.
    intros w n H. unfold SearchSpec.attrs_of in H.
    destruct it as [[| | | | |]|]; try destruct H.
    destruct w as [a| | | | |]; try destruct H. eauto.
  Qed.

  Lemma local_ev_shape : forall p w ev, local_ev p w ev ->
    (exists a, w = VAtom a) \/ (exists kvs, w = VDict kvs).
  Proof.
    intros p w ev H. inversion H; subst; eauto.
    - destruct w; try discriminate; eauto.
    - destruct w; try discriminate; eauto.
    - left. eapply attrs_of_nonatom; eauto.
  Qed.

  Theorem search_iff : forall obj, wf obj = true ->
    forall pre ev, In ev (search obj pre) <-> spec_ev obj pre ev.
  Proof.
    induction obj as [a|xs IH|xs IH|kvs IH|xs|xs] using value_ind'; intros Hwf pre ev.
    - rewrite search_atom_eq. apply search_atom_iff.
    - rewrite search_list_eq.
      apply (seq_case (VList xs) xs (fun x => search x) (fun pre => iter_list pre xs 0)).
      + reflexivity.
      + reflexivity.
      + intros p e H. apply local_ev_shape in H. destruct H as [[a H]|[k H]]; discriminate.
      + intros pre' e. apply (iter_list_in pre' xs 0 e).
      + intros x Hin. rewrite Forall_forall in IH. apply IH; auto. eapply wf_list_inv; eauto.
    - rewrite search_tuple_eq.
      apply (seq_case (VTuple xs) xs (fun x => search x) (fun pre => iter_list pre xs 0)).
      + reflexivity.
      + reflexivity.
      + intros p e H. apply local_ev_shape in H. destruct H as [[a H]|[k H]]; discriminate.
      + intros pre' e. apply (iter_list_in pre' xs 0 e).
      + intros x Hin. rewrite Forall_forall in IH. apply IH; auto. eapply wf_list_inv; eauto.
    - (* dict *)
      rewrite search_dict_eq. destruct (wf_dict_inv kvs Hwf) as [Hnd Hwfc].
      rewrite Forall_forall in IH. unfold SearchModel.skip_item. split.
      + destruct (path_excl pre) eqn:E1; [intros []|]. destruct item_excl eqn:E2; [intros []|].
        cbn [orb]. intro H. apply iter_dict_in in H. destruct H as [[k ch] [Hin H]]. cbn [fst snd] in H.
        split; auto. destruct H as [H|H].
        * unfold SearchModel.path_event in H. apply path_test_iff in H.
          exists [], (VDict kvs). cbn [get_at SearchSpec.vis]. rewrite E1, app_nil_r. cbn.
          repeat split; auto. destruct H as [[H1 [H2|[]]]|[H1 H2]]; subst ev.
          -- eapply LPath; eauto.
          -- eapply LPathRaise; eauto.
        * apply (IH (k, ch) Hin (Hwfc _ Hin)) in H. destruct H as [_ [rest [w [Hg [Hv Hl]]]]].
          cbn [snd] in Hg, Hv.
          exists (SKey k :: rest), w. cbn [get_at SearchSpec.vis child].
          rewrite (find_key_in kvs k ch Hnd Hin). cbn [option_map snd step_is_idx andb negb].
          rewrite E1, Hv. cbn. repeat split; auto. rewrite <- app_assoc in Hl. exact Hl.
      + intros [Hi [rest [w [Hg [Hv Hl]]]]]. destruct rest as [|s r].
        * cbn in Hg. inversion Hg; subst w. cbn [SearchSpec.vis] in Hv.
          apply andb_true_iff in Hv. destruct Hv as [Hv _]. apply negb_true_iff in Hv.
          rewrite Hv, Hi. cbn [orb]. rewrite app_nil_r in Hl. apply iter_dict_in.
          inversion Hl as [Hm|Hr|n Hn Ht|kvs' k ch Hw Hink Hpm|kvs' k ch Hw Hink Htr].
          -- cbn in Hm. discriminate.
          -- cbn in Hr. discriminate.
          -- apply attrs_of_nonatom in Hn. destruct Hn; discriminate.
          -- inversion Hw; subst kvs'. exists (k, ch). split; auto. left. cbn [fst snd].
             unfold SearchModel.path_event. apply path_test_iff. left. split; [exact Hpm|left; auto].
          -- inversion Hw; subst kvs'. exists (k, ch). split; auto. left. cbn [fst snd].
             unfold SearchModel.path_event. apply path_test_iff. right. split; auto.
        * cbn [get_at SearchSpec.vis] in Hg, Hv. destruct s as [k|i]; [|discriminate].
          cbn [child] in Hg, Hv.
          destruct (find (fun kv => atom_eqb (fst kv) k) kvs) as [kv|] eqn:Hf; [|discriminate].
          apply find_key_some in Hf. destruct Hf as [Hin Hk]. cbn [option_map] in Hg, Hv.
          cbn [step_is_idx andb negb] in Hv. apply andb_true_iff in Hv. destruct Hv as [Hv1 Hv2].
          apply negb_true_iff in Hv1. rewrite Hv1, Hi. cbn [orb].
          apply iter_dict_in. exists kv. split; auto. right. rewrite Hk.
          apply (IH kv Hin (Hwfc _ Hin)). split; auto. exists r, w. repeat split; auto.
          rewrite <- app_assoc. exact Hl.
    - rewrite search_set_eq.
      apply (seq_case (VSet xs) (map VAtom xs) (fun x => search x) (fun pre => iter_atoms pre xs 0)).
      + intro i. cbn [child]. symmetry. apply nth_error_map_atom.
      + reflexivity.
      + intros p e H. apply local_ev_shape in H. destruct H as [[a H]|[k H]]; discriminate.
      + intros pre' e. apply (iter_atoms_in pre' xs 0 e).
      + intros x Hin. apply in_map_iff in Hin. destruct Hin as [a [Ha _]]. subst x.
        intros p' e. rewrite search_atom_eq. apply search_atom_iff.
    - rewrite search_frozen_eq.
      apply (seq_case (VFrozen xs) (map VAtom xs) (fun x => search x) (fun pre => iter_atoms pre xs 0)).
      + intro i. cbn [child]. symmetry. apply nth_error_map_atom.
      + reflexivity.
      + intros p e H. apply local_ev_shape in H. destruct H as [[a H]|[k H]]; discriminate.
      + intros pre' e. apply (iter_atoms_in pre' xs 0 e).
      + intros x Hin. apply in_map_iff in Hin. destruct Hin as [a [Ha _]]. subst x.
        intros p' e. rewrite search_atom_eq. apply search_atom_iff.
  Qed.
End Proofs.

(** C18, concurrency, part 2: linearizability of the lock-protected cache.

    For EVERY schedule of n threads, each executing a list of get / set calls
    whose code is [with self.lock: <statement-level body>] ([impl_locked]),
    every reachable configuration is explained by the SEQUENTIAL execution
    ([lrun]) of the calls in lock-acquisition order ([clog]):
    - lock free: the shared heap IS the heap after the logged calls;
    - lock held by t: the heap is the heap after the logged calls but the last,
      partially advanced by t: running the rest of t's body without interruption
      from the current heap yields exactly [hstep] of that last call;
    - every value a thread has been handed is the value the sequential execution
      returns for that call; the log restricted to a thread is its program
      prefix; no thread ever raises.
    What this needs from the code is the SHAPE [acquire; body; release] with all
    heap accesses inside the body: [conc_accesses_under_lock].  With the dict
    lookup moved in front of the acquire ([impl_readfirst]) it is false:
    [readfirst_get_refuted], [readfirst_set_refuted]. *)
From Coq Require Import List ZArith Bool Arith Lia Permutation.
Import ListNotations.
From DD Require Import Lfu.LfuModel Lfu.LfuSpec Lfu.LfuInv Lfu.LfuSpecProps Lfu.LfuProofs.
From DD Require Import Lfu.LfuHeapModel Lfu.LfuHeapProofs Lfu.LfuConcModel Lfu.LfuConcProofs.

(* ------------------------------------------------------------------ *)
(** * Lists *)
Lemma nth_error_upd_same {X} (l : list X) t x y : nth_error l t = Some y -> nth_error (upd l t x) t = Some x.
Proof.
  revert t. induction l as [|a r IH]; intros [|t] E; cbn in *; try discriminate; [reflexivity|].
  apply IH. exact E.
Qed.
Lemma nth_error_upd_other {X} (l : list X) t t' x : t' <> t -> nth_error (upd l t x) t' = nth_error l t'.
Proof.
  revert t t'. induction l as [|a r IH]; intros [|t] [|t'] N; cbn; try reflexivity; try congruence.
  apply IH. congruence.
Qed.
Lemma length_upd {X} (l : list X) t x : length (upd l t x) = length l.
Proof. revert t. induction l as [|a r IH]; intros [|t]; cbn; try reflexivity. rewrite IH. reflexivity. Qed.

Lemma proj_app {X} t (l1 l2 : list (tid * X)) : proj t (l1 ++ l2) = proj t l1 ++ proj t l2.
Proof. unfold proj. rewrite filter_app, map_app. reflexivity. Qed.
Lemma proj_one_same {X} t (x : X) : proj t [(t, x)] = [x].
Proof. unfold proj. cbn. rewrite Nat.eqb_refl. reflexivity. Qed.
Lemma proj_one_other {X} t t' (x : X) : t' <> t -> proj t' [(t, x)] = [].
Proof. intros N. unfold proj. cbn. destruct (Nat.eqb_spec t t'); [congruence|reflexivity]. Qed.

Section Gen.
Variable val : Type.
Local Notation heap := (heap val).
Local Notation op := (op val).
Local Notation prog := (prog val).
Local Notation cprog := (cprog val).
Local Notation thread := (thread val).
Local Notation config := (config val).

Lemma lrun_snoc (h : heap) (L : list (tid * op)) t o :
  lrun h (L ++ [(t, o)]) =
  match lrun h L with
  | Some (hs, res) => match hstep hs o with Some (h', r) => Some (h', res ++ [(t, r)]) | None => None end
  | None => None
  end.
Proof.
  revert h. induction L as [|[t1 o1] L IH]; intros h; cbn [app lrun].
  - destruct (hstep h o) as [[h' r]|]; reflexivity.
  - destruct (hstep h o1) as [[h1 r1]|]; cbn [bind fst snd]; [|reflexivity]. rewrite IH.
    destruct (lrun h1 L) as [[hs res]|]; cbn [bind fst snd]; [|reflexivity].
    destruct (hstep hs o) as [[h' r]|]; reflexivity.
Qed.

(** the get outputs of a labelled sequential run, as [hrun] lists them *)
Fixpoint gets_only (L : list (tid * op)) (res : list (tid * option val)) : list (option val) :=
  match L, res with
  | (_, OGet _) :: L', (_, r) :: res' => r :: gets_only L' res'
  | (_, OSet _ _) :: L', _ :: res' => gets_only L' res'
  | _, _ => []
  end.

Lemma lrun_hrun (h : heap) (L : list (tid * op)) :
  hrun h (map snd L) =
  match lrun h L with Some (h', res) => Some (h', gets_only L res) | None => None end.
Proof.
  revert h. induction L as [|[t o] L IH]; intros h; cbn [map snd hrun lrun]; [reflexivity|].
  destruct (hstep h o) as [[h1 r]|]; cbn [bind fst snd]; [|reflexivity]. rewrite IH.
  destruct (lrun h1 L) as [[h' res]|]; cbn [bind fst snd gets_only]; [|reflexivity].
  destruct o; reflexivity.
Qed.

(* ------------------------------------------------------------------ *)
(** * The invariant of the interleaving semantics *)
Section Conc.
Variable h0 : heap.                          (* the heap the threads start from *)
Variable progs : list (list op).             (* one list of calls per thread *)
Hypothesis Hsafe : forall L, lrun h0 L <> None.   (* no SEQUENTIAL execution raises *)

(** thread [t] with program [P], given who holds the lock, the log and the results of
    the completed logged calls *)
Definition tinv (P : list op) (lk : option tid) (L : list (tid * op)) (res : list (tid * option val))
                (t : tid) (th : thread) : Prop :=
  crashed th = false /\
  match cur th with
  | None => lk <> Some t /\ proj t L ++ todo th = P /\ outs th = proj t res
  | Some (o, c) =>
      (* called, not yet acquired *)
      (c = impl_locked o /\ lk <> Some t /\ proj t L ++ o :: todo th = P /\ outs th = proj t res)
      (* inside the critical section *)
   \/ (lk = Some t /\ proj t L ++ todo th = P /\ outs th = proj t res)
      (* released, about to return r *)
   \/ (exists r, c = CDone r /\ lk <> Some t /\ proj t L ++ todo th = P /\ outs th ++ [r] = proj t res)
  end.

(** as many threads as programs; only they appear in the log *)
Definition shape (ths : list thread) (L : list (tid * op)) : Prop :=
  length ths = length progs /\ Forall (fun x => fst x < length progs) L.

Lemma shape_upd ths L t th : shape ths L -> shape (upd ths t th) L.
Proof. intros [A B]. split; [rewrite length_upd; exact A|exact B]. Qed.
Lemma shape_log ths L t th y (o : op) : shape ths L -> nth_error ths t = Some y -> shape (upd ths t th) (L ++ [(t, o)]).
Proof.
  intros [A B] E. split; [rewrite length_upd; exact A|]. apply Forall_app. split; [exact B|].
  constructor; [|constructor]. cbn [fst]. rewrite <- A. apply nth_error_Some. congruence.
Qed.

Definition explained (cfg : config) : Prop :=
  exists Ld hs res,
    lrun h0 Ld = Some (hs, res) /\
    shape (threads cfg) (clog cfg) /\
    (forall t th P, nth_error (threads cfg) t = Some th -> nth_error progs t = Some P ->
                    tinv P (clock cfg) (clog cfg) res t th) /\
    match clock cfg with
    | None => clog cfg = Ld /\ cheap cfg = hs
    | Some t => exists th o p,
        nth_error (threads cfg) t = Some th /\ cur th = Some (o, embed p (@fin val)) /\
        clog cfg = Ld ++ [(t, o)] /\ interp p (cheap cfg) = hstep hs o
    end.

Lemma tinv_frame P lk lk' L L' res res' t' th' :
  (lk = Some t' <-> lk' = Some t') -> proj t' L' = proj t' L -> proj t' res' = proj t' res ->
  tinv P lk L res t' th' -> tinv P lk' L' res' t' th'.
Proof.
  intros Hlk HL Hres (Hc & Hp). split; [exact Hc|]. rewrite HL, Hres.
  assert (N : lk <> Some t' -> lk' <> Some t') by (intros A B; apply A, Hlk, B).
  destruct (cur th') as [[o c]|].
  - destruct Hp as [(A & B & C & D)|[(A & C & D)|(r & A & B & C & D)]].
    + left. auto.
    + right; left. split; [apply Hlk, A|auto].
    + right; right. exists r. auto.
  - destruct Hp as (B & C & D). auto.
Qed.

Lemma explained_init : explained (init h0 progs).
Proof.
  exists [], h0, []. split; [reflexivity|]. cbn [init threads clock clog cheap]. split; [split; [apply map_length|constructor]|].
  split; [|split; reflexivity].
  intros t th P E1 E2. rewrite nth_error_map, E2 in E1. cbn in E1. inversion E1; subst th.
  split; [reflexivity|]. cbn [cur todo outs]. split; [discriminate|]. split; reflexivity.
Qed.

(** a step of the thread that does not touch lock, log, heap *)
Lemma local_step cfg t th th' P :
  explained cfg ->
  nth_error (threads cfg) t = Some th -> nth_error progs t = Some P ->
  clock cfg <> Some t ->
  (forall res, tinv P (clock cfg) (clog cfg) res t th -> tinv P (clock cfg) (clog cfg) res t th') ->
  explained (with_thread cfg t th').
Proof.
  intros (Ld & hs & res & HL & Hlen & HT & HK) Eth EP Hlk Hstep.
  exists Ld, hs, res. split; [exact HL|]. unfold with_thread. cbn [threads clock clog cheap].
  split; [apply shape_upd; exact Hlen|]. split.
  - intros t' th1 P' E1 E2. destruct (Nat.eq_dec t' t) as [->|N].
    + rewrite (nth_error_upd_same _ _ _ _ Eth) in E1. inversion E1; subst th1.
      assert (P' = P) by congruence. subst P'. apply Hstep. exact (HT t th P Eth EP).
    + rewrite nth_error_upd_other in E1 by exact N. exact (HT t' th1 P' E1 E2).
  - destruct (clock cfg) as [u|]; [|exact HK].
    destruct HK as (thu & o & p & A & B & C & D). exists thu, o, p.
    rewrite nth_error_upd_other by (intros X; apply Hlk; rewrite X; reflexivity). auto.
Qed.

Theorem step_explained cfg t cfg' :
  explained cfg -> tstep (@impl_locked val) cfg t = Some cfg' -> explained cfg'.
Proof.
  intros HE Hs. pose proof HE as (Ld & hs & res & HL & Hlen & HT & HK).
  unfold tstep in Hs.
  destruct (nth_error (threads cfg) t) as [th|] eqn:Eth; [|discriminate].
  assert (exists P, nth_error progs t = Some P) as [P EP].
  { destruct (nth_error progs t) eqn:E; [eauto|]. apply nth_error_None in E.
    assert (t < length (threads cfg)) by (apply nth_error_Some; congruence). destruct Hlen; lia. }
  pose proof (HT t th P Eth EP) as (Hcr & Hph).
  destruct (cur th) as [[o c]|] eqn:Ecur.
  - destruct Hph as [(Ec & Hlk & Hpo & Hou)|[(Hlk & Hpo & Hou)|(r & Ec & Hlk & Hpo & Hou)]].
    + (* acquire *)
      subst c. cbn [impl_locked locked] in Hs.
      destruct (clock cfg) as [u|] eqn:Elk; [discriminate|]. inversion Hs; subst cfg'; clear Hs.
      destruct HK as [ELd Ehs].
      exists Ld, hs, res. split; [exact HL|]. cbn [threads clock clog cheap].
      split; [exact (shape_log _ _ t _ th o Hlen Eth)|]. split.
      * intros t' th1 P' E1 E2. destruct (Nat.eq_dec t' t) as [->|N].
        -- rewrite (nth_error_upd_same _ _ _ _ Eth) in E1. inversion E1; subst th1.
           assert (P' = P) by congruence. subst P'.
           split; [reflexivity|]. cbn [cur todo outs]. right; left. split; [reflexivity|].
           rewrite proj_app, proj_one_same, <- app_assoc. split; [exact Hpo|exact Hou].
        -- rewrite nth_error_upd_other in E1 by exact N.
           apply (tinv_frame P' None (Some t) (clog cfg) (clog cfg ++ [(t, o)]) res res).
           ++ split; intros A; [discriminate|congruence].
           ++ rewrite proj_app, proj_one_other by exact N. apply app_nil_r.
           ++ reflexivity.
           ++ exact (HT t' th1 P' E1 E2).
      * eexists _, o, (op_prog o). rewrite (nth_error_upd_same _ _ _ _ Eth). cbn [cur].
        split; [reflexivity|]. split; [reflexivity|]. split; [rewrite ELd; reflexivity|].
        rewrite Ehs. apply op_prog_interp.
    + (* inside the critical section *)
      rewrite Hlk in HK. destruct HK as (th0 & o0 & p & A & B & ELd & Hint).
      rewrite Eth in A. inversion A; subst th0. rewrite Ecur in B. inversion B; subst o0 c. clear A B.
      assert (Hseq : lrun h0 (clog cfg) =
                     match hstep hs o with Some (h', r) => Some (h', res ++ [(t, r)]) | None => None end).
      { rewrite ELd, lrun_snoc, HL. reflexivity. }
      destruct p as [r| |B pr k]; cbn [embed fin] in Hs.
      * (* release *)
        inversion Hs; subst cfg'; clear Hs. cbn [interp] in Hint. rewrite <- Hint in Hseq.
        exists (clog cfg), (cheap cfg), (res ++ [(t, r)]). split; [exact Hseq|]. cbn [threads clock clog cheap].
        split; [apply shape_upd; exact Hlen|]. rewrite Hlk. cbn [release_if]. rewrite Nat.eqb_refl. split; [|split; reflexivity].
        intros t' th1 P' E1 E2. destruct (Nat.eq_dec t' t) as [->|N].
        -- rewrite (nth_error_upd_same _ _ _ _ Eth) in E1. inversion E1; subst th1.
           assert (P' = P) by congruence. subst P'.
           split; [reflexivity|]. cbn [cur todo outs]. right; right. exists r. split; [reflexivity|].
           split; [discriminate|]. split; [exact Hpo|]. rewrite proj_app, proj_one_same, Hou. reflexivity.
        -- rewrite nth_error_upd_other in E1 by exact N.
           apply (tinv_frame P' (Some t) None (clog cfg) (clog cfg) res (res ++ [(t, r)])).
           ++ split; intros A; [congruence|discriminate].
           ++ reflexivity.
           ++ rewrite proj_app, proj_one_other by exact N. apply app_nil_r.
           ++ rewrite <- Hlk. exact (HT t' th1 P' E1 E2).
      * (* the body raises: then so does the sequential execution *)
        exfalso. cbn [interp] in Hint. rewrite <- Hint in Hseq. exact (Hsafe _ Hseq).
      * (* one heap access *)
        cbn [interp] in Hint.
        destruct (sem pr (cheap cfg)) as [[h1 b]|] eqn:Esem.
        -- inversion Hs; subst cfg'; clear Hs.
           exists Ld, hs, res. split; [exact HL|]. cbn [threads clock clog cheap].
           split; [apply shape_upd; exact Hlen|]. split.
           ++ intros t' th1 P' E1 E2. destruct (Nat.eq_dec t' t) as [->|N].
              ** rewrite (nth_error_upd_same _ _ _ _ Eth) in E1. inversion E1; subst th1.
                 assert (P' = P) by congruence. subst P'.
                 split; [reflexivity|]. cbn [cur todo outs]. right; left. auto.
              ** rewrite nth_error_upd_other in E1 by exact N. exact (HT t' th1 P' E1 E2).
           ++ rewrite Hlk. eexists _, o, (k b). rewrite (nth_error_upd_same _ _ _ _ Eth). cbn [cur]. auto.
        -- exfalso. rewrite <- Hint in Hseq. exact (Hsafe _ Hseq).
    + (* return *)
      subst c. inversion Hs; subst cfg'; clear Hs.
      apply (local_step cfg t th _ P HE Eth EP Hlk).
      intros res1 (_ & Hp). rewrite Ecur in Hp. split; [reflexivity|]. cbn [cur todo outs].
      destruct Hp as [(A & _)|[(A & _)|(r1 & A & B & C & D)]]; [discriminate|congruence|].
      inversion A; subst r1. auto.
  - (* call *)
    destruct Hph as (Hlk & Hpo & Hou).
    destruct (todo th) as [|o r] eqn:Etodo; [discriminate|]. inversion Hs; subst cfg'; clear Hs.
    apply (local_step cfg t th _ P HE Eth EP Hlk).
    intros res1 (_ & Hp). rewrite Ecur, Etodo in Hp. split; [reflexivity|]. cbn [cur todo outs].
    left. destruct Hp as (A & B & C). auto.
Qed.

Theorem exec_explained sch : forall cfg cfg',
  explained cfg -> exec (@impl_locked val) cfg sch = Some cfg' -> explained cfg'.
Proof.
  induction sch as [|t r IH]; intros cfg cfg' HE Hx; cbn [exec] in Hx.
  - inversion Hx; subst; exact HE.
  - destruct (tstep (@impl_locked val) cfg t) as [cfg1|] eqn:E; [|discriminate].
    exact (IH cfg1 cfg' (step_explained cfg t cfg1 HE E) Hx).
Qed.

Theorem reach_explained sch cfg :
  exec (@impl_locked val) (init h0 progs) sch = Some cfg -> explained cfg.
Proof. exact (exec_explained sch _ cfg explained_init). Qed.

Lemma explained_prog cfg t th : explained cfg -> nth_error (threads cfg) t = Some th -> exists P, nth_error progs t = Some P.
Proof.
  intros (Ld & hs & res & _ & [Hlen _] & _) E. destruct (nth_error progs t) eqn:E2; [eauto|].
  apply nth_error_None in E2. assert (t < length (threads cfg)) by (apply nth_error_Some; congruence). lia.
Qed.

(** no call ever raises *)
Theorem explained_no_crash cfg : explained cfg -> any_crashed cfg = false.
Proof.
  intros HE. unfold any_crashed. destruct (existsb (@crashed val) (threads cfg)) eqn:X; [|reflexivity].
  apply existsb_exists in X. destruct X as (th & Hin & Hc). apply In_nth_error in Hin. destruct Hin as [t E].
  destruct (explained_prog cfg t th HE E) as [P EP].
  destruct HE as (Ld & hs & res & _ & _ & HT & _). destruct (HT t th P E EP) as [A _]. congruence.
Qed.

(** what the proof uses of the code's shape: a thread whose next step is a heap access holds the lock *)
Theorem explained_under_lock cfg t th o B (pr : prim val B) k :
  explained cfg -> nth_error (threads cfg) t = Some th -> cur th = Some (o, CAct pr k) -> clock cfg = Some t.
Proof.
  intros HE E Ec. destruct (explained_prog cfg t th HE E) as [P EP].
  destruct HE as (Ld & hs & res & _ & _ & HT & _). destruct (HT t th P E EP) as [_ Hp]. rewrite Ec in Hp.
  destruct Hp as [(A & _)|[(A & _)|(r & A & _)]]; [discriminate|exact A|discriminate].
Qed.

(** when every thread has finished: the heap is the result of the sequential execution in
    lock-acquisition order, the log is an interleaving of the programs, every returned value
    is the sequential one *)
Theorem explained_done cfg : explained cfg -> all_done cfg = true ->
  exists res,
    lrun h0 (clog cfg) = Some (cheap cfg, res) /\
    Forall (fun x => fst x < length progs) (clog cfg) /\
    forall t th P, nth_error (threads cfg) t = Some th -> nth_error progs t = Some P ->
                   proj t (clog cfg) = P /\ outs th = proj t res /\ crashed th = false.
Proof.
  intros (Ld & hs & res & HL & [Hlen Hlog] & HT & HK) Hd. unfold all_done in Hd. rewrite forallb_forall in Hd.
  destruct (clock cfg) as [u|] eqn:Elk.
  - exfalso. destruct HK as (th & o & p & A & B & _). apply nth_error_In in A. apply Hd in A.
    unfold thread_done in A. rewrite B in A. discriminate.
  - destruct HK as [ELd Ehs]. exists res. rewrite <- ELd, <- Ehs in HL. split; [exact HL|]. split; [exact Hlog|].
    intros t th P E EP. destruct (HT t th P E EP) as [Hc Hp]. apply nth_error_In in E. apply Hd in E.
    unfold thread_done in E. destruct (cur th); [discriminate|]. destruct (todo th); [|discriminate].
    destruct Hp as (_ & A & B). rewrite app_nil_r in A. auto.
Qed.

(** no deadlock: as long as some thread has not finished, some thread can step *)
Theorem explained_progress cfg : explained cfg -> all_done cfg = false ->
  exists t cfg', tstep (@impl_locked val) cfg t = Some cfg'.
Proof.
  intros HE Hd. pose proof HE as (Ld & hs & res & HL & Hlen & HT & HK).
  destruct (clock cfg) as [u|] eqn:Elk.
  - destruct HK as (th & o & p & A & B & _). exists u. unfold tstep. rewrite A, B.
    destruct p as [r| |X pr k]; cbn [embed fin]; [eauto|eauto|]. destruct (sem pr (cheap cfg)) as [[h1 b]|]; eauto.
  - unfold all_done in Hd. assert (exists th, In th (threads cfg) /\ thread_done th = false) as (th & Hin & Hth).
    { clear - Hd. induction (threads cfg) as [|a r IH]; cbn in Hd; [discriminate|].
      destruct (thread_done a) eqn:E; [|exists a; split; [left; reflexivity|exact E]].
      destruct (IH Hd) as (x & A & B). exists x. split; [right; exact A|exact B]. }
    apply In_nth_error in Hin. destruct Hin as [t E]. destruct (explained_prog cfg t th HE E) as [P EP].
    destruct (HT t th P E EP) as [_ Hp]. exists t. unfold tstep. rewrite E. unfold thread_done in Hth.
    destruct (cur th) as [[o c]|].
    + destruct Hp as [(A & _)|[(A & _)|(r & A & _)]]; [|discriminate|].
      * subst c. cbn [impl_locked locked]. rewrite Elk. eauto.
      * subst c. eauto.
    + destruct (todo th); [discriminate|eauto].
Qed.

End Conc.

(* ------------------------------------------------------------------ *)
(** * The LFU cache: from the empty cache no sequential execution raises
      (LfuHeapProofs.heap_refines), so the invariant holds for every schedule *)

Lemma lfu_safe c : 1 <= c -> forall L : list (tid * op), lrun (hempty c) L <> None.
Proof.
  intros Hc L E. destruct (heap_refines val c (map snd L) Hc) as (h' & Hr & _).
  rewrite lrun_hrun, E in Hr. discriminate.
Qed.

(** the sequential execution in log order: heap, representation, outputs *)
Lemma lfu_seq c (L : list (tid * op)) hs res : 1 <= c ->
  lrun (hempty c) L = Some (hs, res) ->
  heap_repr hs (state_of c (map snd L)) /\
  gets_only L res = snd (srun (sempty c) (map snd L)).
Proof.
  intros Hc E. destruct (heap_refines val c (map snd L) Hc) as (h' & Hr & HR).
  rewrite lrun_hrun, E in Hr. inversion Hr; subst h'. split; [exact HR|].
  rewrite <- (proj1 (lfu_refines_spec c (map snd L) Hc)). congruence.
Qed.

(** EVERY schedule, every reachable configuration *)
Theorem conc_every_state c (progs : list (list op)) sch cfg : 1 <= c ->
  exec (@impl_locked val) (init (hempty c) progs) sch = Some cfg ->
  any_crashed cfg = false /\
  exists Ld hs res,
    lrun (hempty c) Ld = Some (hs, res) /\
    heap_repr hs (state_of c (map snd Ld)) /\
    gets_only Ld res = snd (srun (sempty c) (map snd Ld)) /\
    (forall t th, nth_error (threads cfg) t = Some th ->
       exists pending, outs th ++ pending = proj t res /\ length pending <= 1) /\
    match clock cfg with
    | None => clog cfg = Ld /\ cheap cfg = hs
    | Some t => exists th o p,
        nth_error (threads cfg) t = Some th /\ cur th = Some (o, embed p (@fin val)) /\
        clog cfg = Ld ++ [(t, o)] /\ interp p (cheap cfg) = hstep hs o
    end.
Proof.
  intros Hc Hx. pose proof (reach_explained (hempty c) progs (lfu_safe c Hc) sch cfg Hx) as HE.
  split; [exact (explained_no_crash _ _ cfg HE)|].
  pose proof HE as (Ld & hs & res & HL & Hsh & HT & HK). exists Ld, hs, res.
  destruct (lfu_seq c Ld hs res Hc HL) as [A B]. split; [exact HL|]. split; [exact A|]. split; [exact B|].
  split; [|exact HK].
  intros t th E. destruct (explained_prog _ _ cfg t th HE E) as [P EP]. destruct (HT t th P E EP) as [_ Hp].
  destruct (cur th) as [[o c0]|].
  - destruct Hp as [(_ & _ & _ & D)|[(_ & _ & D)|(r & _ & _ & _ & D)]].
    + exists []. rewrite app_nil_r. split; [exact D|cbn; lia].
    + exists []. rewrite app_nil_r. split; [exact D|cbn; lia].
    + exists [r]. split; [exact D|cbn; lia].
  - destruct Hp as (_ & _ & D). exists []. rewrite app_nil_r. split; [exact D|cbn; lia].
Qed.

(** EVERY schedule that runs all threads to completion: linearizability, with the lock
    acquisitions as linearization points *)
Theorem conc_linearizable c (progs : list (list op)) sch cfg : 1 <= c ->
  exec (@impl_locked val) (init (hempty c) progs) sch = Some cfg -> all_done cfg = true ->
  exists res,
    lrun (hempty c) (clog cfg) = Some (cheap cfg, res) /\
    Forall (fun x => fst x < length progs) (clog cfg) /\
    (forall t th P, nth_error (threads cfg) t = Some th -> nth_error progs t = Some P ->
       proj t (clog cfg) = P /\ outs th = proj t res /\ crashed th = false) /\
    heap_repr (cheap cfg) (state_of c (map snd (clog cfg))) /\
    gets_only (clog cfg) res = snd (srun (sempty c) (map snd (clog cfg))).
Proof.
  intros Hc Hx Hd. pose proof (reach_explained (hempty c) progs (lfu_safe c Hc) sch cfg Hx) as HE.
  destruct (explained_done _ _ cfg HE Hd) as (res & HL & Hlog & HT). exists res.
  destruct (lfu_seq c _ _ res Hc HL) as [A B]. auto.
Qed.

Theorem conc_accesses_under_lock c (progs : list (list op)) sch cfg t th o B (pr : prim val B) k : 1 <= c ->
  exec (@impl_locked val) (init (hempty c) progs) sch = Some cfg ->
  nth_error (threads cfg) t = Some th -> cur th = Some (o, CAct pr k) -> clock cfg = Some t.
Proof.
  intros Hc Hx. exact (explained_under_lock _ _ cfg t th o B pr k (reach_explained (hempty c) progs (lfu_safe c Hc) sch cfg Hx)).
Qed.

Theorem conc_no_deadlock c (progs : list (list op)) sch cfg : 1 <= c ->
  exec (@impl_locked val) (init (hempty c) progs) sch = Some cfg -> all_done cfg = false ->
  exists t cfg', tstep (@impl_locked val) cfg t = Some cfg'.
Proof.
  intros Hc Hx. exact (explained_progress _ _ cfg (reach_explained (hempty c) progs (lfu_safe c Hc) sch cfg Hx)).
Qed.

(** hence: whenever the lock is free, the shared heap represents a cache state that
    satisfies the bounded-LFU invariants (the state after the logged calls) *)
Theorem conc_quiescent_invariants c (progs : list (list op)) sch cfg : 1 <= c ->
  exec (@impl_locked val) (init (hempty c) progs) sch = Some cfg -> clock cfg = None ->
  let s := state_of c (map snd (clog cfg)) in
  heap_repr (cheap cfg) s /\
  Sorted.StronglySorted lt (map freq (buckets s)) /\
  Forall (fun b => items b <> []) (buckets s) /\
  NoDup (map fst (flat_map items (buckets s))) /\
  size s <= cap s /\ cap s = c.
Proof.
  intros Hc Hx Hl. destruct (conc_every_state c progs sch cfg Hc Hx) as (_ & Ld & hs & res & _ & HR & _ & _ & HK).
  rewrite Hl in HK. destruct HK as [E1 E2]. rewrite E1, E2. split; [exact HR|].
  exact (lfu_inv c (map snd Ld) Hc).
Qed.

End Gen.

(* ------------------------------------------------------------------ *)
(** * The shape [acquire; body; release] is needed: with the dict lookup in front of
      the acquire ([impl_readfirst]) there are schedules that break the cache *)
Local Open Scope Z_scope.

(** two threads set the same absent key: both lookups say "absent", both create a node *)
Definition rf_set_progs : list (list (op Z)) := [[OSet 1 10]; [OSet 1 20]].
Definition rf_set_sched : list tid := [0; 0; 1; 1]%nat ++ repeat 0%nat 15 ++ repeat 1%nat 16.
Definition rf_set_final : config Z :=
  Eval vm_compute in exec_skip (@impl_readfirst Z) (init (hempty 2) rf_set_progs) rf_set_sched.

Lemma rf_set_no_repr : forall s, ~ heap_repr (cheap rf_set_final) s.
Proof.
  intros s (sh & W & _). destruct W as (HF & HH & _ & _ & HD & _).
  destruct sh as [|[fi [f its]] r]; [discriminate HH|].
  cbn [hdid fid fst] in HH. assert (fi = 0%nat) by (inversion HH; reflexivity). subst fi.
  unfold flist in HF. cbn [dseg] in HF. destruct HF as [[Hf Hc] _]. cbn [fid ffr fits fst snd] in Hf, Hc.
  assert (E0 : fget (cheap rf_set_final) 0%nat = Some (mkF 0%nat None None (Some 0%nat) (Some 1%nat))) by reflexivity.
  rewrite E0 in Hf. inversion Hf as [[A B C D]]. clear Hf E0.
  destruct its as [|a its]; [discriminate C|]. cbn [hdid] in C. 
  unfold clist in Hc. cbn [dseg] in Hc. destruct Hc as [Ha _]. unfold cP in Ha.
  assert (cid a = 0%nat) by (inversion C; reflexivity).
  assert (E1 : cget (cheap rf_set_final) 0%nat = Some (mkC 1 10 (Some 0%nat) None (Some 1%nat))) by reflexivity.
  rewrite H, E1 in Ha. inversion Ha as [[K1 K2 K3]].
  destruct its as [|a1 its]; [discriminate K3|].
  apply Permutation_length in HD. unfold pairs in HD. rewrite map_length, all_c_cons in HD.
  cbn [fits snd] in HD. rewrite app_length in HD. cbn in HD. lia.
Qed.

Theorem readfirst_set_refuted :
  exists (c : nat) (progs : list (list (op Z))) (sch : list tid) (cfg : config Z),
    (1 <= c)%nat /\
    exec (@impl_readfirst Z) (init (hempty c) progs) sch = Some cfg /\
    all_done cfg = true /\ any_crashed cfg = false /\
    forall s, ~ heap_repr (cheap cfg) s.
Proof.
  exists 2%nat, rf_set_progs, rf_set_sched, rf_set_final.
  split; [lia|]. split; [vm_compute; reflexivity|]. split; [reflexivity|]. split; [reflexivity|].
  exact rf_set_no_repr.
Qed.

(** a get looks its key up, another thread's set evicts that key, the get goes on with the
    stale node: AttributeError ([self.pre.nxt] on None in free_myself) *)
Definition rf_get_progs : list (list (op Z)) := [[OSet 1 10; OSet 2 20; OGet 1]; [OSet 3 30]].
Definition rf_get_sched : list tid := repeat 0%nat 37 ++ repeat 1%nat 29 ++ repeat 0%nat 7.

Theorem readfirst_get_refuted :
  exists (c : nat) (progs : list (list (op Z))) (sch : list tid) (cfg : config Z),
    (1 <= c)%nat /\
    exec (@impl_readfirst Z) (init (hempty c) progs) sch = Some cfg /\
    any_crashed cfg = true.
Proof.
  exists 2%nat, rf_get_progs, rf_get_sched.
  eexists. split; [lia|]. split; [vm_compute; reflexivity|]. vm_compute. reflexivity.
Qed.

(** the SAME two schedules under the real code (lock around the whole body): the second
    thread simply waits; non-vacuity of the theorems above (a complete interleaved schedule exists) *)
Example ex_conc_schedule :
  let cfg := exec_skip (@impl_locked Z) (init (hempty 2) rf_get_progs)
               (repeat 0%nat 37 ++ repeat 1%nat 29 ++ repeat 0%nat 40 ++ repeat 1%nat 40) in
  all_done cfg = true /\ any_crashed cfg = false /\
  clog cfg = [(0%nat, OSet 1 10); (0%nat, OSet 2 20); (0%nat, OGet 1); (1%nat, OSet 3 30)] /\
  map (@outs Z) (threads cfg) = [[None; None; Some 10]; [None]].
Proof. vm_compute. repeat split; reflexivity. Qed.

Example ex_conc_strict :
  exists sch cfg, exec (@impl_locked Z) (init (hempty 2) rf_set_progs) sch = Some cfg /\ all_done cfg = true /\
                  clog cfg = [(1%nat, OSet 1 20); (0%nat, OSet 1 10)].
Proof.
  exists ([0; 1; 1]%nat ++ repeat 1%nat 15 ++ repeat 0%nat 5). eexists.
  split; [vm_compute; reflexivity|]. split; reflexivity.
Qed.

(** C18, concurrency with ALL entry points as calls (LfuConcGModel.v): the invariant of
    LfuConcLin.v for a generic call type with locking calls ([glocked (body o)], body =
    sequential step) and lock-free single-read calls; then the LFUCache instance:
    get / set(key, report_type, value) under the lock, [key in cache] without. *)
From Coq Require Import List ZArith Bool Arith Lia Permutation.
Import ListNotations.
From DD Require Import Lfu.LfuModel Lfu.LfuSpec Lfu.LfuInv Lfu.LfuSpecProps Lfu.LfuProofs Lfu.LfuRtModel Lfu.LfuRtProofs.
From DD Require Import Lfu.LfuHeapModel Lfu.LfuHeapProofs Lfu.LfuConcModel Lfu.LfuConcProofs Lfu.LfuConcLin.
From DD Require Import Lfu.LfuAuxModel Lfu.LfuAuxProofs Lfu.LfuConcGModel.

Section G.
Variables (val O R : Type).
Variable reader : O -> bool.
Variable impl : O -> gcode val R.
Variable sstep : heap val -> O -> option (heap val * R).
Variable body : O -> prog val R.
(* locking calls: with lock: body, and the body run uninterrupted is the sequential step *)
Hypothesis Hlocked : forall o, reader o = false -> impl o = glocked (body o) /\ forall h, interp (body o) h = sstep h o.
(* lock-free calls: ONE read that never fails and changes nothing *)
Variable rB : O -> Type.
Variable rprim : forall o, prim val (rB o).
Variable rfun : forall o, rB o -> R.
Hypothesis Hreader : forall o, reader o = true ->
  impl o = GAct (rprim o) (fun b => GDone val (rfun o b)) /\ forall h, exists b, sem (rprim o) h = Some (h, b).

(* any property of (heap at the acquisition, call, current heap, rest of the body) that holds at
   the acquisition and is preserved by each heap access of the body holds throughout the
   critical section *)
Variable Q : heap val -> O -> heap val -> prog val R -> Prop.
Hypothesis HQinit : forall hs o, Q hs o hs (body o).
Hypothesis HQstep : forall hs o h B (pr : prim val B) (k : B -> prog val R) h1 b,
  Q hs o h (Act pr k) -> sem pr h = Some (h1, b) -> Q hs o h1 (k b).

Local Notation gthread := (gthread val O R).
Local Notation gconfig := (gconfig val O R).
Local Notation gtstep := (gtstep reader impl).
Local Notation glrun := (glrun sstep).
Local Notation lk_ops := (lk_ops reader).

Lemma glrun_snoc (h : heap val) (L : list (tid * O)) t o :
  glrun h (L ++ [(t, o)]) =
  match glrun h L with
  | Some (hs, res) => match sstep hs o with Some (h', r) => Some (h', res ++ [(t, r)]) | None => None end
  | None => None
  end.
Proof.
  revert h. induction L as [|[t1 o1] L IH]; intros h; cbn [app LfuConcGModel.glrun].
  - destruct (sstep h o) as [[h' r]|]; reflexivity.
  - destruct (sstep h o1) as [[h1 r1]|]; cbn [bind fst snd]; [|reflexivity]. rewrite IH.
    destruct (LfuConcGModel.glrun sstep h1 L) as [[hs res]|]; cbn [bind fst snd]; [|reflexivity].
    destruct (sstep hs o) as [[h' r]|]; reflexivity.
Qed.

Section Conc.
Variable h0 : heap val.
Variable progs : list (list O).
Hypothesis Hsafe : forall L, glrun h0 L <> None.

Definition gtinv (P : list O) (lk : option tid) (L : list (tid * O)) (res : list (tid * R)) (t : tid) (th : gthread) : Prop :=
  gcrashed th = false /\
  match gcur th with
  | None => lk <> Some t /\ proj t L ++ lk_ops (gtodo th) = lk_ops P /\ gouts th = proj t res
  | Some (o, c) =>
      if reader o then
        lk <> Some t /\ (c = impl o \/ exists r, c = GDone val r) /\
        proj t L ++ lk_ops (gtodo th) = lk_ops P /\ gouts th = proj t res
      else
        (c = impl o /\ lk <> Some t /\ proj t L ++ o :: lk_ops (gtodo th) = lk_ops P /\ gouts th = proj t res)
     \/ (lk = Some t /\ proj t L ++ lk_ops (gtodo th) = lk_ops P /\ gouts th = proj t res)
     \/ (exists r, c = GDone val r /\ lk <> Some t /\ proj t L ++ lk_ops (gtodo th) = lk_ops P /\ gouts th ++ [r] = proj t res)
  end.

Definition gshape (ths : list gthread) (L : list (tid * O)) : Prop :=
  length ths = length progs /\ Forall (fun x => fst x < length progs) L.
Lemma gshape_upd ths L t th : gshape ths L -> gshape (upd ths t th) L.
Proof. intros [A B]. split; [rewrite length_upd; exact A|exact B]. Qed.
Lemma gshape_log ths L t th y (o : O) : gshape ths L -> nth_error ths t = Some y -> gshape (upd ths t th) (L ++ [(t, o)]).
Proof.
  intros [A B] E. split; [rewrite length_upd; exact A|]. apply Forall_app. split; [exact B|].
  constructor; [|constructor]. cbn [fst]. rewrite <- A. apply nth_error_Some. congruence.
Qed.

Definition gexplained (cfg : gconfig) : Prop :=
  exists Ld hs res,
    glrun h0 Ld = Some (hs, res) /\
    gshape (gthreads cfg) (glog cfg) /\
    (forall t th P, nth_error (gthreads cfg) t = Some th -> nth_error progs t = Some P ->
                    gtinv P (glock cfg) (glog cfg) res t th) /\
    match glock cfg with
    | None => glog cfg = Ld /\ gheap cfg = hs
    | Some t => exists th o p,
        nth_error (gthreads cfg) t = Some th /\ reader o = false /\ gcur th = Some (o, gembed p (@gfin val R)) /\
        glog cfg = Ld ++ [(t, o)] /\ interp p (gheap cfg) = sstep hs o /\ Q hs o (gheap cfg) p
    end.

Lemma gtinv_frame P lk lk' L L' res res' t' th' :
  (lk = Some t' <-> lk' = Some t') -> proj t' L' = proj t' L -> proj t' res' = proj t' res ->
  gtinv P lk L res t' th' -> gtinv P lk' L' res' t' th'.
Proof.
  intros Hlk HL Hres (Hc & Hp). split; [exact Hc|]. rewrite HL, Hres.
  assert (N : lk <> Some t' -> lk' <> Some t') by (intros A B; apply A, Hlk, B).
  destruct (gcur th') as [[o c]|].
  - destruct (reader o).
    + destruct Hp as (A & B & C & D). auto.
    + destruct Hp as [(A & B & C & D)|[(A & C & D)|(r & A & B & C & D)]].
      * left. auto.
      * right; left. split; [apply Hlk, A|auto].
      * right; right. exists r. auto.
  - destruct Hp as (B & C & D). auto.
Qed.

Lemma gexplained_init : gexplained (@ginit val O R h0 progs).
Proof.
  exists [], h0, []. split; [reflexivity|]. cbn [ginit gthreads glock glog gheap]. split; [split; [apply map_length|constructor]|].
  split; [|split; reflexivity].
  intros t th P E1 E2. rewrite nth_error_map, E2 in E1. cbn in E1. inversion E1; subst th.
  split; [reflexivity|]. cbn [gcur gtodo gouts]. split; [discriminate|]. split; reflexivity.
Qed.

Lemma glocal_step cfg t th th' P :
  gexplained cfg ->
  nth_error (gthreads cfg) t = Some th -> nth_error progs t = Some P ->
  glock cfg <> Some t ->
  (forall res, gtinv P (glock cfg) (glog cfg) res t th -> gtinv P (glock cfg) (glog cfg) res t th') ->
  gexplained (gwith_thread cfg t th').
Proof.
  intros (Ld & hs & res & HL & Hlen & HT & HK) Eth EP Hlk Hstep.
  exists Ld, hs, res. split; [exact HL|]. unfold gwith_thread. cbn [gthreads glock glog gheap].
  split; [apply gshape_upd; exact Hlen|]. split.
  - intros t' th1 P' E1 E2. destruct (Nat.eq_dec t' t) as [->|N].
    + rewrite (nth_error_upd_same _ _ _ _ Eth) in E1. inversion E1; subst th1.
      assert (P' = P) by congruence. subst P'. apply Hstep. exact (HT t th P Eth EP).
    + rewrite nth_error_upd_other in E1 by exact N. exact (HT t' th1 P' E1 E2).
  - destruct (glock cfg) as [u|]; [|exact HK].
    destruct HK as (thu & o & p & A & A' & B & C & D & D'). exists thu, o, p.
    rewrite nth_error_upd_other by (intros X; apply Hlk; rewrite X; reflexivity). auto 10.
Qed.

Theorem gstep_explained cfg t cfg' :
  gexplained cfg -> gtstep cfg t = Some cfg' -> gexplained cfg'.
Proof.
  intros HE Hs. pose proof HE as (Ld & hs & res & HL & Hlen & HT & HK).
  unfold LfuConcGModel.gtstep in Hs.
  destruct (nth_error (gthreads cfg) t) as [th|] eqn:Eth; [|discriminate].
  assert (exists P, nth_error progs t = Some P) as [P EP].
  { destruct (nth_error progs t) eqn:E; [eauto|]. apply nth_error_None in E.
    assert (t < length (gthreads cfg)) by (apply nth_error_Some; congruence). destruct Hlen; lia. }
  pose proof (HT t th P Eth EP) as (Hcr & Hph).
  destruct (gcur th) as [[o c]|] eqn:Ecur.
  - destruct (reader o) eqn:Er.
    + (* a lock-free call *)
      destruct Hph as (Hlk & Hc & Hpo & Hou). destruct (Hreader o Er) as [Ei Hr].
      destruct Hc as [Ec|[r Ec]]; subst c.
      * (* its single read *)
        rewrite Ei in Hs. destruct (Hr (gheap cfg)) as [b Eb]. rewrite Eb in Hs. inversion Hs; subst cfg'; clear Hs.
        change (gexplained (gwith_thread cfg t (mkGT (gtodo th) (Some (o, GDone val (rfun o b))) (gouts th) (gobs th) false))).
        apply (glocal_step cfg t th _ P HE Eth EP Hlk).
        intros res1 (_ & Hp). rewrite Ecur, Er in Hp. split; [reflexivity|]. cbn [gcur gtodo gouts]. rewrite Er.
        destruct Hp as (A & _ & C & D). split; [exact A|]. split; [right; eauto|auto].
      * (* return *)
        try rewrite Er in Hs. inversion Hs; subst cfg'; clear Hs.
        apply (glocal_step cfg t th _ P HE Eth EP Hlk).
        intros res1 (_ & Hp). rewrite Ecur, Er in Hp. split; [reflexivity|]. cbn [gcur gtodo gouts].
        destruct Hp as (A & _ & C & D). auto.
    + destruct (Hlocked o Er) as [Ei Hb].
      destruct Hph as [(Ec & Hlk & Hpo & Hou)|[(Hlk & Hpo & Hou)|(r & Ec & Hlk & Hpo & Hou)]].
      * (* acquire *)
        subst c. rewrite Ei in Hs. cbn [glocked] in Hs.
        destruct (glock cfg) as [u|] eqn:Elk; [discriminate|]. inversion Hs; subst cfg'; clear Hs.
        destruct HK as [ELd Ehs].
        exists Ld, hs, res. split; [exact HL|]. cbn [gthreads glock glog gheap].
        split; [exact (gshape_log _ _ t _ th o Hlen Eth)|]. split.
        -- intros t' th1 P' E1 E2. destruct (Nat.eq_dec t' t) as [->|N].
           ++ rewrite (nth_error_upd_same _ _ _ _ Eth) in E1. inversion E1; subst th1.
              assert (P' = P) by congruence. subst P'.
              split; [reflexivity|]. cbn [gcur gtodo gouts]. rewrite Er. right; left. split; [reflexivity|].
              rewrite proj_app, proj_one_same, <- app_assoc. split; [exact Hpo|exact Hou].
           ++ rewrite nth_error_upd_other in E1 by exact N.
              apply (gtinv_frame P' None (Some t) (glog cfg) (glog cfg ++ [(t, o)]) res res).
              ** split; intros A; [discriminate|congruence].
              ** rewrite proj_app, proj_one_other by exact N. apply app_nil_r.
              ** reflexivity.
              ** exact (HT t' th1 P' E1 E2).
        -- eexists _, o, (body o). rewrite (nth_error_upd_same _ _ _ _ Eth). cbn [gcur].
           split; [reflexivity|]. split; [exact Er|]. split; [reflexivity|]. split; [rewrite ELd; reflexivity|].
           rewrite Ehs. split; [apply Hb|apply HQinit].
      * (* inside the critical section *)
        rewrite Hlk in HK. destruct HK as (th0 & o0 & p & A & Er0 & B & ELd & Hint & HQ).
        rewrite Eth in A. inversion A; subst th0. rewrite Ecur in B. inversion B; subst o0 c. clear A B.
        assert (Hseq : glrun h0 (glog cfg) =
                       match sstep hs o with Some (h', r) => Some (h', res ++ [(t, r)]) | None => None end).
        { rewrite ELd, glrun_snoc, HL. reflexivity. }
        destruct p as [r| |B pr k]; cbn [gembed gfin] in Hs.
        -- inversion Hs; subst cfg'; clear Hs. cbn [interp] in Hint. rewrite <- Hint in Hseq.
           exists (glog cfg), (gheap cfg), (res ++ [(t, r)]). split; [exact Hseq|]. cbn [gthreads glock glog gheap].
           split; [apply gshape_upd; exact Hlen|]. rewrite Hlk. cbn [release_if]. rewrite Nat.eqb_refl. split; [|split; reflexivity].
           intros t' th1 P' E1 E2. destruct (Nat.eq_dec t' t) as [->|N].
           ++ rewrite (nth_error_upd_same _ _ _ _ Eth) in E1. inversion E1; subst th1.
              assert (P' = P) by congruence. subst P'.
              split; [reflexivity|]. cbn [gcur gtodo gouts]. rewrite Er. right; right. exists r. split; [reflexivity|].
              split; [discriminate|]. split; [exact Hpo|]. rewrite proj_app, proj_one_same, Hou. reflexivity.
           ++ rewrite nth_error_upd_other in E1 by exact N.
              apply (gtinv_frame P' (Some t) None (glog cfg) (glog cfg) res (res ++ [(t, r)])).
              ** split; intros A; [congruence|discriminate].
              ** reflexivity.
              ** rewrite proj_app, proj_one_other by exact N. apply app_nil_r.
              ** rewrite <- Hlk. exact (HT t' th1 P' E1 E2).
        -- exfalso. cbn [interp] in Hint. rewrite <- Hint in Hseq. exact (Hsafe _ Hseq).
        -- cbn [interp] in Hint.
           destruct (sem pr (gheap cfg)) as [[h1 b]|] eqn:Esem.
           ++ inversion Hs; subst cfg'; clear Hs.
              exists Ld, hs, res. split; [exact HL|]. cbn [gthreads glock glog gheap].
              split; [apply gshape_upd; exact Hlen|]. split.
              ** intros t' th1 P' E1 E2. destruct (Nat.eq_dec t' t) as [->|N].
                 --- rewrite (nth_error_upd_same _ _ _ _ Eth) in E1. inversion E1; subst th1.
                     assert (P' = P) by congruence. subst P'.
                     split; [reflexivity|]. cbn [gcur gtodo gouts]. rewrite Er. right; left. auto.
                 --- rewrite nth_error_upd_other in E1 by exact N. exact (HT t' th1 P' E1 E2).
              ** rewrite Hlk. eexists _, o, (k b). rewrite (nth_error_upd_same _ _ _ _ Eth). cbn [gcur].
                 pose proof (HQstep hs o (gheap cfg) B pr k h1 b HQ Esem). auto 10.
           ++ exfalso. rewrite <- Hint in Hseq. exact (Hsafe _ Hseq).
      * (* return *)
        subst c. try rewrite Er in Hs. inversion Hs; subst cfg'; clear Hs.
        apply (glocal_step cfg t th _ P HE Eth EP Hlk).
        intros res1 (_ & Hp). rewrite Ecur, Er in Hp. split; [reflexivity|]. cbn [gcur gtodo gouts].
        destruct Hp as [(A & _)|[(A & _)|(r1 & A & B & C & D)]]; [rewrite Ei in A; discriminate|congruence|].
        inversion A; subst r1. auto.
  - (* call *)
    destruct Hph as (Hlk & Hpo & Hou).
    destruct (gtodo th) as [|o r] eqn:Etodo; [discriminate|]. inversion Hs; subst cfg'; clear Hs.
    apply (glocal_step cfg t th _ P HE Eth EP Hlk).
    intros res1 (_ & Hp). rewrite Ecur, Etodo in Hp. split; [reflexivity|]. cbn [gcur gtodo gouts].
    destruct Hp as (A & B & C). unfold LfuConcGModel.lk_ops in B. cbn [filter] in B.
    destruct (reader o) eqn:Er; cbn [negb] in B.
    + split; [exact A|]. split; [left; reflexivity|]. auto.
    + left. auto.
Qed.

Theorem gexec_explained sch : forall cfg cfg',
  gexplained cfg -> gexec reader impl cfg sch = Some cfg' -> gexplained cfg'.
Proof.
  induction sch as [|t r IH]; intros cfg cfg' HE Hx; cbn [gexec] in Hx.
  - inversion Hx; subst; exact HE.
  - destruct (gtstep cfg t) as [cfg1|] eqn:E; [|discriminate].
    exact (IH cfg1 cfg' (gstep_explained cfg t cfg1 HE E) Hx).
Qed.

Lemma gexplained_prog cfg t th : gexplained cfg -> nth_error (gthreads cfg) t = Some th -> exists P, nth_error progs t = Some P.
Proof.
  intros (Ld & hs & res & _ & [Hlen _] & _) E. destruct (nth_error progs t) eqn:E2; [eauto|].
  apply nth_error_None in E2. assert (t < length (gthreads cfg)) by (apply nth_error_Some; congruence). lia.
Qed.

Theorem gexplained_no_crash cfg : gexplained cfg -> gany_crashed cfg = false.
Proof.
  intros HE. unfold gany_crashed. destruct (existsb (@gcrashed val O R) (gthreads cfg)) eqn:X; [|reflexivity].
  apply existsb_exists in X. destruct X as (th & Hin & Hc). apply In_nth_error in Hin. destruct Hin as [t E].
  destruct (gexplained_prog cfg t th HE E) as [P EP].
  destruct HE as (Ld & hs & res & _ & _ & HT & _). destruct (HT t th P E EP) as [A _]. congruence.
Qed.

Theorem gexplained_done cfg : gexplained cfg -> gall_done cfg = true ->
  exists res,
    glrun h0 (glog cfg) = Some (gheap cfg, res) /\
    Forall (fun x => fst x < length progs) (glog cfg) /\
    forall t th P, nth_error (gthreads cfg) t = Some th -> nth_error progs t = Some P ->
                   proj t (glog cfg) = lk_ops P /\ gouts th = proj t res /\ gcrashed th = false.
Proof.
  intros (Ld & hs & res & HL & [Hlen Hlog] & HT & HK) Hd. unfold gall_done in Hd. rewrite forallb_forall in Hd.
  destruct (glock cfg) as [u|] eqn:Elk.
  - exfalso. destruct HK as (th & o & p & A & _ & B & _). apply nth_error_In in A. apply Hd in A.
    unfold gthread_done in A. rewrite B in A. discriminate.
  - destruct HK as [ELd Ehs]. exists res. rewrite <- ELd, <- Ehs in HL. split; [exact HL|]. split; [exact Hlog|].
    intros t th P E EP. destruct (HT t th P E EP) as [Hc Hp]. apply nth_error_In in E. apply Hd in E.
    unfold gthread_done in E. destruct (gcur th); [discriminate|]. destruct (gtodo th); [|discriminate].
    destruct Hp as (_ & A & B). cbn in A. rewrite app_nil_r in A. auto.
Qed.

End Conc.
End G.

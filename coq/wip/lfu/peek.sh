#!/bin/bash
# peek.sh FILE LINE : compile FILE up to LINE (inclusive), then Show the goals and abort
f=$1; n=$2
head -n $n $f > /tmp/peek_$$.v
printf '\nShow.\nAbort.\n' >> /tmp/peek_$$.v
cp /tmp/peek_$$.v ./Peek.v
timeout 300 coqc -Q /verif/coq/theories DD -Q . DD.Lfu Peek.v 2>&1 | grep -v conda | head -${3:-80}
rm -f /tmp/peek_$$.v Peek.v Peek.vo Peek.glob Peek.vok Peek.vos .Peek.aux

(** Correspondence-side rendering for the interleaving semantics of
    LfuConcModel.v (no theorem depends on this file): the configuration reached
    by a schedule given as blocks (see [run_block]); a scheduled thread that is
    not enabled (finished, or waiting for the lock) is skipped. *)
From Coq Require Import List ZArith Bool Arith String.
Import ListNotations.
From DD Require Import Base.Sx Lfu.LfuModel Lfu.LfuHeapModel Lfu.LfuShow Lfu.LfuHeapShow Lfu.LfuConcModel.
Local Open Scope string_scope.

(* schedule blocks: (t, 0, n) = n steps of thread t (skipped while t is not enabled);
   (t, 1, n) = thread t runs until it has returned from n more calls (or is not enabled) *)
Definition nouts (cfg : config Z) (t : nat) : nat :=
  match nth_error (threads cfg) t with Some th => List.length (outs th) | None => 0 end.
Fixpoint run_call (impl : op -> cprog Z) (cfg : config Z) (t : nat) (fuel : nat) : config Z :=
  match fuel with
  | O => cfg
  | S f => match tstep impl cfg t with
           | None => cfg
           | Some c1 => if Nat.ltb (nouts cfg t) (nouts c1 t) then c1 else run_call impl c1 t f
           end
  end.
Fixpoint run_calls (impl : op -> cprog Z) (cfg : config Z) (t n : nat) : config Z :=
  match n with O => cfg | S m => run_calls impl (run_call impl cfg t 5000) t m end.
Definition run_block (impl : op -> cprog Z) (cfg : config Z) (b : nat * nat * nat) : config Z :=
  let '(t, kind, n) := b in
  match kind with
  | O => exec_skip impl cfg (repeat t n)
  | _ => run_calls impl cfg t n
  end.

Definition sx_op (o : op) : sx :=
  match o with
  | OGet k => SL [SA "get"; SZ k; SZ 0]
  | OSet k v => SL [SA "set"; SZ k; SZ v]
  end.

(* [all threads finished; some call raised; calls in lock-acquisition order;
    values returned per thread; full pointer graph of the shared heap] *)
Definition conc_sx (readfirst : bool) (c : nat) (progs : list (list op)) (sch : list (nat * nat * nat)) : sx :=
  let cfg := fold_left (run_block (if readfirst then @impl_readfirst Z else @impl_locked Z)) sch
                       (init (hempty c) progs) in
  SL [sx_bool (all_done cfg); sx_bool (any_crashed cfg);
      sx_list (fun x => SL [sx_nat (fst x); sx_op (snd x)]) (clog cfg);
      sx_list (fun th => sx_list sx_out (outs th)) (threads cfg);
      sx_list SZ (graph_ints (cheap cfg))].

(** * Per-step correspondence: the sequence of heap WRITES (field writes, allocations, dict
      writes, head writes) the step program [op_prog o] performs, call by call - compared with
      the order in which the real get / set performs them (recorded by the heap-access monitor) *)
Definition cfield (g : cnode Z -> cnode Z) : string :=
  let a := mkC 0%Z 771%Z (Some 771%nat) (Some 771%nat) (Some 771%nat) in
  let b := mkC 0%Z 882%Z (Some 882%nat) (Some 882%nat) (Some 882%nat) in
  if Z.eqb (ccont (g a)) (ccont (g b)) then "content"
  else if oid_eqb (cfn (g a)) (cfn (g b)) then "freq_node"
  else if oid_eqb (cpre (g a)) (cpre (g b)) then "pre"
  else if oid_eqb (cnxt (g a)) (cnxt (g b)) then "nxt" else "?".
Definition ffield (g : fnode -> fnode) : string :=
  let a := mkF 0%nat (Some 771%nat) (Some 771%nat) (Some 771%nat) (Some 771%nat) in
  let b := mkF 0%nat (Some 882%nat) (Some 882%nat) (Some 882%nat) (Some 882%nat) in
  if oid_eqb (fpre (g a)) (fpre (g b)) then "pre"
  else if oid_eqb (fnxt (g a)) (fnxt (g b)) then "nxt"
  else if oid_eqb (fhead (g a)) (fhead (g b)) then "cache_head"
  else if oid_eqb (ftail (g a)) (ftail (g b)) then "cache_tail" else "?".
Definition sx_oid (x : option id) : sx := match x with Some i => sx_nat i | None => SA "None" end.

Definition ev {B} (p : prim Z B) (h : heap Z) : list sx :=
  match p with
  | PPutC x g => [SL [SA "C"; sx_oid x; SA (cfield g)]]
  | PPutF _ x g => [SL [SA "F"; sx_oid x; SA (ffield g)]]
  | PNewC _ _ => [SL [SA "newC"; sx_nat (nextc h)]]
  | PNewF _ _ => [SL [SA "newF"; sx_nat (nextf h)]]
  | PSetHead _ _ => [SA "head"]
  | PDictPop _ k => [SL [SA "dpop"; SZ k]]
  | PDictSet _ k _ => [SL [SA "dset"; SZ k]]
  | _ => []
  end.
Fixpoint events {A} (p : prog Z A) (h : heap Z) : list sx :=
  match p with
  | @Act _ _ _ pr k => match sem pr h with Some (h1, b) => ev pr h ++ events (k b) h1 | None => [SA "raise"] end
  | _ => []
  end.
Fixpoint wsteps (h : heap Z) (ops : list op) : list sx :=
  match ops with
  | [] => []
  | o :: r => SL (events (op_prog o) h) :: match hstep h o with Some (h1, _) => wsteps h1 r | None => [] end
  end.
Definition wsteps_sx (c : nat) (ops : list op) : sx := SL (wsteps (hempty c) ops).

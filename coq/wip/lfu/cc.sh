#!/bin/bash
cd /verif/coq/wip/lfu
timeout ${T:-900} coqc -Q /verif/coq/theories DD -Q /verif/coq/wip/lfu DD.Lfu "$@" 2>&1 | grep -v conda

#!/bin/bash
# compile wip files with the wip dir mapped as DD.Lfu alongside theories
cd /verif/coq/wip/lfu
for f in "$@"; do
  timeout 300 coqc -Q /verif/coq/theories DD -Q /verif/coq/wip/lfu DD.Lfu $f 2>&1 | grep -v conda
done

(** What a critical section does to the KEY TABLE, step by step: the list of dict writes a
    program performs ([trace]), the table after any prefix of them, and the shape of that list
    for the bodies of get / set - none, [set k], or [pop v; set k] with k absent and v present
    before.  Used for: what a lock-free [key in cache] can observe in the middle of another
    thread's critical section. *)
From Coq Require Import List ZArith Bool Arith Lia.
Import ListNotations.
From DD Require Import Lfu.LfuModel Lfu.LfuRtModel Lfu.LfuHeapModel Lfu.LfuConcModel Lfu.LfuConcProofs
  Lfu.LfuAuxModel Lfu.LfuConcGModel.

Inductive dictop := DPop (k : key) | DSet (k : key) (i : id).
Definition apply_op (w : dictop) (d : list (key * id)) : option (list (key * id)) :=
  match w with DPop k => dict_pop d k | DSet k i => Some (dict_set d k i) end.
Fixpoint apply_all (l : list dictop) (d : list (key * id)) : option (list (key * id)) :=
  match l with [] => Some d | w :: r => match apply_op w d with Some d1 => apply_all r d1 | None => None end end.
Definition mem (q : key) (d : list (key * id)) : bool := match lookup q d with Some _ => true | None => false end.

Lemma apply_all_app l1 l2 d : apply_all (l1 ++ l2) d = match apply_all l1 d with Some d1 => apply_all l2 d1 | None => None end.
Proof. revert d. induction l1 as [|w r IH]; intros d; cbn [app apply_all]; [reflexivity|]. destruct (apply_op w d); [apply IH|reflexivity]. Qed.

Section Gen.
Variable val : Type.
Local Notation heap := (heap val).
Local Notation prog := (prog val).

(* the dict write of one heap access *)
Definition dw {B} (p : prim val B) : list dictop :=
  match p with PDictPop _ k => [DPop k] | PDictSet _ k i => [DSet k i] | _ => [] end.

Lemma sem_dict B (pr : prim val B) (h h1 : heap) b : sem pr h = Some (h1, b) -> apply_all (dw pr) (dict h) = Some (dict h1).
Proof.
  destruct pr; cbn [sem dw apply_all apply_op]; intros E.
  - destruct (getc h x); cbn [bind] in E; inversion E; reflexivity.
  - destruct (getf h x); cbn [bind] in E; inversion E; reflexivity.
  - unfold putc in E. destruct x as [i|]; cbn [bind] in E; [|discriminate]. destruct (mget (cns h) i); cbn [bind] in E; inversion E; reflexivity.
  - unfold putf in E. destruct x as [i|]; cbn [bind] in E; [|discriminate]. destruct (mget (fns h) i); cbn [bind] in E; inversion E; reflexivity.
  - inversion E; reflexivity.
  - inversion E; reflexivity.
  - inversion E; reflexivity.
  - inversion E; reflexivity.
  - inversion E; reflexivity.
  - destruct (dict_pop (dict h) k); cbn [bind] in E; inversion E; reflexivity.
  - inversion E; reflexivity.
  - inversion E; reflexivity.
  - inversion E; reflexivity.
Qed.

(** the dict writes performed by running [p] from [h] *)
Fixpoint trace {A} (p : prog A) (h : heap) : list dictop :=
  match p with
  | @Ret _ _ _ => []
  | @Fail _ _ => []
  | @Act _ _ _ pr k => match sem pr h with Some (h1, b) => dw pr ++ trace (k b) h1 | None => [] end
  end.

Lemma trace_bind A C (p : prog A) (f : A -> prog C) (h : heap) :
  trace (pbind p f) h = trace p h ++ match interp p h with Some (h1, a) => trace (f a) h1 | None => [] end.
Proof.
  revert h. induction p as [a| |B pr k IH]; intros h; cbn [pbind trace interp app]; try reflexivity.
  destruct (sem pr h) as [[h1 b]|]; [|reflexivity]. rewrite IH, app_assoc. reflexivity.
Qed.

Lemma interp_trace A (p : prog A) : forall (h h' : heap) a, interp p h = Some (h', a) -> apply_all (trace p h) (dict h) = Some (dict h').
Proof.
  induction p as [a0| |B pr k IH]; intros h h' a E; cbn [interp trace] in *.
  - inversion E; reflexivity.
  - discriminate.
  - destruct (sem pr h) as [[h1 b]|] eqn:Es; [|discriminate]. rewrite apply_all_app, (sem_dict B pr h h1 b Es). exact (IH b h1 h' a E).
Qed.

(** programs that never write the key table *)
Inductive nodict {A} : prog A -> Prop :=
| nd_ret a : nodict (Ret val a)
| nd_fail : nodict Fail
| nd_act B (pr : prim val B) k : dw pr = [] -> (forall b, nodict (k b)) -> nodict (Act pr k).

Lemma nodict_trace A (p : prog A) : nodict p -> forall h, trace p h = [].
Proof.
  induction 1 as [a| |B pr k E _ IH]; intros h; cbn [trace]; try reflexivity.
  destruct (sem pr h) as [[h1 b]|]; [|reflexivity]. rewrite E, IH. reflexivity.
Qed.
Lemma nodict_bind A C (p : prog A) (f : A -> prog C) : nodict p -> (forall a, nodict (f a)) -> nodict (pbind p f).
Proof.
  induction 1 as [a| |B pr k E _ IH]; intros Hf; cbn [pbind]; [apply Hf|constructor|].
  constructor; [exact E|]. intros b. apply IH. exact Hf.
Qed.

Ltac nd :=
  repeat first
    [ apply nd_ret | apply nd_fail
    | apply nodict_bind; [|intro]
    | apply nd_act; [reflexivity|intro]
    | match goal with
      | |- nodict (if ?b then _ else _) => destruct b
      | |- nodict (match ?x with Some _ => _ | None => _ end) => destruct x
      | |- nodict (let (_, _) := ?x in _) => destruct x
      end ].

Lemma nd_free_myself self : nodict (@free_myself_p val self).
Proof. unfold free_myself_p, getc_p, getf_p, putc_p, putf_p. nd. Qed.
Lemma nd_count_caches self : nodict (@count_caches_p val self).
Proof. unfold count_caches_p, getf_p. nd. Qed.
Lemma nd_fremove self : nodict (@fremove_p val self).
Proof. unfold fremove_p, getf_p, putf_p, skip. nd. Qed.
Lemma nd_pop_head self : nodict (@pop_head_cache_p val self).
Proof. unfold pop_head_cache_p, getc_p, getf_p, putc_p, putf_p, skip. nd. Qed.
Lemma nd_append self node : nodict (@append_cache_to_tail_p val self node).
Proof. unfold append_cache_to_tail_p, getc_p, getf_p, putc_p, putf_p. nd. Qed.
Lemma nd_insert_after self fnd : nodict (@insert_after_me_p val self fnd).
Proof. unfold insert_after_me_p, getf_p, putf_p, skip. nd. Qed.
Lemma nd_insert_before self fnd : nodict (@insert_before_me_p val self fnd).
Proof. unfold insert_before_me_p, getf_p, putf_p, skip. nd. Qed.

Lemma nd_move_forward cn fn : nodict (@move_forward_p val cn fn).
Proof.
  unfold move_forward_p, getf_p, newf_p, head_p, sethead_p, skip.
  repeat first
    [ apply nd_free_myself | apply nd_append | apply nd_insert_after | apply nd_count_caches | apply nd_fremove
    | apply nd_ret | apply nd_fail
    | apply nodict_bind; [|intro]
    | apply nd_act; [reflexivity|intro]
    | match goal with
      | |- nodict (if ?b then _ else _) => destruct b
      | |- nodict (match ?x with Some _ => _ | None => _ end) => destruct x
      end ].
Qed.

Lemma nd_hget k : nodict (@hget_p val k).
Proof.
  unfold hget_p, hget_rest, lookup_p, getc_p.
  repeat first
    [ apply nd_move_forward | apply nd_ret | apply nd_fail
    | apply nodict_bind; [|intro]
    | apply nd_act; [reflexivity|intro]
    | match goal with
      | |- nodict (match ?x with Some _ => _ | None => _ end) => destruct x
      end ].
Qed.

(** eviction: at most one pop *)
Lemma dump_trace (h : heap) : trace dump_cache_p h = [] \/ exists x, trace dump_cache_p h = [DPop x].
Proof.
  unfold dump_cache_p. rewrite trace_bind. cbn [head_p trace sem dw app interp].
  destruct (hhead h) as [hfid|]; [|left; reflexivity].
  rewrite trace_bind. cbn [getf_p trace sem dw app interp].
  destruct (getf h (Some hfid)) as [hf|]; cbn [bind]; [|left; reflexivity].
  rewrite trace_bind. cbn [getc_p trace sem dw app interp].
  destruct (getc h (fhead hf)) as [hc|]; cbn [bind]; [|left; reflexivity].
  rewrite trace_bind. cbn [dictpop_p trace sem dw app interp].
  destruct (dict_pop (dict h) (ckey hc)) as [d|]; cbn [bind app]; [|left; reflexivity].
  right. exists (ckey hc). f_equal.
  assert (N : forall u : unit, nodict (pbind (pop_head_cache_p hfid) (fun _ =>
               pbind (count_caches_p hfid) (fun n => if Nat.eqb n 0 then pbind (getf_p (Some hfid)) (fun f2 => pbind (sethead_p (fnxt f2)) (fun _ => fremove_p hfid)) else @skip val)))).
  { intros _. unfold getf_p, sethead_p, skip.
    repeat first
      [ apply nd_pop_head | apply nd_count_caches | apply nd_fremove | apply nd_ret
      | apply nodict_bind; [|intro]
      | apply nd_act; [reflexivity|intro]
      | match goal with |- nodict (if ?b then _ else _) => destruct b end ]. }
  apply (nodict_trace _ _ (N tt)).
Qed.

(** creation: exactly one insertion of the new key *)
Lemma create_trace k v (h : heap) : trace (create_cache_node_p k v) h = [DSet k (nextc h)].
Proof.
  unfold create_cache_node_p. rewrite trace_bind. cbn [newc_p trace sem dw app interp new_cnode].
  rewrite trace_bind. cbn [dictset_p trace sem dw app interp]. f_equal.
  apply nodict_trace. unfold head_p, getf_p, newf_p, sethead_p, skip.
  repeat first
    [ apply nd_append | apply nd_insert_before | apply nd_ret
    | apply nodict_bind; [|intro]
    | apply nd_act; [reflexivity|intro]
    | match goal with
      | |- nodict (if ?b then _ else _) => destruct b
      | |- nodict (match ?x with Some _ => _ | None => _ end) => destruct x
      end ].
Qed.

End Gen.

(** * The bodies of the LFUCache calls *)
Lemma set_trace k rt v (h h' : heap content) b :
  interp (hset_rt_p k rt v) h = Some (h', b) ->
  trace content (hset_rt_p k rt v) h = [] \/
  (lookup k (dict h) = None /\
   ((exists i, trace content (hset_rt_p k rt v) h = [DSet k i]) \/
    (exists x i, trace content (hset_rt_p k rt v) h = [DPop x; DSet k i]))).
Proof.
  unfold hset_rt_p. rewrite interp_bind, trace_bind. cbn [lookup_p trace sem dw app interp].
  destruct (lookup k (dict h)) as [nid|] eqn:Lk.
  - intros _. left. apply nodict_trace. unfold getc_p, putc_p.
    repeat first
      [ apply nd_ret | apply nodict_bind; [|intro] | apply nd_act; [reflexivity|intro]
      | match goal with
        | |- nodict _ (match ?x with Some _ => _ | None => _ end) => destruct x
        | |- nodict _ (match ?x with CVal _ => _ | CRep _ => _ end) => destruct x
        end ].
  - rewrite cap_bind, dictlen_bind, trace_bind. cbn [cap_p trace sem dw app interp]. rewrite trace_bind. cbn [dictlen_p trace sem dw app interp].
    rewrite trace_bind.
    destruct (Nat.leb (hcap h) (length (dict h))).
    + rewrite dump_cache_seq, dump_cache_ok. destruct (dump_cache h) as [h1|]; cbn [bind]; [|discriminate].
      intros _. right. split; [reflexivity|].
      rewrite trace_bind, create_trace, create_ok.
      assert (T : (match (do h2 <- create_cache_node h1 k (new_content rt v); Some (h2, tt)) with
                   | Some (h2, a) => trace content (Ret content false) h2 | None => [] end) = [])
        by (destruct (create_cache_node h1 k (new_content rt v)); reflexivity).
      rewrite T. destruct (dump_trace content h) as [E|[x E]]; rewrite E; cbn [app]; eauto.
    + rewrite skip_bind. intros _. right. split; [reflexivity|]. left. exists (nextc h).
      cbn [skip trace interp app]. rewrite trace_bind, create_trace, create_ok.
      destruct (create_cache_node h k (new_content rt v)); reflexivity.
Qed.

Lemma body_trace o (h h' : heap content) r : is_reader o = false ->
  interp (call_body o) h = Some (h', r) ->
  trace content (call_body o) h = [] \/
  (exists k i, lookup k (dict h) = None /\
     (trace content (call_body o) h = [DSet k i] \/ exists x, trace content (call_body o) h = [DPop x; DSet k i])).
Proof.
  intros Er E. destruct o as [k|k rt v|k]; [| |discriminate]; cbn [call_body] in *.
  - left. apply nodict_trace. apply nodict_bind; [apply nd_hget|intro; apply nd_ret].
  - rewrite interp_bind in E. destruct (interp (hset_rt_p k rt v) h) as [[h1 b]|] eqn:E1; [|discriminate].
    rewrite trace_bind, E1. cbn [trace]. rewrite app_nil_r.
    destruct (set_trace k rt v h h1 b E1) as [T|(Lk & [(i & T)|(x & i & T)])]; rewrite T; [left; reflexivity| |].
    + right. exists k, i. split; [exact Lk|left; reflexivity].
    + right. exists k, i. split; [exact Lk|right; exists x; reflexivity].
Qed.

(** * Membership under the dict writes *)
Lemma mem_remove q x (d : list (key * id)) : mem q (remove_key x d) = if Z.eqb x q then false else mem q d.
Proof.
  unfold mem, remove_key. induction d as [|[k0 i0] r IH]; cbn [filter lookup fst]; [destruct (Z.eqb x q); reflexivity|].
  destruct (Z.eqb_spec k0 x) as [->|N]; cbn [negb lookup].
  - rewrite IH. destruct (Z.eqb x q); reflexivity.
  - destruct (Z.eqb_spec k0 q) as [->|N2]; [|exact IH].
    destruct (Z.eqb_spec x q); [congruence|reflexivity].
Qed.
Lemma mem_has_key x (d : list (key * id)) : has_key x d = mem x d.
Proof.
  unfold has_key, mem. induction d as [|[k0 i0] r IH]; cbn [existsb lookup fst]; [reflexivity|].
  destruct (Z.eqb k0 x); [reflexivity|exact IH].
Qed.
Lemma mem_replace q k i (d : list (key * id)) : mem q (replace_val k i d) = mem q d.
Proof.
  unfold mem. induction d as [|[k0 i0] r IH]; cbn [replace_val lookup]; [reflexivity|].
  destruct (Z.eqb k0 k); cbn [lookup]; destruct (Z.eqb k0 q); try reflexivity. exact IH.
Qed.
Lemma mem_snoc q k i (d : list (key * id)) : mem q (d ++ [(k, i)]) = mem q d || Z.eqb k q.
Proof.
  unfold mem. induction d as [|[k0 i0] r IH]; cbn [app lookup]; [destruct (Z.eqb k q); reflexivity|].
  destruct (Z.eqb k0 q); [reflexivity|exact IH].
Qed.
Lemma mem_dict_set q k i (d : list (key * id)) : mem q (dict_set d k i) = Z.eqb k q || mem q d.
Proof.
  unfold dict_set. rewrite mem_has_key. destruct (mem k d) eqn:Ek.
  - rewrite mem_replace. destruct (Z.eqb_spec k q) as [->|N]; [rewrite Ek; reflexivity|reflexivity].
  - rewrite mem_snoc. apply orb_comm.
Qed.

(** the key table in the middle of a critical section, one key at a time: as before, or as after *)
Lemma prefix_mem (D0 Dc Df : list (key * id)) T done rest q :
  T = done ++ rest -> apply_all done D0 = Some Dc -> apply_all T D0 = Some Df ->
  (T = [] \/ exists k i, lookup k D0 = None /\ (T = [DSet k i] \/ exists x, T = [DPop x; DSet k i])) ->
  mem q Dc = mem q D0 \/ mem q Dc = mem q Df.
Proof.
  intros ET Ec Ef [T0|(k & i & Lk & [T1|(x & T2)])]; subst T.
  - apply app_eq_nil in T0. destruct T0 as [-> _]. cbn in Ec. inversion Ec. left; reflexivity.
  - destruct done as [|w [|w2 r]]; cbn [app] in T1.
    + cbn in Ec. inversion Ec. left; reflexivity.
    + injection T1 as Ew Er. subst w rest. cbn [app] in Ef. rewrite Ec in Ef. inversion Ef. right; reflexivity.
    + injection T1 as Ew Er. destruct r; discriminate.
  - destruct done as [|w [|w2 [|w3 r]]]; cbn [app] in T2.
    + cbn in Ec. inversion Ec. left; reflexivity.
    + injection T2 as Ew Er. subst w rest. cbn [app apply_all apply_op] in Ec, Ef. unfold dict_pop in Ec, Ef.
      destruct (has_key x D0) eqn:Hx; [|discriminate]. inversion Ec; subst Dc. inversion Ef; subst Df. clear Ec Ef.
      rewrite mem_dict_set, mem_remove. rewrite mem_has_key in Hx.
      destruct (Z.eqb_spec x q) as [->|N]; [|left; reflexivity].
      right. destruct (Z.eqb_spec k q) as [->|N2]; [|reflexivity].
      unfold mem in Hx. rewrite Lk in Hx. discriminate.
    + injection T2 as Ew Ew2 Er. subst w w2 rest. cbn [app] in Ef. rewrite Ec in Ef. inversion Ef. right; reflexivity.
    + injection T2 as Ew Ew2 Er. destruct r; discriminate.
Qed.

(** the critical-section predicate for the generic invariant *)
Definition Qd (hs : heap content) (o : call) (h : heap content) (p : prog content cres) : Prop :=
  exists done, apply_all done (dict hs) = Some (dict h) /\ done ++ trace content p h = trace content (call_body o) hs.
Lemma Qd_init hs o : Qd hs o hs (call_body o).
Proof. exists []. split; reflexivity. Qed.
Lemma Qd_step hs o h B (pr : prim content B) (k : B -> prog content cres) h1 b :
  Qd hs o h (Act pr k) -> sem pr h = Some (h1, b) -> Qd hs o h1 (k b).
Proof.
  intros (done & A & T) Es. exists (done ++ dw content pr). split.
  - rewrite apply_all_app, A. exact (sem_dict content B pr h h1 b Es).
  - cbn [trace] in T. rewrite Es in T. rewrite <- app_assoc. exact T.
Qed.

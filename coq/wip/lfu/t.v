From Coq Require Import List ZArith String. Import ListNotations.
From DD Require Import Base.Sx Lfu.LfuModel Lfu.LfuShow Lfu.LfuHeapModel Lfu.LfuHeapShow.
Time Eval vm_compute in show_Hs (all_hgroups 3 5 3).

From Coq Require Import List Permutation.
Search NoDup app.
Check Permutation_cons_append. Check Permutation_NoDup. Check Permutation_map. Check Permutation_middle. Check find_some. Check find_none. Check NoDup_cons_iff. Check filter_app. Check Forall_app. Check Permutation_length. Check NoDup_filter. Check in_flat_map. Check filter_In. Check Forall_forall. Check in_map_iff.  Check Permutation_app_head. 

(** Atom level of C12.

    [akey F a] is the INDEPENDENT specification: what is left of an atom once the
    aspects the shared options F ignore are forgotten (case folded text, text type
    forgotten, numeric type forgotten, value rounded half-even to the digits in force).
    Two atoms are equivalent under F when their keys are equal ([eqvA]).

    Each engine has its own normalisers (HashModel.ser_atom mirrors deephash.py,
    OptModel.diff_atomF / clean_key mirror diff.py); here each of them is shown to
    decide exactly [eqvA F], inside stated guards; the guards are the places where the
    two engines disagree (K1 tag collisions, K9 bool / number, bytes keys, ...). *)
From Coq Require Import List ZArith NArith Bool Arith Lia String.
Import ListNotations.
From DD Require Import Base.PyStr Base.Value Diff.Tree Diff.DiffModel Hash.HashModel Hash.HashProofsBase
  Options.OptModel Options.OptProofsBase Options.OptProofsAtoms HashDiff.HashDiffModel HashDiff.HashDiffProofsNum.

Local Open Scope string_scope.
Local Open Scope list_scope.

(* ------------------------------------------------------------------ *)
(** * the specification *)

Inductive akeyT :=
| KNone
| KBool (b : bool)
| KNum (ty : option ty) (v : Z)          (* None: numeric type forgotten *)
| KStr (isbytes : option bool) (s : pystr).   (* None: text type forgotten *)

Definition akey (F : opts) (a : atom) : akeyT :=
  match a with
  | ANone => KNone
  | ABool b => KBool b
  | AInt z => match eff_sig F with
              | Some d => KNum (if o_numty F then None else Some TInt) (rhe (z, 0%N) d)
              | None => KNum (Some TInt) (2 * z)
              end
  | AHalf t => match eff_sig F with
               | Some d => KNum (if o_numty F then None else Some TFloat) (rhe (t, 1%N) d)
               | None => KNum (Some TFloat) t
               end
  | AStr s => KStr (if o_strty F then None else Some false) (lowif F s)
  | ABytes s => KStr (if o_strty F then None else Some true) (lowif F s)
  end.

Definition eqvA (F : opts) (a b : atom) : Prop := akey F a = akey F b.

(* ------------------------------------------------------------------ *)
(** * text facts *)

Definition lowc (s : pystr) : Prop := Forall (fun c => (c < 65)%N) s.

Lemma lowc_lower s : lowc s -> lower s = s.
Proof.
  induction 1 as [|c s Hc _ IH]; [reflexivity|]. cbn [lower map]. fold (lower s). rewrite IH. f_equal.
  unfold lower_char. destruct (N.leb_spec 65 c); [lia|reflexivity].
Qed.
Lemma lowc_lowif F s : lowc s -> lowif F s = s.
Proof. intros. unfold lowif. destruct (o_case F); [apply lowc_lower; assumption|reflexivity]. Qed.
Lemma lowc_app s t : lowc s -> lowc t -> lowc (s ++ t).
Proof. apply Forall_app_intro || (intros; apply Forall_app; split; assumption). Qed.
Lemma lowc_digits s : Forall is_digit s -> lowc s.
Proof. apply Forall_impl. unfold is_digit. intros; lia. Qed.
Lemma lowc_zeros n : lowc (HashModel.zeros n).
Proof. unfold lowc, HashModel.zeros. induction n; cbn; constructor; [lia|assumption]. Qed.
Lemma lowc_dec_N n : lowc (dec_N n).
Proof. apply lowc_digits, dec_N_digits. Qed.
Lemma lowc_sign (b : bool) : lowc (if b then [45%N] else []).
Proof. destruct b; repeat constructor. Qed.
Lemma lowc_dec_Z z : lowc (dec_Z z).
Proof. rewrite dec_Z_sign. apply lowc_app; [apply lowc_sign|apply lowc_dec_N]. Qed.
Lemma lowc_half_repr t : lowc (HashModel.half_repr t).
Proof.
  unfold HashModel.half_repr. repeat apply lowc_app; try apply lowc_sign; try apply lowc_dec_N.
  destruct (Z.odd t); repeat constructor.
Qed.
Lemma lowc_fmt_int n z : lowc (fmt_int n z).
Proof. destruct n; [apply lowc_dec_Z|]. cbn [fmt_int]. repeat apply lowc_app; try apply lowc_dec_Z; try apply lowc_zeros. repeat constructor. Qed.
Lemma lowc_fmt_half n t : lowc (fmt_half n t).
Proof. destruct n; [apply lowc_dec_Z|]. rewrite fmt_half_S. apply lowc_app; [apply lowc_half_repr|apply lowc_zeros]. Qed.

Lemma lower_has_colon s : has_char 58%N (lower s) = has_char 58%N s.
Proof.
  unfold has_char, lower. induction s as [|c s IH]; [reflexivity|]. cbn [map existsb]. rewrite IH. f_equal.
  unfold lower_char. destruct (N.leb_spec 65 c); cbn [andb]; [|reflexivity].
  destruct (N.leb_spec c 90); [|reflexivity].
  destruct (N.eqb_spec 58 (c + 32)), (N.eqb_spec 58 c); try reflexivity; lia.
Qed.
Lemma lowif_has_colon F s : has_char 58%N (lowif F s) = has_char 58%N s.
Proof. unfold lowif. destruct (o_case F); [apply lower_has_colon|reflexivity]. Qed.

(* ------------------------------------------------------------------ *)
(** * the hash engine decides eqvA (inside the K1 guard) *)

(* K1 guard under the options: a str (bytes, when the text type is ignored) must not
   spell a serialisation: no ':' and not NONE up to the case folding in force *)
Definition tag_okS (F : opts) (s : pystr) : bool :=
  negb (has_char 58%N s) && negb (pystr_eqb (lowif F s) (lowif F (s2p "NONE"))).
Definition tag_okF (F : opts) (a : atom) : bool :=
  match a with
  | AStr s => tag_okS F s
  | ABytes s => if o_strty F then tag_okS F s else true
  | _ => true
  end.

Section HashSide.
Variable F : opts.
Variables priv rep : bool.
Notation o := (hoptsF F priv rep).

Definition spre : pystr := if o_strty F then [] else s2p "str:".
Definition bpre : pystr := if o_strty F then [] else s2p "bytes:".
Definition ntagH (name : pystr) : pystr := if o_numty F then s2p "number" else name.
Definition ntxt (a : atom) : pystr :=
  match eff_sig F with
  | Some d => ftxt (N.to_nat d) a
  | None => match a with AInt z => dec_Z z | AHalf t => HashModel.half_repr t | _ => [] end
  end.
Definition hbody (a : atom) : pystr :=
  match a with
  | ANone => s2p "NONE"
  | ABool b => if b then s2p "bool:true" else s2p "bool:false"
  | AInt _ => ntagH (s2p "int") ++ [58%N] ++ ntxt a
  | AHalf _ => ntagH (s2p "float") ++ [58%N] ++ ntxt a
  | AStr s | ABytes s => s
  end.
Definition hpre (a : atom) : pystr := match a with ABytes _ => bpre | _ => spre end.

Lemma eff_digits_F : eff_digits o = match eff_sig F with Some d => Some (N.to_nat d) | None => None end.
Proof.
  unfold eff_digits, eff_sig, hoptsF. cbn [significant_digits ignore_numeric_type_changes].
  destruct (o_sig F); [reflexivity|]. destruct (o_numty F); reflexivity.
Qed.

Lemma prep_form tyname s :
  HashModel.prep_string o tyname s = lowif F ((if o_strty F then [] else tyname ++ [58%N]) ++ s).
Proof.
  unfold HashModel.prep_string, lowif, hoptsF. cbn [ignore_string_type_changes ignore_string_case].
  destruct (o_strty F); [reflexivity|]. rewrite <- app_assoc. reflexivity.
Qed.

Lemma ser_form a : ser_atom o a = lowif F (hpre a ++ hbody a).
Proof.
  destruct a as [|b|z|t|s|s]; unfold ser_atom, retag; rewrite prep_form; unfold hpre, spre, bpre;
    cbn [atom_result hbody].
  - reflexivity.
  - destruct b; reflexivity.
  - rewrite eff_digits_F. unfold ntxt, ntagH, num_type. cbn [hoptsF ignore_numeric_type_changes].
    destruct (eff_sig F); reflexivity.
  - rewrite eff_digits_F. unfold ntxt, ntagH, num_type. cbn [hoptsF ignore_numeric_type_changes].
    destruct (eff_sig F); reflexivity.
  - reflexivity.
  - reflexivity.
Qed.

Lemma lowc_ntxt a : lowc (ntxt a).
Proof.
  unfold ntxt. destruct (eff_sig F).
  - destruct a; cbn [ftxt]; try constructor; [apply lowc_fmt_int|apply lowc_fmt_half].
  - destruct a; try constructor; [apply lowc_dec_Z|apply lowc_half_repr].
Qed.

End HashSide.

Lemma KNum_inj t1 v1 t2 v2 : KNum t1 v1 = KNum t2 v2 <-> t1 = t2 /\ v1 = v2.
Proof. split; [intros E; inversion E; auto|intros [-> ->]; reflexivity]. Qed.

Section HashSide2.
Variable F : opts.

Definition nname (a : atom) : pystr := match a with AInt _ => s2p "int" | _ => s2p "float" end.

(* numbers: tag + text decide the key *)
Lemma num_body_key a b : is_num a = true -> is_num b = true ->
  (ntagH F (nname a) ++ [58%N] ++ ntxt F a = ntagH F (nname b) ++ [58%N] ++ ntxt F b <-> akey F a = akey F b).
Proof.
  intros Ha Hb. unfold ntagH, ntxt, akey.
  destruct (eff_sig F) as [d|] eqn:Es.
  - pose proof (ftxt_sem d a b Ha Hb) as S.
    destruct (o_numty F) eqn:En.
    + destruct a as [| |z|t| |], b as [| |z'|t'| |]; try discriminate; cbn [nname dyv] in *;
        rewrite KNum_inj; (split; [intros E; do 2 apply app_inv_head in E; split; [reflexivity|apply S; exact E]
                                  |intros [_ E]; f_equal; apply S; exact E]).
    + destruct a as [| |z|t| |], b as [| |z'|t'| |]; try discriminate; cbn [nname dyv] in *; rewrite KNum_inj.
      * split; [intros E; do 2 apply app_inv_head in E; split; [reflexivity|apply S; exact E]|intros [_ E]; f_equal; apply S; exact E].
      * split; [intros E; discriminate|intros [E _]; discriminate].
      * split; [intros E; discriminate|intros [E _]; discriminate].
      * split; [intros E; do 2 apply app_inv_head in E; split; [reflexivity|apply S; exact E]|intros [_ E]; f_equal; apply S; exact E].
  - assert (o_numty F = false) as En.
    { unfold eff_sig in Es. destruct (o_sig F); [discriminate|]. destruct (o_numty F); [discriminate|reflexivity]. }
    rewrite En.
    destruct a as [| |z|t| |], b as [| |z'|t'| |]; try discriminate; cbn [nname]; rewrite KNum_inj.
    + split; [intros E; do 2 apply app_inv_head in E; apply dec_Z_inj in E; subst; auto|intros [_ E]; assert (z = z') as -> by lia; reflexivity].
    + split; [intros E; discriminate|intros [E _]; discriminate].
    + split; [intros E; discriminate|intros [E _]; discriminate].
    + split; [intros E; do 2 apply app_inv_head in E; apply half_repr_inj in E; subst; auto|intros [_ ->]; reflexivity].
Qed.

Lemma lowif_num_body a : is_num a = true ->
  lowif F (hbody F a) = ntagH F (nname a) ++ [58%N] ++ ntxt F a.
Proof.
  intros Ha. destruct a; try discriminate; cbn [hbody nname]; rewrite !lowif_app, (lowc_lowif F (ntxt F _)) by apply lowc_ntxt;
    unfold ntagH, lowif; destruct (o_numty F), (o_case F); reflexivity.
Qed.

Lemma num_body_colon a : is_num a = true -> has_char 58%N (ntagH F (nname a) ++ [58%N] ++ ntxt F a) = true.
Proof. intros Ha. destruct a; try discriminate; unfold ntagH; destruct (o_numty F); reflexivity. Qed.

End HashSide2.

(** The hypotheses of the lifted theorem are satisfiable: a concrete hasher that is
    injective, emits separator-free non-empty tokens for EVERY input and lower-case
    stable text; a non-trivial pair of nested values inside the boolean guard. *)
From Coq Require Import List ZArith NArith Bool Arith Lia String.
Import ListNotations.
From DD Require Import Base.PyStr Base.Value Diff.Tree Diff.DiffModel Hash.HashModel Hash.HashProofsBase
  Hash.HashProofsC07 DiffIO.DiffIOModel Options.OptModel Options.OptProofsAtoms HashDiff.HashDiffModel
  HashDiff.HashDiffProofsAtoms HashDiff.HashDiffProofsInv HashDiff.HashDiffProofsLift HashDiff.HashDiffProofsKeys
  HashDiff.HashDiffProofsWitness.

(* 'a' followed by the unary code of the text *)
Definition uhash (s : pystr) : pystr := 97%N :: unary_hash s.

Lemma uhash_inj s t : uhash s = uhash t -> s = t.
Proof. unfold uhash. intros E. inversion E as [E']. apply unary_hash_inj. exact E'. Qed.

Lemma unary_chars s : Forall (fun c => c = 97%N \/ c = 98%N) (unary_hash s).
Proof.
  unfold unary_hash. induction s as [|c s IH]; cbn [flat_map]; [constructor|].
  apply Forall_app. split; [|exact IH]. apply Forall_app. split.
  - induction (N.to_nat c) as [|n IHn]; cbn [repeat]; constructor; auto.
  - constructor; [right; reflexivity|constructor].
Qed.

Lemma uhash_tok s : sepfree (uhash s).
Proof.
  pose proof (unary_chars s) as Hc. rewrite Forall_forall in Hc.
  unfold sepfree, uhash, free. split; [discriminate|].
  repeat split; intros [E|Hi]; try discriminate; destruct (Hc _ Hi); discriminate.
Qed.

Lemma uhash_low s : lower (uhash s) = uhash s.
Proof.
  unfold uhash. cbn [lower map]. f_equal. pose proof (unary_chars s) as Hc.
  induction Hc as [|c l [-> | ->] _ IH]; cbn [map]; [reflexivity| |]; rewrite IH; reflexivity.
Qed.

Theorem lift_guard_example :
  lift_guard cfg_def F_all false ex_a ex_b = true /\ lift_guard cfg_def F_all true ex_a ex_b = true.
Proof. vm_compute. split; reflexivity. Qed.

Theorem lift_guardb_example :
  lift_guardb cfg_def F_all false ex_a ex_b = true /\ lift_guardb cfg_def F_all true ex_a ex_b = true.
Proof. vm_compute. split; reflexivity. Qed.

(** _diff_iterable_with_deephash under the options: one list level.
    (a) nothing added, nothing removed (and, with report_repetition, equal
        multiplicities) => the level reports nothing;
    (b) the level reports nothing => the two item-hash lists are the same set
        (multiset), PROVIDED an empty diff of two items forces equal item hashes
        (the induction hypothesis): a pairing can never turn different into equal.
    Adapted from DiffIO/DiffIOProofs.v (b05) to the option-aware item hashes. *)
From Coq Require Import List ZArith NArith Bool Arith Lia Permutation.
Import ListNotations.
From DD Require Import Base.PyStr Base.Value Diff.Tree Diff.DiffModel Hash.HashModel Hash.HashProofsBase
  Hash.HashProofsC06 DiffIO.DiffIOModel DiffIO.DiffIOProofs Options.OptModel HashDiff.HashDiffModel.

Notation ires := DiffIOModel.res.

Section Level.
Variable H : pystr -> pystr.
Variable c : cfg.
Variable F : opts.
Variable rep : bool.
Variable pairs : path -> list (nat * nat).

Notation hv := (hvF H c F rep).

Section L.
Variables (xs ys : list value) (p1 p2 : path).
Notation G1 := (g1 H c F rep xs).
Notation G2 := (g2 H c F rep ys).

Lemma addedF_nil : (forall h, In h G2 -> In h G1) -> addedF H c F rep xs ys = [].
Proof.
  intros Hs. unfold addedF. apply filter_nil. intros h Hin.
  apply negb_false_iff, mem_h_In. unfold t1h, t2h in *. apply dedup_In. apply Hs. apply dedup_In. exact Hin.
Qed.
Lemma removedF_nil : (forall h, In h G1 -> In h G2) -> removedF H c F rep xs ys = [].
Proof.
  intros Hs. unfold removedF. apply filter_nil. intros h Hin.
  apply negb_false_iff, mem_h_In. unfold t1h, t2h in *. apply dedup_In. apply Hs. apply dedup_In. exact Hin.
Qed.

Lemma iter_emptyF recs :
  addedF H c F rep xs ys = [] -> removedF H c F rep xs ys = [] ->
  (rep = true -> forall h, count h G1 = count h G2) ->
  iter_deephashF H c F rep pairs recs xs ys p1 p2 = ([], []).
Proof.
  intros Ha Hr Hc. unfold iter_deephashF. destruct rep eqn:E.
  - unfold iter_repF. rewrite Ha, Hr.
    cbn [added_loop map concat_res fold_right app2 fst snd app].
    rewrite concat_res_nil; [reflexivity|].
    intros h _. unfold repetition_oneF. rewrite !indexes_length, (Hc eq_refl h), Nat.eqb_refl. reflexivity.
  - unfold iter_norepF. rewrite Ha, Hr. reflexivity.
Qed.

(* ---- soundness of one level ---- *)
Variable dio : value -> value -> path -> path -> ires.
Hypothesis IHx : forall x y q1 q2, In x xs -> In y ys -> fst (dio x y q1 q2) = [] -> hv x = hv y.
Notation recs := (map dio xs).

Lemma nth_rec_mapF i x : nth_error xs i = Some x -> nth_rec recs i = dio x.
Proof.
  unfold nth_rec. revert i. generalize xs as l. induction l as [|y r IH]; intros [|i]; cbn; try discriminate.
  - intros E; inversion E; reflexivity.
  - apply IH.
Qed.

Lemma g1_item i r : nth_error G1 i = Some r -> exists x, nth_error xs i = Some x /\ In x xs /\ hv x = r.
Proof.
  intros Hn. apply nth_error_map_inv in Hn as [x [Hx Hr]]. exists x. split; auto. split; auto.
  eapply nth_error_In; eauto.
Qed.
Lemma g2_item j a : nth_error G2 j = Some a -> exists y, nth_error ys j = Some y /\ In y ys /\ hv y = a.
Proof.
  intros Hn. apply nth_error_map_inv in Hn as [y [Hy Hr]]. exists y. split; auto. split; auto.
  eapply nth_error_In; eauto.
Qed.

Lemma partnerF_in a rem r : partnerF H c F rep pairs xs ys p1 a rem = Some r -> In r G1.
Proof.
  unfold partnerF. destruct (find _ _) as [ji|]; [|discriminate].
  destruct (nth_error G1 (snd ji)) as [r'|] eqn:E; [|discriminate].
  destruct (mem_h r' rem); [|discriminate]. intros X; inversion X; subst.
  eapply nth_error_In; eauto.
Qed.

Lemma added_oneF_nonempty a rem :
  In a G2 -> ~ In a G1 -> fst (fst (added_oneF H c F rep pairs recs xs ys p1 p2 a rem)) <> [].
Proof.
  intros Ha2 Ha1. unfold added_oneF.
  destruct (partnerF H c F rep pairs xs ys p1 a rem) as [r|] eqn:P; cbn [fst]; [|discriminate].
  apply partnerF_in in P.
  destruct (g1_item _ _ (first_of_index r G1 P)) as [x [Hx [Hxi Hxr]]].
  destruct (g2_item _ _ (first_of_index a G2 Ha2)) as [y [Hy [Hyi Hya]]].
  unfold it2. rewrite Hy. rewrite (nth_rec_mapF _ _ Hx).
  intro Hn. apply IHx in Hn; auto. apply Ha1. rewrite <- Hya, <- Hn, Hxr. exact P.
Qed.

Lemma added_one_repF_nonempty a rem :
  In a G2 -> ~ In a G1 -> fst (fst (added_one_repF H c F rep pairs recs xs ys p1 p2 a rem)) <> [].
Proof.
  intros Ha2 Ha1. unfold added_one_repF.
  pose proof (indexes_nonempty a G2 0 Ha2) as Hjs.
  destruct (partnerF H c F rep pairs xs ys p1 a rem) as [r|] eqn:P; cbn [fst].
  - apply partnerF_in in P.
    destruct (g1_item _ _ (first_of_index r G1 P)) as [x [Hx [Hxi Hxr]]].
    destruct (g2_item _ _ (first_of_index a G2 Ha2)) as [y [Hy [Hyi Hya]]].
    unfold it2. rewrite Hy. rewrite (nth_rec_mapF _ _ Hx).
    pose proof (indexes_nonempty r G1 0 P) as His.
    destruct (indexes_of r G1 0) as [|i0 is_]; [congruence|].
    cbn [fold_right]. rewrite fst_app2. intro Hn. apply app_eq_nil in Hn as [Hn _].
    apply IHx in Hn; auto. apply Ha1. rewrite <- Hya, <- Hn, Hxr. exact P.
  - destruct (indexes_of a G2 0) as [|j0 js]; [congruence|].
    cbn [flat_map]. discriminate.
Qed.

Lemma addedF_spec a : In a (addedF H c F rep xs ys) -> In a G2 /\ ~ In a G1.
Proof.
  unfold addedF. rewrite filter_In. intros [Hi Hm]. unfold t2h, t1h in *.
  apply (proj1 (dedup_In _ _)) in Hi. split; auto. apply negb_true_iff, mem_h_false in Hm.
  intro X. apply Hm. apply (proj2 (dedup_In _ _)). exact X.
Qed.
Lemma removedF_spec r : In r (removedF H c F rep xs ys) -> In r G1 /\ ~ In r G2.
Proof.
  unfold removedF. rewrite filter_In. intros [Hi Hm]. unfold t2h, t1h in *.
  apply (proj1 (dedup_In _ _)) in Hi. split; auto. apply negb_true_iff, mem_h_false in Hm.
  intro X. apply Hm. apply (proj2 (dedup_In _ _)). exact X.
Qed.

Lemma all_in_2_1F : addedF H c F rep xs ys = [] -> forall x, In x G2 -> In x G1.
Proof.
  intros Hadd x Hx. apply (proj2 (dedup_In _ _)) in Hx. unfold addedF in Hadd.
  pose proof (filter_nil_inv _ _ x Hadd Hx) as Hf. apply negb_false_iff, mem_h_In in Hf.
  apply (proj1 (dedup_In _ _)) in Hf. exact Hf.
Qed.
Lemma all_in_1_2F : removedF H c F rep xs ys = [] -> forall x, In x G1 -> In x G2.
Proof.
  intros Hrem x Hx. apply (proj2 (dedup_In _ _)) in Hx. unfold removedF in Hrem.
  pose proof (filter_nil_inv _ _ x Hrem Hx) as Hf. apply negb_false_iff, mem_h_In in Hf.
  apply (proj1 (dedup_In _ _)) in Hf. exact Hf.
Qed.

Lemma iter_repF_sound :
  fst (iter_repF H c F rep pairs recs xs ys p1 p2) = [] ->
  addedF H c F rep xs ys = [] /\ removedF H c F rep xs ys = [] /\ (forall h, count h G1 = count h G2).
Proof.
  unfold iter_repF.
  destruct (added_loop _ (addedF H c F rep xs ys) (removedF H c F rep xs ys)) as [ra remaining] eqn:EL.
  rewrite !fst_app2. intro Hn. apply app_eq_nil in Hn as [Ha Hn]. apply app_eq_nil in Hn as [Hr Hi].
  assert (Hadd : addedF H c F rep xs ys = []).
  { eapply added_loop_nil; [|rewrite EL; exact Ha].
    intros a rem' Hin. apply addedF_spec in Hin as [X Y]. apply added_one_repF_nonempty; auto. }
  rewrite Hadd in EL. cbn [added_loop] in EL. inversion EL; subst ra remaining. clear EL.
  assert (Hrem : removedF H c F rep xs ys = []).
  { destruct (removedF H c F rep xs ys) as [|r rs] eqn:E; [reflexivity|]. exfalso.
    assert (Hin : In r (removedF H c F rep xs ys)) by (rewrite E; left; reflexivity).
    apply removedF_spec in Hin as [X _].
    pose proof (fst_concat_res _ Hr (removed_one_repF H c F rep xs p1 p2 r) (or_introl eq_refl)) as Hz.
    unfold removed_one_repF in Hz. cbn [fst] in Hz.
    pose proof (indexes_nonempty r G1 0 X) as His.
    destruct (indexes_of r G1 0); [congruence|]. cbn [flat_map] in Hz. discriminate. }
  split; [exact Hadd|]. split; [exact Hrem|].
  intros h.
  destruct (in_dec pystr_eq_dec h G2) as [Hin|Hnin].
  - assert (Hc : In h (filter (fun h0 => mem_h h0 (t1h H c F rep xs)) (t2h H c F rep ys))).
    { apply filter_In. split; [apply (proj2 (dedup_In _ _)); exact Hin|]. apply mem_h_In.
      apply (proj2 (dedup_In _ _)). apply all_in_2_1F; auto. }
    pose proof (fst_concat_res _ Hi (repetition_oneF H c F rep xs ys p1 p2 h) (in_map _ _ _ Hc)) as Hz.
    unfold repetition_oneF in Hz. rewrite !indexes_length in Hz.
    destruct (Nat.eqb (count h G1) (count h G2)) eqn:E.
    + apply Nat.eqb_eq in E. exact E.
    + cbn [fst] in Hz. discriminate.
  - rewrite (count_notin h G2 Hnin). apply count_notin. intro X. apply Hnin. apply all_in_1_2F; auto.
Qed.

Lemma iter_norepF_sound :
  fst (iter_norepF H c F rep pairs recs xs ys p1 p2) = [] ->
  addedF H c F rep xs ys = [] /\ removedF H c F rep xs ys = [].
Proof.
  unfold iter_norepF.
  destruct (added_loop _ (addedF H c F rep xs ys) (removedF H c F rep xs ys)) as [ra remaining] eqn:EL.
  rewrite !fst_app2. intro Hn. apply app_eq_nil in Hn as [Ha Hr].
  assert (Hadd : addedF H c F rep xs ys = []).
  { eapply added_loop_nil; [|rewrite EL; exact Ha].
    intros a rem' Hin. apply addedF_spec in Hin as [X Y]. apply added_oneF_nonempty; auto. }
  rewrite Hadd in EL. cbn [added_loop] in EL. inversion EL; subst ra remaining. clear EL.
  split; [exact Hadd|].
  destruct (removedF H c F rep xs ys) as [|r rs] eqn:E; [reflexivity|]. exfalso.
  pose proof (fst_concat_res _ Hr (removed_oneF H c F rep xs p1 p2 r) (or_introl eq_refl)) as Hz.
  unfold removed_oneF in Hz. cbn [fst] in Hz. discriminate.
Qed.

End L.

(* the bag (set / multiset) reading of one level *)
Definition bagF (hs1 hs2 : list pystr) : Prop :=
  if rep then Permutation hs1 hs2 else (forall h, In h hs1 <-> In h hs2).

Lemma iterF_complete recs xs ys p1 p2 :
  bagF (g1 H c F rep xs) (g2 H c F rep ys) -> iter_deephashF H c F rep pairs recs xs ys p1 p2 = ([], []).
Proof.
  unfold bagF. intros B. apply iter_emptyF.
  - apply addedF_nil. destruct rep; [intros h Hh; eapply Permutation_in; [apply Permutation_sym, B|exact Hh]|intros h; apply B].
  - apply removedF_nil. destruct rep; [intros h Hh; eapply Permutation_in; [apply B|exact Hh]|intros h; apply B].
  - intros E h. revert B. rewrite E. intros B. apply count_perm, B.
Qed.

Lemma iterF_sound (dio : value -> value -> path -> path -> ires) xs ys p1 p2 :
  (forall x y q1 q2, In x xs -> In y ys -> fst (dio x y q1 q2) = [] -> hv x = hv y) ->
  fst (iter_deephashF H c F rep pairs (map dio xs) xs ys p1 p2) = [] ->
  bagF (g1 H c F rep xs) (g2 H c F rep ys).
Proof.
  intros IH. unfold iter_deephashF, bagF.
  assert (rep = true \/ rep = false) as [E|E] by (destruct rep; auto).
  - rewrite !(if_true _ _ _ E). intro Hn. apply (iter_repF_sound xs ys p1 p2 dio IH) in Hn as [_ [_ Hc]]. apply count_eq_perm. exact Hc.
  - rewrite !(if_false _ _ _ E). intro Hn. apply (iter_norepF_sound xs ys p1 p2 dio IH) in Hn as [Ha Hr].
    intro x. split; [apply all_in_1_2F|apply all_in_2_1F]; auto.
Qed.

End Level.

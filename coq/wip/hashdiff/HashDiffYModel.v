(** C12 over the EXTENDED universe of the Options block (Options/YValue.v, YModel.v: arbitrary
    floats, Decimal, datetime / date / time / timedelta, members of plain Enum classes), for ALL
    the normalisation options DeepHash and DeepDiff share:

        ignore_string_case, ignore_string_type_changes, ignore_numeric_type_changes,
        significant_digits + number_format_notation, truncate_datetime, default_timezone,
        use_enum_value.

    HASH ENGINE  [yhash H F priv rep v] = DeepHash(v, hasher=H, ignore_repetition = not rep, **F)[v],
                 the STAND-ALONE call.  Leaves: [yh_text] = the text handed to the hasher:
                 YModel.hatom0 / hatomF (the leaf texts of the Options block, tied to deephash.py by
                 the C11 correspondence) EXCEPT that the stand-alone call also applies
                 truncate_datetime ([_prep_datetime] -> datetime_normalize(truncate_datetime, ...)):
                 the DeepHash calls DeepDiff makes for set members / list items do not receive that
                 option (it is not in DEEPHASH_PARAM_KEYS; YModel.hatomF is that untruncated text;
                 finding C12-truncate-not-forwarded).  Containers: exactly Hash/HashModel.v
                 ([arrange], [seq_result], [dict_result], [dict_item] work on texts).
    DIFF ENGINE  [ydiff] = YModel.run_optF = DeepDiff(t1, t2, **F) of the Options block.  For values
                 WITHOUT lists / tuples ([listfree]) ignore_order=True changes nothing (only
                 iterables other than sets are affected by it; report_repetition likewise), so
                 this IS DeepDiff(t1, t2, ignore_order=True, report_repetition=rep, **F) there:
                 the root, every dict value at any depth, dict keys (key cleaning) and set members
                 (item hashes).  Lists and tuples stay with HashDiffModel.v (base universe).
    Definitions only. *)
From Coq Require Import List ZArith NArith Bool Arith String.
Import ListNotations.
From DD Require Import Base.PyStr Hash.HashModel Options.OptDtModel Options.YValue Options.YModel.

(* the option record of the container machinery of HashModel (only ignore_repetition and
   ignore_iterable_order are read by [arrange]) *)
Definition yhopts (F : opts) (priv rep : bool) : hopts :=
  mk_hopts (negb rep) true priv (o_case F) (o_strty F) (o_numty F)
           (match o_sig F with Some d => Some (N.to_nat d) | None => None end).

(* the shared options: math_epsilon, exclude_types, ignore_nan_inequality are not among them *)
Definition yshared (F : opts) : bool :=
  match o_eps F with None => true | Some _ => false end &&
  match o_excl F with [] => true | _ :: _ => false end &&
  negb (o_nan F).

(* ---- leaves ---- *)
(* _prep_datetime of the stand-alone call: truncated, then moved to default_timezone; the text
   is a stand-in that determines (and is determined by) str() of the normalised datetime *)
Definition ydt_text (F : opts) (us : Z) (off : option Z) : pystr :=
  (s2p "datetime:" ++ p_of_Z (dt_instant (o_trunc F) (o_tz F) (mkDt us off)) ++ [64%N] ++ p_of_Z (o_tz F))%list.
Definition yh0 (F : opts) (a : atom) : pystr :=
  match a with
  | ADt us off => prep_string F (s2p "str") (ydt_text F us off)
  | ATime us => prep_string F (s2p "str") (s2p "datetime:secs:" ++ p_of_Z (dt_trunc (o_trunc F) us))%list
  | _ => hatom0 F a
  end.
(* use_enum_value: obj = obj.value first; otherwise the member is hashed as an object *)
Definition yh_text (F : opts) (a : atom) : pystr :=
  match a with
  | AEnum _ _ _ v => if o_enum F then yh0 F (atom_of_e v) else hatomF F a
  | _ => yh0 F a
  end.
(* the exception DeepHash raises on a leaf, if any *)
Definition yh_err (F : opts) (a : atom) : option errk :=
  match a with
  | AEnum _ _ _ v => if o_enum F then hatom_err F (atom_of_e v) else None
  | _ => hatom_err F a
  end.

Definition y_private (k : atom) : bool :=
  match k with AStr s => is_prefix (s2p "__") s | _ => false end.

Section YH.
Variable H : pystr -> pystr.
Variable F : opts.
Variables priv rep : bool.

Notation yo := (yhopts F priv rep).
Definition yretag (s : pystr) : pystr := prep_string F (s2p "str") s.
Definition yh_atom (a : atom) : pystr := H (yh_text F a).

Fixpoint yhash (v : value) {struct v} : pystr :=
  match v with
  | VAtom a => yh_atom a
  | VList xs => H (yretag (seq_result (s2p "list") (arrange yo (map yhash xs))))
  | VTuple xs => H (yretag (seq_result (s2p "tuple") (arrange yo (map yhash xs))))
  | VDict kvs =>
      H (yretag (dict_result
         ((fix go (kvs : list (atom * value)) : list pystr :=
             match kvs with
             | [] => []
             | (k, x) :: r =>
                 if priv && y_private k then go r
                 else dict_item (yh_atom k) (yhash x) :: go r
             end) kvs)))
  | VSet xs => H (yretag (seq_result (s2p "set") (arrange yo (map yh_atom xs))))
  | VFrozen xs => H (yretag (seq_result (s2p "frozenset") (arrange yo (map yh_atom xs))))
  end.

(* does the stand-alone call raise?  (the first leaf that does) *)
Fixpoint yhash_err (v : value) {struct v} : option errk :=
  match v with
  | VAtom a => yh_err F a
  | VList xs | VTuple xs =>
      (fix go (l : list value) : option errk :=
         match l with [] => None | x :: r => first_err (yhash_err x) (go r) end) xs
  | VDict kvs =>
      (fix go (l : list (atom * value)) : option errk :=
         match l with
         | [] => None
         | (k, x) :: r => if priv && y_private k then go r else first_err (first_err (yh_err F k) (yhash_err x)) (go r)
         end) kvs
  | VSet xs | VFrozen xs =>
      (fix go (l : list atom) : option errk :=
         match l with [] => None | a :: r => first_err (yh_err F a) (go r) end) xs
  end.
End YH.

(* values the diff side of this file speaks about *)
Fixpoint listfree (v : value) : bool :=
  match v with
  | VAtom _ | VSet _ | VFrozen _ => true
  | VList _ | VTuple _ => false
  | VDict kvs => forallb (fun kv => listfree (snd kv)) kvs
  end.

(* ---- the observables of C12 ---- *)
Inductive yverdict := YEmpty | YNonEmpty | YRaised (e : errk).

Section YD.
Variable H : pystr -> pystr.
Variable udiff : pystr -> pystr -> pystr.
Variable c : cfg.
Variable F : opts.
Variable rep : bool.

Definition no_ops : path -> list value -> list value -> list opcode := fun _ _ _ => [].
Definition ydiff (t1 t2 : value) : res (list entry * list path) := run_optF udiff no_ops c F t1 t2.
Definition ydiff_verdict (t1 t2 : value) : yverdict :=
  match ydiff t1 t2 with
  | Ok (es, _) => match es with [] => YEmpty | _ :: _ => YNonEmpty end
  | Err e => YRaised e
  end.
(* None: DeepHash raises on one of the two values *)
Definition yhash_eq (t1 t2 : value) : option bool :=
  match first_err (yhash_err F (ignore_private c) t1) (yhash_err F (ignore_private c) t2) with
  | Some _ => None
  | None => Some (pystr_eqb (yhash H F (ignore_private c) rep t1) (yhash H F (ignore_private c) rep t2))
  end.
(* the property on one pair *)
Definition c12y_agree (t1 t2 : value) : bool :=
  match yhash_eq t1 t2, ydiff_verdict t1 t2 with
  | Some true, YEmpty | Some false, YNonEmpty => true
  | None, YRaised _ => true                          (* both raise: no verdict to compare *)
  | _, _ => false
  end.

(* at a leaf *)
Definition yleaf_empty (a b : atom) : bool :=
  match leafR udiff F a b [] [] with Ok [] => true | _ => false end.
End YD.

(** C12 over the extended universe, one level above the leaves: SETS (and frozensets) of extended atoms -
    Enum members, Decimals, arbitrary floats, dates, datetimes ... - under every combination of the shared
    options.

    [y_set_hash_iff_diff]: with report_repetition off, for every hasher that is injective with separator-free,
    lower-case-stable tokens: the stand-alone hashes of two sets are equal exactly when _diff_set reports
    nothing - PROVIDED truncate_datetime does not MOVE any member ([trunc_free]: every datetime / time member is
    already on the unit boundary, or the option is off): that is the one place where the two engines hash a set
    member differently (the DeepHash calls inside DeepDiff do
    not receive truncate_datetime: finding C12-truncate-not-forwarded, witness
    HashDiffYWitness.y_truncate_not_forwarded_refuted).  The guard is exact in that sense: it is the
    syntactic condition under which the member texts of the two engines coincide ([yh_text_hatomF]). *)
From Coq Require Import List ZArith NArith Bool Arith Lia Permutation String.
Import ListNotations.
From DD Require Import Base.PyStr Hash.HashModel Hash.HashProofsBase Hash.HashProofsC07 HashDiff.HashDiffModel HashDiff.HashDiffProofsInv.
From DD Require Import Options.OptDtModel Options.YValue Options.YModel HashDiff.HashDiffYModel HashDiff.HashDiffYProofs HashDiff.HashDiffYWitness.

Local Open Scope list_scope.

(* ---- generic ---- *)
Lemma pystr_eqb_true s t : pystr_eqb s t = true -> s = t.
Proof.
  revert t. induction s as [|c s IH]; intros [|d t] E; try discriminate; [reflexivity|].
  cbn in E. apply andb_true_iff in E as [E1 E2]. apply N.eqb_eq in E1. subst d. f_equal. apply IH. exact E2.
Qed.
Lemma pystr_eqb_refl s : pystr_eqb s s = true.
Proof. induction s as [|c s IH]; [reflexivity|]. cbn. rewrite N.eqb_refl. exact IH. Qed.
Lemma flat_map_nil {A B} (f : A -> list B) l : (forall x, In x l -> f x = []) -> flat_map f l = [].
Proof.
  induction l as [|x r IH]; intros Hf; cbn; [reflexivity|].
  rewrite (Hf x (or_introl eq_refl)). apply IH. intros; apply Hf; right; auto.
Qed.
Lemma flat_map_nil_inv {A B} (f : A -> list B) l x : flat_map f l = [] -> In x l -> f x = [].
Proof.
  induction l as [|y r IH]; [intros _ []|]. intros E [->|Hi]; cbn in E; apply app_eq_nil in E as [E1 E2]; [exact E1|apply IH; assumption].
Qed.

Lemma fph_incl (h : atom -> pystr) l seen x : In x (first_per_hash h l seen) -> In x l.
Proof.
  revert seen; induction l as [|a r IH]; intros seen; cbn [first_per_hash]; [auto|].
  destruct (existsb (pystr_eqb (h a)) seen).
  - intros Hi; right; eapply IH; eauto.
  - intros [<-|Hi]; [left; reflexivity|right; eapply IH; eauto].
Qed.
Lemma fph_cover (h : atom -> pystr) l seen y :
  In y l -> existsb (pystr_eqb (h y)) seen = true \/ exists y', In y' (first_per_hash h l seen) /\ h y' = h y.
Proof.
  revert seen; induction l as [|a r IH]; intros seen; [intros []|]. cbn [first_per_hash].
  intros [->|Hin].
  - destruct (existsb (pystr_eqb (h y)) seen) eqn:E; [left; reflexivity|].
    right. exists y. split; [left; reflexivity|reflexivity].
  - destruct (existsb (pystr_eqb (h a)) seen) eqn:E.
    + destruct (IH seen Hin) as [Hs|[y' [Hy' He]]]; [left; exact Hs|right; exists y'; auto].
    + destruct (IH (h a :: seen) Hin) as [Hs|[y' [Hy' He]]].
      * cbn [existsb] in Hs. apply orb_true_iff in Hs as [Hs|Hs]; [|left; exact Hs].
        apply pystr_eqb_true in Hs. right. exists a. split; [left; reflexivity|congruence].
      * right. exists y'. split; [right; exact Hy'|exact He].
Qed.

(* ---- the member texts of the two engines ---- *)
(* truncate_datetime MOVES a member: a datetime / time whose wall clock is not on the unit boundary *)
Definition trunc_moves (F : opts) (a : atom) : bool :=
  match a with
  | ADt us _ | ATime us => negb (Z.eqb (dt_trunc (o_trunc F) us) us)
  | _ => false
  end.
Definition trunc_free (F : opts) (xs : list atom) : bool := forallb (fun a => negb (trunc_moves F a)) xs.
(* the guard of round-3 wave 2a: truncation off, or no datetime / time member at all *)
Definition dt_like (a : atom) : bool := match a with ADt _ _ | ATime _ => true | _ => false end.
Definition trunc_free_coarse (F : opts) (xs : list atom) : bool :=
  match o_trunc F with None => true | Some _ => forallb (fun a => negb (dt_like a)) xs end.

Lemma trunc_moves_coarse F a : (o_trunc F = None \/ dt_like a = false) -> trunc_moves F a = false.
Proof.
  intros [G|G]; destruct a; try reflexivity; try discriminate; cbn [trunc_moves]; rewrite G; cbn [dt_trunc]; rewrite Z.eqb_refl; reflexivity.
Qed.
Lemma trunc_free_weaker F xs : trunc_free_coarse F xs = true -> trunc_free F xs = true.
Proof.
  unfold trunc_free_coarse, trunc_free. intros G. apply forallb_forall. intros a Ha. apply negb_true_iff.
  apply trunc_moves_coarse. destruct (o_trunc F); [|left; reflexivity]. right.
  rewrite forallb_forall in G. apply negb_true_iff. apply G. exact Ha.
Qed.

(* EXACTLY when truncation does not move the member do the two engines hand the same text to the hasher *)
Lemma yh_text_hatomF F a : trunc_moves F a = false -> yh_text F a = hatomF F a.
Proof.
  intros G. destruct a; try reflexivity.
  - cbn [trunc_moves] in G. apply negb_false_iff, Z.eqb_eq in G.
    cbn [yh_text yh0 hatomF hatom0]. unfold ydt_text, dt_text, dt_instant. cbn [dt_us dt_off dt_trunc]. rewrite G. reflexivity.
  - cbn [trunc_moves] in G. apply negb_false_iff, Z.eqb_eq in G.
    cbn [yh_text yh0 hatomF hatom0]. rewrite G. reflexivity.
  - cbn [yh_text hatomF]. destruct (o_enum F); [|reflexivity]. destruct v; reflexivity.
Qed.
Lemma p_of_Z_inj' z z' : p_of_Z z = p_of_Z z' -> z = z'.
Proof. apply p_of_Z_inj. Qed.

Lemma trunc_free_In F xs a : trunc_free F xs = true -> In a xs -> trunc_moves F a = false.
Proof.
  unfold trunc_free. intros G Ha. rewrite forallb_forall in G. apply negb_true_iff. apply G. exact Ha.
Qed.

Section Sets.
Variable H : pystr -> pystr.
Hypothesis H_tok : forall s, sepfree (H s).
Hypothesis H_inj : forall s t, H s = H t -> s = t.
Hypothesis H_low : forall s, lst (H s).
Variable F : opts.
Variable priv : bool.
Hypothesis no_excl : o_excl F = [].

(* the option record of the base universe with the same four fields: [arrange] reads nothing else *)
Definition y2o : OptModel.opts := OptModel.mkOpts (o_case F) (o_strty F) (o_numty F) (o_sig F) None [].
Lemma yhopts_y2o rep : yhopts F priv rep = hoptsF y2o priv rep.
Proof. reflexivity. Qed.

Lemma excl_hash_none a : excl_hash F a = false.
Proof.
  assert (Ex : forall t, excluded F t = false) by (intros t; unfold excluded; rewrite no_excl; reflexivity).
  destruct a; cbn [excl_hash]; try apply Ex; [reflexivity|]. destruct (o_enum F); apply Ex.
Qed.
Lemma filter_excl_id xs : filter (fun a => negb (excl_hash F a)) xs = xs.
Proof. induction xs as [|a r IH]; [reflexivity|]. cbn [filter]. rewrite excl_hash_none. cbn [negb]. rewrite IH. reflexivity. Qed.

(* _diff_set reports nothing <-> the two sets of member hashes coincide *)
Lemma diff_setF_iff xs ys p1 p2 :
  diff_setF F xs ys p1 p2 = [] <-> (forall h, In h (map (hatomF F) xs) <-> In h (map (hatomF F) ys)).
Proof.
  unfold diff_setF. rewrite !filter_excl_id.
  assert (R : forall k a q1 q2, report_setF F k a q1 q2 <> []).
  { intros k a q1 q2. unfold report_setF, excluded. rewrite no_excl. cbn [existsb]. discriminate. }
  split.
  - intros Hn. apply app_eq_nil in Hn as [Hadd Hrem].
    assert (G : forall l l' (f : atom -> list entry), (forall y, f y <> []) ->
              flat_map (fun y => if existsb (pystr_eqb (hatomF F y)) (map (hatomF F) l') then [] else f y)
                       (first_per_hash (hatomF F) l []) = [] ->
              forall h, In h (map (hatomF F) l) -> In h (map (hatomF F) l')).
    { intros l l' f Hf Hfm h Hh. apply in_map_iff in Hh as [a [<- Ha]].
      destruct (fph_cover (hatomF F) l [] a Ha) as [Hs|[y' [Hy' He]]]; [discriminate|].
      pose proof (flat_map_nil_inv _ _ y' Hfm Hy') as Hz. cbn beta in Hz.
      destruct (existsb (pystr_eqb (hatomF F y')) (map (hatomF F) l')) eqn:E; [|exfalso; eapply Hf; eauto].
      apply existsb_exists in E as [h [Hh Hq]]. apply pystr_eqb_true in Hq. subst h.
      rewrite <- He. exact Hh. }
    intro h. split.
    + apply (G xs ys (fun x => report_setF F KSetRem x p1 p2)); auto.
    + apply (G ys xs (fun y => report_setF F KSetAdd y p1 p2)); auto.
  - intros Hs.
    match goal with |- ?a ++ ?b = [] => assert (Ha : a = []); [|assert (Hb : b = []); [|rewrite Ha, Hb; reflexivity]] end;
      apply flat_map_nil; intros a Hin; apply fph_incl in Hin.
    + assert (Hx : existsb (pystr_eqb (hatomF F a)) (map (hatomF F) xs) = true).
      { apply existsb_exists. exists (hatomF F a). split; [|apply pystr_eqb_refl]. apply Hs, in_map, Hin. }
      rewrite Hx. reflexivity.
    + assert (Hx : existsb (pystr_eqb (hatomF F a)) (map (hatomF F) ys) = true).
      { apply existsb_exists. exists (hatomF F a). split; [|apply pystr_eqb_refl]. apply Hs, in_map, Hin. }
      rewrite Hx. reflexivity.
Qed.

(* the stand-alone hash of a set <-> the arrangement of its member hashes *)
Lemma ylowif_lst s : lst s -> lowif F s = s.
Proof. unfold lst, lowif. intros E. destruct (o_case F); [exact E|reflexivity]. Qed.
Lemma lst_s2p_lower (s : pystr) : lower s = s -> lst s.
Proof. intros E. exact E. Qed.

Lemma yretag_inj r1 r2 : lst r1 -> lst r2 -> yretag F r1 = yretag F r2 -> r1 = r2.
Proof.
  intros L1 L2. unfold yretag, prep_string. destruct (o_strty F).
  - cbn [app]. rewrite !ylowif_lst by assumption. auto.
  - assert (Lp : lst (s2p "str" ++ colon)) by reflexivity.
    rewrite !ylowif_lst by (apply lst_app; assumption). apply app_inv_head.
Qed.

Lemma map_yh_tok xs : Forall sepfree (map (yh_atom H F) xs).
Proof. apply Forall_forall. intros h Hh. apply in_map_iff in Hh as [a [<- _]]. apply H_tok. Qed.
Lemma map_yh_lst xs : Forall lst (map (yh_atom H F) xs).
Proof. apply Forall_forall. intros h Hh. apply in_map_iff in Hh as [a [<- _]]. apply H_low. Qed.

Lemma yhash_seq_inj (name : pystr) rep hs1 hs2 :
  lst name -> Forall sepfree hs1 -> Forall sepfree hs2 -> Forall lst hs1 -> Forall lst hs2 ->
  (H (yretag F (seq_result name (arrange (yhopts F priv rep) hs1))) = H (yretag F (seq_result name (arrange (yhopts F priv rep) hs2)))
   <-> same_bag rep hs1 hs2).
Proof.
  intros Ln T1 T2 L1 L2. rewrite <- (arrange_bag y2o priv rep hs1 hs2 T1 T2). rewrite yhopts_y2o. split.
  - intros E. apply H_inj in E.
    apply yretag_inj in E; try (apply seq_result_lst; [exact Ln|apply arrange_lst; assumption]).
    unfold seq_result in E. do 2 apply app_inv_head in E.
    apply (join_inj 44%N); [apply arrange_toks; exact T1|apply arrange_toks; exact T2|exact E].
  - intros E. rewrite E. reflexivity.
Qed.

Lemma in_map_H (f : atom -> pystr) xs ys :
  (forall h, In h (map (fun a => H (f a)) xs) <-> In h (map (fun a => H (f a)) ys)) <->
  (forall h, In h (map f xs) <-> In h (map f ys)).
Proof.
  split; intros S h; split; intros Hh; apply in_map_iff in Hh as [a [<- Ha]].
  - assert (X : In (H (f a)) (map (fun a => H (f a)) ys)) by (apply S, in_map_iff; exists a; auto).
    apply in_map_iff in X as [b [Eb Hb]]. apply H_inj in Eb. rewrite <- Eb. apply in_map. exact Hb.
  - assert (X : In (H (f a)) (map (fun a => H (f a)) xs)) by (apply S, in_map_iff; exists a; auto).
    apply in_map_iff in X as [b [Eb Hb]]. apply H_inj in Eb. rewrite <- Eb. apply in_map. exact Hb.
  - assert (X : In (f a) (map f ys)) by (apply S, in_map; exact Ha).
    apply in_map_iff in X as [b [Eb Hb]]. apply in_map_iff. exists b. split; [rewrite Eb; reflexivity|exact Hb].
  - assert (X : In (f a) (map f xs)) by (apply S, in_map; exact Ha).
    apply in_map_iff in X as [b [Eb Hb]]. apply in_map_iff. exists b. split; [rewrite Eb; reflexivity|exact Hb].
Qed.

Theorem y_set_hash_iff_diff xs ys p1 p2 :
  trunc_free F xs = true -> trunc_free F ys = true ->
  (yhash H F priv false (VSet xs) = yhash H F priv false (VSet ys) <-> diff_setF F xs ys p1 p2 = []) /\
  (yhash H F priv false (VFrozen xs) = yhash H F priv false (VFrozen ys) <-> diff_setF F xs ys p1 p2 = []).
Proof.
  intros Gx Gy.
  assert (Ex : map (yh_atom H F) xs = map (fun a => H (hatomF F a)) xs).
  { apply map_ext_in. intros a Ha. unfold yh_atom. rewrite (yh_text_hatomF F a (trunc_free_In F xs a Gx Ha)). reflexivity. }
  assert (Ey : map (yh_atom H F) ys = map (fun a => H (hatomF F a)) ys).
  { apply map_ext_in. intros a Ha. unfold yh_atom. rewrite (yh_text_hatomF F a (trunc_free_In F ys a Gy Ha)). reflexivity. }
  rewrite diff_setF_iff, <- (in_map_H (hatomF F) xs ys), <- Ex, <- Ey.
  split; cbn [yhash]; apply (yhash_seq_inj _ false); try apply map_yh_tok; try apply map_yh_lst; reflexivity.
Qed.

(* ---- report_repetition = True (DeepHash ignore_repetition = False): DeepHash counts the members that share a
   hash, _diff_set only compares the SETS of member hashes; so additionally no two members of one set may be
   merged by the options ([nodup_txt]: the member texts are pairwise different) - otherwise: finding
   C12-set-member-collision ---- *)
Fixpoint nodup_txt (l : list pystr) : bool :=
  match l with
  | [] => true
  | t :: r => negb (existsb (pystr_eqb t) r) && nodup_txt r
  end.
Lemma nodup_txt_NoDup l : nodup_txt l = true -> NoDup l.
Proof.
  induction l as [|t r IH]; intros E; [constructor|]. cbn [nodup_txt] in E. apply andb_true_iff in E as [E1 E2].
  constructor; [|apply IH; exact E2]. intros Hi. apply negb_true_iff in E1.
  assert (X : existsb (pystr_eqb t) r = true); [|congruence].
  apply existsb_exists. exists t. split; [exact Hi|apply pystr_eqb_refl].
Qed.
Lemma NoDup_map_H (l : list pystr) : NoDup l -> NoDup (map H l).
Proof.
  induction 1 as [|x l Hx Hl IH]; cbn [map]; constructor; [|exact IH].
  intros Hi. apply in_map_iff in Hi as [y [Ey Hy]]. apply H_inj in Ey. subst y. contradiction.
Qed.
Lemma NoDup_same_set_perm {A} (l1 l2 : list A) :
  NoDup l1 -> NoDup l2 -> (Permutation l1 l2 <-> (forall x, In x l1 <-> In x l2)).
Proof.
  intros N1 N2. split.
  - intros P x. split; apply Permutation_in; [exact P|apply Permutation_sym, P].
  - intros S. apply NoDup_Permutation; assumption.
Qed.

Theorem y_set_hash_iff_diff_rep xs ys p1 p2 :
  trunc_free F xs = true -> trunc_free F ys = true ->
  nodup_txt (map (hatomF F) xs) = true -> nodup_txt (map (hatomF F) ys) = true ->
  (yhash H F priv true (VSet xs) = yhash H F priv true (VSet ys) <-> diff_setF F xs ys p1 p2 = []) /\
  (yhash H F priv true (VFrozen xs) = yhash H F priv true (VFrozen ys) <-> diff_setF F xs ys p1 p2 = []).
Proof.
  intros Gx Gy Nx Ny.
  assert (Ex : map (yh_atom H F) xs = map H (map (hatomF F) xs)).
  { rewrite map_map. apply map_ext_in. intros a Ha. unfold yh_atom. rewrite (yh_text_hatomF F a (trunc_free_In F xs a Gx Ha)). reflexivity. }
  assert (Ey : map (yh_atom H F) ys = map H (map (hatomF F) ys)).
  { rewrite map_map. apply map_ext_in. intros a Ha. unfold yh_atom. rewrite (yh_text_hatomF F a (trunc_free_In F ys a Gy Ha)). reflexivity. }
  assert (P : Permutation (map (yh_atom H F) xs) (map (yh_atom H F) ys) <-> diff_setF F xs ys p1 p2 = []).
  { rewrite diff_setF_iff, <- (in_map_H (hatomF F) xs ys).
    rewrite Ex, Ey, NoDup_same_set_perm by (apply NoDup_map_H, nodup_txt_NoDup; assumption).
    rewrite !map_map. tauto. }
  rewrite <- P.
  split; cbn [yhash]; apply (yhash_seq_inj _ true); try apply map_yh_tok; try apply map_yh_lst; reflexivity.
Qed.

End Sets.

(* the guard is satisfiable by non-trivial sets (an Enum member and its value under use_enum_value, a datetime
   without truncation), and fails exactly on the witness of the finding *)
(* with report_repetition: {'a', 'A'} under ignore_string_case is outside nodup_txt (and the engines disagree there) *)
Example set_rep_guard :
  nodup_txt (map (hatomF Yenum_case) [AStr (s2p "a"); AStr (s2p "A")]) = false /\
  obs Yenum_case true (VSet [AStr (s2p "a"); AStr (s2p "A")]) (VSet [AStr (s2p "a")]) = (Some false, YEmpty) /\
  nodup_txt (map (hatomF Yenum_case) [E_B; AInt 1]) = true /\
  obs Yenum_case true (VSet [E_B; AInt 1]) (VSet [AInt 1; AStr (s2p "X")]) = (Some true, YEmpty).
Proof. vm_compute. repeat split; reflexivity. Qed.

Example set_guard_satisfiable :
  trunc_free Yenum [E_A; ADt t_10_20_30 None] = true /\
  obs Yenum false (VSet [E_A; ADt t_10_20_30 None]) (VSet [ADt t_10_20_30 None; AInt 1]) = (Some true, YEmpty) /\
  trunc_free (Ytrunc UMinute) [ADt t_10_20_01 None] = false /\
  trunc_free (Ytrunc UMinute) [ADt (t_10_20_01 - 1000000) None] = true /\ trunc_free_coarse (Ytrunc UMinute) [ADt (t_10_20_01 - 1000000) None] = false.
Proof. vm_compute. repeat split; reflexivity. Qed.

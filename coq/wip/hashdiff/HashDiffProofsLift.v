(** C12 for nested values under the shared options: the hash engine and the diff
    engine give the same verdict on every pair of values inside the guards.

    Structural induction over t1; every level uses the atom-level theorems
    (HashDiffProofsAtoms.v), the option-aware inversion of container hashes
    (HashDiffProofsInv.v), the level lemmas (HashDiffProofsLevel.v) and b11's
    description of key cleaning on good key sets (Options/OptProofsKeys.v). *)
From Coq Require Import List ZArith NArith Bool Arith Lia Permutation.
Import ListNotations.
From DD Require Import Base.PyStr Base.Value Diff.Tree Diff.DiffModel Hash.HashModel Hash.HashProofsBase
  Hash.HashProofsC06 Hash.HashProofsC07 DiffIO.DiffIOModel DiffIO.DiffIOProofs
  Options.OptModel Options.OptProofsBase Options.OptProofsAtoms Options.OptProofsKeys
  HashDiff.HashDiffModel HashDiff.HashDiffProofsNum HashDiff.HashDiffProofsAtoms HashDiff.HashDiffProofsInv
  HashDiff.HashDiffProofsLevel.

Notation ires := DiffIOModel.res.

(* ------------------------------------------------------------------ *)
(** * decidable equality of keys, guards *)

Definition oty_eqb (a b : option ty) : bool :=
  match a, b with Some x, Some y => ty_eqb x y | None, None => true | _, _ => false end.
Definition obool_eqb (a b : option bool) : bool :=
  match a, b with Some x, Some y => Bool.eqb x y | None, None => true | _, _ => false end.
Definition akey_eqb (x y : akeyT) : bool :=
  match x, y with
  | KNone, KNone => true
  | KBool a, KBool b => Bool.eqb a b
  | KNum t v, KNum t' v' => oty_eqb t t' && Z.eqb v v'
  | KStr t s, KStr t' s' => obool_eqb t t' && pystr_eqb s s'
  | _, _ => false
  end.
Lemma akey_eqb_spec x y : akey_eqb x y = true <-> x = y.
Proof.
  destruct x as [|a|t v|t s], y as [|b|t' v'|t' s']; cbn; try (split; [discriminate|intros E; discriminate E]); try tauto.
  - rewrite Bool.eqb_true_iff. split; [intros ->; reflexivity|intros E; inversion E; reflexivity].
  - rewrite andb_true_iff, Z.eqb_eq. split.
    + intros [A ->]. f_equal. destruct t as [t|], t' as [t'|]; try discriminate; [|reflexivity].
      f_equal. apply OptProofsBase.ty_eqb_eq. exact A.
    + intros E. inversion E. subst. split; [|reflexivity]. destruct t' as [t'|]; [apply OptProofsBase.ty_eqb_refl|reflexivity].
  - rewrite andb_true_iff. split.
    + intros [A B]. apply OptProofsBase.pystr_eqb_eq in B. subst. f_equal.
      destruct t as [[]|], t' as [[]|]; try discriminate; reflexivity.
    + intros E. inversion E. subst. split; [destruct t' as [[]|]; reflexivity|apply OptProofsBase.pystr_eqb_refl].
Qed.

(* members of a set pairwise inequivalent under the options *)
Fixpoint nodupk (F : opts) (l : list atom) : bool :=
  match l with
  | [] => true
  | a :: r => negb (existsb (fun b => akey_eqb (akey F a) (akey F b)) r) && nodupk F r
  end.

(* all dict keys of a value *)
Fixpoint dkeys (v : value) : list atom :=
  match v with
  | VAtom _ | VSet _ | VFrozen _ => []
  | VList xs | VTuple xs => flat_map dkeys xs
  | VDict kvs => flat_map (fun kv => fst kv :: dkeys (snd kv)) kvs
  end.

(* structural guard: every dict has a good key set (its kept keys are pairwise different
   for Python AND after cleaning: no clean-key collision); with report_repetition no set
   has two members the options merge *)
Fixpoint goodv (c : cfg) (F : opts) (rep : bool) (v : value) : bool :=
  match v with
  | VAtom _ => true
  | VList xs | VTuple xs => forallb (goodv c F rep) xs
  | VDict kvs => keys_good F (keys_of c kvs) && forallb (fun kv => goodv c F rep (snd kv)) kvs
  | VSet xs | VFrozen xs => negb rep || nodupk F xs
  end.

(* coherence of key cleaning with the hash of a key (the dict-key form of K2 / K9 /
   bytes-key-case / significant_digits-only findings): two keys have ==-equal clean keys
   exactly when they are equivalent under the options *)
Definition cohk (F : opts) (k k' : atom) : bool :=
  Bool.eqb (py_eq (ckey F k) (ckey F k')) (akey_eqb (akey F k) (akey F k')).

Definition lift_guard (c : cfg) (F : opts) (rep : bool) (t1 t2 : value) : bool :=
  let us := (atoms_of t1 ++ atoms_of t2)%list in
  let ks := (dkeys t1 ++ dkeys t2)%list in
  forallb (fun a => tag_okF F a && ascii_atom a) us &&
  forallb (fun a => forallb (k9_ok F a) us) us &&
  forallb (fun k => forallb (cohk F k) ks) ks &&
  goodv c F rep t1 && goodv c F rep t2.

(* ------------------------------------------------------------------ *)
(** * generic facts *)

Lemma diff_set_iff (hatom : atom -> pystr) xs ys p1 p2 :
  diff_set hatom no_skip xs ys p1 p2 = [] <-> (forall h, In h (map hatom xs) <-> In h (map hatom ys)).
Proof.
  split.
  - intros Hn. unfold diff_set in Hn. apply app_eq_nil in Hn as [Hadd Hrem].
    assert (G : forall l l' (f : atom -> list entry), (forall y, f y <> []) ->
              flat_map (fun y => if existsb (pystr_eqb (hatom y)) (map hatom l') then [] else f y)
                       (first_per_hash hatom l []) = [] ->
              forall h, In h (map hatom l) -> In h (map hatom l')).
    { intros l l' f Hf Hfm h Hh. apply in_map_iff in Hh as [a [<- Ha]].
      destruct (first_per_hash_cover hatom l [] a Ha) as [Hs|[y' [Hy' He]]]; [discriminate|].
      pose proof (flat_map_nil_inv _ _ y' Hfm Hy') as Hz. cbn beta in Hz.
      destruct (existsb (pystr_eqb (hatom y')) (map hatom l')) eqn:E; [|exfalso; eapply Hf; eauto].
      apply existsb_exists in E as [h [Hh Hq]]. apply ValueFacts.pystr_eqb_eq in Hq. subst h.
      rewrite <- He. exact Hh. }
    intro h. split.
    + apply (G xs ys (fun x => report_set no_skip KSetRem x p1 p2)); auto. intros y. unfold report_set. cbn [no_skip]. discriminate.
    + apply (G ys xs (fun y => report_set no_skip KSetAdd y p1 p2)); auto. intros y. unfold report_set. cbn [no_skip]. discriminate.
  - intros Hs. unfold diff_set.
    match goal with |- ?a ++ ?b = [] => assert (Ha : a = []); [|assert (Hb : b = []); [|rewrite Ha, Hb; reflexivity]] end;
      apply flat_map_nil; intros a Hin; apply first_per_hash_incl in Hin.
    + assert (Hx : existsb (pystr_eqb (hatom a)) (map hatom xs) = true).
      { apply existsb_exists. exists (hatom a). split; [|apply ValueFacts.pystr_eqb_refl]. apply Hs, in_map, Hin. }
      rewrite Hx. reflexivity.
    + assert (Hx : existsb (pystr_eqb (hatom a)) (map hatom ys) = true).
      { apply existsb_exists. exists (hatom a). split; [|apply ValueFacts.pystr_eqb_refl]. apply Hs, in_map, Hin. }
      rewrite Hx. reflexivity.
Qed.

Lemma NoDup_same_set_perm {A} (l1 l2 : list A) :
  NoDup l1 -> NoDup l2 -> (Permutation l1 l2 <-> (forall x, In x l1 <-> In x l2)).
Proof.
  intros N1 N2. split.
  - intros P x. split; apply Permutation_in; [exact P|apply Permutation_sym, P].
  - intros S. apply NoDup_Permutation; assumption.
Qed.

(* ------------------------------------------------------------------ *)
(** * the induction *)

Section Lift.
Variable H : pystr -> pystr.
Hypothesis H_tok : forall s, sepfree (H s).
Hypothesis H_inj : forall s t, H s = H t -> s = t.
Hypothesis H_low : forall s, lst (H s).
Variable udiff : pystr -> pystr -> pystr.
Variable c : cfg.
Variable F : opts.
Variable rep : bool.
Variable pairs : path -> list (nat * nat).
Hypothesis HF : shared F = true.
Hypothesis thr_le_one : thr_num c <= thr_den c.

Notation priv := (DiffModel.ignore_private c).
Notation o := (hoptsF F priv rep).
Notation hv := (hvF H c F rep).
Notation ha := (hatomF_io H c F rep).
Notation dF := (diff_ioF H udiff c F rep pairs).

(* the atoms / dict keys of the two inputs *)
Variable U : atom -> Prop.
Variable K : atom -> Prop.
Hypothesis U_tag : forall a, U a -> tag_okF F a = true.
Hypothesis U_asc : forall a, U a -> ascii_atom a = true.
Hypothesis U_k9 : forall a b, U a -> U b -> k9_ok F a b = true.
Hypothesis K_U : forall k, K k -> U k.
Hypothesis K_coh : forall k k', K k -> K k' -> (py_eq (ckey F k) (ckey F k') = true <-> eqvA F k k').

Definition inU (v : value) : Prop := forall a, In a (atoms_of v) -> U a.
Definition inK (v : value) : Prop := forall k, In k (dkeys v) -> K k.

Lemma ha_key a b : U a -> U b -> (ha a = ha b <-> eqvA F a b).
Proof. intros Ua Ub. unfold hatomF_io, oF. apply hash_atom_key; auto. Qed.

(* ---- scalars ---- *)
Lemma lift_atoms a b p1 p2 : U a -> U b -> (hv (VAtom a) = hv (VAtom b) <-> fst (dF (VAtom a) (VAtom b) p1 p2) = []).
Proof.
  intros Ua Ub.
  assert (G : atom_guard F a b = true).
  { unfold atom_guard. rewrite (U_tag a Ua), (U_tag b Ub), (U_k9 a b Ua Ub), (U_asc a Ua), (U_asc b Ub). reflexivity. }
  pose proof (atoms_hash_iff_diff H H_inj udiff F priv rep a b p1 p2 HF G) as A.
  unfold hvF, oF. cbn [hash_pure diff_ioF type_of].
  destruct (negb (ty_eqb (atom_ty a) (atom_ty b)) && negb (same_group F (atom_ty a) (atom_ty b))) eqn:E.
  - cbn [fst ent]. rewrite A. unfold diff_atomF. rewrite !(excluded_shared F HF). cbn [orb]. rewrite E.
    rewrite (reportF_shared F HF). split; discriminate.
  - cbn [fst]. exact A.
Qed.

(* ---- kinds ---- *)
Lemma dF_kind_mismatch t1 t2 p1 p2 :
  is_container t1 = true \/ is_container t2 = true -> type_of t1 <> type_of t2 -> fst (dF t1 t2 p1 p2) <> [].
Proof.
  intros Hc Ht.
  assert (E : negb (ty_eqb (type_of t1) (type_of t2)) && negb (same_group F (type_of t1) (type_of t2)) = true).
  { apply andb_true_iff. split.
    - apply negb_true_iff. destruct (ty_eqb (type_of t1) (type_of t2)) eqn:E; [|reflexivity].
      apply OptProofsBase.ty_eqb_eq in E. contradiction.
    - apply negb_true_iff. unfold same_group.
      destruct Hc as [Hc|Hc]; [destruct t1|destruct t2]; try discriminate; cbn [type_of str_like num_like andb orb];
        rewrite ?andb_false_r; reflexivity. }
  destruct t1; cbn [diff_ioF]; rewrite E; cbn; discriminate.
Qed.

Lemma hv_kind t1 t2 : inU t1 -> inU t2 ->
  is_container t1 = true \/ is_container t2 = true -> hv t1 = hv t2 -> type_of t1 = type_of t2.
Proof.
  intros U1 U2 Hc E. unfold hvF, oF in E.
  destruct t1 as [a|xs|xs|kvs|xs|xs] eqn:E1; destruct t2 as [b|ys|ys|kvs'|ys|ys] eqn:E2;
    try (apply (hv_container_kind H H_inj H_low F priv rep) in E; [exact E|reflexivity|reflexivity]).
  - destruct Hc; discriminate.
  - exfalso. eapply (hv_atom_vs_container H H_inj H_low F priv rep a (VList ys)); eauto. apply U_tag, U1. left. reflexivity.
  - exfalso. eapply (hv_atom_vs_container H H_inj H_low F priv rep a (VTuple ys)); eauto. apply U_tag, U1. left. reflexivity.
  - exfalso. eapply (hv_atom_vs_container H H_inj H_low F priv rep a (VDict kvs')); eauto. apply U_tag, U1. left. reflexivity.
  - exfalso. eapply (hv_atom_vs_container H H_inj H_low F priv rep a (VSet ys)); eauto. apply U_tag, U1. left. reflexivity.
  - exfalso. eapply (hv_atom_vs_container H H_inj H_low F priv rep a (VFrozen ys)); eauto. apply U_tag, U1. left. reflexivity.
  - exfalso. symmetry in E. eapply (hv_atom_vs_container H H_inj H_low F priv rep b (VList xs)); eauto. apply U_tag, U2. left. reflexivity.
  - exfalso. symmetry in E. eapply (hv_atom_vs_container H H_inj H_low F priv rep b (VTuple xs)); eauto. apply U_tag, U2. left. reflexivity.
  - exfalso. symmetry in E. eapply (hv_atom_vs_container H H_inj H_low F priv rep b (VDict kvs)); eauto. apply U_tag, U2. left. reflexivity.
  - exfalso. symmetry in E. eapply (hv_atom_vs_container H H_inj H_low F priv rep b (VSet xs)); eauto. apply U_tag, U2. left. reflexivity.
  - exfalso. symmetry in E. eapply (hv_atom_vs_container H H_inj H_low F priv rep b (VFrozen xs)); eauto. apply U_tag, U2. left. reflexivity.
Qed.

Lemma lift_mismatch t1 t2 p1 p2 : inU t1 -> inU t2 ->
  is_container t1 = true \/ is_container t2 = true -> type_of t1 <> type_of t2 ->
  (hv t1 = hv t2 <-> fst (dF t1 t2 p1 p2) = []).
Proof.
  intros U1 U2 Hc Ht. split; intros E; exfalso.
  - apply Ht. eapply hv_kind; eauto.
  - eapply dF_kind_mismatch; eauto.
Qed.

(* ---- sets ---- *)
Lemma nodupk_NoDup xs : (forall a, In a xs -> U a) -> nodupk F xs = true -> NoDup (map ha xs).
Proof.
  induction xs as [|a r IH]; intros Hu Hn; cbn [map]; [constructor|].
  cbn [nodupk] in Hn. apply andb_true_iff in Hn as [Ha Hr]. constructor.
  - intros Hi. apply in_map_iff in Hi as [b [Eb Hb]].
    apply negb_true_iff in Ha.
    assert (X : existsb (fun b0 => akey_eqb (akey F a) (akey F b0)) r = true); [|congruence].
    apply existsb_exists. exists b. split; [exact Hb|].
    apply akey_eqb_spec. apply (ha_key a b); [apply Hu; left; reflexivity|apply Hu; right; exact Hb|]. symmetry. exact Eb.
  - apply IH; [intros; apply Hu; right; assumption|exact Hr].
Qed.

Lemma bag_sets xs ys : (forall a, In a xs -> U a) -> (forall a, In a ys -> U a) ->
  negb rep || nodupk F xs = true -> negb rep || nodupk F ys = true ->
  (same_bag rep (map ha xs) (map ha ys) <-> (forall h, In h (map ha xs) <-> In h (map ha ys))).
Proof.
  intros Ux Uy Gx Gy. unfold same_bag. destruct rep; [|tauto].
  cbn [negb orb] in Gx, Gy. apply NoDup_same_set_perm; apply nodupk_NoDup; assumption.
Qed.


(* ---- dicts ---- *)
Lemma keep_key_hiddenF k : keep_key c k = negb (hidden o k).
Proof. unfold keep_key, hidden. cbn [HashModel.ignore_private hoptsF]. destruct k; reflexivity. Qed.
Lemma vis_kept (kvs : list (atom * value)) : vis o kvs = kept c kvs.
Proof. unfold vis, kept. apply filter_ext. intros [k v]. cbn [fst]. symmetry. apply keep_key_hiddenF. Qed.

Lemma key_reports_nil kind cks other km kvs p1 p2 :
  (key_reports F kind cks other km kvs p1 p2 = [] <-> forall ck, In ck cks -> mem_atom ck other = true).
Proof.
  induction cks as [|ck r IH]; cbn [key_reports].
  - split; [intros _ ck []|reflexivity].
  - destruct (mem_atom ck other) eqn:E.
    + rewrite IH. split; [intros X y [<-|Hy]; auto|intros X y Hy; apply X; right; exact Hy].
    + split.
      * intros X. apply app_eq_nil in X as [X _]. destruct kind; rewrite (reportF_shared F HF) in X; discriminate.
      * intros X. rewrite (X ck (or_introl eq_refl)) in E. discriminate.
Qed.

Lemma common_fold (g : atom -> value -> ires) (l : list (atom * value)) :
  fst ((fix go (l : list (atom * value)) : ires :=
          match l with [] => ([], []) | (k, v1) :: r => app2 (g k v1) (go r) end) l) = [] <->
  (forall k v1, In (k, v1) l -> fst (g k v1) = []).
Proof.
  induction l as [|[k v1] r IH].
  - split; [intros _ k v1 []|reflexivity].
  - rewrite fst_app2. split.
    + intros X. apply app_eq_nil in X as [X1 X2]. intros k' v' [E|Hin]; [inversion E; subst; exact X1|].
      apply (proj1 IH X2 k' v' Hin).
    + intros X. rewrite (X k v1 (or_introl eq_refl)). cbn [app]. apply IH. intros k' v' Hin. apply X. right. exact Hin.
Qed.

Lemma nodup_map_inj (f : atom -> atom) l a b :
  nodup_atoms (map f l) = true -> In a l -> In b l -> py_eq (f a) (f b) = true -> a = b.
Proof.
  induction l as [|x r IH]; intros Hn Ha Hb E; [destruct Ha|].
  cbn [map nodup_atoms] in Hn. apply andb_true_iff in Hn as [Hx Hr]. apply negb_true_iff in Hx.
  destruct Ha as [->|Ha], Hb as [->|Hb]; auto.
  - exfalso. assert (mem_atom (f a) (map f r) = true); [|congruence].
    apply mem_atom_In. exists (f b). split; [apply in_map; exact Hb|exact E].
  - exfalso. assert (mem_atom (f b) (map f r) = true); [|congruence].
    apply mem_atom_In. exists (f a). split; [apply in_map; exact Ha|rewrite py_eq_sym; exact E].
Qed.

Lemma NoDup_map_on {A B} (f : A -> B) (l : list A) :
  NoDup l -> (forall x y, In x l -> In y l -> f x = f y -> x = y) -> NoDup (map f l).
Proof.
  induction 1 as [|x l Hx Hl IH]; intros Hf; cbn [map]; constructor.
  - intros Hi. apply in_map_iff in Hi as [y [Ey Hy]]. apply Hx.
    rewrite (Hf x y (or_introl eq_refl) (or_intror Hy) (eq_sym Ey)). exact Hy.
  - apply IH. intros a b Ha Hb. apply Hf; right; assumption.
Qed.

Section Dict.
Variables (kvs1 kvs2 : list (atom * value)) (p1 p2 : path).
Hypothesis U1 : inU (VDict kvs1).
Hypothesis U2 : inU (VDict kvs2).
Hypothesis K1 : inK (VDict kvs1).
Hypothesis K2 : inK (VDict kvs2).
Hypothesis G1 : keys_good F (keys_of c kvs1) = true.
Hypothesis G2 : keys_good F (keys_of c kvs2) = true.
Hypothesis IHv : forall k v1 k' v2 q1 q2, In (k, v1) kvs1 -> In (k', v2) kvs2 ->
  (hv v1 = hv v2 <-> fst (dF v1 v2 q1 q2) = []).

Notation ck := (ckey F).
Notation r1 := (keys_of c kvs1).
Notation r2 := (keys_of c kvs2).
Definition item (kv : atom * value) : pystr := dict_item (ha (fst kv)) (hv (snd kv)).

Lemma dkey1 k v : In (k, v) kvs1 -> K k.
Proof. intros Hi. apply K1. cbn [dkeys]. apply in_flat_map. exists (k, v). split; [exact Hi|left; reflexivity]. Qed.
Lemma dkey2 k v : In (k, v) kvs2 -> K k.
Proof. intros Hi. apply K2. cbn [dkeys]. apply in_flat_map. exists (k, v). split; [exact Hi|left; reflexivity]. Qed.

Lemma good_split ks : keys_good F ks = true -> nodup_atoms ks = true /\ nodup_atoms (map ck ks) = true.
Proof. unfold keys_good. intros X. apply andb_true_iff in X. exact X. Qed.

Lemma coh_keys k v k' v' (kvsA kvsB : list (atom * value)) :
  (forall k v, In (k, v) kvsA -> K k) -> (forall k v, In (k, v) kvsB -> K k) ->
  In (k, v) kvsA -> In (k', v') kvsB -> (py_eq (ck k) (ck k') = true <-> ha k = ha k').
Proof.
  intros KA KB Hi Hi'. rewrite (K_coh k k' (KA _ _ Hi) (KB _ _ Hi')).
  symmetry. apply ha_key; apply K_U; [eapply KA|eapply KB]; eauto.
Qed.

(* the step of a kept item of t1 whose clean key matches a kept key of t2 *)
Lemma step_partner km1 km2 k v1 k' v2 :
  (forall x, In x r1 -> repr_ckey F km1 x = Some (ck x)) ->
  (forall x, In x r2 -> orig_key F km2 (ck x) = x) ->
  In (k, v1) (kept c kvs1) -> In (k', v2) (kept c kvs2) -> py_eq (ck k) (ck k') = true ->
  common_stepF c F (dF v1) km1 km2 (map ck r2) kvs2 p1 p2 k =
  dF v1 v2 (snoc p1 (PKey (ck k'))) (snoc p2 (PKey (ck k'))).
Proof.
  intros Hrepr Horig Hi Hi' E. destruct (good_split _ G2) as [N2 NC2].
  unfold common_stepF. apply kept_In in Hi as [Hin Hk]. rewrite Hk.
  assert (Hr1 : In k r1) by (apply (kept_key_In c kvs1 k v1), kept_In; auto).
  assert (Hr2 : In k' r2) by (apply (kept_key_In c kvs2 k' v2); exact Hi').
  rewrite (Hrepr k Hr1).
  assert (Hm : mem_atom (ck k) (map ck r2) = true).
  { apply mem_atom_In. exists (ck k'). split; [apply in_map; exact Hr2|exact E]. }
  destruct (find_mem _ _ Hm) as [y Hy]. rewrite Hy.
  apply find_some_first in Hy as [Hyin Hye].
  assert (y = ck k') as ->.
  { apply (nodup_atoms_uniq (map ck r2)); auto; [apply in_map; exact Hr2|].
    apply (py_eq_trans y (ck k) (ck k')); [rewrite py_eq_sym; exact Hye|exact E]. }
  rewrite (Horig k' Hr2), (assoc_kept c kvs2 k' v2 N2 Hi'). reflexivity.
Qed.

Lemma step_hidden km1 km2 k : keep_key c k = false ->
  common_stepF c F (fun _ _ _ => ([], [])) km1 km2 (map ck r2) kvs2 p1 p2 k = ([], []) /\
  forall rec, common_stepF c F rec km1 km2 (map ck r2) kvs2 p1 p2 k = ([], []).
Proof. intros E. unfold common_stepF. rewrite E. split; reflexivity. Qed.

Lemma items_NoDup (kvs : list (atom * value)) :
  (forall k v, In (k, v) kvs -> K k) -> keys_good F (keys_of c kvs) = true -> NoDup (map item (kept c kvs)).
Proof.
  intros KA G. destruct (good_split _ G) as [N NC].
  apply NoDup_map_on.
  - apply NoDup_fst. rewrite <- keys_of_kept. apply nodup_NoDup. exact N.
  - intros [k v] [k' v'] Hi Hi' E. unfold item in E. cbn [fst snd] in E.
    apply ditem_inj in E as [Ek Ev]; [|apply (ha_tok H H_tok)|apply (ha_tok H H_tok)].
    assert (Hin : In (k, v) kvs) by (apply kept_In in Hi; tauto).
    assert (Hin' : In (k', v') kvs) by (apply kept_In in Hi'; tauto).
    apply (coh_keys k v k' v' kvs kvs KA KA Hin Hin') in Ek.
    assert (k = k') as <-.
    { apply (nodup_map_inj ck (keys_of c kvs)); auto; eapply kept_key_In; eauto. }
    f_equal. pose proof (assoc_kept c kvs k v N Hi) as A1. pose proof (assoc_kept c kvs k v' N Hi') as A2. congruence.
Qed.

Lemma lift_dict :
  hv (VDict kvs1) = hv (VDict kvs2) <-> fst (dF (VDict kvs1) (VDict kvs2) p1 p2) = [].
Proof.
  destruct (kmap_spec F r1 G1) as (km1 & Ekm1 & Eck1 & Eorig1 & Erepr1).
  destruct (kmap_spec F r2 G2) as (km2 & Ekm2 & Eck2 & Eorig2 & Erepr2).
  destruct (good_split _ G1) as [N1 NC1]. destruct (good_split _ G2) as [N2 NC2].
  cbn [diff_ioF type_of ty_eqb negb andb]. rewrite Ekm1, Ekm2, Eck1, Eck2.
  unfold hvF at 1 2. unfold oF.
  rewrite (hv_dict_perm H H_tok H_inj H_low F priv rep kvs1 kvs2). unfold ditems. rewrite !vis_kept.
  change (fun kv : atom * value => dict_item (hash_atom H o (fst kv)) (hash_pure H o (snd kv))) with item.
  split.
  - (* equal hashes => nothing reported *)
    intros Pm.
    assert (A : forall k v1, In (k, v1) (kept c kvs1) -> exists k' v2, In (k', v2) (kept c kvs2) /\ ha k = ha k' /\ hv v1 = hv v2).
    { intros k v1 Hi. assert (Hx : In (item (k, v1)) (map item (kept c kvs2))).
      { eapply Permutation_in; [exact Pm|]. apply in_map. exact Hi. }
      apply in_map_iff in Hx as [[k' v2] [E Hi']]. unfold item in E. cbn [fst snd] in E.
      apply ditem_inj in E as [Ek Ev]; [|apply (ha_tok H H_tok)|apply (ha_tok H H_tok)].
      exists k', v2. auto. }
    assert (B : forall k' v2, In (k', v2) (kept c kvs2) -> exists k v1, In (k, v1) (kept c kvs1) /\ ha k = ha k' /\ hv v1 = hv v2).
    { intros k' v2 Hi. assert (Hx : In (item (k', v2)) (map item (kept c kvs1))).
      { eapply Permutation_in; [apply Permutation_sym, Pm|]. apply in_map. exact Hi. }
      apply in_map_iff in Hx as [[k v1] [E Hi']]. unfold item in E. cbn [fst snd] in E.
      apply ditem_inj in E as [Ek Ev]; [|apply (ha_tok H H_tok)|apply (ha_tok H H_tok)].
      exists k, v1. auto. }
    assert (C12 : forall x, In x (map ck r1) -> mem_atom x (map ck r2) = true).
    { intros x Hx. apply in_map_iff in Hx as [k [<- Hk]]. destruct (keys_of_kept_ex c kvs1 k Hk) as [v1 Hi].
      destruct (A k v1 Hi) as (k' & v2 & Hi' & Ek & _).
      apply mem_atom_In. exists (ck k'). split; [apply in_map; eapply kept_key_In; eauto|].
      apply (coh_keys k v1 k' v2 kvs1 kvs2 dkey1 dkey2); [apply kept_In in Hi; tauto|apply kept_In in Hi'; tauto|exact Ek]. }
    assert (C21 : forall x, In x (map ck r2) -> mem_atom x (map ck r1) = true).
    { intros x Hx. apply in_map_iff in Hx as [k' [<- Hk]]. destruct (keys_of_kept_ex c kvs2 k' Hk) as [v2 Hi].
      destruct (B k' v2 Hi) as (k & v1 & Hi' & Ek & _).
      apply mem_atom_In. exists (ck k). split; [apply in_map; eapply kept_key_In; eauto|].
      rewrite py_eq_sym.
      apply (coh_keys k v1 k' v2 kvs1 kvs2 dkey1 dkey2); [apply kept_In in Hi'; tauto|apply kept_In in Hi; tauto|exact Ek]. }
    rewrite (shortcutF_cover c (map ck r1) (map ck r2) thr_le_one C21 C12).
    cbn [fst].
    rewrite (proj2 (key_reports_nil KDictAdd (map ck r2) (map ck r1) km2 kvs2 p1 p2) C21).
    rewrite (proj2 (key_reports_nil KDictRem (map ck r1) (map ck r2) km1 kvs1 p1 p2) C12).
    cbn [app].
    apply (common_fold (fun k v1 => common_stepF c F (dF v1) km1 km2 (map ck r2) kvs2 p1 p2 k)).
    intros k v1 Hin. destruct (keep_key c k) eqn:Ek.
    + assert (Hi : In (k, v1) (kept c kvs1)) by (apply kept_In; auto).
      destruct (A k v1 Hi) as (k' & v2 & Hi' & Eh & Ev).
      rewrite (step_partner km1 km2 k v1 k' v2 Erepr1 Eorig2 Hi Hi').
      * apply (IHv k v1 k' v2); auto. apply kept_In in Hi'; tauto.
      * apply (coh_keys k v1 k' v2 kvs1 kvs2 dkey1 dkey2); auto. apply kept_In in Hi'; tauto.
    + rewrite (proj2 (step_hidden km1 km2 k Ek)). reflexivity.
  - (* nothing reported => equal hashes *)
    intros Hn.
    destruct (shortcutF c (map ck r1) (map ck r2)); [cbn in Hn; discriminate|].
    cbn [fst] in Hn. apply app_eq_nil in Hn as [Hadd Hn]. apply app_eq_nil in Hn as [Hrem Hcom].
    pose proof (proj1 (key_reports_nil _ _ _ _ _ _ _) Hadd) as C21.
    pose proof (proj1 (key_reports_nil _ _ _ _ _ _ _) Hrem) as C12.
    pose proof (proj1 (common_fold (fun k v1 => common_stepF c F (dF v1) km1 km2 (map ck r2) kvs2 p1 p2 k) kvs1) Hcom) as Hst.
    cbv beta in Hst.
    (* the partner of a kept item of t1 *)
    assert (A : forall k v1, In (k, v1) (kept c kvs1) ->
                exists k' v2, In (k', v2) (kept c kvs2) /\ py_eq (ck k) (ck k') = true /\ hv v1 = hv v2).
    { intros k v1 Hi.
      assert (Hk : In k r1) by (eapply kept_key_In; eauto).
      pose proof (C12 (ck k) (in_map ck _ _ Hk)) as Hm. apply mem_atom_In in Hm as [y [Hy Ey]].
      apply in_map_iff in Hy as [k' [<- Hk']]. destruct (keys_of_kept_ex c kvs2 k' Hk') as [v2 Hi'].
      exists k', v2. split; [exact Hi'|]. split; [exact Ey|].
      assert (Hin : In (k, v1) kvs1) by (apply kept_In in Hi; tauto).
      pose proof (Hst k v1 Hin) as Hs. rewrite (step_partner km1 km2 k v1 k' v2 Erepr1 Eorig2 Hi Hi' Ey) in Hs.
      apply (IHv k v1 k' v2) in Hs; auto. apply kept_In in Hi'; tauto. }
    apply NoDup_Permutation; [apply items_NoDup; [exact dkey1|exact G1]|apply items_NoDup; [exact dkey2|exact G2]|].
    intros x. split.
    + intros Hx. apply in_map_iff in Hx as [[k v1] [<- Hi]].
      destruct (A k v1 Hi) as (k' & v2 & Hi' & Ek & Ev).
      apply in_map_iff. exists (k', v2). split; [|exact Hi']. unfold item. cbn [fst snd].
      apply (coh_keys k v1 k' v2 kvs1 kvs2 dkey1 dkey2) in Ek; [|apply kept_In in Hi; tauto|apply kept_In in Hi'; tauto].
      rewrite Ek, Ev. reflexivity.
    + intros Hx. apply in_map_iff in Hx as [[k' v2] [<- Hi']].
      assert (Hk' : In k' r2) by (eapply kept_key_In; eauto).
      pose proof (C21 (ck k') (in_map ck _ _ Hk')) as Hm. apply mem_atom_In in Hm as [y [Hy Ey]].
      apply in_map_iff in Hy as [k [<- Hk]]. destruct (keys_of_kept_ex c kvs1 k Hk) as [v1 Hi].
      destruct (A k v1 Hi) as (k'' & v2'' & Hi'' & Ek'' & Ev'').
      assert (k'' = k') as ->.
      { apply (nodup_map_inj ck r2); auto; [eapply kept_key_In; eauto|].
        apply (py_eq_trans (ck k'') (ck k) (ck k')); [rewrite py_eq_sym; exact Ek''|rewrite py_eq_sym; exact Ey]. }
      assert (v2'' = v2) as ->.
      { pose proof (assoc_kept c kvs2 k' v2 N2 Hi') as A1. pose proof (assoc_kept c kvs2 k' v2'' N2 Hi'') as A2. congruence. }
      apply in_map_iff. exists (k, v1). split; [|exact Hi]. unfold item. cbn [fst snd].
      apply (coh_keys k v1 k' v2 kvs1 kvs2 dkey1 dkey2) in Ek''; [|apply kept_In in Hi; tauto|apply kept_In in Hi'; tauto].
      rewrite Ek'', Ev''. reflexivity.
Qed.

End Dict.


(* ---- the whole value ---- *)
Lemma recsF_map xs :
  (fix go (l : list value) : list rec_fn := match l with [] => [] | x :: r => dF x :: go r end) xs = map dF xs.
Proof. induction xs as [|x r IH]; cbn [map]; [reflexivity|]. rewrite IH. reflexivity. Qed.

Lemma inU_item_list x xs : In x xs -> inU (VList xs) -> inU x.
Proof. intros Hi Hu a Ha. apply Hu. eapply atoms_item_list; eauto. Qed.
Lemma inU_item_tuple x xs : In x xs -> inU (VTuple xs) -> inU x.
Proof. intros Hi Hu a Ha. apply Hu. eapply atoms_item_tuple; eauto. Qed.
Lemma inU_dict_val k v kvs : In (k, v) kvs -> inU (VDict kvs) -> inU v.
Proof. intros Hi Hu a Ha. apply Hu. eapply atoms_dict_val; eauto. Qed.
Lemma inK_item_list x xs : In x xs -> inK (VList xs) -> inK x.
Proof. intros Hi Hk a Ha. apply Hk. cbn [dkeys]. apply in_flat_map. exists x. auto. Qed.
Lemma inK_item_tuple x xs : In x xs -> inK (VTuple xs) -> inK x.
Proof. intros Hi Hk a Ha. apply Hk. cbn [dkeys]. apply in_flat_map. exists x. auto. Qed.
Lemma inK_dict_val k v kvs : In (k, v) kvs -> inK (VDict kvs) -> inK v.
Proof. intros Hi Hk a Ha. apply Hk. cbn [dkeys]. apply in_flat_map. exists (k, v). split; [exact Hi|right; exact Ha]. Qed.

Lemma atom_not_container a v : is_container v = true -> type_of (VAtom a) <> type_of v.
Proof. destruct v; try discriminate; intros _; destruct a; discriminate. Qed.

Lemma lift_seq (mk : list value -> value) xs ys p1 p2 :
  (mk = VList \/ mk = VTuple) ->
  (forall x y q1 q2, In x xs -> In y ys -> (hv x = hv y <-> fst (dF x y q1 q2) = [])) ->
  (hv (mk xs) = hv (mk ys) <-> fst (dF (mk xs) (mk ys) p1 p2) = []).
Proof.
  intros Hmk IH.
  assert (E : dF (mk xs) (mk ys) p1 p2 = iter_deephashF H c F rep pairs (map dF xs) xs ys p1 p2).
  { destruct Hmk as [-> | ->]; cbn [diff_ioF type_of ty_eqb negb andb]; rewrite recsF_map; reflexivity. }
  assert (B : hv (mk xs) = hv (mk ys) <-> bagF rep (g1 H c F rep xs) (g2 H c F rep ys)).
  { unfold hvF, oF. destruct Hmk as [-> | ->];
      [apply (hv_list_bag H H_tok H_inj H_low F priv rep xs ys)|apply (hv_tuple_bag H H_tok H_inj H_low F priv rep xs ys)]. }
  rewrite E, B. split.
  - intros X. rewrite (iterF_complete H c F rep pairs (map dF xs) xs ys p1 p2 X). reflexivity.
  - apply iterF_sound. intros x y q1 q2 Hx Hy Hn. apply (IH x y q1 q2 Hx Hy). exact Hn.
Qed.

Theorem lift : forall t1 t2 p1 p2,
  inU t1 -> inU t2 -> inK t1 -> inK t2 -> goodv c F rep t1 = true -> goodv c F rep t2 = true ->
  (hv t1 = hv t2 <-> fst (dF t1 t2 p1 p2) = []).
Proof.
  induction t1 as [a|xs IH|xs IH|kvs IH|xs|xs] using HashProofsC06.value_ind'; intros t2 p1 p2 U1 U2 K1 K2 G1 G2.
  - destruct t2 as [b|ys|ys|kvs2|ys|ys];
      try (apply lift_mismatch; [exact U1|exact U2|right; reflexivity|apply atom_not_container; reflexivity]).
    apply lift_atoms; [apply U1|apply U2]; left; reflexivity.
  - destruct t2 as [b|ys|ys|kvs2|ys|ys];
      try (apply lift_mismatch; [exact U1|exact U2|left; reflexivity|discriminate]).
    + apply lift_mismatch; [exact U1|exact U2|left; reflexivity|]. intros E. symmetry in E. revert E. apply atom_not_container. reflexivity.
    + apply (lift_seq VList); [left; reflexivity|]. intros x y q1 q2 Hx Hy.
      rewrite Forall_forall in IH. apply (IH x Hx y q1 q2).
      * eapply inU_item_list; eauto. * eapply inU_item_list; eauto.
      * eapply inK_item_list; eauto. * eapply inK_item_list; eauto.
      * cbn [goodv] in G1. rewrite forallb_forall in G1. auto.
      * cbn [goodv] in G2. rewrite forallb_forall in G2. auto.
  - destruct t2 as [b|ys|ys|kvs2|ys|ys];
      try (apply lift_mismatch; [exact U1|exact U2|left; reflexivity|discriminate]).
    + apply lift_mismatch; [exact U1|exact U2|left; reflexivity|]. intros E. symmetry in E. revert E. apply atom_not_container. reflexivity.
    + apply (lift_seq VTuple); [right; reflexivity|]. intros x y q1 q2 Hx Hy.
      rewrite Forall_forall in IH. apply (IH x Hx y q1 q2).
      * eapply inU_item_tuple; eauto. * eapply inU_item_tuple; eauto.
      * eapply inK_item_tuple; eauto. * eapply inK_item_tuple; eauto.
      * cbn [goodv] in G1. rewrite forallb_forall in G1. auto.
      * cbn [goodv] in G2. rewrite forallb_forall in G2. auto.
  - destruct t2 as [b|ys|ys|kvs2|ys|ys];
      try (apply lift_mismatch; [exact U1|exact U2|left; reflexivity|discriminate]).
    + apply lift_mismatch; [exact U1|exact U2|left; reflexivity|]. intros E. symmetry in E. revert E. apply atom_not_container. reflexivity.
    + cbn [goodv] in G1, G2. apply andb_true_iff in G1 as [G1 G1v]. apply andb_true_iff in G2 as [G2 G2v].
      rewrite forallb_forall in G1v, G2v.
      apply lift_dict; auto.
      intros k v1 k' v2 q1 q2 H1 H2. rewrite Forall_forall in IH.
      apply (IH (k, v1) H1 v2 q1 q2).
      * eapply inU_dict_val; eauto. * eapply inU_dict_val; eauto.
      * eapply inK_dict_val; eauto. * eapply inK_dict_val; eauto.
      * apply (G1v (k, v1) H1). * apply (G2v (k', v2) H2).
  - destruct t2 as [b|ys|ys|kvs2|ys|ys];
      try (apply lift_mismatch; [exact U1|exact U2|left; reflexivity|discriminate]).
    + apply lift_mismatch; [exact U1|exact U2|left; reflexivity|]. intros E. symmetry in E. revert E. apply atom_not_container. reflexivity.
    + cbn [diff_ioF type_of ty_eqb negb andb fst goodv] in *.
      unfold hvF, oF. rewrite (hv_set_bag H H_tok H_inj H_low F priv rep xs ys).
      rewrite (bag_sets xs ys U1 U2 G1 G2). symmetry. apply (diff_set_iff ha xs ys p1 p2).
  - destruct t2 as [b|ys|ys|kvs2|ys|ys];
      try (apply lift_mismatch; [exact U1|exact U2|left; reflexivity|discriminate]).
    + apply lift_mismatch; [exact U1|exact U2|left; reflexivity|]. intros E. symmetry in E. revert E. apply atom_not_container. reflexivity.
    + cbn [diff_ioF type_of ty_eqb negb andb fst goodv] in *.
      unfold hvF, oF. rewrite (hv_frozen_bag H H_tok H_inj H_low F priv rep xs ys).
      rewrite (bag_sets xs ys U1 U2 G1 G2). symmetry. apply (diff_set_iff ha xs ys p1 p2).
Qed.

End Lift.

(* ------------------------------------------------------------------ *)
(** * the theorem with the boolean guard *)

Lemma dkeys_atoms v : incl (dkeys v) (atoms_of v).
Proof.
  induction v as [a|xs IH|xs IH|kvs IH|xs|xs] using HashProofsC06.value_ind'; cbn [dkeys atoms_of]; intros k Hk;
    try (destruct Hk; fail).
  - apply in_flat_map in Hk as [x [Hx Hk]]. apply in_flat_map. exists x. split; [exact Hx|].
    rewrite Forall_forall in IH. apply (IH x Hx). exact Hk.
  - apply in_flat_map in Hk as [x [Hx Hk]]. apply in_flat_map. exists x. split; [exact Hx|].
    rewrite Forall_forall in IH. apply (IH x Hx). exact Hk.
  - apply in_flat_map in Hk as [kv [Hx Hk]]. apply in_flat_map. exists kv. split; [exact Hx|].
    destruct Hk as [<-|Hk]; [left; reflexivity|right]. rewrite Forall_forall in IH. apply (IH kv Hx). exact Hk.
Qed.

Theorem hash_iff_diff :
  forall (H : pystr -> pystr),
  (forall s, sepfree (H s)) -> (forall s t, H s = H t -> s = t) -> (forall s, lower (H s) = H s) ->
  forall udiff c F rep pairs t1 t2,
  shared F = true -> thr_num c <= thr_den c -> lift_guard c F rep t1 t2 = true ->
  (hvF H c F rep t1 = hvF H c F rep t2 <-> fst (run_diff_ioF H udiff c F rep pairs t1 t2) = []).
Proof.
  intros H Ht Hi Hl udiff c F rep pairs t1 t2 HF Hthr G.
  unfold lift_guard in G.
  apply andb_true_iff in G as [G G2]. apply andb_true_iff in G as [G G1].
  apply andb_true_iff in G as [G Gc]. apply andb_true_iff in G as [Gt G9].
  rewrite forallb_forall in Gt, G9, Gc.
  set (U := fun a => In a (atoms_of t1 ++ atoms_of t2)).
  set (K := fun k => In k (dkeys t1 ++ dkeys t2)).
  assert (U_tag : forall a, U a -> tag_okF F a = true).
  { intros a Ha. specialize (Gt a Ha). apply andb_true_iff in Gt. tauto. }
  assert (U_asc : forall a, U a -> ascii_atom a = true).
  { intros a Ha. specialize (Gt a Ha). apply andb_true_iff in Gt. tauto. }
  assert (U_k9 : forall a b, U a -> U b -> k9_ok F a b = true).
  { intros a b Ha Hb. specialize (G9 a Ha). rewrite forallb_forall in G9. apply G9. exact Hb. }
  assert (K_U : forall k, K k -> U k).
  { intros k Hk. unfold K, U in *. apply in_app_or in Hk. apply in_or_app.
    destruct Hk as [Hk|Hk]; [left|right]; apply dkeys_atoms; exact Hk. }
  assert (K_coh : forall k k', K k -> K k' -> (py_eq (ckey F k) (ckey F k') = true <-> eqvA F k k')).
  { intros k k' Hk Hk'. specialize (Gc k Hk). rewrite forallb_forall in Gc. specialize (Gc k' Hk').
    unfold cohk in Gc. apply Bool.eqb_prop in Gc. rewrite Gc. apply akey_eqb_spec. }
  pose proof (lift H Ht Hi Hl udiff c F rep pairs HF Hthr U K U_tag U_asc U_k9 K_U K_coh t1 t2 [] []) as L.
  unfold run_diff_ioF. destruct (diff_ioF H udiff c F rep pairs t1 t2 [] []) as [es rs] eqn:E.
  cbn [fst] in *.
  assert (Hm : (if rep then es else mutual es) = [] <-> es = []).
  { destruct rep; [tauto|apply mutual_nil]. }
  rewrite Hm. apply L.
  - intros a Ha. unfold U. apply in_or_app. left. exact Ha.
  - intros a Ha. unfold U. apply in_or_app. right. exact Ha.
  - intros a Ha. unfold K. apply in_or_app. left. exact Ha.
  - intros a Ha. unfold K. apply in_or_app. right. exact Ha.
  - exact G1.
  - exact G2.
Qed.

(* the verdict of the diff engine in terms of the hashes *)
Corollary verdict_iff_hash :
  forall (H : pystr -> pystr),
  (forall s, sepfree (H s)) -> (forall s t, H s = H t -> s = t) -> (forall s, lower (H s) = H s) ->
  forall udiff c F rep pairs t1 t2,
  shared F = true -> thr_num c <= thr_den c -> lift_guard c F rep t1 t2 = true ->
  (hash_eqF H c F rep t1 t2 = true <-> verdictF H udiff c F rep pairs t1 t2 = DEmpty).
Proof.
  intros H Ht Hi Hl udiff c F rep pairs t1 t2 HF Hthr G.
  pose proof (hash_iff_diff H Ht Hi Hl udiff c F rep pairs t1 t2 HF Hthr G) as L.
  unfold hash_eqF, verdictF.
  split.
  - intros E. apply OptProofsBase.pystr_eqb_eq in E. apply L in E. rewrite E. reflexivity.
  - intros E. destruct (fst (run_diff_ioF H udiff c F rep pairs t1 t2)) as [|e es] eqn:Ee.
    + assert (X : hvF H c F rep t1 = hvF H c F rep t2) by (apply L; reflexivity). rewrite X. apply OptProofsBase.pystr_eqb_refl.
    + destruct (existsb is_err (e :: es)); discriminate.
Qed.

(* the verdict of the diff engine does not depend on the pairing (cutoffs, pass budget, cache) *)
Corollary pairing_independence :
  forall (H : pystr -> pystr),
  (forall s, sepfree (H s)) -> (forall s t, H s = H t -> s = t) -> (forall s, lower (H s) = H s) ->
  forall udiff udiff' c F rep pairs pairs' t1 t2,
  shared F = true -> thr_num c <= thr_den c -> lift_guard c F rep t1 t2 = true ->
  (fst (run_diff_ioF H udiff c F rep pairs t1 t2) = [] <-> fst (run_diff_ioF H udiff' c F rep pairs' t1 t2) = []).
Proof.
  intros H Ht Hi Hl udiff udiff' c F rep pairs pairs' t1 t2 HF Hthr G.
  rewrite <- (hash_iff_diff H Ht Hi Hl udiff c F rep pairs t1 t2 HF Hthr G).
  apply (hash_iff_diff H Ht Hi Hl udiff' c F rep pairs' t1 t2 HF Hthr G).
Qed.

(* on the observable DeepHash(v, **F)[v] with its own fresh `hashes` table (b06's memo-threading
   model): no two ==-equal but different atoms inside ONE value *)
From DD Require Import Hash.HashProofsMemo.
Corollary deephash_iff_diff :
  forall (H : pystr -> pystr),
  (forall s, sepfree (H s)) -> (forall s t, H s = H t -> s = t) -> (forall s, lower (H s) = H s) ->
  forall udiff c F rep pairs t1 t2,
  shared F = true -> thr_num c <= thr_den c -> lift_guard c F rep t1 t2 = true ->
  wf t1 = true -> wf t2 = true -> alias_free t1 = true -> alias_free t2 = true ->
  (deephash H (hoptsF F (DiffModel.ignore_private c) rep) t1 = deephash H (hoptsF F (DiffModel.ignore_private c) rep) t2 <->
   fst (run_diff_ioF H udiff c F rep pairs t1 t2) = []).
Proof.
  intros H Ht Hi Hl udiff c F rep pairs t1 t2 HF Hthr G W1 W2 A1 A2.
  rewrite !deephash_pure by (auto; reflexivity).
  apply (hash_iff_diff H Ht Hi Hl udiff c F rep pairs t1 t2 HF Hthr G).
Qed.

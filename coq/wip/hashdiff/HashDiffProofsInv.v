(** Option-aware inversion of container hashes (the C07 step under the shared
    options): for a hasher that is injective, emits separator-free tokens and
    lower-case-stable text (SHA-256 hexdigest does all three), equal hashes of two
    lists / tuples / sets / dicts mean equal sets (multisets) of item hashes, and
    values of different kinds never share a hash - inside the K1 guard [tag_okF]. *)
From Coq Require Import List ZArith NArith Bool Arith Lia Permutation String.
Import ListNotations.
From DD Require Import Base.PyStr Base.Value Diff.Tree Diff.DiffModel Hash.HashModel Hash.HashProofsBase
  Hash.HashProofsC06 Hash.HashProofsC07 Options.OptModel Options.OptProofsBase Options.OptProofsAtoms
  HashDiff.HashDiffModel HashDiff.HashDiffProofsNum HashDiff.HashDiffProofsAtoms.
Local Open Scope string_scope.
Local Open Scope list_scope.

(* text that str.lower() leaves alone *)
Definition lst (s : pystr) : Prop := lower s = s.

Lemma lst_app s t : lst s -> lst t -> lst (s ++ t).
Proof. unfold lst. intros A B. rewrite lower_app, A, B. reflexivity. Qed.
Lemma lst_lowc s : lowc s -> lst s.
Proof. apply lowc_lower. Qed.
Lemma lst_join sep l : lst sep -> Forall lst l -> lst (join sep l).
Proof.
  intros Hs. induction 1 as [|x l Hx Hl IH]; [reflexivity|].
  destruct l as [|y l]; [exact Hx|]. change (join sep (x :: y :: l)) with (x ++ sep ++ join sep (y :: l)).
  apply lst_app; [exact Hx|]. apply lst_app; [exact Hs|exact IH].
Qed.
Lemma lst_lowif F s : lst s -> lowif F s = s.
Proof. unfold lowif, lst. destruct (o_case F); auto. Qed.

Lemma Forall_insert (P : pystr -> Prop) x l : P x -> Forall P l -> Forall P (insert x l).
Proof.
  intros Hx. induction 1 as [|y l Hy Hl IH]; cbn [insert]; [repeat constructor; exact Hx|].
  destruct (pystr_leb x y); repeat constructor; auto.
Qed.

Section Inv.
Variable H : pystr -> pystr.
Hypothesis H_tok : forall s, sepfree (H s).
Hypothesis H_inj : forall s t, H s = H t -> s = t.
Hypothesis H_low : forall s, lst (H s).
Variable F : opts.
Variables priv rep : bool.
Notation o := (hoptsF F priv rep).
Notation hv := (hash_pure H o).
Notation ha := (hash_atom H o).

Lemma o_order : ignore_iterable_order o = true. Proof. reflexivity. Qed.
Lemma o_rep : ignore_repetition o = negb rep. Proof. reflexivity. Qed.

Lemma hv_tok v : sepfree (hv v).
Proof. rewrite hash_pure_ser. apply H_tok. Qed.
Lemma ha_tok a : sepfree (ha a).
Proof. apply H_tok. Qed.
Lemma hv_lst v : lst (hv v).
Proof. rewrite hash_pure_ser. apply H_low. Qed.

Lemma fmt_count_lst h n : lst h -> lst (fmt_count (h, n)).
Proof.
  intros Hh. unfold fmt_count. cbn [fst snd]. apply lst_app; [exact Hh|]. apply lst_app; [reflexivity|].
  apply lst_lowc, lowc_digits, dec_nat_digits.
Qed.

Lemma arrange_lst hs : Forall lst hs -> Forall lst (arrange o hs).
Proof.
  intros Hs. unfold arrange.
  assert (Forall lst (if ignore_repetition o then dedup hs else map fmt_count (counts hs))) as A.
  { destruct (ignore_repetition o); [apply Forall_dedup; exact Hs|].
    rewrite Forall_forall. intros t Ht. apply in_map_iff in Ht as [[h n] [<- Hi]].
    apply counts_In in Hi as [Hi _]. apply fmt_count_lst. rewrite Forall_forall in Hs. auto. }
  destruct (ignore_iterable_order o); [apply Forall_isort; exact A|exact A].
Qed.

(* the final re-tagging step on lower-case-stable text *)
Lemma retag_lst r : lst r -> retag o r = spre F ++ r.
Proof.
  intros Hr. unfold retag. rewrite prep_form. unfold spre.
  destruct (o_strty F); cbn [app]; [apply lst_lowif; exact Hr|].
  rewrite lowif_app, (lst_lowif F r Hr). unfold lowif. destruct (o_case F); reflexivity.
Qed.

Lemma seq_result_lst name toks : lst name -> Forall lst toks -> lst (seq_result name toks).
Proof. intros Hn Ht. unfold seq_result. apply lst_app; [exact Hn|]. apply lst_app; [reflexivity|]. apply lst_join; [reflexivity|exact Ht]. Qed.

Lemma map_hv_lst (xs : list value) : Forall lst (map hv xs).
Proof. rewrite Forall_forall. intros h Hh. apply in_map_iff in Hh as [x [<- _]]. apply hv_lst. Qed.
Lemma map_ha_lst (xs : list atom) : Forall lst (map ha xs).
Proof. rewrite Forall_forall. intros h Hh. apply in_map_iff in Hh as [x [<- _]]. apply H_low. Qed.
Lemma map_hv_tok (xs : list value) : Forall sepfree (map hv xs).
Proof. rewrite Forall_forall. intros h Hh. apply in_map_iff in Hh as [x [<- _]]. apply hv_tok. Qed.
Lemma map_ha_tok (xs : list atom) : Forall sepfree (map ha xs).
Proof. rewrite Forall_forall. intros h Hh. apply in_map_iff in Hh as [x [<- _]]. apply ha_tok. Qed.

(* ---- serialisations of the containers ---- *)
Definition seq_ser (name : pystr) (hs : list pystr) : pystr := spre F ++ seq_result name (arrange o hs).

Lemma ser_list xs : ser H o (VList xs) = seq_ser (s2p "list") (map hv xs).
Proof. cbn [ser]. apply retag_lst, seq_result_lst; [reflexivity|apply arrange_lst, map_hv_lst]. Qed.
Lemma ser_tuple xs : ser H o (VTuple xs) = seq_ser (s2p "tuple") (map hv xs).
Proof. cbn [ser]. apply retag_lst, seq_result_lst; [reflexivity|apply arrange_lst, map_hv_lst]. Qed.
Lemma ser_set xs : ser H o (VSet xs) = seq_ser (s2p "set") (map ha xs).
Proof. cbn [ser]. apply retag_lst, seq_result_lst; [reflexivity|apply arrange_lst, map_ha_lst]. Qed.
Lemma ser_frozen xs : ser H o (VFrozen xs) = seq_ser (s2p "frozenset") (map ha xs).
Proof. cbn [ser]. apply retag_lst, seq_result_lst; [reflexivity|apply arrange_lst, map_ha_lst]. Qed.

Definition ditems (kvs : list (atom * value)) : list pystr :=
  map (fun kv => dict_item (ha (fst kv)) (hv (snd kv))) (vis o kvs).

Lemma ditems_lst kvs : Forall lst (ditems kvs).
Proof.
  unfold ditems. rewrite Forall_forall. intros t Ht. apply in_map_iff in Ht as [[k v] [<- _]].
  unfold dict_item. cbn [fst snd]. apply lst_app; [apply H_low|]. apply lst_app; [reflexivity|apply hv_lst].
Qed.
Lemma ser_dict kvs : ser H o (VDict kvs) = spre F ++ dict_result (ditems kvs).
Proof.
  cbn [ser]. apply retag_lst. unfold dict_result. apply lst_app; [reflexivity|]. apply lst_app; [|reflexivity].
  apply lst_join; [reflexivity|]. apply Forall_isort, ditems_lst.
Qed.

(* ---- sequences: equal hashes <-> equally arranged item hashes ---- *)
Lemma seq_ser_inj name hs1 hs2 : Forall sepfree hs1 -> Forall sepfree hs2 ->
  seq_ser name hs1 = seq_ser name hs2 -> arrange o hs1 = arrange o hs2.
Proof.
  intros T1 T2 E. unfold seq_ser, seq_result in E. do 3 apply app_inv_head in E.
  apply (join_inj 44%N); [apply arrange_toks; exact T1|apply arrange_toks; exact T2|exact E].
Qed.

(* what equal arrangements mean: same set of hashes, or same multiset when repetitions count *)
Definition same_bag (hs1 hs2 : list pystr) : Prop :=
  if rep then Permutation hs1 hs2 else (forall h, In h hs1 <-> In h hs2).

Lemma arrange_bag hs1 hs2 : Forall sepfree hs1 -> Forall sepfree hs2 ->
  (arrange o hs1 = arrange o hs2 <-> same_bag hs1 hs2).
Proof.
  intros T1 T2. unfold same_bag. destruct rep eqn:Er; split; intros E.
  - eapply arrange_multiset_inv; [| |exact T1|exact T2|exact E]; reflexivity.
  - apply arrange_perm; [reflexivity|exact E].
  - eapply arrange_set_inv; [| |exact E]; reflexivity.
  - apply arrange_same_set; [reflexivity|reflexivity|exact E].
Qed.

Lemma hv_list_bag xs ys : hv (VList xs) = hv (VList ys) <-> same_bag (map hv xs) (map hv ys).
Proof.
  rewrite <- arrange_bag by apply map_hv_tok. rewrite !hash_pure_ser, !ser_list. split.
  - intros E. apply H_inj in E. eapply seq_ser_inj; eauto using map_hv_tok.
  - intros E. unfold seq_ser. rewrite E. reflexivity.
Qed.
Lemma hv_tuple_bag xs ys : hv (VTuple xs) = hv (VTuple ys) <-> same_bag (map hv xs) (map hv ys).
Proof.
  rewrite <- arrange_bag by apply map_hv_tok. rewrite !hash_pure_ser, !ser_tuple. split.
  - intros E. apply H_inj in E. eapply seq_ser_inj; eauto using map_hv_tok.
  - intros E. unfold seq_ser. rewrite E. reflexivity.
Qed.
Lemma hv_set_bag xs ys : hv (VSet xs) = hv (VSet ys) <-> same_bag (map ha xs) (map ha ys).
Proof.
  rewrite <- arrange_bag by apply map_ha_tok. rewrite !hash_pure_ser, !ser_set. split.
  - intros E. apply H_inj in E. eapply seq_ser_inj; eauto using map_ha_tok.
  - intros E. unfold seq_ser. rewrite E. reflexivity.
Qed.
Lemma hv_frozen_bag xs ys : hv (VFrozen xs) = hv (VFrozen ys) <-> same_bag (map ha xs) (map ha ys).
Proof.
  rewrite <- arrange_bag by apply map_ha_tok. rewrite !hash_pure_ser, !ser_frozen. split.
  - intros E. apply H_inj in E. eapply seq_ser_inj; eauto using map_ha_tok.
  - intros E. unfold seq_ser. rewrite E. reflexivity.
Qed.

(* ---- dicts: equal hashes <-> the same items up to order ---- *)
Lemma ditem_tok kh vh : sepfree kh -> sepfree vh -> dict_item kh vh <> [] /\ free 59%N (dict_item kh vh).
Proof.
  intros (Nk & _ & Fk & _) (_ & _ & Fv & _). unfold dict_item. split.
  - destruct kh; [congruence|discriminate].
  - rewrite !free_app. repeat split; auto. intros [X|[]]. discriminate.
Qed.
Lemma ditem_inj kh vh kh' vh' : sepfree kh -> sepfree kh' ->
  dict_item kh vh = dict_item kh' vh' -> kh = kh' /\ vh = vh'.
Proof.
  intros (_ & _ & _ & Fk & _) (_ & _ & _ & Fk' & _) E. unfold dict_item, c_colon in E. cbn [app] in E.
  apply split_sep in E; auto.
Qed.
Lemma ditems_tok kvs : Forall (fun t => t <> [] /\ free 59%N t) (ditems kvs).
Proof.
  unfold ditems. rewrite Forall_forall. intros t Ht. apply in_map_iff in Ht as [[k v] [<- _]].
  apply ditem_tok; [apply ha_tok|apply hv_tok].
Qed.

Lemma hv_dict_perm kvs1 kvs2 :
  hv (VDict kvs1) = hv (VDict kvs2) <-> Permutation (ditems kvs1) (ditems kvs2).
Proof.
  rewrite !hash_pure_ser, !ser_dict. split.
  - intros E. apply H_inj in E. unfold dict_result in E. do 2 apply app_inv_head in E. apply app_inv_tail in E.
    apply (join_inj 59%N) in E; [apply isort_eq_perm; exact E| |]; apply Forall_isort, ditems_tok.
  - intros E. unfold dict_result. rewrite (isort_perm_eq _ _ E). reflexivity.
Qed.

(* ---- values of different kinds never share a hash ---- *)
Definition cname (v : value) : pystr :=
  match v with
  | VList _ => s2p "list" | VTuple _ => s2p "tuple" | VSet _ => s2p "set" | VFrozen _ => s2p "frozenset"
  | _ => s2p "dict"
  end.
Definition is_container (v : value) : bool := match v with VAtom _ => false | _ => true end.

Lemma ser_container v : is_container v = true -> exists rest, ser H o v = spre F ++ cname v ++ [58%N] ++ rest.
Proof.
  destruct v; try discriminate; intros _; rewrite ?ser_list, ?ser_tuple, ?ser_set, ?ser_frozen, ?ser_dict;
    unfold seq_ser, seq_result, dict_result; eexists; cbn [cname]; reflexivity.
Qed.

Lemma hv_container_kind v w : is_container v = true -> is_container w = true ->
  hv v = hv w -> type_of v = type_of w.
Proof.
  intros Cv Cw E. rewrite !hash_pure_ser in E. apply H_inj in E.
  destruct (ser_container v Cv) as [r1 E1], (ser_container w Cw) as [r2 E2]. rewrite E1, E2 in E.
  apply app_inv_head in E.
  destruct v, w; try discriminate; try reflexivity; cbn in E; discriminate.
Qed.

Lemma ser_atom_vs_container a v : tag_okF F a = true -> is_container v = true -> ser_atom o a <> ser H o v.
Proof.
  intros Ta Cv E. destruct (ser_container v Cv) as [r Er]. rewrite Er in E. clear Er.
  rewrite ser_form in E.
  assert (Hc : has_char 58%N (cname v ++ [58%N] ++ r) = true) by (destruct v; try discriminate; reflexivity).
  assert (Hb : forall body, lowif F (spre F ++ body) = spre F ++ cname v ++ [58%N] ++ r ->
               lowif F body = cname v ++ [58%N] ++ r).
  { intros body E'. rewrite lowif_app in E'. replace (lowif F (spre F)) with (spre F) in E'.
    - apply app_inv_head in E'. exact E'.
    - unfold spre, lowif. destruct (o_strty F), (o_case F); reflexivity. }
  assert (Hs : forall s, tag_okS F s = true -> lowif F s <> cname v ++ [58%N] ++ r).
  { intros s Hs E'. unfold tag_okS in Hs. apply andb_true_iff in Hs as [Hs _].
    rewrite <- E', lowif_has_colon in Hc. rewrite Hc in Hs. discriminate. }
  destruct a as [|b|z|t|s|s]; cbn [hpre] in E.
  - apply Hb in E. cbn [hbody] in E. destruct (lowif_none_cases F) as [E0|E0]; rewrite E0 in E;
      destruct v; try discriminate; cbn in E; discriminate.
  - apply Hb in E. cbn [hbody] in E. rewrite lowif_bool in E. destruct b, v; try discriminate; cbn in E; discriminate.
  - apply Hb in E. rewrite (lowif_num_body F (AInt z)) in E by reflexivity.
    destruct (num_body_shape F (AInt z) eq_refl) as (c1 & c2 & r' & Esh & Hcc). rewrite Esh in E.
    destruct v; try discriminate; cbn in E; inversion E; destruct Hcc as [?|[[? ?]|[? ?]]]; congruence.
  - apply Hb in E. rewrite (lowif_num_body F (AHalf t)) in E by reflexivity.
    destruct (num_body_shape F (AHalf t) eq_refl) as (c1 & c2 & r' & Esh & Hcc). rewrite Esh in E.
    destruct v; try discriminate; cbn in E; inversion E; destruct Hcc as [?|[[? ?]|[? ?]]]; congruence.
  - apply Hb in E. cbn [hbody tag_okF] in *. exact (Hs s Ta E).
  - cbn [tag_okF] in Ta. unfold bpre, spre in *. destruct (o_strty F) eqn:Es.
    + apply Hb in E. cbn [hbody] in E. exact (Hs s Ta E).
    + rewrite lowif_app in E. unfold lowif at 1 in E. destruct (o_case F); destruct v; try discriminate; cbn in E; discriminate.
Qed.

Lemma hv_atom_vs_container a v : tag_okF F a = true -> is_container v = true -> hv (VAtom a) <> hv v.
Proof.
  intros Ta Cv E. rewrite (hash_pure_ser H o v) in E. cbn [hash_pure] in E. unfold hash_atom in E.
  apply H_inj in E. exact (ser_atom_vs_container a v Ta Cv E).
Qed.

End Inv.

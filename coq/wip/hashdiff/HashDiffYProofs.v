(** C12 over the extended universe (HashDiffYModel.v): theorems per option family.

    truncate_datetime / default_timezone   [y_datetime_hash_iff_diff]: for EVERY pair of datetimes
        (naive or aware, any zones), every unit and every default zone, every combination with the
        other options: the stand-alone hashes are equal exactly when _diff reports nothing - both
        engines go through datetime_normalize with the same two options.  No guard.
        The observed booleans: [o_excl F = []] (exclude_types is not a shared option).
    use_enum_value   [yh_text_unwrap]: DeepHash always hashes the value.
        [leafR_enum_unwrap]: _diff replaces a member by its value exactly when the two TYPES differ
        (another class, or a plain value), and then compares WITHOUT the type check
        ([dispatch false]) - stated for values that are not None (the None edge case of _diff
        was changed by the /repo fix c9e614d).  [leafR_enum_none], [y_enum_none_agrees]: that edge
        case as fixed - a None-valued member facing None: equal hashes, nothing reported.
        [y_enum_transfer_none]: the transfer theorem with "neither None-valued" weakened to "not
        exactly one of them None-valued".
        [y_enum_transfer]: hence for a member facing a plain value / a member of another class,
        neither being None-valued, the property holds iff it holds for the two VALUES compared by
        the comparer of the first one's type without type check.
        Refuted in the three ways this leaves open ([y_enum_*_refuted]).
    Witnesses ([*_refuted]) for the findings that live in this universe. *)
From Coq Require Import List ZArith NArith Bool Arith Lia String.
Import ListNotations.
From DD Require Path.PathModel Path.PathLex.
From DD Require Import Base.PyStr Hash.HashModel Hash.HexHash Options.OptDtModel Options.YValue Options.YModel HashDiff.HashDiffYModel.

Local Open Scope list_scope.

(* ------------------------------------------------------------------ *)
(** * texts *)

Lemma p_of_Z_inj z z' : p_of_Z z = p_of_Z z' -> z = z'.
Proof.
  intros E. pose proof (PathLex.literal_eval_int z) as A. rewrite E, PathLex.literal_eval_int in A. congruence.
Qed.

Lemma lower_app s t : lower (s ++ t) = lower s ++ lower t.
Proof. unfold lower. apply map_app. Qed.
Lemma lowif_app F s t : lowif F (s ++ t) = lowif F s ++ lowif F t.
Proof. unfold lowif. destruct (o_case F); [apply lower_app|reflexivity]. Qed.

(* characters below 'A' are not touched by lower(): digits, '-', ':', '@' *)
Definition lowc (s : pystr) : Prop := Forall (fun ch => (ch < 65)%N) s.
Lemma lowc_lower s : lowc s -> lower s = s.
Proof.
  induction 1 as [|ch s Hc _ IH]; [reflexivity|]. cbn [lower map]. fold (lower s). rewrite IH. f_equal.
  unfold lower_char. destruct (N.leb_spec 65 ch); [lia|reflexivity].
Qed.
Lemma lowc_lowif F s : lowc s -> lowif F s = s.
Proof. intros. unfold lowif. destruct (o_case F); [apply lowc_lower; assumption|reflexivity]. Qed.
Lemma lowc_p_of_Z z : lowc (p_of_Z z).
Proof.
  pose proof (PathLex.p_of_Z_numch z) as D. unfold lowc. rewrite Forall_forall. intros ch Hc.
  rewrite forallb_forall in D. specialize (D ch Hc).
  unfold PathLex.numch, PathModel.is_digit, PathModel.cMINUS, PathModel.cDOT in D.
  apply orb_true_iff in D. destruct D as [D|D].
  - apply orb_true_iff in D. destruct D as [D|D].
    + apply andb_true_iff in D. destruct D as [_ D2]. apply N.leb_le in D2. lia.
    + apply N.eqb_eq in D. lia.
  - apply N.eqb_eq in D. lia.
Qed.

(* ------------------------------------------------------------------ *)
(** * truncate_datetime / default_timezone *)

Section Dt.
Variable H : pystr -> pystr.
Hypothesis H_inj : forall s t, H s = H t -> s = t.
Variable udiff : pystr -> pystr -> pystr.
Variable F : opts.
Hypothesis no_excl : o_excl F = [].

Lemma ydt_text_inj u1 o1 u2 o2 :
  yh_text F (ADt u1 o1) = yh_text F (ADt u2 o2) <->
  dt_instant (o_trunc F) (o_tz F) (mkDt u1 o1) = dt_instant (o_trunc F) (o_tz F) (mkDt u2 o2).
Proof.
  cbn [yh_text yh0]. unfold prep_string, ydt_text. split.
  - intros E. rewrite !lowif_app in E. do 2 apply app_inv_head in E.
    rewrite !(lowc_lowif F (p_of_Z _)) in E by apply lowc_p_of_Z.
    apply app_inv_tail in E. apply p_of_Z_inj. exact E.
  - intros ->. reflexivity.
Qed.

Lemma excluded_none t : excluded F t = false.
Proof. unfold excluded. rewrite no_excl. reflexivity. Qed.

Lemma rep_atoms_nonempty k p1 p2 a b : rep_atoms F k p1 p2 a b <> [].
Proof.
  unfold rep_atoms, reportF, excl_opt. cbn [type_of]. rewrite !excluded_none. cbn [orb]. discriminate.
Qed.

Theorem y_datetime_hash_iff_diff u1 o1 u2 o2 p1 p2 :
  (yh_atom H F (ADt u1 o1) = yh_atom H F (ADt u2 o2) <-> leafR udiff F (ADt u1 o1) (ADt u2 o2) p1 p2 = Ok []).
Proof.
  unfold yh_atom. split.
  - intros E. apply H_inj in E. apply ydt_text_inj in E.
    cbn [leafR]. unfold leaf_core. cbn [same_obj atom_ty ty_eqb is_nan andb]. rewrite !excluded_none. cbn [orb].
    rewrite andb_false_r. cbn [dispatch dtD]. unfold dt_changed. rewrite E, Z.eqb_refl. reflexivity.
  - intros E. f_equal. apply ydt_text_inj.
    cbn [leafR] in E. unfold leaf_core in E. cbn [same_obj atom_ty ty_eqb is_nan andb] in E. rewrite !excluded_none in E. cbn [orb] in E.
    rewrite andb_false_r in E. cbn [dispatch dtD] in E. unfold dt_changed in E.
    destruct (Z.eqb_spec (dt_instant (o_trunc F) (o_tz F) (mkDt u1 o1)) (dt_instant (o_trunc F) (o_tz F) (mkDt u2 o2))) as [Eq|Ne]; [exact Eq|].
    cbn [negb] in E. exfalso. inversion E as [E']. revert E'. apply rep_atoms_nonempty.
Qed.

(* ---- timedeltas: compared with != by _diff_time (with or without truncate_datetime, since /repo 1c8f0f8),
   hashed from their microseconds: equal hashes <-> nothing reported, for every option set; and DeepHash
   raises on a timedelta exactly when a precision is in force (finding C12-timedelta-hash-TypeError) ---- *)
Lemma ytd_text_inj u1 u2 : yh_text F (ATd u1) = yh_text F (ATd u2) <-> u1 = u2.
Proof.
  cbn [yh_text yh0 hatom0]. unfold prep_string. split.
  - intros E. rewrite !lowif_app in E. do 2 apply app_inv_head in E.
    rewrite !(lowc_lowif F (p_of_Z _)) in E by apply lowc_p_of_Z. apply p_of_Z_inj. exact E.
  - intros ->. reflexivity.
Qed.

Theorem y_timedelta_hash_iff_diff u1 u2 p1 p2 :
  (yh_atom H F (ATd u1) = yh_atom H F (ATd u2) <-> leafR udiff F (ATd u1) (ATd u2) p1 p2 = Ok []) /\
  yh_err F (ATd u1) = match eff_sig F with Some _ => Some EType | None => None end.
Proof.
  split.
  - unfold yh_atom.
    assert (L : leafR udiff F (ATd u1) (ATd u2) p1 p2 =
                Ok (if negb (Z.eqb u1 u2) then rep_atoms F KValue p1 p2 (ATd u1) (ATd u2) else [])).
    { cbn [leafR]. unfold leaf_core. cbn [same_obj atom_ty ty_eqb is_nan andb]. rewrite !excluded_none. cbn [orb].
      rewrite andb_false_r. cbn [dispatch]. unfold timeD. destruct (o_trunc F); reflexivity. }
    rewrite L. split.
    + intros E. apply H_inj in E. apply ytd_text_inj in E. subst u2. rewrite Z.eqb_refl. reflexivity.
    + intros E. f_equal. apply ytd_text_inj. destruct (Z.eqb_spec u1 u2) as [Eq|Ne]; [exact Eq|].
      cbn [negb] in E. exfalso. inversion E as [E']. revert E'. apply rep_atoms_nonempty.
  - cbn [yh_err]. unfold hatom_err. destruct (eff_sig F); reflexivity.
Qed.

End Dt.

(* what the theorem says in terms of the inputs: the two wall clocks, floored to the unit IN THEIR OWN
   ZONES and then moved to UTC (naive ones read in default_timezone), coincide *)
Corollary y_datetime_spec (H : pystr -> pystr) (H_inj : forall s t, H s = H t -> s = t) udiff F u1 o1 u2 o2 p1 p2 :
  o_excl F = [] ->
  (leafR udiff F (ADt u1 o1) (ADt u2 o2) p1 p2 = Ok [] <->
   (dt_trunc (o_trunc F) u1 - 60000000 * match o1 with Some o => o | None => o_tz F end =
    dt_trunc (o_trunc F) u2 - 60000000 * match o2 with Some o => o | None => o_tz F end)%Z).
Proof.
  intros Hx. rewrite <- (y_datetime_hash_iff_diff H H_inj udiff F Hx u1 o1 u2 o2 p1 p2).
  unfold yh_atom. split.
  - intros E. apply H_inj in E. apply (ydt_text_inj F) in E. exact E.
  - intros E. f_equal. apply (ydt_text_inj F). exact E.
Qed.

(* ------------------------------------------------------------------ *)
(** * use_enum_value *)

Section En.
Variable udiff : pystr -> pystr -> pystr.
Variable F : opts.
Hypothesis enum_on : o_enum F = true.

Lemma atom_of_e_not_enum v : is_enum (atom_of_e v) = false.
Proof. destruct v; reflexivity. Qed.

(* DeepHash: obj = obj.value, whatever it faces *)
Lemma yh_text_unwrap c n o v : yh_text F (AEnum c n o v) = yh_text F (atom_of_e v).
Proof. cbn [yh_text]. rewrite enum_on. destruct v; reflexivity. Qed.

Definition other_class (c : pystr) (b : atom) : bool :=
  match b with AEnum c' _ _ _ => negb (pystr_eqb c c') | _ => true end.

(* _diff: a member facing a plain value or a member of ANOTHER class (the types differ), neither side
   None after unwrapping: the comparer of the first value's type, WITHOUT type check.
   (Stated away from the None edge case of _diff on purpose: that branch was changed by the /repo fix
   c9e614d - None facing None after unwrapping is no longer reported - and is described separately.) *)
Lemma leafR_enum_unwrap c n o v b p1 p2 :
  o_excl F = [] -> o_nan F = false -> other_class c b = true ->
  is_none (atom_of_e v) = false -> is_none (unwrap F b) = false ->
  leafR udiff F (AEnum c n o v) b p1 p2 = dispatch udiff F false (atom_of_e v) (unwrap F b) p1 p2.
Proof.
  intros Hx Hn Hc Na Nb.
  assert (Ex : forall t, excluded F t = false) by (intros t; unfold excluded; rewrite Hx; reflexivity).
  assert (L : leafR udiff F (AEnum c n o v) b p1 p2 = leaf_core udiff F (AEnum c n o v) b p1 p2).
  { destruct b; try reflexivity. cbn [other_class] in Hc. apply negb_true_iff in Hc. cbn [leafR]. rewrite Hc. reflexivity. }
  rewrite L. unfold leaf_core.
  assert (S : same_obj (AEnum c n o v) b = false).
  { destruct b; try reflexivity. cbn [other_class] in Hc. apply negb_true_iff in Hc. cbn [same_obj]. rewrite Hc. reflexivity. }
  rewrite S, !Ex. cbn [orb].
  assert (T : ty_eqb (atom_ty (AEnum c n o v)) (atom_ty b) = false).
  { destruct b; try reflexivity. cbn [other_class] in Hc. apply negb_true_iff in Hc. cbn [atom_ty ty_eqb]. exact Hc. }
  rewrite T, enum_on, Hn. cbn [is_enum andb orb negb]. rewrite andb_false_r.
  cbn [unwrap]. rewrite enum_on, Na, Nb. reflexivity.
Qed.

(* hence: for a member facing a plain value / a member of another class, neither side None-valued, the
   property at this position IS the property for the two values under the comparer of the first
   one's type WITHOUT the type check *)
Theorem y_enum_transfer (H : pystr -> pystr) c n o v b p1 p2 :
  o_excl F = [] -> o_nan F = false -> other_class c b = true ->
  is_none (atom_of_e v) = false -> is_none (unwrap F b) = false ->
  ((yh_atom H F (AEnum c n o v) = yh_atom H F b <-> leafR udiff F (AEnum c n o v) b p1 p2 = Ok []) <->
   (yh_atom H F (atom_of_e v) = yh_atom H F (unwrap F b) <-> dispatch udiff F false (atom_of_e v) (unwrap F b) p1 p2 = Ok [])).
Proof.
  intros Hx Hn Hc Na Nb. rewrite (leafR_enum_unwrap c n o v b p1 p2 Hx Hn Hc Na Nb).
  unfold yh_atom. rewrite yh_text_unwrap.
  assert (E : yh_text F b = yh_text F (unwrap F b)).
  { destruct b; try reflexivity. cbn [unwrap]. rewrite enum_on. apply yh_text_unwrap. }
  rewrite E. tauto.
Qed.

(* the None edge case of _diff after unwrapping, as fixed in /repo c9e614d: a None-valued member facing
   None (or a None-valued member of another class) is NOT reported - both are None - and the hashes are
   equal: the property holds there without any guard *)
Lemma leafR_enum_none c n o b p1 p2 :
  o_excl F = [] -> o_nan F = false -> other_class c b = true -> is_none (unwrap F b) = true ->
  leafR udiff F (AEnum c n o ENone) b p1 p2 = Ok [].
Proof.
  intros Hx Hn Hc Nb.
  assert (Ex : forall t, excluded F t = false) by (intros t; unfold excluded; rewrite Hx; reflexivity).
  assert (L : leafR udiff F (AEnum c n o ENone) b p1 p2 = leaf_core udiff F (AEnum c n o ENone) b p1 p2).
  { destruct b; try reflexivity. cbn [other_class] in Hc. apply negb_true_iff in Hc. cbn [leafR]. rewrite Hc. reflexivity. }
  rewrite L. unfold leaf_core.
  assert (S : same_obj (AEnum c n o ENone) b = false).
  { destruct b; try reflexivity. cbn [other_class] in Hc. apply negb_true_iff in Hc. cbn [same_obj]. rewrite Hc. reflexivity. }
  rewrite S, !Ex. cbn [orb].
  assert (T : ty_eqb (atom_ty (AEnum c n o ENone)) (atom_ty b) = false).
  { destruct b; try reflexivity. cbn [other_class] in Hc. apply negb_true_iff in Hc. cbn [atom_ty ty_eqb]. exact Hc. }
  rewrite T, enum_on, Hn. cbn [is_enum andb orb negb]. rewrite andb_false_r.
  cbn [unwrap]. rewrite enum_on. cbn [atom_of_e is_none orb andb]. rewrite Nb. reflexivity.
Qed.

Lemma is_none_eq a : is_none a = true -> a = ANone.
Proof. destruct a; try discriminate. reflexivity. Qed.

Theorem y_enum_none_agrees (H : pystr -> pystr) c n o b p1 p2 :
  o_excl F = [] -> o_nan F = false -> other_class c b = true -> is_none (unwrap F b) = true ->
  yh_atom H F (AEnum c n o ENone) = yh_atom H F b /\ leafR udiff F (AEnum c n o ENone) b p1 p2 = Ok [].
Proof.
  intros Hx Hn Hc Nb. split; [|apply leafR_enum_none; assumption].
  unfold yh_atom. rewrite yh_text_unwrap. f_equal.
  assert (E : yh_text F b = yh_text F (unwrap F b)).
  { destruct b; try reflexivity. cbn [unwrap]. rewrite enum_on. apply yh_text_unwrap. }
  rewrite E, (is_none_eq _ Nb). reflexivity.
Qed.

(* the transfer theorem with the guard "neither None-valued" weakened to "not exactly one of them": *)
Theorem y_enum_transfer_none (H : pystr -> pystr) c n o v b p1 p2 :
  o_excl F = [] -> o_nan F = false -> other_class c b = true ->
  is_none (atom_of_e v) = is_none (unwrap F b) ->
  ((yh_atom H F (AEnum c n o v) = yh_atom H F b <-> leafR udiff F (AEnum c n o v) b p1 p2 = Ok []) <->
   (if is_none (atom_of_e v) then True
    else (yh_atom H F (atom_of_e v) = yh_atom H F (unwrap F b) <-> dispatch udiff F false (atom_of_e v) (unwrap F b) p1 p2 = Ok []))).
Proof.
  intros Hx Hn Hc En. destruct (is_none (atom_of_e v)) eqn:Na.
  - assert (v = ENone) by (destruct v; try discriminate; reflexivity). subst v.
    destruct (y_enum_none_agrees H c n o b p1 p2 Hx Hn Hc (eq_sym En)) as [A B]. rewrite A, B. tauto.
  - apply y_enum_transfer; auto.
Qed.

End En.

(** The relational guard [cohk] on dict keys follows from a per-key boolean condition.

    [key_okb F k] (one key at a time):
      - the K1 guard and ASCII bytes;
      - no bool key (True == 1 == 1.0 is one dict key for Python, and key cleaning renders
        a bool like the number under ignore_numeric_type_changes);
      - a float key only when key cleaning renders numbers (one of the three ignore_*
        options AND a precision in force): otherwise 1 / 1.0 are matched by == while their
        hashes differ, and under significant_digits alone DeepHash rounds the key while
        _diff_dict does not;
      - a bytes key under ignore_string_case without ignore_string_type_changes must be
        lower-case already (key cleaning does not lower-case bytes).
    Two keys that both pass have ==-equal clean keys exactly when they are equivalent
    under the options. *)
From Coq Require Import List ZArith NArith Bool Arith Lia String.
Import ListNotations.
From DD Require Import Base.PyStr Base.Value Diff.Tree Diff.DiffModel Hash.HashModel Hash.HashProofsBase
  Options.OptModel Options.OptProofsBase Options.OptProofsAtoms Options.OptProofsKeys
  HashDiff.HashDiffModel HashDiff.HashDiffProofsNum HashDiff.HashDiffProofsAtoms HashDiff.HashDiffProofsLift.
From DD Require Path.PathModel Path.PathLex.
Local Open Scope string_scope.
Local Open Scope list_scope.

Definition numclean (F : opts) : bool := cleaning F && match eff_sig F with Some _ => true | None => false end.

Definition key_okb (F : opts) (k : atom) : bool :=
  tag_okF F k && ascii_atom k &&
  match k with
  | ABool _ => false
  | AHalf _ => numclean F
  | ABytes s => negb (o_case F && negb (o_strty F)) || pystr_eqb (lower s) s
  | _ => true
  end.

Definition cohkb (F : opts) (k k' : atom) : bool := key_okb F k && key_okb F k'.

(* ---- number texts of the diff side are lower-case stable ---- *)
Lemma lowc_p_of_N n : lowc (p_of_N n).
Proof.
  unfold lowc. rewrite Forall_forall. intros c Hc.
  pose proof (pdigit_In (p_of_N n) c (PathLex.p_of_N_digits n) Hc). lia.
Qed.
Lemma lowc_zerosO n : lowc (OptModel.zeros n).
Proof. unfold lowc, OptModel.zeros. induction n; cbn; constructor; [lia|assumption]. Qed.
Lemma lowc_dec_str n d : lowc (dec_str n d).
Proof.
  rewrite dec_str_body. apply lowc_app; [apply lowc_sign|]. unfold ubody.
  pose proof (pow10_pos d).
  rewrite p_of_Z_nonneg by (apply Z.div_pos; lia).
  apply lowc_app; [apply lowc_p_of_N|]. destruct (N.eqb d 0); [constructor|].
  constructor; [lia|]. unfold pad0. apply lowc_app; [apply lowc_zerosO|].
  rewrite p_of_Z_nonneg by (apply Z.mod_pos_bound; lia). apply lowc_p_of_N.
Qed.
Lemma lowc_num_str d x : lowc (num_str d x).
Proof. apply lowc_dec_str. Qed.

Lemma lowif_num_key F a d x : is_num a = true ->
  lowif F (num_tag F a ++ colon ++ num_str d x) = num_tag F a ++ colon ++ num_str d x.
Proof.
  intros Ha. rewrite !lowif_app, (lowc_lowif F (num_str d x)) by apply lowc_num_str.
  unfold num_tag, lowif, colon. destruct a; try discriminate; destruct (o_numty F), (o_case F); reflexivity.
Qed.

Lemma num_tag_colon F a d x : is_num a = true -> has_char 58%N (num_tag F a ++ colon ++ num_str d x) = true.
Proof. intros Ha. unfold num_tag. destruct a; try discriminate; destruct (o_numty F); reflexivity. Qed.

(* the clean text of a numeric key decides the key *)
Lemma numkey_text F d a b : eff_sig F = Some d -> is_num a = true -> is_num b = true ->
  (num_tag F a ++ colon ++ num_str d (dyv a) = num_tag F b ++ colon ++ num_str d (dyv b) <-> akey F a = akey F b).
Proof.
  intros Es Ha Hb. unfold num_tag.
  assert (Same : forall (tg : pystr) x y (t : option ty),
            (tg ++ colon ++ num_str d x = tg ++ colon ++ num_str d y <-> KNum t (rhe x d) = KNum t (rhe y d))).
  { intros tg x y t. rewrite KNum_inj. split.
    - intros E. apply app_inv_head in E. apply (app_inv_head colon) in E. apply num_str_inj in E. auto.
    - intros [_ E]. apply (num_str_inj d) in E. rewrite E. reflexivity. }
  destruct a as [| |z|t| |], b as [| |z'|t'| |]; try discriminate; cbn [akey dyv ty_name]; rewrite Es;
    destruct (o_numty F); try apply Same.
  all: split; [intros E; cbn in E; discriminate E|intros E; discriminate E].
Qed.

Lemma eqb_of_iff (b1 b2 : bool) : (b1 = true <-> b2 = true) -> Bool.eqb b1 b2 = true.
Proof. destruct b1, b2; cbn; intros [A B]; auto. Qed.

Lemma py_eq_str s t : py_eq (AStr s) (AStr t) = true <-> s = t.
Proof. unfold py_eq. cbn [num2]. split; [apply OptProofsBase.pystr_eqb_eq|intros ->; apply OptProofsBase.pystr_eqb_refl]. Qed.
Lemma py_eq_bytes s t : py_eq (ABytes s) (ABytes t) = true <-> s = t.
Proof. unfold py_eq. cbn [num2]. split; [apply OptProofsBase.pystr_eqb_eq|intros ->; apply OptProofsBase.pystr_eqb_refl]. Qed.
Lemma py_eq_int z z' : py_eq (AInt z) (AInt z') = true <-> z = z'.
Proof. unfold py_eq. cbn [num2]. rewrite Z.eqb_eq. lia. Qed.

Lemma KStr_inj t s t' s' : KStr t s = KStr t' s' <-> t = t' /\ s = s'.
Proof. split; [intros E; inversion E; auto|intros [-> ->]; reflexivity]. Qed.

Section KeyCoh.
Variable F : opts.

(* the clean key, constructor by constructor *)
Lemma ckey_none : ckey F ANone = ANone.
Proof. unfold ckey. destruct (cleaning F); reflexivity. Qed.
Lemma ckey_str s : ckey F (AStr s) = AStr (if cleaning F then lowif F s else s).
Proof. unfold ckey. destruct (cleaning F); reflexivity. Qed.
Lemma ckey_bytes s : ckey F (ABytes s) = if cleaning F && o_strty F then AStr (lowif F s) else ABytes s.
Proof. unfold ckey. destruct (cleaning F); cbn [clean_key andb]; [|reflexivity]. destruct (o_strty F); reflexivity. Qed.
Lemma ckey_num a : is_num a = true ->
  ckey F a = if cleaning F then match eff_sig F with
                                | Some d => AStr (num_tag F a ++ colon ++ num_str d (dyv a))
                                | None => a end
             else a.
Proof.
  intros Ha. unfold ckey. destruct (cleaning F); [|reflexivity].
  destruct a; try discriminate; cbn [clean_key dy_of_atom dyv]; destruct (eff_sig F) as [d|]; try reflexivity;
    rewrite lowif_num_key by reflexivity; reflexivity.
Qed.

Lemma noclean_flags : cleaning F = false -> o_case F = false /\ o_strty F = false /\ o_numty F = false.
Proof. unfold cleaning. destruct (o_strty F), (o_numty F), (o_case F); cbn; intros E; try discriminate; auto. Qed.

Lemma int_key_inj z z' : akey F (AInt z) = akey F (AInt z') <-> z = z'.
Proof.
  cbn [akey]. destruct (eff_sig F) as [d|]; rewrite KNum_inj.
  - rewrite !rhe_int. pose proof (pow10_nz d). split; [intros [_ E]; nia|intros ->; auto].
  - split; [intros [_ E]; lia|intros ->; auto].
Qed.

Lemma akey_num_shape a : is_num a = true -> exists t v, akey F a = KNum t v.
Proof. intros Ha. destruct a; try discriminate; cbn [akey]; destruct (eff_sig F); eexists _, _; reflexivity. Qed.

Theorem key_coh k k' : key_okb F k = true -> key_okb F k' = true ->
  (py_eq (ckey F k) (ckey F k') = true <-> eqvA F k k').
Proof.
  unfold eqvA, key_okb. intros Hk Hk'.
  apply andb_true_iff in Hk as [Hk Xk]. apply andb_true_iff in Hk as [Tk _].
  apply andb_true_iff in Hk' as [Hk' Xk']. apply andb_true_iff in Hk' as [Tk' _].
  (* a str-like clean key never equals the clean text of a number *)
  assert (Hsn : forall s a d, tag_okS F s = true -> is_num a = true ->
                lowif F s <> num_tag F a ++ colon ++ num_str d (dyv a)).
  { intros s a d Hs Ha E. unfold tag_okS in Hs. apply andb_true_iff in Hs as [Hs _].
    pose proof (num_tag_colon F a d (dyv a) Ha) as Hc. rewrite <- E, lowif_has_colon in Hc. rewrite Hc in Hs. discriminate. }
  destruct k as [|x|z|t|s|s]; try discriminate; destruct k' as [|y|z'|t'|s'|s']; try discriminate;
    rewrite ?ckey_none, ?ckey_str, ?ckey_bytes, ?(ckey_num (AInt _)), ?(ckey_num (AHalf _)) by reflexivity;
    cbn [tag_okF] in Tk, Tk'.
  (* None vs _ *)
  - split; reflexivity.
  - destruct (akey_num_shape (AInt z') eq_refl) as (? & ? & E). cbn [akey] in *. rewrite E.
    destruct (cleaning F); [destruct (eff_sig F)|]; split; discriminate.
  - destruct (akey_num_shape (AHalf t') eq_refl) as (? & ? & E). cbn [akey] in *. rewrite E.
    destruct (cleaning F); [destruct (eff_sig F)|]; split; discriminate.
  - cbn [akey]. split; discriminate.
  - cbn [akey]. destruct (cleaning F && o_strty F); split; discriminate.
  (* Int vs _ *)
  - destruct (akey_num_shape (AInt z) eq_refl) as (? & ? & E). cbn [akey] in *. rewrite E.
    destruct (cleaning F); [destruct (eff_sig F)|]; split; discriminate.
  - destruct (cleaning F) eqn:Ec; [destruct (eff_sig F) as [d|] eqn:Es|].
    + rewrite py_eq_str. apply (numkey_text F d (AInt z) (AInt z') Es); reflexivity.
    + rewrite py_eq_int. symmetry. apply int_key_inj.
    + rewrite py_eq_int. symmetry. apply int_key_inj.
  - unfold numclean in Xk'. apply andb_true_iff in Xk' as [Ec Es]. rewrite Ec. destruct (eff_sig F) as [d|] eqn:Es'; [|discriminate].
    rewrite py_eq_str. apply (numkey_text F d (AInt z) (AHalf t') Es'); reflexivity.
  - destruct (akey_num_shape (AInt z) eq_refl) as (? & ? & E). rewrite E. cbn [akey].
    destruct (cleaning F) eqn:Ec; [destruct (eff_sig F) as [d|] eqn:Es|]; try (split; discriminate).
    rewrite py_eq_str. split; [intros X; exfalso; symmetry in X; revert X; apply Hsn; auto|discriminate].
  - destruct (akey_num_shape (AInt z) eq_refl) as (? & ? & E). rewrite E. cbn [akey].
    destruct (cleaning F) eqn:Ec; cbn [andb]; [|split; discriminate].
    destruct (o_strty F) eqn:Et; [|destruct (eff_sig F); split; discriminate].
    destruct (eff_sig F) as [d|] eqn:Es; [|split; discriminate].
    rewrite py_eq_str. split; [intros X; exfalso; symmetry in X; revert X; apply Hsn; auto|discriminate].
  (* Half vs _ *)
  - destruct (akey_num_shape (AHalf t) eq_refl) as (? & ? & E). cbn [akey] in *. rewrite E.
    destruct (cleaning F); [destruct (eff_sig F)|]; split; discriminate.
  - unfold numclean in Xk. apply andb_true_iff in Xk as [Ec Es]. rewrite Ec. destruct (eff_sig F) as [d|] eqn:Es'; [|discriminate].
    rewrite py_eq_str. apply (numkey_text F d (AHalf t) (AInt z') Es'); reflexivity.
  - unfold numclean in Xk. apply andb_true_iff in Xk as [Ec Es]. rewrite Ec. destruct (eff_sig F) as [d|] eqn:Es'; [|discriminate].
    rewrite py_eq_str. apply (numkey_text F d (AHalf t) (AHalf t') Es'); reflexivity.
  - unfold numclean in Xk. apply andb_true_iff in Xk as [Ec Es]. rewrite Ec. destruct (eff_sig F) as [d|] eqn:Es'; [|discriminate].
    destruct (akey_num_shape (AHalf t) eq_refl) as (? & ? & E). rewrite E. cbn [akey].
    rewrite py_eq_str. split; [intros X; exfalso; symmetry in X; revert X; apply Hsn; auto|discriminate].
  - unfold numclean in Xk. apply andb_true_iff in Xk as [Ec Es]. rewrite Ec. destruct (eff_sig F) as [d|] eqn:Es'; [|discriminate].
    destruct (akey_num_shape (AHalf t) eq_refl) as (? & ? & E). rewrite E. cbn [akey andb].
    destruct (o_strty F) eqn:Et; [|split; discriminate].
    rewrite py_eq_str. split; [intros X; exfalso; symmetry in X; revert X; apply Hsn; auto|discriminate].
  (* Str vs _ *)
  - cbn [akey]. split; discriminate.
  - destruct (akey_num_shape (AInt z') eq_refl) as (? & ? & E). rewrite E. cbn [akey].
    destruct (cleaning F) eqn:Ec; [destruct (eff_sig F) as [d|] eqn:Es|]; try (split; discriminate).
    rewrite py_eq_str. split; [intros X; exfalso; revert X; apply Hsn; auto|discriminate].
  - unfold numclean in Xk'. apply andb_true_iff in Xk' as [Ec Es]. rewrite Ec. destruct (eff_sig F) as [d|] eqn:Es'; [|discriminate].
    destruct (akey_num_shape (AHalf t') eq_refl) as (? & ? & E). rewrite E. cbn [akey].
    rewrite py_eq_str. split; [intros X; exfalso; revert X; apply Hsn; auto|discriminate].
  - cbn [akey]. rewrite py_eq_str, KStr_inj. destruct (cleaning F) eqn:Ec; [tauto|].
    destruct (noclean_flags Ec) as (Ecs & _ & _). unfold lowif. rewrite Ecs. tauto.
  - cbn [akey]. rewrite KStr_inj. destruct (cleaning F) eqn:Ec; cbn [andb].
    + destruct (o_strty F); [rewrite py_eq_str; tauto|]. split; [discriminate|intros [X _]; discriminate].
    + destruct (noclean_flags Ec) as (_ & Et & _). rewrite Et. split; [discriminate|intros [X _]; discriminate].
  (* Bytes vs _ *)
  - cbn [akey]. destruct (cleaning F && o_strty F); split; discriminate.
  - destruct (akey_num_shape (AInt z') eq_refl) as (? & ? & E). rewrite E. cbn [akey].
    destruct (cleaning F) eqn:Ec; cbn [andb]; [|split; discriminate].
    destruct (o_strty F) eqn:Et; [|destruct (eff_sig F); split; discriminate].
    destruct (eff_sig F) as [d|] eqn:Es; [|split; discriminate].
    rewrite py_eq_str. split; [intros X; exfalso; revert X; apply Hsn; auto|discriminate].
  - unfold numclean in Xk'. apply andb_true_iff in Xk' as [Ec Es]. rewrite Ec. destruct (eff_sig F) as [d|] eqn:Es'; [|discriminate].
    destruct (akey_num_shape (AHalf t') eq_refl) as (? & ? & E). rewrite E. cbn [akey andb].
    destruct (o_strty F) eqn:Et; [|split; discriminate].
    rewrite py_eq_str. split; [intros X; exfalso; revert X; apply Hsn; auto|discriminate].
  - cbn [akey]. rewrite KStr_inj. destruct (cleaning F) eqn:Ec; cbn [andb].
    + destruct (o_strty F); [rewrite py_eq_str; tauto|]. split; [discriminate|intros [X _]; discriminate].
    + destruct (noclean_flags Ec) as (_ & Et & _). rewrite Et. split; [discriminate|intros [X _]; discriminate].
  - cbn [akey]. rewrite KStr_inj. destruct (cleaning F && o_strty F) eqn:Ecs.
    + apply andb_true_iff in Ecs as [_ Et]. rewrite Et. rewrite py_eq_str. tauto.
    + rewrite py_eq_bytes.
      assert (Hl : forall u, (negb (o_case F && negb (o_strty F)) || pystr_eqb (lower u) u) = true ->
                   cleaning F && o_strty F = false -> o_strty F = true \/ lowif F u = u).
      { intros u Hu Hcs. unfold lowif. destruct (o_case F) eqn:Ec; [|auto]. destruct (o_strty F) eqn:Et; [auto|].
        cbn in Hu. right. apply OptProofsBase.pystr_eqb_eq. exact Hu. }
      destruct (Hl s Xk Ecs) as [Et|Es]; [|destruct (Hl s' Xk' Ecs) as [Et|Es']].
      * exfalso. rewrite Et, andb_true_r in Ecs. unfold cleaning in Ecs. rewrite Et in Ecs. discriminate.
      * exfalso. rewrite Et, andb_true_r in Ecs. unfold cleaning in Ecs. rewrite Et in Ecs. discriminate.
      * rewrite Es, Es'. tauto.
Qed.

Corollary cohkb_cohk k k' : cohkb F k k' = true -> cohk F k k' = true.
Proof.
  unfold cohkb, cohk. intros E. apply andb_true_iff in E as [A B]. apply eqb_of_iff.
  rewrite (key_coh k k' A B). symmetry. apply akey_eqb_spec.
Qed.

End KeyCoh.

(* the guard of the lifted theorem with the per-key checker in place of the relational one *)
Definition lift_guardb (c : cfg) (F : opts) (rep : bool) (t1 t2 : value) : bool :=
  let us := (atoms_of t1 ++ atoms_of t2)%list in
  let ks := (dkeys t1 ++ dkeys t2)%list in
  forallb (fun a => tag_okF F a && ascii_atom a) us &&
  forallb (fun a => forallb (k9_ok F a) us) us &&
  forallb (key_okb F) ks &&
  goodv c F rep t1 && goodv c F rep t2.

Lemma lift_guardb_sound c F rep t1 t2 : lift_guardb c F rep t1 t2 = true -> lift_guard c F rep t1 t2 = true.
Proof.
  unfold lift_guardb, lift_guard. intros G.
  apply andb_true_iff in G as [G G2]. apply andb_true_iff in G as [G G1].
  apply andb_true_iff in G as [G Gk]. rewrite G, G1, G2, !andb_true_r. cbn [andb].
  rewrite forallb_forall in Gk. apply forallb_forall. intros k Hk. apply forallb_forall. intros k' Hk'.
  apply cohkb_cohk. unfold cohkb. rewrite (Gk k Hk), (Gk k' Hk'). reflexivity.
Qed.

Theorem hash_iff_diff_b :
  forall (H : pystr -> pystr),
  (forall s, HashProofsC07.sepfree (H s)) -> (forall s t, H s = H t -> s = t) -> (forall s, lower (H s) = H s) ->
  forall udiff c F rep pairs t1 t2,
  shared F = true -> thr_num c <= thr_den c -> lift_guardb c F rep t1 t2 = true ->
  (hvF H c F rep t1 = hvF H c F rep t2 <-> fst (run_diff_ioF H udiff c F rep pairs t1 t2) = []).
Proof. intros. apply hash_iff_diff; auto. apply lift_guardb_sound. assumption. Qed.

From Coq Require Import List ZArith NArith Bool Arith Permutation.
Import ListNotations.
From DD Require Import Base.PyStr Base.Value Path.PathModel Diff.Tree Diff.DiffModel
  Hash.HashModel DiffIO.DiffIOModel
  Delta.DeltaModel Delta.DeltaRun Delta.DeltaGuard Delta.DeltaGood Delta.DeltaRoundtrip Delta.DeltaChain Delta.DeltaExamples
  Delta.DeltaIO Delta.DeltaIOProofs.
From DD Require Import Diff.NpModel Delta.DeltaNp Delta.DeltaNpProofs.

(* numpy arrays "edited in place": for all well-formed numeric arrays of one shape and dtype (any number
   of dimensions >= 1), directed or bidirectional delta: delta(a, b) + a is b as an array, nothing logged *)
Theorem C01_numpy_roundtrip :
  forall (ops : path -> list value -> list value -> list opcode) (zip bidir : bool) (a b : narr),
    nwf a = true -> nwf b = true -> dtype a = dtype b -> shape a = shape b ->
    apply_np bidir (np_delta ops zip bidir a b) a = (b, 0).
Proof. exact DeltaNpProofs.np_roundtrip. Qed.
Print Assumptions C01_numpy_roundtrip.

(* the diff of such a pair is a values_changed-only payload (representable), with _numpy_paths = b's dtype *)
Theorem C01_numpy_delta_in_model :
  forall (ops : path -> list value -> list value -> list opcode) (zip : bool) (a b : narr),
    nwf a = true -> nwf b = true -> dtype a = dtype b -> shape a = shape b ->
    np_in_model (np_run_diff ops zip a b) = true /\
    (forall bidir : bool, nd_numpy (np_delta ops zip bidir a b) = Some (dtype b)).
Proof. exact DeltaNpProofs.np_delta_in_model. Qed.
Print Assumptions C01_numpy_delta_in_model.

(* exact characterisation on ANY base c of that shape and dtype: c with the positions where a and b differ
   overwritten by b's elements; a bidirectional delta logs one error per overwritten position where c <> a *)
Theorem C01_numpy_patch :
  forall (ops : path -> list value -> list value -> list opcode) (zip bidir : bool) (a b c : narr),
    nwf a = true -> nwf b = true -> nwf c = true ->
    dtype a = dtype b -> shape a = shape b -> dtype c = dtype a -> shape c = shape a ->
    apply_np bidir (np_delta ops zip bidir a b) c
    = (mkArr (dtype c) (shape c) (merge3 (data a) (data b) (data c)),
       if bidir then stale (data a) (data b) (data c) else 0).
Proof. exact DeltaNpProofs.np_patch. Qed.
Print Assumptions C01_numpy_patch.

(* ANY payload (hand-written paths, out-of-range indexes, casts): dtype, shape and well-formedness are kept *)
Theorem C01_numpy_apply_keeps_array :
  forall (bidir : bool) (p : npdelta) (a : narr), nwf a = true ->
    nwf (fst (apply_np bidir p a)) = true /\
    dtype (fst (apply_np bidir p a)) = dtype a /\ shape (fst (apply_np bidir p a)) = shape a.
Proof. exact DeltaNpProofs.apply_np_nwf. Qed.
Print Assumptions C01_numpy_apply_keeps_array.

(* shape a = shape b cannot be dropped: zeros((0,3)) vs zeros((0,2)) has an empty, representable delta *)
Theorem C01_numpy_roundtrip_other_shape_refuted :
  nwf rt_z03 = true /\ nwf rt_z02 = true /\ dtype rt_z03 = dtype rt_z02 /\
  np_in_model (np_run_diff np_no_ops false rt_z03 rt_z02) = true /\
  apply_np false (np_delta np_no_ops false false rt_z03 rt_z02) rt_z03 = (rt_z03, 0) /\ rt_z03 <> rt_z02.
Proof. exact DeltaNpProofs.np_roundtrip_other_shape_refuted. Qed.
Print Assumptions C01_numpy_roundtrip_other_shape_refuted.

(* the hypotheses are satisfiable by a non-trivial 2-d pair *)
Theorem C01_numpy_roundtrip_satisfiable :
  nwf rt_a = true /\ nwf rt_b = true /\ dtype rt_a = dtype rt_b /\ shape rt_a = shape rt_b /\ rt_a <> rt_b /\
  np_delta np_no_ops false true rt_a rt_b
    = mkND [mkNC [0; 1] (AInt 9) (Some (AInt 2)); mkNC [1; 2] (AInt 7) (Some (AInt 6))] (Some DInt64) /\
  apply_np true (np_delta np_no_ops false true rt_a rt_b) rt_a = (rt_b, 0).
Proof. exact DeltaNpProofs.np_roundtrip_satisfiable. Qed.
Print Assumptions C01_numpy_roundtrip_satisfiable.

(** C08, reversal half: structure of [reverse] (_get_reverse_diff).

    - [reverse] is an involution up to the fields it drops ([dnorm]);
    - [apply] reads only part of the payload ([same_payload]);
    - the reverse of the delta built from a list of result-tree entries is,
      for everything [apply] reads, the delta built from the MIRRORED entries
      (old <-> new, t1-path <-> t2-path, added <-> removed, opcodes mirrored)
      with the roles of t1 and t2 exchanged.  Hence  t2 - delta  is  t2 + delta'
      for the forward delta' of the mirrored entries. *)
From Coq Require Import List ZArith NArith Bool Arith Lia.
Import ListNotations.
From DD Require Import Base.PyStr Base.Value Base.ValueFacts Path.PathModel
  Diff.Tree Diff.DiffModel Diff.DiffFacts Diff.DiffFaithful Delta.DeltaModel.

(* ------------------------------------------------------------------ *)
(* generic list lemmas                                                 *)
(* ------------------------------------------------------------------ *)
Lemma flat_map_map' {A B C} (g : A -> B) (f : B -> list C) l :
  flat_map f (map g l) = flat_map (fun x => f (g x)) l.
Proof. induction l as [|x l IH]; cbn; [reflexivity|]. rewrite IH. reflexivity. Qed.

Lemma map_flat_map' {A B C} (f : A -> list B) (h : B -> C) l :
  map h (flat_map f l) = flat_map (fun x => map h (f x)) l.
Proof. induction l as [|x l IH]; cbn; [reflexivity|]. rewrite map_app, IH. reflexivity. Qed.

Lemma flat_map_ext_in {A B} (f g : A -> list B) l :
  (forall x, In x l -> f x = g x) -> flat_map f l = flat_map g l.
Proof.
  induction l as [|x l IH]; cbn; intros H; [reflexivity|].
  rewrite (H x (or_introl eq_refl)), IH; [reflexivity|]. intros y Hy. apply H. right. exact Hy.
Qed.

Lemma fold_left_map' {A B C} (g : A -> B) (f : C -> B -> C) l : forall acc,
  fold_left f (map g l) acc = fold_left (fun a x => f a (g x)) l acc.
Proof. induction l as [|x l IH]; intros acc; cbn; [reflexivity|]. apply IH. Qed.

Lemma fold_left_ext_in {A C} (f g : C -> A -> C) l :
  (forall a x, In x l -> f a x = g a x) -> forall acc, fold_left f l acc = fold_left g l acc.
Proof.
  induction l as [|x l IH]; cbn; intros H acc; [reflexivity|].
  rewrite (H acc x (or_introl eq_refl)). apply IH. intros a y Hy. apply H. right. exact Hy.
Qed.

(* ------------------------------------------------------------------ *)
(* 1. reverse is an involution on what it keeps                        *)
(* ------------------------------------------------------------------ *)
Lemma rev_tag_invol t : rev_tag (rev_tag t) = t.
Proof. destruct t; reflexivity. Qed.

Lemma reverse_bidir d : d_bidir (reverse d) = d_bidir d.
Proof. reflexivity. Qed.

(* what a double reversal forgets: new_path (the reverse key replaces the
   path), a missing old value becomes None / [] *)
Definition vc_norm (c : vchange) : vchange :=
  mkVC (match vc_new_path c with Some q => q | None => vc_path c end) None
       (Some (match vc_old c with Some o => o | None => VAtom ANone end)) (vc_new c).
Definition tc_norm (c : tchange) : tchange :=
  mkTC (match tc_new_path c with Some q => q | None => tc_path c end) None
       (tc_old_ty c) (tc_new_ty c) (tc_old c) (tc_new c).
Definition ov_norm (o : opv) : opv :=
  mkOV (ov_tag o) (ov_i1 o) (ov_i2 o) (ov_j1 o) (ov_j2 o) (ov_new o)
       (Some (match ov_old o with Some l => l | None => [] end)).
Definition dnorm (d : delta) : delta :=
  mkDelta (map vc_norm (d_val d)) (map tc_norm (d_type d))
          (d_dadd d) (d_drem d) (d_iadd d) (d_irem d) (d_moved d) (d_sadd d) (d_srem d)
          (map (fun po => (fst po, map ov_norm (snd po))) (d_ops d)) (d_bidir d).

Theorem reverse_reverse d : reverse (reverse d) = dnorm d.
Proof.
  destruct d as [val type dadd drem iadd irem moved sadd srem ops bidir].
  unfold reverse, dnorm. cbn [d_val d_type d_dadd d_drem d_iadd d_irem d_moved d_sadd d_srem d_ops d_bidir].
  f_equal.
  - rewrite map_map. apply map_ext. intros [p np o n]. reflexivity.
  - rewrite map_map. apply map_ext. intros [p np ot nt o n]. reflexivity.
  - rewrite map_map. rewrite <- (map_id moved) at 2. apply map_ext. intros [[p q] v]. reflexivity.
  - rewrite map_map. apply map_ext. intros [p os]. cbn [fst snd]. f_equal.
    rewrite map_map. apply map_ext. intros [t i1 i2 j1 j2 n o]. unfold ov_norm. cbn. rewrite rev_tag_invol. reflexivity.
Qed.

(* a delta without new_path entries that records all old values is a fixed
   point: reversing twice gives it back exactly *)
Definition vc_clean (c : vchange) : Prop := vc_new_path c = None /\ exists o, vc_old c = Some o.
Definition tc_clean (c : tchange) : Prop := tc_new_path c = None.
Definition ov_clean (o : opv) : Prop := exists l, ov_old o = Some l.
Definition clean (d : delta) : Prop :=
  Forall vc_clean (d_val d) /\ Forall tc_clean (d_type d) /\
  Forall (fun po => Forall ov_clean (snd po)) (d_ops d).

Lemma map_id_in {A} (f : A -> A) l : Forall (fun x => f x = x) l -> map f l = l.
Proof. induction 1 as [|x l Hx _ IH]; cbn; [reflexivity|]. rewrite Hx, IH. reflexivity. Qed.

Theorem reverse_reverse_clean d : clean d -> reverse (reverse d) = d.
Proof.
  intros (Hv & Ht & Ho). rewrite reverse_reverse.
  destruct d as [val type dadd drem iadd irem moved sadd srem ops bidir]. unfold dnorm. cbn in *.
  f_equal.
  - apply map_id_in. eapply Forall_impl; [|exact Hv]. intros [p np o n] [H1 [o' H2]]. cbn in *. subst. reflexivity.
  - apply map_id_in. eapply Forall_impl; [|exact Ht]. intros [p np ot nt o n] H1. unfold tc_clean in H1. cbn in *. subst. reflexivity.
  - apply map_id_in. eapply Forall_impl; [|exact Ho]. intros [p os] H. cbn [fst snd] in *. f_equal.
    apply map_id_in. eapply Forall_impl; [|exact H]. intros [t i1 i2 j1 j2 n o] [l H1]. cbn in *. subst. reflexivity.
Qed.

(* the image of reverse is clean: three reversals are one *)
Lemma reverse_clean d : clean (reverse d).
Proof.
  unfold clean, reverse. cbn [d_val d_type d_ops]. repeat split.
  - apply Forall_forall. intros c Hc. apply in_map_iff in Hc as (c0 & <- & _). split; [reflexivity|eexists; reflexivity].
  - apply Forall_forall. intros c Hc. apply in_map_iff in Hc as (c0 & <- & _). reflexivity.
  - apply Forall_forall. intros po Hpo. apply in_map_iff in Hpo as (po0 & <- & _). cbn [snd].
    apply Forall_forall. intros o Ho. apply in_map_iff in Ho as (o0 & <- & _). eexists; reflexivity.
Qed.

Theorem reverse_thrice d : reverse (reverse (reverse d)) = reverse d.
Proof. apply reverse_reverse_clean. apply reverse_clean. Qed.

(* ------------------------------------------------------------------ *)
(* 2. what apply reads                                                 *)
(* ------------------------------------------------------------------ *)
Definition vc_core (c : vchange) := (vc_path c, vc_old c, vc_new c).
Definition tc_core (c : tchange) := (tc_path c, tc_new_ty c, tc_old c, tc_new c).
Definition ov_core (o : opv) := (ov_tag o, ov_i1 o, ov_i2 o, ov_new o).
Definition ops_core (po : path * list opv) := (fst po, map ov_core (snd po)).

Record same_payload (d d' : delta) : Prop := mkSame {
  sp_val : map vc_core (d_val d) = map vc_core (d_val d');
  sp_type : map tc_core (d_type d) = map tc_core (d_type d');
  sp_dadd : d_dadd d = d_dadd d';
  sp_drem : d_drem d = d_drem d';
  sp_iadd : d_iadd d = d_iadd d';
  sp_irem : d_irem d = d_irem d';
  sp_moved : d_moved d = d_moved d';
  sp_sadd : d_sadd d = d_sadd d';
  sp_srem : d_srem d = d_srem d';
  sp_ops : map ops_core (d_ops d) = map ops_core (d_ops d');
  sp_bidir : d_bidir d = d_bidir d'
}.

Lemma same_payload_refl d : same_payload d d.
Proof. constructor; reflexivity. Qed.

Lemma dnorm_same_payload_types d :
  Forall (fun c => vc_new_path c = None /\ exists o, vc_old c = Some o) (d_val d) ->
  Forall (fun c => tc_new_path c = None) (d_type d) ->
  same_payload (dnorm d) d.
Proof.
  intros Hv Ht. constructor; try reflexivity; unfold dnorm; cbn [d_val d_type d_ops].
  - rewrite map_map. apply map_ext_in. intros c Hc. eapply Forall_forall in Hv; [|exact Hc].
    destruct c as [p np o n], Hv as [H1 [o' H2]]. cbn in *. subst. reflexivity.
  - rewrite map_map. apply map_ext_in. intros c Hc. eapply Forall_forall in Ht; [|exact Hc].
    destruct c as [p np ot nt o n]. cbn in *. subst. reflexivity.
  - rewrite map_map. apply map_ext. intros [p os]. unfold ops_core. cbn [fst snd]. f_equal.
    rewrite map_map. apply map_ext. intros o. reflexivity.
Qed.

Lemma fold_left_core {A B C} (f : C -> A -> C) (g : A -> B) (h : C -> B -> C) :
  (forall s x, f s x = h s (g x)) -> forall l s, fold_left f l s = fold_left h (map g l) s.
Proof.
  intros H. induction l as [|x l IH]; intros s; cbn; [reflexivity|]. rewrite H. apply IH.
Qed.

Lemma do_values_changed_core b l l' s :
  map vc_core l = map vc_core l' -> do_values_changed b l s = do_values_changed b l' s.
Proof.
  intros E. unfold do_values_changed.
  pose (h := fun (s : st) (t : path * option value * value) =>
    match current_at s (fst (fst t)) with
    | Some cur => verify b (snd (fst t)) cur (set_new_value s (fst (fst t)) (snd t))
    | None => err s
    end).
  rewrite (fold_left_core _ vc_core h (fun _ _ => eq_refl) l).
  rewrite (fold_left_core _ vc_core h (fun _ _ => eq_refl) l'). rewrite E. reflexivity.
Qed.

Lemma transformed_core xs os os' : map ov_core os = map ov_core os' -> transformed xs os = transformed xs os'.
Proof.
  revert os'; induction os as [|o os IH]; intros [|o' os'] E; cbn in E; try discriminate; [reflexivity|].
  unfold ov_core in E. injection E as T I1 I2 N E2. unfold transformed in *. cbn [flat_map]. rewrite (IH os' E2).
  rewrite T, I1, I2, N. reflexivity.
Qed.

Lemma upd_ext : forall p v f g, (forall o, f o = g o) -> upd v p f = upd v p g.
Proof.
  induction p as [|k p IH]; intros v f g H; cbn; [apply H|].
  destruct (get_item v (key_atom k)); [|reflexivity]. rewrite (IH _ f g H). reflexivity.
Qed.

Lemma do_opcodes_core l l' s : map ops_core l = map ops_core l' -> do_opcodes l s = do_opcodes l' s.
Proof.
  revert l' s; induction l as [|po l IH]; intros [|po' l'] s E; cbn in E; try discriminate; [reflexivity|].
  unfold ops_core in E. injection E as P O E2. fold ops_core in E2. unfold do_opcodes in *. cbn [fold_left].
  rewrite P.
  rewrite (upd_ext (fst po') (root s) _
             (fun o => match o with
                       | VList xs => Some (VList (transformed xs (snd po')))
                       | VTuple xs => Some (VTuple (transformed xs (snd po')))
                       | _ => None
                       end)).
  - apply IH. exact E2.
  - intros o. destruct o; try reflexivity; rewrite (transformed_core _ _ _ O); reflexivity.
Qed.

Section Payload.
Variable conv : ty -> value -> option value.
Variable rem_order : list (path * value) -> list (path * value).
Variable add_order : list (path * option value) -> list (path * option value).

Lemma do_type_changes_core b l l' s :
  map tc_core l = map tc_core l' -> do_type_changes conv b l s = do_type_changes conv b l' s.
Proof.
  intros E. unfold do_type_changes.
  pose (h := fun (s : st) (t : path * ty * option value * option value) =>
    let '(p, nty, old, new) := t in
    match current_at s p with
    | Some cur =>
        match (match new with Some v => Some v | None => conv nty cur end) with
        | Some nv => verify b old cur (set_new_value s p nv)
        | None => err s
        end
    | None => err s
    end).
  rewrite (fold_left_core _ tc_core h (fun _ _ => eq_refl) l).
  rewrite (fold_left_core _ tc_core h (fun _ _ => eq_refl) l'). rewrite E. reflexivity.
Qed.

(* apply reads neither new_path, old_type, the t2-side opcode indexes nor the
   old values of opcodes *)
Theorem apply_same_payload d d' v :
  same_payload d d' -> apply conv rem_order add_order d v = apply conv rem_order add_order d' v.
Proof.
  intros [H1 H2 H3 H4 H5 H6 H7 H8 H9 H10 H11].
  unfold apply, do_iterable_item_removed, do_iterable_item_added. cbv zeta.
  rewrite H11, H3, H4, H5, H6, H7, H8, H9.
  rewrite (do_values_changed_core _ _ _ _ H1).
  rewrite (do_type_changes_core _ _ _ _ H2).
  rewrite (do_opcodes_core _ _ _ H10).
  reflexivity.
Qed.

Lemma sub_same_payload d d' v :
  same_payload (reverse d) d' -> d_bidir d = true ->
  sub conv rem_order add_order d v = Some (apply conv rem_order add_order d' v).
Proof. intros H B. unfold sub. rewrite B. f_equal. apply apply_same_payload. exact H. Qed.

End Payload.

(* ------------------------------------------------------------------ *)
(* 3. mirrored entries                                                 *)
(* ------------------------------------------------------------------ *)
Definition mirror_kind (k : rkind) : rkind :=
  match k with
  | KDictAdd => KDictRem | KDictRem => KDictAdd
  | KIterAdd => KIterRem | KIterRem => KIterAdd
  | KSetAdd => KSetRem | KSetRem => KSetAdd
  | k => k
  end.
Definition mirror_entry (e : entry) : entry :=
  mkEntry (mirror_kind (ekind e)) (ep2 e) (ep1 e) (et2 e) (et1 e) (ediff e).
Definition mirror_op (o : opcode) : opcode :=
  mkOp (rev_tag (otag o)) (oj1 o) (oj2 o) (oi1 o) (oi2 o).
(* the opcode oracle of the reverse comparison: the mirrored opcodes *)
Definition mirror_ops (ops : path -> list value -> list value -> list opcode)
    (p : path) (ys xs : list value) : list opcode := map mirror_op (ops p xs ys).

Lemma mirror_kind_invol k : mirror_kind (mirror_kind k) = k.
Proof. destruct k; reflexivity. Qed.
Lemma mirror_entry_invol e : mirror_entry (mirror_entry e) = e.
Proof. destruct e as [k p1 p2 a b d]. unfold mirror_entry. cbn. rewrite mirror_kind_invol. reflexivity. Qed.
Lemma mirror_op_invol o : mirror_op (mirror_op o) = o.
Proof. destruct o as [t i1 i2 j1 j2]. unfold mirror_op. cbn. rewrite rev_tag_invol. reflexivity. Qed.

(* what the reversal needs of an entry (all of it holds for the entries of a
   diff, see DeltaReverseDiff): value / type changes whose two paths print the
   same have the same parsed path and a value change has a t2 value; entries
   of the add / remove categories have one path; a moved item is the same
   object at both ends and stays in its container *)
Definition path_guard (e : entry) : Prop :=
  render (ep1 e) = render (ep2 e) -> npath (ep1 e) = npath (ep2 e).
Definition sym_ok (e : entry) : Prop :=
  match ekind e with
  | KValue => path_guard e /\ exists b, et2 e = Some b
  | KType => path_guard e
  | KIterMoved => et1 e = et2 e /\ removelast (ep1 e) = removelast (ep2 e)
  | KRepetition => True
  | _ => ep1 e = ep2 e
  end.

Definition ovv (o : option value) : value := match o with Some v => v | None => VAtom ANone end.

Lemma pystr_eqb_true_iff s t : pystr_eqb s t = true <-> s = t.
Proof. apply pystr_eqb_eq. Qed.

Lemma rev_path_eq e :
  path_guard e ->
  match new_path_opt e with Some q => q | None => npath (ep1 e) end = npath (ep2 e).
Proof.
  intros G. unfold new_path_opt. destruct (pystr_eqb (render (ep1 e)) (render (ep2 e))) eqn:E; [|reflexivity].
  apply G. apply pystr_eqb_eq. exact E.
Qed.

Section Mirror.
Variable conv conv' : ty -> value -> option value.
Variable always : bool.
Variable ops : path -> list value -> list value -> list opcode.
Variables t1 t2 : value.

Lemma opv_mirror xs ys o :
  ov_core (mkOV (rev_tag (ov_tag (opv_of true always xs ys o))) (ov_j1 (opv_of true always xs ys o))
                (ov_j2 (opv_of true always xs ys o)) (ov_i1 (opv_of true always xs ys o))
                (ov_i2 (opv_of true always xs ys o))
                (match ov_old (opv_of true always xs ys o) with Some l => l | None => [] end)
                (Some (ov_new (opv_of true always xs ys o))))
  = ov_core (opv_of true always ys xs (mirror_op o)).
Proof. destruct o as [t i1 i2 j1 j2]. destruct t; reflexivity. Qed.

Theorem reverse_to_delta_mirror es rec :
  Forall sym_ok es ->
  same_payload (reverse (to_delta conv true always ops t1 t2 es rec))
               (to_delta conv' true always (mirror_ops ops) t2 t1 (map mirror_entry es) rec).
Proof.
  intros G. assert (GI : forall e, In e es -> sym_ok e) by (apply Forall_forall; exact G).
  constructor; unfold reverse, to_delta;
    cbn [d_val d_type d_dadd d_drem d_iadd d_irem d_moved d_sadd d_srem d_ops d_bidir orb andb].
  - (* values_changed *)
    rewrite flat_map_map'. rewrite map_map. rewrite !map_flat_map'.
    apply flat_map_ext_in. intros e He. specialize (GI e He). unfold sym_ok in GI.
    unfold mirror_entry at 1. cbn [ekind]. destruct (ekind e); try reflexivity.
    cbn [mirror_kind map]. destruct GI as [PG [b Hb]].
    unfold vc_core. cbn [vc_path vc_old vc_new vc_new_path mirror_entry ep1 ep2 et1 et2].
    rewrite (rev_path_eq e PG), Hb. reflexivity.
  - (* type_changes *)
    rewrite flat_map_map'. rewrite map_map. rewrite !map_flat_map'.
    apply flat_map_ext_in. intros e He. specialize (GI e He). unfold sym_ok in GI.
    unfold mirror_entry at 1. cbn [ekind]. destruct (ekind e); try reflexivity.
    cbn [mirror_kind map].
    unfold tc_core. cbn [tc_path tc_old tc_new tc_new_ty tc_old_ty tc_new_path mirror_entry ep1 ep2 et1 et2].
    rewrite (rev_path_eq e GI). reflexivity.
  - (* dictionary_item_added of the reverse = removed of the forward *)
    rewrite flat_map_map'. apply flat_map_ext_in. intros e He. specialize (GI e He). unfold sym_ok in GI.
    unfold mirror_entry. cbn [ekind ep1 et2]. destruct (ekind e); try reflexivity.
    cbn [mirror_kind]. rewrite GI. reflexivity.
  - rewrite flat_map_map'. apply flat_map_ext_in. intros e He. specialize (GI e He). unfold sym_ok in GI.
    unfold mirror_entry. cbn [ekind ep1 et1]. destruct (ekind e); try reflexivity.
    cbn [mirror_kind]. rewrite GI. reflexivity.
  - (* iterable_item_added of the reverse = removed of the forward *)
    rewrite flat_map_map'. apply flat_map_ext_in. intros e He. specialize (GI e He). unfold sym_ok in GI.
    unfold mirror_entry. cbn [ekind ep1 et2]. destruct (ekind e); try reflexivity.
    cbn [mirror_kind]. rewrite GI. reflexivity.
  - rewrite flat_map_map'. apply flat_map_ext_in. intros e He. specialize (GI e He). unfold sym_ok in GI.
    unfold mirror_entry. cbn [ekind ep1 et1]. destruct (ekind e); try reflexivity.
    cbn [mirror_kind]. rewrite GI. reflexivity.
  - (* iterable_item_moved *)
    rewrite flat_map_map'. rewrite map_flat_map'.
    apply flat_map_ext_in. intros e He. specialize (GI e He). unfold sym_ok in GI.
    unfold mirror_entry. cbn [ekind ep1 ep2 et2]. destruct (ekind e); try reflexivity.
    cbn [mirror_kind]. destruct GI as [EV EP]. rewrite EP, EV.
    destruct (in_paths (removelast (ep2 e)) rec); reflexivity.
  - (* set_item_added of the reverse = removed of the forward *)
    rewrite fold_left_map'. apply fold_left_ext_in. intros acc e He. specialize (GI e He). unfold sym_ok in GI.
    unfold mirror_entry. cbn [ekind ep1 et2]. destruct (ekind e); try reflexivity.
    cbn [mirror_kind]. rewrite GI. reflexivity.
  - rewrite fold_left_map'. apply fold_left_ext_in. intros acc e He. specialize (GI e He). unfold sym_ok in GI.
    unfold mirror_entry. cbn [ekind ep1 et1]. destruct (ekind e); try reflexivity.
    cbn [mirror_kind]. rewrite GI. reflexivity.
  - (* opcodes *)
    rewrite !map_map. apply map_ext. intros p. unfold ops_core. cbn [fst snd]. f_equal.
    unfold mirror_ops. rewrite !map_map. apply map_ext. intros o. apply opv_mirror.
  - reflexivity.
Qed.

End Mirror.

(* t2 - delta is t2 + (the forward delta of the mirrored entries) *)
Theorem sub_is_add_of_mirror conv conv' ro ao always ops t1 t2 es rec v :
  Forall sym_ok es ->
  sub conv ro ao (to_delta conv' true always ops t1 t2 es rec) v =
  Some (apply conv ro ao (to_delta conv' true always (mirror_ops ops) t2 t1 (map mirror_entry es) rec) v).
Proof.
  intros G. apply sub_same_payload; [|reflexivity].
  apply reverse_to_delta_mirror. exact G.
Qed.

(* a directed delta *)
Lemma to_delta_bidir conv b always ops t1 t2 es rec :
  d_bidir (to_delta conv b always ops t1 t2 es rec) = b.
Proof. reflexivity. Qed.

Theorem directed_refuses_sub conv ro ao d v : d_bidir d = false -> sub conv ro ao d v = None.
Proof. intros H. unfold sub. rewrite H. reflexivity. Qed.

Theorem bidir_sub_defined conv ro ao d v :
  d_bidir d = true -> sub conv ro ao d v = Some (apply conv ro ao (reverse d) v).
Proof. intros H. unfold sub. rewrite H. reflexivity. Qed.

(** C08: t2 - delta = t1 (up to dict / set order) in DEFAULT mode (difflib
    alignment of all-atom lists, recorded opcodes, moved items), for all payload
    categories, when mutual_add_removes_to_become_value_changes changes nothing
    (no list index is both removed and added: [no_clash]).  Same route as the
    positional theorem (DeltaReverseZip.v), with the mirrored opcode oracle. *)
From Coq Require Import List ZArith NArith Bool Arith Lia Permutation.
Import ListNotations.
From DD Require Import Base.PyStr Base.Value Base.ValueFacts Path.PathModel
  Diff.Tree Diff.DiffModel Diff.DiffFacts Diff.DiffFaithful
  Delta.DeltaModel Delta.DeltaEntries Delta.DeltaGuard Delta.DeltaRun Delta.DeltaGood Delta.DeltaRoundtrip
  Delta.DeltaVerify Delta.DeltaReverse Delta.DeltaReverseDiff
  Delta.DeltaReverseKinds Delta.DeltaReverseSym Delta.DeltaReverseSymD Delta.DeltaReverseZip.

(* ---- mirrored opcodes are valid opcodes of the swapped lists ---- *)
Lemma tiles_mirror os : forall i j n m, tiles os i j n m -> tiles (map mirror_op os) j i m n.
Proof.
  induction os as [|o os IH]; intros i j n m H; cbn in *; [tauto|].
  destruct H as (H1 & H2 & H3 & H4 & H5). repeat split; try assumption. apply IH. exact H5.
Qed.

Lemma Forall2_sym {A} (R : A -> A -> Prop) l l' : (forall x y, R x y -> R y x) -> Forall2 R l l' -> Forall2 R l' l.
Proof. intros S H. induction H; constructor; auto. Qed.

Lemma block_ok_mirror xs ys o : block_ok xs ys o -> block_ok ys xs (mirror_op o).
Proof.
  unfold block_ok. destruct o as [t i1 i2 j1 j2]. cbn [mirror_op otag oi1 oi2 oj1 oj2]. destruct t; cbn [rev_tag]; intros H.
  - destruct H as [H1 H2]. split; [lia|]. apply Forall2_sym; [|exact H2].
    intros x y E. rewrite py_eq_leaf_sym. exact E.
  - tauto.
  - tauto.
  - tauto.
Qed.

Lemma valid_ops_mirror xs ys os : valid_ops xs ys os -> valid_ops ys xs (map mirror_op os).
Proof.
  intros [T B]. split; [apply tiles_mirror; exact T|].
  apply Forall_forall. intros o Ho. apply in_map_iff in Ho as (o0 & <- & H0).
  apply block_ok_mirror. eapply Forall_forall in B; eassumption.
Qed.

(* ---- moved items are atoms of the inputs ---- *)
Definition moved_atoms (K1 K2 : list atom) (e : entry) : Prop :=
  ekind e = KIterMoved ->
  exists x y, et1 e = Some (VAtom x) /\ et2 e = Some (VAtom y) /\ py_eq x y = true /\ In x K1 /\ In y K2.

Section Moved.
Variable hatom : atom -> pystr.
Variable udiff : pystr -> pystr -> pystr.
Variable ops : path -> list value -> list value -> list opcode.
Variable skip excl : path -> bool.
Variable c : cfg.
Variables K1 K2 : list atom.
Notation diff := (diff hatom udiff ops skip excl c).
Notation MA := (Forall (moved_atoms K1 K2)).

Lemma MA_report k p1 p2 a b d : k <> KIterMoved -> MA (report skip k p1 p2 a b d).
Proof. intros N. unfold report. destruct (skip p1); constructor; [intros K; cbn in K; congruence|constructor]. Qed.

Lemma MA_diff_atom a b p1 p2 : MA (diff_atom udiff skip a b p1 p2).
Proof.
  unfold diff_atom. destruct (skip p1); [constructor|].
  destruct (negb _); [apply MA_report; discriminate|].
  destruct a, b; try (destruct (py_eq _ _); [constructor|apply MA_report; discriminate]).
  - destruct (diff_str udiff false s s0) as [ch d]. destruct ch; [apply MA_report; discriminate|constructor].
  - destruct (diff_str udiff true s s0) as [ch d]. destruct ch; [apply MA_report; discriminate|constructor].
Qed.

Lemma MA_removed_from xs i p1 p2 : MA (removed_from skip xs i p1 p2).
Proof. revert i; induction xs as [|x xs IH]; intros i; cbn; [constructor|]. apply Forall_app; split; [apply MA_report; discriminate|apply IH]. Qed.
Lemma MA_added_from ys j p1 p2 : MA (added_from skip ys j p1 p2).
Proof. revert j; induction ys as [|y ys IH]; intros j; cbn; [constructor|]. apply Forall_app; split; [apply MA_report; discriminate|apply IH]. Qed.

Lemma MA_pairs_leaf xs : forall ys i j p1 p2,
  (forall x, In (VAtom x) xs -> In x K1) -> (forall y, In (VAtom y) ys -> In y K2) ->
  MA (pairs_leaf udiff skip xs ys i j p1 p2).
Proof.
  induction xs as [|x xs IH]; intros ys i j p1 p2 H1 H2.
  - cbn. destruct ys; apply MA_added_from.
  - destruct ys as [|y ys]; [apply MA_removed_from|].
    cbn [pairs_leaf]. apply Forall_app; split.
    + destruct (negb (i =? j) && py_eq_leaf x y) eqn:E.
      * apply andb_true_iff in E as [_ E]. unfold report. destruct (skip _); constructor; [|constructor].
        intros _. destruct x as [ax| | | | |], y as [ay| | | | |]; cbn in E; try discriminate.
        exists ax, ay. cbn. repeat split; try reflexivity; try exact E; [apply H1|apply H2]; left; reflexivity.
      * unfold diff_leaf. destruct x, y; try constructor. apply MA_diff_atom.
    + apply IH; [intros z Hz; apply H1; right; exact Hz|intros z Hz; apply H2; right; exact Hz].
Qed.

Lemma in_firstn' {A} (l : list A) n x : In x (firstn n l) -> In x l.
Proof. revert l; induction n as [|n IH]; intros [|y l] H; cbn in *; try tauto. destruct H as [H|H]; [left; exact H|right; apply IH; exact H]. Qed.
Lemma in_skipn' {A} (l : list A) n x : In x (skipn n l) -> In x l.
Proof. revert l; induction n as [|n IH]; intros [|y l] H; cbn in *; try tauto. right. apply IH. exact H. Qed.
Lemma In_slice {A} (l : list A) a b x : In x (slice l a b) -> In x l.
Proof. unfold slice. intros H. apply (in_skipn' l a). eapply in_firstn'. exact H. Qed.

Lemma MA_by_opcodes os xs ys p1 p2 :
  (forall x, In (VAtom x) xs -> In x K1) -> (forall y, In (VAtom y) ys -> In y K2) ->
  MA (by_opcodes udiff skip os xs ys p1 p2).
Proof.
  intros H1 H2. unfold by_opcodes. induction os as [|o os IH]; cbn; [constructor|].
  apply Forall_app; split; [|exact IH].
  destruct (otag o); [constructor| |apply MA_removed_from|apply MA_added_from].
  apply MA_pairs_leaf; intros z Hz; [apply H1|apply H2]; eapply In_slice; exact Hz.
Qed.

Definition IHM (t1 : value) : Prop :=
  forall t2 p1 p2, incl (atoms_of t1) K1 -> incl (atoms_of t2) K2 -> MA (fst (diff t1 t2 p1 p2)).

Lemma atoms_list_in x xs : In (VAtom x) xs -> In x (flat_map atoms_of xs).
Proof. intros H. apply in_flat_map. exists (VAtom x). split; [exact H|left; reflexivity]. Qed.

Lemma M_go_list xs : Forall IHM xs -> forall ys i p1 p2,
  incl (flat_map atoms_of xs) K1 -> incl (flat_map atoms_of ys) K2 ->
  MA (fst (go_list skip diff p1 p2 xs ys i)).
Proof.
  induction 1 as [|x xs Hx _ IH]; intros ys i p1 p2 I1 I2.
  - cbn. apply MA_added_from.
  - destruct ys as [|y ys]; [cbn [go_list fst]; apply MA_removed_from|].
    cbn [go_list]. unfold app2. cbn [fst]. cbn [flat_map] in I1, I2. apply Forall_app; split.
    + apply Hx; intros a Ha; [apply I1|apply I2]; apply in_or_app; left; exact Ha.
    + apply IH; intros a Ha; [apply I1|apply I2]; apply in_or_app; right; exact Ha.
Qed.

Lemma M_seq_body xs ys p1 p2 : Forall IHM xs ->
  incl (flat_map atoms_of xs) K1 -> incl (flat_map atoms_of ys) K2 ->
  MA (fst (seq_body hatom udiff ops skip excl c xs ys p1 p2)).
Proof.
  intros IH I1 I2. unfold seq_body. destruct (negb (zip c) && forallb is_atom xs && forallb is_atom ys).
  - assert (P : MA (fst (default_leaf_list udiff ops skip xs ys p1 p2))).
    { unfold default_leaf_list.
      assert (A1 : forall x, In (VAtom x) xs -> In x K1) by (intros x Hx; apply I1; apply atoms_list_in; exact Hx).
      assert (A2 : forall y, In (VAtom y) ys -> In y K2) by (intros y Hy; apply I2; apply atoms_list_in; exact Hy).
      destruct (1 <? _); [|apply MA_by_opcodes; assumption].
      destruct (_ <=? _); [apply MA_pairs_leaf|apply MA_by_opcodes]; assumption. }
    destruct (default_leaf_list udiff ops skip xs ys p1 p2) as [es rec]. exact P.
  - apply M_go_list; assumption.
Qed.

Lemma M_go_common kvs2 k2 p1 p2 l : Forall (fun kv => IHM (snd kv)) l ->
  incl (atoms_of (VDict l)) K1 -> incl (atoms_of (VDict kvs2)) K2 ->
  MA (fst (go_common c diff kvs2 k2 p1 p2 l)).
Proof.
  intros HI. induction HI as [|[k v1] l Hk _ IH]; intros I1 I2; cbn [go_common]; [constructor|].
  assert (I1' : incl (atoms_of (VDict l)) K1).
  { intros a Ha. apply I1. cbn in Ha |- *. right. apply in_or_app. right. exact Ha. }
  specialize (IH I1' I2).
  destruct (keep_key c k); [|exact IH].
  destruct (find (py_eq k) k2) as [k'|]; [|exact IH].
  destruct (assoc k' kvs2) as [v2|] eqn:A2; [|exact IH].
  unfold app2. cbn [fst]. apply Forall_app; split; [|exact IH].
  cbn [snd] in Hk. apply Hk.
  - intros a Ha. apply I1. cbn. right. apply in_or_app. left. exact Ha.
  - apply assoc_In in A2 as (k'' & Hin2 & _). intros a Ha. apply I2. cbn. apply in_flat_map.
    exists (k'', v2). split; [exact Hin2|right; exact Ha].
Qed.

Theorem diff_moved_atoms : forall t1, IHM t1.
Proof.
  induction t1 as [a|xs IH|xs IH|kvs IH|xs|xs] using value_ind'; intros t2 p1 p2 I1 I2;
    (destruct (skip p1) eqn:Hs; [rewrite diff_skip by exact Hs; constructor|]);
    (match goal with |- context [diff ?t1 t2 _ _] => destruct (ty_eqb (type_of t1) (type_of t2)) eqn:T end;
     [|rewrite diff_type by assumption; cbn [fst]; apply MA_report; discriminate]);
    apply ty_eqb_true in T; destruct t2; try discriminate T; try (destruct a; discriminate T).
  - rewrite diff_atom_eq by exact Hs. destruct (negb _); cbn [fst]; [apply MA_report; discriminate|apply MA_diff_atom].
  - rewrite diff_list by exact Hs. apply M_seq_body; assumption.
  - rewrite diff_tuple by exact Hs. apply M_seq_body; assumption.
  - rewrite diff_dict by exact Hs. unfold dict_body. destruct (dict_shortcut _ _ _ _ _); cbn [fst]; [apply MA_report; discriminate|].
    apply Forall_app; split; [|apply Forall_app; split; [|apply M_go_common; assumption]].
    + apply Forall_forall. intros e He. apply in_flat_map in He as (k & _ & He). destruct (mem_atom k _); [destruct He|].
      pose proof (MA_report KDictAdd (snoc p1 (PKey k)) (snoc p2 (PKey k)) None (assoc k kvs0) None) as F.
      eapply Forall_forall in F; [exact F|discriminate|exact He].
    + apply Forall_forall. intros e He. apply in_flat_map in He as (k & _ & He). destruct (mem_atom k _); [destruct He|].
      pose proof (MA_report KDictRem (snoc p1 (PKey k)) (snoc p2 (PKey k)) (assoc k kvs) None None) as F.
      eapply Forall_forall in F; [exact F|discriminate|exact He].
  - rewrite diff_vset by exact Hs. cbn [fst]. unfold diff_set. apply Forall_app; split; apply Forall_forall; intros e He;
      apply in_flat_map in He as (y & _ & He); (destruct (existsb _ _); [destruct He|]);
      unfold report_set in He; (destruct (skip p1); [destruct He|]); destruct He as [<-|[]]; intros K; discriminate K.
  - rewrite diff_vfrozen by exact Hs. cbn [fst]. unfold diff_set. apply Forall_app; split; apply Forall_forall; intros e He;
      apply in_flat_map in He as (y & _ & He); (destruct (existsb _ _); [destruct He|]);
      unfold report_set in He; (destruct (skip p1); [destruct He|]); destruct He as [<-|[]]; intros K; discriminate K.
Qed.

End Moved.

(* no list index is both removed and added: mutual_add_removes changes nothing *)
Definition no_clash (es : list entry) : Prop :=
  forall a r, In a es -> In r es -> ekind a = KIterAdd -> ekind r = KIterRem -> ep1 a <> ep1 r.

Lemma ksub_In k es x : In x es -> ekind x = k -> In (strip x) (ksub k es).
Proof.
  intros H K. unfold ksub. apply in_map. apply filter_In. split; [exact H|]. rewrite <- K. apply is_kind_refl.
Qed.
Lemma ksub_In_inv k es s : In s (ksub k es) -> exists x, In x es /\ ekind x = k /\ strip x = s.
Proof.
  unfold ksub. intros H. apply in_map_iff in H as (x & E & Hx). apply filter_In in Hx as [Hx K].
  exists x. split; [exact Hx|]. split; [apply is_kind_true; exact K|exact E].
Qed.

Lemma no_clash_keq es es' :
  keq es' (map mirror_entry es) ->
  (forall e, In e es -> ekind e = KIterAdd \/ ekind e = KIterRem -> ep1 e = ep2 e) ->
  no_clash es -> no_clash es'.
Proof.
  intros KE HP NC a' r' Ha' Hr' Ka' Kr' E.
  pose proof (ksub_In KIterAdd es' a' Ha' Ka') as Sa. rewrite (KE KIterAdd), ksub_mirror in Sa. cbn [mirror_kind] in Sa.
  apply in_map_iff in Sa as (sr & Er & Hsr). apply ksub_In_inv in Hsr as (r & Hr & Kr & <-).
  pose proof (ksub_In KIterRem es' r' Hr' Kr') as Sr. rewrite (KE KIterRem), ksub_mirror in Sr. cbn [mirror_kind] in Sr.
  apply in_map_iff in Sr as (sa & Ea & Hsa). apply ksub_In_inv in Hsa as (a & Ha & Ka & <-).
  apply (NC a r Ha Hr Ka Kr).
  assert (E1 : ep1 a' = ep2 r) by (apply (f_equal ep1) in Er; cbn in Er; symmetry; exact Er).
  assert (E2 : ep1 r' = ep2 a) by (apply (f_equal ep1) in Ea; cbn in Ea; symmetry; exact Ea).
  rewrite (HP a Ha (or_introl Ka)), (HP r Hr (or_intror Kr)), <- E1, <- E2. symmetry. exact E.
Qed.

Section Default.
Variable hatom : atom -> pystr.
Variable udiff : pystr -> pystr -> pystr.
Variable ops : path -> list value -> list value -> list opcode.
Variable c : cfg.
Variable conv : ty -> value -> option value.
Variable always : bool.
Hypothesis Hthr : thr_num c <= thr_den c.
Hypothesis Hinj : forall a b, hatom a = hatom b -> a = b.
Hypothesis Hconv : forall ty0 v v', conv ty0 v = Some v' -> type_of v' = ty0.
Variable ro : list (path * value) -> list (path * value).
Variable ao : list (path * option value) -> list (path * option value).
Hypothesis Hro : ro_ok ro.
Hypothesis Hao : ao_ok ao.
Hypothesis Hops : forall p xs ys, forallb is_atom xs = true -> forallb is_atom ys = true ->
                                  valid_ops xs ys (ops p xs ys).
Variables t1 t2 : value.
Hypothesis G21 : guards c conv true always t2 t1.
Hypothesis KO : korder t1 t2.

Notation nos := DeltaReverseSym.nos.
Let esf := fst (diff hatom udiff ops nos nos c t1 t2 [] []).
Hypothesis NC : no_clash esf.

Let r := run_diff hatom udiff ops nos nos c t1 t2.
Let d := to_delta conv true always ops t1 t2 (fst r) (snd r).

Theorem default_sub_inverts :
  exists t1', sub conv ro ao d t2 = Some (t1', 0) /\ veqb t1' t1 = true.
Proof.
  pose proof G21 as (W2 & W1 & AF & _ & NP).
  assert (AF' : alias_free (atoms_of t1 ++ atoms_of t2)).
  { eapply alias_free_sub; [|exact AF]. intros a Ha. rewrite in_app_iff in *. tauto. }
  (* the forward tree: mutual is the identity *)
  assert (Er : r = (esf, snd (diff hatom udiff ops nos nos c t1 t2 [] []))).
  { unfold r, run_diff, esf. destruct (diff hatom udiff ops nos nos c t1 t2 [] []) as [es rec]. cbn [fst snd] in *.
    rewrite mutual_id; [reflexivity|]. intros a x Ha Hx Ka Kx. apply NC; assumption. }
  set (recf := snd (diff hatom udiff ops nos nos c t1 t2 [] [])) in *.
  (* moved items are identical at both ends *)
  assert (MI : moved_identical (fst r)).
  { rewrite Er. cbn [fst]. apply Forall_forall. intros e He K.
    pose proof (diff_moved_atoms hatom udiff ops nos nos c (atoms_of t1) (atoms_of t2) t1 t2 [] []
                  (fun a H => H) (fun a H => H)) as MA.
    eapply Forall_forall in MA; [|exact He]. destruct (MA K) as (x & y & E1 & E2 & Pe & Hx & Hy).
    rewrite E1, E2. f_equal. f_equal. apply AF'; [apply in_or_app; left; exact Hx|apply in_or_app; right; exact Hy|exact Pe]. }
  assert (SO : Forall sym_ok (fst r)) by (apply run_diff_sym_ok; assumption).
  unfold d. rewrite (sub_is_add_of_mirror conv conv ro ao always ops t1 t2 (fst r) (snd r) t2 SO).
  rewrite Er. cbn [fst snd].
  (* the reverse tree *)
  assert (SG : sg c t1 t2).
  { split; [exact W1|]. split; [exact W2|]. split; [exact AF'|].
    assert (AK : forall v, nopriv v = true \/ ignore_private c = false -> allkeep c v = true)
      by (intros v [H|H]; [apply allkeep_nopriv; exact H|apply allkeep_flag; exact H]).
    destruct NP as [NP|[NP2 NP1]]; (split; [apply AK; tauto|split; [apply AK; tauto|exact KO]]). }
  destruct (diff_sym2 hatom udiff ops c t1 t2 [] SG) as [KE RE].
  set (esr := fst (diff hatom udiff (mirror_ops ops) nos nos c t2 t1 [] [])) in *.
  assert (NCr : no_clash esr).
  { apply (no_clash_keq esf esr KE); [|exact NC].
    intros e He Ke.
    pose proof (diff_faithful hatom udiff ops nos nos c t1 t2 Hthr t1 t2 [] [] eq_refl W1 W2 eq_refl eq_refl) as HF.
    eapply Forall_forall in HF; [|exact He]. unfold faithful in HF.
    destruct Ke as [Ke|Ke]; rewrite Ke in HF; [destruct HF as (b & _ & _ & _ & E)|destruct HF as (a & _ & _ & _ & E)]; exact E. }
  assert (Er' : run_diff hatom udiff (mirror_ops ops) nos nos c t2 t1 = (esr, recf)).
  { unfold run_diff, esr, recf. rewrite <- RE.
    destruct (diff hatom udiff (mirror_ops ops) nos nos c t2 t1 [] []) as [es rec]. cbn [fst snd] in *.
    rewrite mutual_id; [reflexivity|]. intros a x Ha Hx Ka Kx. apply NCr; assumption. }
  rewrite <- (to_delta_keq conv true always (mirror_ops ops) t2 t1 esr (map mirror_entry esf) recf KE).
  (* C01 at (t2, t1) with the mirrored oracle *)
  assert (Hops' : forall p xs ys, forallb is_atom xs = true -> forallb is_atom ys = true ->
                                  valid_ops xs ys (mirror_ops ops p xs ys)).
  { intros p xs ys Ax Ay. unfold mirror_ops. apply valid_ops_mirror. apply Hops; assumption. }
  destruct (roundtrip hatom udiff (mirror_ops ops) c conv true always Hinj Hconv ro ao t2 t1 Hops' Hro Hao G21) as (t1' & A & V).
  change DeltaGood.nos with nos in A. rewrite Er' in A. cbn [fst snd] in A.
  exists t1'. split; [rewrite A; reflexivity|exact V].
Qed.

End Default.

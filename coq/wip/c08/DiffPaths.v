(** General facts about the paths reported by the ordered-diff model, for all
    inputs, all oracles and both alignment modes:

    (b) [diff_path_keys] / [run_diff_path_keys]: every dict subscript in the two
        paths of a reported level and in a recorded-opcode path is a dict key
        of t1 or t2 (all other path elements are sequence indexes);
        [run_diff_rec_resolve]: a recorded-opcode path resolves in both inputs
        to a list / tuple;  [run_diff_entry_resolves]: which of the two paths
        of an entry resolves where (corollary of C04, DiffFaithful.v);
    (a) [run_diff_paths_distinct]: within each report kind the normalised t1
        paths of the entries are pairwise distinct, and so are the recorded
        opcode paths ([run_diff_rec_distinct]). *)
From Coq Require Import List ZArith NArith Bool Arith Lia.
Import ListNotations.
From DD Require Import Base.PyStr Base.Value Base.ValueFacts Path.PathModel
  Diff.Tree Diff.DiffModel Diff.DiffFacts Diff.DiffFaithful.

(* ------------------------------------------------------------------ *)
(* (b1) dict subscripts of reported paths are dict keys of the inputs  *)
(* ------------------------------------------------------------------ *)
(* every dict key, at any depth *)
Fixpoint dkeys (v : value) : list atom :=
  match v with
  | VAtom _ | VSet _ | VFrozen _ => []
  | VList xs | VTuple xs => flat_map dkeys xs
  | VDict kvs => flat_map (fun kv => fst kv :: dkeys (snd kv)) kvs
  end.

Definition keys_from (K : list atom) (p : path) : Prop :=
  Forall (fun k => match k with PKey a => In a K | PIdx _ => True end) p.

Lemma keys_from_snoc_idx K p i : keys_from K p -> keys_from K (snoc p (PIdx i)).
Proof. intros H. apply Forall_app. split; [exact H|constructor; [exact I|constructor]]. Qed.
Lemma keys_from_snoc_key K p a : keys_from K p -> In a K -> keys_from K (snoc p (PKey a)).
Proof. intros H Ha. apply Forall_app. split; [exact H|constructor; [exact Ha|constructor]]. Qed.

Definition ekeys (K : list atom) (e : entry) : Prop := keys_from K (ep1 e) /\ keys_from K (ep2 e).

Lemma dkeys_list_in x xs : In x xs -> incl (dkeys x) (flat_map dkeys xs).
Proof. intros H a Ha. apply in_flat_map. exists x. split; assumption. Qed.
Lemma dkeys_dict_key k v (kvs : list (atom * value)) : In (k, v) kvs -> In k (dkeys (VDict kvs)).
Proof. intros H. cbn. apply in_flat_map. exists (k, v). split; [exact H|left; reflexivity]. Qed.
Lemma dkeys_dict_val k v (kvs : list (atom * value)) : In (k, v) kvs -> incl (dkeys v) (dkeys (VDict kvs)).
Proof. intros H a Ha. cbn. apply in_flat_map. exists (k, v). split; [exact H|right; exact Ha]. Qed.

Section PathKeys.
Variable hatom : atom -> pystr.
Variable udiff : pystr -> pystr -> pystr.
Variable ops : path -> list value -> list value -> list opcode.
Variable skip excl : path -> bool.
Variable c : cfg.
Variable K : list atom.
Notation diff := (diff hatom udiff ops skip excl c).
Notation EK := (Forall (ekeys K)).

Lemma EK_report k p1 p2 a b d : keys_from K p1 -> keys_from K p2 -> EK (report skip k p1 p2 a b d).
Proof. intros H1 H2. unfold report. destruct (skip p1); constructor; [split; assumption|constructor]. Qed.

Lemma EK_diff_atom a b p1 p2 : keys_from K p1 -> keys_from K p2 -> EK (diff_atom udiff skip a b p1 p2).
Proof.
  intros H1 H2. unfold diff_atom. destruct (skip p1); [constructor|].
  destruct (negb _); [apply EK_report; assumption|].
  destruct a, b; try (destruct (py_eq _ _); [constructor|apply EK_report; assumption]).
  - destruct (diff_str udiff false s s0) as [ch d]. destruct ch; [apply EK_report; assumption|constructor].
  - destruct (diff_str udiff true s s0) as [ch d]. destruct ch; [apply EK_report; assumption|constructor].
Qed.

Lemma EK_removed_from xs i p1 p2 : keys_from K p1 -> keys_from K p2 -> EK (removed_from skip xs i p1 p2).
Proof.
  intros H1 H2. revert i; induction xs as [|x xs IH]; intros i; cbn; [constructor|].
  apply Forall_app; split; [apply EK_report; apply keys_from_snoc_idx; assumption|apply IH].
Qed.
Lemma EK_added_from ys j p1 p2 : keys_from K p1 -> keys_from K p2 -> EK (added_from skip ys j p1 p2).
Proof.
  intros H1 H2. revert j; induction ys as [|y ys IH]; intros j; cbn; [constructor|].
  apply Forall_app; split; [apply EK_report; apply keys_from_snoc_idx; assumption|apply IH].
Qed.

Lemma EK_pairs_leaf xs ys i j p1 p2 : keys_from K p1 -> keys_from K p2 ->
  EK (pairs_leaf udiff skip xs ys i j p1 p2).
Proof.
  intros H1 H2. revert ys i j; induction xs as [|x xs IH]; intros ys i j.
  - cbn. destruct ys; apply EK_added_from; assumption.
  - destruct ys as [|y ys]; [apply EK_removed_from; assumption|].
    cbn [pairs_leaf]. apply Forall_app; split; [|apply IH].
    destruct (negb (i =? j) && py_eq_leaf x y).
    + apply EK_report; apply keys_from_snoc_idx; assumption.
    + unfold diff_leaf. destruct x, y; try constructor. apply EK_diff_atom; apply keys_from_snoc_idx; assumption.
Qed.

Lemma EK_by_opcodes os xs ys p1 p2 : keys_from K p1 -> keys_from K p2 -> EK (by_opcodes udiff skip os xs ys p1 p2).
Proof.
  intros H1 H2. unfold by_opcodes. induction os as [|o os IH]; cbn; [constructor|].
  apply Forall_app; split; [|exact IH].
  destruct (otag o); [constructor|apply EK_pairs_leaf|apply EK_removed_from|apply EK_added_from]; assumption.
Qed.

Lemma EK_default_leaf_list xs ys p1 p2 : keys_from K p1 -> keys_from K p2 ->
  EK (fst (default_leaf_list udiff ops skip xs ys p1 p2)).
Proof.
  intros H1 H2. unfold default_leaf_list. destruct (1 <? _); [|apply EK_by_opcodes; assumption].
  destruct (_ <=? _); [apply EK_pairs_leaf|apply EK_by_opcodes]; assumption.
Qed.

Lemma EK_diff_set xs ys p1 p2 : keys_from K p1 -> keys_from K p2 -> EK (diff_set hatom skip xs ys p1 p2).
Proof.
  intros H1 H2. unfold diff_set. apply Forall_app; split; apply Forall_forall; intros e He;
    apply in_flat_map in He as (y & _ & He); (destruct (existsb _ _); [destruct He|]);
    unfold report_set in He; (destruct (skip p1); [destruct He|]); destruct He as [<-|[]]; split; assumption.
Qed.

Definition IHK (t1 : value) : Prop :=
  forall t2 p1 p2, keys_from K p1 -> keys_from K p2 -> incl (dkeys t1) K -> incl (dkeys t2) K ->
    EK (fst (diff t1 t2 p1 p2)) /\ Forall (keys_from K) (snd (diff t1 t2 p1 p2)).

Lemma K_go_list xs : Forall IHK xs -> forall ys i p1 p2,
  keys_from K p1 -> keys_from K p2 -> incl (flat_map dkeys xs) K -> incl (flat_map dkeys ys) K ->
  EK (fst (go_list skip diff p1 p2 xs ys i)) /\ Forall (keys_from K) (snd (go_list skip diff p1 p2 xs ys i)).
Proof.
  induction 1 as [|x xs Hx _ IH]; intros ys i p1 p2 H1 H2 I1 I2.
  - cbn. split; [apply EK_added_from; assumption|constructor].
  - destruct ys as [|y ys]; [cbn [go_list fst snd]; split; [apply EK_removed_from; assumption|constructor]|].
    cbn [go_list]. unfold app2. cbn [fst snd]. cbn [flat_map] in I1, I2.
    assert (Ix : incl (dkeys x) K) by (intros a Ha; apply I1; apply in_or_app; left; exact Ha).
    assert (Iy : incl (dkeys y) K) by (intros a Ha; apply I2; apply in_or_app; left; exact Ha).
    assert (Ixs : incl (flat_map dkeys xs) K) by (intros a Ha; apply I1; apply in_or_app; right; exact Ha).
    assert (Iys : incl (flat_map dkeys ys) K) by (intros a Ha; apply I2; apply in_or_app; right; exact Ha).
    destruct (Hx y (snoc p1 (PIdx i)) (snoc p2 (PIdx i)) (keys_from_snoc_idx K p1 i H1) (keys_from_snoc_idx K p2 i H2) Ix Iy) as [A1 B1].
    destruct (IH ys (S i) p1 p2 H1 H2 Ixs Iys) as [A2 B2].
    split; apply Forall_app; split; assumption.
Qed.

Lemma K_seq_body xs ys p1 p2 : Forall IHK xs ->
  keys_from K p1 -> keys_from K p2 -> incl (flat_map dkeys xs) K -> incl (flat_map dkeys ys) K ->
  EK (fst (seq_body hatom udiff ops skip excl c xs ys p1 p2)) /\
  Forall (keys_from K) (snd (seq_body hatom udiff ops skip excl c xs ys p1 p2)).
Proof.
  intros IH H1 H2 I1 I2. unfold seq_body.
  destruct (negb (zip c) && forallb is_atom xs && forallb is_atom ys).
  - pose proof (EK_default_leaf_list xs ys p1 p2 H1 H2) as P.
    destruct (default_leaf_list udiff ops skip xs ys p1 p2) as [es rec]. cbn [fst snd] in *.
    split; [exact P|]. destruct rec; [constructor; [exact H1|constructor]|constructor].
  - apply K_go_list; assumption.
Qed.

Lemma K_go_common kvs2 p1 p2 l :
  Forall (fun kv => IHK (snd kv)) l -> keys_from K p1 -> keys_from K p2 ->
  incl (dkeys (VDict l)) K -> incl (dkeys (VDict kvs2)) K ->
  EK (fst (go_common c diff kvs2 (keys_of c kvs2) p1 p2 l)) /\
  Forall (keys_from K) (snd (go_common c diff kvs2 (keys_of c kvs2) p1 p2 l)).
Proof.
  intros HI H1 H2. induction HI as [|[k v1] l Hk _ IH]; intros I1 I2; cbn [go_common]; [split; constructor|].
  assert (I1' : incl (dkeys (VDict l)) K).
  { intros a Ha. apply I1. cbn in Ha |- *. right. apply in_or_app. right. exact Ha. }
  destruct (IH I1' I2) as [A B].
  destruct (keep_key c k); [|split; assumption].
  destruct (find (py_eq k) (keys_of c kvs2)) as [k'|] eqn:Fk; [|split; assumption].
  destruct (assoc k' kvs2) as [v2|] eqn:A2; [|split; assumption].
  unfold app2. cbn [fst snd].
  apply find_some in Fk as [Hk' _]. apply keys_of_In in Hk' as [Hk' _].
  apply assoc_In in A2 as (k'' & Hin2 & _).
  assert (Kk' : In k' K).
  { apply I2. apply in_map_iff in Hk' as ([k0 v0] & E0 & Hin0). cbn in E0. subst k0. eapply dkeys_dict_key. exact Hin0. }
  cbn [snd] in Hk.
  assert (Iv1 : incl (dkeys v1) K) by (intros a Ha; apply I1; cbn; right; apply in_or_app; left; exact Ha).
  assert (Iv2 : incl (dkeys v2) K) by (intros a Ha; apply I2; eapply dkeys_dict_val; eassumption).
  destruct (Hk v2 (snoc p1 (PKey k')) (snoc p2 (PKey k')) (keys_from_snoc_key K p1 k' H1 Kk') (keys_from_snoc_key K p2 k' H2 Kk') Iv1 Iv2) as [A1 B1].
  split; apply Forall_app; split; assumption.
Qed.

Lemma K_dict_body kvs1 kvs2 p1 p2 : Forall (fun kv => IHK (snd kv)) kvs1 ->
  keys_from K p1 -> keys_from K p2 -> incl (dkeys (VDict kvs1)) K -> incl (dkeys (VDict kvs2)) K ->
  EK (fst (dict_body hatom udiff ops skip excl c kvs1 kvs2 p1 p2)) /\
  Forall (keys_from K) (snd (dict_body hatom udiff ops skip excl c kvs1 kvs2 p1 p2)).
Proof.
  intros IH H1 H2 I1 I2. unfold dict_body. destruct (dict_shortcut _ _ _ _ _); cbn [fst snd].
  - split; [apply EK_report; assumption|constructor].
  - destruct (K_go_common kvs2 p1 p2 kvs1 IH H1 H2 I1 I2) as [A B]. split; [|exact B].
    assert (KK : forall kvs k, incl (dkeys (VDict kvs)) K -> In k (keys_of c kvs) -> In k K).
    { intros kvs k I0 Hk. apply keys_of_In in Hk as [Hk _]. apply in_map_iff in Hk as ([k0 v0] & E0 & Hin0).
      cbn in E0. subst k0. apply I0. eapply dkeys_dict_key. exact Hin0. }
    apply Forall_app; split; [|apply Forall_app; split; [|exact A]].
    + apply Forall_forall. intros e He. apply in_flat_map in He as (k & Hk & He). destruct (mem_atom k _); [destruct He|].
      pose proof (EK_report KDictAdd (snoc p1 (PKey k)) (snoc p2 (PKey k)) None (assoc k kvs2) None) as F.
      eapply Forall_forall in F; [exact F| | |exact He]; apply keys_from_snoc_key; try assumption; apply (KK kvs2); assumption.
    + apply Forall_forall. intros e He. apply in_flat_map in He as (k & Hk & He). destruct (mem_atom k _); [destruct He|].
      pose proof (EK_report KDictRem (snoc p1 (PKey k)) (snoc p2 (PKey k)) (assoc k kvs1) None None) as F.
      eapply Forall_forall in F; [exact F| | |exact He]; apply keys_from_snoc_key; try assumption; apply (KK kvs1); assumption.
Qed.

Theorem diff_path_keys : forall t1, IHK t1.
Proof.
  induction t1 as [a|xs IH|xs IH|kvs IH|xs|xs] using value_ind'; intros t2 p1 p2 H1 H2 I1 I2;
    (destruct (skip p1) eqn:Hs; [rewrite diff_skip by exact Hs; split; constructor|]);
    (match goal with |- context [diff ?t1 t2 _ _] => destruct (ty_eqb (type_of t1) (type_of t2)) eqn:T end;
     [|rewrite diff_type by assumption; cbn [fst snd]; split; [apply EK_report; assumption|constructor]]);
    apply ty_eqb_true in T; destruct t2; try discriminate T; try (destruct a; discriminate T).
  - rewrite diff_atom_eq by exact Hs. cbn in T. rewrite T.
    replace (ty_eqb (atom_ty a0) (atom_ty a0)) with true by (destruct (atom_ty a0); reflexivity).
    cbn [negb fst snd]. split; [apply EK_diff_atom; assumption|constructor].
  - rewrite diff_list by exact Hs. apply K_seq_body; assumption.
  - rewrite diff_tuple by exact Hs. apply K_seq_body; assumption.
  - rewrite diff_dict by exact Hs. apply K_dict_body; assumption.
  - rewrite diff_vset by exact Hs. cbn [fst snd]. split; [apply EK_diff_set; assumption|constructor].
  - rewrite diff_vfrozen by exact Hs. cbn [fst snd]. split; [apply EK_diff_set; assumption|constructor].
Qed.

End PathKeys.

Lemma mutual_In_paths es e : In e (mutual es) -> exists e0, In e0 es /\ ep1 e = ep1 e0 /\ ep2 e = ep2 e0.
Proof.
  intros H. unfold mutual in H. apply in_flat_map in H as (e0 & H0 & H).
  exists e0. split; [exact H0|].
  destruct (ekind e0); try (destruct H as [<-|[]]; split; reflexivity).
  - destruct (last_with_path _ _); [destruct H|]. destruct H as [<-|[]]. split; reflexivity.
  - destruct (last_with_path (ep1 e0) (filter (is_kind KIterAdd) es)); [|destruct H as [<-|[]]; split; reflexivity].
    destruct (last_with_path (ep1 e0) (filter (is_kind KIterRem) es)); [|destruct H as [<-|[]]; split; reflexivity].
    destruct H as [<-|[]]. split; reflexivity.
Qed.

Theorem run_diff_path_keys hatom udiff ops skip excl c t1 t2 :
  let K := dkeys t1 ++ dkeys t2 in
  Forall (ekeys K) (fst (run_diff hatom udiff ops skip excl c t1 t2)) /\
  Forall (keys_from K) (snd (run_diff hatom udiff ops skip excl c t1 t2)).
Proof.
  intros K. unfold run_diff.
  assert (N : keys_from K []) by constructor.
  assert (I1 : incl (dkeys t1) K) by (intros a Ha; apply in_or_app; left; exact Ha).
  assert (I2 : incl (dkeys t2) K) by (intros a Ha; apply in_or_app; right; exact Ha).
  destruct (diff_path_keys hatom udiff ops skip excl c K t1 t2 [] [] N N I1 I2) as [A B].
  destruct (diff hatom udiff ops skip excl c t1 t2 [] []) as [es rec]. cbn [fst snd] in *.
  split; [|exact B]. apply Forall_forall. intros e He.
  destruct (mutual_In_paths es e He) as (e0 & H0 & E1 & E2).
  eapply Forall_forall in A; [|exact H0]. unfold ekeys in *. rewrite E1, E2. exact A.
Qed.

(* ------------------------------------------------------------------ *)
(* (b2) where the paths resolve                                        *)
(* ------------------------------------------------------------------ *)
Definition is_seq (v : value) : Prop := match v with VList _ | VTuple _ => True | _ => False end.
Definition rec_ok (r1 r2 : value) (q : path) : Prop :=
  exists v1 v2, resolve r1 q = Some v1 /\ resolve r2 q = Some v2 /\ is_seq v1 /\ is_seq v2.

Section RecResolve.
Variable hatom : atom -> pystr.
Variable udiff : pystr -> pystr -> pystr.
Variable ops : path -> list value -> list value -> list opcode.
Variable skip excl : path -> bool.
Variable c : cfg.
Variables r1 r2 : value.
Notation diff := (diff hatom udiff ops skip excl c).
Notation RO := (Forall (rec_ok r1 r2)).

Definition IHR (t1 : value) : Prop :=
  forall t2 p, wf t1 = true -> wf t2 = true ->
    resolve r1 p = Some t1 -> resolve r2 p = Some t2 -> RO (snd (diff t1 t2 p p)).

Lemma R_go_list xs : Forall IHR xs -> forall ys i v1 v2 XS YS p,
  resolve r1 p = Some v1 -> seq_items v1 = Some XS ->
  resolve r2 p = Some v2 -> seq_items v2 = Some YS ->
  (forall k x, nth_error xs k = Some x -> nth_error XS (i + k) = Some x) ->
  (forall k y, nth_error ys k = Some y -> nth_error YS (i + k) = Some y) ->
  forallb wf xs = true -> forallb wf ys = true ->
  RO (snd (go_list skip diff p p xs ys i)).
Proof.
  induction 1 as [|x xs Hx _ IH]; intros ys i v1 v2 XS YS p H1 S1 H2 S2 N1 N2 W1 W2.
  - cbn. constructor.
  - destruct ys as [|y ys]; [cbn [go_list snd]; constructor|].
    cbn [go_list]. unfold app2. cbn [snd]. apply Forall_app; split.
    + cbn in W1, W2. apply andb_true_iff in W1 as [Wx _], W2 as [Wy _].
      apply Hx; try assumption.
      * eapply resolve_seq_item; try eassumption. specialize (N1 0 x eq_refl). rewrite Nat.add_0_r in N1. exact N1.
      * eapply resolve_seq_item; try eassumption. specialize (N2 0 y eq_refl). rewrite Nat.add_0_r in N2. exact N2.
    + cbn in W1, W2. apply andb_true_iff in W1 as [_ W1], W2 as [_ W2].
      eapply IH; try eassumption.
      * intros k z Hk. specialize (N1 (S k) z Hk). rewrite Nat.add_succ_r in N1. exact N1.
      * intros k z Hk. specialize (N2 (S k) z Hk). rewrite Nat.add_succ_r in N2. exact N2.
Qed.

Lemma R_seq_body xs ys v1 v2 p : Forall IHR xs ->
  resolve r1 p = Some v1 -> seq_items v1 = Some xs ->
  resolve r2 p = Some v2 -> seq_items v2 = Some ys ->
  forallb wf xs = true -> forallb wf ys = true ->
  RO (snd (seq_body hatom udiff ops skip excl c xs ys p p)).
Proof.
  intros IH H1 S1 H2 S2 W1 W2. unfold seq_body.
  destruct (negb (zip c) && forallb is_atom xs && forallb is_atom ys).
  - destruct (default_leaf_list udiff ops skip xs ys p p) as [es rec]. cbn [snd].
    destruct rec; [|constructor]. constructor; [|constructor].
    exists v1, v2. repeat split; try assumption.
    + destruct v1; try discriminate S1; exact I.
    + destruct v2; try discriminate S2; exact I.
  - eapply R_go_list; try eassumption; intros k z Hk; exact Hk.
Qed.

Lemma R_go_common kvs1 kvs2 p :
  nodup_atoms (map fst kvs1) = true ->
  forallb (fun kv => wf (snd kv)) kvs1 = true -> forallb (fun kv => wf (snd kv)) kvs2 = true ->
  resolve r1 p = Some (VDict kvs1) -> resolve r2 p = Some (VDict kvs2) ->
  forall l, (forall kv, In kv l -> In kv kvs1) -> Forall (fun kv => IHR (snd kv)) l ->
  RO (snd (go_common c diff kvs2 (keys_of c kvs2) p p l)).
Proof.
  intros N1 W1 W2 H1 H2. induction l as [|[k v1] l IH]; intros Sub HI; cbn; [constructor|].
  apply Forall_cons_iff in HI as [Hk HI'].
  assert (Rest : RO (snd (go_common c diff kvs2 (keys_of c kvs2) p p l))).
  { apply IH; [intros kv Hkv; apply Sub; right; exact Hkv|exact HI']. }
  destruct (keep_key c k); [|exact Rest].
  destruct (find (py_eq k) (keys_of c kvs2)) as [k'|] eqn:Fk; [|exact Rest].
  destruct (assoc k' kvs2) as [v2|] eqn:A2; [|exact Rest].
  unfold app2. cbn [snd]. apply Forall_app; split; [|exact Rest].
  apply find_some in Fk as [Hk' E]. cbn in Hk. apply Hk.
  - eapply forallb_forall in W1; [|apply Sub; left; reflexivity]. exact W1.
  - apply assoc_In in A2 as (k'' & Hin & _). eapply forallb_forall in W2; [|exact Hin]. exact W2.
  - unfold snoc. rewrite resolve_snoc, H1. rewrite get_item_key_dict.
    eapply assoc_nodup; [exact N1|apply Sub; left; reflexivity|exact E].
  - unfold snoc. rewrite resolve_snoc, H2. rewrite get_item_key_dict. exact A2.
Qed.

Theorem diff_rec_resolve : forall t1, IHR t1.
Proof.
  induction t1 as [a|xs IH|xs IH|kvs IH|xs|xs] using value_ind'; intros t2 p W1 W2 H1 H2;
    (destruct (skip p) eqn:Hs; [rewrite diff_skip by exact Hs; constructor|]);
    (match goal with |- context [diff ?t1 t2 _ _] => destruct (ty_eqb (type_of t1) (type_of t2)) eqn:T end;
     [|rewrite diff_type by assumption; cbn [snd]; constructor]);
    apply ty_eqb_true in T; destruct t2; try discriminate T; try (destruct a; discriminate T).
  - rewrite diff_atom_eq by exact Hs. destruct (negb _); constructor.
  - rewrite diff_list by exact Hs. eapply R_seq_body; try eassumption; reflexivity.
  - rewrite diff_tuple by exact Hs. eapply R_seq_body; try eassumption; reflexivity.
  - rewrite diff_dict by exact Hs. unfold dict_body. destruct (dict_shortcut _ _ _ _ _); cbn [snd]; [constructor|].
    cbn in W1, W2. apply andb_true_iff in W1 as [N1 W1], W2 as [N2 W2].
    apply (R_go_common kvs kvs0); try assumption. intros kv Hkv; exact Hkv.
  - rewrite diff_vset by exact Hs. constructor.
  - rewrite diff_vfrozen by exact Hs. constructor.
Qed.

End RecResolve.

(* every recorded-opcode path resolves, in both inputs, to a list / tuple *)
Theorem run_diff_rec_resolve hatom udiff ops skip excl c t1 t2 :
  wf t1 = true -> wf t2 = true ->
  Forall (rec_ok t1 t2) (snd (run_diff hatom udiff ops skip excl c t1 t2)).
Proof.
  intros W1 W2. unfold run_diff.
  pose proof (diff_rec_resolve hatom udiff ops skip excl c t1 t2 t1 t2 [] W1 W2 eq_refl eq_refl) as H.
  destruct (diff hatom udiff ops skip excl c t1 t2 [] []) as [es rec]. exact H.
Qed.

(* which path of an entry resolves where (C04 restated on paths only) *)
Definition entry_resolves (t1 t2 : value) (e : entry) : Prop :=
  match ekind e with
  | KValue | KType | KIterMoved => resolve t1 (ep1 e) <> None /\ resolve t2 (ep2 e) <> None
  | KDictAdd | KIterAdd | KSetAdd => resolve t2 (ep2 e) <> None
  | KDictRem | KIterRem | KSetRem => resolve t1 (ep1 e) <> None
  | KRepetition => False
  end.

Theorem run_diff_entry_resolves hatom udiff ops skip excl c t1 t2 :
  thr_num c <= thr_den c -> wf t1 = true -> wf t2 = true ->
  Forall (entry_resolves t1 t2) (fst (run_diff hatom udiff ops skip excl c t1 t2)).
Proof.
  intros Hthr W1 W2. apply Forall_forall. intros e He.
  destruct (run_diff_faithful hatom udiff ops skip excl c t1 t2 Hthr W1 W2 e He) as [F _].
  unfold faithful in F. unfold entry_resolves. destruct (ekind e).
  - destruct F as (a & b & _ & _ & R1 & R2 & _). rewrite R1, R2. split; discriminate.
  - destruct F as (a & b & _ & _ & R1 & R2 & _). rewrite R1, R2. split; discriminate.
  - destruct F as (b & _ & _ & R2 & _). rewrite R2. discriminate.
  - destruct F as (a & _ & _ & R1 & _). rewrite R1. discriminate.
  - destruct F as (b & _ & _ & R2 & _). rewrite R2. discriminate.
  - destruct F as (a & _ & _ & R1 & _). rewrite R1. discriminate.
  - destruct F as (a & b & _ & _ & R1 & R2 & _). rewrite R1, R2. split; discriminate.
  - destruct F as (y & s & _ & _ & R2 & _). rewrite R2. discriminate.
  - destruct F as (x & s & _ & _ & R1 & _). rewrite R1. discriminate.
  - exact F.
Qed.

(* ------------------------------------------------------------------ *)
(* (a) distinct paths within each report kind                          *)
(* ------------------------------------------------------------------ *)
Definition nloc (e : entry) : path := norm (ep1 e).

(* groups of kinds whose t1 paths are pairwise distinct: the levels located on
   the t1 side (a removed item may be turned into a value change by
   mutual_add_removes), added iterable items (located on the t2 side), added
   dict keys, removed dict keys.  Set items share the path of their set. *)
Definition grp (k : rkind) : option nat :=
  match k with
  | KValue | KType | KIterRem | KIterMoved => Some 1
  | KIterAdd => Some 2
  | KDictAdd => Some 3
  | KDictRem => Some 4
  | KSetAdd | KSetRem | KRepetition => None
  end.

Definition Rd (e e' : entry) : Prop :=
  forall g, grp (ekind e) = Some g -> grp (ekind e') = Some g -> nloc e <> nloc e'.

Lemma Rd_sym e e' : Rd e e' -> Rd e' e.
Proof. intros H g G1 G2 E. apply (H g G2 G1). symmetry. exact E. Qed.

Fixpoint dpairs (l : list entry) : Prop :=
  match l with [] => True | x :: r => Forall (Rd x) r /\ dpairs r end.

Lemma dpairs_app l1 l2 :
  dpairs l1 -> dpairs l2 -> (forall x y, In x l1 -> In y l2 -> Rd x y) -> dpairs (l1 ++ l2).
Proof.
  induction l1 as [|x l1 IH]; cbn; intros H1 H2 HC; [exact H2|].
  destruct H1 as [Hx H1]. split.
  - apply Forall_app. split; [exact Hx|]. apply Forall_forall. intros y Hy. apply HC; [left; reflexivity|exact Hy].
  - apply IH; [exact H1|exact H2|]. intros a b Ha Hb. apply HC; [right; exact Ha|exact Hb].
Qed.

Lemma dpairs_In l : dpairs l -> forall x y, In x l -> In y l -> x <> y -> Rd x y.
Proof.
  induction l as [|z l IH]; cbn; [intros _ x y []|]. intros [Hz Hl] x y Hx Hy N.
  destruct Hx as [<-|Hx], Hy as [<-|Hy].
  - congruence.
  - eapply Forall_forall in Hz; eassumption.
  - apply Rd_sym. eapply Forall_forall in Hz; eassumption.
  - apply IH; assumption.
Qed.

Definition DFree (l : list entry) : Prop := forall e, In e l -> grp (ekind e) = None.
Definition DUnder (p : path) (l : list entry) : Prop :=
  forall e, In e l -> grp (ekind e) <> None -> exists rest, ep1 e = p ++ rest.
Definition at1 (p : path) (l : list entry) : Prop := l = [] \/ exists e, l = [e] /\ ep1 e = p.

Lemma DFree_dpairs l : DFree l -> dpairs l.
Proof.
  induction l as [|x l IH]; cbn; intros F; [exact I|]. split.
  - apply Forall_forall. intros y _ g G. rewrite (F x (or_introl eq_refl)) in G. discriminate.
  - apply IH. intros e He. apply F. right. exact He.
Qed.
Lemma DFree_DUnder p l : DFree l -> DUnder p l.
Proof. intros F e He N. rewrite (F e He) in N. congruence. Qed.
Lemma DFree_cross_l l1 l2 : DFree l1 -> forall x y, In x l1 -> In y l2 -> Rd x y.
Proof. intros F x y Hx _ g G. rewrite (F x Hx) in G. discriminate. Qed.

Lemma at1_dpairs p l : at1 p l -> dpairs l.
Proof. intros [->|(e & -> & _)]; cbn; [exact I|split; [constructor|exact I]]. Qed.
Lemma at1_DUnder p l : at1 p l -> DUnder p l.
Proof.
  intros [->|(e & -> & E)] x Hx _; [destruct Hx|]. destruct Hx as [<-|[]]. exists []. rewrite app_nil_r. exact E.
Qed.
Lemma DUnder_app p l1 l2 : DUnder p l1 -> DUnder p l2 -> DUnder p (l1 ++ l2).
Proof. intros H1 H2 e He. apply in_app_or in He as [He|He]; [apply H1|apply H2]; exact He. Qed.
Lemma DUnder_weaken p k l : DUnder (p ++ [k]) l -> DUnder p l.
Proof. intros H e He N. destruct (H e He N) as [rest E]. exists (k :: rest). rewrite E, <- app_assoc. reflexivity. Qed.

Lemma norm_app p q : norm (p ++ q) = norm p ++ norm q.
Proof. unfold norm. apply map_app. Qed.

Lemma norm_neq_key p k1 k2 r1 r2 :
  key_atom k1 <> key_atom k2 -> norm (p ++ k1 :: r1) <> norm (p ++ k2 :: r2).
Proof. intros N E. rewrite !norm_app in E. apply app_inv_head in E. cbn in E. inversion E. contradiction. Qed.

Lemma idx_atom_neq i j : i <> j -> key_atom (PIdx i) <> key_atom (PIdx j).
Proof. intros N E. cbn in E. inversion E. lia. Qed.

Lemma cross_keys p k1 k2 l1 l2 :
  key_atom k1 <> key_atom k2 -> DUnder (p ++ [k1]) l1 -> DUnder (p ++ [k2]) l2 ->
  forall x y, In x l1 -> In y l2 -> Rd x y.
Proof.
  intros N U1 U2 x y Hx Hy g G1 G2.
  destruct (U1 x Hx) as [r1 E1]; [congruence|]. destruct (U2 y Hy) as [r2 E2]; [congruence|].
  unfold nloc. rewrite E1, E2, <- !app_assoc. cbn [app]. apply norm_neq_key. exact N.
Qed.

(* all grouped entries at p ++ PIdx i' :: rest with i' >= i *)
Definition DIdx (p : path) (i : nat) (l : list entry) : Prop :=
  forall e, In e l -> grp (ekind e) <> None -> exists i' rest, i <= i' /\ ep1 e = p ++ PIdx i' :: rest.
Lemma DIdx_DUnder p i l : DIdx p i l -> DUnder p l.
Proof. intros H e He N. destruct (H e He N) as (i' & rest & _ & E). eexists. exact E. Qed.

Lemma cross_didx p i l1 l2 :
  DUnder (p ++ [PIdx i]) l1 -> DIdx p (S i) l2 -> forall x y, In x l1 -> In y l2 -> Rd x y.
Proof.
  intros U1 U2 x y Hx Hy g G1 G2.
  destruct (U1 x Hx) as [r1 E1]; [congruence|]. destruct (U2 y Hy) as (i' & r2 & L & E2); [congruence|].
  unfold nloc. rewrite E1, E2, <- !app_assoc. cbn [app]. apply norm_neq_key. apply idx_atom_neq. lia.
Qed.

(* all-atom lists: group 1 entries at t1 indexes in [a1,b1), group 2 entries at
   t2 indexes in [a2,b2), no dict-key entries *)
Definition Box (p : path) (a1 b1 a2 b2 : nat) (l : list entry) : Prop :=
  forall e, In e l -> forall g, grp (ekind e) = Some g ->
    (g = 1 /\ exists i', a1 <= i' < b1 /\ ep1 e = p ++ [PIdx i']) \/
    (g = 2 /\ exists i', a2 <= i' < b2 /\ ep1 e = p ++ [PIdx i']).
Definition Low (p : path) (a1 a2 : nat) (l : list entry) : Prop :=
  forall e, In e l -> forall g, grp (ekind e) = Some g ->
    (g = 1 /\ exists i', a1 <= i' /\ ep1 e = p ++ [PIdx i']) \/
    (g = 2 /\ exists i', a2 <= i' /\ ep1 e = p ++ [PIdx i']).

Lemma Box_Low p a1 b1 a2 b2 l : Box p a1 b1 a2 b2 l -> Low p a1 a2 l.
Proof.
  intros H e He g G. destruct (H e He g G) as [[-> (i' & L & E)]|[-> (i' & L & E)]]; [left|right];
    (split; [reflexivity|exists i'; split; [lia|exact E]]).
Qed.
Lemma Box_weaken p a1 b1 a2 b2 a1' b1' a2' b2' l :
  a1' <= a1 -> b1 <= b1' -> a2' <= a2 -> b2 <= b2' -> Box p a1 b1 a2 b2 l -> Box p a1' b1' a2' b2' l.
Proof.
  intros L1 L2 L3 L4 H e He g G. destruct (H e He g G) as [[-> (i' & L & E)]|[-> (i' & L & E)]]; [left|right];
    (split; [reflexivity|exists i'; split; [lia|exact E]]).
Qed.
Lemma Low_weaken p a1 a2 a1' a2' l : a1' <= a1 -> a2' <= a2 -> Low p a1 a2 l -> Low p a1' a2' l.
Proof.
  intros L1 L2 H e He g G. destruct (H e He g G) as [[-> (i' & L & E)]|[-> (i' & L & E)]]; [left|right];
    (split; [reflexivity|exists i'; split; [lia|exact E]]).
Qed.
Lemma Box_app p a1 b1 a2 b2 l1 l2 : Box p a1 b1 a2 b2 l1 -> Box p a1 b1 a2 b2 l2 -> Box p a1 b1 a2 b2 (l1 ++ l2).
Proof. intros H1 H2 e He. apply in_app_or in He as [He|He]; [apply H1|apply H2]; exact He. Qed.
Lemma Low_app p a1 a2 l1 l2 : Low p a1 a2 l1 -> Low p a1 a2 l2 -> Low p a1 a2 (l1 ++ l2).
Proof. intros H1 H2 e He. apply in_app_or in He as [He|He]; [apply H1|apply H2]; exact He. Qed.
Lemma DFree_Box p a1 b1 a2 b2 l : DFree l -> Box p a1 b1 a2 b2 l.
Proof. intros F e He g G. rewrite (F e He) in G. discriminate. Qed.
Lemma Low_DUnder p a1 a2 l : Low p a1 a2 l -> DUnder p l.
Proof.
  intros H e He N. destruct (grp (ekind e)) as [g|] eqn:G; [|congruence].
  destruct (H e He g G) as [[_ (i' & _ & E)]|[_ (i' & _ & E)]]; eexists; exact E.
Qed.

Lemma cross_box p a1 b1 a2 b2 l1 l2 :
  Box p a1 b1 a2 b2 l1 -> Low p b1 b2 l2 -> forall x y, In x l1 -> In y l2 -> Rd x y.
Proof.
  intros B L x y Hx Hy g G1 G2.
  destruct (B x Hx g G1) as [[-> (i1 & L1 & E1)]|[-> (i1 & L1 & E1)]];
    destruct (L y Hy _ G2) as [[Eg (i2 & L2 & E2)]|[Eg (i2 & L2 & E2)]]; try discriminate Eg;
    unfold nloc; rewrite E1, E2; apply norm_neq_key; apply idx_atom_neq; lia.
Qed.

Lemma nodup_atoms_NoDup l : nodup_atoms l = true -> NoDup l.
Proof.
  induction l as [|a l IH]; cbn; intros H; constructor; apply andb_true_iff in H as [H1 H2]; [|apply IH; exact H2].
  intros Hin. apply negb_true_iff in H1.
  assert (mem_atom a l = true) by (apply mem_atom_In; exists a; split; [exact Hin|apply py_eq_refl]). congruence.
Qed.

(* opcode lists whose t1 ranges and t2 ranges are both sorted and disjoint *)
Fixpoint ops_ok2 (lo1 lo2 : nat) (os : list opcode) : bool :=
  match os with
  | [] => true
  | o :: r => Nat.leb lo1 (oi1 o) && Nat.leb (oi1 o) (oi2 o) && Nat.leb lo2 (oj1 o) && Nat.leb (oj1 o) (oj2 o)
              && ops_ok2 (oi2 o) (oj2 o) r
  end.

Section Distinct.
Variable hatom : atom -> pystr.
Variable udiff : pystr -> pystr -> pystr.
Variable ops : path -> list value -> list value -> list opcode.
Variable skip excl : path -> bool.
Variable c : cfg.
Notation diff := (diff hatom udiff ops skip excl c).

Definition ops_sorted2 : Prop := forall p xs ys, ops_ok2 0 0 (ops p xs ys) = true.

Lemma report_at1 k p1 p2 a b d : at1 p1 (report skip k p1 p2 a b d).
Proof. unfold report. destruct (skip p1); [left; reflexivity|right; eexists; split; reflexivity]. Qed.
Lemma report_in k p1 p2 a b d e : In e (report skip k p1 p2 a b d) -> ekind e = k /\ ep1 e = p1.
Proof. unfold report. destruct (skip p1); [intros []|]. intros [<-|[]]. split; reflexivity. Qed.

Lemma diff_atom_at1 a b p1 p2 : at1 p1 (diff_atom udiff skip a b p1 p2).
Proof.
  unfold diff_atom. destruct (skip p1); [left; reflexivity|].
  destruct (negb _); [apply report_at1|].
  destruct a, b; try (destruct (py_eq _ _); [left; reflexivity|apply report_at1]).
  - destruct (diff_str udiff false s s0) as [ch d]. destruct ch; [apply report_at1|left; reflexivity].
  - destruct (diff_str udiff true s s0) as [ch d]. destruct ch; [apply report_at1|left; reflexivity].
Qed.
Lemma diff_atom_kinds a b p1 p2 e : In e (diff_atom udiff skip a b p1 p2) -> grp (ekind e) = Some 1 /\ ep1 e = p1.
Proof.
  unfold diff_atom. destruct (skip p1); [intros []|].
  assert (X : forall k x y d, (k = KType \/ k = KValue) -> In e (report skip k p1 p2 x y d) -> grp (ekind e) = Some 1 /\ ep1 e = p1).
  { intros k x y d Hk He. apply report_in in He as [K E]. rewrite K. destruct Hk as [->| ->]; split; try reflexivity; exact E. }
  destruct (negb _); [apply X; left; reflexivity|].
  destruct a, b; try (destruct (py_eq _ _); [intros []|apply X; right; reflexivity]).
  - destruct (diff_str udiff false s s0) as [ch d]. destruct ch; [apply X; right; reflexivity|intros []].
  - destruct (diff_str udiff true s s0) as [ch d]. destruct ch; [apply X; right; reflexivity|intros []].
Qed.

(* one grouped entry at index i *)
Lemma single_box p i l (g0 : nat) a1 a2 :
  at1 (snoc p (PIdx i)) l -> (forall e, In e l -> grp (ekind e) = Some g0) -> (g0 = 1 \/ g0 = 2) ->
  Box p (if Nat.eqb g0 1 then i else a1) (if Nat.eqb g0 1 then S i else a1)
        (if Nat.eqb g0 1 then a2 else i) (if Nat.eqb g0 1 then a2 else S i) l.
Proof.
  intros [->|(e0 & -> & E)] HG Hg e He g G; [destruct He|]. destruct He as [<-|[]].
  rewrite (HG e0 (or_introl eq_refl)) in G. inversion G; subst g.
  destruct Hg as [->| ->]; cbn; [left|right]; (split; [reflexivity|exists i; split; [lia|exact E]]).
Qed.

Lemma removed_from_box xs : forall i p a2,
  dpairs (removed_from skip xs i p p) /\ Box p i (i + length xs) a2 a2 (removed_from skip xs i p p).
Proof.
  induction xs as [|x xs IH]; intros i p a2; cbn [removed_from length].
  - split; [exact I|intros e []].
  - destruct (IH (S i) p a2) as [A B].
    pose proof (report_at1 KIterRem (snoc p (PIdx i)) (snoc p (PIdx i)) (Some x) None None) as A1.
    assert (B1 : Box p i (S i) a2 a2 (report skip KIterRem (snoc p (PIdx i)) (snoc p (PIdx i)) (Some x) None None)).
    { apply (single_box p i _ 1 a2 a2 A1); [|left; reflexivity]. intros e He. apply report_in in He as [K _]. rewrite K. reflexivity. }
    split.
    + apply dpairs_app; [eapply at1_dpairs; exact A1|exact A|].
      apply (cross_box p i (S i) a2 a2); [exact B1|]. eapply Box_Low. exact B.
    + apply Box_app; [eapply Box_weaken; [| | | |exact B1]; lia|eapply Box_weaken; [| | | |exact B]; lia].
Qed.

Lemma added_from_box ys : forall j p a1,
  dpairs (added_from skip ys j p p) /\ Box p a1 a1 j (j + length ys) (added_from skip ys j p p).
Proof.
  induction ys as [|y ys IH]; intros j p a1; cbn [added_from length].
  - split; [exact I|intros e []].
  - destruct (IH (S j) p a1) as [A B].
    pose proof (report_at1 KIterAdd (snoc p (PIdx j)) (snoc p (PIdx j)) None (Some y) None) as A1.
    assert (B1 : Box p a1 a1 j (S j) (report skip KIterAdd (snoc p (PIdx j)) (snoc p (PIdx j)) None (Some y) None)).
    { apply (single_box p j _ 2 a1 a1 A1); [|right; reflexivity]. intros e He. apply report_in in He as [K _]. rewrite K. reflexivity. }
    split.
    + apply dpairs_app; [eapply at1_dpairs; exact A1|exact A|].
      apply (cross_box p a1 a1 j (S j)); [exact B1|]. eapply Box_Low. exact B.
    + apply Box_app; [eapply Box_weaken; [| | | |exact B1]; lia|eapply Box_weaken; [| | | |exact B]; lia].
Qed.

Lemma Box_DIdx p a1 b1 a2 b2 i l : i <= a1 -> i <= a2 -> Box p a1 b1 a2 b2 l -> DIdx p i l.
Proof.
  intros L1 L2 H e He N. destruct (grp (ekind e)) as [g|] eqn:G; [|congruence].
  destruct (H e He g G) as [[_ (i' & L & E)]|[_ (i' & L & E)]]; exists i', []; (split; [lia|exact E]).
Qed.

Lemma pairs_leaf_box xs : forall ys i j p,
  dpairs (pairs_leaf udiff skip xs ys i j p p) /\
  Box p i (i + length xs) j (j + length ys) (pairs_leaf udiff skip xs ys i j p p).
Proof.
  induction xs as [|x xs IH]; intros ys i j p.
  - assert (E : pairs_leaf udiff skip [] ys i j p p = added_from skip ys j p p) by (destruct ys; reflexivity).
    rewrite E. destruct (added_from_box ys j p i) as [A B]. split; [exact A|].
    eapply Box_weaken; [| | | |exact B]; cbn; lia.
  - destruct ys as [|y ys].
    + cbn [pairs_leaf]. destruct (removed_from_box (x :: xs) i p j) as [A B]. split; [exact A|].
      eapply Box_weaken; [| | | |exact B]; cbn; lia.
    + cbn [pairs_leaf length]. destruct (IH ys (S i) (S j) p) as [A B].
      set (hd := if negb (i =? j) && py_eq_leaf x y then _ else _).
      assert (H1 : at1 (snoc p (PIdx i)) hd /\ forall e, In e hd -> grp (ekind e) = Some 1).
      { unfold hd. destruct (negb (i =? j) && py_eq_leaf x y).
        - split; [apply report_at1|]. intros e He. apply report_in in He as [K _]. rewrite K. reflexivity.
        - unfold diff_leaf. destruct x, y; try (split; [left; reflexivity|intros e []]).
          split; [apply diff_atom_at1|]. intros e He. apply diff_atom_kinds in He as [G _]. exact G. }
      destruct H1 as [A1 G1].
      pose proof (single_box p i hd 1 j j A1 G1 (or_introl eq_refl)) as B1. cbn in B1.
      split.
      * apply dpairs_app; [eapply at1_dpairs; exact A1|exact A|].
        apply (cross_box p i (S i) j j); [exact B1|]. eapply Low_weaken; [| |eapply Box_Low; exact B]; lia.
      * apply Box_app; [eapply Box_weaken; [| | | |exact B1]; lia|eapply Box_weaken; [| | | |exact B]; lia].
Qed.

Lemma by_opcodes_low os : forall lo1 lo2 xs ys p, ops_ok2 lo1 lo2 os = true ->
  dpairs (by_opcodes udiff skip os xs ys p p) /\ Low p lo1 lo2 (by_opcodes udiff skip os xs ys p p).
Proof.
  induction os as [|o os IH]; intros lo1 lo2 xs ys p H; unfold by_opcodes in *; cbn [flat_map].
  - split; [exact I|intros e []].
  - cbn in H. apply andb_true_iff in H as [H H5]. apply andb_true_iff in H as [H H4].
    apply andb_true_iff in H as [H H3]. apply andb_true_iff in H as [H1 H2].
    apply Nat.leb_le in H1, H2, H3, H4. destruct (IH (oi2 o) (oj2 o) xs ys p H5) as [A L].
    set (blk := match otag o with OEqual => [] | _ => _ end).
    assert (B : dpairs blk /\ Box p (oi1 o) (oi2 o) (oj1 o) (oj2 o) blk).
    { unfold blk. pose proof (slice_length_le xs (oi1 o) (oi2 o)) as SL1. pose proof (slice_length_le ys (oj1 o) (oj2 o)) as SL2.
      destruct (otag o).
      - split; [exact I|intros e []].
      - destruct (pairs_leaf_box (slice xs (oi1 o) (oi2 o)) (slice ys (oj1 o) (oj2 o)) (oi1 o) (oj1 o) p) as [A1 B1].
        split; [exact A1|eapply Box_weaken; [| | | |exact B1]; lia].
      - destruct (removed_from_box (slice xs (oi1 o) (oi2 o)) (oi1 o) p (oj1 o)) as [A1 B1].
        split; [exact A1|eapply Box_weaken; [| | | |exact B1]; lia].
      - destruct (added_from_box (slice ys (oj1 o) (oj2 o)) (oj1 o) p (oi1 o)) as [A1 B1].
        split; [exact A1|eapply Box_weaken; [| | | |exact B1]; lia]. }
    destruct B as [A1 B1]. split.
    + apply dpairs_app; [exact A1|exact A|]. apply (cross_box p (oi1 o) (oi2 o) (oj1 o) (oj2 o)); assumption.
    + apply Low_app; [eapply Low_weaken; [| |eapply Box_Low; exact B1]; lia|eapply Low_weaken; [| |exact L]; lia].
Qed.

Definition leaf_distinct : Prop :=
  forall p xs ys, dpairs (fst (default_leaf_list udiff ops skip xs ys p p)) /\
                  DUnder p (fst (default_leaf_list udiff ops skip xs ys p p)).

Theorem leaf_distinct_of_sorted : ops_sorted2 -> leaf_distinct.
Proof.
  intros H p xs ys. unfold default_leaf_list.
  destruct (by_opcodes_low (ops p xs ys) 0 0 xs ys p (H p xs ys)) as [A1 L1].
  destruct (pairs_leaf_box xs ys 0 0 p) as [A2 B2].
  assert (G1 : dpairs (by_opcodes udiff skip (ops p xs ys) xs ys p p) /\ DUnder p (by_opcodes udiff skip (ops p xs ys) xs ys p p))
    by (split; [exact A1|eapply Low_DUnder; exact L1]).
  assert (G2 : dpairs (pairs_leaf udiff skip xs ys 0 0 p p) /\ DUnder p (pairs_leaf udiff skip xs ys 0 0 p p))
    by (split; [exact A2|eapply Low_DUnder; eapply Box_Low; exact B2]).
  destruct (1 <? _); [|exact G1]. destruct (_ <=? _); [exact G2|exact G1].
Qed.

Hypothesis Hleaf : zip c = false -> leaf_distinct.

Definition RUnder (p : path) (rec : list path) : Prop := forall q, In q rec -> exists rest, q = p ++ rest.

Definition IHD (t1 : value) : Prop :=
  forall t2 p, wf t1 = true -> wf t2 = true ->
    (dpairs (fst (diff t1 t2 p p)) /\ DUnder p (fst (diff t1 t2 p p))) /\
    (NoDup (map norm (snd (diff t1 t2 p p))) /\ RUnder p (snd (diff t1 t2 p p))).

Lemma RUnder_weaken p k rec : RUnder (p ++ [k]) rec -> RUnder p rec.
Proof. intros H q Hq. destruct (H q Hq) as [rest E]. exists (k :: rest). rewrite E, <- app_assoc. reflexivity. Qed.

Lemma NoDup_rec_app rec1 rec2 :
  NoDup (map norm rec1) -> NoDup (map norm rec2) ->
  (forall q1 q2, In q1 rec1 -> In q2 rec2 -> norm q1 <> norm q2) -> NoDup (map norm (rec1 ++ rec2)).
Proof.
  intros N1 N2 HC. rewrite map_app. induction rec1 as [|q rec1 IH]; [exact N2|].
  cbn in N1 |- *. inversion N1 as [|? ? Hq N1']; subst. constructor.
  - intros Hin. apply in_app_or in Hin as [Hin|Hin]; [contradiction|].
    apply in_map_iff in Hin as (q2 & E & H2). apply (HC q q2 (or_introl eq_refl) H2). symmetry. exact E.
  - apply IH; [exact N1'|]. intros q1 q2 H1 H2. apply HC; [right; exact H1|exact H2].
Qed.

Lemma rec_cross p k1 k2 rec1 rec2 : key_atom k1 <> key_atom k2 ->
  RUnder (p ++ [k1]) rec1 -> RUnder (p ++ [k2]) rec2 ->
  forall q1 q2, In q1 rec1 -> In q2 rec2 -> norm q1 <> norm q2.
Proof.
  intros N U1 U2 q1 q2 H1 H2. destruct (U1 q1 H1) as [r1 E1]. destruct (U2 q2 H2) as [r2 E2].
  rewrite E1, E2, <- !app_assoc. cbn [app]. apply norm_neq_key. exact N.
Qed.

Definition RIdx (p : path) (i : nat) (rec : list path) : Prop :=
  forall q, In q rec -> exists i' rest, i <= i' /\ q = p ++ PIdx i' :: rest.

Lemma D_go_list xs : Forall IHD xs -> forall ys i p,
  forallb wf xs = true -> forallb wf ys = true ->
  (dpairs (fst (go_list skip diff p p xs ys i)) /\ DIdx p i (fst (go_list skip diff p p xs ys i))) /\
  (NoDup (map norm (snd (go_list skip diff p p xs ys i))) /\ RIdx p i (snd (go_list skip diff p p xs ys i))).
Proof.
  induction 1 as [|x xs Hx _ IH]; intros ys i p W1 W2.
  - cbn. destruct (added_from_box ys i p i) as [A B]. split; [split; [exact A|]|split; [constructor|intros q []]].
    eapply Box_DIdx; [| |exact B]; lia.
  - destruct ys as [|y ys].
    + cbn [go_list fst snd]. destruct (removed_from_box (x :: xs) i p i) as [A B].
      split; [split; [exact A|]|split; [constructor|intros q []]]. eapply Box_DIdx; [| |exact B]; lia.
    + cbn [go_list]. unfold app2. cbn [fst snd].
      cbn in W1, W2. apply andb_true_iff in W1 as [Wx W1], W2 as [Wy W2].
      destruct (Hx y (snoc p (PIdx i)) Wx Wy) as [[A1 U1] [N1 R1]].
      destruct (IH ys (S i) p W1 W2) as [[A2 U2] [N2 R2]].
      split; split.
      * apply dpairs_app; [exact A1|exact A2|]. apply (cross_didx p i); assumption.
      * intros e He N. apply in_app_or in He as [He|He].
        -- destruct (U1 e He N) as [rest E]. exists i, rest. split; [lia|]. rewrite E. unfold snoc. rewrite <- app_assoc. reflexivity.
        -- destruct (U2 e He N) as (i' & rest & L & E). exists i', rest. split; [lia|exact E].
      * apply NoDup_rec_app; [exact N1|exact N2|]. intros q1 q2 H1 H2.
        destruct (R1 q1 H1) as [r1 E1]. destruct (R2 q2 H2) as (i' & r2 & L & E2).
        rewrite E1, E2. unfold snoc. rewrite <- app_assoc. cbn [app]. apply norm_neq_key. apply idx_atom_neq. lia.
      * intros q Hq. apply in_app_or in Hq as [Hq|Hq].
        -- destruct (R1 q Hq) as [rest E]. exists i, rest. split; [lia|]. rewrite E. unfold snoc. rewrite <- app_assoc. reflexivity.
        -- destruct (R2 q Hq) as (i' & rest & L & E). exists i', rest. split; [lia|exact E].
Qed.

Lemma D_seq_body xs ys p : Forall IHD xs -> forallb wf xs = true -> forallb wf ys = true ->
  (dpairs (fst (seq_body hatom udiff ops skip excl c xs ys p p)) /\
   DUnder p (fst (seq_body hatom udiff ops skip excl c xs ys p p))) /\
  (NoDup (map norm (snd (seq_body hatom udiff ops skip excl c xs ys p p))) /\
   RUnder p (snd (seq_body hatom udiff ops skip excl c xs ys p p))).
Proof.
  intros IH W1 W2. unfold seq_body.
  destruct (negb (zip c) && forallb is_atom xs && forallb is_atom ys) eqn:E.
  - apply andb_true_iff in E as [E _]. apply andb_true_iff in E as [E _]. apply negb_true_iff in E.
    pose proof (Hleaf E p xs ys) as P.
    destruct (default_leaf_list udiff ops skip xs ys p p) as [es rec]. cbn [fst snd] in *. split; [exact P|].
    destruct rec; cbn [map]; split.
    + constructor; [intros []|constructor].
    + intros q [<-|[]]. exists []. rewrite app_nil_r. reflexivity.
    + constructor.
    + intros q [].
  - destruct (D_go_list xs IH ys 0 p W1 W2) as [[A U] [N R]]. split; split; try assumption.
    + eapply DIdx_DUnder; exact U.
    + intros q Hq. destruct (R q Hq) as (i' & rest & _ & Eq). eexists. exact Eq.
Qed.

Definition DKeys (p : path) (l : list (atom * value)) (k2 : list atom) (es : list entry) : Prop :=
  forall e, In e es -> grp (ekind e) <> None ->
    exists k0 k' rest, In k0 (map fst l) /\ py_eq k0 k' = true /\ In k' k2 /\ ep1 e = p ++ PKey k' :: rest.
Definition RKeys (p : path) (l : list (atom * value)) (k2 : list atom) (rec : list path) : Prop :=
  forall q, In q rec ->
    exists k0 k' rest, In k0 (map fst l) /\ py_eq k0 k' = true /\ In k' k2 /\ q = p ++ PKey k' :: rest.

Lemma D_go_common kvs2 p : wf (VDict kvs2) = true ->
  forall l, nodup_atoms (map fst l) = true -> forallb (fun kv => wf (snd kv)) l = true ->
  Forall (fun kv => IHD (snd kv)) l ->
  (dpairs (fst (go_common c diff kvs2 (keys_of c kvs2) p p l)) /\
   DKeys p l (keys_of c kvs2) (fst (go_common c diff kvs2 (keys_of c kvs2) p p l))) /\
  (NoDup (map norm (snd (go_common c diff kvs2 (keys_of c kvs2) p p l))) /\
   RKeys p l (keys_of c kvs2) (snd (go_common c diff kvs2 (keys_of c kvs2) p p l))).
Proof.
  intros W2. cbn in W2. apply andb_true_iff in W2 as [_ W2].
  induction l as [|[k v1] l IH]; intros ND W1 HI; cbn [go_common].
  - split; split; try exact I; try constructor; intros x [].
  - cbn in ND, W1. apply andb_true_iff in ND as [NDk ND], W1 as [Wv W1].
    apply Forall_cons_iff in HI as [Hk HI]. cbn [snd] in Hk.
    destruct (IH ND W1 HI) as [[A U] [N R]].
    assert (Uw : DKeys p ((k, v1) :: l) (keys_of c kvs2) (fst (go_common c diff kvs2 (keys_of c kvs2) p p l))).
    { intros e He Ne. destruct (U e He Ne) as (k0 & k' & rest & H0 & H1 & H2 & H3).
      exists k0, k', rest. repeat split; try assumption. right. exact H0. }
    assert (Rw : RKeys p ((k, v1) :: l) (keys_of c kvs2) (snd (go_common c diff kvs2 (keys_of c kvs2) p p l))).
    { intros q Hq. destruct (R q Hq) as (k0 & k' & rest & H0 & H1 & H2 & H3).
      exists k0, k', rest. repeat split; try assumption. right. exact H0. }
    destruct (keep_key c k); [|split; split; assumption].
    destruct (find (py_eq k) (keys_of c kvs2)) as [k'|] eqn:Fk; [|split; split; assumption].
    destruct (assoc k' kvs2) as [v2|] eqn:A2; [|split; split; assumption].
    unfold app2. cbn [fst snd].
    apply find_some in Fk as [Hk' Ek].
    apply assoc_In in A2 as (k'' & Hin2 & Ek'').
    assert (Wv2 : wf v2 = true) by (eapply forallb_forall in W2; [|exact Hin2]; exact W2).
    destruct (Hk v2 (snoc p (PKey k')) Wv Wv2) as [[A1 U1] [N1 R1]].
    (* the key of this child differs from the keys of the later children *)
    assert (KD : forall k0 kq, In k0 (map fst l) -> py_eq k0 kq = true -> key_atom (PKey k') <> key_atom (PKey kq)).
    { intros k0 kq H0 H1 E. cbn in E. subst kq. apply negb_true_iff in NDk.
      assert (mem_atom k (map fst l) = true); [|congruence].
      apply mem_atom_In. exists k0. split; [exact H0|].
      eapply py_eq_trans; [exact Ek|]. rewrite py_eq_sym. exact H1. }
    split; split.
    + apply dpairs_app; [exact A1|exact A|].
      intros x y Hx Hy g G1 G2.
      destruct (U1 x Hx) as [r1 E1]; [congruence|].
      destruct (U y Hy) as (k0 & kq & r2 & H0 & H1 & H2 & E2); [congruence|].
      unfold nloc. rewrite E1, E2. unfold snoc. rewrite <- !app_assoc. cbn [app]. apply norm_neq_key. eapply KD; eassumption.
    + intros e He Ne. apply in_app_or in He as [He|He]; [|apply Uw; assumption].
      destruct (U1 e He Ne) as [rest E]. exists k, k', rest. repeat split; try assumption.
      * left. reflexivity.
      * rewrite E. unfold snoc. rewrite <- app_assoc. reflexivity.
    + apply NoDup_rec_app; [exact N1|exact N|]. intros q1 q2 H1 H2.
      destruct (R1 q1 H1) as [r1 E1]. destruct (R q2 H2) as (k0 & kq & r2 & H0 & H3 & H4 & E2).
      rewrite E1, E2. unfold snoc. rewrite <- app_assoc. cbn [app]. apply norm_neq_key. eapply KD; eassumption.
    + intros q Hq. apply in_app_or in Hq as [Hq|Hq]; [|apply Rw; assumption].
      destruct (R1 q Hq) as [rest E]. exists k, k', rest. repeat split; try assumption.
      * left. reflexivity.
      * rewrite E. unfold snoc. rewrite <- app_assoc. reflexivity.
Qed.

(* the node's own added / removed keys *)
Lemma own_keys (kd : rkind) (g0 : nat) (f : atom -> list entry) p l :
  NoDup l -> grp kd = Some g0 ->
  (forall k, f k = [] \/ exists e, f k = [e] /\ ekind e = kd /\ ep1 e = snoc p (PKey k)) ->
  dpairs (flat_map f l) /\
  forall e, In e (flat_map f l) -> exists k, In k l /\ ekind e = kd /\ ep1 e = p ++ [PKey k].
Proof.
  intros ND G Hf. induction l as [|k l IH]; cbn [flat_map].
  - split; [exact I|intros e []].
  - inversion ND as [|? ? Hk ND']; subst. destruct (IH ND') as [A S].
    split.
    + apply dpairs_app; [|exact A|].
      * destruct (Hf k) as [->|(e & -> & _)]; cbn; [exact I|split; [constructor|exact I]].
      * intros x y Hx Hy g G1 G2.
        destruct (Hf k) as [E|(e & E & Ke & Pe)]; rewrite E in Hx; [destruct Hx|]. destruct Hx as [<-|[]].
        destruct (S y Hy) as (k2 & Hk2 & _ & Py). unfold nloc. rewrite Pe, Py. unfold snoc.
        apply norm_neq_key. cbn. intros Ek. inversion Ek. subst k2. contradiction.
    + intros e He. apply in_app_or in He as [He|He].
      * destruct (Hf k) as [E|(e0 & E & Ke & Pe)]; rewrite E in He; [destruct He|]. destruct He as [<-|[]].
        exists k. split; [left; reflexivity|]. split; assumption.
      * destruct (S e He) as (k2 & Hk2 & H). exists k2. split; [right; exact Hk2|exact H].
Qed.

Lemma D_dict_body kvs1 kvs2 p : Forall (fun kv => IHD (snd kv)) kvs1 ->
  wf (VDict kvs1) = true -> wf (VDict kvs2) = true ->
  (dpairs (fst (dict_body hatom udiff ops skip excl c kvs1 kvs2 p p)) /\
   DUnder p (fst (dict_body hatom udiff ops skip excl c kvs1 kvs2 p p))) /\
  (NoDup (map norm (snd (dict_body hatom udiff ops skip excl c kvs1 kvs2 p p))) /\
   RUnder p (snd (dict_body hatom udiff ops skip excl c kvs1 kvs2 p p))).
Proof.
  intros IH W1 W2. unfold dict_body.
  destruct (dict_shortcut _ _ _ _ _); cbn [fst snd].
  - pose proof (report_at1 KValue p p (Some (VDict kvs1)) (Some (VDict kvs2)) None) as A1.
    split; split; [eapply at1_dpairs; exact A1|eapply at1_DUnder; exact A1|constructor|intros q []].
  - pose proof W1 as W1'. cbn in W1. apply andb_true_iff in W1 as [ND1 W1].
    pose proof W2 as W2'. cbn in W2'. apply andb_true_iff in W2' as [ND2 _].
    destruct (D_go_common kvs2 p W2 kvs1 ND1 W1 IH) as [[A U] [N R]].
    set (k1 := keys_of c kvs1) in *. set (k2 := keys_of c kvs2) in *.
    assert (NDk1 : NoDup k1) by (apply NoDup_filter; apply nodup_atoms_NoDup; exact ND1).
    assert (NDk2 : NoDup k2) by (apply NoDup_filter; apply nodup_atoms_NoDup; exact ND2).
    destruct (own_keys KDictAdd 3 (fun k => if mem_atom k k1 then [] else report skip KDictAdd (snoc p (PKey k)) (snoc p (PKey k)) None (assoc k kvs2) None) p k2 NDk2 eq_refl) as [AA SA].
    { intros k. destruct (mem_atom k k1); [left; reflexivity|]. unfold report. destruct (skip _); [left; reflexivity|right; eexists; repeat split]. }
    destruct (own_keys KDictRem 4 (fun k => if mem_atom k k2 then [] else report skip KDictRem (snoc p (PKey k)) (snoc p (PKey k)) (assoc k kvs1) None None) p k1 NDk1 eq_refl) as [AR SR].
    { intros k. destruct (mem_atom k k2); [left; reflexivity|]. unfold report. destruct (skip _); [left; reflexivity|right; eexists; repeat split]. }
    split; [split|split; [exact N|]].
    + apply dpairs_app; [exact AA| |].
      * apply dpairs_app; [exact AR|exact A|].
        (* removed keys vs children *)
        intros x y Hx Hy g G1 G2. destruct (SR x Hx) as (kr & Hkr & Kx & Px).
        destruct (U y Hy) as (k0 & kq & r2 & H0 & H1 & H2 & E2); [congruence|].
        unfold nloc. rewrite Px, E2. apply norm_neq_key. cbn. intros E. inversion E. subst kq.
        apply in_flat_map in Hx as (kx & _ & Hx). 
        assert (M : mem_atom kr k2 = true) by (apply mem_atom_In; exists kr; split; [exact H2|apply py_eq_refl]).
        destruct (mem_atom kx k2) eqn:Mx; [destruct Hx|].
        apply report_in in Hx as [_ Ex]. rewrite Px in Ex. unfold snoc in Ex. apply app_inv_head in Ex. inversion Ex. subst kx. congruence.
      * intros x y Hx Hy g G1 G2. destruct (SA x Hx) as (ka & Hka & Kx & Px).
        apply in_app_or in Hy as [Hy|Hy].
        -- destruct (SR y Hy) as (kr & _ & Ky & _). rewrite Kx in G1. rewrite Ky in G2. cbn in G1, G2. congruence.
        -- destruct (U y Hy) as (k0 & kq & r2 & H0 & H1 & H2 & E2); [congruence|].
           unfold nloc. rewrite Px, E2. apply norm_neq_key. cbn. intros E. inversion E. subst kq.
           apply in_flat_map in Hx as (kx & _ & Hx). destruct (mem_atom kx k1) eqn:Mx; [destruct Hx|].
           apply report_in in Hx as [_ Ex]. rewrite Px in Ex. unfold snoc in Ex. apply app_inv_head in Ex. inversion Ex. subst kx.
           assert (M : mem_atom ka k1 = true); [|congruence].
           apply mem_atom_In. exists k0. split; [|rewrite py_eq_sym; exact H1].
           unfold k1. apply keys_of_In. split; [exact H0|].
           assert (Kq : keep_key c ka = true) by (apply keys_of_In in H2 as [_ Kq]; exact Kq).
           rewrite (keep_key_py_eq c k0 ka H1). exact Kq.
    + apply DUnder_app; [|apply DUnder_app].
      * intros e He _. destruct (SA e He) as (k & _ & _ & E). exists [PKey k]. exact E.
      * intros e He _. destruct (SR e He) as (k & _ & _ & E). exists [PKey k]. exact E.
      * intros e He Ne. destruct (U e He Ne) as (k0 & k' & rest & _ & _ & _ & E). eexists. exact E.
    + intros q Hq. destruct (R q Hq) as (k0 & k' & rest & _ & _ & _ & E). eexists. exact E.
Qed.

Lemma diff_set_free xs ys p : DFree (diff_set hatom skip xs ys p p).
Proof.
  intros e He. unfold diff_set in He. apply in_app_or in He as [He|He];
    apply in_flat_map in He as (y & _ & He); (destruct (existsb _ _); [destruct He|]);
    unfold report_set in He; (destruct (skip p); [destruct He|]); destruct He as [<-|[]]; reflexivity.
Qed.

Theorem diff_distinct : forall t1, IHD t1.
Proof.
  induction t1 as [a|xs IH|xs IH|kvs IH|xs|xs] using value_ind'; intros t2 p W1 W2;
    (destruct (skip p) eqn:Hs; [rewrite diff_skip by exact Hs; split; split; try exact I; try constructor; intros x []|]);
    (match goal with |- context [diff ?t1 t2 _ _] => destruct (ty_eqb (type_of t1) (type_of t2)) eqn:T end;
     [|rewrite diff_type by assumption; cbn [fst snd];
       match goal with |- context [report skip ?k ?p1 ?p2 ?a ?b ?d] =>
         pose proof (report_at1 k p1 p2 a b d) as A1 end;
       split; split; [eapply at1_dpairs; exact A1|eapply at1_DUnder; exact A1|constructor|intros q []]]);
    apply ty_eqb_true in T; destruct t2; try discriminate T; try (destruct a; discriminate T).
  - rewrite diff_atom_eq by exact Hs. cbn in T. rewrite T.
    replace (ty_eqb (atom_ty a0) (atom_ty a0)) with true by (destruct (atom_ty a0); reflexivity).
    cbn [negb fst snd]. pose proof (diff_atom_at1 a a0 p p) as A1.
    split; split; [eapply at1_dpairs; exact A1|eapply at1_DUnder; exact A1|constructor|intros q []].
  - rewrite diff_list by exact Hs. apply D_seq_body; assumption.
  - rewrite diff_tuple by exact Hs. apply D_seq_body; assumption.
  - rewrite diff_dict by exact Hs. apply D_dict_body; assumption.
  - rewrite diff_vset by exact Hs. cbn [fst snd]. pose proof (diff_set_free xs xs0 p) as F.
    split; split; [apply DFree_dpairs; exact F|apply DFree_DUnder; exact F|constructor|intros q []].
  - rewrite diff_vfrozen by exact Hs. cbn [fst snd]. pose proof (diff_set_free xs xs0 p) as F.
    split; split; [apply DFree_dpairs; exact F|apply DFree_DUnder; exact F|constructor|intros q []].
Qed.

End Distinct.

(* mutual_add_removes keeps the groups and the paths *)
Lemma dpairs_flat_map (g : entry -> list entry) es :
  (forall e, In e es -> g e = [] \/ exists x, g e = [x] /\ grp (ekind x) = grp (ekind e) /\ nloc x = nloc e) ->
  dpairs es -> dpairs (flat_map g es).
Proof.
  induction es as [|e es IH]; cbn; intros G A; [exact I|]. destruct A as [He A].
  assert (IH' : dpairs (flat_map g es)) by (apply IH; [intros x Hx; apply G; right; exact Hx|exact A]).
  destruct (G e (or_introl eq_refl)) as [->|(x & -> & Cx & Lx)]; [exact IH'|].
  cbn. split; [|exact IH'].
  apply Forall_forall. intros y Hy. apply in_flat_map in Hy as (e' & He' & Hy).
  assert (Re : Rd e e') by (eapply Forall_forall in He; eassumption).
  destruct (G e' (or_intror He')) as [E|(y' & E & Cy & Ly)]; rewrite E in Hy; [destruct Hy|].
  destruct Hy as [<-|[]]. intros g0 G1 G2. rewrite Lx, Ly. apply (Re g0); congruence.
Qed.

Lemma mutual_dpairs es : dpairs es -> dpairs (mutual es).
Proof.
  intros A. unfold mutual. apply dpairs_flat_map; [|exact A].
  intros e He.
  destruct (ekind e) eqn:K;
    try (right; exists e; split; [reflexivity|split; [rewrite K; reflexivity|reflexivity]]).
  - destruct (last_with_path _ _); [left; reflexivity|].
    right; exists e; split; [reflexivity|split; [rewrite K; reflexivity|reflexivity]].
  - destruct (last_with_path (ep1 e) (filter (is_kind KIterAdd) es)) as [a|];
      [|right; exists e; split; [reflexivity|split; [rewrite K; reflexivity|reflexivity]]].
    destruct (last_with_path (ep1 e) (filter (is_kind KIterRem) es)) as [r|];
      [|right; exists e; split; [reflexivity|split; [rewrite K; reflexivity|reflexivity]]].
    right. eexists. split; [reflexivity|]. split; reflexivity.
Qed.

Lemma dpairs_kind_NoDup k es : grp k <> None -> dpairs es ->
  NoDup (map nloc (filter (is_kind k) es)).
Proof.
  intros G. induction es as [|e es IH]; cbn; intros A; [constructor|]. destruct A as [He A].
  destruct (is_kind k e) eqn:Ke; [|apply IH; exact A].
  cbn. constructor; [|apply IH; exact A].
  intros Hin. apply in_map_iff in Hin as (e' & E & He'). apply filter_In in He' as [He' Ke'].
  eapply Forall_forall in He; [|exact He'].
  assert (K1 : ekind e = k) by (unfold is_kind in Ke; destruct (ekind e), k; try discriminate; reflexivity).
  assert (K2 : ekind e' = k) by (unfold is_kind in Ke'; destruct (ekind e'), k; try discriminate; reflexivity).
  destruct (grp k) as [g|] eqn:Gk; [|congruence].
  apply (He g); [rewrite K1; exact Gk|rewrite K2; exact Gk|symmetry; exact E].
Qed.

Section Final.
Variable hatom : atom -> pystr.
Variable udiff : pystr -> pystr -> pystr.
Variable ops : path -> list value -> list value -> list opcode.
Variable skip excl : path -> bool.
Variable c : cfg.

Theorem run_diff_dpairs t1 t2 :
  zip c = true \/ ops_sorted2 ops -> wf t1 = true -> wf t2 = true ->
  dpairs (fst (run_diff hatom udiff ops skip excl c t1 t2)) /\
  NoDup (map norm (snd (run_diff hatom udiff ops skip excl c t1 t2))).
Proof.
  intros M W1 W2. unfold run_diff.
  assert (Hleaf : zip c = false -> leaf_distinct udiff ops skip).
  { intros Z. destruct M as [Z'|O]; [congruence|]. apply leaf_distinct_of_sorted. exact O. }
  destruct (diff_distinct hatom udiff ops skip excl c Hleaf t1 t2 [] W1 W2) as [[A _] [N _]].
  destruct (diff hatom udiff ops skip excl c t1 t2 [] []) as [es rec]. cbn [fst snd] in *.
  split; [apply mutual_dpairs; exact A|exact N].
Qed.

(* (a) within each kind (other than set items, which share the path of their
   set) the normalised t1 paths of the reported levels are pairwise distinct *)
Theorem run_diff_paths_distinct t1 t2 k :
  zip c = true \/ ops_sorted2 ops -> wf t1 = true -> wf t2 = true -> grp k <> None ->
  NoDup (map (fun e => norm (ep1 e)) (filter (is_kind k) (fst (run_diff hatom udiff ops skip excl c t1 t2)))).
Proof. intros M W1 W2 G. apply dpairs_kind_NoDup; [exact G|]. apply run_diff_dpairs; assumption. Qed.

Corollary run_diff_ep1_distinct t1 t2 k :
  zip c = true \/ ops_sorted2 ops -> wf t1 = true -> wf t2 = true -> grp k <> None ->
  NoDup (map ep1 (filter (is_kind k) (fst (run_diff hatom udiff ops skip excl c t1 t2)))).
Proof.
  intros M W1 W2 G. pose proof (run_diff_paths_distinct t1 t2 k M W1 W2 G) as H.
  rewrite <- (map_map ep1 norm) in H. eapply NoDup_map_inv. exact H.
Qed.

Theorem run_diff_rec_distinct t1 t2 :
  zip c = true \/ ops_sorted2 ops -> wf t1 = true -> wf t2 = true ->
  NoDup (map norm (snd (run_diff hatom udiff ops skip excl c t1 t2))).
Proof. intros M W1 W2. apply run_diff_dpairs; assumption. Qed.

End Final.

(* the opcode hypothesis on the opcodes difflib returns for [1,2,3,4] -> [0,1,2,3,5] *)
Example ops_ok2_difflib : ops_ok2 0 0 [mkOp OInsert 0 0 0 1; mkOp OEqual 0 3 1 4; mkOp OReplace 3 4 4 5] = true.
Proof. reflexivity. Qed.

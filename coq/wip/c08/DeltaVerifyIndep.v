(** C08: the independence guard [indep_verified] of the detection theorems is
    a THEOREM for the bidirectional delta of an ordered diff: the locations
    of the reported value / type changes (and of removed iterable items, which
    mutual_add_removes may turn into value changes) diverge pairwise and from
    the locations of changed sets.

    By structural induction on t1, for every nested value, every skip oracle,
    every threshold.  Hypotheses: Python's representation invariant [wf],
    no negative int among the dict keys of t2 ([keys_nonneg]: a negative key
    and a list index could alias in the container-agnostic [diverge]), and -
    only when zip_ordered_iterables=False - that the alignment of two all-atom
    lists reports each t1 index at most once ([leaf_good], a property of the
    difflib oracle; nothing is assumed when zip_ordered_iterables=True). *)
From Coq Require Import List ZArith NArith Bool Arith Lia.
Import ListNotations.
From DD Require Import Base.PyStr Base.Value Base.ValueFacts Path.PathModel
  Diff.Tree Diff.DiffModel Diff.DiffFacts Diff.DiffFaithful
  Delta.DeltaModel Delta.DeltaVerify Delta.DeltaReverse.

Fixpoint keys_nonneg (v : value) : bool :=
  match v with
  | VAtom _ => true
  | VList xs | VTuple xs => forallb keys_nonneg xs
  | VDict kvs => forallb (fun kv => nonneg_key (fst kv) && keys_nonneg (snd kv)) kvs
  | VSet _ | VFrozen _ => true
  end.

(* [addA]: also treat added iterable items as located entries (used for the
   positional mode, where an added and a removed item never share a path) *)
Section WithAdd.
Variable addA : bool.

Definition loc (e : entry) : path := npath (ep1 e).
(* Some true: located on the t1 side and verified (or possibly turned into a
   value change); Some false: a set whose items change *)
Definition cls (e : entry) : option bool :=
  match ekind e with
  | KValue | KType | KIterRem => Some true
  | KIterAdd => if addA then Some true else None
  | KSetAdd | KSetRem => Some false
  | _ => None
  end.
Definition R (e e' : entry) : Prop :=
  match cls e, cls e' with
  | Some true, Some _ | Some false, Some true => diverge (loc e) (loc e') = true
  | _, _ => True
  end.

Lemma R_sym e e' : R e e' -> R e' e.
Proof.
  unfold R. destruct (cls e) as [[|]|], (cls e') as [[|]|]; try exact (fun H => H);
    rewrite diverge_sym; exact (fun H => H).
Qed.

Lemma R_key x e y : cls x = cls e -> loc x = loc e -> R e y -> R x y.
Proof. unfold R. intros -> ->. exact (fun H => H). Qed.

Lemma R_free_l x y : cls x = None -> R x y.
Proof. unfold R. intros ->. exact I. Qed.
Lemma R_free_r x y : cls y = None -> R x y.
Proof. unfold R. intros ->. destruct (cls x) as [[|]|]; exact I. Qed.

Fixpoint allpairs (l : list entry) : Prop :=
  match l with [] => True | x :: r => Forall (R x) r /\ allpairs r end.

Lemma allpairs_app l1 l2 :
  allpairs l1 -> allpairs l2 -> (forall x y, In x l1 -> In y l2 -> R x y) -> allpairs (l1 ++ l2).
Proof.
  induction l1 as [|x l1 IH]; cbn; intros H1 H2 HC; [exact H2|].
  destruct H1 as [Hx H1]. split.
  - apply Forall_app. split; [exact Hx|]. apply Forall_forall. intros y Hy. apply HC; [left; reflexivity|exact Hy].
  - apply IH; [exact H1|exact H2|]. intros a b Ha Hb. apply HC; [right; exact Ha|exact Hb].
Qed.

Lemma allpairs_In l : allpairs l -> forall x y, In x l -> In y l -> x <> y -> R x y.
Proof.
  induction l as [|z l IH]; cbn; [intros _ x y []|]. intros [Hz Hl] x y Hx Hy N.
  destruct Hx as [<-|Hx], Hy as [<-|Hy].
  - congruence.
  - eapply Forall_forall in Hz; eassumption.
  - apply R_sym. eapply Forall_forall in Hz; eassumption.
  - apply IH; assumption.
Qed.

Definition Free (l : list entry) : Prop := forall e, In e l -> cls e = None.
Definition Under (p : path) (l : list entry) : Prop :=
  forall e, In e l -> cls e <> None -> exists rest, ep1 e = p ++ rest.
Definition atmost1 (p : path) (l : list entry) : Prop := l = [] \/ exists e, l = [e] /\ ep1 e = p.

Lemma Free_allpairs l : Free l -> allpairs l.
Proof.
  induction l as [|x l IH]; cbn; intros F; [exact I|]. split.
  - apply Forall_forall. intros y _. apply R_free_l. apply F. left. reflexivity.
  - apply IH. intros e He. apply F. right. exact He.
Qed.
Lemma Free_Under p l : Free l -> Under p l.
Proof. intros F e He N. rewrite (F e He) in N. congruence. Qed.
Lemma Free_cross_l l1 l2 : Free l1 -> forall x y, In x l1 -> In y l2 -> R x y.
Proof. intros F x y Hx _. apply R_free_l. apply F. exact Hx. Qed.
Lemma Free_cross_r l1 l2 : Free l2 -> forall x y, In x l1 -> In y l2 -> R x y.
Proof. intros F x y _ Hy. apply R_free_r. apply F. exact Hy. Qed.

Lemma atmost1_allpairs p l : atmost1 p l -> allpairs l.
Proof. intros [->|(e & -> & _)]; cbn; [exact I|split; [constructor|exact I]]. Qed.
Lemma atmost1_Under p l : atmost1 p l -> Under p l.
Proof.
  intros [->|(e & -> & E)] x Hx _; [destruct Hx|]. destruct Hx as [<-|[]]. exists []. rewrite app_nil_r. exact E.
Qed.

Lemma Under_app p l1 l2 : Under p l1 -> Under p l2 -> Under p (l1 ++ l2).
Proof. intros H1 H2 e He. apply in_app_or in He as [He|He]; [apply H1|apply H2]; exact He. Qed.

Lemma Under_weaken p k l : Under (p ++ [k]) l -> Under p l.
Proof.
  intros H e He N. destruct (H e He N) as [rest E]. exists (k :: rest). rewrite E, <- app_assoc. reflexivity.
Qed.

(* ---- divergence below separated keys ---- *)
Lemma diverge_norm_app : forall p k1 k2 r1 r2,
  sep (key_atom k1) (key_atom k2) = true ->
  diverge (norm (p ++ k1 :: r1)) (norm (p ++ k2 :: r2)) = true.
Proof.
  induction p as [|k p IH]; intros k1 k2 r1 r2 S.
  - cbn [app norm map diverge pkey_eqb].
    destruct (atom_eqb (key_atom k1) (key_atom k2)) eqn:E; [|exact S].
    apply atom_eqb_eq in E. unfold sep in S. rewrite E, py_eq_refl in S. discriminate.
  - cbn [app norm map diverge pkey_eqb]. rewrite atom_eqb_refl. apply IH. exact S.
Qed.

Lemma sep_idx i j : i <> j -> sep (key_atom (PIdx i)) (key_atom (PIdx j)) = true.
Proof.
  intros N. unfold sep, nonneg_key. cbn [key_atom int_of_atom].
  assert (E : py_eq (AInt (Z.of_nat i)) (AInt (Z.of_nat j)) = false).
  { rewrite (int_of_atom_py_eq (AInt (Z.of_nat i)) (AInt (Z.of_nat j)) (Z.of_nat i) (Z.of_nat j) eq_refl eq_refl). apply Z.eqb_neq. lia. }
  rewrite E. cbn. destruct (Z.leb_spec 0 (Z.of_nat i)); [|lia]. destruct (Z.leb_spec 0 (Z.of_nat j)); [|lia]. reflexivity.
Qed.

Lemma cross_under p k1 k2 l1 l2 :
  sep (key_atom k1) (key_atom k2) = true ->
  Under (p ++ [k1]) l1 -> Under (p ++ [k2]) l2 ->
  forall x y, In x l1 -> In y l2 -> R x y.
Proof.
  intros S U1 U2 x y Hx Hy. unfold R.
  destruct (cls x) as [bx|] eqn:Cx; [|exact I]. destruct (cls y) as [by_|] eqn:Cy; [|destruct bx; exact I].
  destruct (U1 x Hx) as [r1 E1]; [congruence|]. destruct (U2 y Hy) as [r2 E2]; [congruence|].
  assert (D : diverge (loc x) (loc y) = true).
  { unfold loc, npath. rewrite E1, E2, <- !app_assoc. cbn [app]. apply diverge_norm_app. exact S. }
  destruct bx, by_; try exact D. exact I.
Qed.

Section Indep.
Variable hatom : atom -> pystr.
Variable udiff : pystr -> pystr -> pystr.
Variable ops : path -> list value -> list value -> list opcode.
Variable skip excl : path -> bool.
Variable c : cfg.
Notation diff := (diff hatom udiff ops skip excl c).

(* the alignment of two all-atom lists reports each t1 location at most once *)
Definition leaf_good : Prop :=
  forall p xs ys, allpairs (fst (default_leaf_list udiff ops skip xs ys p p)) /\
                  Under p (fst (default_leaf_list udiff ops skip xs ys p p)).
Hypothesis Hleaf : zip c = false -> leaf_good.

Lemma report_atmost1 k p1 p2 a b d : atmost1 p1 (report skip k p1 p2 a b d).
Proof. unfold report. destruct (skip p1); [left; reflexivity|right; eexists; split; reflexivity]. Qed.

Lemma report_kind k p1 p2 a b d e : In e (report skip k p1 p2 a b d) -> ekind e = k /\ ep1 e = p1.
Proof. unfold report. destruct (skip p1); [intros []|]. intros [<-|[]]. split; reflexivity. Qed.

Lemma diff_atom_atmost1 a b p1 p2 : atmost1 p1 (diff_atom udiff skip a b p1 p2).
Proof.
  unfold diff_atom. destruct (skip p1); [left; reflexivity|].
  destruct (negb _); [apply report_atmost1|].
  destruct a, b; try (destruct (py_eq _ _); [left; reflexivity|apply report_atmost1]).
  - destruct (diff_str udiff false s s0) as [ch d]. destruct ch; [apply report_atmost1|left; reflexivity].
  - destruct (diff_str udiff true s s0) as [ch d]. destruct ch; [apply report_atmost1|left; reflexivity].
Qed.

Lemma added_from_Free ys j p : addA = false -> Free (added_from skip ys j p p).
Proof.
  intros HA. revert j; induction ys as [|y ys IH]; intros j e He; cbn in He; [destruct He|].
  apply in_app_or in He as [He|He]; [|eapply IH; exact He].
  apply report_kind in He as [K _]. unfold cls. rewrite K, HA. reflexivity.
Qed.

(* entries located at p ++ [PIdx i'] ++ rest with i' >= i *)
Definition UnderIdx (p : path) (i : nat) (l : list entry) : Prop :=
  forall e, In e l -> cls e <> None -> exists i' rest, i <= i' /\ ep1 e = p ++ PIdx i' :: rest.

Lemma UnderIdx_Under p i l : UnderIdx p i l -> Under p l.
Proof. intros H e He N. destruct (H e He N) as (i' & rest & _ & E). eexists. exact E. Qed.
Lemma UnderIdx_weaken p i j l : i <= j -> UnderIdx p j l -> UnderIdx p i l.
Proof. intros L H e He N. destruct (H e He N) as (i' & rest & L' & E). exists i', rest. split; [lia|exact E]. Qed.
Lemma Free_UnderIdx p i l : Free l -> UnderIdx p i l.
Proof. intros F e He N. rewrite (F e He) in N. congruence. Qed.

Lemma cross_idx p i l1 l2 :
  Under (p ++ [PIdx i]) l1 -> UnderIdx p (S i) l2 -> forall x y, In x l1 -> In y l2 -> R x y.
Proof.
  intros U1 U2 x y Hx Hy. unfold R.
  destruct (cls x) as [bx|] eqn:Cx; [|exact I]. destruct (cls y) as [by_|] eqn:Cy; [|destruct bx; exact I].
  destruct (U1 x Hx) as [r1 E1]; [congruence|]. destruct (U2 y Hy) as (i' & r2 & L & E2); [congruence|].
  assert (D : diverge (loc x) (loc y) = true).
  { unfold loc, npath. rewrite E1, E2, <- !app_assoc. cbn [app]. apply diverge_norm_app. apply sep_idx. lia. }
  destruct bx, by_; try exact D. exact I.
Qed.

Lemma removed_from_good xs : forall i p,
  allpairs (removed_from skip xs i p p) /\ UnderIdx p i (removed_from skip xs i p p).
Proof.
  induction xs as [|x xs IH]; intros i p; cbn [removed_from].
  - split; [exact I|intros e []].
  - destruct (IH (S i) p) as [A U].
    pose proof (report_atmost1 KIterRem (snoc p (PIdx i)) (snoc p (PIdx i)) (Some x) None None) as A1.
    split.
    + apply allpairs_app; [eapply atmost1_allpairs; exact A1|exact A|].
      apply (cross_idx p i); [|exact U]. apply atmost1_Under. exact A1.
    + intros e He N. apply in_app_or in He as [He|He].
      * apply report_kind in He as [_ E]. exists i, []. split; [lia|exact E].
      * destruct (U e He N) as (i' & rest & L & E). exists i', rest. split; [lia|exact E].
Qed.

Lemma added_from_good ys : forall j p,
  allpairs (added_from skip ys j p p) /\ UnderIdx p j (added_from skip ys j p p).
Proof.
  induction ys as [|y ys IH]; intros j p; cbn [added_from].
  - split; [exact I|intros e []].
  - destruct (IH (S j) p) as [A U].
    pose proof (report_atmost1 KIterAdd (snoc p (PIdx j)) (snoc p (PIdx j)) None (Some y) None) as A1.
    split.
    + apply allpairs_app; [eapply atmost1_allpairs; exact A1|exact A|].
      apply (cross_idx p j); [|exact U]. apply atmost1_Under. exact A1.
    + intros e He N. apply in_app_or in He as [He|He].
      * apply report_kind in He as [_ E]. exists j, []. split; [lia|exact E].
      * destruct (U e He N) as (i' & rest & L & E). exists i', rest. split; [lia|exact E].
Qed.

(* ---- all-atom lists: both passes report each t1 index at most once when
        the t1 ranges of the opcodes are sorted and disjoint ---- *)
Definition UnderRange (p : path) (a b : nat) (l : list entry) : Prop :=
  forall e, In e l -> cls e <> None -> exists i' rest, a <= i' < b /\ ep1 e = p ++ PIdx i' :: rest.

Lemma UnderRange_UnderIdx p a b l : UnderRange p a b l -> UnderIdx p a l.
Proof. intros H e He N. destruct (H e He N) as (i' & rest & L & E). exists i', rest. split; [lia|exact E]. Qed.
Lemma UnderRange_weaken p a b a' b' l : a' <= a -> b <= b' -> UnderRange p a b l -> UnderRange p a' b' l.
Proof. intros La Lb H e He N. destruct (H e He N) as (i' & rest & L & E). exists i', rest. split; [lia|exact E]. Qed.
Lemma Free_UnderRange p a b l : Free l -> UnderRange p a b l.
Proof. intros F e He N. rewrite (F e He) in N. congruence. Qed.
Lemma UnderRange_app p a b l1 l2 : UnderRange p a b l1 -> UnderRange p a b l2 -> UnderRange p a b (l1 ++ l2).
Proof. intros H1 H2 e He. apply in_app_or in He as [He|He]; [apply H1|apply H2]; exact He. Qed.

Lemma cross_range p a b l1 l2 :
  UnderRange p a b l1 -> UnderIdx p b l2 -> forall x y, In x l1 -> In y l2 -> R x y.
Proof.
  intros U1 U2 x y Hx Hy. unfold R.
  destruct (cls x) as [bx|] eqn:Cx; [|exact I]. destruct (cls y) as [by_|] eqn:Cy; [|destruct bx; exact I].
  destruct (U1 x Hx) as (i1 & r1 & L1 & E1); [congruence|]. destruct (U2 y Hy) as (i2 & r2 & L2 & E2); [congruence|].
  assert (D : diverge (loc x) (loc y) = true).
  { unfold loc, npath. rewrite E1, E2. apply diverge_norm_app. apply sep_idx. lia. }
  destruct bx, by_; try exact D. exact I.
Qed.

Lemma atmost1_UnderRange p i l : atmost1 (snoc p (PIdx i)) l -> UnderRange p i (S i) l.
Proof.
  intros [->|(e & -> & E)] x Hx _; [destruct Hx|]. destruct Hx as [<-|[]]. exists i, []. split; [lia|exact E].
Qed.

Lemma removed_from_range xs : forall i p, UnderRange p i (i + length xs) (removed_from skip xs i p p).
Proof.
  induction xs as [|x xs IH]; intros i p; cbn [removed_from length]; [intros e []|].
  apply UnderRange_app.
  - eapply UnderRange_weaken; [| |apply atmost1_UnderRange; apply report_atmost1]; lia.
  - eapply UnderRange_weaken; [| |apply IH]; lia.
Qed.

Lemma pairs_leaf_good xs : addA = false -> forall ys i j p,
  allpairs (pairs_leaf udiff skip xs ys i j p p) /\
  UnderRange p i (i + length xs) (pairs_leaf udiff skip xs ys i j p p).
Proof.
  intros HA. induction xs as [|x xs IH]; intros ys i j p.
  - cbn. assert (F : Free (added_from skip ys j p p)) by (apply added_from_Free; exact HA).
    destruct ys; (split; [apply Free_allpairs|apply Free_UnderRange]); exact F.
  - destruct ys as [|y ys].
    + cbn [pairs_leaf]. split; [apply removed_from_good|apply removed_from_range].
    + cbn [pairs_leaf length]. destruct (IH ys (S i) (S j) p) as [A U].
      set (hd := if negb (i =? j) && py_eq_leaf x y then _ else _).
      assert (H1 : (Free hd \/ atmost1 (snoc p (PIdx i)) hd)).
      { unfold hd. destruct (negb (i =? j) && py_eq_leaf x y).
        - left. intros e He. apply report_kind in He as [K _]. unfold cls. rewrite K. reflexivity.
        - right. unfold diff_leaf. destruct x, y; try (left; reflexivity). apply diff_atom_atmost1. }
      assert (A1 : allpairs hd) by (destruct H1 as [F|F]; [apply Free_allpairs; exact F|eapply atmost1_allpairs; exact F]).
      assert (U1 : UnderRange p i (S i) hd) by (destruct H1 as [F|F]; [apply Free_UnderRange; exact F|apply atmost1_UnderRange; exact F]).
      split.
      * apply allpairs_app; [exact A1|exact A|]. apply (cross_range p i (S i)); [exact U1|].
        eapply UnderRange_UnderIdx. exact U.
      * apply UnderRange_app; [eapply UnderRange_weaken; [| |exact U1]; lia|eapply UnderRange_weaken; [| |exact U]; lia].
Qed.

Fixpoint ops_ok (lo : nat) (os : list opcode) : bool :=
  match os with
  | [] => true
  | o :: r => Nat.leb lo (oi1 o) && Nat.leb (oi1 o) (oi2 o) && ops_ok (oi2 o) r
  end.

Lemma by_opcodes_good os : addA = false -> forall lo xs ys p, ops_ok lo os = true ->
  allpairs (by_opcodes udiff skip os xs ys p p) /\ UnderIdx p lo (by_opcodes udiff skip os xs ys p p).
Proof.
  intros HA. induction os as [|o os IH]; intros lo xs ys p H; unfold by_opcodes in *; cbn [flat_map].
  - split; [exact I|intros e []].
  - cbn in H. apply andb_true_iff in H as [H H3]. apply andb_true_iff in H as [H1 H2].
    apply Nat.leb_le in H1, H2. destruct (IH (oi2 o) xs ys p H3) as [A U].
    set (blk := match otag o with OEqual => [] | _ => _ end).
    assert (B : allpairs blk /\ UnderRange p (oi1 o) (oi2 o) blk).
    { unfold blk. pose proof (slice_length_le xs (oi1 o) (oi2 o)) as SL. destruct (otag o).
      - split; [exact I|intros e []].
      - destruct (pairs_leaf_good (slice xs (oi1 o) (oi2 o)) HA (slice ys (oj1 o) (oj2 o)) (oi1 o) (oj1 o) p) as [A1 U1].
        split; [exact A1|eapply UnderRange_weaken; [| |exact U1]; lia].
      - split; [apply removed_from_good|]. eapply UnderRange_weaken; [| |apply removed_from_range]; lia.
      - assert (F : Free (added_from skip (slice ys (oj1 o) (oj2 o)) (oj1 o) p p)) by (apply added_from_Free; exact HA).
        split; [apply Free_allpairs|apply Free_UnderRange]; exact F. }
    destruct B as [A1 U1]. split.
    + apply allpairs_app; [exact A1|exact A|]. apply (cross_range p (oi1 o) (oi2 o)); assumption.
    + intros e He N. apply in_app_or in He as [He|He].
      * destruct (U1 e He N) as (i' & rest & L & E). exists i', rest. split; [lia|exact E].
      * destruct (U e He N) as (i' & rest & L & E). exists i', rest. split; [lia|exact E].
Qed.

(* the t1 ranges of the opcodes are sorted and disjoint (true of difflib) *)
Definition ops_disjoint : Prop := forall p xs ys, ops_ok 0 (ops p xs ys) = true.

Theorem leaf_good_of_ops_disjoint : addA = false -> ops_disjoint ->
  forall p xs ys, allpairs (fst (default_leaf_list udiff ops skip xs ys p p)) /\
                  Under p (fst (default_leaf_list udiff ops skip xs ys p p)).
Proof.
  intros HA H p xs ys. unfold default_leaf_list.
  destruct (by_opcodes_good (ops p xs ys) HA 0 xs ys p (H p xs ys)) as [A1 U1].
  destruct (pairs_leaf_good xs HA ys 0 0 p) as [A2 U2].
  assert (G1 : allpairs (by_opcodes udiff skip (ops p xs ys) xs ys p p) /\ Under p (by_opcodes udiff skip (ops p xs ys) xs ys p p))
    by (split; [exact A1|eapply UnderIdx_Under; exact U1]).
  assert (G2 : allpairs (pairs_leaf udiff skip xs ys 0 0 p p) /\ Under p (pairs_leaf udiff skip xs ys 0 0 p p))
    by (split; [exact A2|eapply UnderIdx_Under; eapply UnderRange_UnderIdx; exact U2]).
  destruct (1 <? _); [|exact G1]. destruct (_ <=? _); [exact G2|exact G1].
Qed.

Lemma diff_set_good xs ys p :
  allpairs (diff_set hatom skip xs ys p p) /\ Under p (diff_set hatom skip xs ys p p).
Proof.
  assert (B : forall e, In e (diff_set hatom skip xs ys p p) -> cls e = Some false /\ ep1 e = p).
  { intros e He. unfold diff_set in He. apply in_app_or in He as [He|He];
      apply in_flat_map in He as (y & _ & He); (destruct (existsb _ _); [destruct He|]);
      unfold report_set in He; (destruct (skip p); [destruct He|]); destruct He as [<-|[]]; split; reflexivity. }
  split.
  - induction (diff_set hatom skip xs ys p p) as [|x l IH]; cbn; [exact I|]. split.
    + apply Forall_forall. intros y Hy. unfold R.
      rewrite (proj1 (B x (or_introl eq_refl))), (proj1 (B y (or_intror Hy))). exact I.
    + apply IH. intros e He. apply B. right. exact He.
  - intros e He _. exists []. rewrite app_nil_r. apply B. exact He.
Qed.

Definition IHD (t1 : value) : Prop :=
  forall t2 p, wf t1 = true -> wf t2 = true -> keys_nonneg t2 = true ->
    allpairs (fst (diff t1 t2 p p)) /\ Under p (fst (diff t1 t2 p p)).

Lemma go_list_good xs : Forall IHD xs -> forall ys i p,
  forallb wf xs = true -> forallb wf ys = true -> forallb keys_nonneg ys = true ->
  allpairs (fst (go_list skip diff p p xs ys i)) /\ UnderIdx p i (fst (go_list skip diff p p xs ys i)).
Proof.
  induction 1 as [|x xs Hx _ IH]; intros ys i p W1 W2 N2.
  - cbn. apply added_from_good.
  - destruct ys as [|y ys]; [cbn [go_list fst]; apply removed_from_good|].
    cbn [go_list]. unfold app2. cbn [fst].
    cbn in W1, W2, N2. apply andb_true_iff in W1 as [Wx W1], W2 as [Wy W2], N2 as [Ny N2].
    destruct (Hx y (snoc p (PIdx i)) Wx Wy Ny) as [A1 U1].
    destruct (IH ys (S i) p W1 W2 N2) as [A2 U2].
    split.
    + apply allpairs_app; [exact A1|exact A2|]. apply (cross_idx p i); assumption.
    + intros e He N. apply in_app_or in He as [He|He].
      * destruct (U1 e He N) as [rest E]. exists i, rest. split; [lia|]. rewrite E. unfold snoc. rewrite <- app_assoc. reflexivity.
      * destruct (U2 e He N) as (i' & rest & L & E). exists i', rest. split; [lia|exact E].
Qed.

Lemma seq_body_good xs ys p : Forall IHD xs ->
  forallb wf xs = true -> forallb wf ys = true -> forallb keys_nonneg ys = true ->
  allpairs (fst (seq_body hatom udiff ops skip excl c xs ys p p)) /\
  Under p (fst (seq_body hatom udiff ops skip excl c xs ys p p)).
Proof.
  intros IH W1 W2 N2. unfold seq_body.
  destruct (negb (zip c) && forallb is_atom xs && forallb is_atom ys) eqn:E.
  - apply andb_true_iff in E as [E _]. apply andb_true_iff in E as [E _]. apply negb_true_iff in E.
    pose proof (Hleaf E p xs ys) as P.
    destruct (default_leaf_list udiff ops skip xs ys p p) as [es rec]. exact P.
  - destruct (go_list_good xs IH ys 0 p W1 W2 N2) as [A U]. split; [exact A|eapply UnderIdx_Under; exact U].
Qed.

(* entries below p ++ [PKey k'] for a key k' of t2 that is == a key of l *)
Definition UnderKeys (p : path) (l : list (atom * value)) (k2 : list atom) (es : list entry) : Prop :=
  forall e, In e es -> cls e <> None ->
    exists k0 k' rest, In k0 (map fst l) /\ py_eq k0 k' = true /\ In k' k2 /\ ep1 e = p ++ PKey k' :: rest.

Lemma go_common_good kvs2 p : wf (VDict kvs2) = true -> keys_nonneg (VDict kvs2) = true ->
  forall l, nodup_atoms (map fst l) = true -> forallb (fun kv => wf (snd kv)) l = true ->
  Forall (fun kv => IHD (snd kv)) l ->
  allpairs (fst (go_common c diff kvs2 (keys_of c kvs2) p p l)) /\
  UnderKeys p l (keys_of c kvs2) (fst (go_common c diff kvs2 (keys_of c kvs2) p p l)).
Proof.
  intros W2 N2. cbn in W2, N2. apply andb_true_iff in W2 as [_ W2].
  induction l as [|[k v1] l IH]; intros ND W1 HI; cbn [go_common].
  - split; [exact I|intros e []].
  - cbn in ND, W1. apply andb_true_iff in ND as [NDk ND], W1 as [Wv W1].
    apply Forall_cons_iff in HI as [Hk HI]. cbn [snd] in Hk.
    destruct (IH ND W1 HI) as [A U].
    assert (Uw : UnderKeys p ((k, v1) :: l) (keys_of c kvs2) (fst (go_common c diff kvs2 (keys_of c kvs2) p p l))).
    { intros e He N. destruct (U e He N) as (k0 & k' & rest & H0 & H1 & H2 & H3).
      exists k0, k', rest. repeat split; try assumption. right. exact H0. }
    destruct (keep_key c k); [|split; assumption].
    destruct (find (py_eq k) (keys_of c kvs2)) as [k'|] eqn:Fk; [|split; assumption].
    destruct (assoc k' kvs2) as [v2|] eqn:A2; [|split; assumption].
    unfold app2. cbn [fst].
    apply find_some in Fk as [Hk' Ek].
    apply assoc_In in A2 as (k'' & Hin2 & Ek'').
    assert (Wv2 : wf v2 = true) by (eapply forallb_forall in W2; [|exact Hin2]; exact W2).
    assert (Nv2 : keys_nonneg v2 = true).
    { eapply forallb_forall in N2; [|exact Hin2]. apply andb_true_iff in N2 as [_ N2]. exact N2. }
    destruct (Hk v2 (snoc p (PKey k')) Wv Wv2 Nv2) as [A1 U1].
    assert (NNk : forall q, In q (keys_of c kvs2) -> nonneg_key q = true).
    { intros q Hq. apply keys_of_In in Hq as [Hq _]. apply in_map_iff in Hq as (kv & <- & Hkv).
      eapply forallb_forall in N2; [|exact Hkv]. apply andb_true_iff in N2 as [N2 _]. exact N2. }
    split.
    + apply allpairs_app; [exact A1|exact A|].
      intros x y Hx Hy. unfold R.
      destruct (cls x) as [bx|] eqn:Cx; [|exact I]. destruct (cls y) as [by_|] eqn:Cy; [|destruct bx; exact I].
      destruct (U1 x Hx) as [r1 E1]; [congruence|].
      destruct (U y Hy) as (k0 & kq & r2 & H0 & H1 & H2 & E2); [congruence|].
      assert (S : sep (key_atom (PKey k')) (key_atom (PKey kq)) = true).
      { unfold sep. cbn [key_atom]. rewrite (NNk k' Hk'), (NNk kq H2).
        destruct (py_eq k' kq) eqn:E; [|reflexivity]. exfalso.
        apply negb_true_iff in NDk.
        assert (mem_atom k (map fst l) = true); [|congruence].
        apply mem_atom_In. exists k0. split; [exact H0|].
        eapply py_eq_trans; [exact Ek|]. eapply py_eq_trans; [exact E|]. rewrite py_eq_sym. exact H1. }
      assert (D : diverge (loc x) (loc y) = true).
      { unfold loc, npath. rewrite E1, E2. unfold snoc. rewrite <- !app_assoc. cbn [app]. apply diverge_norm_app. exact S. }
      destruct bx, by_; try exact D. exact I.
    + intros e He N. apply in_app_or in He as [He|He]; [|apply Uw; assumption].
      destruct (U1 e He N) as [rest E]. exists k, k', rest. repeat split.
      * left. reflexivity.
      * exact Ek.
      * exact Hk'.
      * rewrite E. unfold snoc. rewrite <- app_assoc. reflexivity.
Qed.

Lemma UnderKeys_Under p l k2 es : UnderKeys p l k2 es -> Under p es.
Proof. intros H e He N. destruct (H e He N) as (k0 & k' & rest & _ & _ & _ & E). eexists. exact E. Qed.

Lemma dict_body_good kvs1 kvs2 p : Forall (fun kv => IHD (snd kv)) kvs1 ->
  wf (VDict kvs1) = true -> wf (VDict kvs2) = true -> keys_nonneg (VDict kvs2) = true ->
  allpairs (fst (dict_body hatom udiff ops skip excl c kvs1 kvs2 p p)) /\
  Under p (fst (dict_body hatom udiff ops skip excl c kvs1 kvs2 p p)).
Proof.
  intros IH W1 W2 N2. unfold dict_body.
  destruct (dict_shortcut _ _ _ _ _); cbn [fst].
  - pose proof (report_atmost1 KValue p p (Some (VDict kvs1)) (Some (VDict kvs2)) None) as A1.
    split; [eapply atmost1_allpairs|eapply atmost1_Under]; exact A1.
  - cbn in W1. apply andb_true_iff in W1 as [ND1 W1].
    destruct (go_common_good kvs2 p W2 N2 kvs1 ND1 W1 IH) as [A U].
    set (added := flat_map _ (keys_of c kvs2)). set (removed := flat_map _ (keys_of c kvs1)).
    assert (Fa : Free added).
    { intros e He. apply in_flat_map in He as (k & _ & He). destruct (mem_atom k _); [destruct He|].
      apply report_kind in He as [K _]. unfold cls. rewrite K. reflexivity. }
    assert (Fr : Free removed).
    { intros e He. apply in_flat_map in He as (k & _ & He). destruct (mem_atom k _); [destruct He|].
      apply report_kind in He as [K _]. unfold cls. rewrite K. reflexivity. }
    split.
    + apply allpairs_app; [apply Free_allpairs; exact Fa| |apply Free_cross_l; exact Fa].
      apply allpairs_app; [apply Free_allpairs; exact Fr|exact A|apply Free_cross_l; exact Fr].
    + apply Under_app; [apply Free_Under; exact Fa|]. apply Under_app; [apply Free_Under; exact Fr|].
      eapply UnderKeys_Under. exact U.
Qed.

Theorem diff_good : forall t1, IHD t1.
Proof.
  induction t1 as [a|xs IH|xs IH|kvs IH|xs|xs] using value_ind'; intros t2 p W1 W2 N2;
    (destruct (skip p) eqn:Hs; [rewrite diff_skip by exact Hs; split; [exact I|intros e []]|]);
    (match goal with |- context [diff ?t1 t2 _ _] => destruct (ty_eqb (type_of t1) (type_of t2)) eqn:T end;
     [|rewrite diff_type by assumption; cbn [fst];
       match goal with |- context [report skip ?k ?p1 ?p2 ?a ?b ?d] =>
         pose proof (report_atmost1 k p1 p2 a b d) as A1 end;
       split; [eapply atmost1_allpairs|eapply atmost1_Under]; exact A1]);
    apply ty_eqb_true in T; destruct t2; try discriminate T; try (destruct a; discriminate T).
  - rewrite diff_atom_eq by exact Hs. cbn in T. rewrite T.
    replace (ty_eqb (atom_ty a0) (atom_ty a0)) with true by (destruct (atom_ty a0); reflexivity).
    cbn [negb fst]. pose proof (diff_atom_atmost1 a a0 p p) as A1.
    split; [eapply atmost1_allpairs|eapply atmost1_Under]; exact A1.
  - rewrite diff_list by exact Hs. apply seq_body_good; assumption.
  - rewrite diff_tuple by exact Hs. apply seq_body_good; assumption.
  - rewrite diff_dict by exact Hs. apply dict_body_good; assumption.
  - rewrite diff_vset by exact Hs. cbn [fst]. apply diff_set_good.
  - rewrite diff_vfrozen by exact Hs. cbn [fst]. apply diff_set_good.
Qed.

End Indep.

(* ---- mutual_add_removes keeps the invariant ---- *)
Lemma allpairs_flat_map (g : entry -> list entry) es :
  (forall e, In e es -> g e = [] \/ exists x, g e = [x] /\ cls x = cls e /\ loc x = loc e) ->
  allpairs es -> allpairs (flat_map g es).
Proof.
  induction es as [|e es IH]; cbn; intros G A; [exact I|]. destruct A as [He A].
  assert (IH' : allpairs (flat_map g es)) by (apply IH; [intros x Hx; apply G; right; exact Hx|exact A]).
  destruct (G e (or_introl eq_refl)) as [->|(x & -> & Cx & Lx)]; [exact IH'|].
  cbn. split; [|exact IH'].
  apply Forall_forall. intros y Hy. apply in_flat_map in Hy as (e' & He' & Hy).
  assert (Re : R e e') by (eapply Forall_forall in He; eassumption).
  destruct (G e' (or_intror He')) as [E|(y' & E & Cy & Ly)]; rewrite E in Hy; [destruct Hy|].
  destruct Hy as [<-|[]].
  apply (R_key x e y' Cx Lx). apply R_sym. apply (R_key y' e' e Cy Ly). apply R_sym. exact Re.
Qed.

Lemma mutual_allpairs es : allpairs es -> allpairs (mutual es).
Proof.
  intros A. unfold mutual. apply allpairs_flat_map; [|exact A].
  intros e He. destruct (ekind e) eqn:K; try (right; exists e; repeat split; reflexivity).
  - destruct (last_with_path _ _); [left; reflexivity|right; exists e; repeat split; reflexivity].
  - destruct (last_with_path (ep1 e) (filter (is_kind KIterAdd) es)) as [a|]; [|right; exists e; repeat split; reflexivity].
    destruct (last_with_path (ep1 e) (filter (is_kind KIterRem) es)) as [r|]; [|right; exists e; repeat split; reflexivity].
    right. eexists. split; [reflexivity|]. split; [|reflexivity]. unfold cls. cbn [ekind]. rewrite K. reflexivity.
Qed.

(* ---- from the invariant to the guard of the delta ---- *)
Lemma pairwise_div_select (sel : entry -> bool) es :
  (forall e, sel e = true -> cls e = Some true) -> allpairs es ->
  pairwise_div (flat_map (fun e => if sel e then [loc e] else []) es) = true.
Proof.
  intros Hs. induction es as [|e es IH]; cbn; intros A; [reflexivity|]. destruct A as [He A].
  destruct (sel e) eqn:Se; [|apply IH; exact A].
  cbn. rewrite (IH A), andb_true_r.
  apply forallb_forall. intros q Hq. apply in_flat_map in Hq as (e' & He' & Hq).
  destruct (sel e') eqn:Se'; [|destruct Hq]. destruct Hq as [<-|[]].
  eapply Forall_forall in He; [|exact He']. unfold R in He. rewrite (Hs e Se), (Hs e' Se') in He. exact He.
Qed.

Lemma group_add_fst p a l q : In q (map fst (group_add p a l)) -> In q (map fst l) \/ q = p.
Proof.
  induction l as [|[q0 xs] l IH]; cbn.
  - intros [<-|[]]. right. reflexivity.
  - destruct (path_eqb p q0); cbn.
    + intros H. left. exact H.
    + intros [<-|H]; [left; left; reflexivity|]. destruct (IH H) as [H'|H']; [left; right; exact H'|right; exact H'].
Qed.

Lemma set_paths_from (pick : entry -> option atom) es : forall acc q,
  In q (map fst (fold_left (fun acc e => match pick e with Some a => group_add (npath (ep1 e)) a acc | None => acc end) es acc)) ->
  In q (map fst acc) \/ exists e, In e es /\ pick e <> None /\ loc e = q.
Proof.
  induction es as [|e es IH]; intros acc q H; cbn in H; [left; exact H|].
  destruct (IH _ q H) as [H'|(e' & He' & P & L)].
  - destruct (pick e) as [a|] eqn:Pe; [|left; exact H'].
    destruct (group_add_fst _ _ _ _ H') as [H'' | ->]; [left; exact H''|].
    right. exists e. split; [left; reflexivity|]. split; [congruence|reflexivity].
  - right. exists e'. split; [right; exact He'|]. split; assumption.
Qed.

Section Guard.
Variable conv : ty -> value -> option value.
Variable always : bool.
Variable ops' : path -> list value -> list value -> list opcode.
Variables t1 t2 : value.

Theorem indep_of_allpairs es rec :
  allpairs es -> indep_verified (to_delta conv true always ops' t1 t2 es rec) = true.
Proof.
  intros A. unfold indep_verified. apply andb_true_iff. split; [apply andb_true_iff; split|].
  - (* values_changed paths *)
    unfold to_delta. cbn [d_val]. rewrite map_flat_map'.
    rewrite (flat_map_ext_in _ (fun e => if rkind_eqb (ekind e) KValue then [loc e] else []) es)
      by (intros e _; destruct (ekind e); reflexivity).
    apply pairwise_div_select; [|exact A]. intros e H. unfold cls. destruct (ekind e); try discriminate H; reflexivity.
  - unfold to_delta. cbn [d_type]. rewrite map_flat_map'.
    rewrite (flat_map_ext_in _ (fun e => if rkind_eqb (ekind e) KType then [loc e] else []) es)
      by (intros e _; destruct (ekind e); reflexivity).
    apply pairwise_div_select; [|exact A]. intros e H. unfold cls. destruct (ekind e); try discriminate H; reflexivity.
  - apply forallb_forall. intros tc Htc. apply forallb_forall. intros q Hq.
    (* the type change comes from a KType entry *)
    unfold to_delta in Htc. cbn [d_type] in Htc. apply in_flat_map in Htc as (e & He & Htc).
    destruct (ekind e) eqn:K; try (destruct Htc; fail). destruct Htc as [<-|[]]. cbn [tc_path].
    fold (loc e).
    assert (Ce : cls e = Some true) by (unfold cls; rewrite K; reflexivity).
    (* the other path comes from an entry of another kind *)
    assert (exists e', In e' es /\ loc e' = q /\ ekind e' <> KType /\ cls e' <> None) as (e' & He' & L' & K' & C').
    { unfold written_before_types, to_delta in Hq. cbn [d_val d_sadd d_srem] in Hq.
      apply in_app_or in Hq as [Hq|Hq]; [|apply in_app_or in Hq as [Hq|Hq]].
      - apply in_map_iff in Hq as (vc & <- & Hvc). apply in_flat_map in Hvc as (e' & He' & Hvc).
        destruct (ekind e') eqn:K'; try (destruct Hvc; fail). destruct Hvc as [<-|[]].
        exists e'. repeat split; [exact He'|congruence|unfold cls; rewrite K'; discriminate].
      - set (F1 := fun (acc : list (path * list atom)) (e : entry) =>
                   match (match ekind e, et2 e with KSetAdd, Some (VAtom a) => Some a | _, _ => None end) with
                   | Some a => group_add (npath (ep1 e)) a acc | None => acc end).
        assert (Hq' : In q (map fst (fold_left F1 es []))).
        { rewrite (fold_left_ext_in F1 (fun acc e => match ekind e, et2 e with
                     | KSetAdd, Some (VAtom a) => group_add (npath (ep1 e)) a acc | _, _ => acc end) es); [exact Hq|].
          intros acc x _. unfold F1. destruct (ekind x); try reflexivity.
          destruct (et2 x) as [[a| | | | |]|]; reflexivity. }
        destruct (set_paths_from _ es [] q Hq') as [Fq|(e' & He' & P & L)]; [destruct Fq|].
        exists e'. destruct (ekind e') eqn:K'; try congruence.
        repeat split; [exact He'|exact L|discriminate|unfold cls; rewrite K'; discriminate].
      - set (F1 := fun (acc : list (path * list atom)) (e : entry) =>
                   match (match ekind e, et1 e with KSetRem, Some (VAtom a) => Some a | _, _ => None end) with
                   | Some a => group_add (npath (ep1 e)) a acc | None => acc end).
        assert (Hq' : In q (map fst (fold_left F1 es []))).
        { rewrite (fold_left_ext_in F1 (fun acc e => match ekind e, et1 e with
                     | KSetRem, Some (VAtom a) => group_add (npath (ep1 e)) a acc | _, _ => acc end) es); [exact Hq|].
          intros acc x _. unfold F1. destruct (ekind x); try reflexivity.
          destruct (et1 x) as [[a| | | | |]|]; reflexivity. }
        destruct (set_paths_from _ es [] q Hq') as [Fq|(e' & He' & P & L)]; [destruct Fq|].
        exists e'. destruct (ekind e') eqn:K'; try congruence.
        repeat split; [exact He'|exact L|discriminate|unfold cls; rewrite K'; discriminate]. }
    assert (Ne : e <> e') by (intros ->; congruence).
    pose proof (allpairs_In es A e e' He He' Ne) as Re. unfold R in Re. rewrite Ce in Re.
    destruct (cls e') as [b|]; [|congruence]. rewrite <- L'. exact Re.
Qed.

End Guard.

End WithAdd.

(* ---- the theorem for the delta of a diff ---- *)
Section Final.
Variable hatom : atom -> pystr.
Variable udiff : pystr -> pystr -> pystr.
Variable ops : path -> list value -> list value -> list opcode.
Variable skip excl : path -> bool.
Variable c : cfg.

Theorem diff_delta_indep conv always ops' t1 t2 :
  (zip c = false -> leaf_good false udiff ops skip) ->
  wf t1 = true -> wf t2 = true -> keys_nonneg t2 = true ->
  let r := run_diff hatom udiff ops skip excl c t1 t2 in
  indep_verified (to_delta conv true always ops' t1 t2 (fst r) (snd r)) = true.
Proof.
  intros Hleaf W1 W2 N2 r. apply (indep_of_allpairs false).
  unfold r, run_diff.
  pose proof (diff_good false hatom udiff ops skip excl c Hleaf t1 t2 [] W1 W2 N2) as [A _].
  destruct (diff hatom udiff ops skip excl c t1 t2 [] []) as [es rec]. cbn [fst] in *.
  apply mutual_allpairs. exact A.
Qed.

Corollary diff_delta_indep_ops conv always ops' t1 t2 :
  ops_disjoint ops ->
  wf t1 = true -> wf t2 = true -> keys_nonneg t2 = true ->
  let r := run_diff hatom udiff ops skip excl c t1 t2 in
  indep_verified (to_delta conv true always ops' t1 t2 (fst r) (snd r)) = true.
Proof. intros H. apply diff_delta_indep. intros _. exact (leaf_good_of_ops_disjoint false udiff ops skip eq_refl H). Qed.

Corollary diff_delta_indep_zip conv always ops' t1 t2 :
  zip c = true -> wf t1 = true -> wf t2 = true -> keys_nonneg t2 = true ->
  let r := run_diff hatom udiff ops skip excl c t1 t2 in
  indep_verified (to_delta conv true always ops' t1 t2 (fst r) (snd r)) = true.
Proof. intros Z. apply diff_delta_indep. intros Z'. congruence. Qed.

(* positional mode: an added and a removed iterable item never share a path,
   so mutual_add_removes_to_become_value_changes changes nothing *)
Lemma diverge_irrefl : forall p, diverge p p = false.
Proof. induction p as [|k p IH]; [reflexivity|]. cbn. rewrite pkey_eqb_refl. exact IH. Qed.

Theorem zip_add_rem_distinct t1 t2 p :
  zip c = true -> wf t1 = true -> wf t2 = true -> keys_nonneg t2 = true ->
  forall a r, In a (fst (diff hatom udiff ops skip excl c t1 t2 p p)) ->
              In r (fst (diff hatom udiff ops skip excl c t1 t2 p p)) ->
              ekind a = KIterAdd -> ekind r = KIterRem -> ep1 a <> ep1 r.
Proof.
  intros Z W1 W2 N2 a r Ha Hr Ka Kr E.
  assert (Hleaf : zip c = false -> leaf_good true udiff ops skip) by (intros Z'; congruence).
  pose proof (diff_good true hatom udiff ops skip excl c Hleaf t1 t2 p W1 W2 N2) as [A _].
  assert (N : a <> r) by (intros ->; congruence).
  pose proof (allpairs_In true _ A a r Ha Hr N) as R0. unfold R, cls in R0. rewrite Ka, Kr in R0.
  unfold loc in R0. rewrite E, diverge_irrefl in R0. discriminate.
Qed.

End Final.

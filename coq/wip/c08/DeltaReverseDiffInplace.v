(** C08: the in-place inversion theorem instantiated for the bidirectional
    delta of a diff that reports value / type changes only: every hypothesis
    of [inplace_sub_inverts] except "t1 + d = t2 without error" (C01) and
    "no tuple parent" is discharged from the diff model (C04 faithfulness,
    the independence theorem). *)
From Coq Require Import List ZArith NArith Bool Arith Lia.
Import ListNotations.
From DD Require Import Base.PyStr Base.Value Base.ValueFacts Path.PathModel
  Diff.Tree Diff.DiffModel Diff.DiffFacts Diff.DiffFaithful
  Delta.DeltaModel Delta.DeltaVerify Delta.DeltaVerifyDiff Delta.DeltaVerifyIndep
  Delta.DeltaReverse Delta.DeltaReverseInplace.

Lemma wf_get_item v a ch : wf v = true -> get_item v a = Some ch -> wf ch = true.
Proof.
  intros W G. destruct v as [b|xs|xs|kvs|xs|xs]; cbn in G; try discriminate.
  - destruct b; try discriminate; destruct (int_of_atom a); try discriminate;
      destruct (seq_index _ _); try discriminate; inversion G; reflexivity.
  - destruct (int_of_atom a) as [z|]; [|discriminate]. unfold seq_index in G. cbv zeta in G.
    destruct (_ || _); [discriminate|]. apply nth_error_In in G. cbn in W. eapply forallb_forall in W; eassumption.
  - destruct (int_of_atom a) as [z|]; [|discriminate]. unfold seq_index in G. cbv zeta in G.
    destruct (_ || _); [discriminate|]. apply nth_error_In in G. cbn in W. eapply forallb_forall in W; eassumption.
  - apply assoc_In in G as (k' & Hin & _). cbn in W. apply andb_true_iff in W as [_ W].
    eapply forallb_forall in W; [|exact Hin]. exact W.
Qed.

Lemma wf_resolve : forall p v x, wf v = true -> resolve v p = Some x -> wf x = true.
Proof.
  induction p as [|k p IH]; intros v x W R; cbn in R; [inversion R; subst; exact W|].
  destruct (get_item v (key_atom k)) as [ch|] eqn:G; [|discriminate].
  eapply IH; [|exact R]. eapply wf_get_item; eassumption.
Qed.

Lemma pairwise_div_app l1 l2 :
  pairwise_div l1 = true -> pairwise_div l2 = true ->
  (forall p, In p l1 -> forallb (diverge p) l2 = true) -> pairwise_div (l1 ++ l2) = true.
Proof.
  induction l1 as [|p l1 IH]; cbn; intros H1 H2 HC; [exact H2|].
  apply andb_true_iff in H1 as [Hp H1]. rewrite forallb_app, Hp, (HC p (or_introl eq_refl)). cbn.
  apply IH; [exact H1|exact H2|]. intros q Hq. apply HC. right. exact Hq.
Qed.

Lemma flat_map_nil {A B} (f : A -> list B) l : (forall x, In x l -> f x = []) -> flat_map f l = [].
Proof.
  induction l as [|x l IH]; cbn; intros H; [reflexivity|].
  rewrite (H x (or_introl eq_refl)), IH; [reflexivity|]. intros y Hy. apply H. right. exact Hy.
Qed.

Lemma fold_left_id {A C} (f : C -> A -> C) l acc : (forall a x, In x l -> f a x = a) -> fold_left f l acc = acc.
Proof.
  revert acc; induction l as [|x l IH]; cbn; intros acc H; [reflexivity|].
  rewrite (H acc x (or_introl eq_refl)). apply IH. intros a y Hy. apply H. right. exact Hy.
Qed.

(* an entry that is a value / type change at one and the same path *)
Definition inplace_entry (e : entry) : Prop := (ekind e = KValue \/ ekind e = KType) /\ ep1 e = ep2 e.

Section OfDiff.
Variable conv : ty -> value -> option value.
Variable always : bool.
Variable ops' : path -> list value -> list value -> list opcode.
Variables t1 t2 : value.
Variable es : list entry.
Hypothesis Hes : Forall inplace_entry es.
Hypothesis Hf : Forall (faithful false t1 t2) es.

Let d := to_delta conv true always ops' t1 t2 es [].

Lemma new_path_opt_same e : ep1 e = ep2 e -> new_path_opt e = None.
Proof. intros E. unfold new_path_opt. rewrite E, pystr_eqb_refl. reflexivity. Qed.

Lemma inplace_of_entries : inplace d.
Proof.
  assert (HI : forall e, In e es -> inplace_entry e) by (apply Forall_forall; exact Hes).
  assert (HF : forall e, In e es -> faithful false t1 t2 e) by (apply Forall_forall; exact Hf).
  constructor; unfold d, to_delta;
    cbn [d_val d_type d_dadd d_drem d_iadd d_irem d_moved d_sadd d_srem d_ops orb andb map].
  - apply Forall_forall. intros vc Hvc. apply in_flat_map in Hvc as (e & He & Hvc).
    destruct (HI e He) as [_ E]. pose proof (HF e He) as F. unfold faithful in F.
    destruct (ekind e); try (destruct Hvc; fail). destruct Hvc as [<-|[]].
    destruct F as (a & b & E1 & _). split; cbn; [apply new_path_opt_same; exact E|exists a; exact E1].
  - apply Forall_forall. intros tc Htc. apply in_flat_map in Htc as (e & He & Htc).
    destruct (HI e He) as [_ E].
    destruct (ekind e); try (destruct Htc; fail). destruct Htc as [<-|[]].
    split; cbn; [apply new_path_opt_same; exact E|]. split; eexists; reflexivity.
  - apply flat_map_nil. intros e He. destruct (HI e He) as [[K|K] _]; rewrite K; reflexivity.
  - apply flat_map_nil. intros e He. destruct (HI e He) as [[K|K] _]; rewrite K; reflexivity.
  - apply flat_map_nil. intros e He. destruct (HI e He) as [[K|K] _]; rewrite K; reflexivity.
  - apply flat_map_nil. intros e He. destruct (HI e He) as [[K|K] _]; rewrite K; reflexivity.
  - apply flat_map_nil. intros e He. destruct (HI e He) as [[K|K] _]; rewrite K; reflexivity.
  - apply fold_left_id. intros acc e He. destruct (HI e He) as [[K|K] _]; rewrite K; reflexivity.
  - apply fold_left_id. intros acc e He. destruct (HI e He) as [[K|K] _]; rewrite K; reflexivity.
  - reflexivity.
Qed.

(* every write of the delta comes from an entry *)
Lemma writes_of_entries w : In w (writes d) ->
  exists e a b, In e es /\ et1 e = Some a /\ et2 e = Some b /\
                resolve t1 (ep1 e) = Some a /\ resolve t2 (ep2 e) = Some b /\ w = (npath (ep1 e), a, b).
Proof.
  assert (HF : forall e, In e es -> faithful false t1 t2 e) by (apply Forall_forall; exact Hf).
  intros Hw. unfold writes in Hw. apply in_app_or in Hw as [Hw|Hw].
  - apply in_map_iff in Hw as (vc & <- & Hvc). unfold d, to_delta in Hvc. cbn [d_val] in Hvc.
    apply in_flat_map in Hvc as (e & He & Hvc). pose proof (HF e He) as F. unfold faithful in F.
    destruct (ekind e); try (destruct Hvc; fail). destruct Hvc as [<-|[]].
    destruct F as (a & b & E1 & E2 & R1 & R2 & _). exists e, a, b. repeat split; try assumption.
    unfold vcw. cbn. rewrite E1, E2. reflexivity.
  - apply in_map_iff in Hw as (tc & <- & Htc). unfold d, to_delta in Htc. cbn [d_type] in Htc.
    apply in_flat_map in Htc as (e & He & Htc). pose proof (HF e He) as F. unfold faithful in F.
    destruct (ekind e); try (destruct Htc; fail). destruct Htc as [<-|[]].
    destruct F as (a & b & E1 & E2 & R1 & R2 & _). exists e, a, b. repeat split; try assumption.
    unfold tcw. cbn. rewrite E1, E2. reflexivity.
Qed.

Lemma writes_paths_div : indep_verified d = true -> pairwise_div (map wpath (writes d)) = true.
Proof.
  intros G. unfold indep_verified in G. apply andb_true_iff in G as [G G3]. apply andb_true_iff in G as [G1 G2].
  unfold writes. rewrite map_app, !map_map.
  replace (map (fun x => wpath (vcw x)) (d_val d)) with (map vc_path (d_val d)) by (apply map_ext; reflexivity).
  replace (map (fun x => wpath (tcw x)) (d_type d)) with (map tc_path (d_type d)) by (apply map_ext; reflexivity).
  apply pairwise_div_app; [exact G1|exact G2|].
  intros p Hp. apply forallb_forall. intros q Hq. apply in_map_iff in Hq as (tc & <- & Htc).
  eapply forallb_forall in G3; [|exact Htc]. unfold written_before_types in G3.
  rewrite forallb_app in G3. apply andb_true_iff in G3 as [G3 _].
  eapply forallb_forall in G3; [|exact Hp]. rewrite diverge_sym. exact G3.
Qed.

(* the result of the addition may be any value v2 (C01 gives t2 up to dict / set order) *)
Theorem diff_inplace_sub_inverts_gen ro ao v2 :
  ro [] = [] -> wf t2 = true ->
  indep_verified d = true ->
  (forall e, In e es -> ntp t1 (npath (ep1 e))) ->
  apply conv ro ao d t1 = (v2, 0) ->
  sub conv ro ao d v2 = Some (t1, 0).
Proof.
  intros Hro W2 G N A.
  apply (inplace_sub_inverts conv ro ao Hro d t1 v2 inplace_of_entries eq_refl (writes_paths_div G)); [|exact A].
  intros w Hw. destruct (writes_of_entries w Hw) as (e & a & b & He & E1 & E2 & R1 & R2 & ->).
  cbn [wpath fst snd]. unfold npath. rewrite resolve_norm. split; [exact R1|]. split.
  - eapply wf_resolve; eassumption.
  - apply N. exact He.
Qed.

Theorem diff_inplace_sub_inverts ro ao :
  ro [] = [] -> wf t2 = true ->
  indep_verified d = true ->
  (forall e, In e es -> ntp t1 (npath (ep1 e))) ->
  apply conv ro ao d t1 = (t2, 0) ->
  sub conv ro ao d t2 = Some (t1, 0).
Proof. apply diff_inplace_sub_inverts_gen. Qed.

End OfDiff.

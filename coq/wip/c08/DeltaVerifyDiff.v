(** C08: the detection theorem stated for the bidirectional delta of a diff
    and the ORIGINAL t1: the recorded old value of a value / type change is the
    value t1 has at that location (C04), so a base whose value at a changed
    location is != (Python) the value t1 has there - or that has nothing
    there - makes the application log an error. *)
From Coq Require Import List ZArith NArith Bool Arith Lia.
Import ListNotations.
From DD Require Import Base.PyStr Base.Value Base.ValueFacts Path.PathModel
  Diff.Tree Diff.DiffModel Diff.DiffFacts Diff.DiffFaithful Delta.DeltaModel Delta.DeltaVerify.

Lemma resolve_norm : forall p v, resolve v (norm p) = resolve v p.
Proof.
  induction p as [|k p IH]; intros v; [reflexivity|].
  cbn [norm map resolve key_atom]. destruct (get_item v (key_atom k)); [apply IH|reflexivity].
Qed.

Section OfDiff.
Variable hatom : atom -> pystr.
Variable udiff : pystr -> pystr -> pystr.
Variable ops : path -> list value -> list value -> list opcode.
Variable skip excl : path -> bool.
Variable c : cfg.
Variable conv : ty -> value -> option value.
Variable rem_order : list (path * value) -> list (path * value).
Variable add_order : list (path * option value) -> list (path * option value).
Variable always : bool.
Variable ops' : path -> list value -> list value -> list opcode.
Variables t1 t2 : value.
Hypothesis Hthr : thr_num c <= thr_den c.
Hypothesis W1 : wf t1 = true.
Hypothesis W2 : wf t2 = true.

Let r := run_diff hatom udiff ops skip excl c t1 t2.
Let d := to_delta conv true always ops' t1 t2 (fst r) (snd r).

(* base and original differ at p, in the sense the code can see *)
Definition differs_at (v : value) (p : path) : Prop :=
  match resolve v p with
  | None => True                                  (* nothing there *)
  | Some cur => exists a, resolve t1 p = Some a /\ py_eqv a cur = false
  end.

Theorem diff_delta_detects_value e v :
  indep_verified d = true ->
  In e (fst r) -> ekind e = KValue -> differs_at v (ep1 e) ->
  0 < snd (apply conv rem_order add_order d v).
Proof.
  intros G He K D.
  destruct (run_diff_faithful hatom udiff ops skip excl c t1 t2 Hthr W1 W2 e He) as [F _].
  unfold faithful in F. rewrite K in F. destruct F as (a & b & E1 & E2 & R1 & _).
  apply (apply_detects_value_indep' conv rem_order add_order d v
           (mkVC (npath (ep1 e)) (new_path_opt e) (et1 e) (match et2 e with Some x => x | None => VAtom ANone end))).
  - reflexivity.
  - exact G.
  - unfold d, to_delta. cbn [d_val]. apply in_flat_map. exists e. split; [exact He|]. rewrite K. left. reflexivity.
  - unfold vc_bad, old_mismatch. cbn [vc_path vc_old]. unfold npath. rewrite resolve_norm.
    unfold differs_at in D. destruct (resolve v (ep1 e)) as [cur|]; [|reflexivity].
    destruct D as (a' & Ra & Ne). rewrite R1 in Ra. inversion Ra; subst a'. rewrite E1, Ne. reflexivity.
Qed.

Theorem diff_delta_detects_type e v :
  indep_verified d = true ->
  In e (fst r) -> ekind e = KType -> differs_at v (ep1 e) ->
  0 < snd (apply conv rem_order add_order d v).
Proof.
  intros G He K D.
  destruct (run_diff_faithful hatom udiff ops skip excl c t1 t2 Hthr W1 W2 e He) as [F _].
  unfold faithful in F. rewrite K in F. destruct F as (a & b & E1 & E2 & R1 & _).
  apply (apply_detects_type_indep conv rem_order add_order d v
           (mkTC (npath (ep1 e)) (new_path_opt e) (type_of a) (type_of b) (Some a) (Some b))).
  - reflexivity.
  - exact G.
  - unfold d, to_delta. cbn [d_type]. apply in_flat_map. exists e. split; [exact He|]. rewrite K, E1, E2.
    cbn [orb andb]. left. reflexivity.
  - unfold tc_bad, old_mismatch. cbn [tc_path tc_old]. unfold npath. rewrite resolve_norm.
    unfold differs_at in D. destruct (resolve v (ep1 e)) as [cur|]; [|reflexivity].
    destruct D as (a' & Ra & Ne). rewrite R1 in Ra. inversion Ra; subst a'. rewrite Ne. reflexivity.
Qed.

End OfDiff.

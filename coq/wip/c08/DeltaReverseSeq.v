(** C08: back-and-forth sequences  t1 + d - d + d ...  of ANY length, from the
    two one-step facts  t1 + d = t2  and  t2 - d = t1  (no error logged). *)
From Coq Require Import List ZArith NArith Bool Arith Lia.
Import ListNotations.
From DD Require Import Base.PyStr Base.Value Path.PathModel Diff.Tree Diff.DiffModel
  Delta.DeltaModel Delta.DeltaVerify Delta.DeltaReverse Delta.DeltaReverseInplace.

Inductive dir := Plus | Minus.
Definition flip_dir (x : dir) : dir := match x with Plus => Minus | Minus => Plus end.

(* Plus, Minus, Plus, ... (k steps) *)
Fixpoint alternating (x : dir) (k : nat) : list dir :=
  match k with O => [] | S k' => x :: alternating (flip_dir x) k' end.

Section Seq.
Variable conv : ty -> value -> option value.
Variable rem_order : list (path * value) -> list (path * value).
Variable add_order : list (path * option value) -> list (path * option value).

Definition step_dir (d : delta) (x : dir) (v : value) : option (value * nat) :=
  match x with
  | Plus => Some (apply conv rem_order add_order d v)
  | Minus => sub conv rem_order add_order d v
  end.

(* the value after the whole sequence and the total number of errors logged;
   None = some subtraction was refused *)
Fixpoint run_seq (d : delta) (l : list dir) (v : value) : option (value * nat) :=
  match l with
  | [] => Some (v, 0)
  | x :: l' =>
      match step_dir d x v with
      | Some (v', n) => match run_seq d l' v' with
                        | Some (v'', m) => Some (v'', n + m)
                        | None => None
                        end
      | None => None
      end
  end.

Theorem back_and_forth d t1 t2 :
  apply conv rem_order add_order d t1 = (t2, 0) ->
  sub conv rem_order add_order d t2 = Some (t1, 0) ->
  forall k,
    run_seq d (alternating Plus k) t1 = Some (if Nat.even k then t1 else t2, 0) /\
    run_seq d (alternating Minus k) t2 = Some (if Nat.even k then t2 else t1, 0).
Proof.
  intros A S. induction k as [|k [IH1 IH2]]; [split; reflexivity|].
  cbn [alternating flip_dir run_seq step_dir]. rewrite A, S, IH1, IH2.
  rewrite Nat.even_succ, <- Nat.negb_even. destruct (Nat.even k); split; reflexivity.
Qed.

(* a directed delta: every sequence containing a subtraction is refused *)
Theorem directed_seq_refused d l1 l2 v :
  d_bidir d = false -> run_seq d (l1 ++ Minus :: l2) v = None.
Proof.
  intros B. revert v. induction l1 as [|x l1 IH]; intros v; cbn [app run_seq].
  - cbn [step_dir]. rewrite (directed_refuses_sub conv rem_order add_order d v B). reflexivity.
  - destruct (step_dir d x v) as [[v' n]|]; [|reflexivity]. rewrite IH. reflexivity.
Qed.

Hypothesis rem_order_nil : rem_order [] = [].

(* for the in-place fragment the second premise is a theorem *)
Theorem inplace_back_and_forth_any d v1 v2 :
  inplace d -> d_bidir d = true ->
  pairwise_div (map wpath (writes d)) = true ->
  (forall w, In w (writes d) ->
     resolve v1 (wpath w) = Some (snd (fst w)) /\ wf (snd w) = true /\ ntp v1 (wpath w)) ->
  apply conv rem_order add_order d v1 = (v2, 0) ->
  forall k,
    run_seq d (alternating Plus k) v1 = Some (if Nat.even k then v1 else v2, 0) /\
    run_seq d (alternating Minus k) v2 = Some (if Nat.even k then v2 else v1, 0).
Proof.
  intros Hin B P H A. apply back_and_forth; [exact A|].
  apply (inplace_sub_inverts conv rem_order add_order rem_order_nil); assumption.
Qed.

End Seq.

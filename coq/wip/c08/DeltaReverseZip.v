(** C08: t2 - delta = t1 (up to dict / set order) for ALL payload categories
    in positional mode (zip_ordered_iterables=True): value and type changes,
    dictionary items added / removed, iterable items added / removed, set items.

      t2 - Delta(DeepDiff(t1,t2))
        = t2 + delta(mirrored tree of DeepDiff(t1,t2))      (DeltaReverse / DeltaReverseDiff)
        = t2 + Delta(DeepDiff(t2,t1))                         (DeltaReverseSym + DeltaReverseKinds)
        = t1 up to dict / set order, no error                  (C01, Delta/DeltaRoundtrip.v, at (t2,t1))  *)
From Coq Require Import List ZArith NArith Bool Arith Lia Permutation.
Import ListNotations.
From DD Require Import Base.PyStr Base.Value Base.ValueFacts Path.PathModel
  Diff.Tree Diff.DiffModel Diff.DiffFacts Diff.DiffFaithful
  Delta.DeltaModel Delta.DeltaEntries Delta.DeltaGuard Delta.DeltaRun Delta.DeltaGood Delta.DeltaRoundtrip
  Delta.DeltaVerify Delta.DeltaVerifyIndep Delta.DeltaReverse Delta.DeltaReverseDiff
  Delta.DeltaReverseKinds Delta.DeltaReverseSym.

Lemma allkeep_flag c : ignore_private c = false -> forall v, allkeep c v = true.
Proof.
  intros F. assert (K : forall k, keep_key c k = true) by (intros k; unfold keep_key; rewrite F; reflexivity).
  induction v as [a|xs IH|xs IH|kvs IH|xs|xs] using value_ind'; cbn; try reflexivity.
  - apply forallb_forall. intros x Hx. eapply Forall_forall in IH; eassumption.
  - apply forallb_forall. intros x Hx. eapply Forall_forall in IH; eassumption.
  - apply forallb_forall. intros kv Hkv. rewrite K. cbn. eapply Forall_forall in IH; [|exact Hkv]. exact IH.
Qed.

Lemma allkeep_nopriv c : forall v, nopriv v = true -> allkeep c v = true.
Proof.
  induction v as [a|xs IH|xs IH|kvs IH|xs|xs] using value_ind'; cbn; intros H; try reflexivity.
  - apply forallb_forall. intros x Hx. eapply Forall_forall in IH; [|exact Hx]. apply IH. eapply forallb_forall in H; eassumption.
  - apply forallb_forall. intros x Hx. eapply Forall_forall in IH; [|exact Hx]. apply IH. eapply forallb_forall in H; eassumption.
  - apply forallb_forall. intros kv Hkv. eapply forallb_forall in H; [|exact Hkv]. apply andb_true_iff in H as [H1 H2].
    eapply Forall_forall in IH; [|exact Hkv]. rewrite (IH H2), andb_true_r. unfold keep_key.
    apply negb_true_iff in H1. rewrite H1, andb_false_r. reflexivity.
Qed.

Lemma to_delta_rec_nil conv b a ops ops' T1 T2 es :
  to_delta conv b a ops T1 T2 es [] = to_delta conv b a ops' T1 T2 es [].
Proof. reflexivity. Qed.

Section Zip.
Variable hatom : atom -> pystr.
Variable udiff : pystr -> pystr -> pystr.
Variable ops : path -> list value -> list value -> list opcode.
Variable c : cfg.
Variable conv : ty -> value -> option value.
Variable always : bool.
Hypothesis Hzip : zip c = true.
Hypothesis Hthr : thr_num c <= thr_den c.
Hypothesis Hinj : forall a b, hatom a = hatom b -> a = b.
Hypothesis Hconv : forall ty0 v v', conv ty0 v = Some v' -> type_of v' = ty0.
Variable ro : list (path * value) -> list (path * value).
Variable ao : list (path * option value) -> list (path * option value).
Hypothesis Hro : ro_ok ro.
Hypothesis Hao : ao_ok ao.
Hypothesis Hops : forall p xs ys, forallb is_atom xs = true -> forallb is_atom ys = true ->
                                  valid_ops xs ys (ops p xs ys).
Variables t1 t2 : value.
(* C01's guards for the REVERSE pair *)
Hypothesis G21 : guards c conv true always t2 t1.
Hypothesis KO : korder t1 t2.
Hypothesis N1 : keys_nonneg t1 = true.
Hypothesis N2 : keys_nonneg t2 = true.

Notation nos := DeltaReverseSym.nos.
Let r := run_diff hatom udiff ops nos nos c t1 t2.
Let d := to_delta conv true always ops t1 t2 (fst r) (snd r).

Lemma run_diff_zip a b : wf a = true -> wf b = true -> keys_nonneg b = true ->
  run_diff hatom udiff ops nos nos c a b = (fst (diff hatom udiff ops nos nos c a b [] []), []).
Proof.
  intros Wa Wb Nb. unfold run_diff.
  destruct (zip_shape hatom udiff ops nos nos c Hzip a b [] []) as [S _].
  pose proof (zip_add_rem_distinct hatom udiff ops nos nos c a b [] Hzip Wa Wb Nb) as Dst.
  destruct (diff hatom udiff ops nos nos c a b [] []) as [es rec]. cbn [fst snd] in *. subst rec.
  rewrite mutual_id; [reflexivity|]. intros x y Hx Hy Kx Ky. apply Dst; assumption.
Qed.

Theorem zip_sub_inverts :
  exists t1', sub conv ro ao d t2 = Some (t1', 0) /\ veqb t1' t1 = true.
Proof.
  pose proof G21 as (W2 & W1 & AF & _ & NP).
  (* the forward tree *)
  set (esf := fst (diff hatom udiff ops nos nos c t1 t2 [] [])).
  assert (Er : run_diff hatom udiff ops nos nos c t1 t2 = (esf, [])) by (apply run_diff_zip; assumption).
  assert (NM : Forall (fun e => ekind e <> KIterMoved) esf)
    by (apply (zip_shape hatom udiff ops nos nos c Hzip t1 t2 [] [])).
  (* subtraction = addition of the mirrored tree's delta *)
  assert (SO : Forall sym_ok (fst r)).
  { unfold r. apply run_diff_sym_ok; try assumption. rewrite Er. cbn [fst]. apply Forall_forall. intros e He K.
    eapply Forall_forall in NM; [|exact He]. contradiction. }
  unfold d. rewrite (sub_is_add_of_mirror conv conv ro ao always ops t1 t2 (fst r) (snd r) t2 SO).
  unfold r. rewrite Er. cbn [fst snd].
  (* the mirrored tree is the tree of the reverse diff *)
  set (esr := fst (diff hatom udiff ops nos nos c t2 t1 [] [])).
  assert (Er' : run_diff hatom udiff ops nos nos c t2 t1 = (esr, [])) by (apply run_diff_zip; assumption).
  assert (SG : sg c t1 t2).
  { split; [exact W1|]. split; [exact W2|]. split.
    - eapply alias_free_sub; [|exact AF]. intros a Ha. rewrite in_app_iff in *. tauto.
    - assert (AK : forall v, nopriv v = true \/ ignore_private c = false -> allkeep c v = true)
        by (intros v [H|H]; [apply allkeep_nopriv; exact H|apply allkeep_flag; exact H]).
      destruct NP as [NP|[NP2 NP1]]; (split; [apply AK; tauto|split; [apply AK; tauto|exact KO]]). }
  assert (KE : keq esr (map mirror_entry esf)) by (apply (diff_sym hatom udiff ops c Hzip t1 t2 [] SG)).
  rewrite <- (to_delta_keq conv true always (mirror_ops ops) t2 t1 esr (map mirror_entry esf) [] KE).
  rewrite (to_delta_rec_nil conv true always (mirror_ops ops) ops t2 t1 esr).
  (* C01 at (t2, t1) *)
  destruct (roundtrip hatom udiff ops c conv true always Hinj Hconv ro ao t2 t1 Hops Hro Hao G21) as (t1' & A & V).
  change DeltaGood.nos with nos in A. rewrite Er' in A. cbn [fst snd] in A.
  exists t1'. split; [rewrite A; reflexivity|exact V].
Qed.

(* with C01's guards for the forward pair as well: both directions *)
Theorem zip_add_and_sub :
  guards c conv true always t1 t2 ->
  (exists t2', apply conv ro ao d t1 = (t2', 0) /\ veqb t2' t2 = true) /\
  (exists t1', sub conv ro ao d t2 = Some (t1', 0) /\ veqb t1' t1 = true).
Proof.
  intros G12. split; [|exact zip_sub_inverts].
  destruct (roundtrip hatom udiff ops c conv true always Hinj Hconv ro ao t1 t2 Hops Hro Hao G12) as (t2' & A & V).
  exists t2'. split; [exact A|exact V].
Qed.

End Zip.

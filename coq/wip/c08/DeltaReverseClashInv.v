(** C08: t2 - delta = t1 (up to dict / set order) in default mode INCLUDING the
    clash case (an index both removed and added, merged by mutual_add_removes):
    the delta of the mirrored tree and the delta of the reverse diff differ only
    in the order of the values_changed pass ([mutual_mirror]), and a clean,
    coercion-free values_changed pass does not depend on that order
    ([values_changed_perm_clean]). *)
From Coq Require Import List ZArith NArith Bool Arith Lia Permutation.
Import ListNotations.
From DD Require Import Base.PyStr Base.Value Base.ValueFacts Path.PathModel
  Diff.Tree Diff.DiffModel Diff.DiffFacts Diff.DiffFaithful Diff.DiffPaths
  Delta.DeltaModel Delta.DeltaEntries Delta.DeltaGuard Delta.DeltaRun Delta.DeltaGood Delta.DeltaRoundtrip
  Delta.DeltaVerify Delta.DeltaVerifyIndep Delta.DeltaVerifyPerm Delta.DeltaReverse Delta.DeltaReverseDiff
  Delta.DeltaReverseInplace Delta.DeltaReverseKinds Delta.DeltaReverseSym Delta.DeltaReverseSymD
  Delta.DeltaReverseZip Delta.DeltaReverseDefault Delta.DeltaReverseClash.

Definition with_val (l : list vchange) (d : delta) : delta :=
  mkDelta l (d_type d) (d_dadd d) (d_drem d) (d_iadd d) (d_irem d) (d_moved d) (d_sadd d) (d_srem d) (d_ops d) (d_bidir d).

Lemma to_delta_but_val conv bidir always ops T1 T2 es es' rec :
  (forall k, k <> KValue -> ksub k es = ksub k es') ->
  to_delta conv bidir always ops T1 T2 es rec =
  with_val (d_val (to_delta conv bidir always ops T1 T2 es rec)) (to_delta conv bidir always ops T1 T2 es' rec).
Proof.
  intros H. unfold to_delta, with_val.
  cbn [d_val d_type d_dadd d_drem d_iadd d_irem d_moved d_sadd d_srem d_ops d_bidir]. f_equal.
  - rewrite (flat_map_ksub KType _ es), (flat_map_ksub KType _ es'), (H KType ltac:(discriminate)); try reflexivity;
      intros e N; destruct (ekind e); try reflexivity; congruence.
  - rewrite (flat_map_ksub KDictAdd _ es), (flat_map_ksub KDictAdd _ es'), (H KDictAdd ltac:(discriminate)); try reflexivity;
      intros e N; destruct (ekind e); try reflexivity; congruence.
  - rewrite (flat_map_ksub KDictRem _ es), (flat_map_ksub KDictRem _ es'), (H KDictRem ltac:(discriminate)); try reflexivity;
      intros e N; destruct (ekind e); try reflexivity; congruence.
  - rewrite (flat_map_ksub KIterAdd _ es), (flat_map_ksub KIterAdd _ es'), (H KIterAdd ltac:(discriminate)); try reflexivity;
      intros e N; destruct (ekind e); try reflexivity; congruence.
  - rewrite (flat_map_ksub KIterRem _ es), (flat_map_ksub KIterRem _ es'), (H KIterRem ltac:(discriminate)); try reflexivity;
      intros e N; destruct (ekind e); try reflexivity; congruence.
  - rewrite (flat_map_ksub KIterMoved _ es), (flat_map_ksub KIterMoved _ es'), (H KIterMoved ltac:(discriminate)); try reflexivity;
      intros e N; destruct (ekind e); try reflexivity; congruence.
  - rewrite (fold_left_ksub KSetAdd _ es), (fold_left_ksub KSetAdd _ es'), (H KSetAdd ltac:(discriminate)); try reflexivity;
      intros a e N; destruct (ekind e); try reflexivity; congruence.
  - rewrite (fold_left_ksub KSetRem _ es), (fold_left_ksub KSetRem _ es'), (H KSetRem ltac:(discriminate)); try reflexivity;
      intros a e N; destruct (ekind e); try reflexivity; congruence.
Qed.

Lemma d_val_perm conv bidir always ops T1 T2 es es' rec :
  Permutation (ksub KValue es) (ksub KValue es') ->
  Permutation (d_val (to_delta conv bidir always ops T1 T2 es rec)) (d_val (to_delta conv bidir always ops T1 T2 es' rec)).
Proof.
  intros H. unfold to_delta. cbn [d_val].
  rewrite (flat_map_ksub KValue _ es), (flat_map_ksub KValue _ es'); try reflexivity;
    try (intros e N; destruct (ekind e); try reflexivity; congruence).
  apply Permutation_flat_map. exact H.
Qed.

Lemma apply_with_val conv ro ao l d v :
  do_values_changed (d_bidir d) l (mkSt v [] 0) = do_values_changed (d_bidir d) (d_val d) (mkSt v [] 0) ->
  apply conv ro ao (with_val l d) v = apply conv ro ao d v.
Proof.
  intros H. unfold apply, with_val, do_iterable_item_removed, do_iterable_item_added.
  cbn [d_val d_type d_dadd d_drem d_iadd d_irem d_moved d_sadd d_srem d_ops d_bidir]. cbv zeta. rewrite H. reflexivity.
Qed.

Lemma ops_ok_mirror os : forall lo1 lo2, ops_ok2 lo1 lo2 os = true -> ops_ok lo2 (map mirror_op os) = true.
Proof.
  induction os as [|o os IH]; intros lo1 lo2 H; [reflexivity|].
  cbn in H |- *. apply andb_true_iff in H as [H H5]. apply andb_true_iff in H as [H H4].
  apply andb_true_iff in H as [H H3]. apply andb_true_iff in H as [H1 H2].
  rewrite H3, H4. cbn. apply (IH (oi2 o) (oj2 o)). exact H5.
Qed.

Section Clash.
Variable hatom : atom -> pystr.
Variable udiff : pystr -> pystr -> pystr.
Variable ops : path -> list value -> list value -> list opcode.
Variable c : cfg.
Variable conv : ty -> value -> option value.
Variable always : bool.
Hypothesis Hthr : thr_num c <= thr_den c.
Hypothesis Hinj : forall a b, hatom a = hatom b -> a = b.
Hypothesis Hconv : forall ty0 v v', conv ty0 v = Some v' -> type_of v' = ty0.
Variable ro : list (path * value) -> list (path * value).
Variable ao : list (path * option value) -> list (path * option value).
Hypothesis Hro : ro_ok ro.
Hypothesis Hao : ao_ok ao.
Hypothesis Hops : forall p xs ys, forallb is_atom xs = true -> forallb is_atom ys = true ->
                                  valid_ops xs ys (ops p xs ys).
Hypothesis Hsorted : zip c = true \/ ops_sorted2 ops.
Variables t1 t2 : value.
Hypothesis G21 : guards c conv true always t2 t1.
Hypothesis KO : korder t1 t2.
Hypothesis N1 : keys_nonneg t1 = true.

Notation nos := DeltaReverseSym.nos.
Let r := run_diff hatom udiff ops nos nos c t1 t2.
Let d := to_delta conv true always ops t1 t2 (fst r) (snd r).
(* no tuple is the parent of a location the subtraction writes a value change to *)
Hypothesis Hntp : forall cc, In cc (d_val (reverse d)) -> ntp t2 (vc_path cc).

Theorem clash_sub_inverts :
  exists t1', sub conv ro ao d t2 = Some (t1', 0) /\ veqb t1' t1 = true.
Proof.
  pose proof G21 as (W2 & W1 & AF & _ & NP).
  assert (AF' : alias_free (atoms_of t1 ++ atoms_of t2)).
  { eapply alias_free_sub; [|exact AF]. intros a Ha. rewrite in_app_iff in *. tauto. }
  set (esf := fst (diff hatom udiff ops nos nos c t1 t2 [] [])).
  set (recf := snd (diff hatom udiff ops nos nos c t1 t2 [] [])).
  assert (Er : r = (mutual esf, recf)).
  { unfold r, run_diff, esf, recf. destruct (diff hatom udiff ops nos nos c t1 t2 [] []) as [es rec]. reflexivity. }
  pose proof (diff_faithful hatom udiff ops nos nos c t1 t2 Hthr t1 t2 [] [] eq_refl W1 W2 eq_refl eq_refl) as HF.
  fold esf in HF.
  (* moved items are identical at both ends *)
  assert (MI : moved_identical (fst r)).
  { rewrite Er. cbn [fst]. apply Forall_forall. intros e He K.
    assert (He0 : In e esf).
    { apply mutual_In in He as [He|(e0 & _ & K2 & _)]; [exact He|congruence]. }
    pose proof (diff_moved_atoms hatom udiff ops nos nos c (atoms_of t1) (atoms_of t2) t1 t2 [] []
                  (fun a H => H) (fun a H => H)) as MA.
    eapply Forall_forall in MA; [|exact He0]. destruct (MA K) as (x & y & E1 & E2 & Pe & Hx & Hy).
    rewrite E1, E2. f_equal. f_equal. apply AF'; [apply in_or_app; left; exact Hx|apply in_or_app; right; exact Hy|exact Pe]. }
  assert (SO : Forall sym_ok (fst r)) by (apply run_diff_sym_ok; assumption).
  pose proof (reverse_to_delta_mirror conv conv always ops t1 t2 (fst r) (snd r) SO) as SP. fold d in SP.
  rewrite Er in SP. cbn [fst snd] in SP.
  set (M := to_delta conv true always (mirror_ops ops) t2 t1 (map mirror_entry (mutual esf)) recf) in *.
  assert (SUB : sub conv ro ao d t2 = Some (apply conv ro ao M t2)) by (apply sub_same_payload; [exact SP|reflexivity]).
  rewrite SUB.
  (* the reverse tree *)
  assert (SG : sg c t1 t2).
  { split; [exact W1|]. split; [exact W2|]. split; [exact AF'|].
    assert (AK : forall v, nopriv v = true \/ ignore_private c = false -> allkeep c v = true)
      by (intros v [H|H]; [apply allkeep_nopriv; exact H|apply allkeep_flag; exact H]).
    destruct NP as [NP|[NP2 NP1]]; (split; [apply AK; tauto|split; [apply AK; tauto|exact KO]]). }
  destruct (diff_sym2 hatom udiff ops c t1 t2 [] SG) as [KE RE]. fold esf in KE. fold recf in RE.
  set (esr := fst (diff hatom udiff (mirror_ops ops) nos nos c t2 t1 [] [])) in *.
  assert (Er' : run_diff hatom udiff (mirror_ops ops) nos nos c t2 t1 = (mutual esr, recf)).
  { unfold run_diff, esr. rewrite <- RE. destruct (diff hatom udiff (mirror_ops ops) nos nos c t2 t1 [] []) as [es rec]. reflexivity. }
  set (D' := to_delta conv true always (mirror_ops ops) t2 t1 (mutual esr) recf).
  (* uniqueness of added / removed paths in the forward tree *)
  assert (Hleaf : zip c = false -> leaf_distinct udiff ops nos).
  { intros Z. destruct Hsorted as [Z'|O]; [congruence|]. apply leaf_distinct_of_sorted. exact O. }
  destruct (diff_distinct hatom udiff ops nos nos c Hleaf t1 t2 [] W1 W2) as [[DP _] _]. fold esf in DP.
  assert (ND : forall k, grp k <> None -> NoDup (map ep1 (filter (is_kind k) esf))).
  { intros k Gk. pose proof (dpairs_kind_NoDup k esf Gk DP) as H. unfold nloc in H.
    rewrite <- (map_map ep1 norm) in H. eapply NoDup_map_inv. exact H. }
  assert (ISP : iterk_same_paths esf).
  { intros e He Ke. eapply Forall_forall in HF; [|exact He]. unfold faithful in HF.
    destruct Ke as [Ke|Ke]; rewrite Ke in HF; [destruct HF as (b & _ & _ & _ & E)|destruct HF as (a & _ & _ & _ & E)]; exact E. }
  destruct (mutual_mirror esf esr KE ISP (ND KIterAdd ltac:(discriminate)) (ND KIterRem ltac:(discriminate))) as [MK MV].
  (* the two deltas differ in the order of the values_changed pass only *)
  assert (EM : M = with_val (d_val M) D').
  { unfold M, D'. apply to_delta_but_val. intros k Nk. symmetry. apply MK. exact Nk. }
  assert (PV : Permutation (d_val D') (d_val M)) by (unfold D', M; apply d_val_perm; exact MV).
  (* C01 at (t2, t1) with the mirrored oracle *)
  assert (Hops' : forall p xs ys, forallb is_atom xs = true -> forallb is_atom ys = true ->
                                  valid_ops xs ys (mirror_ops ops p xs ys)).
  { intros p xs ys Ax Ay. unfold mirror_ops. apply valid_ops_mirror. apply Hops; assumption. }
  destruct (roundtrip hatom udiff (mirror_ops ops) c conv true always Hinj Hconv ro ao t2 t1 Hops' Hro Hao G21) as (t1' & A & V).
  change DeltaGood.nos with nos in A. rewrite Er' in A. cbn [fst snd] in A. fold D' in A.
  exists t1'. split; [|exact V]. f_equal. rewrite <- A. rewrite EM. apply apply_with_val.
  assert (BD : d_bidir D' = true) by reflexivity. rewrite BD.
  apply values_changed_perm_clean.
  - exact PV.
  - (* independence of the reverse diff's delta *)
    assert (I : indep_verified D' = true).
    { assert (E1 : mutual esr = fst (run_diff hatom udiff (mirror_ops ops) nos nos c t2 t1)) by (rewrite Er'; reflexivity).
      assert (E2 : recf = snd (run_diff hatom udiff (mirror_ops ops) nos nos c t2 t1)) by (rewrite Er'; reflexivity).
      unfold D'. rewrite E1, E2.
      destruct Hsorted as [Z|O]; [apply diff_delta_indep_zip; assumption|].
      apply diff_delta_indep_ops; try assumption.
      intros p xs ys. unfold mirror_ops. apply (ops_ok_mirror _ 0 0). apply O. }
    unfold indep_verified in I. apply andb_true_iff in I as [I _]. apply andb_true_iff in I as [I _]. exact I.
  - (* recorded old values *)
    apply Forall_forall. intros cc Hcc. unfold D', to_delta in Hcc. cbn [d_val] in Hcc.
    apply in_flat_map in Hcc as (e & He & Hcc).
    assert (HeR : In e (fst (run_diff hatom udiff (mirror_ops ops) nos nos c t2 t1))) by (rewrite Er'; exact He).
    destruct (run_diff_faithful hatom udiff (mirror_ops ops) nos nos c t2 t1 Hthr W2 W1 e HeR) as [F _].
    unfold faithful in F. destruct (ekind e); try (destruct Hcc; fail). destruct Hcc as [<-|[]].
    destruct F as (a & b & E1 & _). cbn. exists a. exact E1.
  - intros cc Hcc. cbn [root].
    assert (In cc (d_val M)) by (eapply Permutation_in; [exact PV|exact Hcc]).
    (* the reverse delta and M have the same values_changed paths *)
    destruct SP as [SPv _ _ _ _ _ _ _ _ _ _].
    assert (Hin : In (vc_core cc) (map vc_core (d_val M))) by (apply in_map; exact H).
    rewrite <- SPv in Hin.
    apply in_map_iff in Hin as (c0 & E0 & H0). unfold vc_core in E0. injection E0 as Ep _ _.
    rewrite <- Ep. apply Hntp. exact H0.
  - (* the first pass of the error-free run is clean *)
    pose proof (errs_after_prefix conv ro ao D' t2 1) as P. rewrite A in P.
    cbn [firstn passes DeltaVerify.passes DeltaVerify.run_passes fold_left snd] in P. rewrite BD in P.
    cbn [errs]. lia.
Qed.

End Clash.

(** C08 with C01 (b01's round trip, Delta/DeltaRoundtrip.v) plugged in: for the
    bidirectional delta of a diff that reports value / type changes only, the
    premise "t1 + d = t2 without error" of the inversion theorem is a theorem
    itself, so  (t1 + d) - d = t1  and every back-and-forth sequence hold
    outright.  C01 gives the sum up to dict / set order ([veqb]); it IS t2 when
    t2 holds no dict / set ([ordfree]). *)
From Coq Require Import List ZArith NArith Bool Arith Lia Permutation.
Import ListNotations.
From DD Require Import Base.PyStr Base.Value Base.ValueFacts Path.PathModel
  Diff.Tree Diff.DiffModel Diff.DiffFacts Diff.DiffFaithful
  Delta.DeltaModel Delta.DeltaGuard Delta.DeltaRun Delta.DeltaGood Delta.DeltaRoundtrip Delta.DeltaChain
  Delta.DeltaVerify Delta.DeltaVerifyIndep Delta.DeltaReverse Delta.DeltaReverseInplace
  Delta.DeltaReverseDiffInplace Delta.DeltaReverseSeq.

Lemma ro_ok_nil ro : ro_ok ro -> ro [] = [].
Proof. intros H. destruct (H []) as [P _]. apply Permutation_nil in P. exact P. Qed.

Section WithC01.
Variable hatom : atom -> pystr.
Variable udiff : pystr -> pystr -> pystr.
Variable ops : path -> list value -> list value -> list opcode.
Variable c : cfg.
Variable conv : ty -> value -> option value.
Variable always : bool.
Hypothesis Hinj : forall a b, hatom a = hatom b -> a = b.
Hypothesis Hconv : forall ty0 v v', conv ty0 v = Some v' -> type_of v' = ty0.
Variable ro : list (path * value) -> list (path * value).
Variable ao : list (path * option value) -> list (path * option value).
Hypothesis Hro : ro_ok ro.
Hypothesis Hao : ao_ok ao.
Hypothesis Hops : forall p xs ys, forallb is_atom xs = true -> forallb is_atom ys = true ->
                                  valid_ops xs ys (ops p xs ys).
Variables t1 t2 : value.
Hypothesis G : guards c conv true always t1 t2.
Hypothesis Hmode : zip c = true \/ ops_disjoint ops.
Hypothesis Hthr : thr_num c <= thr_den c.
Hypothesis N2 : keys_nonneg t2 = true.

Let r := run_diff hatom udiff ops nos nos c t1 t2.
Let d := to_delta conv true always ops t1 t2 (fst r) (snd r).

Hypothesis Hrec : snd r = [].
Hypothesis Hes : Forall inplace_entry (fst r).
Hypothesis Hntp : forall e, In e (fst r) -> ntp t1 (npath (ep1 e)).

Theorem add_then_sub_of_diff :
  exists t2', apply conv ro ao d t1 = (t2', 0) /\ veqb t2' t2 = true /\
              sub conv ro ao d t2' = Some (t1, 0).
Proof.
  destruct (roundtrip hatom udiff ops c conv true always Hinj Hconv ro ao t1 t2 Hops Hro Hao G) as (t2' & A & V).
  fold r in A. fold d in A.
  exists t2'. split; [exact A|]. split; [exact V|].
  destruct G as (W1 & W2 & _).
  assert (I : indep_verified d = true).
  { unfold d, r. destruct Hmode as [Z|O]; [apply diff_delta_indep_zip|apply diff_delta_indep_ops]; assumption. }
  unfold d in *. rewrite Hrec in *.
  apply diff_inplace_sub_inverts_gen; try assumption.
  - apply Forall_forall. intros e He. eapply run_diff_faithful; eassumption.
  - apply ro_ok_nil. exact Hro.
Qed.

(* back and forth between t1 and the sum, any length *)
Theorem back_and_forth_of_diff :
  exists t2', veqb t2' t2 = true /\
    forall k,
      run_seq conv ro ao d (alternating Plus k) t1 = Some (if Nat.even k then t1 else t2', 0) /\
      run_seq conv ro ao d (alternating Minus k) t2' = Some (if Nat.even k then t2' else t1, 0).
Proof.
  destruct add_then_sub_of_diff as (t2' & A & V & S). exists t2'. split; [exact V|].
  apply back_and_forth; assumption.
Qed.

(* no dict / set in t2: the sum is t2 itself *)
Theorem sub_inverts_of_diff_ordfree :
  ordfree t2 = true ->
  apply conv ro ao d t1 = (t2, 0) /\ sub conv ro ao d t2 = Some (t1, 0).
Proof.
  intros O. destruct add_then_sub_of_diff as (t2' & A & V & S).
  apply veqb_ordfree in V; [|exact O]. subst t2'. split; assumption.
Qed.

End WithC01.

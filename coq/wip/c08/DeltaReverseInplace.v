(** C08: exact inversion for the in-place fragment.  A bidirectional delta
    whose payload consists of value / type changes at pairwise independent
    existing locations (any number, any nesting depth) and that applies to v1
    without error giving v2 is undone exactly by its reverse:
    v2 - delta = v1, no error logged.  Proved on the passes themselves
    (writes at diverging paths commute, a second write overwrites the first,
    writing back the value found is the identity). *)
From Coq Require Import List ZArith NArith Bool Arith Lia.
Import ListNotations.
From DD Require Import Base.PyStr Base.Value Base.ValueFacts Path.PathModel
  Diff.Tree Diff.DiffModel Diff.DiffFacts Diff.DiffFaithful
  Delta.DeltaModel Delta.DeltaVerify Delta.DeltaReverse.

(* ------------------------------------------------------------------ *)
(* Python == is reflexive on well-formed values                        *)
(* ------------------------------------------------------------------ *)
Lemma dict_go_refl kvs : nodup_atoms (map fst kvs) = true ->
  forall l, (forall kv, In kv l -> In kv kvs) ->
  Forall (fun kv => py_eqv (snd kv) (snd kv) = true) l -> dict_go kvs l = true.
Proof.
  intros N. induction l as [|[k v] l IH]; intros Sub HF; cbn; [reflexivity|].
  apply Forall_cons_iff in HF as [Hv HF].
  rewrite (assoc_nodup kvs k v k N (Sub _ (or_introl eq_refl)) (py_eq_refl k)).
  cbn in Hv. rewrite Hv. cbn. apply IH; [|exact HF]. intros kv Hkv. apply Sub. right. exact Hkv.
Qed.

Lemma py_eqv_refl : forall v, wf v = true -> py_eqv v v = true.
Proof.
  induction v as [a|xs IH|xs IH|kvs IH|xs|xs] using value_ind'; intros W.
  - cbn. apply py_eq_refl.
  - cbn in W. cbn. revert W. induction IH as [|x xs Hx _ IHxs]; intros W; [reflexivity|].
    cbn in W. apply andb_true_iff in W as [W1 W2]. rewrite (Hx W1). cbn. apply IHxs. exact W2.
  - cbn in W. cbn. revert W. induction IH as [|x xs Hx _ IHxs]; intros W; [reflexivity|].
    cbn in W. apply andb_true_iff in W as [W1 W2]. rewrite (Hx W1). cbn. apply IHxs. exact W2.
  - cbn in W. apply andb_true_iff in W as [N W]. rewrite py_eqv_dict, Nat.eqb_refl. cbn.
    apply dict_go_refl; [exact N|intros kv H; exact H|].
    apply Forall_forall. intros kv Hkv. eapply Forall_forall in IH; [|exact Hkv]. apply IH.
    eapply forallb_forall in W; [|exact Hkv]. exact W.
  - cbn. rewrite Nat.eqb_refl. cbn. apply forallb_forall. intros x Hx. apply mem_atom_In.
    exists x. split; [exact Hx|apply py_eq_refl].
  - cbn. rewrite Nat.eqb_refl. cbn. apply forallb_forall. intros x Hx. apply mem_atom_In.
    exists x. split; [exact Hx|apply py_eq_refl].
Qed.

(* ------------------------------------------------------------------ *)
(* item assignment: overwrite, swap, identity                          *)
(* ------------------------------------------------------------------ *)
Lemma list_set_twice xs : forall i x y xs1,
  list_set xs i x = Some xs1 -> i < length xs -> list_set xs1 i y = list_set xs i y.
Proof.
  induction xs as [|z xs IH]; intros i x y xs1 H L; [cbn in L; lia|].
  destruct i as [|i]; cbn in H.
  - inversion H; subst. reflexivity.
  - destruct (list_set xs i x) as [r|] eqn:E; [|discriminate]. inversion H; subst. cbn.
    rewrite (IH i x y r E) by (cbn in L; lia). reflexivity.
Qed.

Lemma list_set_swap xs : forall i j x y xi xj, i <> j -> i < length xs -> j < length xs ->
  list_set xs i x = Some xi -> list_set xs j y = Some xj ->
  exists xij, list_set xi j y = Some xij /\ list_set xj i x = Some xij.
Proof.
  induction xs as [|z xs IH]; intros i j x y xi xj N Li Lj Hi Hj; [cbn in Li; lia|].
  destruct i as [|i], j as [|j]; try congruence; cbn in Hi, Hj.
  - inversion Hi; subst. destruct (list_set xs j y) as [r|] eqn:E; [|discriminate]. inversion Hj; subst.
    exists (x :: r). cbn. rewrite E. split; reflexivity.
  - inversion Hj; subst. destruct (list_set xs i x) as [r|] eqn:E; [|discriminate]. inversion Hi; subst.
    exists (y :: r). cbn. rewrite E. split; reflexivity.
  - destruct (list_set xs i x) as [ri|] eqn:Ei; [|discriminate]. inversion Hi; subst.
    destruct (list_set xs j y) as [rj|] eqn:Ej; [|discriminate]. inversion Hj; subst.
    destruct (IH i j x y ri rj) as (rij & H1 & H2); try assumption; try (cbn in Li, Lj; lia).
    exists (z :: rij). cbn. rewrite H1, H2. split; reflexivity.
Qed.

Lemma list_set_lt_some xs : forall i x, i < length xs -> exists xs', list_set xs i x = Some xs'.
Proof.
  induction xs as [|z xs IH]; intros i x L; [cbn in L; lia|].
  destruct i as [|i]; cbn; [eexists; reflexivity|].
  destruct (IH i x) as [l' Hl']; [cbn in L; lia|]. rewrite Hl'. eexists; reflexivity.
Qed.

Lemma list_set_id xs : forall i x, nth_error xs i = Some x -> list_set xs i x = Some xs.
Proof.
  induction xs as [|z xs IH]; intros [|i] x H; cbn in *; try discriminate.
  - inversion H; reflexivity.
  - rewrite (IH i x H). reflexivity.
Qed.

Lemma dict_set_twice kvs k x y : dict_set (dict_set kvs k x) k y = dict_set kvs k y.
Proof.
  induction kvs as [|[k' v'] r IH]; cbn.
  - rewrite py_eq_refl. reflexivity.
  - destruct (py_eq k' k) eqn:E; cbn; rewrite E; [reflexivity|]. rewrite IH. reflexivity.
Qed.

Lemma dict_set_id kvs k x : assoc k kvs = Some x -> dict_set kvs k x = kvs.
Proof.
  induction kvs as [|[k' v'] r IH]; cbn; [discriminate|].
  destruct (py_eq k' k); [intros H; inversion H; reflexivity|].
  intros H. rewrite IH by exact H. reflexivity.
Qed.

Lemma dict_set_swap kvs a b x y : py_eq a b = false ->
  assoc a kvs <> None -> assoc b kvs <> None ->
  dict_set (dict_set kvs a x) b y = dict_set (dict_set kvs b y) a x.
Proof.
  intros N. induction kvs as [|[k v] r IH]; cbn; intros Ha Hb; [congruence|].
  destruct (py_eq k a) eqn:Ea, (py_eq k b) eqn:Eb.
  - exfalso. rewrite py_eq_sym in Ea. rewrite (py_eq_trans a k b Ea Eb) in N. discriminate.
  - cbn. rewrite Ea, Eb. reflexivity.
  - cbn. rewrite Ea, Eb. reflexivity.
  - cbn. rewrite Ea, Eb. rewrite IH by assumption. reflexivity.
Qed.

Definition settable (v : value) : bool := match v with VList _ | VDict _ => true | _ => false end.

Lemma set_item_settable obj k x o' : set_item obj k x = Some o' -> settable obj = true /\ settable o' = true.
Proof.
  destruct obj; cbn; try discriminate.
  - destruct (list_index xs k); [|discriminate]. destruct (list_set xs n x); [|discriminate].
    intros H; inversion H; subst. split; reflexivity.
  - intros H; inversion H; subst. split; reflexivity.
Qed.

Lemma settable_not_tuple v : settable v = true -> is_tuple v = false.
Proof. destruct v; cbn; congruence. Qed.

(* an existing list item: the index in range *)
Lemma get_item_list_index xs k c :
  get_item (VList xs) k = Some c ->
  exists i, list_index xs k = Some i /\ nth_error xs i = Some c.
Proof.
  cbn. unfold list_index. destruct (int_of_atom k) as [z|]; [|discriminate].
  unfold seq_index. cbv zeta.
  destruct (Z.ltb_spec z 0) as [Hneg|Hpos].
  - destruct (Z.ltb_spec (z + Z.of_nat (length xs)) 0) as [A|A]; [discriminate|].
    destruct (Z.leb_spec (Z.of_nat (length xs)) (z + Z.of_nat (length xs))) as [B|B]; [discriminate|]. cbn [orb].
    intros Hn. destruct (Z.leb_spec (- Z.of_nat (length xs)) z) as [C|C]; [|lia].
    eexists; split; [reflexivity|exact Hn].
  - destruct (Z.ltb_spec z 0) as [A|A]; [lia|].
    destruct (Z.leb_spec (Z.of_nat (length xs)) z) as [B|B]; [discriminate|]. cbn [orb].
    intros Hn. eexists; split; [reflexivity|exact Hn].
Qed.

Lemma list_index_length xs xs' k : length xs' = length xs -> list_index xs' k = list_index xs k.
Proof. intros H. unfold list_index. rewrite H. reflexivity. Qed.

Lemma set_item_twice obj k x y o1 c :
  set_item obj k x = Some o1 -> get_item obj k = Some c -> set_item o1 k y = set_item obj k y.
Proof.
  intros S G. destruct obj; cbn in S; try discriminate.
  - destruct (get_item_list_index xs k c G) as (i & Li & Hn).
    assert (L : i < length xs) by (apply nth_error_Some; congruence).
    rewrite Li in S. destruct (list_set xs i x) as [xs1|] eqn:E; [|discriminate]. inversion S; subst.
    cbn. rewrite (list_index_length xs xs1 k (list_set_length xs i x xs1 E L)), Li.
    rewrite (list_set_twice xs i x y xs1 E L). reflexivity.
  - inversion S; subst. cbn. rewrite dict_set_twice. reflexivity.
Qed.

Lemma set_item_id obj k x : get_item obj k = Some x -> settable obj = true -> set_item obj k x = Some obj.
Proof.
  intros G T. destruct obj; try discriminate T.
  - destruct (get_item_list_index xs k x G) as (i & Li & Hn). cbn. rewrite Li, (list_set_id xs i x Hn). reflexivity.
  - cbn in *. rewrite dict_set_id by exact G. reflexivity.
Qed.

Lemma set_item_swap obj a b x y ca cb oa ob :
  sep a b = true -> get_item obj a = Some ca -> get_item obj b = Some cb ->
  set_item obj a x = Some oa -> set_item obj b y = Some ob ->
  exists oab, set_item oa b y = Some oab /\ set_item ob a x = Some oab.
Proof.
  unfold sep. intros H Ga Gb Sa Sb. apply andb_true_iff in H as [H Nb]. apply andb_true_iff in H as [N Na].
  apply negb_true_iff in N.
  destruct obj; cbn in Sa; try discriminate.
  - destruct (get_item_list_index xs a ca Ga) as (i & Li & Hi).
    destruct (get_item_list_index xs b cb Gb) as (j & Lj & Hj).
    assert (Lti : i < length xs) by (apply nth_error_Some; congruence).
    assert (Ltj : j < length xs) by (apply nth_error_Some; congruence).
    cbn in Sb. rewrite Li in Sa. rewrite Lj in Sb.
    destruct (list_set xs i x) as [xi|] eqn:Ei; [|discriminate]. inversion Sa; subst.
    destruct (list_set xs j y) as [xj|] eqn:Ej; [|discriminate]. inversion Sb; subst.
    assert (Nij : i <> j).
    { assert (exists za, int_of_atom a = Some za) as [za Ia]
        by (unfold list_index in Li; destruct (int_of_atom a); [eexists; reflexivity|discriminate]).
      assert (exists zb, int_of_atom b = Some zb) as [zb Ib]
        by (unfold list_index in Lj; destruct (int_of_atom b); [eexists; reflexivity|discriminate]).
      unfold nonneg_key in Na, Nb. rewrite Ia in Na. rewrite Ib in Nb. apply Z.leb_le in Na, Nb.
      rewrite (int_of_atom_py_eq a b za zb Ia Ib) in N. apply Z.eqb_neq in N.
      rewrite (list_index_nonneg xs a i za Li Ia Na), (list_index_nonneg xs b j zb Lj Ib Nb).
      intros E. apply N. apply Z2Nat.inj; assumption. }
    destruct (list_set_swap xs i j x y xi xj Nij Lti Ltj Ei Ej) as (xij & H1 & H2).
    exists (VList xij). cbn.
    rewrite (list_index_length xs xi b (list_set_length xs i x xi Ei Lti)), Lj, H1.
    rewrite (list_index_length xs xj a (list_set_length xs j y xj Ej Ltj)), Li, H2. split; reflexivity.
  - cbn in Sb. inversion Sa; inversion Sb; subst. cbn in Ga, Gb.
    exists (VDict (dict_set (dict_set kvs a x) b y)). cbn. split; [reflexivity|].
    rewrite (dict_set_swap kvs a b x y N) by congruence. reflexivity.
Qed.

(* ------------------------------------------------------------------ *)
(* upd: read back, overwrite, identity, commutation                    *)
(* ------------------------------------------------------------------ *)
Definition const_w (x : value) : value -> option value := fun _ => Some x.

Lemma upd_get : forall p r f r', upd r p f = Some r' ->
  exists o o', resolve r p = Some o /\ f o = Some o' /\ resolve r' p = Some o'.
Proof.
  induction p as [|k p IH]; intros r f r' U.
  - cbn in U. exists r, r'. repeat split; [exact U].
  - apply upd_cons_inv in U as (ch & ch' & G & U' & S).
    destruct (IH ch f ch' U') as (o & o' & R & F & R').
    exists o, o'. cbn [resolve]. rewrite G, (get_item_set_item_same _ _ _ _ S). repeat split; assumption.
Qed.

Lemma upd_const_twice : forall p r x y r1,
  upd r p (const_w y) = Some r1 -> upd r1 p (const_w x) = upd r p (const_w x).
Proof.
  induction p as [|k p IH]; intros r x y r1 U; [reflexivity|].
  apply upd_cons_inv in U as (ch & ch1 & G & U' & S).
  rewrite !upd_cons. rewrite (get_item_set_item_same _ _ _ _ S), G.
  rewrite (IH ch x y ch1 U').
  destruct (upd ch p (const_w x)) as [c'|]; [|reflexivity].
  destruct (set_item_settable _ _ _ _ S) as [T T1].
  rewrite (set_item_twice r (key_atom k) ch1 c' r1 ch S G).
  destruct r, r1; try discriminate T; try discriminate T1; reflexivity.
Qed.

Lemma upd_const_id : forall p r x y r1,
  resolve r p = Some x -> upd r p (const_w y) = Some r1 -> upd r p (const_w x) = Some r.
Proof.
  induction p as [|k p IH]; intros r x y r1 R U.
  - cbn in R. inversion R; subst. reflexivity.
  - apply upd_cons_inv in U as (ch & ch1 & G & U' & S).
    cbn [resolve] in R. rewrite G in R.
    rewrite upd_cons, G, (IH ch x y ch1 R U').
    destruct (set_item_settable _ _ _ _ S) as [T _].
    rewrite (set_item_id r (key_atom k) ch G T).
    destruct r; try discriminate T; reflexivity.
Qed.

Lemma upd_comm : forall p q r f g r1 r2, diverge p q = true ->
  upd r p f = Some r1 -> upd r q g = Some r2 ->
  exists r12, upd r1 q g = Some r12 /\ upd r2 p f = Some r12.
Proof.
  induction p as [|a p IH]; intros q r f g r1 r2 D U1 U2; [destruct q; discriminate|].
  destruct q as [|b q]; [discriminate|]. cbn [diverge] in D.
  apply upd_cons_inv in U1 as (cha & ca & Ga & Ua & Sa).
  apply upd_cons_inv in U2 as (chb & cb & Gb & Ub & Sb).
  destruct (set_item_settable _ _ _ _ Sa) as [T Ta]. destruct (set_item_settable _ _ _ _ Sb) as [_ Tb].
  destruct (pkey_eqb a b) eqn:E.
  - apply pkey_eqb_eq in E. subst b. rewrite Ga in Gb. inversion Gb; subst chb.
    destruct (IH q cha f g ca cb D Ua Ub) as (c12 & H1 & H2).
    destruct (set_item_settable _ _ _ _ Sa) as [_ T1].
    assert (exists r12, set_item r (key_atom a) c12 = Some r12) as [r12 S12].
    { destruct r; try discriminate T.
      - destruct (get_item_list_index xs (key_atom a) cha Ga) as (i & Li & Hi).
        assert (L : i < length xs) by (apply nth_error_Some; congruence).
        cbn. rewrite Li. destruct (list_set_lt_some xs i c12 L) as [l' Hl']. rewrite Hl'. eexists; reflexivity.
      - cbn. eexists; reflexivity. }
    exists r12. rewrite !upd_cons.
    rewrite (get_item_set_item_same _ _ _ _ Sa), H1, (get_item_set_item_same _ _ _ _ Sb), H2.
    rewrite (set_item_twice r (key_atom a) ca c12 r1 cha Sa Ga), (set_item_twice r (key_atom a) cb c12 r2 cha Sb Ga), S12.
    destruct r1, r2; try discriminate Ta; try discriminate Tb; split; reflexivity.
  - destruct (set_item_swap r (key_atom a) (key_atom b) ca cb cha chb r1 r2 D Ga Gb Sa Sb) as (r12 & H1 & H2).
    exists r12. rewrite !upd_cons.
    rewrite (get_item_set_item_other _ _ _ _ _ Sa) by (rewrite sep_sym; exact D). rewrite Gb, Ub.
    rewrite (get_item_set_item_other _ _ _ _ _ Sb D). rewrite Ga, Ua. rewrite H1, H2.
    destruct r1, r2; try discriminate Ta; try discriminate Tb; split; reflexivity.
Qed.

(* after a successful write every container above the written item is a list or a dict *)
Lemma upd_prefix_settable : forall pre suf r f r' o',
  suf <> [] -> upd r (pre ++ suf) f = Some r' -> resolve r' pre = Some o' -> settable o' = true.
Proof.
  induction pre as [|k pre IH]; intros suf r f r' o' N U R.
  - cbn in R. inversion R; subst. destruct suf as [|k suf]; [congruence|]. cbn [app] in U.
    apply upd_cons_inv in U as (ch & ch' & G & U' & S). apply (set_item_settable _ _ _ _ S).
  - cbn [app] in U. apply upd_cons_inv in U as (ch & ch' & G & U' & S).
    cbn [resolve] in R. rewrite (get_item_set_item_same _ _ _ _ S) in R. eapply IH; eassumption.
Qed.

Lemma upd_app : forall p1 p2 r f, upd r (p1 ++ p2) f = upd r p1 (fun o => upd o p2 f).
Proof.
  induction p1 as [|k p1 IH]; intros p2 r f; [reflexivity|].
  cbn [app]. rewrite !upd_cons. destruct (get_item r (key_atom k)); [|reflexivity].
  rewrite IH. reflexivity.
Qed.

Lemma upd_ext_at : forall p r f g o, resolve r p = Some o -> f o = g o -> upd r p f = upd r p g.
Proof.
  induction p as [|k p IH]; intros r f g o R E.
  - cbn in R. inversion R; subst. exact E.
  - cbn [resolve] in R. rewrite !upd_cons. destruct (get_item r (key_atom k)) as [ch|]; [|discriminate].
    rewrite (IH ch f g o R E). reflexivity.
Qed.

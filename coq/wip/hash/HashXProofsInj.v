(** C07 on the extended universe, by reduction to the base universe.  A leaf whose result text is r hashes exactly
    like the str r (the mechanism of K1, used as a tool): [tr xo v] replaces every leaf of the extended universe by
    that str, and [xhash] of an object-free value is [hash_pure] of its translation ([xhash_tr]).  With the relaxed
    K1 guard of HashProofsAlikeG.v the exact characterisation of hash equality carries over ([xhash_alike]); the
    leaf texts are injective on the leaves' normal forms ([xleaf_result_inj_*]). *)
From Coq Require Import List ZArith NArith Bool Lia Permutation Arith String.
Import ListNotations.
From DD Require Import Base.PyStr Base.Value Base.ValueFacts Hash.HashModel Hash.Equiv Hash.HashProofsBase
  Hash.HashProofsC06 Hash.HashProofsC07 Hash.HashAlike Hash.HashProofsAlike Hash.HashXModel Hash.HashXProofs Hash.HashXEquiv Hash.HashXProofsEqv.
Require Import HashProofsAlikeG.

Definition tr_atom (xo : xopts) (a : xatom) : atom :=
  match a with XA b => b | XL l => AStr (xleaf_result xo l) end.
Fixpoint tr (xo : xopts) (v : xvalue) : value :=
  match v with
  | XAtom a => VAtom (tr_atom xo a)
  | XList xs => VList (map (tr xo) xs)
  | XTuple xs => VTuple (map (tr xo) xs)
  | XDict kvs => VDict (map (fun kv => (tr_atom xo (fst kv), tr xo (snd kv))) kvs)
  | XSet xs => VSet (map (tr_atom xo) xs)
  | XFrozen xs => VFrozen (map (tr_atom xo) xs)
  | XObj _ _ _ => VAtom ANone
  end.
Fixpoint obj_free (v : xvalue) : bool :=
  match v with
  | XAtom _ | XSet _ | XFrozen _ => true
  | XList xs | XTuple xs => forallb obj_free xs
  | XDict kvs => forallb (fun kv => obj_free (snd kv)) kvs
  | XObj _ _ _ => false
  end.

Section Tr.
Variable H : pystr -> pystr.
Hypothesis H_nonempty : forall s, s <> [] -> H s <> [].
Variable xo : xopts.
Hypothesis Hah : apply_hash xo = true.
Hypothesis Hp : plain (xbase xo) = true.
Local Notation o := (xbase xo).

Lemma eff_digits_plain : eff_digits o = None.
Proof. destruct (plain_inv o Hp) as (ir & io & ip & E). rewrite E. reflexivity. Qed.

Lemma xatom_hash_tr : forall a, xatom_hash H xo a = hash_atom H o (tr_atom xo a).
Proof.
  intros a. unfold xatom_hash, fin, hash_atom. rewrite Hah.
  destruct a as [[| b | z | t | s | s]|l]; cbn [is_text xatom_result ser_atom atom_result tr_atom]; try reflexivity.
  - unfold xnum_int. rewrite eff_digits_plain. reflexivity.
  - unfold xnum_half. rewrite eff_digits_plain. reflexivity.
Qed.

Lemma hidden_tr : forall a, hidden o (tr_atom xo a) = ignore_private o && xis_private a.
Proof.
  intros [b|l]; [reflexivity|]. unfold hidden. cbn [tr_atom xis_private]. rewrite andb_false_r.
  destruct (plain_inv o Hp) as (ir & io & ip & E).
  destruct l; cbn [xleaf_result is_private]; rewrite ?E; cbn; rewrite ?andb_false_r; reflexivity.
Qed.

Lemma is_empty_H' : forall s, s <> [] -> is_empty (H s) = false.
Proof. intros s Hs. destruct (H s) eqn:E; auto. exfalso. eapply H_nonempty; eauto. Qed.

Lemma xmembers_tr : forall xs p i,
  xmembers H no_skip xo p i xs = (map (hash_atom H o) (map (tr_atom xo) xs), List.length xs).
Proof.
  induction xs as [|a xs IH]; intros p i; [reflexivity|]. cbn [map xmembers]. rewrite IH.
  unfold no_skip. rewrite xatom_hash_tr. reflexivity.
Qed.

Theorem xhash_tr : forall v, obj_free v = true -> forall p,
  exists n, xhash H no_skip xo p v = Some (hash_pure H o (tr xo v), n).
Proof.
  induction v as [a|xs IH|xs IH|kvs IH|xs|xs|k cls fs IH] using xvalue_ind'; intros Hk p.
  - exists 1%nat. cbn [tr xhash]. unfold no_skip. rewrite xatom_hash_tr. reflexivity.
  - assert (E : forall l i, forallb obj_free l = true -> Forall (fun v => obj_free v = true -> forall p,
                 exists n, xhash H no_skip xo p v = Some (hash_pure H o (tr xo v), n)) l ->
               exists c,
               (fix items (i : nat) (xs : list xvalue) {struct xs} : list pystr * nat :=
                  match xs with
                  | [] => ([], 0%nat)
                  | x :: r => let '(hs, c) := items (S i) r in
                              if no_skip (p ++ [KIdx i]) x then (hs, c)
                              else match xhash H no_skip xo (p ++ [KIdx i]) x with
                                   | Some (h, n) => (h :: hs, (n + c)%nat)
                                   | None => (none_token :: hs, c)
                                   end
                  end) i l = (map (hash_pure H o) (map (tr xo) l), c)).
    { induction l as [|x l IHl]; intros i Hok HF; [exists 0%nat; reflexivity|].
      inversion HF as [|? ? Hx HF']; subst. cbn [map]. cbn [forallb] in Hok. apply andb_true_iff in Hok.
      destruct Hok as [Hx1 Hl1].
      destruct (IHl (S i) Hl1 HF') as [c Ec]. rewrite Ec.
      destruct (Hx Hx1 (p ++ [KIdx i])) as [n En]. rewrite En. unfold no_skip. eauto. }
    destruct (E xs 0%nat Hk IH) as [c Ec].
    exists (S c). cbn [tr xhash hview]. unfold no_skip at 1. cbn beta iota. rewrite Ec. unfold fin. rewrite Hah. reflexivity.
  - assert (E : forall l i, forallb obj_free l = true -> Forall (fun v => obj_free v = true -> forall p,
                 exists n, xhash H no_skip xo p v = Some (hash_pure H o (tr xo v), n)) l ->
               exists c,
               (fix items (i : nat) (xs : list xvalue) {struct xs} : list pystr * nat :=
                  match xs with
                  | [] => ([], 0%nat)
                  | x :: r => let '(hs, c) := items (S i) r in
                              if no_skip (p ++ [KIdx i]) x then (hs, c)
                              else match xhash H no_skip xo (p ++ [KIdx i]) x with
                                   | Some (h, n) => (h :: hs, (n + c)%nat)
                                   | None => (none_token :: hs, c)
                                   end
                  end) i l = (map (hash_pure H o) (map (tr xo) l), c)).
    { induction l as [|x l IHl]; intros i Hok HF; [exists 0%nat; reflexivity|].
      inversion HF as [|? ? Hx HF']; subst. cbn [map]. cbn [forallb] in Hok. apply andb_true_iff in Hok.
      destruct Hok as [Hx1 Hl1].
      destruct (IHl (S i) Hl1 HF') as [c Ec]. rewrite Ec.
      destruct (Hx Hx1 (p ++ [KIdx i])) as [n En]. rewrite En. unfold no_skip. eauto. }
    destruct (E xs 0%nat Hk IH) as [c Ec].
    exists (S c). cbn [tr xhash hview]. unfold no_skip at 1. cbn beta iota. rewrite Ec. unfold fin. rewrite Hah. reflexivity.
  - assert (E : forall l, forallb (fun kv => obj_free (snd kv)) l = true ->
               Forall (fun kv => obj_free (snd kv) = true -> forall p,
                 exists n, xhash H no_skip xo p (snd kv) = Some (hash_pure H o (tr xo (snd kv)), n)) l ->
               exists c,
               (fix go (kvs : list (xatom * xvalue)) : list pystr * nat :=
                  match kvs with
                  | [] => ([], 0%nat)
                  | (k, x) :: r =>
                      let '(its, c) := go r in
                      if ignore_private (xbase xo) && xis_private k then (its, S c)
                      else match xkey_hash H no_skip xo (p ++ [KKey k]) k with
                           | Some kh =>
                               if is_empty kh || no_skip (p ++ [KKey k]) x then (its, S c)
                               else match xhash H no_skip xo (p ++ [KKey k]) x with
                                    | Some (vh, n) => (dict_item kh vh :: its, S (n + c))
                                    | None => (dict_item kh none_token :: its, S c)
                                    end
                           | None => (its, S c)
                           end
                  end) l
               = (map (fun kv => dict_item (hash_atom H o (fst kv)) (hash_pure H o (snd kv)))
                      (vis o (map (fun kv => (tr_atom xo (fst kv), tr xo (snd kv))) l)), c)).
    { induction l as [|[k x] l IHl]; intros Hok HF; [exists 0%nat; reflexivity|].
      inversion HF as [|? ? Hx HF']; subst. cbn [forallb snd] in Hok. apply andb_true_iff in Hok.
      destruct Hok as [Hx1 Hl1].
      destruct (IHl Hl1 HF') as [c Ec]. rewrite Ec.
      cbn [map fst snd]. unfold vis. cbn [filter fst]. rewrite hidden_tr.
      destruct (ignore_private o && xis_private k); cbn [negb]; [eauto|].
      unfold xkey_hash. unfold no_skip at 1. rewrite xatom_hash_tr.
      unfold hash_atom at 1. rewrite is_empty_H' by (apply ser_atom_nonempty; exact Hp). unfold no_skip at 1. cbn [orb].
      destruct (Hx Hx1 (p ++ [KKey k])) as [n En]. cbn [snd] in En. rewrite En. cbn [map fst snd]. eauto. }
    destruct (E kvs Hk IH) as [c Ec].
    exists (S c). cbn [tr xhash hview]. unfold no_skip at 1. cbn beta iota. rewrite Ec.
    rewrite hash_pure_dict. unfold fin. rewrite Hah. reflexivity.
  - exists (S (List.length xs)). cbn [tr xhash hview]. unfold no_skip at 1. cbn beta iota.
    rewrite xmembers_tr. unfold fin. rewrite Hah. reflexivity.
  - exists (S (List.length xs)). cbn [tr xhash hview]. unfold no_skip at 1. cbn beta iota.
    rewrite xmembers_tr. unfold fin. rewrite Hah. reflexivity.
  - discriminate Hk.
Qed.

Corollary xdeephash_tr : forall v, obj_free v = true ->
  xdeephash H no_skip xo v = Some (hash_pure H o (tr xo v)).
Proof. intros v Hk. unfold xdeephash. destruct (xhash_tr v Hk []) as [n ->]. reflexivity. Qed.

End Tr.

(* ------------------------------------------------------------------ *)
(** * The guard at the level of the input, and the exact characterisation *)

(* K1, exactly: a genuine str must not be NONE or contain ':' (the leaves of the extended universe are not strs) *)
Definition xsafe_atom (a : xatom) : bool := match a with XA b => tag_safe_atom b | XL _ => true end.
Fixpoint xsafe (v : xvalue) : bool :=
  match v with
  | XAtom a => xsafe_atom a
  | XList xs | XTuple xs => forallb xsafe xs
  | XDict kvs => forallb (fun kv => xsafe_atom (fst kv) && xsafe (snd kv)) kvs
  | XSet xs | XFrozen xs => forallb xsafe_atom xs
  | XObj _ _ fs => forallb (fun kv => xsafe (snd kv)) fs
  end.

Lemma forallb_flat_map : forall (A B : Type) (f : B -> bool) (g : A -> list B) l,
  forallb f (flat_map g l) = forallb (fun x => forallb f (g x)) l.
Proof.
  intros A B f g l. induction l as [|x l IH]; [reflexivity|]. cbn [flat_map forallb].
  rewrite forallb_app, IH. reflexivity.
Qed.

Lemma forallb_map' : forall (A B : Type) (f : B -> bool) (g : A -> B) l, forallb f (map g l) = forallb (fun x => f (g x)) l.
Proof. intros A B f g l. induction l as [|x l IH]; [reflexivity|]. cbn [map forallb]. rewrite IH. reflexivity. Qed.

Lemma forallb_ext_in' : forall (A : Type) (f g : A -> bool) l,
  (forall x, In x l -> f x = true -> g x = true) -> forallb f l = true -> forallb g l = true.
Proof.
  intros A f g l Hi Hf. rewrite forallb_forall in *. intros x Hx. apply Hi; auto.
Qed.

Section Safe.
Variable xo : xopts.
Hypothesis Hp : plain (xbase xo) = true.

Lemma foreign_leaf : forall l, foreign_str (xleaf_result xo l) = true.
Proof.
  intro l. destruct (plain_inv (xbase xo) Hp) as (ir & io & ip & E).
  destruct l; cbn [xleaf_result]; rewrite ?E; reflexivity.
Qed.

Lemma gsafe_tr_atom : forall a, xsafe_atom a = true -> gsafe_atom (tr_atom xo a) = true.
Proof.
  intros [b|l] Hs; cbn [tr_atom xsafe_atom] in *.
  - destruct b; auto. unfold gsafe_atom. rewrite Hs. reflexivity.
  - unfold gsafe_atom. rewrite foreign_leaf. apply orb_true_r.
Qed.

Lemma gsafe_tr : forall v, obj_free v = true -> xsafe v = true -> gsafe (tr xo v) = true.
Proof.
  unfold gsafe.
  induction v as [a|xs IH|xs IH|kvs IH|xs|xs|k cls fs IH] using xvalue_ind'; intros Hk Hs; cbn [tr atoms_of obj_free xsafe] in *.
  - cbn [forallb]. rewrite gsafe_tr_atom; auto.
  - rewrite forallb_flat_map, forallb_map'. rewrite Forall_forall in IH. rewrite forallb_forall in *.
    intros x Hx. apply IH; auto.
  - rewrite forallb_flat_map, forallb_map'. rewrite Forall_forall in IH. rewrite forallb_forall in *.
    intros x Hx. apply IH; auto.
  - rewrite forallb_flat_map, forallb_map'. rewrite Forall_forall in IH. rewrite forallb_forall in *.
    intros kv Hx. cbn [fst snd forallb]. specialize (Hs kv Hx). apply andb_true_iff in Hs. destruct Hs as [A B].
    rewrite gsafe_tr_atom; auto. cbn [andb]. apply IH; auto.
  - rewrite forallb_map'. rewrite forallb_forall in *. intros a Ha. apply gsafe_tr_atom; auto.
  - rewrite forallb_map'. rewrite forallb_forall in *. intros a Ha. apply gsafe_tr_atom; auto.
  - discriminate Hk.
Qed.
End Safe.

Section XAlike.
Variable H : pystr -> pystr.
Hypothesis H_tok : forall s, s <> [] -> sepfree (H s).
Hypothesis H_inj : forall s t, H s = H t -> s = t.

Lemma H_nonempty_of_tok : forall s, s <> [] -> H s <> [].
Proof. intros s Hs. destruct (H_tok s Hs) as [Hne _]. exact Hne. Qed.

(* extended universe, objects aside: equal hashes <-> the translations are alike *)
Theorem xhash_alike : forall xo a b,
  apply_hash xo = true -> plain (xbase xo) = true ->
  obj_free a = true -> obj_free b = true -> xsafe a = true -> xsafe b = true ->
  (xdeephash H no_skip xo a = xdeephash H no_skip xo b <-> heqb (xbase xo) (tr xo a) (tr xo b) = true).
Proof.
  intros xo a b Hah Hp Oa Ob Sa Sb.
  rewrite !(xdeephash_tr H H_nonempty_of_tok xo Hah Hp); auto.
  rewrite <- (hash_alike_g H H_tok H_inj (xbase xo) Hp (tr xo a) (tr xo b)); auto using gsafe_tr.
  split; [intro E; inversion E; auto|intros ->; reflexivity].
Qed.
End XAlike.

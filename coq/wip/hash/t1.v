From Coq Require Import List ZArith NArith Bool String.
Import ListNotations.
From DD Require Import Base.PyStr Base.Value Hash.HashModel.
Require Import HashAlike.
Local Open Scope Z_scope.
Definition i z := VAtom (AInt z).
Eval vm_compute in heqb ordered_mode (VList [i 1; i 2; i 1]) (VList [i 1; i 1; i 2]).
Eval vm_compute in heqb ordered_mode (VList [i 1; i 2; i 1]) (VList [i 2; i 1; i 1]).
Eval vm_compute in heqb multiset_mode (VList [i 1; i 2; i 1]) (VList [i 2; i 1; i 1]).
Eval vm_compute in heqb multiset_mode (VList [i 1; i 2; i 1]) (VList [i 2; i 1]).
Eval vm_compute in heqb set_mode (VList [i 1; i 2; i 1]) (VList [i 2; i 1]).
Eval vm_compute in heqb set_mode (VList [i 1; i 2; i 1]) (VList [i 2; i 1; i 3]).
Eval vm_compute in heqb ordered_mode (VSet [AInt 0; AInt 8]) (VSet [AInt 8; AInt 0]).
Eval vm_compute in heqb set_mode (VSet [AInt 0; AInt 8]) (VSet [AInt 8; AInt 0]).
Eval vm_compute in heqb set_mode (VDict [(AInt 0, i 1); (AStr (s2p "__x"), i 2); (AInt 3, VList [i 1; i 1])]) (VDict [(AInt 3, VList [i 1]); (AInt 0, i 1)]).
Eval vm_compute in heqb ordered_mode (VDict [(AInt 0, i 1); (AStr (s2p "__x"), i 2); (AInt 3, VList [i 1; i 1])]) (VDict [(AInt 3, VList [i 1]); (AInt 0, i 1)]).
Eval vm_compute in norep ordered_mode (VList [i 1; i 2; i 1]).
Eval vm_compute in norep ordered_mode (VList [i 1; i 2; VList [i 1]]).

(** str(timedelta) is injective: the text of a timedelta leaf determines its total microseconds (so the normal form
    [NOther text] of HashXLeaves.leaf_norm is, for timedeltas, the duration itself). *)
From Coq Require Import List ZArith NArith Bool Lia Arith String.
Import ListNotations.
From DD Require Import Base.PyStr Base.Value Hash.HashModel Hash.HashProofsBase Hash.HashXModel Hash.HashXLeaves.
Local Open Scope Z_scope.

Ltac nd := unfold is_digit; lia.

(* "H:MM:SS[.ffffff]" for 0 <= r < one day *)
Definition delta_clock (r : Z) : pystr :=
  let micro := r mod 1000000 in
  let s := r / 1000000 in
  dec_Z (s / 3600) ++ [58%N] ++ pad2 ((s / 60) mod 60) ++ [58%N] ++ pad2 (s mod 60) ++
  (if Z.eqb micro 0 then [] else [46%N] ++ pad6 micro).
Definition delta_prefix (days : Z) : pystr :=
  if Z.eqb days 0 then []
  else dec_Z days ++ s2p " day" ++ (if Z.eqb (Z.abs days) 1 then [] else s2p "s") ++ s2p ", ".

Lemma timedelta_text_eq : forall us,
  timedelta_text us = delta_prefix (us / 86400000000) ++ delta_clock (us mod 86400000000).
Proof. intro us. unfold timedelta_text, delta_prefix, delta_clock. cbv zeta. rewrite <- ?app_assoc. reflexivity. Qed.

Lemma dec_Z_free : forall c n, 0 <= n -> ~ is_digit c -> free c (dec_Z n).
Proof. intros c n Hn Hc. apply digits_free; auto. apply dec_Z_digits; auto. Qed.

Lemma delta_clock_free32 : forall r, 0 <= r < 86400000000 -> free 32%N (delta_clock r).
Proof.
  intros r Hr. unfold delta_clock. cbv zeta.
  assert (A1 : 0 <= r / 1000000 / 3600) by (Z.div_mod_to_equations; lia).
  assert (A2 : 0 <= (r / 1000000 / 60) mod 60) by (Z.div_mod_to_equations; lia).
  assert (A3 : 0 <= (r / 1000000) mod 60) by (Z.div_mod_to_equations; lia).
  assert (A4 : 0 <= r mod 1000000) by (Z.div_mod_to_equations; lia).
  unfold pad2, pad6. rewrite !free_app. repeat split;
    try (apply dec_Z_free; auto; nd); try (apply pad_free; auto; nd); try (intros [E|[]]; discriminate).
  destruct (Z.eqb (r mod 1000000) 0); [intros []|]. rewrite free_app. split; [intros [E|[]]; discriminate|apply pad_free; auto; nd].
Qed.

Lemma delta_clock_inj : forall r r', 0 <= r < 86400000000 -> 0 <= r' < 86400000000 ->
  delta_clock r = delta_clock r' -> r = r'.
Proof.
  intros r r' Hr Hr' He. unfold delta_clock in He.
  set (s := r / 1000000) in *. set (s' := r' / 1000000) in *.
  set (mi := r mod 1000000) in *. set (mi' := r' mod 1000000) in *.
  assert (Hs : 0 <= s < 86400) by (unfold s; Z.div_mod_to_equations; lia).
  assert (Hs' : 0 <= s' < 86400) by (unfold s'; Z.div_mod_to_equations; lia).
  assert (Hm : 0 <= mi < 1000000) by (unfold mi; Z.div_mod_to_equations; lia).
  assert (Hm' : 0 <= mi' < 1000000) by (unfold mi'; Z.div_mod_to_equations; lia).
  assert (A1 : 0 <= s / 3600) by (Z.div_mod_to_equations; lia).
  assert (A2 : 0 <= (s / 60) mod 60) by (Z.div_mod_to_equations; lia).
  assert (A3 : 0 <= s mod 60) by (Z.div_mod_to_equations; lia).
  assert (B1 : 0 <= s' / 3600) by (Z.div_mod_to_equations; lia).
  assert (B2 : 0 <= (s' / 60) mod 60) by (Z.div_mod_to_equations; lia).
  assert (B3 : 0 <= s' mod 60) by (Z.div_mod_to_equations; lia).
  unfold pad2, pad6 in He. cbn [app] in He.
  apply (split_sep 58%N) in He; try (apply dec_Z_free; auto; nd). destruct He as [E1 He].
  apply (split_sep 58%N) in He; try (apply pad_free; auto; nd). destruct He as [E2 He].
  apply dec_Z_inj in E1. apply pad_inj in E2; auto.
  assert (E3 : s mod 60 = s' mod 60 /\ mi = mi').
  { destruct (Z.eqb_spec mi 0) as [Z1|N1]; destruct (Z.eqb_spec mi' 0) as [Z2|N2]; rewrite ?app_nil_r in He.
    - split; [eapply pad_inj; eauto|congruence].
    - exfalso. cbn [app] in He. eapply (free_end 46%N); [| |exact He]; apply pad_free; auto; nd.
    - exfalso. cbn [app] in He. symmetry in He. eapply (free_end 46%N); [| |exact He]; apply pad_free; auto; nd.
    - cbn [app] in He. apply (split_sep 46%N) in He; try (apply pad_free; auto; nd). destruct He as [E3 E4].
      split; eapply pad_inj; eauto; lia. }
  destruct E3 as [E3 E4].
  assert (s = s') by (Z.div_mod_to_equations; lia).
  unfold s, s', mi, mi' in *. Z.div_mod_to_equations. lia.
Qed.

Lemma dec_Z_free32 : forall n, free 32%N (dec_Z n).
Proof.
  intro n. unfold dec_Z. destruct (Z.to_int n) as [u|u].
  - apply digits_free; [apply uint_str_digits|nd].
  - intros [E|Hi]; [discriminate|]. revert Hi. apply digits_free; [apply uint_str_digits|nd].
Qed.

Theorem timedelta_text_inj : forall us us', timedelta_text us = timedelta_text us' -> us = us'.
Proof.
  intros us us' He. rewrite !timedelta_text_eq in He.
  set (d := us / 86400000000) in *. set (d' := us' / 86400000000) in *.
  set (r := us mod 86400000000) in *. set (r' := us' mod 86400000000) in *.
  assert (Hr : 0 <= r < 86400000000) by (unfold r; Z.div_mod_to_equations; lia).
  assert (Hr' : 0 <= r' < 86400000000) by (unfold r'; Z.div_mod_to_equations; lia).
  assert (Hd : d = d' /\ r = r').
  { unfold delta_prefix in He.
    destruct (Z.eqb_spec d 0) as [Z1|N1]; destruct (Z.eqb_spec d' 0) as [Z2|N2]; cbn [app] in He.
    - split; [congruence|]. apply delta_clock_inj; auto.
    - exfalso. apply (delta_clock_free32 r Hr). rewrite He. rewrite <- !app_assoc.
      apply in_or_app. right. left. reflexivity.
    - exfalso. apply (delta_clock_free32 r' Hr'). rewrite <- He. rewrite <- !app_assoc.
      apply in_or_app. right. left. reflexivity.
    - rewrite <- !app_assoc in He. change (s2p " day") with (32%N :: s2p "day") in He. cbn [app] in He.
      apply (split_sep 32%N) in He; try apply dec_Z_free32. destruct He as [E1 He].
      apply dec_Z_inj in E1. split; auto. rewrite <- E1 in He.
      apply app_inv_head in He. apply app_inv_head in He. apply app_inv_head in He.
      apply delta_clock_inj; auto. }
  destruct Hd as [E1 E2]. unfold d, d', r, r' in *. Z.div_mod_to_equations. lia.
Qed.

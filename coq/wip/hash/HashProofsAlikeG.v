(** [hash_alike] with the K1 guard relaxed: a str may also be "foreign-tagged" - begin with the type tag of a leaf of
    the extended universe ("datetime:", "timedelta:", "Decimal:", "PosixPath:") - since such a str cannot spell the
    serialisation of a base scalar or container either.  This is what lets the extended universe be reduced to the
    base one (HashXProofsInj.v): a leaf with result text r hashes exactly like the str r (K1 used as a tool). *)
From Coq Require Import List ZArith NArith Bool Lia Permutation Arith String.
Import ListNotations.
From DD Require Import Base.PyStr Base.Value Base.ValueFacts Hash.HashModel Hash.Equiv Hash.HashProofsBase
  Hash.HashProofsC06 Hash.HashProofsC07 Hash.HashAlike Hash.HashProofsAlike.

Definition foreign_tags : list pystr :=
  [s2p "datetime:"; s2p "timedelta:"; s2p "Decimal:"; s2p "PosixPath:"].
Definition foreign_str (s : pystr) : bool := existsb (fun t => is_prefix t s) foreign_tags.
Definition gsafe_atom (a : atom) : bool :=
  match a with AStr s => tag_safe_atom a || foreign_str s | _ => true end.
Definition gsafe (v : value) : bool := forallb gsafe_atom (atoms_of v).

Lemma tag_safe_gsafe : forall v, tag_safe v = true -> gsafe v = true.
Proof.
  unfold tag_safe, gsafe. intros v Ht. rewrite forallb_forall in *. intros a Ha. specialize (Ht a Ha).
  destruct a; auto. unfold gsafe_atom. rewrite Ht. reflexivity.
Qed.

Lemma gsafe_list : forall xs, gsafe (VList xs) = true -> forall x, In x xs -> gsafe x = true.
Proof.
  unfold gsafe. cbn [atoms_of]. intros xs Ht x Hi.
  rewrite forallb_forall in *. intros a Ha. apply Ht. apply in_flat_map. eauto.
Qed.
Lemma gsafe_tuple : forall xs, gsafe (VTuple xs) = true -> forall x, In x xs -> gsafe x = true.
Proof. exact gsafe_list. Qed.
Lemma gsafe_dict : forall kvs, gsafe (VDict kvs) = true ->
  forall kv, In kv kvs -> gsafe_atom (fst kv) = true /\ gsafe (snd kv) = true.
Proof.
  unfold gsafe. cbn [atoms_of]. intros kvs Ht kv Hi.
  rewrite forallb_forall in Ht. split.
  - apply Ht. apply in_flat_map. exists kv. split; auto. left; auto.
  - rewrite forallb_forall. intros a Ha. apply Ht. apply in_flat_map. exists kv. split; auto. right; auto.
Qed.
Lemma gsafe_set : forall xs, gsafe (VSet xs) = true -> Forall (fun a => gsafe_atom a = true) xs.
Proof. unfold gsafe. cbn [atoms_of]. intros xs Ht. rewrite forallb_forall in Ht. apply Forall_forall; auto. Qed.
Lemma gsafe_frozen : forall xs, gsafe (VFrozen xs) = true -> Forall (fun a => gsafe_atom a = true) xs.
Proof. exact gsafe_set. Qed.

Lemma ser_atom_inj_g : forall o a b, plain o = true ->
  gsafe_atom a = true -> gsafe_atom b = true ->
  ser_atom o a = ser_atom o b -> a = b.
Proof.
  intros o a b Hp Ta Tb He. destruct (plain_inv o Hp) as (ir & io & ip & ->).
  destruct a as [| x | z | t | s | s]; destruct b as [| y | z' | t' | s' | s'];
    try (destruct x); try (destruct y); cbn in He; try discriminate He; auto;
    try (inversion He; subst; clear He;
         first [ reflexivity | exfalso; cbn in Ta; discriminate Ta | exfalso; cbn in Tb; discriminate Tb | idtac ]).
  - f_equal. apply dec_Z_inj. auto.
  - f_equal. apply half_repr_inj. auto.
Qed.

Section AlikeG.
Variable H : pystr -> pystr.
Hypothesis H_tok : forall s, s <> [] -> sepfree (H s).
Hypothesis H_inj : forall s t, H s = H t -> s = t.

Lemma hash_atom_inj_g : forall o a b, plain o = true ->
  gsafe_atom a = true -> gsafe_atom b = true ->
  hash_atom H o a = hash_atom H o b -> a = b.
Proof. intros o a b Hp Ta Tb He. apply H_inj in He. eapply ser_atom_inj_g; eauto. Qed.

Ltac str_contra He T :=
  exfalso; inversion He; subst; unfold gsafe in T; cbn in T; discriminate T.
Ltac off_diag He Ta Tb :=
  exfalso; cbn in He; first [ discriminate He | str_contra He Ta | str_contra He Tb ].

Lemma bool_iff_eq_g : forall (P : Prop) (b c : bool), (P <-> b = true) -> (P <-> c = true) -> b = c.
Proof.
  intros P b c [A B] [C D]. destruct b, c; try reflexivity.
  - assert (HP : P) by (apply B; reflexivity). specialize (C HP). discriminate C.
  - assert (HP : P) by (apply D; reflexivity). specialize (A HP). discriminate A.
Qed.

Lemma Forall_tok_pure_g : forall o xs, plain o = true -> Forall sepfree (map (hash_pure H o) xs).
Proof.
  intros o xs Hp. apply Forall_forall. intros t Hi. apply in_map_iff in Hi. destruct Hi as [a [<- _]].
  apply (hash_pure_tok H H_tok); auto.
Qed.

Lemma Forall_tok_atom_g : forall o xs, plain o = true -> Forall sepfree (map (hash_atom H o) xs).
Proof.
  intros o xs Hp. apply Forall_forall. intros t Hi. apply in_map_iff in Hi. destruct Hi as [a [<- _]].
  apply (hash_atom_tok H H_tok); auto.
Qed.

Lemma atom_alike_g : forall o a b, plain o = true -> gsafe_atom a = true -> gsafe_atom b = true ->
  atom_eqb a b = pystr_eqb (hash_atom H o a) (hash_atom H o b).
Proof.
  intros o a b Hp Ta Tb. destruct (pystr_eqb_spec (hash_atom H o a) (hash_atom H o b)) as [E|N].
  - apply hash_atom_inj_g in E; auto. subst. apply atom_eqb_refl.
  - destruct (atom_eqb a b) eqn:E; auto. apply atom_eqb_eq in E. subst. congruence.
Qed.

(* sequences of items: equal hashes of the containers <-> the class sequences agree *)
Lemma seq_case_g : forall o name xs ys, plain o = true ->
  (forall x z, In x xs -> In z (xs ++ ys) -> heqb o x z = pystr_eqb (hash_pure H o x) (hash_pure H o z)) ->
  (H (retag o (seq_result name (arrange o (map (hash_pure H o) xs)))) =
   H (retag o (seq_result name (arrange o (map (hash_pure H o) ys))))
   <-> seq_alike o (heqb o) xs ys = true).
Proof.
  intros o name xs ys Hp He.
  rewrite (seq_alike_pos value o (heqb o) (hash_pure H o) xs ys He).
  rewrite <- arrange_pos; auto using Forall_tok_pure_g. split.
  - intro E. apply H_inj in E. destruct (plain_inv o Hp) as (ir & io & ip & Ho).
    apply (seq_join_inv H H_tok); auto.
    rewrite Ho in E. unfold retag, prep_string, seq_result in E. cbn [ignore_string_type_changes ignore_string_case] in E.
    rewrite <- Ho in E. do 4 apply app_inv_head in E. exact E.
  - intros ->. reflexivity.
Qed.

Lemma set_case_g : forall o name xs ys, plain o = true ->
  Forall (fun a => gsafe_atom a = true) xs -> Forall (fun a => gsafe_atom a = true) ys ->
  (H (retag o (seq_result name (arrange o (map (hash_atom H o) xs)))) =
   H (retag o (seq_result name (arrange o (map (hash_atom H o) ys))))
   <-> seq_alike o atom_eqb xs ys = true).
Proof.
  intros o name xs ys Hp Tx Ty.
  rewrite (seq_alike_pos atom o atom_eqb (hash_atom H o) xs ys).
  2:{ intros x z Hx Hz. rewrite Forall_forall in Tx, Ty. apply atom_alike_g; auto.
      apply in_app_or in Hz. destruct Hz; auto. }
  rewrite <- arrange_pos; auto using Forall_tok_atom_g. split.
  - intro E. apply H_inj in E. destruct (plain_inv o Hp) as (ir & io & ip & Ho).
    apply (set_join_inv H H_tok); auto.
    rewrite Ho in E. unfold retag, prep_string, seq_result in E. cbn [ignore_string_type_changes ignore_string_case] in E.
    rewrite <- Ho in E. do 4 apply app_inv_head in E. exact E.
  - intros ->. reflexivity.
Qed.

Lemma dict_case_g : forall o l1 l2, plain o = true ->
  (forall p q, In p l1 -> In q (l1 ++ l2) -> item_alike o p q = pystr_eqb (item_of H o p) (item_of H o q)) ->
  (H (retag o (dict_result (map (item_of H o) l1))) = H (retag o (dict_result (map (item_of H o) l2)))
   <-> mset_alike (item_alike o) l1 l2 = true).
Proof.
  intros o l1 l2 Hp He.
  rewrite (mset_alike_pos _ (item_alike o) (item_of H o) l1 l2 He).
  rewrite <- mset_pos. split.
  - intro E. apply H_inj in E. destruct (plain_inv o Hp) as (ir & io & ip & Ho).
    apply (dict_join_inv H H_tok); auto.
    rewrite Ho in E. unfold retag, prep_string, dict_result in E. cbn [ignore_string_type_changes ignore_string_case] in E.
    rewrite <- Ho in E. apply app_inv_head in E. apply app_inv_head in E. apply app_inv_head in E. exact E.
  - intro Hperm. unfold dict_result. rewrite (isort_perm_eq _ _ Hperm). reflexivity.
Qed.

Theorem hash_alike_g : forall o, plain o = true -> forall a b,
  gsafe a = true -> gsafe b = true ->
  (hash_pure H o a = hash_pure H o b <-> heqb o a b = true).
Proof.
  intros o Hp a.
  induction a as [a|xs IH|xs IH|kvs IH|xs|xs] using value_ind'; intros b Ta Tb.
  - (* atom *)
    destruct b as [b|ys|ys|kvs'|ys|ys].
    + cbn [heqb hash_pure].
      assert (Ta' : gsafe_atom a = true) by (unfold gsafe in Ta; cbn in Ta; apply andb_true_iff in Ta; tauto).
      assert (Tb' : gsafe_atom b = true) by (unfold gsafe in Tb; cbn in Tb; apply andb_true_iff in Tb; tauto).
      rewrite (atom_alike_g o a b Hp Ta' Tb'). rewrite pystr_eqb_eq. tauto.
    + split; [intro He|discriminate]. rewrite !hash_pure_ser in He; apply H_inj in He;
        destruct (plain_inv o Hp) as (ir & io & ip & Ho); rewrite Ho in He.
      destruct a as [| x | z | t | s | s]; try destruct x; off_diag He Ta Tb.
    + split; [intro He|discriminate]. rewrite !hash_pure_ser in He; apply H_inj in He;
        destruct (plain_inv o Hp) as (ir & io & ip & Ho); rewrite Ho in He.
      destruct a as [| x | z | t | s | s]; try destruct x; off_diag He Ta Tb.
    + split; [intro He|discriminate]. rewrite !hash_pure_ser in He; apply H_inj in He;
        destruct (plain_inv o Hp) as (ir & io & ip & Ho); rewrite Ho in He.
      destruct a as [| x | z | t | s | s]; try destruct x; off_diag He Ta Tb.
    + split; [intro He|discriminate]. rewrite !hash_pure_ser in He; apply H_inj in He;
        destruct (plain_inv o Hp) as (ir & io & ip & Ho); rewrite Ho in He.
      destruct a as [| x | z | t | s | s]; try destruct x; off_diag He Ta Tb.
    + split; [intro He|discriminate]. rewrite !hash_pure_ser in He; apply H_inj in He;
        destruct (plain_inv o Hp) as (ir & io & ip & Ho); rewrite Ho in He.
      destruct a as [| x | z | t | s | s]; try destruct x; off_diag He Ta Tb.
  - (* list *)
    destruct b as [b|ys|ys|kvs'|ys|ys];
      try (split; [intro He|discriminate]; rewrite !hash_pure_ser in He; apply H_inj in He;
           destruct (plain_inv o Hp) as (ir & io & ip & Ho); rewrite Ho in He;
           try (destruct b as [| x | z | t | s | s]; try destruct x); off_diag He Ta Tb).
    rewrite heqb_list. cbn [hash_pure]. apply seq_case_g; auto.
    intros x z Hx Hz. rewrite Forall_forall in IH.
    apply (bool_iff_eq_g (hash_pure H o x = hash_pure H o z)); [|rewrite pystr_eqb_eq; tauto].
    apply IH; auto; [apply (gsafe_list xs Ta x Hx)|].
    apply in_app_or in Hz. destruct Hz as [Hz|Hz]; [apply (gsafe_list xs Ta z Hz)|apply (gsafe_list ys Tb z Hz)].
  - (* tuple *)
    destruct b as [b|ys|ys|kvs'|ys|ys];
      try (split; [intro He|discriminate]; rewrite !hash_pure_ser in He; apply H_inj in He;
           destruct (plain_inv o Hp) as (ir & io & ip & Ho); rewrite Ho in He;
           try (destruct b as [| x | z | t | s | s]; try destruct x); off_diag He Ta Tb).
    rewrite heqb_tuple. cbn [hash_pure]. apply seq_case_g; auto.
    intros x z Hx Hz. rewrite Forall_forall in IH.
    apply (bool_iff_eq_g (hash_pure H o x = hash_pure H o z)); [|rewrite pystr_eqb_eq; tauto].
    apply IH; auto; [apply (gsafe_tuple xs Ta x Hx)|].
    apply in_app_or in Hz. destruct Hz as [Hz|Hz]; [apply (gsafe_tuple xs Ta z Hz)|apply (gsafe_tuple ys Tb z Hz)].
  - (* dict *)
    destruct b as [b|ys|ys|kvs'|ys|ys];
      try (split; [intro He|discriminate]; rewrite !hash_pure_ser in He; apply H_inj in He;
           destruct (plain_inv o Hp) as (ir & io & ip & Ho); rewrite Ho in He;
           try (destruct b as [| x | z | t | s | s]; try destruct x); off_diag He Ta Tb).
    rewrite heqb_dict, !hash_pure_dict.
    change (fun kv : atom * value => dict_item (hash_atom H o (fst kv)) (hash_pure H o (snd kv))) with (item_of H o).
    apply dict_case_g; auto.
    intros p q Hpi Hqi.
    assert (Hp1 : In p kvs) by (unfold vis in Hpi; apply filter_In in Hpi; tauto).
    destruct (gsafe_dict _ Ta p Hp1) as [Tk Tv].
    assert (Tq : gsafe_atom (fst q) = true /\ gsafe (snd q) = true).
    { apply in_app_or in Hqi. destruct Hqi as [Hq|Hq]; unfold vis in Hq; apply filter_In in Hq; destruct Hq as [Hq _];
        [apply (gsafe_dict _ Ta q Hq)|apply (gsafe_dict _ Tb q Hq)]. }
    destruct Tq as [Tk' Tv'].
    rewrite Forall_forall in IH.
    unfold item_alike.
    apply (bool_iff_eq_g (item_of H o p = item_of H o q)); [|rewrite pystr_eqb_eq; tauto].
    rewrite andb_true_iff, <- (IH p Hp1 (snd q) Tv Tv'), (atom_alike_g o (fst p) (fst q) Hp Tk Tk'), pystr_eqb_eq.
    split.
    + apply (item_inj H H_tok); auto.
    + intros [E1 E2]. unfold item_of. rewrite E1, E2. reflexivity.
  - (* set *)
    destruct b as [b|ys|ys|kvs'|ys|ys];
      try (split; [intro He|discriminate]; rewrite !hash_pure_ser in He; apply H_inj in He;
           destruct (plain_inv o Hp) as (ir & io & ip & Ho); rewrite Ho in He;
           try (destruct b as [| x | z | t | s | s]; try destruct x); off_diag He Ta Tb).
    cbn [heqb hash_pure]. apply set_case_g; auto using gsafe_set.
  - (* frozenset *)
    destruct b as [b|ys|ys|kvs'|ys|ys];
      try (split; [intro He|discriminate]; rewrite !hash_pure_ser in He; apply H_inj in He;
           destruct (plain_inv o Hp) as (ir & io & ip & Ho); rewrite Ho in He;
           try (destruct b as [| x | z | t | s | s]; try destruct x); off_diag He Ta Tb).
    cbn [heqb hash_pure]. apply set_case_g; auto using gsafe_frozen.
Qed.

End AlikeG.

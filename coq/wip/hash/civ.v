From Coq Require Import ZArith Lia List.
From DD Require Import Hash.HashXModel.
Local Open Scope Z_scope.
Definition days_from_civil (y m d : Z) : Z :=
  let y := if Z.leb m 2 then y - 1 else y in
  let era := y / 400 in
  let yoe := y - era * 400 in
  let mp := if Z.ltb 2 m then m - 3 else m + 9 in
  let doy := (153 * mp + 2) / 5 + d - 1 in
  let doe := yoe * 365 + yoe / 4 - yoe / 100 + doy in
  era * 146097 + doe - 719468.
Lemma civil_roundtrip : forall z, let '(y, m, d) := civil_from_days z in days_from_civil y m d = z.
Proof.
  intro z. unfold civil_from_days, days_from_civil.
  set (z1 := z + 719468). 
  set (era := z1 / 146097). set (doe := z1 - era * 146097).
  assert (Hdoe : 0 <= doe < 146097) by (unfold doe, era; Z.div_mod_to_equations; lia).
  set (yoe := (doe - doe / 1460 + doe / 36524 - doe / 146096) / 365).
  assert (Hyoe : 0 <= yoe <= 399) by (unfold yoe; Z.div_mod_to_equations; lia).
  set (doy := doe - (365 * yoe + yoe / 4 - yoe / 100)).
  assert (Hdoy : 0 <= doy <= 365) by (unfold doy, yoe; Z.div_mod_to_equations; lia).
  set (mp := (5 * doy + 2) / 153).
  assert (Hmp : 0 <= mp <= 11) by (unfold mp; Z.div_mod_to_equations; lia).
  fold z1. fold era. fold doe. fold yoe. fold doy. fold mp.
  assert (Hz : z = era * 146097 + doe - 719468) by (unfold doe, z1 in *; lia).
  destruct (Z.ltb_spec mp 10) as [Hlt|Hge].
  - (* m = mp + 3 >= 3 *)
    destruct (Z.leb_spec (mp + 3) 2) as [Hc|Hc]; [lia|].
    destruct (Z.leb_spec (mp + 3) 2) as [Hc'|Hc']; [lia|].
    destruct (Z.ltb_spec 2 (mp + 3)) as [Hd|Hd]; [|lia].
    replace ((yoe + era * 400) / 400) with era by (Z.div_mod_to_equations; lia).
    replace (mp + 3 - 3) with mp by lia.
    replace (yoe + era * 400 - era * 400) with yoe by lia.
    unfold doy in *. lia.
  - destruct (Z.leb_spec (mp - 9) 2) as [Hc|Hc]; [|lia].
    destruct (Z.leb_spec (mp - 9) 2) as [Hc'|Hc']; [|lia].
    destruct (Z.ltb_spec 2 (mp - 9)) as [Hd|Hd]; [lia|].
    replace (yoe + era * 400 + 1 - 1) with (yoe + era * 400) by lia.
    replace ((yoe + era * 400) / 400) with era by (Z.div_mod_to_equations; lia).
    replace (mp - 9 + 9) with mp by lia.
    replace (yoe + era * 400 - era * 400) with yoe by lia.
    unfold doy in *. lia.
Qed.

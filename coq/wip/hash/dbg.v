(** C06 on the extended universe: equal content ([xeqvi]) hashes equally under EVERY setting of the options of the
    extended model - apply_hash, number_format_notation, truncate_datetime, ignore_type_in_groups, every base option
    record, every hasher - and every exclusion predicate [skip] that (a) does not tell related values apart and
    (b) when ignore_iterable_order is set does not look at list / set indices ([psim]; permuting the items of a list
    changes the paths of the items: exclude_paths=["root[0]"] on [1, 2] / [2, 1] is the counterexample). *)
From Coq Require Import List ZArith NArith Bool Lia Permutation Arith String.
Import ListNotations.
From DD Require Import Base.PyStr Base.Value Base.ValueFacts Hash.HashModel Hash.Equiv Hash.HashProofsBase
  Hash.HashProofsC06 Hash.HashProofsC07 Hash.HashXModel.
Require Import HashXEquiv.

(* ------------------------------------------------------------------ *)
(** * induction principle *)
Section XInd.
Variable P : xvalue -> Prop.
Hypothesis P_atom : forall a, P (XAtom a).
Hypothesis P_list : forall xs, Forall P xs -> P (XList xs).
Hypothesis P_tuple : forall xs, Forall P xs -> P (XTuple xs).
Hypothesis P_dict : forall kvs, Forall (fun kv => P (snd kv)) kvs -> P (XDict kvs).
Hypothesis P_set : forall xs, P (XSet xs).
Hypothesis P_frozen : forall xs, P (XFrozen xs).
Hypothesis P_obj : forall k cls fs, Forall (fun kv => P (snd kv)) fs -> P (XObj k cls fs).

Fixpoint xvalue_ind' (v : xvalue) : P v :=
  match v with
  | XAtom a => P_atom a
  | XList xs => P_list xs ((fix go (l : list xvalue) : Forall P l :=
                              match l with [] => Forall_nil P | x :: r => Forall_cons x (xvalue_ind' x) (go r) end) xs)
  | XTuple xs => P_tuple xs ((fix go (l : list xvalue) : Forall P l :=
                                match l with [] => Forall_nil P | x :: r => Forall_cons x (xvalue_ind' x) (go r) end) xs)
  | XDict kvs => P_dict kvs ((fix go (l : list (xatom * xvalue)) : Forall (fun kv => P (snd kv)) l :=
                                match l with [] => Forall_nil _ | kv :: r => Forall_cons kv (xvalue_ind' (snd kv)) (go r) end) kvs)
  | XSet xs => P_set xs
  | XFrozen xs => P_frozen xs
  | XObj k cls fs => P_obj k cls fs ((fix go (l : list (pystr * xvalue)) : Forall (fun kv => P (snd kv)) l :=
                                        match l with [] => Forall_nil _ | kv :: r => Forall_cons kv (xvalue_ind' (snd kv)) (go r) end) fs)
  end.
End XInd.

(* ------------------------------------------------------------------ *)
(** * xeqvi is reflexive; path similarity *)

Lemma gseq_rel_of_Forall2 : forall o (A : Type) (R : A -> A -> Prop) xs ys,
  Forall2 R xs ys -> gseq_rel o R xs ys.
Proof.
  intros o A R xs ys HF.
  destruct (ignore_iterable_order o) eqn:Hio; [|apply gseq_ordered; auto].
  destruct (ignore_repetition o) eqn:Hir.
  - apply gseq_as_set; auto.
    + intros x Hi. destruct (Forall2_in_l _ _ _ _ _ _ HF Hi) as [y [Hy Hxy]]. eauto.
    + intros y Hi. destruct (Forall2_in_r _ _ _ _ _ _ HF Hi) as [x [Hx Hxy]]. eauto.
  - eapply gseq_as_multiset; eauto.
Qed.

Lemma xeqvi_refl : forall o v, xeqvi o v v.
Proof.
  intros o v. induction v as [a|xs IH|xs IH|kvs IH|xs|xs|k cls fs IH] using xvalue_ind'.
  - constructor.
  - constructor. apply gseq_rel_of_Forall2, Forall2_refl_in. rewrite Forall_forall in IH. auto.
  - constructor. apply gseq_rel_of_Forall2, Forall2_refl_in. rewrite Forall_forall in IH. auto.
  - constructor. eapply gitems_perm; [apply Permutation_refl|].
    apply Forall2_refl_in. intros kv Hi. split; auto.
    rewrite Forall_forall in IH. apply IH. unfold xvis in Hi. apply filter_In in Hi. tauto.
  - constructor. unfold xmembers_rel. destruct (ignore_iterable_order o); auto.
  - constructor. unfold xmembers_rel. destruct (ignore_iterable_order o); auto.
  - constructor. eapply gitems_perm; [apply Permutation_refl|].
    apply Forall2_refl_in. intros kv Hi. split; auto.
    rewrite Forall_forall in IH. apply IH. unfold fvis in Hi. apply filter_In in Hi. tauto.
Qed.

Lemma psim_refl : forall o p, psim o p p.
Proof.
  intros o p. unfold psim. destruct (ignore_iterable_order o); auto.
  induction p; constructor; auto. left; auto.
Qed.

Lemma psim_snoc : forall o p q k, psim o p q -> psim o (p ++ [k]) (q ++ [k]).
Proof.
  intros o p q k. unfold psim. destruct (ignore_iterable_order o).
  - intro HF. apply Forall2_app; auto. constructor; [left; auto|constructor].
  - intros ->. reflexivity.
Qed.

Lemma psim_snoc_idx : forall o p q i j, ignore_iterable_order o = true -> psim o p q ->
  psim o (p ++ [KIdx i]) (q ++ [KIdx j]).
Proof.
  intros o p q i j Hio. unfold psim. rewrite Hio. intro HF. apply Forall2_app; auto.
  constructor; [right; eauto|constructor].
Qed.

(* ------------------------------------------------------------------ *)
(** * the serialisation tokens of the children, as standalone functions *)

Section Tokens.
Variable H : pystr -> pystr.
Variable skip : xpath -> xvalue -> bool.
Variable xo : xopts.
Local Notation o := (xbase xo).

Definition xstr (p : xpath) (v : xvalue) : option pystr := option_map fst (xhash H skip xo p v).

(* an item of a list / tuple *)
Definition tok (p : xpath) (i : nat) (x : xvalue) : list pystr :=
  if skip (p ++ [KIdx i]) x then []
  else match xstr (p ++ [KIdx i]) x with None => [none_token] | Some h => [h] end.
Fixpoint toks (p : xpath) (i : nat) (xs : list xvalue) : list pystr :=
  match xs with [] => [] | x :: r => tok p i x ++ toks p (S i) r end.

(* a member of a set / frozenset *)
Definition mtok (p : xpath) (i : nat) (a : xatom) : list pystr :=
  if skip (p ++ [KIdx i]) (XAtom a) then []
  else if skip (p ++ [KIdx i]) (hview (XAtom a)) then [none_token] else [xatom_hash H xo a].
Fixpoint mtoks (p : xpath) (i : nat) (xs : list xatom) : list pystr :=
  match xs with [] => [] | a :: r => mtok p i a ++ mtoks p (S i) r end.

(* an item of a dict / an attribute of an object *)
Definition ptok (pk : xpath) (k : xatom) (x : xvalue) : list pystr :=
  match xkey_hash H skip xo pk k with
  | None => []
  | Some kh => if is_empty kh || skip pk x then []
               else match xstr pk x with None => [dict_item kh none_token] | Some vh => [dict_item kh vh] end
  end.
Definition dtok (p : xpath) (kv : xatom * xvalue) : list pystr := ptok (p ++ [KKey (fst kv)]) (fst kv) (snd kv).
Definition ftok (p : xpath) (kv : pystr * xvalue) : list pystr := ptok (p ++ [KAttr (fst kv)]) (XA (AStr (fst kv))) (snd kv).

Lemma xmembers_fst : forall xs p i, fst (xmembers H skip xo p i xs) = mtoks p i xs.
Proof.
  induction xs as [|a xs IH]; intros p i; [reflexivity|]. cbn [xmembers mtoks]. unfold mtok.
  specialize (IH p (S i)). destruct (xmembers H skip xo p (S i) xs) as [hs c]. cbn [fst] in IH. subst hs.
  destruct (skip (p ++ [KIdx i]) (XAtom a)); [reflexivity|].
  destruct (skip (p ++ [KIdx i]) (hview (XAtom a))); reflexivity.
Qed.

Lemma xstr_atom : forall p a, xstr p (XAtom a) = if skip p (hview (XAtom a)) then None else Some (xatom_hash H xo a).
Proof. intros p a. unfold xstr. cbn [xhash]. destruct (skip p (hview (XAtom a))); reflexivity. Qed.

Lemma xstr_list : forall p xs,
  xstr p (XList xs) = if skip p (XList xs) then None
                      else Some (fin H xo false (seq_result (s2p "list") (arrange o (toks p 0 xs)))).
Proof.
  intros p xs. unfold xstr. cbn [xhash hview]. destruct (skip p (XList xs)); [reflexivity|]. cbn [option_map].
  assert (E : forall l i,
    fst ((fix items (i : nat) (xs : list xvalue) {struct xs} : list pystr * nat :=
            match xs with
            | [] => ([], 0%nat)
            | x :: r => let '(hs, c) := items (S i) r in
                        if skip (p ++ [KIdx i]) x then (hs, c)
                        else match xhash H skip xo (p ++ [KIdx i]) x with
                             | Some (h, n) => (h :: hs, (n + c)%nat)
                             | None => (none_token :: hs, c)
                             end
            end) i l) = toks p i l).
  { induction l as [|x l IHl]; intro i; [reflexivity|]. cbn [toks]. specialize (IHl (S i)).
    match goal with |- fst (let '(hs, c) := ?X in _) = _ => destruct X as [hs c] end. cbn [fst] in IHl. subst hs.
    unfold tok, xstr. destruct (skip (p ++ [KIdx i]) x); [reflexivity|].
    destruct (xhash H skip xo (p ++ [KIdx i]) x) as [[h n]|]; reflexivity. }
  specialize (E xs 0%nat).
  match goal with |- Some (fst (let '(hs, c) := ?X in _)) = _ => destruct X as [hs c] end. cbn [fst] in E. subst hs. reflexivity.
Qed.

Lemma xstr_tuple : forall p xs,
  xstr p (XTuple xs) = if skip p (XTuple xs) then None
                       else Some (fin H xo false (seq_result (s2p "tuple") (arrange o (toks p 0 xs)))).
Proof.
  intros p xs. unfold xstr. cbn [xhash hview]. destruct (skip p (XTuple xs)); [reflexivity|]. cbn [option_map].
  assert (E : forall l i,
    fst ((fix items (i : nat) (xs : list xvalue) {struct xs} : list pystr * nat :=
            match xs with
            | [] => ([], 0%nat)
            | x :: r => let '(hs, c) := items (S i) r in
                        if skip (p ++ [KIdx i]) x then (hs, c)
                        else match xhash H skip xo (p ++ [KIdx i]) x with
                             | Some (h, n) => (h :: hs, (n + c)%nat)
                             | None => (none_token :: hs, c)
                             end
            end) i l) = toks p i l).
  { induction l as [|x l IHl]; intro i; [reflexivity|]. cbn [toks]. specialize (IHl (S i)).
    match goal with |- fst (let '(hs, c) := ?X in _) = _ => destruct X as [hs c] end. cbn [fst] in IHl. subst hs.
    unfold tok, xstr. destruct (skip (p ++ [KIdx i]) x); [reflexivity|].
    destruct (xhash H skip xo (p ++ [KIdx i]) x) as [[h n]|]; reflexivity. }
  specialize (E xs 0%nat).
  match goal with |- Some (fst (let '(hs, c) := ?X in _)) = _ => destruct X as [hs c] end. cbn [fst] in E. subst hs. reflexivity.
Qed.

Lemma xstr_set : forall p xs,
  xstr p (XSet xs) = if skip p (XSet xs) then None
                     else Some (fin H xo false (seq_result (s2p "set") (arrange o (mtoks p 0 xs)))).
Proof.
  intros p xs. unfold xstr. cbn [xhash hview]. destruct (skip p (XSet xs)); [reflexivity|]. cbn [option_map].
  pose proof (xmembers_fst xs p 0%nat) as E. destruct (xmembers H skip xo p 0 xs) as [hs c]. cbn [fst] in E. subst hs. reflexivity.
Qed.

Lemma xstr_frozen : forall p xs,
  xstr p (XFrozen xs) = if skip p (XFrozen xs) then None
                        else Some (fin H xo false (seq_result (s2p "frozenset") (arrange o (mtoks p 0 xs)))).
Proof.
  intros p xs. unfold xstr. cbn [xhash hview]. destruct (skip p (XFrozen xs)); [reflexivity|]. cbn [option_map].
  pose proof (xmembers_fst xs p 0%nat) as E. destruct (xmembers H skip xo p 0 xs) as [hs c]. cbn [fst] in E. subst hs. reflexivity.
Qed.

Lemma xstr_dict : forall p kvs,
  xstr p (XDict kvs) = if skip p (XDict kvs) then None
                       else Some (fin H xo false (obj_result (s2p "dict") (flat_map (dtok p) (xvis o kvs)))).
Proof.
  intros p kvs. unfold xstr. cbn [xhash hview]. destruct (skip p (XDict kvs)); [reflexivity|]. cbn [option_map].
  assert (E : forall l,
    fst ((fix go (kvs : list (xatom * xvalue)) : list pystr * nat :=
            match kvs with
            | [] => ([], 0%nat)
            | (k, x) :: r =>
                let '(its, c) := go r in
                if ignore_private (xbase xo) && xis_private k then (its, S c)
                else match xkey_hash H skip xo (p ++ [KKey k]) k with
                     | Some kh =>
                         if is_empty kh || skip (p ++ [KKey k]) x then (its, S c)
                         else match xhash H skip xo (p ++ [KKey k]) x with
                              | Some (vh, n) => (dict_item kh vh :: its, S (n + c))
                              | None => (dict_item kh none_token :: its, S c)
                              end
                     | None => (its, S c)
                     end
            end) l) = flat_map (dtok p) (xvis o l)).
  { induction l as [|[k x] l IHl]; [reflexivity|].
    match goal with |- fst (let '(its, c) := ?X in _) = _ => destruct X as [its c] end. cbn [fst] in IHl. subst its.
    unfold xvis. cbn [filter fst]. unfold xhidden.
    Show.
Abort.

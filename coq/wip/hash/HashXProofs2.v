(** C06 on the extended universe: equal content ([xeqvi]) hashes equally under EVERY setting of the options of the
    extended model - apply_hash, number_format_notation, truncate_datetime, ignore_type_in_groups, every base option
    record, every hasher - and every exclusion predicate [skip] that (a) does not tell related values apart and
    (b) when ignore_iterable_order is set does not look at list / set indices ([psim]; permuting the items of a list
    changes the paths of the items: exclude_paths=["root[0]"] on [1, 2] / [2, 1] is the counterexample). *)
From Coq Require Import List ZArith NArith Bool Lia Permutation Arith String.
Import ListNotations.
From DD Require Import Base.PyStr Base.Value Base.ValueFacts Hash.HashModel Hash.Equiv Hash.HashProofsBase
  Hash.HashProofsC06 Hash.HashProofsC07 Hash.HashXModel.
Require Import HashXEquiv.

(* ------------------------------------------------------------------ *)
(** * induction principle *)
Section XInd.
Variable P : xvalue -> Prop.
Hypothesis P_atom : forall a, P (XAtom a).
Hypothesis P_list : forall xs, Forall P xs -> P (XList xs).
Hypothesis P_tuple : forall xs, Forall P xs -> P (XTuple xs).
Hypothesis P_dict : forall kvs, Forall (fun kv => P (snd kv)) kvs -> P (XDict kvs).
Hypothesis P_set : forall xs, P (XSet xs).
Hypothesis P_frozen : forall xs, P (XFrozen xs).
Hypothesis P_obj : forall k cls fs, Forall (fun kv => P (snd kv)) fs -> P (XObj k cls fs).

Fixpoint xvalue_ind' (v : xvalue) : P v :=
  match v with
  | XAtom a => P_atom a
  | XList xs => P_list xs ((fix go (l : list xvalue) : Forall P l :=
                              match l with [] => Forall_nil P | x :: r => Forall_cons x (xvalue_ind' x) (go r) end) xs)
  | XTuple xs => P_tuple xs ((fix go (l : list xvalue) : Forall P l :=
                                match l with [] => Forall_nil P | x :: r => Forall_cons x (xvalue_ind' x) (go r) end) xs)
  | XDict kvs => P_dict kvs ((fix go (l : list (xatom * xvalue)) : Forall (fun kv => P (snd kv)) l :=
                                match l with [] => Forall_nil _ | kv :: r => Forall_cons kv (xvalue_ind' (snd kv)) (go r) end) kvs)
  | XSet xs => P_set xs
  | XFrozen xs => P_frozen xs
  | XObj k cls fs => P_obj k cls fs ((fix go (l : list (pystr * xvalue)) : Forall (fun kv => P (snd kv)) l :=
                                        match l with [] => Forall_nil _ | kv :: r => Forall_cons kv (xvalue_ind' (snd kv)) (go r) end) fs)
  end.
End XInd.

(* ------------------------------------------------------------------ *)
(** * xeqvi is reflexive; path similarity *)

Lemma gseq_rel_of_Forall2 : forall o (A : Type) (R : A -> A -> Prop) xs ys,
  Forall2 R xs ys -> gseq_rel o R xs ys.
Proof.
  intros o A R xs ys HF.
  destruct (ignore_iterable_order o) eqn:Hio; [|apply gseq_ordered; auto].
  destruct (ignore_repetition o) eqn:Hir.
  - apply gseq_as_set; auto.
    + intros x Hi. destruct (Forall2_in_l _ _ _ _ _ _ HF Hi) as [y [Hy Hxy]]. eauto.
    + intros y Hi. destruct (Forall2_in_r _ _ _ _ _ _ HF Hi) as [x [Hx Hxy]]. eauto.
  - eapply gseq_as_multiset; eauto.
Qed.

Lemma xeqvi_refl : forall o v, xeqvi o v v.
Proof.
  intros o v. induction v as [a|xs IH|xs IH|kvs IH|xs|xs|k cls fs IH] using xvalue_ind'.
  - constructor.
  - constructor. apply gseq_rel_of_Forall2, Forall2_refl_in. rewrite Forall_forall in IH. auto.
  - constructor. apply gseq_rel_of_Forall2, Forall2_refl_in. rewrite Forall_forall in IH. auto.
  - constructor. eapply gitems_perm; [apply Permutation_refl|].
    apply Forall2_refl_in. intros kv Hi. split; auto.
    rewrite Forall_forall in IH. apply IH. unfold xvis in Hi. apply filter_In in Hi. tauto.
  - constructor. unfold xmembers_rel. destruct (ignore_iterable_order o); auto.
  - constructor. unfold xmembers_rel. destruct (ignore_iterable_order o); auto.
  - constructor. eapply gitems_perm; [apply Permutation_refl|].
    apply Forall2_refl_in. intros kv Hi. split; auto.
    rewrite Forall_forall in IH. apply IH. unfold fvis in Hi. apply filter_In in Hi. tauto.
Qed.

Lemma psim_refl : forall o p, psim o p p.
Proof.
  intros o p. unfold psim. destruct (ignore_iterable_order o); auto.
  induction p; constructor; auto. left; auto.
Qed.

Lemma psim_snoc : forall o p q k, psim o p q -> psim o (p ++ [k]) (q ++ [k]).
Proof.
  intros o p q k. unfold psim. destruct (ignore_iterable_order o).
  - intro HF. apply Forall2_app; auto. constructor; [left; auto|constructor].
  - intros ->. reflexivity.
Qed.

Lemma psim_snoc_idx : forall o p q i j, ignore_iterable_order o = true -> psim o p q ->
  psim o (p ++ [KIdx i]) (q ++ [KIdx j]).
Proof.
  intros o p q i j Hio. unfold psim. rewrite Hio. intro HF. apply Forall2_app; auto.
  constructor; [right; eauto|constructor].
Qed.

(* ------------------------------------------------------------------ *)
(** * the serialisation tokens of the children, as standalone functions *)

Section Tokens.
Variable H : pystr -> pystr.
Variable skip : xpath -> xvalue -> bool.
Variable xo : xopts.
Local Notation o := (xbase xo).

Definition xstr (p : xpath) (v : xvalue) : option pystr := option_map fst (xhash H skip xo p v).

(* an item of a list / tuple *)
Definition tok (p : xpath) (i : nat) (x : xvalue) : list pystr :=
  if skip (p ++ [KIdx i]) x then []
  else match xstr (p ++ [KIdx i]) x with None => [none_token] | Some h => [h] end.
Fixpoint toks (p : xpath) (i : nat) (xs : list xvalue) : list pystr :=
  match xs with [] => [] | x :: r => tok p i x ++ toks p (S i) r end.

(* a member of a set / frozenset *)
Definition mtok (p : xpath) (i : nat) (a : xatom) : list pystr :=
  if skip (p ++ [KIdx i]) (XAtom a) then []
  else if skip (p ++ [KIdx i]) (hview (XAtom a)) then [none_token] else [xatom_hash H xo a].
Fixpoint mtoks (p : xpath) (i : nat) (xs : list xatom) : list pystr :=
  match xs with [] => [] | a :: r => mtok p i a ++ mtoks p (S i) r end.

(* an item of a dict / an attribute of an object *)
Definition ptok (pk : xpath) (k : xatom) (x : xvalue) : list pystr :=
  match xkey_hash H skip xo pk k with
  | None => []
  | Some kh => if is_empty kh || skip pk x then []
               else match xstr pk x with None => [dict_item kh none_token] | Some vh => [dict_item kh vh] end
  end.
Definition dtok (p : xpath) (kv : xatom * xvalue) : list pystr := ptok (p ++ [KKey (fst kv)]) (fst kv) (snd kv).
Definition ftok (p : xpath) (kv : pystr * xvalue) : list pystr := ptok (p ++ [KAttr (fst kv)]) (XA (AStr (fst kv))) (snd kv).

Lemma xmembers_fst : forall xs p i, fst (xmembers H skip xo p i xs) = mtoks p i xs.
Proof.
  induction xs as [|a xs IH]; intros p i; [reflexivity|]. cbn [xmembers mtoks]. unfold mtok.
  specialize (IH p (S i)). destruct (xmembers H skip xo p (S i) xs) as [hs c]. cbn [fst] in IH. subst hs.
  destruct (skip (p ++ [KIdx i]) (XAtom a)); [reflexivity|].
  destruct (skip (p ++ [KIdx i]) (hview (XAtom a))); reflexivity.
Qed.

Lemma xstr_atom : forall p a, xstr p (XAtom a) = if skip p (hview (XAtom a)) then None else Some (xatom_hash H xo a).
Proof. intros p a. unfold xstr. cbn [xhash]. destruct (skip p (hview (XAtom a))); reflexivity. Qed.

Lemma xstr_list : forall p xs,
  xstr p (XList xs) = if skip p (XList xs) then None
                      else Some (fin H xo false (seq_result (s2p "list") (arrange o (toks p 0 xs)))).
Proof.
  intros p xs. unfold xstr. cbn [xhash hview]. destruct (skip p (XList xs)); [reflexivity|]. cbn [option_map].
  assert (E : forall l i,
    fst ((fix items (i : nat) (xs : list xvalue) {struct xs} : list pystr * nat :=
            match xs with
            | [] => ([], 0%nat)
            | x :: r => let '(hs, c) := items (S i) r in
                        if skip (p ++ [KIdx i]) x then (hs, c)
                        else match xhash H skip xo (p ++ [KIdx i]) x with
                             | Some (h, n) => (h :: hs, (n + c)%nat)
                             | None => (none_token :: hs, c)
                             end
            end) i l) = toks p i l).
  { induction l as [|x l IHl]; intro i; [reflexivity|]. cbn [toks]. specialize (IHl (S i)).
    match goal with |- fst (let '(hs, c) := ?X in _) = _ => destruct X as [hs c] end. cbn [fst] in IHl. subst hs.
    unfold tok, xstr. destruct (skip (p ++ [KIdx i]) x); [reflexivity|].
    destruct (xhash H skip xo (p ++ [KIdx i]) x) as [[h n]|]; reflexivity. }
  specialize (E xs 0%nat).
  match goal with |- Some (fst (let '(hs, c) := ?X in _)) = _ => destruct X as [hs c] end. cbn [fst] in E. subst hs. reflexivity.
Qed.

Lemma xstr_tuple : forall p xs,
  xstr p (XTuple xs) = if skip p (XTuple xs) then None
                       else Some (fin H xo false (seq_result (s2p "tuple") (arrange o (toks p 0 xs)))).
Proof.
  intros p xs. unfold xstr. cbn [xhash hview]. destruct (skip p (XTuple xs)); [reflexivity|]. cbn [option_map].
  assert (E : forall l i,
    fst ((fix items (i : nat) (xs : list xvalue) {struct xs} : list pystr * nat :=
            match xs with
            | [] => ([], 0%nat)
            | x :: r => let '(hs, c) := items (S i) r in
                        if skip (p ++ [KIdx i]) x then (hs, c)
                        else match xhash H skip xo (p ++ [KIdx i]) x with
                             | Some (h, n) => (h :: hs, (n + c)%nat)
                             | None => (none_token :: hs, c)
                             end
            end) i l) = toks p i l).
  { induction l as [|x l IHl]; intro i; [reflexivity|]. cbn [toks]. specialize (IHl (S i)).
    match goal with |- fst (let '(hs, c) := ?X in _) = _ => destruct X as [hs c] end. cbn [fst] in IHl. subst hs.
    unfold tok, xstr. destruct (skip (p ++ [KIdx i]) x); [reflexivity|].
    destruct (xhash H skip xo (p ++ [KIdx i]) x) as [[h n]|]; reflexivity. }
  specialize (E xs 0%nat).
  match goal with |- Some (fst (let '(hs, c) := ?X in _)) = _ => destruct X as [hs c] end. cbn [fst] in E. subst hs. reflexivity.
Qed.

Lemma xstr_set : forall p xs,
  xstr p (XSet xs) = if skip p (XSet xs) then None
                     else Some (fin H xo false (seq_result (s2p "set") (arrange o (mtoks p 0 xs)))).
Proof.
  intros p xs. unfold xstr. cbn [xhash hview]. destruct (skip p (XSet xs)); [reflexivity|]. cbn [option_map].
  pose proof (xmembers_fst xs p 0%nat) as E. destruct (xmembers H skip xo p 0 xs) as [hs c]. cbn [fst] in E. subst hs. reflexivity.
Qed.

Lemma xstr_frozen : forall p xs,
  xstr p (XFrozen xs) = if skip p (XFrozen xs) then None
                        else Some (fin H xo false (seq_result (s2p "frozenset") (arrange o (mtoks p 0 xs)))).
Proof.
  intros p xs. unfold xstr. cbn [xhash hview]. destruct (skip p (XFrozen xs)); [reflexivity|]. cbn [option_map].
  pose proof (xmembers_fst xs p 0%nat) as E. destruct (xmembers H skip xo p 0 xs) as [hs c]. cbn [fst] in E. subst hs. reflexivity.
Qed.

Lemma xstr_dict : forall p kvs,
  xstr p (XDict kvs) = if skip p (XDict kvs) then None
                       else Some (fin H xo false (obj_result (s2p "dict") (flat_map (dtok p) (xvis o kvs)))).
Proof.
  intros p kvs. unfold xstr. cbn [xhash hview]. destruct (skip p (XDict kvs)); [reflexivity|]. cbn [option_map].
  assert (E : forall l,
    fst ((fix go (kvs : list (xatom * xvalue)) : list pystr * nat :=
            match kvs with
            | [] => ([], 0%nat)
            | (k, x) :: r =>
                let '(its, c) := go r in
                if ignore_private (xbase xo) && xis_private k then (its, S c)
                else match xkey_hash H skip xo (p ++ [KKey k]) k with
                     | Some kh =>
                         if is_empty kh || skip (p ++ [KKey k]) x then (its, S c)
                         else match xhash H skip xo (p ++ [KKey k]) x with
                              | Some (vh, n) => (dict_item kh vh :: its, S (n + c))
                              | None => (dict_item kh none_token :: its, S c)
                              end
                     | None => (its, S c)
                     end
            end) l) = flat_map (dtok p) (xvis o l)).
  { induction l as [|[k x] l IHl]; [reflexivity|].
    match goal with |- fst (let '(its, c) := ?X in _) = _ => destruct X as [its c] end. cbn [fst] in IHl. subst its.
    unfold xvis. cbn [filter fst]. unfold xhidden.
    destruct (ignore_private o && xis_private k); cbn [negb]; [reflexivity|].
    cbn [flat_map]. change (dtok p (k, x)) with (ptok (p ++ [KKey k]) k x). unfold ptok.
    destruct (xkey_hash H skip xo (p ++ [KKey k]) k) as [kh|]; [|reflexivity].
    destruct (is_empty kh || skip (p ++ [KKey k]) x); [reflexivity|].
    unfold xstr. destruct (xhash H skip xo (p ++ [KKey k]) x) as [[vh n]|]; reflexivity. }
  specialize (E kvs).
  match goal with |- Some (fst (let '(its, c) := ?X in _)) = _ => destruct X as [its c] end. cbn [fst] in E. subst its. reflexivity.
Qed.

Lemma xstr_obj : forall p k cls fs,
  xstr p (XObj k cls fs) =
  if skip p (XObj k cls fs) then None
  else Some (fin H xo false (okind_prefix k ++ obj_result (type_str xo cls) (flat_map (ftok p) (fvis o fs)))).
Proof.
  intros p k cls fs. unfold xstr. cbn [xhash hview]. destruct (skip p (XObj k cls fs)); [reflexivity|]. cbn [option_map].
  assert (E : forall l,
    fst ((fix go (fs : list (pystr * xvalue)) : list pystr * nat :=
            match fs with
            | [] => ([], 0%nat)
            | (name, x) :: r =>
                let '(its, c) := go r in
                if ignore_private (xbase xo) && is_prefix (s2p "__") name then (its, S c)
                else match xkey_hash H skip xo (p ++ [KAttr name]) (XA (AStr name)) with
                     | Some kh =>
                         if is_empty kh || skip (p ++ [KAttr name]) x then (its, S c)
                         else match xhash H skip xo (p ++ [KAttr name]) x with
                              | Some (vh, n) => (dict_item kh vh :: its, S (n + c))
                              | None => (dict_item kh none_token :: its, S c)
                              end
                     | None => (its, S c)
                     end
            end) l) = flat_map (ftok p) (fvis o l)).
  { induction l as [|[name x] l IHl]; [reflexivity|].
    match goal with |- fst (let '(its, c) := ?X in _) = _ => destruct X as [its c] end. cbn [fst] in IHl. subst its.
    unfold fvis. cbn [filter fst]. unfold fhidden.
    destruct (ignore_private o && is_prefix (s2p "__") name); cbn [negb]; [reflexivity|].
    cbn [flat_map]. change (ftok p (name, x)) with (ptok (p ++ [KAttr name]) (XA (AStr name)) x). unfold ptok.
    destruct (xkey_hash H skip xo (p ++ [KAttr name]) (XA (AStr name))) as [kh|]; [|reflexivity].
    destruct (is_empty kh || skip (p ++ [KAttr name]) x); [reflexivity|].
    unfold xstr. destruct (xhash H skip xo (p ++ [KAttr name]) x) as [[vh n]|]; reflexivity. }
  specialize (E fs).
  match goal with |- Some (fst (let '(its, c) := ?X in _)) = _ => destruct X as [its c] end. cbn [fst] in E. subst its. reflexivity.
Qed.

End Tokens.

(* ------------------------------------------------------------------ *)
(** * The theorem *)

Lemma In_nth_error_from : forall (A : Type) (l : list A) (x : A), In x l -> exists k, nth_error l k = Some x.
Proof. intros A l x Hi. apply In_nth_error. exact Hi. Qed.

Section XEqviHash.
Variable H : pystr -> pystr.
Variable skip : xpath -> xvalue -> bool.
Variable xo : xopts.
Local Notation o := (xbase xo).
Hypothesis Hskip : forall p q a b, psim o p q -> xeqvi o a b -> skip p a = skip q b.

Local Notation xstr := (xstr H skip xo).
Local Notation tok := (tok H skip xo).
Local Notation toks := (toks H skip xo).
Local Notation mtok := (mtok H skip xo).
Local Notation mtoks := (mtoks H skip xo).
Local Notation ptok := (ptok H skip xo).

Definition P (a : xvalue) : Prop := forall b p q, psim o p q -> xeqvi o a b -> xstr p a = xstr q b.

Lemma skip_view : forall p q a b, psim o p q -> xeqvi o a b -> skip p (hview a) = skip q (hview b).
Proof.
  intros p q a b Hps He. destruct He; cbn [hview]; try (apply Hskip; auto; constructor; auto).
  apply Hskip; auto. apply xeqvi_refl.
Qed.

Lemma tok_eq : forall p q i j x y, P x -> psim o (p ++ [KIdx i]) (q ++ [KIdx j]) -> xeqvi o x y ->
  tok p i x = tok q j y.
Proof.
  intros p q i j x y Px Hps He. unfold HashXProofs2.tok.
  rewrite (Hskip _ _ x y Hps He). destruct (skip (q ++ [KIdx j]) y); auto.
  rewrite (Px y _ _ Hps He). reflexivity.
Qed.

Lemma In_toks : forall t xs p i0,
  In t (toks p i0 xs) <-> exists k x, nth_error xs k = Some x /\ In t (tok p (i0 + k) x).
Proof.
  intros t xs. induction xs as [|x xs IH]; intros p i0; cbn [HashXProofs2.toks].
  - split; [intros []|intros (k & x & Hn & _); destruct k; discriminate].
  - rewrite in_app_iff, IH. split.
    + intros [Hi|(k & y & Hn & Hi)].
      * exists 0%nat, x. rewrite Nat.add_0_r. auto.
      * exists (S k), y. cbn [nth_error]. replace (i0 + S k)%nat with (S i0 + k)%nat by lia. auto.
    + intros (k & y & Hn & Hi). destruct k as [|k]; cbn [nth_error] in Hn.
      * inversion Hn; subst. rewrite Nat.add_0_r in Hi. auto.
      * right. exists k, y. replace (S i0 + k)%nat with (i0 + S k)%nat by lia. auto.
Qed.

Lemma toks_flat : forall (g : xvalue -> list pystr) p xs i0,
  (forall x i, In x xs -> tok p i x = g x) -> toks p i0 xs = flat_map g xs.
Proof.
  intros g p xs. induction xs as [|x xs IH]; intros i0 Hg; [reflexivity|]. cbn [HashXProofs2.toks flat_map].
  rewrite (Hg x i0 (or_introl eq_refl)), IH; auto. intros; apply Hg; right; auto.
Qed.

Lemma toks_rel : forall xs ys p q, Forall P xs -> psim o p q -> gseq_rel o (xeqvi o) xs ys ->
  arrange o (toks p 0 xs) = arrange o (toks q 0 ys).
Proof.
  intros xs ys p q HP Hps Hr. rewrite Forall_forall in HP.
  destruct Hr as [xs ys Hir Hio A B|xs ys ys' Hir Hio Hperm HF|xs ys Hio HF].
  - apply arrange_same_set; auto. intro t. rewrite !In_toks. split.
    + intros (k & x & Hn & Hi). assert (Hx : In x xs) by (eapply nth_error_In; eauto).
      destruct (A x Hx) as (y & Hy & Hxy). destruct (In_nth_error_from _ _ _ Hy) as [k' Hk'].
      exists k', y. split; auto.
      rewrite <- (tok_eq p q (0 + k) (0 + k') x y); auto. apply psim_snoc_idx; auto.
    + intros (k' & y & Hn & Hi). assert (Hy : In y ys) by (eapply nth_error_In; eauto).
      destruct (B y Hy) as (x & Hx & Hxy). destruct (In_nth_error_from _ _ _ Hx) as [k Hk].
      exists k, x. split; auto.
      rewrite (tok_eq p q (0 + k) (0 + k') x y); auto. apply psim_snoc_idx; auto.
  - apply arrange_perm; auto.
    (* every token is independent of the index *)
    assert (Gx : toks p 0 xs = flat_map (tok p 0) xs).
    { apply toks_flat. intros x i Hx. apply tok_eq; auto; [apply psim_snoc_idx; auto; apply psim_refl|apply xeqvi_refl]. }
    assert (Part : forall y, In y ys -> exists x, In x xs /\ xeqvi o x y).
    { intros y Hy. assert (Hy' : In y ys') by (eapply Permutation_in; eauto).
      destruct (Forall2_in_r _ _ _ _ _ _ HF Hy') as (x & Hx & Hxy). eauto. }
    assert (Gy : toks q 0 ys = flat_map (tok q 0) ys).
    { apply toks_flat. intros y i Hy. destruct (Part y Hy) as (x & Hx & Hxy).
      rewrite <- (tok_eq p q 0 i x y), <- (tok_eq p q 0 0 x y); auto; apply psim_snoc_idx; auto. }
    rewrite Gx, Gy.
    eapply perm_trans; [|apply Permutation_flat_map, Permutation_sym, Hperm].
    assert (E : flat_map (tok p 0) xs = flat_map (tok q 0) ys').
    { clear Hperm Part Gx Gy. induction HF as [|x y xs ys' Hxy HF IHF]; [reflexivity|]. cbn [flat_map].
      rewrite (tok_eq p q 0 0 x y); auto.
      - rewrite IHF; auto. intros; apply HP; right; auto.
      - apply HP; left; auto.
      - apply psim_snoc_idx; auto. }
    rewrite E. apply Permutation_refl.
  - assert (Epq : p = q) by (unfold psim in Hps; rewrite Hio in Hps; exact Hps). subst q.
    f_equal. generalize 0%nat as i. induction HF as [|x y xs ys Hxy HF IHF]; intro i; [reflexivity|].
    cbn [HashXProofs2.toks]. rewrite (tok_eq p p i i x y); auto.
    + rewrite IHF; auto. intros; apply HP; right; auto.
    + apply HP; left; auto.
    + apply psim_refl.
Qed.

Lemma mtoks_flat : forall (g : xatom -> list pystr) p xs i0,
  (forall a i, In a xs -> mtok p i a = g a) -> mtoks p i0 xs = flat_map g xs.
Proof.
  intros g p xs. induction xs as [|x xs IH]; intros i0 Hg; [reflexivity|]. cbn [HashXProofs2.mtoks flat_map].
  rewrite (Hg x i0 (or_introl eq_refl)), IH; auto. intros; apply Hg; right; auto.
Qed.

Lemma mtok_eq : forall p q i j a, psim o (p ++ [KIdx i]) (q ++ [KIdx j]) -> mtok p i a = mtok q j a.
Proof.
  intros p q i j a Hps. unfold HashXProofs2.mtok.
  rewrite (Hskip _ _ (XAtom a) (XAtom a) Hps (xeqvi_refl o _)).
  rewrite (skip_view _ _ (XAtom a) (XAtom a) Hps (xeqvi_refl o _)). reflexivity.
Qed.

Lemma mtoks_rel : forall xs ys p q, psim o p q -> xmembers_rel o xs ys ->
  arrange o (mtoks p 0 xs) = arrange o (mtoks q 0 ys).
Proof.
  intros xs ys p q Hps Hm. unfold xmembers_rel in Hm. destruct (ignore_iterable_order o) eqn:Hio.
  - apply arrange_perm; auto.
    rewrite (mtoks_flat (mtok q 0) p xs), (mtoks_flat (mtok q 0) q ys).
    + apply Permutation_flat_map; auto.
    + intros a i _. apply mtok_eq. apply psim_snoc_idx; auto. apply psim_refl.
    + intros a i _. apply mtok_eq. apply psim_snoc_idx; auto.
  - assert (Epq : p = q) by (unfold psim in Hps; rewrite Hio in Hps; exact Hps). subst. reflexivity.
Qed.

Lemma ptok_eq : forall pk qk k x y, P x -> psim o pk qk -> xeqvi o x y -> ptok pk k x = ptok qk k y.
Proof.
  intros pk qk k x y Px Hps He. unfold HashXProofs2.ptok, xkey_hash.
  rewrite (skip_view _ _ (XAtom k) (XAtom k) Hps (xeqvi_refl o _)).
  destruct (skip qk (hview (XAtom k))); auto.
  rewrite (Hskip _ _ x y Hps He). destruct (is_empty (xatom_hash H xo k) || skip qk y); auto.
  rewrite (Px y _ _ Hps He). reflexivity.
Qed.

Lemma items_toks_rel : forall (K : Type) (f : xpath -> K * xvalue -> list pystr) l1 l2 p q,
  (forall kv kv', In kv l1 -> fst kv = fst kv' -> xeqvi o (snd kv) (snd kv') -> f p kv = f q kv') ->
  gitems_rel (xeqvi o) l1 l2 ->
  Permutation (flat_map (f p) l1) (flat_map (f q) l2).
Proof.
  intros K f l1 l2 p q Hf Hr. destruct Hr as [l1 l2 l2' Hperm HF].
  eapply perm_trans; [|apply Permutation_flat_map, Permutation_sym, Hperm].
  assert (E : flat_map (f p) l1 = flat_map (f q) l2').
  { clear Hperm. induction HF as [|kv kv' l1 l2' [Hk Hv] HF IHF]; [reflexivity|]. cbn [flat_map].
    rewrite (Hf kv kv'); auto; [|left; auto]. rewrite IHF; auto. intros; apply Hf; auto. right; auto. }
  rewrite E. apply Permutation_refl.
Qed.

Theorem xeqvi_str : forall a b p q, psim o p q -> xeqvi o a b -> xstr p a = xstr q b.
Proof.
  intros a. change (P a).
  induction a as [a|xs IH|xs IH|kvs IH|xs|xs|k cls fs IH] using xvalue_ind'; intros b p q Hps He.
  - inversion He; subst. rewrite !xstr_atom.
    rewrite (skip_view _ _ _ _ Hps He). reflexivity.
  - pose proof (Hskip _ _ _ _ Hps He) as Hs. inversion He; subst. rewrite !xstr_list, Hs.
    destruct (skip q (XList ys)); auto. do 3 f_equal. apply toks_rel; auto.
  - pose proof (Hskip _ _ _ _ Hps He) as Hs. inversion He; subst. rewrite !xstr_tuple, Hs.
    destruct (skip q (XTuple ys)); auto. do 3 f_equal. apply toks_rel; auto.
  - pose proof (Hskip _ _ _ _ Hps He) as Hs. inversion He; subst. rewrite !xstr_dict, Hs.
    destruct (skip q (XDict kvs')); auto.
    assert (Hperm : Permutation (flat_map (dtok H skip xo p) (xvis o kvs)) (flat_map (dtok H skip xo q) (xvis o kvs'))).
    { apply (items_toks_rel xatom (dtok H skip xo)); auto.
      intros kv kv' Hi Hk Hv. unfold dtok. rewrite <- Hk. apply ptok_eq; auto using psim_snoc.
      rewrite Forall_forall in IH. apply IH. unfold xvis in Hi. apply filter_In in Hi. tauto. }
    unfold obj_result. rewrite (isort_perm_eq _ _ Hperm). reflexivity.
  - pose proof (Hskip _ _ _ _ Hps He) as Hs. inversion He; subst. rewrite !xstr_set, Hs.
    destruct (skip q (XSet ys)); auto. do 3 f_equal. apply mtoks_rel; auto.
  - pose proof (Hskip _ _ _ _ Hps He) as Hs. inversion He; subst. rewrite !xstr_frozen, Hs.
    destruct (skip q (XFrozen ys)); auto. do 3 f_equal. apply mtoks_rel; auto.
  - pose proof (Hskip _ _ _ _ Hps He) as Hs. inversion He; subst. rewrite !xstr_obj, Hs.
    destruct (skip q (XObj k cls fs')); auto.
    assert (Hperm : Permutation (flat_map (ftok H skip xo p) (fvis o fs)) (flat_map (ftok H skip xo q) (fvis o fs'))).
    { apply (items_toks_rel pystr (ftok H skip xo)); auto.
      intros kv kv' Hi Hk Hv. unfold ftok. rewrite <- Hk. apply ptok_eq; auto using psim_snoc.
      rewrite Forall_forall in IH. apply IH. unfold fvis in Hi. apply filter_In in Hi. tauto. }
    unfold obj_result. rewrite (isort_perm_eq _ _ Hperm). reflexivity.
Qed.

(* on the observable DeepHash(v, ...)[v] *)
Corollary xeqvi_hash : forall a b, xeqvi o a b -> xdeephash H skip xo a = xdeephash H skip xo b.
Proof. intros a b He. apply (xeqvi_str a b [] []); auto. apply psim_refl. Qed.

End XEqviHash.

(* ------------------------------------------------------------------ *)
(** * The hypothesis on [skip] for the exclusion options of the code *)

Lemma xeqvi_isinstance : forall o a b t, xeqvi o a b -> isinstance a t = isinstance b t.
Proof. intros o a b t He. destruct He; reflexivity. Qed.

Lemma skip_this_same_path : forall o c p a b, xeqvi o a b -> skip_this c p a = skip_this c p b.
Proof.
  intros o c p a b He. unfold skip_this.
  assert (Ht : existsb (isinstance a) (exclude_types c) = existsb (isinstance b) (exclude_types c)).
  { induction (exclude_types c) as [|t ts IHt]; [reflexivity|]. cbn [existsb].
    rewrite (xeqvi_isinstance o a b t He), IHt. reflexivity. }
  rewrite Ht. destruct He; reflexivity.
Qed.

Lemma skip_this_blind : forall c p q a, exclude_paths c = [] -> include_paths c = [] ->
  skip_this c p a = skip_this c q a.
Proof. intros c p q a E1 E2. unfold skip_this. rewrite E1, E2. reflexivity. Qed.

(* exclude_types and exclude_obj_callback (the modelled callbacks) in every mode; exclude_paths and include_paths
   as well when ignore_iterable_order=False *)
Theorem skip_this_ok : forall o c,
  ignore_iterable_order o = false \/ (exclude_paths c = [] /\ include_paths c = []) ->
  forall p q a b, psim o p q -> xeqvi o a b -> skip_this c p a = skip_this c q b.
Proof.
  intros o c Hc p q a b Hps He. destruct Hc as [Hio|[E1 E2]].
  - unfold psim in Hps. rewrite Hio in Hps. subst q. apply (skip_this_same_path o); auto.
  - rewrite (skip_this_blind c p q a E1 E2). apply (skip_this_same_path o); auto.
Qed.

Lemma no_skip_ok : forall o p q a b, psim o p q -> xeqvi o a b -> no_skip p a = no_skip q b.
Proof. reflexivity. Qed.

Lemma xeqvi_dict_perm : forall o kvs kvs', Permutation kvs kvs' -> xeqvi o (XDict kvs) (XDict kvs').
Proof.
  intros o kvs kvs' Hp. constructor.
  eapply gitems_perm; [apply filter_perm, Permutation_sym, Hp|].
  apply Forall2_refl_in. intros kv _. split; auto. apply xeqvi_refl.
Qed.

(* the statement is about non-trivial values, and index-blindness is needed *)
Local Open Scope Z_scope.
Example xeqvi_example :
  let d := XAtom (XL (LDate 2020 1 2)) in
  let a := XDict [(XA (AStr (s2p "a")), XList [d; XAtom (XL (LDecimal false 15 (-1)))]);
                  (XL (LPath (s2p "/a/b")), XObj ONamed (s2p "Pt") [(s2p "x", XAtom (XA (AInt 1))); (s2p "y", d)])] in
  let b := XDict [(XL (LPath (s2p "/a/b")), XObj ONamed (s2p "Pt") [(s2p "x", XAtom (XA (AInt 1))); (s2p "y", d)]);
                  (XA (AStr (s2p "a")), XList [d; XAtom (XL (LDecimal false 15 (-1)))])] in
  xeqvi default_opts a b /\
  xdeephash hexhash (skip_this (mk_skip [] [] [XTInt] [])) default_xopts a =
  xdeephash hexhash (skip_this (mk_skip [] [] [XTInt] [])) default_xopts b /\
  xdeephash hexhash (skip_this (mk_skip [] [] [XTInt] [])) default_xopts a <> None.
Proof.
  cbv zeta. split; [apply xeqvi_dict_perm, perm_swap|]. split.
  - apply (xeqvi_hash hexhash (skip_this (mk_skip [] [] [XTInt] [])) default_xopts).
    + apply skip_this_ok. right. split; reflexivity.
    + apply xeqvi_dict_perm, perm_swap.
  - vm_compute. discriminate.
Qed.

(* exclude_paths=["root[0]"] in an order-insensitive mode: [1, 2] and [2, 1] are equal content and hash differently *)
Lemma paths_need_blindness :
  let a := XList [XAtom (XA (AInt 1)); XAtom (XA (AInt 2))] in
  let b := XList [XAtom (XA (AInt 2)); XAtom (XA (AInt 1))] in
  let c := mk_skip [[KIdx 0]] [] [] [] in
  xeqvi default_opts a b /\
  xdeephash hexhash (skip_this c) default_xopts a <> xdeephash hexhash (skip_this c) default_xopts b.
Proof.
  cbv zeta. split.
  - constructor. apply gseq_as_set; try reflexivity.
    + intros x [<-|[<-|[]]]; eexists; (split; [|apply xeqvi_refl]); cbn; auto.
    + intros x [<-|[<-|[]]]; eexists; (split; [|apply xeqvi_refl]); cbn; auto.
  - vm_compute. intro E. discriminate E.
Qed.

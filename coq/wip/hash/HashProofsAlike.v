(** The exact characterisation of hash equality: for a hasher that is injective
    with non-empty separator-free outputs, plain options, and tag-safe values
    (no wf needed), in each of the four (ignore_repetition,
    ignore_iterable_order) combinations
        hash_pure H o a = hash_pure H o b  <->  heqb o a b = true.
    Consequences: the K4 guard of the ordered-mode theorem as an input-level
    condition ([norep]); [eqvi] (equal content, sets in the same iteration
    order) implies equal hashes in every mode for every hasher, and in ordered
    mode two sets hash alike iff they are given in the same order (K3, exact). *)
From Coq Require Import List ZArith NArith Bool Lia Permutation Arith String.
Import ListNotations.
From DD Require Import Base.PyStr Base.Value Base.ValueFacts Hash.HashModel Hash.Equiv Hash.HashProofsBase
  Hash.HashProofsC06 Hash.HashProofsC07 Hash.HexHash.
Require Import HashAlike.

(* ------------------------------------------------------------------ *)
(** * nat lists *)

Lemma nlist_eqb_eq : forall a b, nlist_eqb a b = true <-> a = b.
Proof.
  induction a as [|x a IH]; destruct b as [|y b]; cbn; split; intro He; try discriminate; auto.
  - apply andb_true_iff in He. destruct He as [A B]. apply Nat.eqb_eq in A. apply IH in B. congruence.
  - inversion He; subst. rewrite Nat.eqb_refl. cbn. apply IH. reflexivity.
Qed.

Lemma ntab_eqb_eq : forall a b, ntab_eqb a b = true <-> a = b.
Proof.
  induction a as [|[x c] a IH]; destruct b as [|[y d] b]; cbn; split; intro He; try discriminate; auto.
  - apply andb_true_iff in He. destruct He as [A B]. apply andb_true_iff in A. destruct A as [A1 A2].
    apply Nat.eqb_eq in A1, A2. apply IH in B. congruence.
  - inversion He; subst. rewrite !Nat.eqb_refl. cbn. apply IH. reflexivity.
Qed.

Lemma nmem_In : forall x l, nmem x l = true <-> In x l.
Proof.
  intros x l. unfold nmem. rewrite existsb_exists. split.
  - intros [y [Hi He]]. apply Nat.eqb_eq in He. subst; auto.
  - intro Hi. exists x. split; auto. apply Nat.eqb_refl.
Qed.

Lemma ndedup_In : forall x l, In x (ndedup l) <-> In x l.
Proof.
  intros x l; induction l as [|y l IH]; cbn; [tauto|].
  rewrite filter_In, IH. destruct (Nat.eqb_spec y x) as [->|Hn]; cbn; intuition congruence.
Qed.

Lemma ncount_cons : forall x y l,
  ncount x (y :: l) = (if Nat.eqb x y then S (ncount x l) else ncount x l).
Proof. intros. unfold ncount. cbn. destruct (Nat.eqb x y); reflexivity. Qed.

Lemma ncount_pos : forall x l, In x l <-> (1 <= ncount x l)%nat.
Proof.
  intros x l; induction l as [|y l IH]; [cbn; split; [tauto|lia]|].
  rewrite ncount_cons. cbn [In]. destruct (Nat.eqb_spec x y) as [->|Hn].
  - split; [lia|auto].
  - rewrite <- IH. split; [intros [E|Hi]; [congruence|auto]|auto].
Qed.

Lemma ncount_app : forall x l1 l2, ncount x (l1 ++ l2) = (ncount x l1 + ncount x l2)%nat.
Proof. intros. unfold ncount. rewrite filter_app, app_length. reflexivity. Qed.

Lemma ncounts_In : forall h c l, In (h, c) (ncounts l) <-> In h l /\ c = ncount h l.
Proof.
  intros h c l. unfold ncounts. rewrite in_map_iff. split.
  - intros [x [He Hi]]. inversion He; subst. rewrite ndedup_In in Hi. auto.
  - intros [Hi ->]. exists h. rewrite ndedup_In. auto.
Qed.

(* every comparison that succeeds says in particular that no class of the second sequence is new *)
Lemma seq_cmp_incl : forall o l1 l2, seq_cmp o l1 l2 = true -> incl l2 l1.
Proof.
  intros o l1 l2 Hc y Hy. unfold seq_cmp in Hc.
  destruct (ignore_iterable_order o); destruct (ignore_repetition o).
  - unfold set_cmp in Hc. apply andb_true_iff in Hc. destruct Hc as [_ B].
    rewrite forallb_forall in B. apply nmem_In. auto.
  - unfold mset_cmp in Hc. rewrite forallb_forall in Hc.
    assert (Hy' : In y (l1 ++ l2)) by (apply in_or_app; auto).
    specialize (Hc y Hy'). apply Nat.eqb_eq in Hc.
    apply ncount_pos. rewrite Hc. apply ncount_pos. exact Hy.
  - unfold dord_cmp in Hc. apply nlist_eqb_eq in Hc. apply ndedup_In. rewrite Hc. apply ndedup_In. exact Hy.
  - unfold tab_cmp in Hc. apply ntab_eqb_eq in Hc.
    assert (Hi : In (y, ncount y l2) (ncounts l2)) by (apply ncounts_In; auto).
    rewrite <- Hc in Hi. apply ncounts_In in Hi. tauto.
Qed.

Lemma mset_cmp_incl : forall l1 l2, mset_cmp l1 l2 = true -> incl l2 l1.
Proof.
  intros l1 l2 Hc. apply (seq_cmp_incl multiset_mode). exact Hc.
Qed.

(* ------------------------------------------------------------------ *)
(** * transport of the four comparisons along a map that is injective on the elements in play *)

Section Transport.
Variable f : pystr -> nat.
Variable L : list pystr.
Hypothesis f_inj : forall x y, In x L -> In y L -> f x = f y -> x = y.

Lemma f_eqb : forall x y, In x L -> In y L -> Nat.eqb (f x) (f y) = pystr_eqb x y.
Proof.
  intros x y Hx Hy. destruct (pystr_eqb_spec x y) as [->|Hn].
  - apply Nat.eqb_refl.
  - apply Nat.eqb_neq. intro E. apply Hn. apply f_inj; auto.
Qed.

Lemma filter_map_f : forall x l, In x L -> incl l L ->
  map f (filter (fun y => negb (pystr_eqb x y)) l) = filter (fun j => negb (Nat.eqb (f x) j)) (map f l).
Proof.
  intros x l Hx. induction l as [|y l IH]; intro Hi; [reflexivity|]. cbn [filter map].
  assert (Hy : In y L) by (apply Hi; left; auto).
  assert (Hl : incl l L) by (intros z Hz; apply Hi; right; auto).
  rewrite (f_eqb x y Hx Hy). destruct (pystr_eqb x y); cbn [negb map]; rewrite IH; auto.
Qed.

Lemma dedup_incl : forall l, incl (dedup l) l.
Proof. intros l x Hx. apply dedup_In. exact Hx. Qed.

Lemma dedup_map_f : forall l, incl l L -> map f (dedup l) = ndedup (map f l).
Proof.
  induction l as [|x l IH]; intro Hi; [reflexivity|]. cbn [dedup ndedup map].
  assert (Hx : In x L) by (apply Hi; left; auto).
  assert (Hl : incl l L) by (intros z Hz; apply Hi; right; auto).
  f_equal. rewrite filter_map_f; auto.
  - rewrite IH; auto.
  - intros z Hz. apply Hl. apply dedup_In. exact Hz.
Qed.

Lemma count_map_f : forall x l, In x L -> incl l L -> count x l = ncount (f x) (map f l).
Proof.
  intros x l Hx. induction l as [|y l IH]; intro Hi; [reflexivity|].
  assert (Hy : In y L) by (apply Hi; left; auto).
  assert (Hl : incl l L) by (intros z Hz; apply Hi; right; auto).
  cbn [map]. rewrite count_cons, ncount_cons, (f_eqb x y Hx Hy), IH; auto.
Qed.

Lemma counts_map_f : forall l, incl l L ->
  map (fun hc => (f (fst hc), snd hc)) (counts l) = ncounts (map f l).
Proof.
  intros l Hi. unfold counts, ncounts. rewrite <- dedup_map_f; auto. rewrite !map_map. cbn [fst snd].
  apply map_ext_in. intros x Hx. f_equal. apply count_map_f; auto. apply Hi. apply dedup_In. exact Hx.
Qed.

Lemma map_f_inj : forall l1 l2, incl l1 L -> incl l2 L -> map f l1 = map f l2 -> l1 = l2.
Proof.
  induction l1 as [|x l1 IH]; intros [|y l2] H1 H2 He; cbn in He; try discriminate; auto.
  inversion He as [[E1 E2]]. f_equal.
  - apply f_inj; auto; [apply H1|apply H2]; left; auto.
  - apply IH; auto; intros z Hz; [apply H1|apply H2]; right; auto.
Qed.

Lemma In_map_f : forall x l, In x L -> incl l L -> (In (f x) (map f l) <-> In x l).
Proof.
  intros x l Hx Hl. split.
  - intro Hi. apply in_map_iff in Hi. destruct Hi as [y [He Hy]].
    assert (y = x) by (apply f_inj; auto). subst; auto.
  - apply in_map.
Qed.

Variables l1 l2 : list pystr.
Hypothesis H1 : incl l1 L.
Hypothesis H2 : incl l2 L.

Lemma set_transport : (forall x, In x l1 <-> In x l2) <-> set_cmp (map f l1) (map f l2) = true.
Proof.
  unfold set_cmp. rewrite andb_true_iff, !forallb_forall. split.
  - intros Hs. split; intros j Hj; apply nmem_In; apply in_map_iff in Hj; destruct Hj as [x [<- Hx]];
      apply in_map; apply Hs; auto.
  - intros [A B] x. split; intro Hx.
    + apply (In_map_f x l2); auto. apply nmem_In. apply A. apply in_map; auto.
    + apply (In_map_f x l1); auto. apply nmem_In. apply B. apply in_map; auto.
Qed.

Lemma mset_transport : Permutation l1 l2 <-> mset_cmp (map f l1) (map f l2) = true.
Proof.
  unfold mset_cmp. rewrite forallb_forall. split.
  - intros Hp j Hj. apply Nat.eqb_eq. rewrite <- map_app in Hj. apply in_map_iff in Hj.
    destruct Hj as [x [<- Hx]].
    assert (HxL : In x L) by (apply in_app_or in Hx; destruct Hx; auto).
    rewrite <- !count_map_f; auto. apply count_perm; auto.
  - intros Hc. apply count_eq_perm. intro x.
    destruct (in_dec pystr_eq_dec x (l1 ++ l2)) as [Hi|Hn].
    + assert (HxL : In x L) by (apply in_app_or in Hi; destruct Hi; auto).
      rewrite !(count_map_f x); auto. apply Nat.eqb_eq. apply Hc. rewrite <- map_app. apply in_map; auto.
    + assert (Z : forall l, ~ In x l -> count x l = 0%nat).
      { intros l Hl. destruct (count x l) eqn:E; auto. exfalso. apply Hl.
        unfold count in E. destruct (filter (pystr_eqb x) l) as [|y r] eqn:Ef; [discriminate|].
        assert (Hy : In y (filter (pystr_eqb x) l)) by (rewrite Ef; left; auto).
        apply filter_In in Hy. destruct Hy as [Hy He]. apply pystr_eqb_eq in He. subst; auto. }
      rewrite !Z; auto; intro Hi; apply Hn; apply in_or_app; auto.
Qed.

Lemma dord_transport : dedup l1 = dedup l2 <-> dord_cmp (map f l1) (map f l2) = true.
Proof.
  unfold dord_cmp. rewrite nlist_eqb_eq, <- (dedup_map_f l1 H1), <- (dedup_map_f l2 H2). split.
  - intros ->. reflexivity.
  - apply map_f_inj; intros z Hz; [apply H1|apply H2]; apply dedup_incl; exact Hz.
Qed.

Lemma tab_transport : counts l1 = counts l2 <-> tab_cmp (map f l1) (map f l2) = true.
Proof.
  unfold tab_cmp. rewrite ntab_eqb_eq, <- (counts_map_f l1 H1), <- (counts_map_f l2 H2). split.
  - intros ->. reflexivity.
  - intro He.
    assert (G : forall t1 t2 : list (pystr * nat),
              (forall p, In p t1 -> In (fst p) L) -> (forall p, In p t2 -> In (fst p) L) ->
              map (fun hc => (f (fst hc), snd hc)) t1 = map (fun hc => (f (fst hc), snd hc)) t2 -> t1 = t2).
    { induction t1 as [|[h c] t1 IH]; intros [|[h' c'] t2] A B E; cbn in E; try discriminate; auto.
      inversion E as [[E1 E2 E3]]. f_equal.
      - f_equal. apply f_inj; auto; [apply (A (h, c))|apply (B (h', c'))]; left; auto.
      - apply IH; auto; intros p Hp; [apply A|apply B]; right; auto. }
    apply G; auto; intros [h c] Hp; apply counts_In in Hp; cbn [fst]; [apply H1|apply H2]; tauto.
Qed.

End Transport.

(* ------------------------------------------------------------------ *)
(** * positions *)

Lemma find_idx_le : forall (A : Type) (p : A -> bool) l, (find_idx p l <= List.length l)%nat.
Proof. intros A p l; induction l as [|x l IH]; cbn; [lia|]. destruct (p x); lia. Qed.

Lemma find_idx_lt : forall (A : Type) (p : A -> bool) l,
  (find_idx p l < List.length l)%nat <-> exists x, In x l /\ p x = true.
Proof.
  intros A p l; induction l as [|x l IH]; cbn.
  - split; [lia|intros [x [[] _]]].
  - destruct (p x) eqn:E.
    + split; [intros _; exists x; auto|lia].
    + rewrite <- Nat.succ_lt_mono, IH. split.
      * intros [y [Hy Hp]]. exists y; auto.
      * intros [y [[->|Hy] Hp]]; [congruence|exists y; auto].
Qed.

Definition pos (l : list pystr) (h : pystr) : nat := cidx pystr_eqb l h.

Lemma pos_inj : forall l x y, In x l -> pos l x = pos l y -> x = y.
Proof.
  unfold pos, cidx. induction l as [|z l IH]; intros x y Hx He; [destruct Hx|].
  cbn [find_idx] in He.
  destruct (pystr_eqb_spec z x) as [Ex|Nx]; destruct (pystr_eqb_spec z y) as [Ey|Ny]; try discriminate He.
  - congruence.
  - inversion He as [He']. destruct Hx as [Hx|Hx]; [congruence|]. apply IH; auto.
Qed.

Lemma pos_lt : forall l x, (pos l x < List.length l)%nat <-> In x l.
Proof.
  intros l x. unfold pos, cidx. rewrite find_idx_lt. split.
  - intros [y [Hy He]]. apply pystr_eqb_eq in He. subst; auto.
  - intro Hx. exists x. split; auto. apply pystr_eqb_refl.
Qed.

Lemma pos_inj_on : forall l1 l2, incl l2 l1 ->
  forall x y, In x (l1 ++ l2) -> In y (l1 ++ l2) -> pos l1 x = pos l1 y -> x = y.
Proof.
  intros l1 l2 Hi x y Hx Hy He. apply (pos_inj l1); auto.
  apply in_app_or in Hx. destruct Hx; auto.
Qed.

(* a comparison of position sequences that succeeds: every element of l2 occurs in l1 *)
Lemma cmp_pos_incl : forall o l1 l2,
  seq_cmp o (map (pos l1) l1) (map (pos l1) l2) = true -> incl l2 l1.
Proof.
  intros o l1 l2 Hc y Hy. apply seq_cmp_incl in Hc.
  assert (Hi : In (pos l1 y) (map (pos l1) l1)) by (apply Hc, in_map; auto).
  apply in_map_iff in Hi. destruct Hi as [x [He Hx]].
  assert (x = y) by (apply (pos_inj l1); auto). subst; auto.
Qed.

Section Pos.
Variables l1 l2 : list pystr.

Lemma set_pos : (forall x, In x l1 <-> In x l2) <-> set_cmp (map (pos l1) l1) (map (pos l1) l2) = true.
Proof.
  split.
  - intro Hs. assert (Hi : incl l2 l1) by (intros y Hy; apply Hs; auto).
    apply (set_transport (pos l1) (l1 ++ l2) (pos_inj_on l1 l2 Hi)); auto using incl_appl, incl_appr, incl_refl.
  - intro Hc. assert (Hi : incl l2 l1) by (apply (cmp_pos_incl set_mode); exact Hc).
    apply (set_transport (pos l1) (l1 ++ l2) (pos_inj_on l1 l2 Hi)); auto using incl_appl, incl_appr, incl_refl.
Qed.

Lemma mset_pos : Permutation l1 l2 <-> mset_cmp (map (pos l1) l1) (map (pos l1) l2) = true.
Proof.
  split.
  - intro Hs. assert (Hi : incl l2 l1) by (intros y Hy; eapply Permutation_in; [apply Permutation_sym; exact Hs|auto]).
    apply (mset_transport (pos l1) (l1 ++ l2) (pos_inj_on l1 l2 Hi)); auto using incl_appl, incl_appr, incl_refl.
  - intro Hc. assert (Hi : incl l2 l1) by (apply (cmp_pos_incl multiset_mode); exact Hc).
    apply (mset_transport (pos l1) (l1 ++ l2) (pos_inj_on l1 l2 Hi)); auto using incl_appl, incl_appr, incl_refl.
Qed.

Lemma dord_pos : dedup l1 = dedup l2 <-> dord_cmp (map (pos l1) l1) (map (pos l1) l2) = true.
Proof.
  split.
  - intro Hs. assert (Hi : incl l2 l1) by (intros y Hy; apply dedup_In; rewrite Hs; apply dedup_In; auto).
    apply (dord_transport (pos l1) (l1 ++ l2) (pos_inj_on l1 l2 Hi)); auto using incl_appl, incl_appr, incl_refl.
  - intro Hc. assert (Hi : incl l2 l1) by (apply (cmp_pos_incl (mode_opts true false)); exact Hc).
    apply (dord_transport (pos l1) (l1 ++ l2) (pos_inj_on l1 l2 Hi)); auto using incl_appl, incl_appr, incl_refl.
Qed.

Lemma tab_pos : counts l1 = counts l2 <-> tab_cmp (map (pos l1) l1) (map (pos l1) l2) = true.
Proof.
  split.
  - intro Hs. assert (Hi : incl l2 l1).
    { intros y Hy. assert (Hc : In (y, count y l2) (counts l2)) by (apply counts_In; auto).
      rewrite <- Hs in Hc. apply counts_In in Hc. tauto. }
    apply (tab_transport (pos l1) (l1 ++ l2) (pos_inj_on l1 l2 Hi)); auto using incl_appl, incl_appr, incl_refl.
  - intro Hc. assert (Hi : incl l2 l1) by (apply (cmp_pos_incl ordered_mode); exact Hc).
    apply (tab_transport (pos l1) (l1 ++ l2) (pos_inj_on l1 l2 Hi)); auto using incl_appl, incl_appr, incl_refl.
Qed.

End Pos.

(* ------------------------------------------------------------------ *)
(** * arrange, in terms of positions *)

Lemma map_fmt_count_inj : forall t1 t2 : list (pystr * nat),
  (forall p, In p t1 -> sepfree (fst p)) -> (forall p, In p t2 -> sepfree (fst p)) ->
  map fmt_count t1 = map fmt_count t2 -> t1 = t2.
Proof.
  induction t1 as [|[h c] t1 IH]; intros [|[h' c'] t2] A B E; cbn [map] in E; try discriminate; auto.
  inversion E as [[E1 E2]].
  destruct (A (h, c) (or_introl eq_refl)) as (_ & _ & _ & _ & F1 & _).
  destruct (B (h', c') (or_introl eq_refl)) as (_ & _ & _ & _ & F2 & _).
  cbn [fst] in F1, F2.
  destruct (fmt_count_inj h c h' c' F1 F2 E1) as [-> ->]. f_equal.
  apply IH; auto; intros p Hp; [apply A|apply B]; right; auto.
Qed.

Theorem arrange_pos : forall o l1 l2, Forall sepfree l1 -> Forall sepfree l2 ->
  (arrange o l1 = arrange o l2 <-> seq_cmp o (map (pos l1) l1) (map (pos l1) l2) = true).
Proof.
  intros o l1 l2 F1 F2. unfold seq_cmp.
  destruct (ignore_iterable_order o) eqn:Hio; destruct (ignore_repetition o) eqn:Hir.
  - rewrite <- set_pos. split.
    + apply arrange_set_inv; auto.
    + apply arrange_same_set; auto.
  - rewrite <- mset_pos. split.
    + apply arrange_multiset_inv; auto.
    + apply arrange_perm; auto.
  - rewrite <- dord_pos. unfold arrange. rewrite Hio, Hir. tauto.
  - rewrite <- tab_pos. unfold arrange. rewrite Hio, Hir. split.
    + apply map_fmt_count_inj; intros [h c] Hp; apply counts_In in Hp; cbn [fst];
        rewrite Forall_forall in F1, F2; [apply F1|apply F2]; tauto.
    + intros ->. reflexivity.
Qed.

(* class indices computed with e agree with positions of images under g when e decides equality of images *)
Lemma cidx_pos : forall (A : Type) (e : A -> A -> bool) (g : A -> pystr) xs z,
  (forall x, In x xs -> e x z = pystr_eqb (g x) (g z)) ->
  cidx e xs z = pos (map g xs) (g z).
Proof.
  intros A e g xs z. unfold pos, cidx. induction xs as [|x xs IH]; intro He; [reflexivity|].
  cbn [map find_idx]. rewrite (He x (or_introl eq_refl)).
  destruct (pystr_eqb (g x) (g z)); auto. f_equal. apply IH. intros; apply He; right; auto.
Qed.

Lemma seq_alike_pos : forall (A : Type) o (e : A -> A -> bool) (g : A -> pystr) xs ys,
  (forall x z, In x xs -> In z (xs ++ ys) -> e x z = pystr_eqb (g x) (g z)) ->
  seq_alike o e xs ys = seq_cmp o (map (pos (map g xs)) (map g xs)) (map (pos (map g xs)) (map g ys)).
Proof.
  intros A o e g xs ys He. unfold seq_alike. rewrite !map_map. f_equal.
  - apply map_ext_in. intros z Hz. apply cidx_pos. intros x Hx. apply He; auto. apply in_or_app; auto.
  - apply map_ext_in. intros z Hz. apply cidx_pos. intros x Hx. apply He; auto. apply in_or_app; auto.
Qed.

Lemma mset_alike_pos : forall (A : Type) (e : A -> A -> bool) (g : A -> pystr) xs ys,
  (forall x z, In x xs -> In z (xs ++ ys) -> e x z = pystr_eqb (g x) (g z)) ->
  mset_alike e xs ys = mset_cmp (map (pos (map g xs)) (map g xs)) (map (pos (map g xs)) (map g ys)).
Proof. intros A e g xs ys He. apply (seq_alike_pos A multiset_mode e g xs ys He). Qed.

(* ------------------------------------------------------------------ *)
(** * equations of heqb *)

Lemma heqb_list : forall o xs ys, heqb o (VList xs) (VList ys) = seq_alike o (heqb o) xs ys.
Proof.
  intros o xs ys. cbn [heqb]. unfold seq_alike.
  assert (E : forall z l, (fix go (l : list value) : nat :=
                             match l with [] => 0%nat | x :: r => if heqb o x z then 0%nat else S (go r) end) l
                          = cidx (heqb o) l z).
  { intros z l. unfold cidx. induction l as [|x l IH]; [reflexivity|]. cbn [find_idx]. rewrite IH. reflexivity. }
  f_equal; apply map_ext; intro z; apply E.
Qed.

Lemma heqb_tuple : forall o xs ys, heqb o (VTuple xs) (VTuple ys) = seq_alike o (heqb o) xs ys.
Proof.
  intros o xs ys. cbn [heqb]. unfold seq_alike.
  assert (E : forall z l, (fix go (l : list value) : nat :=
                             match l with [] => 0%nat | x :: r => if heqb o x z then 0%nat else S (go r) end) l
                          = cidx (heqb o) l z).
  { intros z l. unfold cidx. induction l as [|x l IH]; [reflexivity|]. cbn [find_idx]. rewrite IH. reflexivity. }
  f_equal; apply map_ext; intro z; apply E.
Qed.

Definition item_alike (o : hopts) (p q : atom * value) : bool :=
  atom_eqb (fst p) (fst q) && heqb o (snd p) (snd q).

Lemma heqb_dict : forall o kvs kvs',
  heqb o (VDict kvs) (VDict kvs') = mset_alike (item_alike o) (vis o kvs) (vis o kvs').
Proof.
  intros o kvs kvs'. cbn [heqb]. unfold mset_alike.
  assert (E : forall kz l,
    (fix go (l : list (atom * value)) : nat :=
       match l with
       | [] => 0%nat
       | (k, x) :: r => if hidden o k then go r
                        else if atom_eqb k (fst kz) && heqb o x (snd kz) then 0%nat else S (go r)
       end) l = cidx (item_alike o) (vis o l) kz).
  { intros kz l. unfold cidx, vis, item_alike. induction l as [|[k x] l IH]; [reflexivity|].
    cbn [filter fst snd]. destruct (hidden o k); cbn [negb]; [exact IH|].
    cbn [find_idx fst snd]. rewrite IH. reflexivity. }
  f_equal; apply map_ext; intro z; apply E.
Qed.

(* ------------------------------------------------------------------ *)
(** * The theorem *)

Section Alike.
Variable H : pystr -> pystr.
Hypothesis H_tok : forall s, s <> [] -> sepfree (H s).
Hypothesis H_inj : forall s t, H s = H t -> s = t.

Ltac str_contra He T :=
  exfalso; inversion He; subst; unfold tag_safe in T; cbn in T; discriminate T.
Ltac off_diag He Ta Tb :=
  exfalso; cbn in He; first [ discriminate He | str_contra He Ta | str_contra He Tb ].

Lemma bool_iff_eq : forall (P : Prop) (b c : bool), (P <-> b = true) -> (P <-> c = true) -> b = c.
Proof.
  intros P b c [A B] [C D]. destruct b, c; try reflexivity.
  - assert (HP : P) by (apply B; reflexivity). specialize (C HP). discriminate C.
  - assert (HP : P) by (apply D; reflexivity). specialize (A HP). discriminate A.
Qed.

Lemma Forall_tok_pure : forall o xs, plain o = true -> Forall sepfree (map (hash_pure H o) xs).
Proof.
  intros o xs Hp. apply Forall_forall. intros t Hi. apply in_map_iff in Hi. destruct Hi as [a [<- _]].
  apply (hash_pure_tok H H_tok); auto.
Qed.

Lemma Forall_tok_atom : forall o xs, plain o = true -> Forall sepfree (map (hash_atom H o) xs).
Proof.
  intros o xs Hp. apply Forall_forall. intros t Hi. apply in_map_iff in Hi. destruct Hi as [a [<- _]].
  apply (hash_atom_tok H H_tok); auto.
Qed.

Lemma atom_alike : forall o a b, plain o = true -> tag_safe_atom a = true -> tag_safe_atom b = true ->
  atom_eqb a b = pystr_eqb (hash_atom H o a) (hash_atom H o b).
Proof.
  intros o a b Hp Ta Tb. destruct (pystr_eqb_spec (hash_atom H o a) (hash_atom H o b)) as [E|N].
  - apply (hash_atom_inj H H_inj) in E; auto. subst. apply atom_eqb_refl.
  - destruct (atom_eqb a b) eqn:E; auto. apply atom_eqb_eq in E. subst. congruence.
Qed.

(* sequences of items: equal hashes of the containers <-> the class sequences agree *)
Lemma seq_case : forall o name xs ys, plain o = true ->
  (forall x z, In x xs -> In z (xs ++ ys) -> heqb o x z = pystr_eqb (hash_pure H o x) (hash_pure H o z)) ->
  (H (retag o (seq_result name (arrange o (map (hash_pure H o) xs)))) =
   H (retag o (seq_result name (arrange o (map (hash_pure H o) ys))))
   <-> seq_alike o (heqb o) xs ys = true).
Proof.
  intros o name xs ys Hp He.
  rewrite (seq_alike_pos value o (heqb o) (hash_pure H o) xs ys He).
  rewrite <- arrange_pos; auto using Forall_tok_pure. split.
  - intro E. apply H_inj in E. destruct (plain_inv o Hp) as (ir & io & ip & Ho).
    apply (seq_join_inv H H_tok); auto.
    rewrite Ho in E. unfold retag, prep_string, seq_result in E. cbn [ignore_string_type_changes ignore_string_case] in E.
    rewrite <- Ho in E. do 4 apply app_inv_head in E. exact E.
  - intros ->. reflexivity.
Qed.

Lemma set_case : forall o name xs ys, plain o = true ->
  Forall (fun a => tag_safe_atom a = true) xs -> Forall (fun a => tag_safe_atom a = true) ys ->
  (H (retag o (seq_result name (arrange o (map (hash_atom H o) xs)))) =
   H (retag o (seq_result name (arrange o (map (hash_atom H o) ys))))
   <-> seq_alike o atom_eqb xs ys = true).
Proof.
  intros o name xs ys Hp Tx Ty.
  rewrite (seq_alike_pos atom o atom_eqb (hash_atom H o) xs ys).
  2:{ intros x z Hx Hz. rewrite Forall_forall in Tx, Ty. apply atom_alike; auto.
      apply in_app_or in Hz. destruct Hz; auto. }
  rewrite <- arrange_pos; auto using Forall_tok_atom. split.
  - intro E. apply H_inj in E. destruct (plain_inv o Hp) as (ir & io & ip & Ho).
    apply (set_join_inv H H_tok); auto.
    rewrite Ho in E. unfold retag, prep_string, seq_result in E. cbn [ignore_string_type_changes ignore_string_case] in E.
    rewrite <- Ho in E. do 4 apply app_inv_head in E. exact E.
  - intros ->. reflexivity.
Qed.

Lemma dict_case : forall o l1 l2, plain o = true ->
  (forall p q, In p l1 -> In q (l1 ++ l2) -> item_alike o p q = pystr_eqb (item_of H o p) (item_of H o q)) ->
  (H (retag o (dict_result (map (item_of H o) l1))) = H (retag o (dict_result (map (item_of H o) l2)))
   <-> mset_alike (item_alike o) l1 l2 = true).
Proof.
  intros o l1 l2 Hp He.
  rewrite (mset_alike_pos _ (item_alike o) (item_of H o) l1 l2 He).
  rewrite <- mset_pos. split.
  - intro E. apply H_inj in E. destruct (plain_inv o Hp) as (ir & io & ip & Ho).
    apply (dict_join_inv H H_tok); auto.
    rewrite Ho in E. unfold retag, prep_string, dict_result in E. cbn [ignore_string_type_changes ignore_string_case] in E.
    rewrite <- Ho in E. apply app_inv_head in E. apply app_inv_head in E. apply app_inv_head in E. exact E.
  - intro Hperm. unfold dict_result. rewrite (isort_perm_eq _ _ Hperm). reflexivity.
Qed.

Theorem hash_alike : forall o, plain o = true -> forall a b,
  tag_safe a = true -> tag_safe b = true ->
  (hash_pure H o a = hash_pure H o b <-> heqb o a b = true).
Proof.
  intros o Hp a.
  induction a as [a|xs IH|xs IH|kvs IH|xs|xs] using value_ind'; intros b Ta Tb.
  - (* atom *)
    destruct b as [b|ys|ys|kvs'|ys|ys].
    + cbn [heqb hash_pure].
      assert (Ta' : tag_safe_atom a = true) by (unfold tag_safe in Ta; cbn in Ta; apply andb_true_iff in Ta; tauto).
      assert (Tb' : tag_safe_atom b = true) by (unfold tag_safe in Tb; cbn in Tb; apply andb_true_iff in Tb; tauto).
      rewrite (atom_alike o a b Hp Ta' Tb'). rewrite pystr_eqb_eq. tauto.
    + split; [intro He|discriminate]. rewrite !hash_pure_ser in He; apply H_inj in He;
        destruct (plain_inv o Hp) as (ir & io & ip & Ho); rewrite Ho in He.
      destruct a as [| x | z | t | s | s]; try destruct x; off_diag He Ta Tb.
    + split; [intro He|discriminate]. rewrite !hash_pure_ser in He; apply H_inj in He;
        destruct (plain_inv o Hp) as (ir & io & ip & Ho); rewrite Ho in He.
      destruct a as [| x | z | t | s | s]; try destruct x; off_diag He Ta Tb.
    + split; [intro He|discriminate]. rewrite !hash_pure_ser in He; apply H_inj in He;
        destruct (plain_inv o Hp) as (ir & io & ip & Ho); rewrite Ho in He.
      destruct a as [| x | z | t | s | s]; try destruct x; off_diag He Ta Tb.
    + split; [intro He|discriminate]. rewrite !hash_pure_ser in He; apply H_inj in He;
        destruct (plain_inv o Hp) as (ir & io & ip & Ho); rewrite Ho in He.
      destruct a as [| x | z | t | s | s]; try destruct x; off_diag He Ta Tb.
    + split; [intro He|discriminate]. rewrite !hash_pure_ser in He; apply H_inj in He;
        destruct (plain_inv o Hp) as (ir & io & ip & Ho); rewrite Ho in He.
      destruct a as [| x | z | t | s | s]; try destruct x; off_diag He Ta Tb.
  - (* list *)
    destruct b as [b|ys|ys|kvs'|ys|ys];
      try (split; [intro He|discriminate]; rewrite !hash_pure_ser in He; apply H_inj in He;
           destruct (plain_inv o Hp) as (ir & io & ip & Ho); rewrite Ho in He;
           try (destruct b as [| x | z | t | s | s]; try destruct x); off_diag He Ta Tb).
    rewrite heqb_list. cbn [hash_pure]. apply seq_case; auto.
    intros x z Hx Hz. rewrite Forall_forall in IH.
    apply (bool_iff_eq (hash_pure H o x = hash_pure H o z)); [|rewrite pystr_eqb_eq; tauto].
    apply IH; auto; [apply (tag_safe_list xs Ta x Hx)|].
    apply in_app_or in Hz. destruct Hz as [Hz|Hz]; [apply (tag_safe_list xs Ta z Hz)|apply (tag_safe_list ys Tb z Hz)].
  - (* tuple *)
    destruct b as [b|ys|ys|kvs'|ys|ys];
      try (split; [intro He|discriminate]; rewrite !hash_pure_ser in He; apply H_inj in He;
           destruct (plain_inv o Hp) as (ir & io & ip & Ho); rewrite Ho in He;
           try (destruct b as [| x | z | t | s | s]; try destruct x); off_diag He Ta Tb).
    rewrite heqb_tuple. cbn [hash_pure]. apply seq_case; auto.
    intros x z Hx Hz. rewrite Forall_forall in IH.
    apply (bool_iff_eq (hash_pure H o x = hash_pure H o z)); [|rewrite pystr_eqb_eq; tauto].
    apply IH; auto; [apply (tag_safe_tuple xs Ta x Hx)|].
    apply in_app_or in Hz. destruct Hz as [Hz|Hz]; [apply (tag_safe_tuple xs Ta z Hz)|apply (tag_safe_tuple ys Tb z Hz)].
  - (* dict *)
    destruct b as [b|ys|ys|kvs'|ys|ys];
      try (split; [intro He|discriminate]; rewrite !hash_pure_ser in He; apply H_inj in He;
           destruct (plain_inv o Hp) as (ir & io & ip & Ho); rewrite Ho in He;
           try (destruct b as [| x | z | t | s | s]; try destruct x); off_diag He Ta Tb).
    rewrite heqb_dict, !hash_pure_dict.
    change (fun kv : atom * value => dict_item (hash_atom H o (fst kv)) (hash_pure H o (snd kv))) with (item_of H o).
    apply dict_case; auto.
    intros p q Hpi Hqi.
    assert (Hp1 : In p kvs) by (unfold vis in Hpi; apply filter_In in Hpi; tauto).
    destruct (tag_safe_dict _ Ta p Hp1) as [Tk Tv].
    assert (Tq : tag_safe_atom (fst q) = true /\ tag_safe (snd q) = true).
    { apply in_app_or in Hqi. destruct Hqi as [Hq|Hq]; unfold vis in Hq; apply filter_In in Hq; destruct Hq as [Hq _];
        [apply (tag_safe_dict _ Ta q Hq)|apply (tag_safe_dict _ Tb q Hq)]. }
    destruct Tq as [Tk' Tv'].
    rewrite Forall_forall in IH.
    unfold item_alike.
    apply (bool_iff_eq (item_of H o p = item_of H o q)); [|rewrite pystr_eqb_eq; tauto].
    rewrite andb_true_iff, <- (IH p Hp1 (snd q) Tv Tv'), (atom_alike o (fst p) (fst q) Hp Tk Tk'), pystr_eqb_eq.
    split.
    + apply (item_inj H H_tok); auto.
    + intros [E1 E2]. unfold item_of. rewrite E1, E2. reflexivity.
  - (* set *)
    destruct b as [b|ys|ys|kvs'|ys|ys];
      try (split; [intro He|discriminate]; rewrite !hash_pure_ser in He; apply H_inj in He;
           destruct (plain_inv o Hp) as (ir & io & ip & Ho); rewrite Ho in He;
           try (destruct b as [| x | z | t | s | s]; try destruct x); off_diag He Ta Tb).
    cbn [heqb hash_pure]. apply set_case; auto using tag_safe_set.
  - (* frozenset *)
    destruct b as [b|ys|ys|kvs'|ys|ys];
      try (split; [intro He|discriminate]; rewrite !hash_pure_ser in He; apply H_inj in He;
           destruct (plain_inv o Hp) as (ir & io & ip & Ho); rewrite Ho in He;
           try (destruct b as [| x | z | t | s | s]; try destruct x); off_diag He Ta Tb).
    cbn [heqb hash_pure]. apply set_case; auto using tag_safe_frozen.
Qed.

End Alike.

(* ------------------------------------------------------------------ *)
(** * C06 without a guard: equal content, sets in the same iteration order when the order counts *)

Section Eqvi.
Variable H : pystr -> pystr.

Theorem eqvi_hash : forall o a b, eqvi o a b -> hash_pure H o a = hash_pure H o b.
Proof.
  intros o a. induction a as [a|xs IH|xs IH|kvs IH|xs|xs] using value_ind'; intros b He; inversion He; subst.
  - reflexivity.
  - cbn [hash_pure]. do 3 f_equal.
    eapply arrange_seq_rel; [eassumption|].
    intros x y Hi Hxy. rewrite Forall_forall in IH. apply IH; auto.
  - cbn [hash_pure]. do 3 f_equal.
    eapply arrange_seq_rel; [eassumption|].
    intros x y Hi Hxy. rewrite Forall_forall in IH. apply IH; auto.
  - rewrite !hash_pure_dict.
    match goal with Hi : items_rel _ _ _ |- _ => rename Hi into Hit end.
    assert (Hs : isort (map (item_of H o) (vis o kvs)) = isort (map (item_of H o) (vis o kvs'))).
    { apply isort_perm_eq. eapply items_rel_map; [exact Hit|].
      intros p q Hi Hk Hv. unfold item_of. rewrite Hk. f_equal.
      assert (Hin : In p kvs) by (unfold vis in Hi; apply filter_In in Hi; tauto).
      rewrite Forall_forall in IH. apply (IH p); auto. }
    unfold dict_result. unfold item_of in Hs. rewrite Hs. reflexivity.
  - cbn [hash_pure]. do 3 f_equal.
    match goal with Hm : members_rel _ _ _ |- _ => unfold members_rel in Hm; rename Hm into Hmr end.
    destruct (ignore_iterable_order o) eqn:Hio; [|subst; reflexivity].
    apply arrange_perm; auto. apply Permutation_map; auto.
  - cbn [hash_pure]. do 3 f_equal.
    match goal with Hm : members_rel _ _ _ |- _ => unfold members_rel in Hm; rename Hm into Hmr end.
    destruct (ignore_iterable_order o) eqn:Hio; [|subst; reflexivity].
    apply arrange_perm; auto. apply Permutation_map; auto.
Qed.

End Eqvi.

(* eqv with the old guard is a special case *)
Lemma seq_rel_impl_in : forall o (R S : value -> value -> Prop) xs ys,
  seq_rel o R xs ys -> (forall x y, In x xs -> R x y -> S x y) -> seq_rel o S xs ys.
Proof.
  intros o R S xs ys Hr Hi. destruct Hr as [xs ys Hir Hio A B|xs ys ys' Hir Hio Hp HF|xs ys Hio HF].
  - apply seq_as_set; auto.
    + intros x Hx. destruct (A x Hx) as [y [Hy Hxy]]. eauto.
    + intros y Hy. destruct (B y Hy) as [x [Hx Hxy]]. eauto.
  - eapply seq_as_multiset; eauto. eapply Forall2_impl_in; [exact HF|]. intros; apply Hi; auto.
  - apply seq_ordered; auto. eapply Forall2_impl_in; [exact HF|]. intros; apply Hi; auto.
Qed.

Lemma items_rel_impl_in : forall (R S : value -> value -> Prop) l1 l2,
  items_rel R l1 l2 -> (forall (p q : atom * value), In p l1 -> R (snd p) (snd q) -> S (snd p) (snd q)) -> items_rel S l1 l2.
Proof.
  intros R S l1 l2 Hr Hi. destruct Hr as [l1 l2 l2' Hp HF].
  eapply items_perm; [exact Hp|]. eapply Forall2_impl_in; [exact HF|].
  cbn beta. intros p q Hpi _ [Hk Hv]. split; auto.
Qed.

Theorem eqv_eqvi : forall o a b, order_ok o a = true -> eqv o a b -> eqvi o a b.
Proof.
  intros o a. induction a as [a|xs IH|xs IH|kvs IH|xs|xs] using value_ind'; intros b Hok He; inversion He; subst.
  - constructor.
  - constructor. eapply seq_rel_impl_in; [eassumption|]. intros x y Hx Hxy. rewrite Forall_forall in IH.
    apply IH; auto. apply order_ok_split in Hok. unfold order_ok. destruct Hok as [->|Hs]; auto.
    cbn [small_sets] in Hs. rewrite forallb_forall in Hs. rewrite (Hs x Hx). apply orb_true_r.
  - constructor. eapply seq_rel_impl_in; [eassumption|]. intros x y Hx Hxy. rewrite Forall_forall in IH.
    apply IH; auto. apply order_ok_split in Hok. unfold order_ok. destruct Hok as [->|Hs]; auto.
    cbn [small_sets] in Hs. rewrite forallb_forall in Hs. rewrite (Hs x Hx). apply orb_true_r.
  - constructor. eapply items_rel_impl_in; [eassumption|]. intros p q Hpi Hv.
    assert (Hin : In p kvs) by (unfold vis in Hpi; apply filter_In in Hpi; tauto).
    rewrite Forall_forall in IH. apply (IH p); auto.
    apply order_ok_split in Hok. unfold order_ok. destruct Hok as [->|Hs]; auto.
    cbn [small_sets] in Hs. rewrite forallb_forall in Hs. rewrite (Hs p Hin). apply orb_true_r.
  - constructor. unfold members_rel. apply order_ok_split in Hok. destruct Hok as [->|Hs]; auto.
    destruct (ignore_iterable_order o); auto. apply small_perm_eq; auto.
  - constructor. unfold members_rel. apply order_ok_split in Hok. destruct Hok as [->|Hs]; auto.
    destruct (ignore_iterable_order o); auto. apply small_perm_eq; auto.
Qed.

Theorem eqvi_eqv : forall o a b, eqvi o a b -> eqv o a b.
Proof.
  intros o a. induction a as [a|xs IH|xs IH|kvs IH|xs|xs] using value_ind'; intros b He; inversion He; subst.
  - constructor.
  - constructor. eapply seq_rel_impl_in; [eassumption|]. intros x y Hx Hxy. rewrite Forall_forall in IH. auto.
  - constructor. eapply seq_rel_impl_in; [eassumption|]. intros x y Hx Hxy. rewrite Forall_forall in IH. auto.
  - constructor. eapply items_rel_impl_in; [eassumption|]. intros p q Hpi Hv.
    assert (Hin : In p kvs) by (unfold vis in Hpi; apply filter_In in Hpi; tauto).
    rewrite Forall_forall in IH. apply (IH p); auto.
  - constructor. match goal with Hm : members_rel _ _ _ |- _ => unfold members_rel in Hm; rename Hm into Hmr end.
    destruct (ignore_iterable_order o); subst; auto.
  - constructor. match goal with Hm : members_rel _ _ _ |- _ => unfold members_rel in Hm; rename Hm into Hmr end.
    destruct (ignore_iterable_order o); subst; auto.
Qed.

(* ------------------------------------------------------------------ *)
(** * Ordered mode: the input-level guard, sets exactly, injectivity up to eqvi *)

Lemma nodupn_NoDup : forall l, nodupn l = true <-> NoDup l.
Proof.
  induction l as [|x l IH]; cbn; split; intro Hn; try constructor; auto.
  - apply andb_true_iff in Hn. destruct Hn as [A B]. apply negb_true_iff in A.
    intro Hi. apply nmem_In in Hi. congruence.
  - apply IH. apply andb_true_iff in Hn. tauto.
  - inversion Hn as [|? ? Hx Hn']; subst. apply andb_true_iff. split; [|apply IH; auto].
    apply negb_true_iff. destruct (nmem x l) eqn:E; auto. apply nmem_In in E. tauto.
Qed.

Lemma NoDup_nodupb : forall l, NoDup l -> nodupb l = true.
Proof.
  induction l as [|x l IH]; intro Hn; [reflexivity|]. inversion Hn as [|? ? Hx Hn']; subst. cbn.
  apply andb_true_iff. split; auto. apply negb_true_iff.
  destruct (existsb (pystr_eqb x) l) eqn:E; auto. apply existsb_exists in E. destruct E as [y [Hy He]].
  apply pystr_eqb_eq in He. subst. tauto.
Qed.

Lemma dedup_NoDup_id : forall l, NoDup l -> dedup l = l.
Proof.
  induction l as [|y l IH]; intro Hn; [reflexivity|]. inversion Hn as [|? ? Hy Hn']; subst.
  cbn [dedup]. rewrite (IH Hn'). f_equal.
  apply filter_all_true. intros z Hz. apply negb_true_iff, pystr_eqb_neq. intro; subst; auto.
Qed.

Section Ordered.
Variable H : pystr -> pystr.
Hypothesis H_tok : forall s, s <> [] -> sepfree (H s).
Hypothesis H_inj : forall s t, H s = H t -> s = t.

Lemma heqb_hash : forall o x z, plain o = true -> tag_safe x = true -> tag_safe z = true ->
  heqb o x z = pystr_eqb (hash_pure H o x) (hash_pure H o z).
Proof.
  intros o x z Hp Tx Tz.
  apply (bool_iff_eq (hash_pure H o x = hash_pure H o z)); [|rewrite pystr_eqb_eq; tauto].
  apply (hash_alike H H_tok H_inj); auto.
Qed.

(* the input-level guard implies the hash-level guard of the older theorem *)
Lemma norep_distinct : forall o v, plain o = true -> tag_safe v = true ->
  norep o v = true -> distinct_items H o v = true.
Proof.
  intros o v Hp. induction v as [a|xs IH|xs IH|kvs IH|xs|xs] using value_ind'; intros Tv Hn; auto.
  - cbn [norep distinct_items] in *. apply andb_true_iff in Hn. destruct Hn as [A B]. apply andb_true_iff. split.
    + apply NoDup_nodupb. apply nodupn_NoDup in A.
      rewrite (map_ext_in _ (fun x => pos (map (hash_pure H o) xs) (hash_pure H o x))) in A.
      2:{ intros z Hz. apply cidx_pos. intros x Hx. apply heqb_hash; auto; eapply tag_safe_list; eauto. }
      rewrite <- (map_map (hash_pure H o) (pos (map (hash_pure H o) xs))) in A.
      eapply NoDup_map_inv; eauto.
    + rewrite forallb_forall in *. rewrite Forall_forall in IH. intros x Hx. apply IH; auto. eapply tag_safe_list; eauto.
  - cbn [norep distinct_items] in *. apply andb_true_iff in Hn. destruct Hn as [A B]. apply andb_true_iff. split.
    + apply NoDup_nodupb. apply nodupn_NoDup in A.
      rewrite (map_ext_in _ (fun x => pos (map (hash_pure H o) xs) (hash_pure H o x))) in A.
      2:{ intros z Hz. apply cidx_pos. intros x Hx. apply heqb_hash; auto; eapply tag_safe_tuple; eauto. }
      rewrite <- (map_map (hash_pure H o) (pos (map (hash_pure H o) xs))) in A.
      eapply NoDup_map_inv; eauto.
    + rewrite forallb_forall in *. rewrite Forall_forall in IH. intros x Hx. apply IH; auto. eapply tag_safe_tuple; eauto.
  - cbn [norep distinct_items] in *. rewrite forallb_forall in *. rewrite Forall_forall in IH.
    intros kv Hkv. apply IH; auto. apply (tag_safe_dict _ Tv kv Hkv).
Qed.

(* K3, exactly: with ignore_iterable_order=False two sets hash alike iff they are given in the same order *)
Lemma members_exact : forall o xs ys, plain o = true -> ignore_iterable_order o = false ->
  Forall (fun a => tag_safe_atom a = true) xs -> Forall (fun a => tag_safe_atom a = true) ys ->
  NoDup xs -> NoDup ys ->
  arrange o (map (hash_atom H o) xs) = arrange o (map (hash_atom H o) ys) -> xs = ys.
Proof.
  intros o xs ys Hp Hio Tx Ty Nx Ny He.
  apply (map_hash_atom_inj H H_inj o); auto.
  assert (N1 : NoDup (map (hash_atom H o) xs)) by (apply (NoDup_map_hash_atom H H_inj); auto).
  assert (N2 : NoDup (map (hash_atom H o) ys)) by (apply (NoDup_map_hash_atom H H_inj); auto).
  destruct (ignore_repetition o) eqn:Hir.
  - unfold arrange in He. rewrite Hio, Hir in He. rewrite !dedup_NoDup_id in He; auto.
  - apply (arrange_ordered_inv o); auto using Forall_tok_atom.
Qed.

Theorem ordered_set_exact : forall o xs ys, plain o = true -> ignore_iterable_order o = false ->
  Forall (fun a => tag_safe_atom a = true) xs -> Forall (fun a => tag_safe_atom a = true) ys ->
  NoDup xs -> NoDup ys ->
  (hash_pure H o (VSet xs) = hash_pure H o (VSet ys) <-> xs = ys) /\
  (hash_pure H o (VFrozen xs) = hash_pure H o (VFrozen ys) <-> xs = ys).
Proof.
  intros o xs ys Hp Hio Tx Ty Nx Ny. split; (split; [|intros ->; reflexivity]); intro He.
  - rewrite !hash_pure_ser in He. apply H_inj in He. destruct (plain_inv o Hp) as (ir & io & ip & Ho).
    rewrite Ho in He. cbn in He. inversion He as [He']. rewrite <- Ho in He'. clear He.
    apply (set_join_inv H H_tok) in He'; auto. apply (members_exact o); auto.
  - rewrite !hash_pure_ser in He. apply H_inj in He. destruct (plain_inv o Hp) as (ir & io & ip & Ho).
    rewrite Ho in He. cbn in He. inversion He as [He']. rewrite <- Ho in He'. clear He.
    apply (set_join_inv H H_tok) in He'; auto. apply (members_exact o); auto.
Qed.

(* injectivity with the finer conclusion: sets in the same order when the order counts *)
Lemma seq_items_inv_R : forall o (R : value -> value -> Prop) xs ys, plain o = true -> std_mode o = true ->
  (forall x y, In x xs -> In y ys -> hash_pure H o x = hash_pure H o y -> R x y) ->
  (ignore_iterable_order o = false ->
   NoDup (map (hash_pure H o) xs) /\ NoDup (map (hash_pure H o) ys)) ->
  arrange o (map (hash_pure H o) xs) = arrange o (map (hash_pure H o) ys) ->
  seq_rel o R xs ys.
Proof.
  intros o R xs ys Hp Hm IH Hnd He.
  assert (Fx : Forall sepfree (map (hash_pure H o) xs)) by (apply Forall_tok_pure; auto).
  assert (Fy : Forall sepfree (map (hash_pure H o) ys)) by (apply Forall_tok_pure; auto).
  unfold std_mode in Hm.
  destruct (ignore_iterable_order o) eqn:Hio; destruct (ignore_repetition o) eqn:Hir; cbn in Hm; try discriminate.
  - pose proof (arrange_set_inv o _ _ Hir Hio He) as Hs. apply seq_as_set; auto.
    + intros x Hi. assert (Hi' : In (hash_pure H o x) (map (hash_pure H o) ys)) by (apply Hs, in_map; auto).
      apply in_map_iff in Hi'. destruct Hi' as [y [Hy Hyi]]. exists y. split; auto.
    + intros y Hi. assert (Hi' : In (hash_pure H o y) (map (hash_pure H o) xs)) by (apply Hs, in_map; auto).
      apply in_map_iff in Hi'. destruct Hi' as [x [Hx Hxi]]. exists x. split; auto.
  - assert (Hperm : Permutation (map (hash_pure H o) xs) (map (hash_pure H o) ys))
      by (eapply arrange_multiset_inv; eauto).
    apply Permutation_map_inv in Hperm. destruct Hperm as [l3 [Hmap Hp3]].
    apply (seq_as_multiset o R xs ys l3); auto.
    apply map_eq_Forall2 in Hmap. eapply Forall2_impl_in; [exact Hmap|].
    cbn beta. intros x y Hx Hy Hh. apply IH; auto.
    eapply Permutation_in; [apply Permutation_sym; exact Hp3|auto].
  - destruct (Hnd eq_refl) as [N1 N2].
    assert (Hmap : map (hash_pure H o) xs = map (hash_pure H o) ys)
      by (eapply arrange_ordered_inv; eauto).
    apply seq_ordered; auto.
    apply map_eq_Forall2 in Hmap. eapply Forall2_impl_in; [exact Hmap|].
    cbn beta. intros x y Hx Hy Hh. apply IH; auto.
Qed.

Lemma set_members_inv_i : forall o xs ys, plain o = true -> std_mode o = true ->
  Forall (fun a => tag_safe_atom a = true) xs -> Forall (fun a => tag_safe_atom a = true) ys ->
  nodup_atoms xs = true -> nodup_atoms ys = true ->
  arrange o (map (hash_atom H o) xs) = arrange o (map (hash_atom H o) ys) -> members_rel o xs ys.
Proof.
  intros o xs ys Hp Hm Tx Ty Nx Ny He. unfold members_rel.
  destruct (ignore_iterable_order o) eqn:Hio.
  - eapply (set_members_inv H H_tok H_inj o xs ys); eauto.
  - apply (members_exact o); auto using nodup_atoms_NoDup.
Qed.

Ltac str_contra He T :=
  exfalso; inversion He; subst; unfold tag_safe in T; cbn in T; discriminate T.
Ltac off_diag He Ta Tb :=
  exfalso; cbn in He; first [ discriminate He | str_contra He Ta | str_contra He Tb ].

Theorem hash_inj_i : forall o, plain o = true -> std_mode o = true -> forall a b,
  tag_safe a = true -> tag_safe b = true -> wf a = true -> wf b = true ->
  mode_guard H o a = true -> mode_guard H o b = true ->
  hash_pure H o a = hash_pure H o b -> eqvi o a b.
Proof.
  intros o Hp Hm a.
  induction a as [a|xs IH|xs IH|kvs IH|xs|xs] using value_ind'; intros b Ta Tb Wa Wb Ga Gb He;
    rewrite !hash_pure_ser in He; apply H_inj in He;
    destruct (plain_inv o Hp) as (ir & io & ip & Ho); rewrite Ho in He.
  - destruct b as [b|ys|ys|kvs'|ys|ys];
      [|destruct a as [| x | z | t | s | s]; try destruct x; off_diag He Ta Tb ..].
    cbn [ser] in He. rewrite <- Ho in He.
    assert (a = b); [|subst; constructor].
    eapply ser_atom_inj; eauto.
    + unfold tag_safe in Ta. cbn in Ta. apply andb_true_iff in Ta. tauto.
    + unfold tag_safe in Tb. cbn in Tb. apply andb_true_iff in Tb. tauto.
  - destruct b as [b|ys|ys|kvs'|ys|ys];
      [destruct b as [| x | z | t | s | s]; try destruct x; off_diag He Ta Tb| |off_diag He Ta Tb ..].
    cbn in He. inversion He as [He']. rewrite <- Ho in He'. clear He.
    apply (seq_join_inv H H_tok) in He'; auto.
    constructor. destruct (mode_guard_items H o xs Ga) as [Gx Nx]. destruct (mode_guard_items H o ys Gb) as [Gy Ny].
    cbn [wf] in Wa, Wb. rewrite forallb_forall in Wa, Wb.
    apply seq_items_inv_R; auto.
    intros x y Hx Hy Hh. rewrite Forall_forall in IH.
    apply IH; auto; [apply (tag_safe_list xs Ta x Hx)|apply (tag_safe_list ys Tb y Hy)].
  - destruct b as [b|ys|ys|kvs'|ys|ys];
      [destruct b as [| x | z | t | s | s]; try destruct x; off_diag He Ta Tb|off_diag He Ta Tb| |off_diag He Ta Tb ..].
    cbn in He. inversion He as [He']. rewrite <- Ho in He'. clear He.
    apply (seq_join_inv H H_tok) in He'; auto.
    constructor. destruct (mode_guard_items H o xs Ga) as [Gx Nx]. destruct (mode_guard_items H o ys Gb) as [Gy Ny].
    cbn [wf] in Wa, Wb. rewrite forallb_forall in Wa, Wb.
    apply seq_items_inv_R; auto.
    intros x y Hx Hy Hh. rewrite Forall_forall in IH.
    apply IH; auto; [apply (tag_safe_tuple xs Ta x Hx)|apply (tag_safe_tuple ys Tb y Hy)].
  - destruct b as [b|ys|ys|kvs'|ys|ys];
      [destruct b as [| x | z | t | s | s]; try destruct x; off_diag He Ta Tb|off_diag He Ta Tb|off_diag He Ta Tb| |off_diag He Ta Tb ..].
    cbn in He. inversion He as [He']. rewrite <- Ho in He'. clear He.
    change (join c_semi (isort (map (item_of H o) (vis o kvs))) ++ [125%N] =
            join c_semi (isort (map (item_of H o) (vis o kvs'))) ++ [125%N]) in He'.
    apply (dict_join_inv H H_tok) in He'; auto.
    apply Permutation_map_inv in He'. destruct He' as [l3 [Hmap Hp3]].
    constructor. apply (items_perm (eqvi o) (vis o kvs) (vis o kvs') l3); auto.
    apply map_eq_Forall2 in Hmap. eapply Forall2_impl_in; [exact Hmap|].
    cbn beta. intros p q Hpi Hqi Hit.
    assert (Hp1 : In p kvs) by (unfold vis in Hpi; apply filter_In in Hpi; tauto).
    assert (Hq1 : In q kvs').
    { assert (Hq0 : In q (vis o kvs')) by (eapply Permutation_in; [apply Permutation_sym; exact Hp3|auto]).
      unfold vis in Hq0. apply filter_In in Hq0. tauto. }
    destruct (tag_safe_dict _ Ta p Hp1) as [Tk Tv]. destruct (tag_safe_dict _ Tb q Hq1) as [Tk' Tv'].
    destruct (item_inj H H_tok o p q Hp Hit) as [Hk Hv]. split.
    + eapply (hash_atom_inj H H_inj); eauto.
    + rewrite Forall_forall in IH.
      cbn [wf] in Wa, Wb. apply andb_true_iff in Wa, Wb. destruct Wa as [_ Wa]. destruct Wb as [_ Wb].
      rewrite forallb_forall in Wa, Wb.
      apply (IH p Hp1 (snd q) Tv Tv' (Wa p Hp1) (Wb q Hq1)
               (mode_guard_dict H o kvs Ga p Hp1) (mode_guard_dict H o kvs' Gb q Hq1) Hv).
  - destruct b as [b|ys|ys|kvs'|ys|ys];
      [destruct b as [| x | z | t | s | s]; try destruct x; off_diag He Ta Tb|off_diag He Ta Tb|off_diag He Ta Tb|off_diag He Ta Tb| |off_diag He Ta Tb].
    cbn in He. inversion He as [He']. rewrite <- Ho in He'. clear He.
    apply (set_join_inv H H_tok) in He'; auto.
    constructor. eapply (set_members_inv_i o xs ys); eauto using tag_safe_set.
  - destruct b as [b|ys|ys|kvs'|ys|ys];
      [destruct b as [| x | z | t | s | s]; try destruct x; off_diag He Ta Tb|off_diag He Ta Tb|off_diag He Ta Tb|off_diag He Ta Tb|off_diag He Ta Tb| ].
    cbn in He. inversion He as [He']. rewrite <- Ho in He'. clear He.
    apply (set_join_inv H H_tok) in He'; auto.
    constructor. eapply (set_members_inv_i o xs ys); eauto using tag_safe_frozen.
Qed.

(* ordered mode, guard at the level of the input: hash equal <-> same content with sets in the same order *)
Theorem ordered_norep_exact : forall o a b,
  plain o = true -> ignore_iterable_order o = false -> ignore_repetition o = false ->
  tag_safe a = true -> tag_safe b = true -> wf a = true -> wf b = true ->
  norep o a = true -> norep o b = true ->
  (hash_pure H o a = hash_pure H o b <-> eqvi o a b).
Proof.
  intros o a b Hp Hio Hir Ta Tb Wa Wb Na Nb. split.
  - apply hash_inj_i; auto.
    + unfold std_mode. rewrite Hir. apply orb_true_r.
    + unfold mode_guard. rewrite norep_distinct; auto. apply orb_true_r.
    + unfold mode_guard. rewrite norep_distinct; auto. apply orb_true_r.
  - apply eqvi_hash.
Qed.

End Ordered.

(* ------------------------------------------------------------------ *)
(** * Hypothesis-free corollaries *)

(* for the hasher the correspondence check runs *)
Theorem hash_alike_hexhash : forall o a b, plain o = true ->
  tag_safe a = true -> tag_safe b = true -> val_okb a = true -> val_okb b = true ->
  (hash_pure hexhash o a = hash_pure hexhash o b <-> heqb o a b = true).
Proof.
  intros o a b Hp Ta Tb Va Vb.
  destruct (hexhash_total_agrees o a Va) as [Ea _]. destruct (hexhash_total_agrees o b Vb) as [Eb _].
  rewrite <- Ea, <- Eb. apply (hash_alike hexhash_total hexhash_total_tok hexhash_total_inj); auto.
Qed.

(* [heqb] is an equivalence relation on tag-safe values, and in the order-insensitive modes it is [eqv];
   in ordered mode, on values without repeated items, it is [eqvi]: no hasher in the statements *)
Theorem heqb_equivalence : forall o, plain o = true ->
  (forall a, tag_safe a = true -> heqb o a a = true) /\
  (forall a b, tag_safe a = true -> tag_safe b = true -> heqb o a b = true -> heqb o b a = true) /\
  (forall a b c, tag_safe a = true -> tag_safe b = true -> tag_safe c = true ->
     heqb o a b = true -> heqb o b c = true -> heqb o a c = true).
Proof.
  intros o Hp. pose proof (hash_alike unary_hash unary_hash_tok unary_hash_inj o Hp) as E.
  repeat split.
  - intros a Ta. apply E; auto.
  - intros a b Ta Tb Hab. apply E; auto. symmetry. apply E; auto.
  - intros a b c Ta Tb Tc Hab Hbc. apply E; auto. transitivity (hash_pure unary_hash o b); apply E; auto.
Qed.

Theorem heqb_eqv : forall o a b, plain o = true -> ignore_iterable_order o = true ->
  tag_safe a = true -> tag_safe b = true -> wf a = true -> wf b = true ->
  (heqb o a b = true <-> eqv o a b).
Proof.
  intros o a b Hp Hio Ta Tb Wa Wb.
  rewrite <- (hash_alike unary_hash unary_hash_tok unary_hash_inj o Hp a b Ta Tb). split.
  - apply (hash_inj unary_hash unary_hash_tok unary_hash_inj o Hp); auto;
      unfold std_mode, mode_guard; rewrite Hio; reflexivity.
  - apply eqv_hash. unfold order_ok. rewrite Hio. reflexivity.
Qed.

Theorem heqb_eqvi_ordered : forall o a b, plain o = true ->
  ignore_iterable_order o = false -> ignore_repetition o = false ->
  tag_safe a = true -> tag_safe b = true -> wf a = true -> wf b = true ->
  norep o a = true -> norep o b = true ->
  (heqb o a b = true <-> eqvi o a b).
Proof.
  intros o a b Hp Hio Hir Ta Tb Wa Wb Na Nb.
  rewrite <- (hash_alike unary_hash unary_hash_tok unary_hash_inj o Hp a b Ta Tb).
  apply (ordered_norep_exact unary_hash unary_hash_tok unary_hash_inj); auto.
Qed.

(* equal content with sets in the same order is always alike; the converse fails exactly by K4 *)
Theorem eqvi_heqb : forall o a b, plain o = true -> tag_safe a = true -> tag_safe b = true ->
  eqvi o a b -> heqb o a b = true.
Proof.
  intros o a b Hp Ta Tb He. apply (hash_alike unary_hash unary_hash_tok unary_hash_inj o Hp a b Ta Tb).
  apply eqvi_hash. exact He.
Qed.

Lemma eqvi_refl : forall o v, eqvi o v v.
Proof.
  intros o v. induction v as [a|xs IH|xs IH|kvs IH|xs|xs] using value_ind'.
  - constructor.
  - constructor. apply seq_rel_of_Forall2, Forall2_refl_in. rewrite Forall_forall in IH. auto.
  - constructor. apply seq_rel_of_Forall2, Forall2_refl_in. rewrite Forall_forall in IH. auto.
  - constructor. eapply items_perm; [apply Permutation_refl|].
    apply Forall2_refl_in. intros kv Hi. split; auto.
    rewrite Forall_forall in IH. apply IH. unfold vis in Hi. apply filter_In in Hi. tauto.
  - constructor. unfold members_rel. destruct (ignore_iterable_order o); auto.
  - constructor. unfold members_rel. destruct (ignore_iterable_order o); auto.
Qed.

(* ------------------------------------------------------------------ *)
(** * Witnesses *)

Local Open Scope Z_scope.

(* K4 inside the exact relation: alike, not equal content *)
Lemma k4_alike :
  let a := VList [VAtom (AInt 1); VAtom (AInt 2); VAtom (AInt 1)] in
  let b := VList [VAtom (AInt 1); VAtom (AInt 1); VAtom (AInt 2)] in
  heqb ordered_mode a b = true /\ ~ eqvi ordered_mode a b /\ norep ordered_mode a = false /\
  tag_safe a = true /\ tag_safe b = true /\ wf a = true /\ wf b = true.
Proof.
  cbv zeta. repeat split; try reflexivity.
  intro He. apply eqvi_eqv in He. apply (proj2 ordered_repetition_refuted). exact He.
Qed.

(* K3 inside the exact relation: equal content, not alike *)
Lemma k3_not_alike :
  heqb ordered_mode (VSet [AInt 0; AInt 8]) (VSet [AInt 8; AInt 0]) = false /\
  eqv ordered_mode (VSet [AInt 0; AInt 8]) (VSet [AInt 8; AInt 0]) /\
  ~ eqvi ordered_mode (VSet [AInt 0; AInt 8]) (VSet [AInt 8; AInt 0]).
Proof.
  split; [reflexivity|]. split; [constructor; apply perm_swap|].
  intro He. inversion He as [| | | |xs ys Hm|]; subst. unfold members_rel in Hm. cbn in Hm. discriminate Hm.
Qed.

(* the guards of the ordered-mode theorems hold of non-trivial values: a value with a two-member set, nested
   lists with pairwise different items, and a dict *)
Example norep_example :
  let v := VList [VSet [AInt 0; AInt 8]; VList [VAtom (AInt 1); VAtom (AInt 2)]; VList [VAtom (AInt 2); VAtom (AInt 1)];
                  VDict [(AStr (s2p "a"), VTuple [VAtom (AInt 1); VAtom (AHalf 2); VAtom (ABool true)])]] in
  norep ordered_mode v = true /\ tag_safe v = true /\ wf v = true /\ small_sets v = false /\
  eqvi ordered_mode v v.
Proof.
  cbv zeta. repeat split; try reflexivity. apply eqvi_refl.
Qed.

(** C01 - composition: the run of a delta on a list or dict is simulated by the
    runs of the children's deltas on the children. *)
From Coq Require Import List ZArith NArith Bool Arith Lia Permutation.
Import ListNotations.
From DD Require Import Base.PyStr Base.Value Base.ValueFacts Path.PathModel Diff.Tree Diff.DiffModel
  Diff.DiffFacts Diff.DiffFaithful Delta.DeltaModel DeltaB.DeltaFacts DeltaB.DeltaLocal DeltaB.DeltaEntries
  DeltaB.DeltaStruct DeltaB.DeltaRun DeltaB.DeltaGuard DeltaB.DeltaGood.

Definition cls0 : atom -> item -> bool := cls (fun _ => false).
Definition restrictL (k : atom) (l : list item) : list item := map irestrict (filter (cls0 k) l).
Definition restrictP (k : atom) (P : list (list item)) : list (list item) := map (restrictL k) P.

Lemma restrictL_app k l1 l2 : restrictL k (l1 ++ l2) = restrictL k l1 ++ restrictL k l2.
Proof. unfold restrictL. rewrite filter_app, map_app. reflexivity. Qed.

Lemma restrictP_zipapp k A B : restrictP k (zipapp A B) = zipapp (restrictP k A) (restrictP k B).
Proof.
  unfold restrictP. revert B; induction A as [|a A IH]; intros [|b B]; cbn [zipapp map]; try reflexivity.
  rewrite restrictL_app, IH. reflexivity.
Qed.

(* restriction of an admissible visiting order to a child *)
Lemma idx_lt_cons K p1 p2 : idx_lt p1 p2 -> idx_lt (K :: p1) (K :: p2).
Proof.
  intros (q & i & j & r1 & r2 & -> & -> & L). exists (K :: q), i, j, r1, r2. repeat split; try reflexivity. exact L.
Qed.

Lemma cls0_path k x : cls0 k x = true -> exists r, ipath x = PKey k :: r.
Proof.
  unfold cls0, cls, fkey. cbn [negb andb]. destruct (ipath x) as [|[a|i] r]; try discriminate.
  intros H. apply atom_eqb_eq in H. subst a. exists r. reflexivity.
Qed.

Lemma ipath_irestrict x : ipath (irestrict x) = tl (ipath x).
Proof. apply ipath_imap. Qed.

Lemma desc_restrict k l : desc l -> desc (restrictL k l).
Proof.
  intros H. unfold restrictL, desc. eapply FOP_map; [|apply FOP_filter; exact H].
  intros x y Hx Hy R L. apply filter_In in Hx as [_ Hx], Hy as [_ Hy].
  apply cls0_path in Hx as [rx Ex], Hy as [ry Ey]. apply R.
  rewrite !ipath_irestrict, Ex, Ey in L. cbn in L. rewrite Ex, Ey. apply idx_lt_cons. exact L.
Qed.
Lemma asc_restrict k l : asc l -> asc (restrictL k l).
Proof.
  intros H. unfold restrictL, asc. eapply FOP_map; [|apply FOP_filter; exact H].
  intros x y Hx Hy R L. apply filter_In in Hx as [_ Hx], Hy as [_ Hy].
  apply cls0_path in Hx as [rx Ex], Hy as [ry Ey]. apply R.
  rewrite !ipath_irestrict, Ex, Ey in L. cbn in L. rewrite Ex, Ey. apply idx_lt_cons. exact L.
Qed.

Lemma Permutation_restrict k l l' : Permutation l l' -> Permutation (restrictL k l) (restrictL k l').
Proof. intros H. unfold restrictL. apply Permutation_map. apply Permutation_filter'. exact H. Qed.

Lemma Arr_restrict k B P : Arr B P -> Arr (restrictP k B) (restrictP k P).
Proof.
  destruct B as [|b1 [|b2 [|b3 [|b4 [|b5 [|b6 [|b7 [|b8 [|b9 [|]]]]]]]]]]; try contradiction;
  destruct P as [|q1 [|q2 [|q3 [|q4 [|q5 [|q6 [|q7 [|q8 [|q9 [|]]]]]]]]]]; try contradiction.
  cbn. intros (-> & -> & -> & -> & -> & [P6 D6] & [P7 D7] & -> & [P9 D9]).
  repeat split; try reflexivity; try (apply Permutation_restrict; assumption);
    try (apply desc_restrict; assumption). apply asc_restrict; assumption.
Qed.

(* ---- entries / recorded paths under one slot of a node ---- *)
Definition under (q : path) (P : pkey -> Prop) (p : path) : Prop := exists K r, P K /\ p = q ++ K :: r.

Lemma under_weaken q (P Q : pkey -> Prop) p : (forall K, P K -> Q K) -> under q P p -> under q Q p.
Proof. intros H (K & r & HP & ->). exists K, r. split; [apply H; exact HP|reflexivity]. Qed.

Lemma npath_cons K r : npath (K :: r) = PKey (key_atom K) :: npath r.
Proof. reflexivity. Qed.

Lemma under_npath_neq q P Q p1 p2 :
  under q P p1 -> under q Q p2 -> (forall K1 K2, P K1 -> Q K2 -> key_atom K1 <> key_atom K2) -> npath p1 <> npath p2.
Proof.
  intros (K1 & r1 & H1 & ->) (K2 & r2 & H2 & ->) Hd E.
  rewrite !npath_app, !npath_cons in E. apply app_inv_head in E. inversion E as [[E1 E2]].
  apply (Hd K1 K2 H1 H2 E1).
Qed.

Lemma removelast_under_neq (q : path) (K1 : pkey) r K2 r2 : K1 <> K2 -> removelast (q ++ K1 :: r) <> q ++ K2 :: r2.
Proof.
  intros N E. rewrite removelast_app in E by discriminate. apply app_inv_head in E.
  destruct r as [|k r]; cbn in E; [discriminate|]. inversion E. contradiction.
Qed.

Lemma in_paths_app p l1 l2 : in_paths p (l1 ++ l2) = in_paths p l1 || in_paths p l2.
Proof. unfold in_paths. apply existsb_app. Qed.

Lemma in_paths_none p l : (forall p2, In p2 l -> p <> p2) -> in_paths p l = false.
Proof.
  intros H. unfold in_paths. destruct (existsb (path_eqb p) l) eqn:E; [|reflexivity].
  apply existsb_exists in E as (p2 & H2 & E). apply path_eqb_eq in E. exfalso. apply (H p2 H2 E).
Qed.

Lemma in_paths_split_l q P Q p rec_a rec_b :
  under q P p -> Forall (under q Q) rec_b -> (forall K1 K2, P K1 -> Q K2 -> K1 <> K2) ->
  in_paths (removelast p) (rec_a ++ rec_b) = in_paths (removelast p) rec_a.
Proof.
  intros (K1 & r & H1 & ->) HF Hd. rewrite in_paths_app, (in_paths_none _ rec_b), orb_false_r; [reflexivity|].
  intros p2 Hp2. eapply Forall_forall in HF; [|exact Hp2]. destruct HF as (K2 & r2 & H2 & ->).
  apply removelast_under_neq. apply Hd; assumption.
Qed.
Lemma in_paths_split_r q P Q p rec_a rec_b :
  under q Q p -> Forall (under q P) rec_a -> (forall K1 K2, P K1 -> Q K2 -> K1 <> K2) ->
  in_paths (removelast p) (rec_a ++ rec_b) = in_paths (removelast p) rec_b.
Proof.
  intros (K2 & r & H2 & ->) HF Hd. rewrite in_paths_app, (in_paths_none _ rec_a); [reflexivity|].
  intros p1 Hp1. eapply Forall_forall in HF; [|exact Hp1]. destruct HF as (K1 & r1 & H1 & ->).
  apply removelast_under_neq. intros E. apply (Hd K1 K2 H1 H2). symmetry. exact E.
Qed.

Lemma pref_under q K e : pref (snoc q K) e -> under q (fun K' => K' = K) (ep1 e).
Proof. intros (r & H & _). exists K, r. split; [reflexivity|]. rewrite H. unfold snoc. rewrite <- app_assoc. reflexivity. Qed.
Lemma ppref_under q K p : ppref (snoc q K) p -> under q (fun K' => K' = K) p.
Proof. intros (r & ->). exists K, r. split; [reflexivity|]. unfold snoc. rewrite <- app_assoc. reflexivity. Qed.

Lemma mutual_under q P es :
  Forall (fun e => under q P (ep1 e)) es -> Forall (fun e => under q P (ep1 e)) (mutual es).
Proof.
  intros H. apply Forall_forall. intros e He. apply mutual_In in He as [He|(e0 & H0 & _ & E)].
  - eapply Forall_forall in H; eassumption.
  - rewrite E. eapply Forall_forall in H; eassumption.
Qed.

Section Compose.
Variable conv : ty -> value -> option value.
Variable bidir : bool.
Notation irun := (irun conv bidir).
Notation run_passes := (run_passes conv bidir).
Notation finish := (finish conv bidir).
Notation Rel := (Rel).

Lemma run_passes_app P1 P2 s : run_passes (P1 ++ P2) s = run_passes P2 (run_passes P1 s).
Proof. unfold run_passes. apply fold_left_app. Qed.

Definition child_items (K : list atom) (l : list item) : Prop :=
  forall x, In x l -> exists k r, ipath x = PKey k :: r /\ In k K /\ okr x r.

(* passes that consist of child items only *)
Lemma rel_passes_children K PL : forall s S,
  Forall (child_items K) PL -> Rel K s S ->
  Rel K (run_passes PL s) (fun k => run_passes (restrictP k PL) (S k)) /\
  same_off K (root s) (root (run_passes PL s)).
Proof.
  induction PL as [|l PL IH]; intros s S HF HR.
  - cbn. split; [eapply Rel_ext; [|exact HR]; reflexivity|].
    apply same_off_refl. destruct HR as [HS _]. eapply sepK_box; exact HS.
  - apply Forall_cons_iff in HF as [Hl HF].
    destruct (rel_fold_children conv bidir K l s S Hl HR) as [A B].
    destruct (IH (irun l s) _ HF A) as [C D2].
    cbn [run_passes fold_left]. fold (run_passes PL (irun l s)). split.
    + eapply Rel_ext; [|exact C]. intros k _. cbn [restrictP map run_passes fold_left]. reflexivity.
    + eapply same_off_trans; eassumption.
Qed.

Lemma cls0_post k p : cls0 k (IPost p) = match p with PKey a :: _ => atom_eqb a k | _ => false end.
Proof. destruct p as [|[a|i] r]; reflexivity. Qed.

Lemma restrict_posts k P : restrictL k (map IPost P) = map IPost (sub k P).
Proof.
  unfold restrictL. induction P as [|p P IH]; [reflexivity|].
  change (sub k (p :: P)) with ((match p with PKey k' :: r => if atom_eqb k' k then [r] else [] | _ => [] end) ++ sub k P).
  cbn [map filter]. rewrite cls0_post.
  destruct p as [|[a|i] r]; cbn [app]; try exact IH.
  destruct (atom_eqb a k); cbn [app map]; [|exact IH]. rewrite IH. reflexivity.
Qed.

(* post-processing *)
Lemma rel_finish K s S : Rel K s S ->
  Rel K (finish s) (fun k => finish (S k)) /\ same_off K (root s) (root (finish s)).
Proof.
  intros HR. unfold finish at 1 3.
  assert (Hc : child_items K (map IPost (post s))).
  { intros x Hx. apply in_map_iff in Hx as (p & <- & Hp). destruct HR as (_ & _ & _ & HQ & _).
    destruct (HQ p Hp) as (k & r & -> & Hk). exists k, r. cbn. auto. }
  destruct (rel_fold_children conv bidir K _ s S Hc HR) as [A B]. split; [|exact B].
  eapply Rel_ext; [|exact A]. intros k Hk. unfold runS. fold (cls0 k). fold (restrictL k (map IPost (post s))).
  rewrite restrict_posts. destruct HR as (_ & _ & HP & _). rewrite (HP k Hk). reflexivity.
Qed.

End Compose.

(* ---- the items of a child's delta, seen from the parent ---- *)
Lemma tl_skipn {A} n (l : list A) : tl (skipn n l) = skipn (S n) l.
Proof. revert l; induction n as [|n IH]; intros [|x l]; cbn; try reflexivity. apply IH. Qed.

Lemma irestrict_istrip n x : irestrict (istrip n x) = istrip (S n) x.
Proof. unfold irestrict, istrip. rewrite imap_imap. apply imap_ext. intros p. apply tl_skipn. Qed.

Lemma okr_imap f x r : okr (imap f x) r <-> okr x r.
Proof. destruct x; cbn; tauto. Qed.

Lemma cls0_true k x r : ipath x = PKey k :: r -> cls0 k x = true.
Proof. intros H. unfold cls0, cls, fkey. rewrite H. cbn. apply atom_eqb_refl. Qed.
Lemma cls0_false k k' x r : ipath x = PKey k' :: r -> k' <> k -> cls0 k x = false.
Proof.
  intros H N. unfold cls0, cls, fkey. rewrite H. cbn. destruct (atom_eqb k' k) eqn:E; [|reflexivity].
  apply atom_eqb_eq in E. contradiction.
Qed.

Definition nils9 : list (list item) := [[]; []; []; []; []; []; []; []; []].

Lemma zipapp_nils_l B : length B = 9 -> zipapp nils9 B = B.
Proof. destruct B as [|b1 [|b2 [|b3 [|b4 [|b5 [|b6 [|b7 [|b8 [|b9 [|]]]]]]]]]]; try discriminate. reflexivity. Qed.
Lemma zipapp_nils_r B : length B = 9 -> zipapp B nils9 = B.
Proof.
  destruct B as [|b1 [|b2 [|b3 [|b4 [|b5 [|b6 [|b7 [|b8 [|b9 [|]]]]]]]]]]; try discriminate.
  intros _. cbn. rewrite !app_nil_r. reflexivity.
Qed.
Lemma sbase_length n d : length (sbase n d) = 9.
Proof. reflexivity. Qed.

Section ChildItems.
Variable conv : ty -> value -> option value.
Variables bidir always : bool.
Variable ops : path -> list value -> list value -> list opcode.
Variables T1 T2 : value.
Notation td := (to_delta conv bidir always ops T1 T2).

Lemma child_item_paths q K es rec l x :
  Forall (pref (snoc q K)) es -> Forall (ppref (snoc q K)) rec ->
  In l (sbase (length q) (td es rec)) -> In x l ->
  exists r, ipath x = PKey (key_atom K) :: r /\ okr x r.
Proof.
  intros HE HR Hl Hx. unfold sbase in Hl. apply in_map_iff in Hl as (l0 & <- & Hl0).
  apply in_map_iff in Hx as (x0 & <- & Hx0).
  destruct (td_item_paths conv bidir always ops T1 T2 es rec l0 x0 Hl0 Hx0) as [(e & He & Hp & Hm)|(p & Hp & Hq & Hm)].
  - eapply Forall_forall in HE; [|exact He]. destruct HE as (r & Hr & Hs).
    exists (npath r). unfold istrip. rewrite ipath_imap, Hp, Hr. unfold snoc. rewrite <- app_assoc. cbn [app].
    rewrite skipn_npath. split; [reflexivity|]. apply okr_imap.
    assert (Z : is_move x0 = true -> npath r <> []).
    { intros M N. apply (Hs (Hm M)). destruct r; [reflexivity|discriminate]. }
    destruct x0; cbn in *; try exact I; apply Z; reflexivity.
  - eapply Forall_forall in HR; [|exact Hp]. destruct HR as (r & ->).
    exists (npath r). unfold istrip. rewrite ipath_imap, Hq. unfold snoc. rewrite <- app_assoc. cbn [app].
    rewrite skipn_npath. split; [reflexivity|]. apply okr_imap. destruct x0; cbn in *; try exact I; discriminate.
Qed.

Lemma restrictP_child_same q K es rec :
  Forall (pref (snoc q K)) es -> Forall (ppref (snoc q K)) rec ->
  restrictP (key_atom K) (sbase (length q) (td es rec)) = sbase (S (length q)) (td es rec).
Proof.
  intros HE HR. unfold restrictP.
  assert (X : forall l, In l (sbase (length q) (td es rec)) -> restrictL (key_atom K) l = map irestrict l).
  { intros l Hl. unfold restrictL. f_equal. apply filter_all. intros x Hx.
    destruct (child_item_paths q K es rec l x HE HR Hl Hx) as (r & Hr & _). eapply cls0_true. exact Hr. }
  rewrite (map_ext_in _ (map irestrict) _ X). unfold sbase. rewrite map_map. apply map_ext.
  intros l. rewrite map_map. apply map_ext. intros x. apply irestrict_istrip.
Qed.

Lemma restrictP_child_other q K k es rec :
  Forall (pref (snoc q K)) es -> Forall (ppref (snoc q K)) rec -> key_atom K <> k ->
  restrictP k (sbase (length q) (td es rec)) = nils9.
Proof.
  intros HE HR N. unfold restrictP.
  assert (X : forall l, In l (sbase (length q) (td es rec)) -> restrictL k l = []).
  { intros l Hl. unfold restrictL. rewrite filter_nil; [reflexivity|]. intros x Hx.
    destruct (child_item_paths q K es rec l x HE HR Hl Hx) as (r & Hr & _). eapply cls0_false; eassumption. }
  rewrite (map_ext_in _ (fun _ => []) _ X). reflexivity.
Qed.

End ChildItems.

(* ---- a sorted permutation of items with distinct keys is unique ---- *)
Lemma sorted_perm_unique {A} (kf : A -> Z) (l : list A) : forall l',
  Permutation l l' -> (forall x y, In x l' -> In y l' -> kf x = kf y -> x = y) ->
  ForallOrdPairs (fun x y => (kf y <= kf x)%Z) l -> ForallOrdPairs (fun x y => (kf y <= kf x)%Z) l' -> l = l'.
Proof.
  induction l as [|a l IH]; intros l' HP Hinj S1 S2.
  - apply Permutation_nil in HP. subst. reflexivity.
  - destruct l' as [|a' l']; [apply Permutation_sym, Permutation_nil in HP; discriminate|].
    inversion S1 as [|? ? Fa S1']; subst. inversion S2 as [|? ? Fa' S2']; subst.
    assert (La : (kf a <= kf a')%Z).
    { assert (Ha : In a (a' :: l')) by (eapply Permutation_in; [exact HP|left; reflexivity]).
      destruct Ha as [->|Ha]; [lia|]. eapply Forall_forall in Fa'; [|exact Ha]. exact Fa'. }
    assert (La' : (kf a' <= kf a)%Z).
    { assert (Ha : In a' (a :: l)) by (eapply Permutation_in; [apply Permutation_sym; exact HP|left; reflexivity]).
      destruct Ha as [->|Ha]; [lia|]. eapply Forall_forall in Fa; [|exact Ha]. exact Fa. }
    assert (E : a = a').
    { apply Hinj; [eapply Permutation_in; [exact HP|left; reflexivity]|left; reflexivity|lia]. }
    subst a'. f_equal. apply IH; try assumption.
    + eapply Permutation_cons_inv. exact HP.
    + intros x y Hx Hy. apply Hinj; right; assumption.
Qed.

Definition kf1 (x : item) : Z := match ipath x with [PKey (AInt z)] => z | _ => 0%Z end.

Lemma idx_lt_single i j : (i < j)%Z -> idx_lt [PKey (AInt i)] [PKey (AInt j)].
Proof. intros H. exists [], i, j, [], []. repeat split. exact H. Qed.

Lemma desc_kf1 l : (forall x, In x l -> exists z, ipath x = [PKey (AInt z)]) -> desc l ->
  ForallOrdPairs (fun x y => (kf1 y <= kf1 x)%Z) l.
Proof.
  intros H D0. unfold desc in D0. induction D0 as [|a l Fa D0 IH]; constructor.
  - apply Forall_forall. intros y Hy. eapply Forall_forall in Fa; [|exact Hy].
    destruct (H a (or_introl eq_refl)) as (za & Ea). destruct (H y (or_intror Hy)) as (zy & Ey).
    unfold kf1. rewrite Ea, Ey. destruct (Z.le_gt_cases zy za) as [L|L]; [exact L|].
    exfalso. apply Fa. rewrite Ea, Ey. apply idx_lt_single. lia.
  - apply IH. intros x Hx. apply H. right. exact Hx.
Qed.
Lemma asc_kf1 l : (forall x, In x l -> exists z, ipath x = [PKey (AInt z)]) -> asc l ->
  ForallOrdPairs (fun x y => (kf1 x <= kf1 y)%Z) l.
Proof.
  intros H D0. unfold asc in D0. induction D0 as [|a l Fa D0 IH]; constructor.
  - apply Forall_forall. intros y Hy. eapply Forall_forall in Fa; [|exact Hy].
    destruct (H a (or_introl eq_refl)) as (za & Ea). destruct (H y (or_intror Hy)) as (zy & Ey).
    unfold kf1. rewrite Ea, Ey. destruct (Z.le_gt_cases za zy) as [L|L]; [exact L|].
    exfalso. apply Fa. rewrite Ea, Ey. apply idx_lt_single. lia.
  - apply IH. intros x Hx. apply H. right. exact Hx.
Qed.

(** C01 - shape of the entry list of an ordered diff: every reported path
    extends the path of the node it was reported under, and
    mutual_add_removes acts inside one node. *)
From Coq Require Import List ZArith NArith Bool Arith Lia.
Import ListNotations.
From DD Require Import Base.PyStr Base.Value Base.ValueFacts Path.PathModel Diff.Tree Diff.DiffModel
  Diff.DiffFacts Diff.DiffFaithful.

(* kinds that are always reported for a child slot of the node, never for the node itself *)
Definition strictk (e : entry) : bool :=
  match ekind e with
  | KDictAdd | KDictRem | KIterAdd | KIterRem | KIterMoved => true
  | _ => false
  end.
Definition pref (p : path) (e : entry) : Prop :=
  exists r, ep1 e = p ++ r /\ (strictk e = true -> r <> []).
Definition ppref (p : path) (r : path) : Prop := exists r', r = p ++ r'.

Lemma pref_snoc p k e : pref (snoc p k) e -> pref p e.
Proof.
  intros (r & H & S). exists (k :: r). rewrite H. unfold snoc. rewrite <- !app_assoc.
  split; [reflexivity|]. intros _. discriminate.
Qed.

Lemma Forall_pref_snoc p k es : Forall (pref (snoc p k)) es -> Forall (pref p) es.
Proof. apply Forall_impl. intros e. apply pref_snoc. Qed.

Section Pref.
Variable hatom : atom -> pystr.
Variable udiff : pystr -> pystr -> pystr.
Variable ops : path -> list value -> list value -> list opcode.
Variable skip excl : path -> bool.
Variable c : cfg.
Notation diff := (diff hatom udiff ops skip excl c).

Lemma pref_report k p1 p2 a b d : (k = KType \/ k = KValue) -> Forall (pref p1) (report skip k p1 p2 a b d).
Proof.
  intros Hk. unfold report. destruct (skip p1); constructor; [|constructor]. exists []. cbn. rewrite app_nil_r.
  split; [reflexivity|]. unfold strictk. cbn. destruct Hk; subst k; discriminate.
Qed.
Lemma pref_report_snoc k p key p2 a b d : Forall (pref p) (report skip k (snoc p key) p2 a b d).
Proof.
  unfold report. destruct (skip _); constructor; [|constructor]. exists [key]. cbn.
  split; [reflexivity|]. intros _. discriminate.
Qed.

Lemma pref_diff_atom a b p1 p2 : Forall (pref p1) (diff_atom udiff skip a b p1 p2).
Proof.
  unfold diff_atom. destruct (skip p1); [constructor|].
  destruct (negb _); [apply pref_report; tauto|].
  destruct a, b; try (destruct (py_eq _ _); [constructor|apply pref_report; tauto]).
  - destruct (diff_str _ _ _ _) as [[|] d]; [apply pref_report; tauto|constructor].
  - destruct (diff_str _ _ _ _) as [[|] d]; [apply pref_report; tauto|constructor].
Qed.

Lemma pref_removed_from xs i p1 p2 : Forall (pref p1) (removed_from skip xs i p1 p2).
Proof.
  revert i; induction xs as [|x xs IH]; intros i; cbn; [constructor|].
  apply Forall_app; split; [|apply IH]. apply pref_report_snoc.
Qed.
Lemma pref_added_from ys j p1 p2 : Forall (pref p1) (added_from skip ys j p1 p2).
Proof.
  revert j; induction ys as [|y ys IH]; intros j; cbn; [constructor|].
  apply Forall_app; split; [|apply IH]. apply pref_report_snoc.
Qed.

Lemma pref_pairs_leaf xs ys i j p1 p2 : Forall (pref p1) (pairs_leaf udiff skip xs ys i j p1 p2).
Proof.
  revert ys i j; induction xs as [|x xs IH]; intros ys i j.
  - cbn. destruct ys; apply pref_added_from.
  - destruct ys as [|y ys]; [apply pref_removed_from|].
    cbn [pairs_leaf]. apply Forall_app; split; [|apply IH].
    destruct (_ && _); [apply pref_report_snoc|].
    unfold diff_leaf. destruct x, y; try constructor. eapply Forall_pref_snoc. apply pref_diff_atom.
Qed.

Lemma pref_by_opcodes os xs ys p1 p2 : Forall (pref p1) (by_opcodes udiff skip os xs ys p1 p2).
Proof.
  unfold by_opcodes. induction os as [|o os IH]; cbn; [constructor|].
  apply Forall_app; split; [|exact IH].
  destruct (otag o); [constructor|apply pref_pairs_leaf|apply pref_removed_from|apply pref_added_from].
Qed.

Lemma pref_default_leaf_list xs ys p1 p2 : Forall (pref p1) (fst (default_leaf_list udiff ops skip xs ys p1 p2)).
Proof.
  unfold default_leaf_list. destruct (1 <? _); [|apply pref_by_opcodes].
  destruct (_ <=? _); [apply pref_pairs_leaf|apply pref_by_opcodes].
Qed.

Lemma pref_diff_set xs ys p1 p2 : Forall (pref p1) (diff_set hatom skip xs ys p1 p2).
Proof.
  assert (R : forall k a, (k = KSetAdd \/ k = KSetRem) -> Forall (pref p1) (report_set skip k a p1 p2)).
  { intros k a Hk. unfold report_set. destruct (skip p1); constructor; [|constructor]. exists []. cbn. rewrite app_nil_r.
    split; [reflexivity|]. unfold strictk. cbn. destruct Hk; subst k; discriminate. }
  unfold diff_set. apply Forall_app; split; apply Forall_forall; intros e He; apply in_flat_map in He as (y & _ & He);
    destruct (existsb _ _); try destruct He; eapply Forall_forall in He; try (apply R; tauto); exact He.
Qed.

Definition PP (t1 : value) : Prop :=
  forall t2 p1 p2, Forall (pref p1) (fst (diff t1 t2 p1 p2)) /\ Forall (ppref p1) (snd (diff t1 t2 p1 p2)).

Lemma ppref_snoc p k r : ppref (snoc p k) r -> ppref p r.
Proof. intros [r' H]. exists (k :: r'). rewrite H. unfold snoc. rewrite <- app_assoc. reflexivity. Qed.

Lemma PP_go_list xs : Forall PP xs -> forall ys i p1 p2,
  Forall (pref p1) (fst (go_list skip diff p1 p2 xs ys i)) /\ Forall (ppref p1) (snd (go_list skip diff p1 p2 xs ys i)).
Proof.
  induction 1 as [|x xs Hx _ IH]; intros ys i p1 p2.
  - cbn. split; [apply pref_added_from|constructor].
  - destruct ys as [|y ys]; [cbn [go_list fst snd]; split; [apply pref_removed_from|constructor]|].
    cbn [go_list]. unfold app2. cbn [fst snd]. destruct (Hx y (snoc p1 (PIdx i)) (snoc p2 (PIdx i))) as [A B].
    destruct (IH ys (S i) p1 p2) as [C D]. split; apply Forall_app; split; try assumption.
    + eapply Forall_pref_snoc; exact A.
    + eapply Forall_impl; [|exact B]. intros r. apply ppref_snoc.
Qed.

Lemma PP_go_common kvs2 k2 p1 p2 l : Forall (fun kv => PP (snd kv)) l ->
  Forall (pref p1) (fst (go_common c diff kvs2 k2 p1 p2 l)) /\ Forall (ppref p1) (snd (go_common c diff kvs2 k2 p1 p2 l)).
Proof.
  induction 1 as [|[k v1] l Hk _ IH]; cbn; [split; constructor|].
  destruct (keep_key c k); [|exact IH]. destruct (find _ _) as [k'|]; [|exact IH].
  destruct (assoc k' kvs2) as [v2|]; [|exact IH].
  unfold app2. cbn [fst snd]. cbn in Hk. destruct (Hk v2 (snoc p1 (PKey k')) (snoc p2 (PKey k'))) as [A B].
  destruct IH as [C D]. split; apply Forall_app; split; try assumption.
  - eapply Forall_pref_snoc; exact A.
  - eapply Forall_impl; [|exact B]. intros r. apply ppref_snoc.
Qed.

Lemma ppref_self p : ppref p p.
Proof. exists []. rewrite app_nil_r. reflexivity. Qed.

Theorem diff_pref : forall t1, PP t1.
Proof.
  induction t1 as [a|xs IH|xs IH|kvs IH|xs|xs] using value_ind'; intros t2 p1 p2;
    (destruct (skip p1) eqn:Hs; [rewrite diff_skip by exact Hs; split; constructor|]);
    (match goal with |- context [diff ?t1 t2 _ _] => destruct (ty_eqb (type_of t1) (type_of t2)) eqn:T end;
     [|rewrite diff_type by assumption; cbn [fst snd]; split; [apply pref_report; tauto|constructor]]);
    apply ty_eqb_true in T; destruct t2; try discriminate T; try (destruct a; discriminate T).
  - rewrite diff_atom_eq by exact Hs. destruct (negb _); cbn [fst snd]; split; try constructor; [apply pref_report; tauto|apply pref_diff_atom].
  - rewrite diff_list by exact Hs. unfold seq_body. destruct (_ && _).
    + pose proof (pref_default_leaf_list xs xs0 p1 p2) as P.
      destruct (default_leaf_list _ _ _ _ _ _ _) as [es [|]]; cbn [fst snd] in *; split; try assumption; repeat constructor. apply ppref_self.
    + apply PP_go_list. exact IH.
  - rewrite diff_tuple by exact Hs. unfold seq_body. destruct (_ && _).
    + pose proof (pref_default_leaf_list xs xs0 p1 p2) as P.
      destruct (default_leaf_list _ _ _ _ _ _ _) as [es [|]]; cbn [fst snd] in *; split; try assumption; repeat constructor. apply ppref_self.
    + apply PP_go_list. exact IH.
  - rewrite diff_dict by exact Hs. unfold dict_body. destruct (dict_shortcut _ _ _ _ _).
    + cbn [fst snd]. split; [apply pref_report; tauto|constructor].
    + cbn [fst snd]. destruct (PP_go_common kvs0 (keys_of c kvs0) p1 p2 kvs IH) as [A B]. split; [|exact B].
      apply Forall_app; split; [|apply Forall_app; split; [|exact A]].
      * apply Forall_forall. intros e He. apply in_flat_map in He as (k & _ & He).
        destruct (mem_atom _ _); [destruct He|]. eapply Forall_forall in He; [exact He|apply pref_report_snoc].
      * apply Forall_forall. intros e He. apply in_flat_map in He as (k & _ & He).
        destruct (mem_atom _ _); [destruct He|]. eapply Forall_forall in He; [exact He|apply pref_report_snoc].
  - rewrite diff_vset by exact Hs. cbn [fst snd]. split; [apply pref_diff_set|constructor].
  - rewrite diff_vfrozen by exact Hs. cbn [fst snd]. split; [apply pref_diff_set|constructor].
Qed.

End Pref.

(* ---- mutual_add_removes_to_become_value_changes ---- *)
Lemma pkey_eqb_refl k : pkey_eqb k k = true.
Proof. destruct k; cbn; [apply atom_eqb_refl|apply Nat.eqb_refl]. Qed.
Lemma path_eqb_refl p : path_eqb p p = true.
Proof. induction p as [|k p IH]; cbn; [reflexivity|]. rewrite pkey_eqb_refl. exact IH. Qed.
Lemma path_eqb_neq p q : p <> q -> path_eqb p q = false.
Proof. intros N. destruct (path_eqb p q) eqn:E; [|reflexivity]. apply path_eqb_eq in E. contradiction. Qed.

Definition iterk (e : entry) : bool :=
  match ekind e with KIterAdd | KIterRem => true | _ => false end.

Definition mfun (A R : list entry) (e : entry) : list entry :=
  match ekind e with
  | KIterRem =>
      match last_with_path (ep1 e) A with
      | Some a =>
          match last_with_path (ep1 e) R with
          | Some r => [mkEntry KValue (ep1 e) (ep2 e) (et1 e) (et2 a) (ediff e)]
          | None => [e]
          end
      | None => [e]
      end
  | KIterAdd =>
      match last_with_path (ep1 e) R with
      | Some _ => []
      | None => [e]
      end
  | _ => [e]
  end.

Lemma mutual_mfun es :
  mutual es = flat_map (mfun (filter (is_kind KIterAdd) es) (filter (is_kind KIterRem) es)) es.
Proof. reflexivity. Qed.

Lemma lwp_acc_none p l acc : (forall e, In e l -> ep1 e <> p) ->
  fold_left (fun acc e => if path_eqb (ep1 e) p then Some e else acc) l acc = acc.
Proof.
  revert acc; induction l as [|x l IH]; intros acc H; cbn; [reflexivity|].
  rewrite path_eqb_neq by (apply H; left; reflexivity). apply IH. intros e He. apply H. right. exact He.
Qed.

Lemma lwp_none p l : (forall e, In e l -> ep1 e <> p) -> last_with_path p l = None.
Proof. intros H. unfold last_with_path. apply lwp_acc_none. exact H. Qed.

Lemma lwp_app_l p l1 l2 : (forall e, In e l2 -> ep1 e <> p) -> last_with_path p (l1 ++ l2) = last_with_path p l1.
Proof. intros H. unfold last_with_path. rewrite fold_left_app. apply lwp_acc_none. exact H. Qed.

Lemma lwp_app_r p l1 l2 : (forall e, In e l1 -> ep1 e <> p) -> last_with_path p (l1 ++ l2) = last_with_path p l2.
Proof. intros H. unfold last_with_path. rewrite fold_left_app. rewrite (lwp_acc_none p l1 None H). reflexivity. Qed.

Lemma mfun_ext A R A' R' e :
  (iterk e = true -> last_with_path (ep1 e) A = last_with_path (ep1 e) A' /\
                     last_with_path (ep1 e) R = last_with_path (ep1 e) R') ->
  mfun A R e = mfun A' R' e.
Proof.
  unfold mfun, iterk. destruct (ekind e); intros H; try reflexivity; destruct (H eq_refl) as [H1 H2]; rewrite ?H1, ?H2; reflexivity.
Qed.

Lemma flat_map_ext_in {A B} (f g : A -> list B) l : (forall x, In x l -> f x = g x) -> flat_map f l = flat_map g l.
Proof.
  induction l as [|x l IH]; cbn; intros H; [reflexivity|].
  rewrite (H x (or_introl eq_refl)). f_equal. apply IH. intros y Hy. apply H. right. exact Hy.
Qed.

Lemma is_kind_iterk k e : is_kind k e = true -> (k = KIterAdd \/ k = KIterRem) -> iterk e = true.
Proof. unfold is_kind, iterk. destruct (ekind e), k; cbn; intros H [E|E]; try discriminate; reflexivity. Qed.

Lemma mutual_app a b :
  (forall e1 e2, In e1 a -> In e2 b -> iterk e1 = true -> iterk e2 = true -> ep1 e1 <> ep1 e2) ->
  mutual (a ++ b) = mutual a ++ mutual b.
Proof.
  intros H. rewrite !mutual_mfun, flat_map_app, !filter_app. f_equal.
  - apply flat_map_ext_in. intros e He. apply mfun_ext. intros Ie.
    assert (X : forall k, (k = KIterAdd \/ k = KIterRem) -> forall e2, In e2 (filter (is_kind k) b) -> ep1 e2 <> ep1 e).
    { intros k Hk e2 H2 E. apply filter_In in H2 as [H2 K2]. apply (H e e2 He H2 Ie); [|symmetry; exact E].
      eapply is_kind_iterk; eassumption. }
    split; apply lwp_app_l; apply X; tauto.
  - apply flat_map_ext_in. intros e He. apply mfun_ext. intros Ie.
    assert (X : forall k, (k = KIterAdd \/ k = KIterRem) -> forall e1, In e1 (filter (is_kind k) a) -> ep1 e1 <> ep1 e).
    { intros k Hk e1 H1 E. apply filter_In in H1 as [H1 K1]. apply (H e1 e H1 He); [|exact Ie|exact E].
      eapply is_kind_iterk; eassumption. }
    split; apply lwp_app_r; apply X; tauto.
Qed.

Lemma mutual_id es :
  (forall a r, In a es -> In r es -> ekind a = KIterAdd -> ekind r = KIterRem -> ep1 a <> ep1 r) ->
  mutual es = es.
Proof.
  intros H. rewrite mutual_mfun.
  rewrite (flat_map_ext_in _ (fun e => [e])).
  - induction es as [|e es IH]; cbn; [reflexivity|]. f_equal. 
    clear. induction es as [|x es IH]; cbn; [reflexivity|]. f_equal. exact IH.
  - intros e He. unfold mfun. destruct (ekind e) eqn:K; try reflexivity.
    + rewrite lwp_none; [reflexivity|]. intros r Hr E. apply filter_In in Hr as [Hr Kr].
      unfold is_kind in Kr. destruct (ekind r) eqn:K2; try discriminate. apply (H e r He Hr K K2). symmetry. exact E.
    + rewrite lwp_none; [reflexivity|]. intros a Ha E. apply filter_In in Ha as [Ha Ka].
      unfold is_kind in Ka. destruct (ekind a) eqn:K2; try discriminate. apply (H a e Ha He K2 K). exact E.
Qed.

Lemma mutual_In es e : In e (mutual es) ->
  In e es \/ exists e0, In e0 es /\ ekind e = KValue /\ ep1 e = ep1 e0.
Proof.
  rewrite mutual_mfun. intros H. apply in_flat_map in H as (e0 & H0 & H).
  unfold mfun in H. destruct (ekind e0) eqn:K; try (destruct H as [<-|[]]; left; exact H0).
  - destruct (last_with_path _ _); [destruct H|]. destruct H as [<-|[]]. left; exact H0.
  - destruct (last_with_path (ep1 e0) (filter (is_kind KIterAdd) es)); [|destruct H as [<-|[]]; left; exact H0].
    destruct (last_with_path (ep1 e0) (filter (is_kind KIterRem) es)); [|destruct H as [<-|[]]; left; exact H0].
    destruct H as [<-|[]]. right. exists e0. cbn. auto.
Qed.

Lemma mutual_pref p es : Forall (pref p) es -> Forall (pref p) (mutual es).
Proof.
  intros H. apply Forall_forall. intros e He. apply mutual_In in He as [He|(e0 & H0 & K & P)].
  - eapply Forall_forall in H; eassumption.
  - eapply Forall_forall in H; [|exact H0]. destruct H as (r & Hr & _). exists r. rewrite P. split; [exact Hr|].
    unfold strictk. rewrite K. discriminate.
Qed.

(** C01 - a dict compared key by key: its delta is the concatenation of the added
    keys, the removed keys and the deltas of the values of the common keys. *)
From Coq Require Import List ZArith NArith Bool Arith Lia Permutation.
Import ListNotations.
From DD Require Import Base.PyStr Base.Value Base.ValueFacts Path.PathModel Diff.Tree Diff.DiffModel
  Diff.DiffFacts Diff.DiffFaithful Delta.DeltaModel DeltaB.DeltaFacts DeltaB.DeltaLocal DeltaB.DeltaEntries
  DeltaB.DeltaStruct DeltaB.DeltaRun DeltaB.DeltaGuard DeltaB.DeltaGood DeltaB.DeltaCompose DeltaB.DeltaListNode.

Definition key_in (l : list atom) (K : pkey) : Prop := exists k, K = PKey k /\ In k l.

Section DictNode.
Variable hatom : atom -> pystr.
Variable udiff : pystr -> pystr -> pystr.
Variable ops : path -> list value -> list value -> list opcode.
Variable c : cfg.
Variable conv : ty -> value -> option value.
Variables bidir always : bool.
Variables T1 T2 : value.
Variable q : path.
Variables kvs1 kvs2 : list (atom * value).
Notation diff := (diff hatom udiff ops nos nos c).
Notation E := (E hatom udiff ops c).
Notation D := (D hatom udiff ops c conv bidir always T1 T2).
Notation td := (to_delta conv bidir always ops T1 T2).

(* guards in the form used here *)
Hypothesis Hkeep1 : forall k, In k (map fst kvs1) -> keep_key c k = true.
Hypothesis Hkeep2 : forall k, In k (map fst kvs2) -> keep_key c k = true.
Hypothesis Hident : forall k k', In k (map fst kvs1) -> In k' (map fst kvs2) -> py_eq k k' = true -> k = k'.
Hypothesis N1 : nodup_atoms (map fst kvs1) = true.
Hypothesis N2 : nodup_atoms (map fst kvs2) = true.

Lemma keys1 : keys_of c kvs1 = map fst kvs1.
Proof. unfold keys_of. apply filter_all. exact Hkeep1. Qed.
Lemma keys2 : keys_of c kvs2 = map fst kvs2.
Proof. unfold keys_of. apply filter_all. exact Hkeep2. Qed.

Definition GC (l : list (atom * value)) := go_common c diff kvs2 (keys_of c kvs2) q q l.
Definition DC (l : list (atom * value)) : delta := td (mutual (fst (GC l))) (snd (GC l)).

Lemma gc_step k v1 l : In k (map fst kvs1) ->
  (exists v2, assoc k kvs2 = Some v2 /\ GC ((k, v1) :: l) = app2 (diff v1 v2 (snoc q (PKey k)) (snoc q (PKey k))) (GC l)) \/
  (assoc k kvs2 = None /\ GC ((k, v1) :: l) = GC l).
Proof.
  intros Hk. unfold GC. cbn [go_common]. rewrite (Hkeep1 k Hk). rewrite keys2.
  destruct (find (py_eq k) (map fst kvs2)) as [k'|] eqn:F.
  - apply find_some in F as [Hk' Ek]. pose proof (Hident k k' Hk Hk' Ek) as <-.
    destruct (assoc k kvs2) as [v2|] eqn:A.
    + left. exists v2. split; reflexivity.
    + exfalso. apply assoc_None in A. assert (mem_atom k (map fst kvs2) = true) by (apply mem_atom_In; exists k; split; [exact Hk'|apply py_eq_refl]). congruence.
  - right. split; [|reflexivity]. apply assoc_None. unfold mem_atom.
    destruct (existsb (py_eq k) (map fst kvs2)) eqn:X; [|reflexivity].
    apply existsb_exists in X as (k' & Hk' & Ek). pose proof (find_none _ _ F k' Hk') as Z. cbn in Z. congruence.
Qed.

Definition has2 (kv : atom * value) : bool := match assoc (fst kv) kvs2 with Some _ => true | None => false end.
Definition ckeys (l : list (atom * value)) : list atom := map fst (filter has2 l).

Lemma ckeys_sub l k : In k (ckeys l) -> In k (map fst l).
Proof. unfold ckeys. intros H. apply in_map_iff in H as (kv & <- & Hkv). apply filter_In in Hkv as [Hkv _]. apply in_map. exact Hkv. Qed.

Lemma GC_under l : (forall kv, In kv l -> In (fst kv) (map fst kvs1)) ->
  Forall (fun e => under q (key_in (ckeys l)) (ep1 e)) (fst (GC l)) /\ Forall (under q (key_in (ckeys l))) (snd (GC l)).
Proof.
  induction l as [|[k v1] l IH]; intros Sub.
  - cbn. split; constructor.
  - assert (Sub' : forall kv, In kv l -> In (fst kv) (map fst kvs1)) by (intros kv H; apply Sub; right; exact H).
    destruct (IH Sub') as [C D0].
    assert (W : forall K, key_in (ckeys l) K -> key_in (ckeys ((k, v1) :: l)) K).
    { intros K (k0 & -> & H0). exists k0. split; [reflexivity|]. unfold ckeys. cbn [filter]. destruct (has2 (k, v1)); [right|]; exact H0. }
    destruct (gc_step k v1 l (Sub (k, v1) (or_introl eq_refl))) as [(v2 & A & ->)|[A ->]].
    + destruct (diff_pref hatom udiff ops nos nos c v1 v2 (snoc q (PKey k)) (snoc q (PKey k))) as [PA PB].
      assert (Hd : key_in (ckeys ((k, v1) :: l)) (PKey k)).
      { exists k. split; [reflexivity|]. unfold ckeys. cbn [filter]. unfold has2 at 1. cbn [fst]. rewrite A. left. reflexivity. }
      unfold app2. cbn [fst snd]. split; apply Forall_app; split.
      * eapply Forall_impl; [|exact PA]. intros e He. apply pref_under in He. eapply under_weaken; [|exact He].
        intros K ->. exact Hd.
      * eapply Forall_impl; [|exact C]. intros e He. eapply under_weaken; [exact W|exact He].
      * eapply Forall_impl; [|exact PB]. intros e He. apply ppref_under in He. eapply under_weaken; [|exact He].
        intros K ->. exact Hd.
      * eapply Forall_impl; [|exact D0]. intros e He. eapply under_weaken; [exact W|exact He].
    + split; (eapply Forall_impl; [|eassumption]); intros e He; (eapply under_weaken; [exact W|exact He]).
Qed.

Lemma DC_cons k v1 v2 l :
  In k (map fst kvs1) -> (forall kv, In kv l -> In (fst kv) (map fst kvs1)) -> ~ In k (map fst l) ->
  assoc k kvs2 = Some v2 ->
  DC ((k, v1) :: l) = dapp (D v1 v2 (snoc q (PKey k))) (DC l).
Proof.
  intros Hk Sub Nk A. unfold DC, DeltaGood.D, DeltaGood.E.
  destruct (gc_step k v1 l Hk) as [(v2' & A' & ->)|[A' _]]; [|congruence].
  rewrite A in A'. inversion A'; subst v2'. unfold app2. cbn [fst snd].
  destruct (diff_pref hatom udiff ops nos nos c v1 v2 (snoc q (PKey k)) (snoc q (PKey k))) as [PA PB].
  destruct (GC_under l Sub) as [C D0].
  set (ea := fst (diff v1 v2 (snoc q (PKey k)) (snoc q (PKey k)))) in *.
  set (ra := snd (diff v1 v2 (snoc q (PKey k)) (snoc q (PKey k)))) in *.
  assert (UA : Forall (fun e => under q (fun K => K = PKey k) (ep1 e)) ea).
  { eapply Forall_impl; [|exact PA]. intros e He. apply pref_under. exact He. }
  assert (URA : Forall (under q (fun K => K = PKey k)) ra).
  { eapply Forall_impl; [|exact PB]. intros e He. apply ppref_under. exact He. }
  assert (Dj : forall K1 K2 : pkey, K1 = PKey k -> key_in (ckeys l) K2 -> K1 <> K2).
  { intros K1 K2 -> (k0 & -> & H0) E0. inversion E0. subst k0. apply Nk. apply ckeys_sub. exact H0. }
  assert (Dk : forall K1 K2 : pkey, K1 = PKey k -> key_in (ckeys l) K2 -> key_atom K1 <> key_atom K2).
  { intros K1 K2 -> (k0 & -> & H0) E0. cbn in E0. subst k0. apply Nk. apply ckeys_sub. exact H0. }
  rewrite mutual_app.
  - apply td_app.
    + intros e He. eapply in_paths_split_l; [|exact D0|exact Dj].
      pose proof (mutual_under q _ ea UA) as M. eapply Forall_forall in M; eassumption.
    + intros e He. eapply in_paths_split_r; [|exact URA|exact Dj].
      pose proof (mutual_under q _ _ C) as M. eapply Forall_forall in M; eassumption.
    + intros e1 e2 H1 H2. eapply under_npath_neq; [| |exact Dk].
      * pose proof (mutual_under q _ ea UA) as M. eapply Forall_forall in M; eassumption.
      * pose proof (mutual_under q _ _ C) as M. eapply Forall_forall in M; eassumption.
  - intros e1 e2 H1 H2 _ _ E0.
    eapply Forall_forall in UA; [|exact H1]. eapply Forall_forall in C; [|exact H2].
    apply (under_npath_neq q _ _ _ _ UA C Dk). rewrite E0. reflexivity.
Qed.

Lemma DC_skip k v1 l : In k (map fst kvs1) -> assoc k kvs2 = None -> DC ((k, v1) :: l) = DC l.
Proof.
  intros Hk A. unfold DC. destruct (gc_step k v1 l Hk) as [(v2' & A' & _)|[_ ->]]; [congruence|reflexivity].
Qed.


Lemma DC_nil : sbase (length q) (DC []) = nils9.
Proof. reflexivity. Qed.

Lemma DC_struct l :
  (forall kv, In kv l -> In (fst kv) (map fst kvs1)) -> NoDup (map fst l) ->
  (forall k v1 v2, In (k, v1) l -> assoc k kvs2 = Some v2 ->
     restrictP k (sbase (length q) (DC l)) = sbase (S (length q)) (D v1 v2 (snoc q (PKey k)))) /\
  (forall j, child_items (ckeys l) (nth j (sbase (length q) (DC l)) [])) /\
  (forall k', ~ In k' (map fst l) -> restrictP k' (sbase (length q) (DC l)) = nils9).
Proof.
  induction l as [|[k v1] l IH]; intros Sub ND.
  - rewrite DC_nil. split; [|split].
    + intros k v1 v2 [].
    + intros j x Hx. exfalso. do 9 (destruct j as [|j]; [destruct Hx|]). destruct j; destruct Hx.
    + intros k' _. reflexivity.
  - assert (Sub' : forall kv, In kv l -> In (fst kv) (map fst kvs1)) by (intros kv H; apply Sub; right; exact H).
    cbn [map] in ND. apply NoDup_cons_iff in ND as [Nk ND]. cbn [fst] in Nk.
    destruct (IH Sub' ND) as (IHa & IHb & IHc).
    pose proof (Sub (k, v1) (or_introl eq_refl)) as Hk. cbn [fst] in Hk.
    destruct (assoc k kvs2) as [v2|] eqn:A.
    + rewrite (DC_cons k v1 v2 l Hk Sub' Nk A), sbase_dapp.
      destruct (D_pref hatom udiff ops c q v1 v2 (PKey k)) as [PA PB].
      split; [|split].
      * intros k0 v0 v20 [H0|H0] A0; rewrite restrictP_zipapp.
        -- inversion H0; subst k0 v0. rewrite A in A0. inversion A0; subst v20.
           unfold DeltaGood.D at 1. change k with (key_atom (PKey k)) at 1.
           rewrite (restrictP_child_same conv bidir always ops T1 T2 q (PKey k) _ _ PA PB).
           rewrite IHc by exact Nk. apply zipapp_nils_r. reflexivity.
        -- unfold DeltaGood.D at 1.
           rewrite (restrictP_child_other conv bidir always ops T1 T2 q (PKey k) k0 _ _ PA PB).
           ++ rewrite zipapp_nils_l by reflexivity. apply (IHa k0 v0 v20 H0 A0).
           ++ cbn. intros E0. subst k0. apply Nk. apply in_map_iff. exists (k, v0). split; [reflexivity|exact H0].
      * intros j. rewrite nth_zipapp by reflexivity. apply child_items_app.
        -- intros x0 Hx0. destruct (Nat.lt_ge_cases j 9) as [Lj|Lj].
           ++ destruct (child_item_paths conv bidir always ops T1 T2 q (PKey k) _ _ _ x0 PA PB
                          (nth_In (sbase (length q) (D v1 v2 (snoc q (PKey k)))) [] Lj) Hx0) as (r & Hr & Ho).
              exists k, r. split; [exact Hr|]. split; [|exact Ho].
              unfold ckeys. cbn [filter]. unfold has2 at 1. cbn [fst]. rewrite A. left. reflexivity.
           ++ rewrite nth_overflow in Hx0 by exact Lj. destruct Hx0.
        -- eapply child_items_weaken; [|apply IHb]. intros k0 H0. unfold ckeys. cbn [filter].
           destruct (has2 (k, v1)); [right|]; exact H0.
      * intros k' H. rewrite restrictP_zipapp. unfold DeltaGood.D at 1.
        rewrite (restrictP_child_other conv bidir always ops T1 T2 q (PKey k) k' _ _ PA PB).
        -- rewrite IHc; [reflexivity|]. intros H0. apply H. right. exact H0.
        -- cbn. intros E0. apply H. left. exact E0.
    + rewrite (DC_skip k v1 l Hk A). split; [|split].
      * intros k0 v0 v20 [H0|H0] A0; [inversion H0; subst; congruence|]. apply (IHa k0 v0 v20 H0 A0).
      * intros j. eapply child_items_weaken; [|apply IHb]. intros k0 H0. unfold ckeys. cbn [filter].
        destruct (has2 (k, v1)); [right|]; exact H0.
      * intros k' H. apply IHc. intros H0. apply H. right. exact H0.
Qed.


(* ---- the node's own entries ---- *)
Definition ov (o : option value) : value := match o with Some v => v | None => VAtom ANone end.
Definition akeys : list atom := filter (fun k => negb (mem_atom k (map fst kvs1))) (map fst kvs2).
Definition rkeys : list atom := filter (fun k => negb (mem_atom k (map fst kvs2))) (map fst kvs1).
Definition aent (k : atom) : entry := mkEntry KDictAdd (snoc q (PKey k)) (snoc q (PKey k)) None (assoc k kvs2) None.
Definition rent (k : atom) : entry := mkEntry KDictRem (snoc q (PKey k)) (snoc q (PKey k)) (assoc k kvs1) None None.
Definition own_adds : list item := map (fun k => IAdd false [PKey k] (Some (ov (assoc k kvs2)))) akeys.
Definition own_rems : list item := map (fun k => IRem [PKey k] (ov (assoc k kvs1))) rkeys.

Lemma flat_map_filter {A B} (p : A -> bool) (f : A -> B) l :
  flat_map (fun k => if p k then [] else [f k]) l = map f (filter (fun k => negb (p k)) l).
Proof. induction l as [|x l IH]; cbn; [reflexivity|]. destruct (p x); cbn; rewrite IH; reflexivity. Qed.

Lemma dict_entries :
  dict_shortcut nos c (keys_of c kvs1) (keys_of c kvs2) q = false ->
  E (VDict kvs1) (VDict kvs2) q = (map aent akeys ++ map rent rkeys ++ fst (GC kvs1), snd (GC kvs1)).
Proof.
  intros Sh. unfold DeltaGood.E. rewrite diff_dict by reflexivity. unfold dict_body. rewrite Sh.
  fold (GC kvs1). rewrite keys1, keys2. cbn [report nos].
  rewrite (flat_map_filter (fun k => mem_atom k (map fst kvs1)) aent).
  rewrite (flat_map_filter (fun k => mem_atom k (map fst kvs2)) rent). reflexivity.
Qed.

Lemma strip_key k : skipn (length q) (npath (snoc q (PKey k))) = [PKey k].
Proof. unfold snoc. rewrite skipn_npath. reflexivity. Qed.

Lemma sbase_adds l :
  sbase (length q) (td (map aent l) []) =
  [[]; []; []; []; []; []; []; map (fun k => IAdd false [PKey k] (Some (ov (assoc k kvs2)))) l; []].
Proof.
  unfold sbase, base, p1, p2, p3, p4, p5, p6, p7, p8, p9.
  rewrite td_sadd, td_srem. unfold to_delta. cbn [d_val d_type d_dadd d_drem d_iadd d_irem d_ops map].
  rewrite !sg_map_none by reflexivity. cbn [map].
  assert (TL : forall l0, map (istrip (length q)) (map (fun pv : path * value => IAdd false (fst pv) (Some (snd pv)))
             (flat_map (fun e => match ekind e with
                                 | KDictAdd => [(npath (ep1 e), match et2 e with Some v => v | None => VAtom ANone end)]
                                 | _ => [] end) (map aent l0)))
           = map (fun k => IAdd false [PKey k] (Some (ov (assoc k kvs2)))) l0).
  { induction l0 as [|p l0 IH]; cbn; [reflexivity|]. rewrite strip_key. f_equal. exact IH. }
  rewrite TL.
  repeat (f_equal; try (rewrite flat_map_map_nil by reflexivity; reflexivity)).
Qed.

Lemma sbase_rems l :
  sbase (length q) (td (map rent l) []) =
  [[]; []; []; []; []; []; []; []; map (fun k => IRem [PKey k] (ov (assoc k kvs1))) l].
Proof.
  unfold sbase, base, p1, p2, p3, p4, p5, p6, p7, p8, p9.
  rewrite td_sadd, td_srem. unfold to_delta. cbn [d_val d_type d_dadd d_drem d_iadd d_irem d_ops map].
  rewrite !sg_map_none by reflexivity. cbn [map].
  assert (TL : forall l0, map (istrip (length q)) (map (fun pv : path * value => IRem (fst pv) (snd pv))
             (flat_map (fun e => match ekind e with
                                 | KDictRem => [(npath (ep1 e), match et1 e with Some v => v | None => VAtom ANone end)]
                                 | _ => [] end) (map rent l0)))
           = map (fun k => IRem [PKey k] (ov (assoc k kvs1))) l0).
  { induction l0 as [|p l0 IH]; cbn; [reflexivity|]. rewrite strip_key. f_equal. exact IH. }
  rewrite TL.
  repeat (f_equal; try (rewrite flat_map_map_nil by reflexivity; reflexivity)).
Qed.

Lemma mutual_noiter es : (forall e, In e es -> iterk e = false) -> mutual es = es.
Proof.
  intros H. apply mutual_id. intros a r Ha _ Ka _. specialize (H a Ha). unfold iterk in H. rewrite Ka in H. discriminate.
Qed.

Lemma in_paths_own K rec Q : Forall (under q Q) rec -> in_paths (removelast (snoc q K)) rec = false.
Proof.
  intros HF. apply in_paths_none. intros p2 Hp2 E0. eapply Forall_forall in HF; [|exact Hp2].
  destruct HF as (K2 & r2 & _ & ->). unfold snoc in E0. rewrite removelast_last in E0.
  apply (f_equal (@length pkey)) in E0. rewrite app_length in E0. cbn in E0. lia.
Qed.

Lemma akeys_spec k : In k akeys -> In k (map fst kvs2) /\ mem_atom k (map fst kvs1) = false.
Proof. unfold akeys. intros H. apply filter_In in H as [H1 H2]. split; [exact H1|]. apply negb_true_iff in H2. exact H2. Qed.
Lemma rkeys_spec k : In k rkeys -> In k (map fst kvs1) /\ mem_atom k (map fst kvs2) = false.
Proof. unfold rkeys. intros H. apply filter_In in H as [H1 H2]. split; [exact H1|]. apply negb_true_iff in H2. exact H2. Qed.

Lemma ckeys_spec l k : In k (ckeys l) -> In k (map fst l) /\ exists v2, assoc k kvs2 = Some v2.
Proof.
  unfold ckeys. intros H. apply in_map_iff in H as ([k0 v0] & <- & Hkv). apply filter_In in Hkv as [Hkv Hh].
  split; [apply in_map_iff; exists (k0, v0); split; [reflexivity|exact Hkv]|].
  unfold has2 in Hh. cbn [fst] in *. destruct (assoc k0 kvs2) as [v2|]; [exists v2; reflexivity|discriminate].
Qed.

Lemma D_dict :
  dict_shortcut nos c (keys_of c kvs1) (keys_of c kvs2) q = false ->
  D (VDict kvs1) (VDict kvs2) q = dapp (td (map aent akeys) []) (dapp (td (map rent rkeys) []) (DC kvs1)).
Proof.
  intros Sh. unfold DeltaGood.D. rewrite (dict_entries Sh). cbn [fst snd].
  assert (Sub : forall kv, In kv kvs1 -> In (fst kv) (map fst kvs1)) by (intros kv H; apply in_map; exact H).
  destruct (GC_under kvs1 Sub) as [C D0].
  assert (IA : forall e, In e (map aent akeys) -> iterk e = false) by (intros e He; apply in_map_iff in He as (k & <- & _); reflexivity).
  assert (IR : forall e, In e (map rent rkeys) -> iterk e = false) by (intros e He; apply in_map_iff in He as (k & <- & _); reflexivity).
  rewrite mutual_app by (intros e1 e2 H1 _ I1; rewrite (IA e1 H1) in I1; discriminate).
  rewrite mutual_app by (intros e1 e2 H1 _ I1; rewrite (IR e1 H1) in I1; discriminate).
  rewrite (mutual_noiter _ IA), (mutual_noiter _ IR).
  pose proof (mutual_under q _ _ C) as MC.
  assert (UA : forall e, In e (map aent akeys) -> under q (key_in akeys) (ep1 e)).
  { intros e He. apply in_map_iff in He as (k & <- & Hk). exists (PKey k), []. split; [exists k; split; [reflexivity|exact Hk]|reflexivity]. }
  assert (UR : forall e, In e (map rent rkeys) -> under q (key_in rkeys) (ep1 e)).
  { intros e He. apply in_map_iff in He as (k & <- & Hk). exists (PKey k), []. split; [exists k; split; [reflexivity|exact Hk]|reflexivity]. }
  assert (DAR : forall K1 K2, key_in akeys K1 -> key_in rkeys K2 -> key_atom K1 <> key_atom K2).
  { intros K1 K2 (k1 & -> & H1) (k2 & -> & H2) E0. cbn in E0. subst k2.
    apply akeys_spec in H1 as [_ H1]. apply rkeys_spec in H2 as [H2 _].
    assert (mem_atom k1 (map fst kvs1) = true) by (apply mem_atom_In; exists k1; split; [exact H2|apply py_eq_refl]). congruence. }
  assert (DAC : forall K1 K2, key_in akeys K1 -> key_in (ckeys kvs1) K2 -> key_atom K1 <> key_atom K2).
  { intros K1 K2 (k1 & -> & H1) (k2 & -> & H2) E0. cbn in E0. subst k2.
    apply akeys_spec in H1 as [_ H1]. apply ckeys_spec in H2 as [H2 _].
    assert (mem_atom k1 (map fst kvs1) = true) by (apply mem_atom_In; exists k1; split; [exact H2|apply py_eq_refl]). congruence. }
  assert (DRC : forall K1 K2, key_in rkeys K1 -> key_in (ckeys kvs1) K2 -> key_atom K1 <> key_atom K2).
  { intros K1 K2 (k1 & -> & H1) (k2 & -> & H2) E0. cbn in E0. subst k2.
    apply rkeys_spec in H1 as [_ H1]. apply ckeys_spec in H2 as [_ (v2 & A)].
    apply assoc_None in H1. congruence. }
  rewrite <- (app_nil_l (snd (GC kvs1))) at 1. rewrite td_app.
  - f_equal. rewrite <- (app_nil_l (snd (GC kvs1))) at 1. rewrite td_app; [reflexivity| | |].
    + intros e He. apply in_map_iff in He as (k & <- & _). unfold rent. cbn [ep1 app]. rewrite (in_paths_own _ _ _ D0). reflexivity.
    + intros e He. reflexivity.
    + intros e1 e2 H1 H2. eapply under_npath_neq; [apply UR; exact H1| |exact DRC].
      eapply Forall_forall in MC; [exact MC|exact H2].
  - intros e He. apply in_map_iff in He as (k & <- & _). unfold aent. cbn [ep1 app]. rewrite (in_paths_own _ _ _ D0). reflexivity.
  - intros e He. reflexivity.
  - intros e1 e2 H1 H2. apply in_app_or in H2 as [H2|H2].
    + eapply under_npath_neq; [apply UA; exact H1|apply UR; exact H2|exact DAR].
    + eapply under_npath_neq; [apply UA; exact H1| |exact DAC]. eapply Forall_forall in MC; [exact MC|exact H2].
Qed.

End DictNode.

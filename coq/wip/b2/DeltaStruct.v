(** C01 - the delta of a node is the field-wise concatenation of the deltas of
    its children and of its own entries; the item lists of the passes. *)
From Coq Require Import List ZArith NArith Bool Arith Lia.
Import ListNotations.
From DD Require Import Base.PyStr Base.Value Base.ValueFacts Path.PathModel Diff.Tree Diff.DiffModel
  Diff.DiffFacts Diff.DiffFaithful Delta.DeltaModel DeltaB.DeltaFacts DeltaB.DeltaEntries.

Definition dapp (d1 d2 : delta) : delta :=
  mkDelta (d_val d1 ++ d_val d2) (d_type d1 ++ d_type d2) (d_dadd d1 ++ d_dadd d2) (d_drem d1 ++ d_drem d2)
          (d_iadd d1 ++ d_iadd d2) (d_irem d1 ++ d_irem d2) (d_moved d1 ++ d_moved d2)
          (d_sadd d1 ++ d_sadd d2) (d_srem d1 ++ d_srem d2) (d_ops d1 ++ d_ops d2) (d_bidir d1).

(* ---- group_add ---- *)
Lemma group_add_app p a l1 l2 :
  (forall q, In q (map fst l1) -> q <> p) -> group_add p a (l1 ++ l2) = l1 ++ group_add p a l2.
Proof.
  induction l1 as [|[q xs] l1 IH]; intros H; cbn; [reflexivity|].
  rewrite path_eqb_neq by (intros E; apply (H q); [left; reflexivity|symmetry; exact E]).
  f_equal. apply IH. intros q' Hq'. apply H. right. exact Hq'.
Qed.

Lemma group_add_fst p a l q : In q (map fst (group_add p a l)) -> q = p \/ In q (map fst l).
Proof.
  induction l as [|[q0 xs] l IH]; cbn.
  - intros [H|[]]; left; symmetry; exact H.
  - destruct (path_eqb p q0); cbn; intros [H|H]; auto. destruct (IH H); auto.
Qed.

Section SG.
Variable sel : entry -> option (path * atom).   (* the set entries of one kind *)
Definition sg (es : list entry) (acc : list (path * list atom)) : list (path * list atom) :=
  fold_left (fun acc e => match sel e with Some (p, a) => group_add p a acc | None => acc end) es acc.

Lemma sg_fst es acc q : In q (map fst (sg es acc)) ->
  In q (map fst acc) \/ exists e a, In e es /\ sel e = Some (q, a).
Proof.
  revert acc; induction es as [|e es IH]; intros acc; cbn; [auto|].
  intros H. apply IH in H as [H|(e' & a & He & Hs)].
  - destruct (sel e) as [[p a]|] eqn:S; [|auto]. apply group_add_fst in H as [->|H]; [|auto].
    right. exists e, a. split; [left; reflexivity|exact S].
  - right. exists e', a. split; [right; exact He|exact Hs].
Qed.

Lemma sg_frame es l1 acc :
  (forall e p a, In e es -> sel e = Some (p, a) -> ~ In p (map fst l1)) ->
  sg es (l1 ++ acc) = l1 ++ sg es acc.
Proof.
  revert acc; induction es as [|e es IH]; intros acc H; cbn; [reflexivity|].
  destruct (sel e) as [[p a]|] eqn:S.
  - rewrite group_add_app.
    + apply IH. intros e' p' a' He'. apply H. right. exact He'.
    + intros q Hq E. subst q. eapply H; [left; reflexivity|exact S|exact Hq].
  - apply IH. intros e' p' a' He'. apply H. right. exact He'.
Qed.

Lemma sg_app es1 es2 :
  (forall e1 e2 p a1 a2, In e1 es1 -> In e2 es2 -> sel e1 = Some (p, a1) -> sel e2 = Some (p, a2) -> False) ->
  sg (es1 ++ es2) [] = sg es1 [] ++ sg es2 [].
Proof.
  intros H. unfold sg at 1. rewrite fold_left_app. fold (sg es1 []). fold (sg es2 (sg es1 [])).
  rewrite <- (app_nil_r (sg es1 [])) at 1. apply sg_frame.
  intros e2 p a2 He2 S2 Hin. apply sg_fst in Hin as [[]|(e1 & a1 & He1 & S1)].
  eapply H; eassumption.
Qed.
End SG.

Definition sel_add (e : entry) : option (path * atom) :=
  match ekind e, et2 e with KSetAdd, Some (VAtom a) => Some (npath (ep1 e), a) | _, _ => None end.
Definition sel_rem (e : entry) : option (path * atom) :=
  match ekind e, et1 e with KSetRem, Some (VAtom a) => Some (npath (ep1 e), a) | _, _ => None end.

Section TD.
Variable conv : ty -> value -> option value.
Variables bidir always : bool.
Variable ops : path -> list value -> list value -> list opcode.
Variables T1 T2 : value.
Notation td := (to_delta conv bidir always ops T1 T2).

Lemma td_sadd es rec : d_sadd (td es rec) = sg sel_add es [].
Proof.
  cbn [to_delta d_sadd]. unfold sg. generalize (@nil (path * list atom)).
  induction es as [|e es IH]; intros acc; cbn; [reflexivity|]. rewrite IH. f_equal.
  unfold sel_add. destruct (ekind e); try reflexivity. destruct (et2 e) as [[a| | | | |]|]; reflexivity.
Qed.
Lemma td_srem es rec : d_srem (td es rec) = sg sel_rem es [].
Proof.
  cbn [to_delta d_srem]. unfold sg. generalize (@nil (path * list atom)).
  induction es as [|e es IH]; intros acc; cbn; [reflexivity|]. rewrite IH. f_equal.
  unfold sel_rem. destruct (ekind e); try reflexivity. destruct (et1 e) as [[a| | | | |]|]; reflexivity.
Qed.

Lemma td_app es1 es2 rec1 rec2 :
  (forall e, In e es1 -> in_paths (removelast (ep1 e)) (rec1 ++ rec2) = in_paths (removelast (ep1 e)) rec1) ->
  (forall e, In e es2 -> in_paths (removelast (ep1 e)) (rec1 ++ rec2) = in_paths (removelast (ep1 e)) rec2) ->
  (forall e1 e2, In e1 es1 -> In e2 es2 -> npath (ep1 e1) <> npath (ep1 e2)) ->
  td (es1 ++ es2) (rec1 ++ rec2) = dapp (td es1 rec1) (td es2 rec2).
Proof.
  intros H1 H2 H3.
  assert (SA : d_sadd (td (es1 ++ es2) (rec1 ++ rec2)) = d_sadd (td es1 rec1) ++ d_sadd (td es2 rec2)).
  { rewrite !td_sadd. apply sg_app. intros e1 e2 p a1 a2 He1 He2 S1 S2. apply (H3 e1 e2 He1 He2).
    unfold sel_add in S1, S2. destruct (ekind e1), (et2 e1) as [[| | | | |]|]; try discriminate.
    destruct (ekind e2), (et2 e2) as [[| | | | |]|]; try discriminate. congruence. }
  assert (SR : d_srem (td (es1 ++ es2) (rec1 ++ rec2)) = d_srem (td es1 rec1) ++ d_srem (td es2 rec2)).
  { rewrite !td_srem. apply sg_app. intros e1 e2 p a1 a2 He1 He2 S1 S2. apply (H3 e1 e2 He1 He2).
    unfold sel_rem in S1, S2. destruct (ekind e1), (et1 e1) as [[| | | | |]|]; try discriminate.
    destruct (ekind e2), (et1 e2) as [[| | | | |]|]; try discriminate. congruence. }
  unfold dapp. rewrite <- SA, <- SR. clear SA SR.
  unfold to_delta. cbn [d_val d_type d_dadd d_drem d_iadd d_irem d_moved d_sadd d_srem d_ops d_bidir].
  rewrite !flat_map_app, map_app.
  f_equal; try reflexivity.
  - f_equal; apply flat_map_ext_in; intros e He; destruct (ekind e); try reflexivity; [rewrite (H1 e He)|rewrite (H2 e He)]; reflexivity.
  - f_equal; apply flat_map_ext_in; intros e He; destruct (ekind e); try reflexivity; [rewrite (H1 e He)|rewrite (H2 e He)]; reflexivity.
  - f_equal; apply flat_map_ext_in; intros e He; destruct (ekind e); try reflexivity; [rewrite (H1 e He)|rewrite (H2 e He)]; reflexivity.
Qed.

End TD.

(* ------------------------------------------------------------------ *)
(* the item lists of the nine passes                                   *)
(* ------------------------------------------------------------------ *)
Definition p1 (d : delta) : list item := map IVal (d_val d).
Definition p2 (d : delta) : list item := map (fun pa => ISet true (fst pa) (snd pa)) (d_sadd d).
Definition p3 (d : delta) : list item := map (fun pa => ISet false (fst pa) (snd pa)) (d_srem d).
Definition p4 (d : delta) : list item := map IType (d_type d).
Definition p5 (d : delta) : list item := map (fun po => IOps (fst po) (snd po)) (d_ops d).
Definition p6 (d : delta) : list item := map (fun pv => IRem (fst pv) (snd pv)) (d_irem d).
Definition p7 (d : delta) : list item := map (fun pv => IAdd true (fst pv) (Some (snd pv))) (d_iadd d).
Definition p8 (d : delta) : list item := map (fun pv => IAdd false (fst pv) (Some (snd pv))) (d_dadd d).
Definition p9 (d : delta) : list item := map (fun pv => IRem (fst pv) (snd pv)) (d_drem d).
Definition base (d : delta) : list (list item) := [p1 d; p2 d; p3 d; p4 d; p5 d; p6 d; p7 d; p8 d; p9 d].
Definition sbase (n : nat) (d : delta) : list (list item) := map (map (istrip n)) (base d).

Fixpoint zipapp {A} (a b : list (list A)) : list (list A) :=
  match a, b with
  | x :: a', y :: b' => (x ++ y) :: zipapp a' b'
  | _, _ => []
  end.

Lemma base_dapp d1 d2 : base (dapp d1 d2) = zipapp (base d1) (base d2).
Proof.
  unfold base, p1, p2, p3, p4, p5, p6, p7, p8, p9, dapp. cbn [d_val d_type d_dadd d_drem d_iadd d_irem d_sadd d_srem d_ops zipapp].
  rewrite !map_app. reflexivity.
Qed.

Lemma sbase_dapp n d1 d2 : sbase n (dapp d1 d2) = zipapp (sbase n d1) (sbase n d2).
Proof.
  unfold sbase. rewrite base_dapp. generalize (base d1) (base d2).
  induction l as [|x l IH]; intros [|y l2]; cbn; try reflexivity. rewrite map_app, IH. reflexivity.
Qed.

(* where the paths of the items come from *)
Definition is_move (x : item) : bool := match x with IRem _ _ | IAdd _ _ _ => true | _ => false end.

Section ItemPaths.
Variable conv : ty -> value -> option value.
Variables bidir always : bool.
Variable ops : path -> list value -> list value -> list opcode.
Variables T1 T2 : value.
Notation td := (to_delta conv bidir always ops T1 T2).

Lemma td_item_paths es rec l x :
  In l (base (td es rec)) -> In x l ->
  (exists e, In e es /\ ipath x = npath (ep1 e) /\ (is_move x = true -> strictk e = true)) \/
  (exists p, In p rec /\ ipath x = npath p /\ is_move x = false).
Proof.
  intros Hl Hx. unfold base in Hl. cbn [In] in Hl.
  destruct Hl as [<-|[<-|[<-|[<-|[<-|[<-|[<-|[<-|[<-|[]]]]]]]]]].
  - left. unfold p1 in Hx. apply in_map_iff in Hx; destruct Hx as (c & <- & Hc). unfold to_delta in Hc; cbn [d_val] in Hc.
    apply in_flat_map in Hc as (e & He & Hc). destruct (ekind e); try (now destruct Hc). destruct Hc as [<-|[]].
    exists e. cbn. split; [exact He|]. split; [reflexivity|discriminate].
  - left. unfold p2 in Hx. apply in_map_iff in Hx; destruct Hx as (pa & <- & Hc). rewrite td_sadd in Hc.
    assert (Hq : In (fst pa) (map fst (sg sel_add es []))) by (apply in_map; exact Hc).
    apply sg_fst in Hq as [[]|(e & a & He & S)]. exists e. cbn. split; [exact He|]. split; [|discriminate].
    unfold sel_add in S. destruct (ekind e), (et2 e) as [[| | | | |]|]; try discriminate. inversion S. reflexivity.
  - left. unfold p3 in Hx. apply in_map_iff in Hx; destruct Hx as (pa & <- & Hc). rewrite td_srem in Hc.
    assert (Hq : In (fst pa) (map fst (sg sel_rem es []))) by (apply in_map; exact Hc).
    apply sg_fst in Hq as [[]|(e & a & He & S)]. exists e. cbn. split; [exact He|]. split; [|discriminate].
    unfold sel_rem in S. destruct (ekind e), (et1 e) as [[| | | | |]|]; try discriminate. inversion S. reflexivity.
  - left. unfold p4 in Hx. apply in_map_iff in Hx; destruct Hx as (c & <- & Hc). unfold to_delta in Hc; cbn [d_type] in Hc.
    apply in_flat_map in Hc as (e & He & Hc). destruct (ekind e); try (now destruct Hc). destruct Hc as [<-|[]].
    exists e. cbn. split; [exact He|]. split; [reflexivity|discriminate].
  - right. unfold p5 in Hx. apply in_map_iff in Hx; destruct Hx as (po & <- & Hc). unfold to_delta in Hc; cbn [d_ops] in Hc.
    apply in_map_iff in Hc as (p & <- & Hp). exists p. cbn. auto.
  - left. unfold p6 in Hx. apply in_map_iff in Hx; destruct Hx as (pv & <- & Hc). unfold to_delta in Hc; cbn [d_irem] in Hc.
    apply in_flat_map in Hc as (e & He & Hc). destruct (ekind e) eqn:K; try (now destruct Hc).
    destruct (in_paths _ _); [now destruct Hc|]. destruct Hc as [<-|[]].
    exists e. cbn. split; [exact He|]. split; [reflexivity|]. intros _. unfold strictk. rewrite K. reflexivity.
  - left. unfold p7 in Hx. apply in_map_iff in Hx; destruct Hx as (pv & <- & Hc). unfold to_delta in Hc; cbn [d_iadd] in Hc.
    apply in_flat_map in Hc as (e & He & Hc). destruct (ekind e) eqn:K; try (now destruct Hc).
    destruct (in_paths _ _); [now destruct Hc|]. destruct Hc as [<-|[]].
    exists e. cbn. split; [exact He|]. split; [reflexivity|]. intros _. unfold strictk. rewrite K. reflexivity.
  - left. unfold p8 in Hx. apply in_map_iff in Hx; destruct Hx as (pv & <- & Hc). unfold to_delta in Hc; cbn [d_dadd] in Hc.
    apply in_flat_map in Hc as (e & He & Hc). destruct (ekind e) eqn:K; try (now destruct Hc). destruct Hc as [<-|[]].
    exists e. cbn. split; [exact He|]. split; [reflexivity|]. intros _. unfold strictk. rewrite K. reflexivity.
  - left. unfold p9 in Hx. apply in_map_iff in Hx; destruct Hx as (pv & <- & Hc). unfold to_delta in Hc; cbn [d_drem] in Hc.
    apply in_flat_map in Hc as (e & He & Hc). destruct (ekind e) eqn:K; try (now destruct Hc). destruct Hc as [<-|[]].
    exists e. cbn. split; [exact He|]. split; [reflexivity|]. intros _. unfold strictk. rewrite K. reflexivity.
Qed.

End ItemPaths.

Lemma npath_app p q : npath (p ++ q) = npath p ++ npath q.
Proof. unfold npath, norm. apply map_app. Qed.
Lemma npath_length p : length (npath p) = length p.
Proof. unfold npath, norm. apply map_length. Qed.
Lemma skipn_npath p r : skipn (length p) (npath (p ++ r)) = npath r.
Proof.
  rewrite npath_app. rewrite <- (npath_length p). rewrite skipn_app, Nat.sub_diag, skipn_all. reflexivity.
Qed.

(** C01 - basic facts about the primitives of the Delta model: list / dict
    assignment and deletion, [upd], [set_new_value], [del_elem], and the
    frame property of every step of [apply] (a step reads neither [post] nor
    [errs]). *)
From Coq Require Import List ZArith NArith Bool Arith Lia.
Import ListNotations.
From DD Require Import Base.PyStr Base.Value Base.ValueFacts Path.PathModel Diff.Tree Diff.DiffModel
  Diff.DiffFacts Delta.DeltaModel.

(* ---- lists ---- *)
Definition repl {A} (i : nat) (v : A) (xs : list A) : list A := firstn i xs ++ v :: skipn (S i) xs.

Lemma repl_length {A} i (v : A) xs : i < length xs -> length (repl i v xs) = length xs.
Proof.
  intros H. unfold repl. rewrite app_length, firstn_length. cbn [length]. rewrite skipn_length. lia.
Qed.

Lemma repl_nth_same {A} i (v : A) xs : i < length xs -> nth_error (repl i v xs) i = Some v.
Proof.
  intros H. unfold repl. rewrite nth_error_app2; rewrite firstn_length; [|lia].
  replace (i - Nat.min i (length xs)) with 0 by lia. reflexivity.
Qed.

Lemma repl_nth_other {A} i j (v : A) xs : i < length xs -> i <> j -> nth_error (repl i v xs) j = nth_error xs j.
Proof.
  intros L2 H. unfold repl. destruct (Nat.lt_ge_cases j i) as [L|L].
  - rewrite nth_error_app1 by (rewrite firstn_length; lia). apply nth_error_firstn'. exact L.
  - rewrite nth_error_app2; rewrite firstn_length; [|lia].
    replace (j - Nat.min i (length xs)) with (S (j - S i)) by lia. cbn [nth_error].
    rewrite nth_error_skipn. f_equal. lia.
Qed.

Lemma repl_repl {A} i (v w : A) xs : i < length xs -> repl i w (repl i v xs) = repl i w xs.
Proof.
  intros H. unfold repl.
  rewrite firstn_app, firstn_firstn, firstn_length.
  replace (Nat.min i i) with i by lia. replace (i - Nat.min i (length xs)) with 0 by lia.
  cbn [firstn]. rewrite app_nil_r. f_equal. f_equal.
  rewrite skipn_app, firstn_length. rewrite skipn_all2 by (rewrite firstn_length; lia).
  replace (S i - Nat.min i (length xs)) with 1 by lia. reflexivity.
Qed.

Lemma repl_same {A} i (v : A) xs : nth_error xs i = Some v -> repl i v xs = xs.
Proof.
  revert i; induction xs as [|x xs IH]; intros [|i] H; cbn in *; try discriminate.
  - inversion H; reflexivity.
  - unfold repl in *. cbn. f_equal. apply IH. exact H.
Qed.

Lemma list_set_lt xs i v : i < length xs -> list_set xs i v = Some (repl i v xs).
Proof.
  revert i; induction xs as [|x xs IH]; intros i H; cbn in H; [lia|].
  destruct i as [|i]; cbn; [reflexivity|]. rewrite IH by lia. reflexivity.
Qed.

Lemma list_set_len xs v : list_set xs (length xs) v = Some (xs ++ [v]).
Proof. induction xs as [|x xs IH]; cbn; [reflexivity|]. rewrite IH. reflexivity. Qed.

Lemma list_del_lt xs i : i < length xs -> list_del xs i = Some (firstn i xs ++ skipn (S i) xs).
Proof.
  revert i; induction xs as [|x xs IH]; intros i H; cbn in H; [lia|].
  destruct i as [|i]; cbn; [reflexivity|]. rewrite IH by lia. reflexivity.
Qed.

Lemma list_del_last xs x : list_del (xs ++ [x]) (length xs) = Some xs.
Proof. induction xs as [|y xs IH]; cbn; [reflexivity|]. rewrite IH. reflexivity. Qed.

Definition ik (i : nat) : atom := AInt (Z.of_nat i).

Lemma list_index_ik xs i : list_index xs (ik i) = Some i.
Proof.
  unfold list_index, ik. cbn [int_of_atom].
  assert (H : (Z.of_nat i <? 0)%Z = false) by (apply Z.ltb_ge; lia).
  rewrite H. rewrite Nat2Z.id. reflexivity.
Qed.

Lemma get_item_list_ik xs i : get_item (VList xs) (ik i) = nth_error xs i.
Proof. apply (get_item_idx_list xs i). Qed.
Lemma get_item_tuple_ik xs i : get_item (VTuple xs) (ik i) = nth_error xs i.
Proof. apply (get_item_idx_tuple xs i). Qed.

Lemma set_item_list_ik xs i v : i < length xs -> set_item (VList xs) (ik i) v = Some (VList (repl i v xs)).
Proof. intros H. unfold set_item. rewrite list_index_ik, list_set_lt by exact H. reflexivity. Qed.

Lemma set_item_list_append xs v : set_item (VList xs) (ik (length xs)) v = Some (VList (xs ++ [v])).
Proof. unfold set_item. rewrite list_index_ik, list_set_len. reflexivity. Qed.

Lemma del_item_list_ik xs i : i < length xs ->
  del_item (VList xs) (ik i) = Some (VList (firstn i xs ++ skipn (S i) xs)).
Proof.
  intros H. unfold del_item. rewrite list_index_ik.
  apply Nat.ltb_lt in H as H'. rewrite H'. rewrite list_del_lt by exact H. reflexivity.
Qed.

(* ---- dicts ---- *)
Lemma dict_set_keys kvs k v : mem_atom k (map fst kvs) = true -> map fst (dict_set kvs k v) = map fst kvs.
Proof.
  unfold mem_atom. induction kvs as [|[k' v'] r IH]; cbn; [discriminate|].
  rewrite (py_eq_sym k k'). destruct (py_eq k' k); cbn; [reflexivity|].
  intros H. rewrite IH by exact H. reflexivity.
Qed.

Lemma dict_set_new kvs k v : mem_atom k (map fst kvs) = false -> dict_set kvs k v = kvs ++ [(k, v)].
Proof.
  unfold mem_atom. induction kvs as [|[k' v'] r IH]; cbn; [reflexivity|].
  rewrite (py_eq_sym k k'). destruct (py_eq k' k); cbn; [discriminate|].
  intros H. rewrite IH by exact H. reflexivity.
Qed.

Lemma assoc_dict_set_same kvs k v : assoc k (dict_set kvs k v) = Some v.
Proof.
  induction kvs as [|[k' v'] r IH]; cbn.
  - rewrite py_eq_refl. reflexivity.
  - destruct (py_eq k' k) eqn:E; cbn; rewrite E; [reflexivity|exact IH].
Qed.

Lemma assoc_dict_set_other kvs k k2 v : py_eq k k2 = false -> assoc k2 (dict_set kvs k v) = assoc k2 kvs.
Proof.
  intros N. induction kvs as [|[k' v'] r IH]; cbn.
  - rewrite N. reflexivity.
  - destruct (py_eq k' k) eqn:E; cbn.
    + destruct (py_eq k' k2) eqn:E2; [|reflexivity].
      exfalso. rewrite (py_eq_trans k k' k2) in N; [discriminate|rewrite py_eq_sym; exact E|exact E2].
    + destruct (py_eq k' k2); [reflexivity|exact IH].
Qed.

Lemma dict_set_set kvs k v w : dict_set (dict_set kvs k v) k w = dict_set kvs k w.
Proof.
  induction kvs as [|[k' v'] r IH]; cbn.
  - rewrite py_eq_refl. reflexivity.
  - destruct (py_eq k' k) eqn:E; cbn; rewrite E; [reflexivity|]. rewrite IH. reflexivity.
Qed.

Lemma dict_set_same kvs k v : assoc k kvs = Some v -> dict_set kvs k v = kvs.
Proof.
  induction kvs as [|[k' v'] r IH]; cbn; [discriminate|].
  destruct (py_eq k' k); [intros H; inversion H; reflexivity|].
  intros H. rewrite IH by exact H. reflexivity.
Qed.

(* ------------------------------------------------------------------ *)
(* the steps of [apply] as one item type                               *)
(* ------------------------------------------------------------------ *)
Inductive item :=
| IVal (c : vchange)
| IType (c : tchange)
| ISet (un : bool) (p : path) (xs : list atom)      (* un = true: union, false: difference *)
| IOps (p : path) (os : list opv)
| IRem (p : path) (v : value)
| IAdd (ins : bool) (p : path) (v : option value)
| IPost (p : path).

Definition ipath (x : item) : path :=
  match x with
  | IVal c => vc_path c
  | IType c => tc_path c
  | ISet _ p _ | IOps p _ | IRem p _ | IAdd _ p _ | IPost p => p
  end.

(* an item with its paths rewritten *)
Definition imap (f : path -> path) (x : item) : item :=
  match x with
  | IVal c => IVal (mkVC (f (vc_path c)) (option_map f (vc_new_path c)) (vc_old c) (vc_new c))
  | IType c => IType (mkTC (f (tc_path c)) (option_map f (tc_new_path c)) (tc_old_ty c) (tc_new_ty c) (tc_old c) (tc_new c))
  | ISet u p xs => ISet u (f p) xs
  | IOps p os => IOps (f p) os
  | IRem p v => IRem (f p) v
  | IAdd i p v => IAdd i (f p) v
  | IPost p => IPost (f p)
  end.
(* the same item addressed relative to the child reached by the first key *)
Definition irestrict : item -> item := imap (@tl pkey).
Definition istrip (n : nat) : item -> item := imap (@skipn pkey n).

Lemma ipath_imap f x : ipath (imap f x) = f (ipath x).
Proof. destruct x; reflexivity. Qed.

Lemma imap_imap f g x : imap f (imap g x) = imap (fun p => f (g p)) x.
Proof.
  destruct x as [c|c| | | | |]; cbn; try reflexivity.
  - destruct (vc_new_path c); reflexivity.
  - destruct (tc_new_path c); reflexivity.
Qed.

Lemma imap_ext f g x : (forall p, f p = g p) -> imap f x = imap g x.
Proof.
  intros E. destruct x as [c|c| | | | |]; cbn; rewrite ?E; try reflexivity.
  - destruct (vc_new_path c); cbn; rewrite ?E; reflexivity.
  - destruct (tc_new_path c); cbn; rewrite ?E; reflexivity.
Qed.

Lemma imap_id x : imap (fun p => p) x = x.
Proof.
  destruct x as [c|c| | | | |]; cbn; try reflexivity.
  - destruct c as [p [np|] o n]; reflexivity.
  - destruct c as [p [np|] a b o n]; reflexivity.
Qed.

Section Steps.
Variable conv : ty -> value -> option value.
Variable bidir : bool.

Definition vc_step (s : st) (c : vchange) : st :=
  match current_at s (vc_path c) with
  | Some cur => verify bidir (vc_old c) cur (set_new_value s (vc_path c) (vc_new c))
  | None => err s
  end.
Definition tc_step (s : st) (c : tchange) : st :=
  match current_at s (tc_path c) with
  | Some cur =>
      match (match tc_new c with Some v => Some v | None => conv (tc_new_ty c) cur end) with
      | Some nv => verify bidir (tc_old c) cur (set_new_value s (tc_path c) nv)
      | None => err s
      end
  | None => err s
  end.
Definition upd_step (s : st) (p : path) (f : value -> option value) : st :=
  match upd (root s) p f with
  | Some r' => with_root s r'
  | None => err s
  end.
Definition ops_fun (os : list opv) (o : value) : option value :=
  match o with
  | VList xs => Some (VList (transformed xs os))
  | VTuple xs => Some (VTuple (transformed xs os))
  | _ => None
  end.
Definition post_fun (o : value) : option value :=
  match o with VList xs => Some (VTuple xs) | VTuple xs => Some (VTuple xs) | _ => None end.

Definition istep (s : st) (x : item) : st :=
  match x with
  | IVal c => vc_step s c
  | IType c => tc_step s c
  | ISet true p xs => upd_step s p (fun o => set_union o xs)
  | ISet false p xs => upd_step s p (fun o => set_difference o xs)
  | IOps p os => upd_step s p (ops_fun os)
  | IRem p v => remove_one bidir s p v
  | IAdd i p v => add_one i s p v
  | IPost p => upd_step s p post_fun
  end.

Definition irun (l : list item) (s : st) : st := fold_left istep l s.

Lemma do_values_changed_irun l s : do_values_changed bidir l s = irun (map IVal l) s.
Proof. unfold do_values_changed, irun. revert s; induction l as [|c l IH]; intros s; cbn; [reflexivity|]. apply IH. Qed.
Lemma do_type_changes_irun l s : do_type_changes conv bidir l s = irun (map IType l) s.
Proof. unfold do_type_changes, irun. revert s; induction l as [|c l IH]; intros s; cbn; [reflexivity|]. apply IH. Qed.
Lemma do_set_union_irun l s : do_set_items set_union l s = irun (map (fun pi => ISet true (fst pi) (snd pi)) l) s.
Proof. unfold do_set_items, irun. revert s; induction l as [|c l IH]; intros s; cbn; [reflexivity|]. apply IH. Qed.
Lemma do_set_difference_irun l s : do_set_items set_difference l s = irun (map (fun pi => ISet false (fst pi) (snd pi)) l) s.
Proof. unfold do_set_items, irun. revert s; induction l as [|c l IH]; intros s; cbn; [reflexivity|]. apply IH. Qed.
Lemma do_opcodes_irun l s : do_opcodes l s = irun (map (fun po => IOps (fst po) (snd po)) l) s.
Proof. unfold do_opcodes, irun. revert s; induction l as [|c l IH]; intros s; cbn; [reflexivity|]. apply IH. Qed.
Lemma do_post_irun s : do_post s = irun (map IPost (post s)) s.
Proof. unfold do_post, irun. generalize (post s). intros l. revert s; induction l as [|c l IH]; intros s; cbn; [reflexivity|]. apply IH. Qed.
Lemma fold_remove_irun l s :
  fold_left (fun s pv => remove_one bidir s (fst pv) (snd pv)) l s = irun (map (fun pv => IRem (fst pv) (snd pv)) l) s.
Proof. unfold irun. revert s; induction l as [|c l IH]; intros s; cbn; [reflexivity|]. apply IH. Qed.
Lemma fold_add_irun ins (l : list (path * option value)) s :
  fold_left (fun s pv => add_one ins s (fst pv) (snd pv)) l s = irun (map (fun pv => IAdd ins (fst pv) (snd pv)) l) s.
Proof. unfold irun. revert s; induction l as [|c l IH]; intros s; cbn; [reflexivity|]. apply IH. Qed.

Lemma irun_app l1 l2 s : irun (l1 ++ l2) s = irun l2 (irun l1 s).
Proof. unfold irun. apply fold_left_app. Qed.

(* ---- frame: a step reads only the root ---- *)
Definition frame (po : list path) (e : nat) (s : st) : st := mkSt (root s) (po ++ post s) (e + errs s).
Definition framed (F : st -> st) : Prop := forall r po e, F (mkSt r po e) = frame po e (F (mkSt r [] 0)).

Lemma frame_err po e s : frame po e (err s) = err (frame po e s).
Proof. unfold frame, err. cbn. f_equal. lia. Qed.

Lemma framed_id : framed (fun s => s).
Proof. intros r po e. unfold frame. cbn. rewrite app_nil_r, Nat.add_0_r. reflexivity. Qed.
Lemma framed_err : framed err.
Proof. intros r po e. unfold frame, err. cbn. rewrite app_nil_r. f_equal. lia. Qed.

Lemma framed_comp F G : framed F -> framed G -> framed (fun s => G (F s)).
Proof.
  intros HF HG r po e. rewrite HF. destruct (F (mkSt r [] 0)) as [r' po' e'].
  unfold frame at 1. cbn [root post errs]. rewrite HG. rewrite (HG r' po' e').
  unfold frame. cbn [root post errs]. rewrite app_assoc, Nat.add_assoc. reflexivity.
Qed.

(* a function of the root choosing among framed continuations *)
Lemma framed_case {A} (g : value -> A) (F : A -> st -> st) :
  (forall a, framed (F a)) -> framed (fun s => F (g (root s)) s).
Proof. intros H r po e. cbn. apply H. Qed.

Lemma framed_verify e0 c : framed (verify bidir e0 c).
Proof.
  unfold verify. destruct bidir; [|apply framed_id].
  destruct e0 as [x|]; [|apply framed_err]. destruct (py_eqv x c); [apply framed_id|apply framed_err].
Qed.

Lemma framed_set_new_value p v : framed (fun s => set_new_value s p v).
Proof.
  intros r po e. unfold set_new_value, with_root, frame. destruct p as [|k p'].
  - cbn. rewrite app_nil_r, Nat.add_0_r. reflexivity.
  - cbn [root post errs]. destruct (resolve r (removelast (k :: p'))) as [obj|].
    + destruct (upd r _ _) as [r'|].
      * cbn. destruct (is_tuple obj); cbn; rewrite ?app_nil_r, Nat.add_0_r; reflexivity.
      * unfold err. cbn. rewrite app_nil_r. f_equal. lia.
    + unfold err. cbn. rewrite app_nil_r. f_equal. lia.
Qed.

Lemma framed_del_elem op k : framed (fun s => del_elem s op k).
Proof.
  intros r po e. unfold del_elem, frame. cbn [root post errs]. destruct (resolve r op) as [obj|].
  - destruct (upd r _ _) as [r'|].
    + cbn. destruct (is_tuple obj); cbn; rewrite ?app_nil_r, Nat.add_0_r; reflexivity.
    + unfold err. cbn. rewrite app_nil_r. f_equal. lia.
  - unfold err. cbn. rewrite app_nil_r. f_equal. lia.
Qed.

Lemma framed_upd_step p f : framed (fun s => upd_step s p f).
Proof.
  intros r po e. unfold upd_step, with_root, err, frame. cbn [root post errs].
  destruct (upd r p f); cbn; rewrite app_nil_r; f_equal; lia.
Qed.

Lemma framed_vc_step c : framed (fun s => vc_step s c).
Proof.
  unfold vc_step, current_at.
  apply (framed_case (fun r => resolve r (vc_path c))
           (fun o s => match o with Some cur => verify bidir (vc_old c) cur (set_new_value s (vc_path c) (vc_new c)) | None => err s end)).
  intros [cur|]; [|apply framed_err].
  apply (framed_comp (fun s => set_new_value s (vc_path c) (vc_new c))); [apply framed_set_new_value|apply framed_verify].
Qed.

Lemma framed_tc_step c : framed (fun s => tc_step s c).
Proof.
  unfold tc_step, current_at.
  apply (framed_case (fun r => resolve r (tc_path c))
           (fun o s => match o with
                       | Some cur => match (match tc_new c with Some v => Some v | None => conv (tc_new_ty c) cur end) with
                                     | Some nv => verify bidir (tc_old c) cur (set_new_value s (tc_path c) nv)
                                     | None => err s end
                       | None => err s end)).
  intros [cur|]; [|apply framed_err].
  destruct (match tc_new c with Some v => Some v | None => conv (tc_new_ty c) cur end) as [nv|]; [|apply framed_err].
  apply (framed_comp (fun s => set_new_value s (tc_path c) nv)); [apply framed_set_new_value|apply framed_verify].
Qed.

Lemma framed_remove_one p v : framed (fun s => remove_one bidir s p v).
Proof.
  unfold remove_one. destruct p as [|k p']; [apply framed_id|].
  set (op := removelast (k :: p')). set (kk := key_atom (last (k :: p') (PIdx 0))).
  apply (framed_case (fun r => resolve r op)
    (fun o s => match o with
       | None => err s
       | Some obj =>
          let cur := get_item obj kk in
          let look := match cur with Some c => negb (py_eqv c v) | None => true end in
          match obj with
          | VList xs =>
              if look then
                match int_of_atom kk with
                | Some z => match find_closest xs (Z.to_nat z) v with
                            | Some i => verify bidir (Some v) v (del_elem s op (AInt (Z.of_nat i)))
                            | None => s end
                | None => s end
              else verify bidir (Some v) v (del_elem s op kk)
          | _ => match cur with Some c => verify bidir (Some v) c (del_elem s op kk) | None => s end
          end
       end)).
  intros [obj|]; [|apply framed_err]. cbv zeta.
  assert (D : forall k2 c, framed (fun s => verify bidir (Some v) c (del_elem s op k2))).
  { intros k2 c. apply (framed_comp (fun s => del_elem s op k2)); [apply framed_del_elem|apply framed_verify]. }
  destruct obj; try (destruct (get_item _ kk); [apply D|apply framed_id]).
  destruct (match get_item (VList xs) kk with Some c => negb (py_eqv c v) | None => true end); [|apply D].
  destruct (int_of_atom kk); [|apply framed_id]. destruct (find_closest _ _ _); [apply D|apply framed_id].
Qed.

Lemma framed_add_one ins p v : framed (fun s => add_one ins s p v).
Proof.
  unfold add_one. set (nv := match v with Some x => x | None => VAtom ANone end).
  destruct p as [|k p'].
  - intros r po e. unfold with_root, frame. cbn. rewrite app_nil_r, Nat.add_0_r. reflexivity.
  - set (op := removelast (k :: p')). set (kk := key_atom (last (k :: p') (PIdx 0))).
    apply (framed_case (fun r => resolve r op)
      (fun o s => match o with
        | None => err s
        | Some obj =>
          set_new_value
            (match obj, ins with
             | VList xs, true =>
                match int_of_atom kk with
                | Some z => if Z.ltb z (Z.of_nat (length xs)) && Z.leb 0 z
                            then match upd (root s) op (fun _ => Some (VList (list_insert xs (Z.to_nat z) (VAtom ANone)))) with
                                 | Some r' => with_root s r'
                                 | None => err s
                                 end
                            else s
                | None => s
                end
             | _, _ => s
             end) (k :: p') nv
        end)).
    intros [obj|]; [|apply framed_err].
    assert (S0 : framed (fun s => set_new_value s (k :: p') nv)) by apply framed_set_new_value.
    destruct obj; try exact S0. destruct ins; [|exact S0].
    destruct (int_of_atom kk); [|exact S0]. destruct (_ && _); [|exact S0].
    apply (framed_comp (fun s => upd_step s op (fun _ => Some (VList (list_insert xs (Z.to_nat z) (VAtom ANone)))))
             (fun s => set_new_value s (k :: p') nv)); [apply framed_upd_step|exact S0].
Qed.

Lemma framed_istep x : framed (fun s => istep s x).
Proof.
  destruct x as [c|c|[|] p xs|p os|p v|i p v|p]; cbn [istep].
  - apply framed_vc_step.
  - apply framed_tc_step.
  - apply framed_upd_step.
  - apply framed_upd_step.
  - apply framed_upd_step.
  - apply framed_remove_one.
  - apply framed_add_one.
  - apply framed_upd_step.
Qed.

Lemma framed_irun l : framed (irun l).
Proof.
  induction l as [|x l IH].
  - apply framed_id.
  - change (framed (fun s => irun l (istep s x))). apply (framed_comp (fun s => istep s x)); [apply framed_istep|exact IH].
Qed.

End Steps.

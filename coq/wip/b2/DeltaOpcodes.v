(** C01 - the entries and the recorded opcodes of an all-atom sequence under difflib
    alignment: shape of the stray in-place changes, and the rebuild. *)
From Coq Require Import List ZArith NArith Bool Arith Lia Permutation Sorted.
Import ListNotations.
From DD Require Import Base.PyStr Base.Value Base.ValueFacts Path.PathModel Diff.Tree Diff.DiffModel
  Diff.DiffFacts Diff.DiffFaithful Delta.DeltaModel DeltaB.DeltaFacts DeltaB.DeltaLocal DeltaB.DeltaEntries
  DeltaB.DeltaStruct DeltaB.DeltaRun DeltaB.DeltaGuard DeltaB.DeltaGood DeltaB.DeltaNodes DeltaB.DeltaCompose
  DeltaB.DeltaListNode DeltaB.DeltaListSim DeltaB.DeltaSets DeltaB.DeltaSeq DeltaB.DeltaSeqNodes.

(* ---- subsequences ---- *)
Inductive subl {A} : list A -> list A -> Prop :=
| subl_nil l : subl [] l
| subl_cons x l1 l2 : subl l1 l2 -> subl (x :: l1) (x :: l2)
| subl_skip x l1 l2 : subl l1 l2 -> subl l1 (x :: l2).

Lemma subl_refl {A} (l : list A) : subl l l.
Proof. induction l; constructor; assumption. Qed.

Lemma subl_app {A} (a1 a2 b1 b2 : list A) : subl a1 b1 -> subl a2 b2 -> subl (a1 ++ a2) (b1 ++ b2).
Proof.
  induction 1; intros H2; cbn.
  - induction l as [|x l IH]; cbn; [exact H2|]. apply subl_skip. exact IH.
  - apply subl_cons. apply IHsubl. exact H2.
  - apply subl_skip. apply IHsubl. exact H2.
Qed.

Lemma subl_In {A} (l1 l2 : list A) x : subl l1 l2 -> In x l1 -> In x l2.
Proof. induction 1; cbn; intros H0; [destruct H0| |]; [destruct H0 as [->|H0]; [left; reflexivity|right; auto]|right; auto]. Qed.

Lemma subl_flat_map {A B} (f g : A -> list B) l : (forall x, In x l -> subl (f x) (g x)) -> subl (flat_map f l) (flat_map g l).
Proof.
  induction l as [|x l IH]; intros H; cbn; [constructor|].
  apply subl_app; [apply H; left; reflexivity|apply IH; intros y Hy; apply H; right; exact Hy].
Qed.

Lemma subl_sorted l1 l2 : subl l1 l2 -> StronglySorted lt l2 -> StronglySorted lt l1.
Proof.
  induction 1; intros S; [constructor| |].
  - inversion S as [|? ? S' F]; subst. constructor; [apply IHsubl; exact S'|].
    apply Forall_forall. intros y Hy. eapply Forall_forall in F; [exact F|]. eapply subl_In; eassumption.
  - inversion S; subst. apply IHsubl. assumption.
Qed.

Lemma sorted_NoDup l : StronglySorted lt l -> NoDup l.
Proof.
  induction 1 as [|a l S IH F]; constructor; [|exact IH].
  intros H. eapply Forall_forall in F; [|exact H]. lia.
Qed.

Lemma sorted_app l1 l2 : StronglySorted lt l1 -> StronglySorted lt l2 -> (forall a b, In a l1 -> In b l2 -> a < b) ->
  StronglySorted lt (l1 ++ l2).
Proof.
  induction 1 as [|a l S IH F]; intros S2 H; cbn; [exact S2|].
  constructor.
  - apply IH; [exact S2|]. intros x y Hx Hy. apply H; [right; exact Hx|exact Hy].
  - apply Forall_app. split; [exact F|]. apply Forall_forall. intros y Hy. apply H; [left; reflexivity|exact Hy].
Qed.

(* ---- slices ---- *)
Lemma slice_nth_ext {A} (l1 l2 : list A) a b :
  (forall k, a <= k < b -> nth_error l1 k = nth_error l2 k) -> slice l1 a b = slice l2 a b.
Proof.
  intros H. apply list_eq_nth0. intros k. destruct (Nat.lt_ge_cases k (b - a)) as [Hk|Hk].
  - rewrite !nth_error_slice by exact Hk. apply H. lia.
  - rewrite (proj2 (nth_error_None _ _)), (proj2 (nth_error_None _ _)); [reflexivity| |];
      (eapply Nat.le_trans; [apply slice_length_le|exact Hk]).
Qed.

Lemma skipn_skipn' {A} (l : list A) a b : skipn a (skipn b l) = skipn (a + b) l.
Proof.
  revert l; induction b as [|b IH]; intros l; [rewrite Nat.add_0_r; reflexivity|].
  destruct l as [|x l]; [rewrite !skipn_nil; reflexivity|]. rewrite Nat.add_succ_r. cbn [skipn]. apply IH.
Qed.

Lemma slice_skipn {A} (l : list A) a b : a <= b -> slice l a b ++ skipn b l = skipn a l.
Proof.
  intros H. unfold slice. rewrite <- (firstn_skipn (b - a) (skipn a l)) at 2. f_equal.
  rewrite skipn_skipn'. f_equal. lia.
Qed.

Lemma slice_same {A} (l : list A) a : slice l a a = [].
Proof. unfold slice. rewrite Nat.sub_diag. reflexivity. Qed.

Definition sel3 (e : entry) : bool := match ekind e with KValue | KType | KIterRem => true | _ => false end.
Definition kvt (e : entry) : bool := match ekind e with KValue | KType => true | _ => false end.
Definition t1s (es : list entry) : list nat := map eidx (filter sel3 es).

Lemma t1s_app a b : t1s (a ++ b) = t1s a ++ t1s b.
Proof. unfold t1s. rewrite filter_app, map_app. reflexivity. Qed.

Section OpEntries.
Variable udiff : pystr -> pystr -> pystr.
Variable q : path.
Variable X : list value.       (* the whole t1 sequence *)

Definition seq_kind (e : entry) : Prop :=
  ekind e = KValue \/ ekind e = KType \/ ekind e = KIterRem \/ ekind e = KIterAdd \/ ekind e = KIterMoved.

Definition okE (lo hi : nat) (e : entry) : Prop :=
  (exists k, ep1 e = snoc q (PIdx k)) /\ seq_kind e /\
  (sel3 e = true -> lo <= eidx e < hi /\ exists a, et1 e = Some (VAtom a) /\ nth_error X (eidx e) = Some (VAtom a)) /\
  (kvt e = true \/ ekind e = KIterAdd -> exists b, et2 e = Some (VAtom b)).

Lemma okE_weaken lo hi lo' hi' e : lo' <= lo -> hi <= hi' -> okE lo hi e -> okE lo' hi' e.
Proof.
  intros H1 H2 (A & B & C & D0). split; [exact A|]. split; [exact B|]. split; [|exact D0].
  intros S. destruct (C S) as [R0 R1]. split; [lia|exact R1].
Qed.

Lemma diff_atom_shape a b p1 p2 :
  diff_atom udiff nos a b p1 p2 = [] \/
  exists k d, (k = KValue \/ k = KType) /\ diff_atom udiff nos a b p1 p2 = [mkEntry k p1 p2 (Some (VAtom a)) (Some (VAtom b)) d].
Proof.
  unfold diff_atom. cbn [nos]. destruct (negb (ty_eqb (atom_ty a) (atom_ty b))).
  - right. exists KType, None. auto.
  - destruct a, b; try (destruct (py_eq _ _); [left; reflexivity|right; eexists KValue, _; split; [left; reflexivity|reflexivity]]).
    + destruct (diff_str udiff false s s0) as [[|] d]; [right; exists KValue, d; auto|left; reflexivity].
    + destruct (diff_str udiff true s s0) as [[|] d]; [right; exists KValue, d; auto|left; reflexivity].
Qed.

Lemma added_ok ys j lo hi : forallb is_atom ys = true -> Forall (okE lo hi) (added_from nos ys j q q) /\ t1s (added_from nos ys j q q) = [].
Proof.
  intros Ay. rewrite (added_from_eq q). split.
  - apply Forall_forall. intros e He. apply in_map_iff in He as ([k y] & <- & Hk). apply in_combine_seq in Hk as [_ Hk].
    apply nth_error_In in Hk. eapply forallb_forall in Ay; [|exact Hk]. destruct y as [b| | | | |]; try discriminate.
    split; [exists k; reflexivity|]. split; [right; right; right; left; reflexivity|]. split; [discriminate|]. intros _. exists b. reflexivity.
  - unfold t1s. rewrite filter_nil; [reflexivity|]. intros e He. apply in_map_iff in He as (p & <- & _). reflexivity.
Qed.

Lemma removed_ok sx i : forallb is_atom sx = true ->
  (forall k x, nth_error sx k = Some x -> nth_error X (i + k) = Some x) ->
  Forall (okE i (i + length sx)) (removed_from nos sx i q q) /\ StronglySorted lt (t1s (removed_from nos sx i q q)) /\
  (forall k, In k (t1s (removed_from nos sx i q q)) -> i <= k < i + length sx).
Proof.
  intros Ax HX. rewrite (removed_from_eq q). split; [|split].
  - apply Forall_forall. intros e He. apply in_map_iff in He as ([k x] & <- & Hk). apply in_combine_seq in Hk as [Hr Hk].
    pose proof (nth_error_In _ _ Hk) as Hin. eapply forallb_forall in Ax; [|exact Hin]. destruct x as [a| | | | |]; try discriminate.
    split; [exists k; reflexivity|]. split; [right; right; left; reflexivity|]. split; [|intros [Z|Z]; discriminate].
    intros _. unfold rem_entry. cbn [fst snd]. rewrite eidx_snoc. split; [lia|]. exists a. split; [reflexivity|].
    specialize (HX (k - i) _ Hk). replace (i + (k - i)) with k in HX by lia. exact HX.
  - unfold t1s. clear Ax HX. revert i. induction sx as [|x sx IH]; intros i; cbn; [constructor|].
    unfold rem_entry at 1. cbn [fst snd]. rewrite eidx_snoc. constructor; [apply IH|].
    apply Forall_forall. intros k Hk. apply in_map_iff in Hk as (e & <- & He). apply filter_In in He as [He _].
    apply in_map_iff in He as ([k' x'] & <- & Hk'). apply in_combine_seq in Hk' as [Hr _]. unfold rem_entry. cbn [fst snd]. rewrite eidx_snoc. lia.
  - intros k Hk. unfold t1s in Hk. apply in_map_iff in Hk as (e & <- & He). apply filter_In in He as [He _].
    apply in_map_iff in He as ([k' x'] & <- & Hk'). apply in_combine_seq in Hk' as [Hr _]. unfold rem_entry. cbn [fst snd]. rewrite eidx_snoc. exact Hr.
Qed.

Lemma pairs_ok sx : forall sy i j, forallb is_atom sx = true -> forallb is_atom sy = true ->
  (forall k x, nth_error sx k = Some x -> nth_error X (i + k) = Some x) ->
  Forall (okE i (i + length sx)) (pairs_leaf udiff nos sx sy i j q q) /\
  StronglySorted lt (t1s (pairs_leaf udiff nos sx sy i j q q)) /\
  (forall k, In k (t1s (pairs_leaf udiff nos sx sy i j q q)) -> i <= k < i + length sx).
Proof.
  induction sx as [|x sx IH]; intros sy i j Ax Ay HX.
  - assert (pairs_leaf udiff nos [] sy i j q q = added_from nos sy j q q) by (destruct sy; reflexivity). rewrite H.
    destruct (added_ok sy j i (i + 0) Ay) as [A B]. rewrite B. split; [exact A|]. split; [constructor|intros k []].
  - destruct sy as [|y sy]; [apply removed_ok; assumption|].
    cbn [pairs_leaf length]. cbn in Ax, Ay. apply andb_true_iff in Ax as [Hx Ax], Ay as [Hy Ay].
    destruct x as [a| | | | |]; try discriminate Hx. destruct y as [b| | | | |]; try discriminate Hy.
    destruct (IH sy (S i) (S j) Ax Ay) as (I1 & I2 & I3).
    { intros k x Hk. specialize (HX (S k) x Hk). rewrite Nat.add_succ_r in HX. exact HX. }
    set (hd := if negb (i =? j) && py_eq_leaf (VAtom a) (VAtom b) then _ else _).
    assert (HH : Forall (okE i (S i)) hd /\ (t1s hd = [] \/ t1s hd = [i])).
    { unfold hd. destruct (negb (i =? j) && py_eq_leaf (VAtom a) (VAtom b)).
      - cbn [report nos]. split; [|left; reflexivity]. constructor; [|constructor].
        split; [exists i; reflexivity|]. split; [right; right; right; right; reflexivity|]. split; [discriminate|]. intros [Z|Z]; discriminate.
      - cbn [diff_leaf]. destruct (diff_atom_shape a b (snoc q (PIdx i)) (snoc q (PIdx j))) as [->|(k & d & Hk & ->)].
        + split; [constructor|left; reflexivity].
        + split.
          * constructor; [|constructor]. split; [exists i; reflexivity|]. split; [destruct Hk as [-> | ->]; [left|right; left]; reflexivity|].
            split.
            -- intros _. rewrite eidx_snoc. split; [lia|]. exists a. split; [reflexivity|]. specialize (HX 0 _ eq_refl). rewrite Nat.add_0_r in HX. exact HX.
            -- intros _. exists b. reflexivity.
          * right. unfold t1s. cbn [filter]. unfold sel3. cbn [ekind]. destruct Hk as [-> | ->]; cbn [map]; rewrite eidx_snoc; reflexivity. }
    destruct HH as [H1 H2]. split; [|split].
    + apply Forall_app. split.
      * eapply Forall_impl; [|exact H1]. intros e. apply okE_weaken; lia.
      * eapply Forall_impl; [|exact I1]. intros e. apply okE_weaken; lia.
    + rewrite t1s_app. apply sorted_app; [destruct H2 as [-> | ->]; repeat constructor|exact I2|].
      intros x y Hx0 Hy0. apply I3 in Hy0. destruct H2 as [E0|E0]; rewrite E0 in Hx0; [destruct Hx0|]. destruct Hx0 as [<-|[]]. lia.
    + intros k Hk. rewrite t1s_app in Hk. apply in_app_or in Hk as [Hk|Hk].
      * destruct H2 as [E0|E0]; rewrite E0 in Hk; [destruct Hk|]. destruct Hk as [<-|[]]. lia.
      * apply I3 in Hk. lia.
Qed.

End OpEntries.

Definition clean (os : list opcode) (k : nat) : Prop :=
  forall o, In o os -> otag o = OEqual -> ~ (oi1 o <= k < oi2 o).

Lemma tiles_bounds os : forall i j N M, tiles os i j N M ->
  i <= N /\ j <= M /\ forall o, In o os -> i <= oi1 o /\ oi1 o <= oi2 o /\ oi2 o <= N /\ j <= oj1 o /\ oj1 o <= oj2 o /\ oj2 o <= M.
Proof.
  induction os as [|o os IH]; intros i j N M H; cbn in H.
  - destruct H as [-> ->]. split; [lia|]. split; [lia|]. intros o [].
  - destruct H as (E1 & E2 & L1 & L2 & H). destruct (IH _ _ _ _ H) as (B1 & B2 & B3).
    split; [lia|]. split; [lia|]. intros o' [<-|Ho'].
    + repeat split; lia.
    + destruct (B3 o' Ho') as (C1 & C2 & C3 & C4 & C5 & C6). repeat split; lia.
Qed.

Section ByOpcodes.
Variable udiff : pystr -> pystr -> pystr.
Variable q : path.
Variables xs ys : list value.
Hypothesis Ax : forallb is_atom xs = true.
Hypothesis Ay : forallb is_atom ys = true.

Lemma slice_atoms (l : list value) a b : forallb is_atom l = true -> forallb is_atom (slice l a b) = true.
Proof.
  intros H. apply forallb_forall. intros x Hx. eapply forallb_forall in H; [exact H|].
  apply In_nth_error in Hx as (k & Hk).
  assert (k < b - a).
  { pose proof (slice_length_le l a b). assert (k < length (slice l a b)) by (apply nth_error_Some; congruence). lia. }
  rewrite nth_error_slice in Hk by assumption. eapply nth_error_In. exact Hk.
Qed.

Lemma bo_struct os : forall i j, tiles os i j (length xs) (length ys) ->
  Forall (okE q xs i (length xs)) (by_opcodes udiff nos os xs ys q q) /\
  StronglySorted lt (t1s (by_opcodes udiff nos os xs ys q q)) /\
  (forall k, In k (t1s (by_opcodes udiff nos os xs ys q q)) -> i <= k /\ clean os k).
Proof.
  induction os as [|o os IH]; intros i j T.
  - cbn. split; [constructor|]. split; [constructor|intros k []].
  - pose proof (tiles_bounds _ _ _ _ _ T) as (B1 & B2 & B3).
    cbn in T. destruct T as (E1 & E2 & L1 & L2 & T).
    destruct (IH _ _ T) as (I1 & I2 & I3).
    pose proof (tiles_bounds _ _ _ _ _ T) as (C1 & C2 & C3).
    unfold by_opcodes. cbn [flat_map]. fold (by_opcodes udiff nos os xs ys q q).
    set (blk := match otag o with OEqual => [] | _ => _ end).
    assert (HX : forall k x, nth_error (slice xs (oi1 o) (oi2 o)) k = Some x -> nth_error xs (oi1 o + k) = Some x).
    { intros k x Hk. assert (k < oi2 o - oi1 o).
      { pose proof (slice_length_le xs (oi1 o) (oi2 o)). assert (k < length (slice xs (oi1 o) (oi2 o))) by (apply nth_error_Some; congruence). lia. }
      rewrite nth_error_slice in Hk by assumption. exact Hk. }
    pose proof (slice_length_le xs (oi1 o) (oi2 o)) as SL.
    assert (HB : Forall (okE q xs (oi1 o) (oi2 o)) blk /\ StronglySorted lt (t1s blk) /\
                 (forall k, In k (t1s blk) -> oi1 o <= k < oi2 o) /\ (otag o = OEqual -> blk = [])).
    { unfold blk. destruct (otag o) eqn:Tg.
      - split; [constructor|]. split; [constructor|]. split; [intros k []|reflexivity].
      - destruct (pairs_ok udiff q xs (slice xs (oi1 o) (oi2 o)) (slice ys (oj1 o) (oj2 o)) (oi1 o) (oj1 o)
                    (slice_atoms xs _ _ Ax) (slice_atoms ys _ _ Ay) HX) as (P1 & P2 & P3).
        split; [eapply Forall_impl; [|exact P1]; intros e; apply okE_weaken; lia|]. split; [exact P2|].
        split; [intros k Hk; apply P3 in Hk; lia|discriminate].
      - destruct (removed_ok q xs (slice xs (oi1 o) (oi2 o)) (oi1 o) (slice_atoms xs _ _ Ax) HX) as (P1 & P2 & P3).
        split; [eapply Forall_impl; [|exact P1]; intros e; apply okE_weaken; lia|]. split; [exact P2|].
        split; [intros k Hk; apply P3 in Hk; lia|discriminate].
      - destruct (added_ok q xs (slice ys (oj1 o) (oj2 o)) (oj1 o) (oi1 o) (oi2 o) (slice_atoms ys _ _ Ay)) as [P1 P2].
        split; [exact P1|]. rewrite P2. split; [constructor|]. split; [intros k []|discriminate]. }
    destruct HB as (H1 & H2 & H3 & H4).
    split; [|split].
    + apply Forall_app. split.
      * eapply Forall_impl; [|exact H1]. intros e. apply okE_weaken; lia.
      * eapply Forall_impl; [|exact I1]. intros e. apply okE_weaken; lia.
    + rewrite t1s_app. apply sorted_app; [exact H2|exact I2|].
      intros a b Ha Hb. apply H3 in Ha. apply I3 in Hb as [Hb _]. lia.
    + intros k Hk. rewrite t1s_app in Hk. apply in_app_or in Hk as [Hk|Hk].
      * pose proof (H3 k Hk) as Hr. split; [lia|]. intros o' [<-|Ho'] Tg R.
        -- rewrite (H4 Tg) in Hk. destruct Hk.
        -- destruct (C3 o' Ho') as (D1 & _). lia.
      * destruct (I3 k Hk) as [Hlo Hcl]. split; [lia|]. intros o' [<-|Ho'] Tg R; [lia|]. apply (Hcl o' Ho' Tg R).
Qed.

End ByOpcodes.

(* ---- mutual_add_removes on such a list ---- *)
Lemma mutual_In' es e : In e (mutual es) ->
  In e es \/ exists e0 a, In e0 es /\ ekind e0 = KIterRem /\ In a es /\ ekind a = KIterAdd /\
                          e = mkEntry KValue (ep1 e0) (ep2 e0) (et1 e0) (et2 a) (ediff e0).
Proof.
  rewrite mutual_mfun. intros H. apply in_flat_map in H as (e0 & H0 & H).
  unfold mfun in H. destruct (ekind e0) eqn:K; try (destruct H as [<-|[]]; left; exact H0).
  - destruct (last_with_path _ _); [destruct H|]. destruct H as [<-|[]]. left; exact H0.
  - destruct (last_with_path (ep1 e0) (filter (is_kind KIterAdd) es)) as [a|] eqn:LA; [|destruct H as [<-|[]]; left; exact H0].
    destruct (last_with_path (ep1 e0) (filter (is_kind KIterRem) es)); [|destruct H as [<-|[]]; left; exact H0].
    destruct H as [<-|[]]. right. exists e0, a. apply last_with_path_In in LA as [HaIn _]. apply filter_In in HaIn as [HaIn Ka].
    unfold is_kind in Ka. destruct (ekind a) eqn:Ka'; try discriminate. auto 10.
Qed.

Lemma kv_flat (f : entry -> list entry) es :
  map eidx (filter kvt (flat_map f es)) = flat_map (fun e => map eidx (filter kvt (f e))) es.
Proof. induction es as [|e es IH]; cbn; [reflexivity|]. rewrite filter_app, map_app, IH. reflexivity. Qed.

Lemma t1s_flat es : t1s es = flat_map (fun e => if sel3 e then [eidx e] else []) es.
Proof. unfold t1s. induction es as [|e es IH]; cbn; [reflexivity|]. destruct (sel3 e); cbn; rewrite IH; reflexivity. Qed.

Lemma mutual_subl es : subl (map eidx (filter kvt (mutual es))) (t1s es).
Proof.
  rewrite mutual_mfun, kv_flat, t1s_flat. apply subl_flat_map. intros e _.
  unfold mfun, sel3, kvt. destruct (ekind e) eqn:K; cbn; rewrite ?K; cbn; try apply subl_refl; try apply subl_nil.
  - destruct (last_with_path _ _); cbn; [apply subl_nil|]. rewrite K. cbn. apply subl_nil.
  - destruct (last_with_path (ep1 e) (filter (is_kind KIterAdd) es)); [|cbn; rewrite K; cbn; apply subl_nil].
    destruct (last_with_path (ep1 e) (filter (is_kind KIterRem) es)); [|cbn; rewrite K; cbn; apply subl_nil].
    cbn. apply subl_refl.
Qed.

Section MutualOk.
Variable q : path.
Variable X : list value.

Lemma mutual_ok lo hi es : Forall (okE q X lo hi) es ->
  Forall (fun e => (exists k, ep1 e = snoc q (PIdx k)) /\ seq_kind e /\
                   (kvt e = true -> item_entry q X e /\ In (eidx e) (t1s es))) (mutual es).
Proof.
  intros HF. apply Forall_forall. intros e He. apply mutual_In' in He as [He|(e0 & a & H0 & K0 & Ha & Ka & ->)].
  - pose proof (proj1 (Forall_forall _ _) HF e He) as (A & B & C & D0). split; [exact A|]. split; [exact B|].
    intros Kv. assert (S3 : sel3 e = true) by (unfold sel3, kvt in *; destruct (ekind e); try discriminate; reflexivity).
    destruct (C S3) as (_ & a & E1 & N1). destruct (D0 (or_introl Kv)) as (b & E2). destruct A as (k & Hp).
    split.
    + rewrite (eidx_of e q k Hp) in N1. exists k, a, b. repeat split; assumption.
    + unfold t1s. apply in_map. apply filter_In. split; assumption.
  - pose proof (proj1 (Forall_forall _ _) HF e0 H0) as (A & B & C & D0).
    pose proof (proj1 (Forall_forall _ _) HF a Ha) as (_ & _ & _ & Da).
    assert (S3 : sel3 e0 = true) by (unfold sel3; rewrite K0; reflexivity).
    destruct (C S3) as (_ & x & E1 & N1). destruct (Da (or_intror Ka)) as (b & E2). destruct A as (k & Hp).
    split; [exists k; exact Hp|]. split; [left; reflexivity|]. intros _. split.
    + rewrite (eidx_of e0 q k Hp) in N1. exists k, x, b. cbn [ep1 et1 et2]. repeat split; assumption.
    + unfold t1s. change (eidx (mkEntry KValue (ep1 e0) (ep2 e0) (et1 e0) (et2 a) (ediff e0))) with (eidx e0).
      apply in_map. apply filter_In. split; assumption.
Qed.

End MutualOk.

(* ---- the rebuild ---- *)
Lemma eq_leaf_lists l1 l2 :
  Forall2 (fun x y => py_eq_leaf x y = true) l1 l2 ->
  (forall a b, In (VAtom a) l1 -> In (VAtom b) l2 -> py_eq a b = true -> a = b) -> l1 = l2.
Proof.
  induction 1 as [|x y l1 l2 Hxy HF IH]; intros AF; [reflexivity|].
  destruct x as [a| | | | |], y as [b| | | | |]; cbn in Hxy; try discriminate.
  rewrite (AF a b (or_introl eq_refl) (or_introl eq_refl) Hxy). f_equal. apply IH.
  intros a' b' Ha Hb. apply AF; right; assumption.
Qed.

Lemma slice_In {A} (l : list A) a b x : In x (slice l a b) -> In x l.
Proof.
  intros Hx. apply In_nth_error in Hx as (k & Hk).
  assert (k < b - a).
  { pose proof (slice_length_le l a b). assert (k < length (slice l a b)) by (apply nth_error_Some; congruence). lia. }
  rewrite nth_error_slice in Hk by assumption. eapply nth_error_In. exact Hk.
Qed.

Section Rebuild.
Variables bidir always : bool.
Variables xs ys : list value.
Hypothesis AF : alias_free (flat_map atoms_of xs ++ flat_map atoms_of ys).

Lemma transformed_tiles cur os : forall i j,
  tiles os i j (length xs) (length ys) -> Forall (block_ok xs ys) os ->
  (forall o, In o os -> otag o = OEqual -> forall k, oi1 o <= k < oi2 o -> nth_error cur k = nth_error xs k) ->
  transformed cur (map (opv_of bidir always xs ys) os) = skipn j ys.
Proof.
  induction os as [|o os IH]; intros i j T HB Hc.
  - cbn in T. destruct T as [_ ->]. cbn. rewrite skipn_all. reflexivity.
  - cbn in T. destruct T as (E1 & E2 & L1 & L2 & T). inversion HB as [|? ? Bo HB']; subst.
    cbn [map transformed flat_map]. fold (transformed cur (map (opv_of bidir always xs ys) os)).
    rewrite (IH _ _ T HB') by (intros o' Ho'; apply Hc; right; exact Ho').
    rewrite <- (slice_skipn ys (oj1 o) (oj2 o) L2). f_equal.
    unfold opv_of, block_ok in *. destruct (otag o) eqn:Tg; cbn [ov_tag ov_i1 ov_i2 ov_new].
    + destruct Bo as [_ F2].
      rewrite (slice_nth_ext cur xs (oi1 o) (oi2 o)) by (apply Hc; [left; reflexivity|exact Tg]).
      apply eq_leaf_lists; [exact F2|]. intros a b Ha Hb E0. apply AF; [| |exact E0]; apply in_or_app; [left|right];
        apply in_flat_map; eexists; (split; [eapply slice_In; eassumption|left; reflexivity]).
    + reflexivity.
    + destruct Bo as [_ <-]. rewrite slice_same. reflexivity.
    + reflexivity.
Qed.

End Rebuild.

(** C01 - a list compared position by position: its delta is the concatenation of
    the children's deltas and of the trailing removals / additions. *)
From Coq Require Import List ZArith NArith Bool Arith Lia Permutation.
Import ListNotations.
From DD Require Import Base.PyStr Base.Value Base.ValueFacts Path.PathModel Diff.Tree Diff.DiffModel
  Diff.DiffFacts Diff.DiffFaithful Delta.DeltaModel Delta.DeltaFacts Delta.DeltaLocal Delta.DeltaEntries
  Delta.DeltaStruct Delta.DeltaRun Delta.DeltaGuard Delta.DeltaGood Delta.DeltaCompose.

Lemma flat_map_map_nil {A B C} (g : A -> B) (f : B -> list C) l : (forall p, f (g p) = []) -> flat_map f (map g l) = [].
Proof. intros H. induction l as [|p l IH]; cbn; [reflexivity|]. rewrite H, IH. reflexivity. Qed.
Lemma sg_map_none {A} sel (g : A -> entry) l : (forall p, sel (g p) = None) -> sg sel (map g l) [] = [].
Proof. intros H. unfold sg. induction l as [|p l IH]; cbn; [reflexivity|]. rewrite H. exact IH. Qed.

Lemma in_combine_seq {A} j (l : list A) k x : In (k, x) (combine (seq j (length l)) l) -> j <= k < j + length l /\ nth_error l (k - j) = Some x.
Proof.
  revert j; induction l as [|y l IH]; intros j; cbn; [tauto|].
  intros [H|H].
  - inversion H; subst. split; [lia|]. rewrite Nat.sub_diag. reflexivity.
  - apply IH in H as [H1 H2]. split; [lia|]. replace (k - j) with (S (k - S j)) by lia. exact H2.
Qed.

Definition idx_from (i : nat) (K : pkey) : Prop := exists j, K = PIdx j /\ i <= j.

Section ListNode.
Variable hatom : atom -> pystr.
Variable udiff : pystr -> pystr -> pystr.
Variable ops : path -> list value -> list value -> list opcode.
Variable c : cfg.
Variable conv : ty -> value -> option value.
Variables bidir always : bool.
Variables T1 T2 : value.
Variable q : path.
Notation diff := (diff hatom udiff ops nos nos c).
Notation E := (E hatom udiff ops c).
Notation D := (D hatom udiff ops c conv bidir always T1 T2).
Notation td := (to_delta conv bidir always ops T1 T2).

Definition GL (i : nat) (xs ys : list value) := go_list nos diff q q xs ys i.
Definition DL (i : nat) (xs ys : list value) : delta := td (mutual (fst (GL i xs ys))) (snd (GL i xs ys)).

Definition add_entry (p : nat * value) : entry :=
  mkEntry KIterAdd (snoc q (PIdx (fst p))) (snoc q (PIdx (fst p))) None (Some (snd p)) None.
Definition rem_entry (p : nat * value) : entry :=
  mkEntry KIterRem (snoc q (PIdx (fst p))) (snoc q (PIdx (fst p))) (Some (snd p)) None None.

Lemma added_from_eq ys j : added_from nos ys j q q = map add_entry (combine (seq j (length ys)) ys).
Proof. revert j; induction ys as [|y ys IH]; intros j; cbn; [reflexivity|]. rewrite IH. reflexivity. Qed.
Lemma removed_from_eq xs j : removed_from nos xs j q q = map rem_entry (combine (seq j (length xs)) xs).
Proof. revert j; induction xs as [|x xs IH]; intros j; cbn; [reflexivity|]. rewrite IH. reflexivity. Qed.

Lemma added_under ys i : Forall (fun e => under q (idx_from i) (ep1 e)) (added_from nos ys i q q).
Proof.
  rewrite added_from_eq. apply Forall_forall. intros e He. apply in_map_iff in He as ([k y] & <- & Hk).
  apply in_combine_seq in Hk as [Hk _]. exists (PIdx k), []. split; [exists k; split; [reflexivity|lia]|reflexivity].
Qed.
Lemma removed_under xs i : Forall (fun e => under q (idx_from i) (ep1 e)) (removed_from nos xs i q q).
Proof.
  rewrite removed_from_eq. apply Forall_forall. intros e He. apply in_map_iff in He as ([k y] & <- & Hk).
  apply in_combine_seq in Hk as [Hk _]. exists (PIdx k), []. split; [exists k; split; [reflexivity|lia]|reflexivity].
Qed.

Lemma GL_under xs : forall ys i,
  Forall (fun e => under q (idx_from i) (ep1 e)) (fst (GL i xs ys)) /\ Forall (under q (idx_from i)) (snd (GL i xs ys)).
Proof.
  induction xs as [|x xs IH]; intros ys i.
  - cbn. split; [apply added_under|constructor].
  - destruct ys as [|y ys]; [cbn [GL go_list fst snd]; split; [apply removed_under|constructor]|].
    unfold GL. cbn [go_list]. unfold app2. cbn [fst snd].
    destruct (diff_pref hatom udiff ops nos nos c x y (snoc q (PIdx i)) (snoc q (PIdx i))) as [A B].
    destruct (IH ys (S i)) as [C D0]. split; apply Forall_app; split.
    + eapply Forall_impl; [|exact A]. intros e He. apply pref_under in He.
      eapply under_weaken; [|exact He]. intros K ->. exists i. split; [reflexivity|lia].
    + eapply Forall_impl; [|exact C]. intros e He. eapply under_weaken; [|exact He].
      intros K (j & -> & Hj). exists j. split; [reflexivity|lia].
    + eapply Forall_impl; [|exact B]. intros e He. apply ppref_under in He.
      eapply under_weaken; [|exact He]. intros K ->. exists i. split; [reflexivity|lia].
    + eapply Forall_impl; [|exact D0]. intros e He. eapply under_weaken; [|exact He].
      intros K (j & -> & Hj). exists j. split; [reflexivity|lia].
Qed.

Lemma DL_cons i x xs y ys :
  DL i (x :: xs) (y :: ys) = dapp (D x y (snoc q (PIdx i))) (DL (S i) xs ys).
Proof.
  unfold DL, DeltaGood.D, DeltaGood.E. unfold GL at 1 2. cbn [go_list]. unfold app2. cbn [fst snd].
  fold (GL (S i) xs ys).
  destruct (diff_pref hatom udiff ops nos nos c x y (snoc q (PIdx i)) (snoc q (PIdx i))) as [A B].
  destruct (GL_under xs ys (S i)) as [C D0].
  set (ea := fst (diff x y (snoc q (PIdx i)) (snoc q (PIdx i)))) in *.
  set (ra := snd (diff x y (snoc q (PIdx i)) (snoc q (PIdx i)))) in *.
  assert (UA : Forall (fun e => under q (fun K => K = PIdx i) (ep1 e)) ea).
  { eapply Forall_impl; [|exact A]. intros e He. apply pref_under. exact He. }
  assert (URA : Forall (under q (fun K => K = PIdx i)) ra).
  { eapply Forall_impl; [|exact B]. intros e He. apply ppref_under. exact He. }
  assert (Dj : forall K1 K2 : pkey, K1 = PIdx i -> idx_from (S i) K2 -> K1 <> K2).
  { intros K1 K2 -> (j & -> & Hj) E0. inversion E0. lia. }
  assert (Dk : forall K1 K2 : pkey, K1 = PIdx i -> idx_from (S i) K2 -> key_atom K1 <> key_atom K2).
  { intros K1 K2 -> (j & -> & Hj) E0. cbn in E0. inversion E0. lia. }
  rewrite mutual_app.
  - apply td_app.
    + intros e He. eapply in_paths_split_l; [|exact D0|exact Dj].
      pose proof (mutual_under q _ ea UA) as M. eapply Forall_forall in M; eassumption.
    + intros e He. eapply in_paths_split_r; [|exact URA|exact Dj].
      pose proof (mutual_under q _ _ C) as M. eapply Forall_forall in M; eassumption.
    + intros e1 e2 H1 H2. eapply under_npath_neq; [| |exact Dk].
      * pose proof (mutual_under q _ ea UA) as M. eapply Forall_forall in M; eassumption.
      * pose proof (mutual_under q _ _ C) as M. eapply Forall_forall in M; eassumption.
  - intros e1 e2 H1 H2 _ _ E0.
    eapply Forall_forall in UA; [|exact H1]. eapply Forall_forall in C; [|exact H2].
    apply (under_npath_neq q _ _ _ _ UA C Dk). rewrite E0. reflexivity.
Qed.


(* ---- the trailing items ---- *)
Definition tail_rem (i : nat) (xs : list value) : list item :=
  map (fun p => IRem [PKey (ik (fst p))] (snd p)) (combine (seq i (length xs)) xs).
Definition tail_add (i : nat) (ys : list value) : list item :=
  map (fun p => IAdd true [PKey (ik (fst p))] (Some (snd p))) (combine (seq i (length ys)) ys).

Lemma strip_snoc k : skipn (length q) (npath (snoc q (PIdx k))) = [PKey (ik k)].
Proof. unfold snoc. rewrite skipn_npath. reflexivity. Qed.

Lemma mutual_added ys i : mutual (added_from nos ys i q q) = added_from nos ys i q q.
Proof.
  apply mutual_id. intros a r Ha Hr Ka Kr. rewrite added_from_eq in Hr. apply in_map_iff in Hr as (p & <- & _). discriminate.
Qed.
Lemma mutual_removed xs i : mutual (removed_from nos xs i q q) = removed_from nos xs i q q.
Proof.
  apply mutual_id. intros a r Ha Hr Ka Kr. rewrite removed_from_eq in Ha. apply in_map_iff in Ha as (p & <- & _). discriminate.
Qed.

Lemma sbase_DL_nil_l i ys :
  sbase (length q) (DL i [] ys) = [[]; []; []; []; []; []; tail_add i ys; []; []].
Proof.
  unfold DL, GL. cbn [go_list fst snd]. rewrite mutual_added, added_from_eq.
  unfold sbase, base, p1, p2, p3, p4, p5, p6, p7, p8, p9.
  rewrite td_sadd, td_srem. unfold to_delta. cbn [d_val d_type d_dadd d_drem d_iadd d_irem d_ops map].
  set (l := combine (seq i (length ys)) ys). unfold tail_add. fold l.
  rewrite !sg_map_none by reflexivity. cbn [map].
  assert (TL : forall l0 : list (nat * value), map (istrip (length q)) (map (fun pv : path * value => IAdd true (fst pv) (Some (snd pv)))
             (flat_map (fun e => match ekind e with
                                 | KIterAdd => if in_paths (removelast (ep1 e)) [] then []
                                               else [(npath (ep1 e), match et2 e with Some v => v | None => VAtom ANone end)]
                                 | _ => [] end) (map add_entry l0)))
           = map (fun p : nat * value => IAdd true [PKey (ik (fst p))] (Some (snd p))) l0).
  { induction l0 as [|p l0 IH]; cbn; [reflexivity|]. rewrite strip_snoc. f_equal. exact IH. }
  rewrite TL.
  repeat (f_equal; try (rewrite flat_map_map_nil by reflexivity; reflexivity)).
Qed.

Lemma sbase_DL_nil_r i x xs :
  sbase (length q) (DL i (x :: xs) []) = [[]; []; []; []; []; tail_rem i (x :: xs); []; []; []].
Proof.
  unfold DL, GL. cbn [go_list fst snd]. rewrite mutual_removed, removed_from_eq.
  unfold sbase, base, p1, p2, p3, p4, p5, p6, p7, p8, p9.
  rewrite td_sadd, td_srem. unfold to_delta. cbn [d_val d_type d_dadd d_drem d_iadd d_irem d_ops map].
  set (l := combine (seq i (length (x :: xs))) (x :: xs)). unfold tail_rem. fold l.
  rewrite !sg_map_none by reflexivity. cbn [map].
  assert (TL : forall l0 : list (nat * value), map (istrip (length q)) (map (fun pv : path * value => IRem (fst pv) (snd pv))
             (flat_map (fun e => match ekind e with
                                 | KIterRem => if in_paths (removelast (ep1 e)) [] then []
                                               else [(npath (ep1 e), match et1 e with Some v => v | None => VAtom ANone end)]
                                 | _ => [] end) (map rem_entry l0)))
           = map (fun p : nat * value => IRem [PKey (ik (fst p))] (snd p)) l0).
  { induction l0 as [|p l0 IH]; cbn; [reflexivity|]. rewrite strip_snoc. f_equal. exact IH. }
  rewrite TL.
  repeat (f_equal; try (rewrite flat_map_map_nil by reflexivity; reflexivity)).
Qed.


Lemma D_pref x y K :
  Forall (pref (snoc q K)) (mutual (fst (E x y (snoc q K)))) /\ Forall (ppref (snoc q K)) (snd (E x y (snoc q K))).
Proof.
  destruct (diff_pref hatom udiff ops nos nos c x y (snoc q K) (snoc q K)) as [A B].
  split; [apply mutual_pref; exact A|exact B].
Qed.

Lemma restrictL_tail_rem k i xs : (forall j, i <= j -> k <> ik j) -> restrictL k (tail_rem i xs) = [].
Proof.
  intros H. unfold restrictL. rewrite filter_nil; [reflexivity|]. intros x Hx.
  unfold tail_rem in Hx. apply in_map_iff in Hx as ([j v] & <- & Hj). apply in_combine_seq in Hj as [Hj _].
  eapply cls0_false; [reflexivity|]. intros E0. apply (H j); [lia|]. symmetry. exact E0.
Qed.
Lemma restrictL_tail_add k i ys : (forall j, i <= j -> k <> ik j) -> restrictL k (tail_add i ys) = [].
Proof.
  intros H. unfold restrictL. rewrite filter_nil; [reflexivity|]. intros x Hx.
  unfold tail_add in Hx. apply in_map_iff in Hx as ([j v] & <- & Hj). apply in_combine_seq in Hj as [Hj _].
  eapply cls0_false; [reflexivity|]. intros E0. apply (H j); [lia|]. symmetry. exact E0.
Qed.

Definition tailj (j i : nat) (xs ys : list value) : list item :=
  let m := Nat.min (length xs) (length ys) in
  match j with
  | 5 => tail_rem (i + m) (skipn m xs)
  | 6 => tail_add (i + m) (skipn m ys)
  | _ => []
  end.

Lemma nth_zipapp {A} j (X Y : list (list A)) : length X = length Y -> nth j (zipapp X Y) [] = nth j X [] ++ nth j Y [].
Proof.
  revert j Y; induction X as [|x X IH]; intros j [|y Y] L; try discriminate L.
  - destruct j; reflexivity.
  - destruct j; cbn; [reflexivity|]. apply IH. cbn in L. lia.
Qed.

Lemma child_items_weaken K K' l : (forall k, In k K -> In k K') -> child_items K l -> child_items K' l.
Proof. intros S0 H x Hx. destruct (H x Hx) as (k & r & Hp & Hk & Ho). exists k, r. auto. Qed.
Lemma child_items_app K l1 l2 : child_items K l1 -> child_items K l2 -> child_items K (l1 ++ l2).
Proof. intros H1 H2 x Hx. apply in_app_or in Hx as [Hx|Hx]; [apply H1|apply H2]; exact Hx. Qed.

Lemma DL_struct xs : forall ys i,
  (forall k x y, nth_error xs k = Some x -> nth_error ys k = Some y ->
     restrictP (ik (i + k)) (sbase (length q) (DL i xs ys)) = sbase (S (length q)) (D x y (snoc q (PIdx (i + k))))) /\
  (forall j, exists cj, nth j (sbase (length q) (DL i xs ys)) [] = cj ++ tailj j i xs ys /\
     child_items (map ik (seq i (Nat.min (length xs) (length ys)))) cj) /\
  (forall k', (forall j, i <= j -> k' <> ik j) -> restrictP k' (sbase (length q) (DL i xs ys)) = nils9).
Proof.
  induction xs as [|x xs IH]; intros ys i.
  - rewrite sbase_DL_nil_l. split; [|split].
    + intros k x y Hk. destruct k; discriminate.
    + intros j. exists []. split; [|intros x []].
      unfold tailj. cbn [length Nat.min skipn app]. rewrite Nat.add_0_r.
      do 9 (destruct j as [|j]; [reflexivity|]). destruct j; reflexivity.
    + intros k' H. unfold restrictP. cbn [map]. rewrite restrictL_tail_add by exact H. reflexivity.
  - destruct ys as [|y ys].
    + rewrite sbase_DL_nil_r. split; [|split].
      * intros k x0 y Hk Hy. destruct k; discriminate.
      * intros j. exists []. split; [|intros x0 []].
        unfold tailj. cbn [length Nat.min skipn app]. rewrite Nat.add_0_r.
        do 9 (destruct j as [|j]; [reflexivity|]). destruct j; reflexivity.
      * intros k' H. unfold restrictP. cbn [map]. rewrite restrictL_tail_rem by exact H. reflexivity.
    + rewrite DL_cons, sbase_dapp. destruct (IH ys (S i)) as (IHa & IHb & IHc).
      destruct (D_pref x y (PIdx i)) as [PA PB].
      split; [|split].
      * intros k x0 y0 Hx Hy. rewrite restrictP_zipapp. destruct k as [|k]; cbn in Hx, Hy.
        -- inversion Hx; inversion Hy; subst x0 y0. rewrite Nat.add_0_r.
           unfold DeltaGood.D at 1. change (ik i) with (key_atom (PIdx i)).
           rewrite (restrictP_child_same conv bidir always ops T1 T2 q (PIdx i) _ _ PA PB).
           rewrite IHc; [apply zipapp_nils_r; reflexivity|].
           intros j Hj E0. apply ik_inj in E0. lia.
        -- unfold DeltaGood.D at 1.
           rewrite (restrictP_child_other conv bidir always ops T1 T2 q (PIdx i) (ik (i + S k)) _ _ PA PB).
           ++ rewrite zipapp_nils_l by reflexivity. replace (i + S k) with (S i + k) by lia. apply IHa; assumption.
           ++ cbn. intros E0. apply ik_inj in E0. lia.
      * intros j. destruct (IHb j) as (cj & Hc & Hch).
        rewrite nth_zipapp by reflexivity. rewrite Hc.
        exists (nth j (sbase (length q) (D x y (snoc q (PIdx i)))) [] ++ cj). split.
        -- rewrite <- app_assoc. f_equal. f_equal. unfold tailj. cbn [length Nat.min skipn].
           replace (i + S (Nat.min (length xs) (length ys))) with (S i + Nat.min (length xs) (length ys)) by lia.
           reflexivity.
        -- apply child_items_app.
           ++ intros x0 Hx0. destruct (Nat.lt_ge_cases j 9) as [Lj|Lj].
              ** destruct (child_item_paths conv bidir always ops T1 T2 q (PIdx i) _ _ _ x0 PA PB (nth_In (sbase (length q) (D x y (snoc q (PIdx i)))) [] Lj) Hx0) as (r & Hr & Ho).
                 exists (ik i), r. split; [exact Hr|]. split; [|exact Ho]. cbn [length Nat.min seq map]. left. reflexivity.
              ** rewrite nth_overflow in Hx0 by exact Lj. destruct Hx0.
           ++ eapply child_items_weaken; [|exact Hch]. intros k Hk. cbn [length Nat.min seq map]. right. exact Hk.
      * intros k' H. rewrite restrictP_zipapp. unfold DeltaGood.D at 1.
        rewrite (restrictP_child_other conv bidir always ops T1 T2 q (PIdx i) k' _ _ PA PB).
        -- rewrite IHc; [reflexivity|]. intros j Hj. apply H. lia.
        -- cbn. intros E0. apply (H i (le_n i)). symmetry. exact E0.
Qed.

End ListNode.

(** C01 - locality: a step of [apply] addressed below the key k of a list or
    dict acts on that child only, exactly as it acts on the child standing
    alone; simulation of a run on a container by the runs on its children. *)
From Coq Require Import List ZArith NArith Bool Arith Lia.
Import ListNotations.
From DD Require Import Base.PyStr Base.Value Base.ValueFacts Path.PathModel Diff.Tree Diff.DiffModel
  Diff.DiffFacts Delta.DeltaModel Delta.DeltaFacts.

Definition box (W : value) : bool := match W with VList _ | VDict _ => true | _ => false end.

Lemma list_slot xs k c :
  get_item (VList xs) k = Some c ->
  exists i, i < length xs /\ nth_error xs i = Some c /\
    forall ys, length ys = length xs -> list_index ys k = Some i /\ get_item (VList ys) k = nth_error ys i.
Proof.
  cbn [get_item]. unfold list_index. destruct (int_of_atom k) as [z|]; [|discriminate].
  unfold seq_index. cbv zeta.
  destruct (Z.ltb_spec z 0) as [Hz|Hz].
  - destruct (Z.ltb_spec (z + Z.of_nat (length xs)) 0) as [H1|H1]; cbn [orb]; [discriminate|].
    destruct (Z.leb_spec (Z.of_nat (length xs)) (z + Z.of_nat (length xs))) as [H2|H2]; [discriminate|].
    intros H. exists (Z.to_nat (z + Z.of_nat (length xs))). split; [lia|]. split; [exact H|].
    intros ys L. rewrite L.
    destruct (Z.leb_spec (- Z.of_nat (length xs)) z) as [H3|H3]; [|lia]. split; [reflexivity|].
    destruct (Z.ltb_spec (z + Z.of_nat (length xs)) 0) as [H4|H4]; [lia|]. cbn [orb].
    destruct (Z.leb_spec (Z.of_nat (length xs)) (z + Z.of_nat (length xs))) as [H5|H5]; [lia|]. reflexivity.
  - destruct (Z.ltb_spec z 0) as [H1|H1]; [lia|]. cbn [orb].
    destruct (Z.leb_spec (Z.of_nat (length xs)) z) as [H2|H2]; [discriminate|].
    intros H. exists (Z.to_nat z). split; [lia|]. split; [exact H|].
    intros ys L. rewrite L. split; [reflexivity|].
    destruct (Z.leb_spec (Z.of_nat (length xs)) z) as [H5|H5]; [lia|]. reflexivity.
Qed.

Lemma box_set_same W k c : box W = true -> get_item W k = Some c -> set_item W k c = Some W.
Proof.
  destruct W as [a|xs|xs|kvs|xs|xs]; try discriminate; intros _ H.
  - destruct (list_slot xs k c H) as (i & Hi & Hn & Hall). destruct (Hall xs eq_refl) as [Hl _].
    unfold set_item. rewrite Hl, list_set_lt by exact Hi. cbn. rewrite repl_same by exact Hn. reflexivity.
  - cbn in *. rewrite dict_set_same by exact H. reflexivity.
Qed.

Lemma box_get_set W k c v : box W = true -> get_item W k = Some c ->
  exists W', set_item W k v = Some W' /\ box W' = true /\ get_item W' k = Some v /\
             (forall w, set_item W' k w = set_item W k w).
Proof.
  destruct W as [a|xs|xs|kvs|xs|xs]; try discriminate; intros _ H.
  - destruct (list_slot xs k c H) as (i & Hi & Hn & Hall). destruct (Hall xs eq_refl) as [Hl _].
    exists (VList (repl i v xs)). unfold set_item at 1. rewrite Hl, list_set_lt by exact Hi.
    split; [reflexivity|]. split; [reflexivity|].
    destruct (Hall (repl i v xs) (repl_length i v xs Hi)) as [Hl2 Hg2]. split.
    + rewrite Hg2. apply repl_nth_same. exact Hi.
    + intros w. unfold set_item. rewrite Hl, Hl2. rewrite !list_set_lt by (rewrite ?repl_length; exact Hi).
      cbn. rewrite repl_repl by exact Hi. reflexivity.
  - exists (VDict (dict_set kvs k v)). split; [reflexivity|]. split; [reflexivity|]. split.
    + cbn. apply assoc_dict_set_same.
    + intros w. cbn. rewrite dict_set_set. reflexivity.
Qed.

Lemma upd_box W k r f c : box W = true -> get_item W k = Some c ->
  upd W (PKey k :: r) f = match upd c r f with Some c' => set_item W k c' | None => None end.
Proof.
  intros B H. cbn [upd key_atom]. rewrite H. destruct (upd c r f) as [c'|]; [|reflexivity].
  destruct W; try discriminate B; reflexivity.
Qed.

Lemma resolve_box W k r c : get_item W k = Some c -> resolve W (PKey k :: r) = resolve c r.
Proof. intros H. cbn [resolve key_atom]. rewrite H. reflexivity. Qed.

(* the state of the container, given the state [s'] of the run on its child *)
Definition wrapst (W : value) (k : atom) (po : list path) (e : nat) (s' : st) : st :=
  match set_item W k (root s') with
  | Some W' => mkSt W' (po ++ map (cons (PKey k)) (post s')) (e + errs s')
  | None => mkSt W po (S (e + errs s'))
  end.

Lemma wrapst_err W k po e s' : wrapst W k po e (err s') = err (wrapst W k po e s').
Proof.
  unfold wrapst, err. cbn [root post errs]. destruct (set_item W k (root s')); cbn; f_equal; lia.
Qed.

Lemma wrapst_same W k po e c : box W = true -> get_item W k = Some c ->
  wrapst W k po e (mkSt c [] 0) = mkSt W po e.
Proof.
  intros B H. unfold wrapst. cbn [root post errs]. rewrite (box_set_same W k c B H).
  cbn. rewrite app_nil_r, Nat.add_0_r. reflexivity.
Qed.

Lemma removelast_cons2 {A} (a b : A) l : removelast (a :: b :: l) = a :: removelast (b :: l).
Proof. reflexivity. Qed.
Lemma last_cons2 {A} (a b : A) l d : last (a :: b :: l) d = last (b :: l) d.
Proof. reflexivity. Qed.

Section Local.
Variable conv : ty -> value -> option value.
Variable bidir : bool.
Notation istep := (istep conv bidir).
Notation irun := (irun conv bidir).

Definition local (F : path -> st -> st) (okr : path -> Prop) : Prop :=
  forall W k c r po e, okr r -> box W = true -> get_item W k = Some c ->
    F (PKey k :: r) (mkSt W po e) = wrapst W k po e (F r (mkSt c [] 0)).

Lemma local_set_new_value v : local (fun p s => set_new_value s p v) (fun _ => True).
Proof.
  intros W k c r po e _ B H. destruct r as [|k2 r].
  - (* the child itself is replaced *)
    unfold set_new_value at 1. cbn [removelast last key_atom resolve root post errs upd].
    replace (is_tuple W) with false by (destruct W; try discriminate B; reflexivity).
    replace (untuple W) with W by (destruct W; try discriminate B; reflexivity).
    destruct (box_get_set W k c v B H) as (W' & HS & _).
    unfold wrapst, set_new_value, with_root. cbn [root post errs]. rewrite HS.
    cbn. rewrite app_nil_r, Nat.add_0_r. reflexivity.
  - unfold set_new_value. rewrite removelast_cons2, last_cons2.
    cbn [root post errs]. rewrite (resolve_box W k _ c H).
    destruct (resolve c (removelast (k2 :: r))) as [obj|].
    + rewrite (upd_box W k _ _ c B H).
      destruct (upd c (removelast (k2 :: r)) _) as [c'|].
      * destruct (box_get_set W k c c' B H) as (W' & HS & _). rewrite HS.
        unfold wrapst. cbn [root post errs]. rewrite HS. rewrite Nat.add_0_r.
        destruct (is_tuple obj); cbn [map app]; rewrite ?app_nil_r; reflexivity.
      * rewrite wrapst_err, (wrapst_same W k po e c B H). reflexivity.
    + rewrite wrapst_err, (wrapst_same W k po e c B H). reflexivity.
Qed.

Lemma local_after F okr : local F okr -> (forall p, framed (F p)) ->
  forall W k c r po e s', okr r -> box W = true -> get_item W k = Some c ->
    F (PKey k :: r) (wrapst W k po e s') = wrapst W k po e (F r s').
Proof.
  intros HL HF W k c r po e [c1 po1 e1] Hr B H.
  destruct (box_get_set W k c c1 B H) as (W1 & HS & B1 & G1 & Hsame).
  unfold wrapst at 1. cbn [root post errs]. rewrite HS.
  rewrite (HL W1 k c1 r _ _ Hr B1 G1). rewrite (HF r c1 po1 e1).
  set (L := F r (mkSt c1 [] 0)). unfold frame, wrapst. cbn [root post errs].
  rewrite Hsame. destruct (box_get_set W k c (root L) B H) as (W2 & HS2 & _). rewrite HS2.
  rewrite map_app, app_assoc, Nat.add_assoc. reflexivity.
Qed.

Lemma local_del_elem k2 : local (fun op s => del_elem s op k2) (fun _ => True).
Proof.
  intros W k c r po e _ B H. unfold del_elem. cbn [root post errs]. rewrite (resolve_box W k _ c H).
  destruct (resolve c r) as [obj|].
  - rewrite (upd_box W k _ _ c B H). destruct (upd c r _) as [c'|].
    + destruct (box_get_set W k c c' B H) as (W' & HS & _). rewrite HS.
      unfold wrapst. cbn [root post errs]. rewrite HS. rewrite Nat.add_0_r.
      destruct (is_tuple obj); cbn [map app]; rewrite ?app_nil_r; reflexivity.
    + rewrite wrapst_err, (wrapst_same W k po e c B H). reflexivity.
  - rewrite wrapst_err, (wrapst_same W k po e c B H). reflexivity.
Qed.

Lemma local_upd_step f : local (fun p s => upd_step s p f) (fun _ => True).
Proof.
  intros W k c r po e _ B H. unfold upd_step. cbn [root post errs]. rewrite (upd_box W k _ _ c B H).
  destruct (upd c r f) as [c'|].
  - destruct (box_get_set W k c c' B H) as (W' & HS & _). rewrite HS.
    unfold wrapst, with_root. cbn [root post errs]. rewrite HS. cbn. rewrite app_nil_r, Nat.add_0_r. reflexivity.
  - rewrite wrapst_err, (wrapst_same W k po e c B H). reflexivity.
Qed.

Lemma wrapst_verify W k po e e0 cur s' :
  verify bidir e0 cur (wrapst W k po e s') = wrapst W k po e (verify bidir e0 cur s').
Proof.
  unfold verify. destruct bidir; [|reflexivity]. destruct e0 as [x|]; [|symmetry; apply wrapst_err].
  destruct (py_eqv x cur); [reflexivity|symmetry; apply wrapst_err].
Qed.

Definition okr (x : item) (r : path) : Prop :=
  match x with IRem _ _ | IAdd _ _ _ => r <> [] | _ => True end.

Lemma istep_local x W k c r po e :
  ipath x = PKey k :: r -> okr x r -> box W = true -> get_item W k = Some c ->
  istep (mkSt W po e) x = wrapst W k po e (istep (mkSt c [] 0) (irestrict x)).
Proof.
  intros HP HO B H.
  destruct x as [vc|tc|un p xs|p os|p v|ins p v|p]; cbn [ipath] in HP; unfold irestrict; cbn [istep imap].
  - (* values_changed *)
    unfold vc_step, current_at. cbn [vc_path vc_old vc_new root]. rewrite HP. cbn [tl].
    rewrite (resolve_box W k r c H). destruct (resolve c r) as [cur|].
    + rewrite (local_set_new_value (vc_new vc) W k c r po e I B H). apply wrapst_verify.
    + rewrite wrapst_err, (wrapst_same W k po e c B H). reflexivity.
  - unfold tc_step, current_at. cbn [tc_path tc_old tc_new tc_new_ty root]. rewrite HP. cbn [tl].
    rewrite (resolve_box W k r c H). destruct (resolve c r) as [cur|].
    + destruct (match tc_new tc with Some v => Some v | None => conv (tc_new_ty tc) cur end) as [nv|].
      * rewrite (local_set_new_value nv W k c r po e I B H). apply wrapst_verify.
      * rewrite wrapst_err, (wrapst_same W k po e c B H). reflexivity.
    + rewrite wrapst_err, (wrapst_same W k po e c B H). reflexivity.
  - subst p. cbn [tl]. destruct un; apply (local_upd_step _ W k c r po e I B H).
  - subst p. cbn [tl]. apply (local_upd_step _ W k c r po e I B H).
  - (* remove_one *)
    subst p. cbn [tl]. cbn in HO. destruct r as [|k2 r]; [congruence|].
    unfold remove_one. rewrite removelast_cons2, last_cons2.
    set (op := removelast (k2 :: r)). set (kk := key_atom (last (k2 :: r) (PIdx 0))).
    cbn [root]. rewrite (resolve_box W k op c H).
    destruct (resolve c op) as [obj|].
    2:{ rewrite wrapst_err, (wrapst_same W k po e c B H). reflexivity. }
    assert (D : forall k3 cur, verify bidir (Some v) cur (del_elem (mkSt W po e) (PKey k :: op) k3)
                = wrapst W k po e (verify bidir (Some v) cur (del_elem (mkSt c [] 0) op k3))).
    { intros k3 cur. rewrite (local_del_elem k3 W k c op po e I B H). apply wrapst_verify. }
    assert (Sm : mkSt W po e = wrapst W k po e (mkSt c [] 0)) by (symmetry; apply wrapst_same; assumption).
    cbv zeta. destruct obj; try (destruct (get_item _ kk); [apply D|exact Sm]).
    destruct (match get_item (VList xs) kk with Some c0 => negb (py_eqv c0 v) | None => true end); [|apply D].
    destruct (int_of_atom kk); [|exact Sm]. destruct (find_closest _ _ _); [apply D|exact Sm].
  - (* add_one *)
    subst p. cbn [tl]. cbn in HO. destruct r as [|k2 r]; [congruence|].
    unfold add_one. rewrite removelast_cons2, last_cons2.
    set (op := removelast (k2 :: r)). set (kk := key_atom (last (k2 :: r) (PIdx 0))).
    set (nv := match v with Some x => x | None => VAtom ANone end).
    cbn [root]. rewrite (resolve_box W k op c H).
    destruct (resolve c op) as [obj|].
    2:{ rewrite wrapst_err, (wrapst_same W k po e c B H). reflexivity. }
    assert (Sm : mkSt W po e = wrapst W k po e (mkSt c [] 0)) by (symmetry; apply wrapst_same; assumption).
    assert (A : forall s', set_new_value (wrapst W k po e s') (PKey k :: k2 :: r) nv
                         = wrapst W k po e (set_new_value s' (k2 :: r) nv)).
    { intros s'. apply (local_after (fun p s => set_new_value s p nv) (fun _ => True) (local_set_new_value nv)
                          (fun p => framed_set_new_value p nv) W k c (k2 :: r) po e s' I B H). }
    cbv zeta.
    assert (A0 : set_new_value (mkSt W po e) (PKey k :: k2 :: r) nv = wrapst W k po e (set_new_value (mkSt c [] 0) (k2 :: r) nv)).
    { rewrite Sm at 1. apply A. }
    destruct obj; try exact A0. destruct ins; [|exact A0].
    destruct (int_of_atom kk); [|exact A0]. destruct (_ && _); [|exact A0].
    pose proof (local_upd_step (fun _ => Some (VList (list_insert xs (Z.to_nat z) (VAtom ANone)))) W k c op po e I B H) as U.
    unfold upd_step in U. cbn [root] in U. rewrite U. apply A.
  - subst p. cbn [tl]. apply (local_upd_step _ W k c r po e I B H).
Qed.


(* ------------------------------------------------------------------ *)
(* simulation of the run on a container by the runs on its children    *)
(* ------------------------------------------------------------------ *)
Definition fkey (x : item) : option atom :=
  match ipath x with PKey k :: _ => Some k | _ => None end.
Definition sub (k : atom) (P : list path) : list path :=
  flat_map (fun p => match p with PKey k' :: r => if atom_eqb k' k then [r] else [] | _ => [] end) P.

Lemma sub_app k P Q : sub k (P ++ Q) = sub k P ++ sub k Q.
Proof. unfold sub. apply flat_map_app. Qed.
Lemma sub_cons_same k P : sub k (map (cons (PKey k)) P) = P.
Proof. unfold sub. induction P as [|p P IH]; cbn; [reflexivity|]. rewrite atom_eqb_refl. cbn. rewrite IH. reflexivity. Qed.
Lemma sub_cons_other k k' P : k' <> k -> sub k (map (cons (PKey k')) P) = [].
Proof.
  intros N. unfold sub. induction P as [|p P IH]; cbn; [reflexivity|].
  destruct (atom_eqb k' k) eqn:E; [apply atom_eqb_eq in E; congruence|]. exact IH.
Qed.

(* the keys K address pairwise distinct existing slots of W *)
Definition sepK (K : list atom) (W : value) : Prop :=
  match W with
  | VList xs => forall k, In k K -> exists i, k = ik i /\ i < length xs
  | VDict kvs => (forall k, In k K -> mem_atom k (map fst kvs) = true) /\
                 (forall k k', In k K -> In k' K -> k <> k' -> py_eq k k' = false)
  | _ => False
  end.

Lemma sepK_box K W : sepK K W -> box W = true.
Proof. destruct W; cbn; intros H; try contradiction; reflexivity. Qed.

Lemma sepK_get K W k : sepK K W -> In k K -> exists c, get_item W k = Some c.
Proof.
  destruct W as [a|xs|xs|kvs|xs|xs]; cbn [sepK]; try contradiction; intros H Hk.
  - destruct (H k Hk) as (i & -> & Hi). rewrite get_item_list_ik.
    destruct (nth_error xs i) eqn:E; [eexists; reflexivity|]. apply nth_error_None in E. lia.
  - destruct H as [H _]. specialize (H k Hk). cbn [get_item].
    destruct (assoc k kvs) eqn:E; [eexists; reflexivity|]. apply assoc_None in E. congruence.
Qed.

Lemma ik_inj i j : ik i = ik j -> i = j.
Proof. unfold ik. intros H. inversion H. lia. Qed.

Lemma sepK_set K W k v W' : sepK K W -> In k K -> set_item W k v = Some W' ->
  sepK K W' /\ get_item W' k = Some v /\ (forall k', In k' K -> k' <> k -> get_item W' k' = get_item W k').
Proof.
  destruct W as [a|xs|xs|kvs|xs|xs]; cbn [sepK]; try contradiction; intros H Hk HS.
  - destruct (H k Hk) as (i & -> & Hi). rewrite set_item_list_ik in HS by exact Hi. inversion HS; subst W'.
    split; [|split].
    + cbn [sepK]. intros k' Hk'. destruct (H k' Hk') as (j & -> & Hj). exists j. split; [reflexivity|].
      rewrite repl_length by exact Hi. exact Hj.
    + rewrite get_item_list_ik. apply repl_nth_same. exact Hi.
    + intros k' Hk' N. destruct (H k' Hk') as (j & -> & Hj). rewrite !get_item_list_ik.
      apply repl_nth_other; [exact Hi|]. intros E. subst j. congruence.
  - destruct H as [H1 H2]. cbn in HS. inversion HS; subst W'. split; [|split].
    + cbn [sepK]. split; [|exact H2]. intros k' Hk'. rewrite dict_set_keys by (apply H1; exact Hk). apply H1. exact Hk'.
    + cbn. apply assoc_dict_set_same.
    + intros k' Hk' N. cbn. apply assoc_dict_set_other. apply H2; try assumption. congruence.
Qed.

(* what a [set_item] at a key of K leaves alone *)
Definition same_off (K : list atom) (W W' : value) : Prop :=
  match W, W' with
  | VList a, VList b => length a = length b /\ forall j, ~ In (ik j) K -> nth_error a j = nth_error b j
  | VDict a, VDict b => map fst a = map fst b /\
                        forall k', (forall k, In k K -> py_eq k k' = false) -> assoc k' a = assoc k' b
  | _, _ => False
  end.

Lemma same_off_refl K W : box W = true -> same_off K W W.
Proof. destruct W; try discriminate; intros _; cbn; split; intros; reflexivity. Qed.

Lemma same_off_trans K W1 W2 W3 : same_off K W1 W2 -> same_off K W2 W3 -> same_off K W1 W3.
Proof.
  destruct W1, W2; cbn; try contradiction; destruct W3; cbn; try contradiction;
    intros [A1 A2] [B1 B2]; (split; [congruence|]); intros j Hj; rewrite A2 by exact Hj; apply B2; exact Hj.
Qed.

Lemma same_off_set K W k v W' : sepK K W -> In k K -> set_item W k v = Some W' -> same_off K W W'.
Proof.
  destruct W as [a|xs|xs|kvs|xs|xs]; cbn [sepK]; try contradiction; intros H Hk HS.
  - destruct (H k Hk) as (i & -> & Hi). rewrite set_item_list_ik in HS by exact Hi. inversion HS; subst W'.
    cbn. split; [symmetry; apply repl_length; exact Hi|]. intros j Hj. symmetry. apply repl_nth_other; [exact Hi|].
    intros E. subst j. contradiction.
  - destruct H as [H1 H2]. cbn in HS. inversion HS; subst W'. cbn. split.
    + symmetry. apply dict_set_keys. apply H1. exact Hk.
    + intros k' Hk'. symmetry. apply assoc_dict_set_other. apply Hk'. exact Hk.
Qed.

Definition updS (S : atom -> st) (k : atom) (s' : st) : atom -> st :=
  fun k' => if atom_eqb k' k then s' else S k'.

Definition Rel (K : list atom) (s : st) (S : atom -> st) : Prop :=
  sepK K (root s) /\
  (forall k, In k K -> get_item (root s) k = Some (root (S k))) /\
  (forall k, In k K -> sub k (post s) = post (S k)) /\
  (forall p, In p (post s) -> exists k r, p = PKey k :: r /\ In k K) /\
  ((forall k, In k K -> errs (S k) = 0) -> errs s = 0).

Lemma rel_child_step K s S x k r :
  Rel K s S -> ipath x = PKey k :: r -> In k K -> okr x r ->
  Rel K (istep s x) (updS S k (istep (S k) (irestrict x))) /\
  exists v, set_item (root s) k v = Some (root (istep s x)).
Proof.
  intros (HS & HG & HP & HQ & HE) Hp Hk Ho.
  destruct s as [W po e]. cbn [root post errs] in *.
  pose proof (sepK_box K W HS) as B. pose proof (HG k Hk) as Gk.
  rewrite (istep_local x W k (root (S k)) r po e Hp Ho B Gk).
  set (L := istep (mkSt (root (S k)) [] 0) (irestrict x)).
  assert (EL : istep (S k) (irestrict x) = frame (post (S k)) (errs (S k)) L).
  { destruct (S k) as [c1 po1 e1]. cbn [root post errs]. apply (framed_istep conv bidir). }
  destruct (box_get_set W k (root (S k)) (root L) B Gk) as (W' & HW & _).
  unfold wrapst. rewrite HW.
  destruct (sepK_set K W k (root L) W' HS Hk HW) as (HS' & Gk' & Go').
  split; [|exists (root L); exact HW].
  unfold Rel, updS. cbn [root post errs]. repeat split.
  - exact HS'.
  - intros k' Hk'. destruct (atom_eqb k' k) eqn:E.
    + apply atom_eqb_eq in E. subst k'. rewrite EL. cbn. exact Gk'.
    + rewrite Go'; [apply HG; exact Hk'|exact Hk'|]. intros E2. subst k'. rewrite atom_eqb_refl in E. discriminate.
  - intros k' Hk'. rewrite sub_app. destruct (atom_eqb k' k) eqn:E.
    + apply atom_eqb_eq in E. subst k'. rewrite sub_cons_same, EL. cbn. rewrite HP by exact Hk. reflexivity.
    + rewrite sub_cons_other, app_nil_r; [apply HP; exact Hk'|]. intros E2. subst k'. rewrite atom_eqb_refl in E. discriminate.
  - intros p Hp'. apply in_app_or in Hp' as [Hp'|Hp']; [apply HQ; exact Hp'|].
    apply in_map_iff in Hp' as (r' & <- & _). exists k, r'. split; [reflexivity|exact Hk].
  - intros Hall.
    assert (Z : errs (S k) = 0 /\ errs L = 0).
    { specialize (Hall k Hk). rewrite atom_eqb_refl, EL in Hall. cbn in Hall. lia. }
    destruct Z as [Z1 Z2]. rewrite Z2, Nat.add_0_r. apply HE. intros k' Hk'.
    destruct (atom_eqb k' k) eqn:E.
    + apply atom_eqb_eq in E. subst k'. exact Z1.
    + specialize (Hall k' Hk'). rewrite E in Hall. exact Hall.
Qed.


Lemma Rel_ext K s S S' : (forall k, In k K -> S k = S' k) -> Rel K s S -> Rel K s S'.
Proof.
  intros E (H1 & H2 & H3 & H4 & H5). unfold Rel. repeat split; try assumption.
  - intros k Hk. rewrite <- E by exact Hk. apply H2. exact Hk.
  - intros k Hk. rewrite <- E by exact Hk. apply H3. exact Hk.
  - intros Hall. apply H5. intros k Hk. rewrite E by exact Hk. apply Hall. exact Hk.
Qed.

Section RelFold.
Variable K : list atom.
Variable Q : Type.
Variable Inv : Q -> value -> Prop.
Variable nextR : Q -> item -> Q -> Prop.
Variable own : item -> bool.

Definition cls (k : atom) (x : item) : bool :=
  negb (own x) && match fkey x with Some k' => atom_eqb k' k | None => false end.
Definition runS (S : atom -> st) (l : list item) : atom -> st :=
  fun k => irun (map irestrict (filter (cls k) l)) (S k).

Inductive own_run : Q -> list item -> Q -> Prop :=
| own_run_nil q : own_run q [] q
| own_run_own q q' qf x l : own x = true -> nextR q x q' -> own_run q' l qf -> own_run q (x :: l) qf
| own_run_child q qf x l : own x = false -> own_run q l qf -> own_run q (x :: l) qf.

Hypothesis Hinv_set : forall q W k v W', Inv q W -> In k K -> set_item W k v = Some W' -> Inv q W'.
Hypothesis Hown : forall q q' s S x, Rel K s S -> Inv q (root s) -> own x = true -> nextR q x q' ->
  Rel K (istep s x) S /\ Inv q' (root (istep s x)).

Lemma rel_fold l : forall s S q qf,
  (forall x, In x l -> own x = false -> exists k r, ipath x = PKey k :: r /\ In k K /\ okr x r) ->
  Rel K s S -> Inv q (root s) -> own_run q l qf ->
  Rel K (irun l s) (runS S l) /\ Inv qf (root (irun l s)).
Proof.
  induction l as [|x l IH]; intros s S q qf Hch HR HI HO.
  - inversion HO; subst. split; [|exact HI]. eapply Rel_ext; [|exact HR]. intros k _. reflexivity.
  - cbn [irun fold_left]. change (fold_left istep l (istep s x)) with (irun l (istep s x)).
    inversion HO as [|q0 q' qf0 x0 l0 Ox Nx HO'|q0 qf0 x0 l0 Ox HO']; subst.
    + destruct (Hown q q' s S x HR HI Ox Nx) as [HR' HI'].
      destruct (IH (istep s x) S q' qf (fun y Hy => Hch y (or_intror Hy)) HR' HI' HO') as [A B].
      split; [|exact B]. eapply Rel_ext; [|exact A].
      intros k _. unfold runS. cbn [filter]. unfold cls at 2. rewrite Ox. reflexivity.
    + destruct (Hch x (or_introl eq_refl) Ox) as (k0 & r & Hp & Hk0 & Hokr).
      destruct (rel_child_step K s S x k0 r HR Hp Hk0 Hokr) as [HR' (v & Hv)].
      assert (HI' : Inv q (root (istep s x))) by (eapply Hinv_set; eassumption).
      destruct (IH (istep s x) _ q qf (fun y Hy => Hch y (or_intror Hy)) HR' HI' HO') as [A B].
      split; [|exact B]. eapply Rel_ext; [|exact A].
      intros k _. unfold runS, updS. cbn [filter]. unfold cls at 2. rewrite Ox. unfold fkey. rewrite Hp. cbn [negb andb].
      destruct (atom_eqb k0 k) eqn:E.
      * apply atom_eqb_eq in E. subst k0. rewrite atom_eqb_refl. reflexivity.
      * destruct (atom_eqb k k0) eqn:E2; [apply atom_eqb_eq in E2; subst k0; rewrite atom_eqb_refl in E; discriminate|].
        reflexivity.
Qed.
End RelFold.

(* runs without own items *)
Lemma rel_fold_children K l s S :
  (forall x, In x l -> exists k r, ipath x = PKey k :: r /\ In k K /\ okr x r) ->
  Rel K s S ->
  Rel K (irun l s) (runS (fun _ => false) S l) /\ same_off K (root s) (root (irun l s)).
Proof.
  intros Hch HR.
  assert (HO : own_run unit (fun _ _ _ => False) (fun _ => false) tt l tt).
  { clear. induction l as [|x l IH]; [constructor|apply own_run_child; [reflexivity|exact IH]]. }
  assert (S0 : sepK K (root s)) by (destruct HR as [HS _]; exact HS).
  pose proof (rel_fold K unit (fun _ W => sepK K W /\ same_off K (root s) W) (fun _ _ _ => False) (fun _ => false)) as RF.
  destruct (RF) with (l := l) (s := s) (S := S) (q := tt) (qf := tt) as [A B]; try assumption.
  - intros q W k v W' [HI1 HI2] Hk HS. split.
    + eapply sepK_set; eassumption.
    + eapply same_off_trans; [exact HI2|]. eapply same_off_set; eassumption.
  - intros; contradiction.
  - intros x Hx _. apply Hch. exact Hx.
  - split; [exact S0|]. apply same_off_refl. eapply sepK_box; exact S0.
  - split; [exact A|apply B].
Qed.

End Local.

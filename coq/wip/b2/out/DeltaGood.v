(** C01 - the statement proved for every node of the two inputs, and the
    guard that follows the pairing of the ordered diff. *)
From Coq Require Import List ZArith NArith Bool Arith Lia Permutation.
Import ListNotations.
From DD Require Import Base.PyStr Base.Value Base.ValueFacts Path.PathModel Diff.Tree Diff.DiffModel
  Diff.DiffFacts Diff.DiffFaithful Delta.DeltaModel Delta.DeltaFacts Delta.DeltaLocal Delta.DeltaEntries
  Delta.DeltaStruct Delta.DeltaRun Delta.DeltaGuard.

Definition nos (_ : path) : bool := false.

Section Good.
Variable hatom : atom -> pystr.
Variable udiff : pystr -> pystr -> pystr.
Variable ops : path -> list value -> list value -> list opcode.
Variable c : cfg.
Variable conv : ty -> value -> option value.
Variables bidir always : bool.

Definition E (t1 t2 : value) (q : path) : list entry * list path :=
  diff hatom udiff ops nos nos c t1 t2 q q.
Definition D (T1 T2 t1 t2 : value) (q : path) : delta :=
  to_delta conv bidir always ops T1 T2 (mutual (fst (E t1 t2 q))) (snd (E t1 t2 q)).

(* the run of the delta d (paths cut by n leading keys) on the base v ends, for every
   admissible visiting order of the sorted passes, without error in t2 *)
Definition runs_to (d : delta) (n : nat) (v t2 : value) : Prop :=
  forall P, Arr (sbase n d) P ->
    errs (finish conv bidir (run_passes conv bidir P (mkSt v [] 0))) = 0 /\
    veqb (root (finish conv bidir (run_passes conv bidir P (mkSt v [] 0)))) t2 = true.

(* from t1 itself *)
Definition GoodD0 (d : delta) (n : nat) (t1 t2 : value) : Prop := d_moved d = [] /\ runs_to d n t1 t2.
(* from every well-formed base that equals t1 up to dict / set order *)
Definition GoodD (d : delta) (n : nat) (t1 t2 : value) : Prop :=
  d_moved d = [] /\ forall v, wf v = true -> veqb v t1 = true -> runs_to d n v t2.

Lemma GoodD_GoodD0 d n t1 t2 : wf t1 = true -> GoodD d n t1 t2 -> GoodD0 d n t1 t2.
Proof. intros W [Hm H]. split; [exact Hm|]. apply H; [exact W|apply veqb_refl; exact W]. Qed.

Lemma GoodD0_exact d n t1 t2 : ordfree t1 = true -> GoodD0 d n t1 t2 -> GoodD d n t1 t2.
Proof. intros O [Hm H]. split; [exact Hm|]. intros v _ V. apply veqb_ordfree in V; [|exact O]. subst v. exact H. Qed.

Definition Good (t1 t2 : value) (q : path) : Prop :=
  forall T1 T2, resolve T1 q = Some t1 -> resolve T2 q = Some t2 ->
    GoodD (D T1 T2 t1 t2 q) (length q) t1 t2.

(* a type change whose values are omitted is rebuilt by the constructor call:
   the result must be the new value, not merely == to it (finding F7 and its family) *)
Definition tc_guard (t1 t2 : value) : Prop :=
  bidir || always = true \/
  forall a', conv (type_of t2) t1 = Some a' -> py_eqv a' t2 = true ->
    forall v, wf v = true -> veqb v t1 = true -> exists v', conv (type_of t2) v = Some v' /\ veqb v' t2 = true.

(* the guard along the pairing of the ordered diff: tuples hold atoms only and keep
   their length (findings F4/F6); type changes satisfy [tc_guard] *)
Fixpoint okp (t1 t2 : value) {struct t1} : Prop :=
  match t1, t2 with
  | VList xs, VList ys =>
      (fix go (xs ys : list value) {struct xs} : Prop :=
         match xs, ys with
         | x :: xs', y :: ys' => okp x y /\ go xs' ys'
         | _, _ => True
         end) xs ys
  | VTuple xs, VTuple ys =>
      forallb is_atom xs = true /\ forallb is_atom ys = true /\ length xs = length ys
  | VDict kvs1, VDict kvs2 =>
      (fix go (l : list (atom * value)) : Prop :=
         match l with
         | [] => True
         | (k, v1) :: r => match assoc k kvs2 with Some v2 => okp v1 v2 | None => True end /\ go r
         end) kvs1
  | _, _ => if ty_eqb (type_of t1) (type_of t2) then True else tc_guard t1 t2
  end.

Definition okp_list := fix go (xs ys : list value) {struct xs} : Prop :=
  match xs, ys with
  | x :: xs', y :: ys' => okp x y /\ go xs' ys'
  | _, _ => True
  end.
Definition okp_dict (kvs2 : list (atom * value)) := fix go (l : list (atom * value)) : Prop :=
  match l with
  | [] => True
  | (k, v1) :: r => match assoc k kvs2 with Some v2 => okp v1 v2 | None => True end /\ go r
  end.
Lemma okp_list_eq xs ys : okp (VList xs) (VList ys) = okp_list xs ys.
Proof. reflexivity. Qed.
Lemma okp_dict_eq kvs1 kvs2 : okp (VDict kvs1) (VDict kvs2) = okp_dict kvs2 kvs1.
Proof. reflexivity. Qed.

(* the opcode oracle is a valid alignment wherever two all-atom sequences are compared *)
Fixpoint opsv (t1 t2 : value) (q : path) {struct t1} : Prop :=
  match t1, t2 with
  | VList xs, VList ys | VTuple xs, VTuple ys =>
      (forallb is_atom xs = true -> forallb is_atom ys = true -> valid_ops xs ys (ops q xs ys)) /\
      (fix go (xs ys : list value) (i : nat) {struct xs} : Prop :=
         match xs, ys with
         | x :: xs', y :: ys' => opsv x y (snoc q (PIdx i)) /\ go xs' ys' (S i)
         | _, _ => True
         end) xs ys 0
  | VDict kvs1, VDict kvs2 =>
      (fix go (l : list (atom * value)) : Prop :=
         match l with
         | [] => True
         | (k, v1) :: r => match assoc k kvs2 with Some v2 => opsv v1 v2 (snoc q (PKey k)) | None => True end /\ go r
         end) kvs1
  | _, _ => True
  end.

Definition opsv_list (q : path) := fix go (xs ys : list value) (i : nat) {struct xs} : Prop :=
  match xs, ys with
  | x :: xs', y :: ys' => opsv x y (snoc q (PIdx i)) /\ go xs' ys' (S i)
  | _, _ => True
  end.
Definition opsv_dict (q : path) (kvs2 : list (atom * value)) := fix go (l : list (atom * value)) : Prop :=
  match l with
  | [] => True
  | (k, v1) :: r => match assoc k kvs2 with Some v2 => opsv v1 v2 (snoc q (PKey k)) | None => True end /\ go r
  end.
Lemma opsv_list_eq xs ys q : opsv (VList xs) (VList ys) q =
  ((forallb is_atom xs = true -> forallb is_atom ys = true -> valid_ops xs ys (ops q xs ys)) /\ opsv_list q xs ys 0).
Proof. reflexivity. Qed.
Lemma opsv_tuple_eq xs ys q : opsv (VTuple xs) (VTuple ys) q =
  ((forallb is_atom xs = true -> forallb is_atom ys = true -> valid_ops xs ys (ops q xs ys)) /\ opsv_list q xs ys 0).
Proof. reflexivity. Qed.
Lemma opsv_dict_eq kvs1 kvs2 q : opsv (VDict kvs1) (VDict kvs2) q = opsv_dict q kvs2 kvs1.
Proof. reflexivity. Qed.

Lemma opsv_global : (forall p xs ys, forallb is_atom xs = true -> forallb is_atom ys = true -> valid_ops xs ys (ops p xs ys)) ->
  forall t1 t2 q, opsv t1 t2 q.
Proof.
  intros H. induction t1 as [a|xs IH|xs IH|kvs IH|xs|xs] using value_ind'; intros t2 q; destruct t2; try exact I.
  - rewrite opsv_list_eq. split; [apply H|]. generalize 0. revert xs0. induction IH as [|x xs Hx _ IHl]; intros ys i; [exact I|].
    destruct ys; [exact I|]. cbn. split; [apply Hx|apply IHl].
  - rewrite opsv_tuple_eq. split; [apply H|]. generalize 0. revert xs0. induction IH as [|x xs Hx _ IHl]; intros ys i; [exact I|].
    destruct ys; [exact I|]. cbn. split; [apply Hx|apply IHl].
  - rewrite opsv_dict_eq. induction IH as [|[k v] l Hk _ IHl]; [exact I|]. cbn. split; [|exact IHl].
    destruct (assoc k kvs0); [apply Hk|exact I].
Qed.

(* all guards of a pair *)
Definition guards (t1 t2 : value) : Prop :=
  wf t1 = true /\ wf t2 = true /\ alias_free (atoms_of t1 ++ atoms_of t2) /\ okp t1 t2 /\
  (ignore_private c = false \/ (nopriv t1 = true /\ nopriv t2 = true)).

(* ---- deltas without additions and removals ---- *)
Lemma Arr_inplace d n P :
  d_irem d = [] -> d_iadd d = [] -> d_dadd d = [] -> d_drem d = [] ->
  Arr (sbase n d) P ->
  forall s, run_passes conv bidir P s = irun conv bidir (map (istrip n) (p1 d ++ p2 d ++ p3 d ++ p4 d ++ p5 d)) s.
Proof.
  intros H6 H7 H8 H9 HA s. unfold sbase, base in HA. cbn [map] in HA.
  unfold p6, p7, p8, p9 in HA. rewrite H6, H7, H8, H9 in HA. cbn [map] in HA.
  destruct P as [|q1 [|q2 [|q3 [|q4 [|q5 [|q6 [|q7 [|q8 [|q9 [|]]]]]]]]]]; try contradiction.
  cbn in HA. destruct HA as (-> & -> & -> & -> & -> & [P6 _] & [P7 _] & -> & [P9 _]).
  apply Permutation_nil in P6, P7, P9. subst.
  unfold run_passes. cbn [fold_left]. rewrite !map_app, !irun_app. reflexivity.
Qed.

Lemma runs_inplace d n v t2 :
  d_irem d = [] -> d_iadd d = [] -> d_dadd d = [] -> d_drem d = [] ->
  errs (finish conv bidir (irun conv bidir (map (istrip n) (p1 d ++ p2 d ++ p3 d ++ p4 d ++ p5 d)) (mkSt v [] 0))) = 0 ->
  veqb (root (finish conv bidir (irun conv bidir (map (istrip n) (p1 d ++ p2 d ++ p3 d ++ p4 d ++ p5 d)) (mkSt v [] 0)))) t2 = true ->
  runs_to d n v t2.
Proof.
  intros H6 H7 H8 H9 HE HV P HA.
  rewrite (Arr_inplace d n P H6 H7 H8 H9 HA). split; assumption.
Qed.

Lemma GoodD_inplace d n t1 t2 :
  d_moved d = [] -> d_irem d = [] -> d_iadd d = [] -> d_dadd d = [] -> d_drem d = [] ->
  errs (finish conv bidir (irun conv bidir (map (istrip n) (p1 d ++ p2 d ++ p3 d ++ p4 d ++ p5 d)) (mkSt t1 [] 0))) = 0 ->
  veqb (root (finish conv bidir (irun conv bidir (map (istrip n) (p1 d ++ p2 d ++ p3 d ++ p4 d ++ p5 d)) (mkSt t1 [] 0)))) t2 = true ->
  GoodD0 d n t1 t2.
Proof.
  intros Hm H6 H7 H8 H9 HE HV. split; [exact Hm|]. apply runs_inplace; assumption.
Qed.

End Good.

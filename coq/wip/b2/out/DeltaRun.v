(** C01 - [apply] as nine item passes followed by post-processing; valid
    visiting orders of the sorted passes and their restriction to a child. *)
From Coq Require Import List ZArith NArith Bool Arith Lia Permutation.
Import ListNotations.
From DD Require Import Base.PyStr Base.Value Base.ValueFacts Path.PathModel Diff.Tree Diff.DiffModel
  Diff.DiffFacts Delta.DeltaModel Delta.DeltaFacts Delta.DeltaLocal Delta.DeltaStruct.

(* two paths that diverge at an integer key, the first one smaller *)
Definition idx_lt (p1 p2 : path) : Prop :=
  exists q i j r1 r2, p1 = q ++ PKey (AInt i) :: r1 /\ p2 = q ++ PKey (AInt j) :: r2 /\ (i < j)%Z.

Definition desc (l : list item) : Prop := ForallOrdPairs (fun x y => ~ idx_lt (ipath x) (ipath y)) l.
Definition asc (l : list item) : Prop := ForallOrdPairs (fun x y => ~ idx_lt (ipath y) (ipath x)) l.

(* the order oracles of Delta: sorted(..., reverse=True) / sorted(...) *)
Definition ro_ok (ro : list (path * value) -> list (path * value)) : Prop :=
  forall l, Permutation l (ro l) /\ ForallOrdPairs (fun x y => ~ idx_lt (fst x) (fst y)) (ro l).
Definition ao_ok (ao : list (path * option value) -> list (path * option value)) : Prop :=
  forall l, Permutation l (ao l) /\ ForallOrdPairs (fun x y => ~ idx_lt (fst y) (fst x)) (ao l).

(* P is an admissible arrangement of the nine item lists B *)
Definition Arr (B P : list (list item)) : Prop :=
  match B, P with
  | [b1; b2; b3; b4; b5; b6; b7; b8; b9], [q1; q2; q3; q4; q5; q6; q7; q8; q9] =>
      q1 = b1 /\ q2 = b2 /\ q3 = b3 /\ q4 = b4 /\ q5 = b5 /\
      (Permutation b6 q6 /\ desc q6) /\ (Permutation b7 q7 /\ asc q7) /\ q8 = b8 /\
      (Permutation b9 q9 /\ desc q9)
  | _, _ => False
  end.

Lemma FOP_map {A B} (R : A -> A -> Prop) (R' : B -> B -> Prop) (f : A -> B) l :
  (forall x y, In x l -> In y l -> R x y -> R' (f x) (f y)) -> ForallOrdPairs R l -> ForallOrdPairs R' (map f l).
Proof.
  intros H F. induction F as [|a l Ha F IH]; cbn; constructor.
  - apply Forall_forall. intros y Hy. apply in_map_iff in Hy as (y0 & <- & Hy0).
    apply H; [left; reflexivity|right; exact Hy0|]. eapply Forall_forall in Ha; eassumption.
  - apply IH. intros x y Hx Hy. apply H; right; assumption.
Qed.

Lemma FOP_filter {A} (R : A -> A -> Prop) (f : A -> bool) l : ForallOrdPairs R l -> ForallOrdPairs R (filter f l).
Proof.
  intros F. induction F as [|a l Ha F IH]; cbn; [constructor|].
  destruct (f a); [|exact IH]. constructor; [|exact IH].
  apply Forall_forall. intros y Hy. apply filter_In in Hy as [Hy _]. eapply Forall_forall in Ha; eassumption.
Qed.

Lemma Permutation_filter' {A} (f : A -> bool) l l' : Permutation l l' -> Permutation (filter f l) (filter f l').
Proof.
  induction 1 as [|x l l' H IH|x y l|l l' l'' H1 IH1 H2 IH2]; cbn.
  - constructor.
  - destruct (f x); [constructor|]; exact IH.
  - destruct (f x), (f y); try apply Permutation_refl. apply perm_swap.
  - eapply Permutation_trans; eassumption.
Qed.

Section Run.
Variable conv : ty -> value -> option value.
Variable bidir : bool.
Notation irun := (irun conv bidir).

Definition run_passes (P : list (list item)) (s : st) : st := fold_left (fun s l => irun l s) P s.
Definition finish (s : st) : st := irun (map IPost (post s)) s.

Lemma finish_do_post s : finish s = do_post s.
Proof. unfold finish. symmetry. apply do_post_irun. Qed.

End Run.

Lemma desc_of_ro (l : list (path * value)) :
  ForallOrdPairs (fun x y => ~ idx_lt (fst x) (fst y)) l -> desc (map (fun pv => IRem (fst pv) (snd pv)) l).
Proof. unfold desc. apply FOP_map. intros x y _ _ H. exact H. Qed.
Lemma asc_of_ao ins (l : list (path * option value)) :
  ForallOrdPairs (fun x y => ~ idx_lt (fst y) (fst x)) l -> asc (map (fun pv => IAdd ins (fst pv) (snd pv)) l).
Proof. unfold asc. apply FOP_map. intros x y _ _ H. exact H. Qed.

(* the order oracles are only consulted on the lists of one delta *)
Definition orders_ok_at (ro : list (path * value) -> list (path * value))
    (ao : list (path * option value) -> list (path * option value)) (d : delta) : Prop :=
  (Permutation (d_irem d) (ro (d_irem d)) /\ ForallOrdPairs (fun x y => ~ idx_lt (fst x) (fst y)) (ro (d_irem d))) /\
  (Permutation (d_drem d) (ro (d_drem d)) /\ ForallOrdPairs (fun x y => ~ idx_lt (fst x) (fst y)) (ro (d_drem d))) /\
  (Permutation (map (fun pv => (fst pv, Some (snd pv))) (d_iadd d)) (ao (map (fun pv => (fst pv, Some (snd pv))) (d_iadd d))) /\
   ForallOrdPairs (fun x y => ~ idx_lt (fst y) (fst x)) (ao (map (fun pv => (fst pv, Some (snd pv))) (d_iadd d)))).

Lemma orders_ok_of_global ro ao d : ro_ok ro -> ao_ok ao -> orders_ok_at ro ao d.
Proof. intros Hro Hao. unfold orders_ok_at. repeat split; try apply Hro; apply Hao. Qed.

(* [apply] through the item passes *)
Lemma apply_passes conv ro ao d v :
  orders_ok_at ro ao d -> d_moved d = [] ->
  exists P, Arr (base d) P /\
    apply conv ro ao d v =
      (root (finish conv (d_bidir d) (run_passes conv (d_bidir d) P (mkSt v [] 0))),
       errs (finish conv (d_bidir d) (run_passes conv (d_bidir d) P (mkSt v [] 0)))).
Proof.
  intros ([Pr6 Or6] & [Pr9 Or9] & [Pa7 Oa7]) Hm.
  set (q6 := map (fun pv => IRem (fst pv) (snd pv)) (ro (d_irem d))).
  set (q7 := map (fun pv : path * option value => IAdd true (fst pv) (snd pv))
                 (ao (map (fun pv => (fst pv, Some (snd pv))) (d_iadd d)))).
  set (q9 := map (fun pv => IRem (fst pv) (snd pv)) (ro (d_drem d))).
  exists [p1 d; p2 d; p3 d; p4 d; p5 d; q6; q7; p8 d; q9]. split.
  - cbn. repeat split; try reflexivity.
    + unfold p6, q6. apply Permutation_map. exact Pr6.
    + apply desc_of_ro. exact Or6.
    + unfold p7, q7. rewrite <- (map_map (fun pv => (fst pv, Some (snd pv))) (fun pv : path * option value => IAdd true (fst pv) (snd pv))).
      apply Permutation_map. exact Pa7.
    + apply asc_of_ao. exact Oa7.
    + unfold p9, q9. apply Permutation_map. exact Pr9.
    + apply desc_of_ro. exact Or9.
  - unfold apply. rewrite <- (finish_do_post conv (d_bidir d)). cbv zeta.
    unfold run_passes. cbn [fold_left].
    unfold p1, p2, p3, p4, p5, p8, q6, q7, q9.
    rewrite <- (do_values_changed_irun conv (d_bidir d)), <- (do_set_union_irun conv (d_bidir d)), <- (do_set_difference_irun conv (d_bidir d)), <- (do_type_changes_irun conv (d_bidir d)), <- (do_opcodes_irun conv (d_bidir d)).
    rewrite <- !(fold_remove_irun conv (d_bidir d)).
    rewrite <- (fold_add_irun conv (d_bidir d)).
    assert (E8 : forall s, irun conv (d_bidir d) (map (fun pv => IAdd false (fst pv) (Some (snd pv))) (d_dadd d)) s
                 = do_item_added ao false false (map (fun pv => (fst pv, Some (snd pv))) (d_dadd d)) s).
    { intros s. unfold do_item_added. rewrite (fold_add_irun conv (d_bidir d)), map_map. reflexivity. }
    rewrite E8.
    assert (E6 : forall s, do_iterable_item_removed ro (d_bidir d) d s
                 = fold_left (fun s pv => remove_one (d_bidir d) s (fst pv) (snd pv)) (ro (d_irem d)) s).
    { intros s. unfold do_iterable_item_removed, do_item_removed. rewrite Hm. cbn. rewrite app_nil_r. reflexivity. }
    assert (E7 : forall s, do_iterable_item_added ao d s
                 = fold_left (fun s pv => add_one true s (fst pv) (snd pv)) (ao (map (fun pv => (fst pv, Some (snd pv))) (d_iadd d))) s).
    { intros s. unfold do_iterable_item_added. rewrite Hm. cbn [map]. rewrite app_nil_r.
      destruct (map (fun pv => (fst pv, Some (snd pv))) (d_iadd d)) eqn:E.
      - apply Permutation_nil in Pa7. rewrite Pa7. reflexivity.
      - reflexivity. }
    rewrite <- E6, <- E7. reflexivity.
Qed.

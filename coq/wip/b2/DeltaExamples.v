(** C01 - concrete oracles and a concrete pair inside the guards (non-vacuity),
    and the witnesses that refute the unguarded statement. *)
From Coq Require Import List ZArith NArith Bool Arith Lia Permutation String.
Import ListNotations.
From DD Require Import Base.PyStr Base.Value Base.ValueFacts Path.PathModel Diff.Tree Diff.DiffModel
  Diff.DiffFacts Delta.DeltaModel DeltaB.DeltaFacts DeltaB.DeltaStruct DeltaB.DeltaRun DeltaB.DeltaGuard
  DeltaB.DeltaGood DeltaB.DeltaRoundtrip DeltaB.DeltaChain.

(* ---- an injective stand-in for DeepHash on set members ---- *)
Definition zcode (z : Z) : N := if Z.ltb z 0 then 2 * Z.to_N (- z) + 1 else 2 * Z.to_N z.
Definition hatom_ex (a : atom) : pystr :=
  match a with
  | ANone => [0%N]
  | ABool b => [1%N; if b then 1%N else 0%N]
  | AInt z => [2%N; zcode z]
  | AHalf t => [3%N; zcode t]
  | AStr s => 4%N :: s
  | ABytes s => 5%N :: s
  end.

Lemma zcode_inj x y : zcode x = zcode y -> x = y.
Proof. unfold zcode. destruct (Z.ltb_spec x 0), (Z.ltb_spec y 0); lia. Qed.

Lemma hatom_ex_inj a b : hatom_ex a = hatom_ex b -> a = b.
Proof.
  destruct a as [|x|x|x|x|x], b as [|y|y|y|y|y]; cbn; intros H; try discriminate; try reflexivity; inversion H; subst; try reflexivity.
  - destruct x, y; try reflexivity; discriminate.
  - f_equal. apply zcode_inj. assumption.
  - f_equal. apply zcode_inj. assumption.
Qed.

Definition conv_none (_ : ty) (_ : value) : option value := None.
Lemma conv_none_typed ty0 v v' : conv_none ty0 v = Some v' -> type_of v' = ty0.
Proof. discriminate. Qed.

(* opcode oracle given as a table indexed by the path of the compared lists *)
Definition ops_tbl (t : list (path * list opcode)) (p : path) (_ _ : list value) : list opcode :=
  match find (fun x => path_eqb (fst x) p) t with Some x => snd x | None => [] end.

Definition s (x : string) : atom := AStr (s2p x).
Definition I (z : Z) : value := VAtom (AInt z).
Definition Sv (x : string) : value := VAtom (s x).

Definition ex_cfg : cfg := mkCfg false 0 1 true.
Definition ex_t1 : value :=
  VDict [ (s "a", VList [I 1; I 2; I 3; I 4]);
          (s "b", VTuple [I 1; Sv "x"]);
          (s "s", VSet [AInt 1; AInt 2]);
          (s "r", I 0);
          (s "q", I 5);
          (s "n", VList [VList [I 1]; VList [I 2]; I 6]) ].
Definition ex_t2 : value :=
  VDict [ (s "a", VList [I 1; I 9; I 8; I 2; I 3; I 4]);
          (s "b", VTuple [I 1; Sv "y"]);
          (s "s", VSet [AInt 2; AInt 3]);
          (s "z", Sv "new");
          (s "q", Sv "five");
          (s "n", VList [VList [I 1; I 7]]) ].
Definition ex_ops := ops_tbl
  [ ([PKey (s "a")], [mkOp OEqual 0 1 0 1; mkOp OInsert 1 1 1 3; mkOp OEqual 1 4 3 6]);
    ([PKey (s "b")], [mkOp OEqual 0 1 0 1; mkOp OReplace 1 2 1 2]);
    ([PKey (s "n"); PIdx 0], [mkOp OEqual 0 1 0 1; mkOp OInsert 1 1 1 2]) ].

Definition ex_delta : delta := delta_of hatom_ex (fun _ _ => []) ex_ops ex_cfg conv_none false false ex_t1 ex_t2.

Lemma ex_guards : guards ex_cfg conv_none false false ex_t1 ex_t2.
Proof. apply (guardsb_sound ex_cfg conv_none false false conv_none_typed). vm_compute. reflexivity. Qed.

Ltac conj := repeat match goal with |- _ /\ _ => split end.
Ltac valid_ops_tac :=
  intros _ _; split;
  [vm_compute; conj; try reflexivity; try lia
  |repeat (apply Forall_cons || apply Forall_nil); vm_compute; conj; try reflexivity; try lia; repeat constructor].

Lemma ex_opsv : opsv ex_ops ex_t1 ex_t2 [].
Proof.
  unfold ex_t1, ex_t2. rewrite opsv_dict_eq. cbn [opsv_dict].
  repeat match goal with |- context [assoc ?k ?l] => let r := eval vm_compute in (assoc k l) in change (assoc k l) with r end.
  cbn beta iota. conj; try exact Logic.I.
  - rewrite opsv_list_eq. split; [valid_ops_tac|cbn; conj; exact Logic.I].
  - rewrite opsv_tuple_eq. split; [valid_ops_tac|cbn; conj; exact Logic.I].
  - rewrite opsv_list_eq. split; [intros H; discriminate H|]. cbn [opsv_list]. conj; try exact Logic.I.
    rewrite opsv_list_eq. split; [valid_ops_tac|cbn; conj; exact Logic.I].
Qed.

Lemma ex_orders : orders_ok_at (@rev _) (fun l => l) ex_delta.
Proof.
  unfold orders_ok_at.
  repeat match goal with |- context [d_irem ex_delta] => let r := eval vm_compute in (d_irem ex_delta) in change (d_irem ex_delta) with r end.
  repeat match goal with |- context [d_drem ex_delta] => let r := eval vm_compute in (d_drem ex_delta) in change (d_drem ex_delta) with r end.
  repeat match goal with |- context [d_iadd ex_delta] => let r := eval vm_compute in (d_iadd ex_delta) in change (d_iadd ex_delta) with r end.
  repeat split; try apply Permutation_rev; try apply Permutation_refl; cbn [rev app map];
    repeat constructor; apply not_idx_lt; reflexivity.
Qed.

(* the theorem applies to the example, and the result is what the model computes *)
Lemma ex_roundtrip :
  exists t2', apply conv_none (@rev _) (fun l => l) ex_delta ex_t1 = (t2', 0) /\ veqb t2' ex_t2 = true.
Proof.
  apply (roundtrip_at hatom_ex (fun _ _ => []) ex_ops ex_cfg conv_none false false hatom_ex_inj conv_none_typed
           (@rev _) (fun l => l) ex_t1 ex_t2 ex_guards ex_opsv ex_orders).
Qed.

Lemma ex_nontrivial :
  List.length (d_val ex_delta) = 1 /\ List.length (d_type ex_delta) = 1 /\ List.length (d_dadd ex_delta) = 1 /\ List.length (d_drem ex_delta) = 1 /\
  List.length (d_iadd ex_delta) = 1 /\ List.length (d_irem ex_delta) = 2 /\ List.length (d_sadd ex_delta) = 1 /\ List.length (d_srem ex_delta) = 1 /\
  List.length (d_ops ex_delta) = 1 /\ veqb ex_t1 ex_t2 = false.
Proof. vm_compute. repeat split; reflexivity. Qed.

(* ---- the unguarded statement is false of the model ---- *)
Definition rt (hatom : atom -> pystr) ops c conv bidir always t1 t2 : value * nat :=
  apply conv (@rev _) (fun l => l) (delta_of hatom (fun _ _ => []) ops c conv bidir always t1 t2) t1.
Definition no_ops (_ : path) (_ _ : list value) : list opcode := [].

(* KA: == atoms of different type *)
Definition ka_t1 : value := VSet [ABool false; s "a"].
Definition ka_t2 : value := VSet [AInt 0; s "a"].
Definition ka_res : value := VSet [s "a"].
Lemma refuted_alias :
  wf ka_t1 = true /\ wf ka_t2 = true /\
  rt hatom_ex no_ops ex_cfg conv_none false false ka_t1 ka_t2 = (ka_res, 0) /\ veqb ka_res ka_t2 = false.
Proof. vm_compute. repeat split; reflexivity. Qed.

(* F4: a container inside a tuple *)
Definition f4_t1 : value := VTuple [I 1; VSet [AInt 2]].
Definition f4_t2 : value := VTuple [I 1; VSet [AInt 3]].
Lemma refuted_tuple_container :
  rt hatom_ex no_ops (mkCfg true 0 1 true) conv_none false false f4_t1 f4_t2 = (f4_t1, 2) /\ veqb f4_t1 f4_t2 = false.
Proof. vm_compute. split; reflexivity. Qed.

(* F6: a tuple that changes its length *)
Definition f6_t1 : value := VTuple [I 1; I 2].
Definition f6_t2 : value := VTuple [I 1; I 7; I 2].
Definition f6_ops := ops_tbl [([], [mkOp OEqual 0 1 0 1; mkOp OInsert 1 1 1 2; mkOp OEqual 1 2 2 3])].
Lemma refuted_tuple_length :
  rt hatom_ex f6_ops ex_cfg conv_none false false f6_t1 f6_t2 = (VTuple [I 1; I 7], 0) /\ veqb (VTuple [I 1; I 7]) f6_t2 = false.
Proof. vm_compute. split; reflexivity. Qed.

(* F7 family: values of a type change omitted although new_type(old) is only == to the new value *)
Definition f7_t1 : value := VList [VList [I 1; VSet [AInt 2]]].
Definition f7_t2 : value := VDict [(AInt 1, VFrozen [AInt 2])].
Definition f7_conv (t : ty) (v : value) : option value :=
  match t with TDict => if value_eqb v f7_t1 then Some (VDict [(AInt 1, VSet [AInt 2])]) else None | _ => None end.
Lemma f7_conv_typed ty0 v v' : f7_conv ty0 v = Some v' -> type_of v' = ty0.
Proof. unfold f7_conv. destruct ty0; try discriminate. destruct (value_eqb v f7_t1); [|discriminate]. intros H. inversion H. reflexivity. Qed.
Lemma refuted_omitted_values :
  wf f7_t1 = true /\ wf f7_t2 = true /\ alias_freeb (atoms_of f7_t1 ++ atoms_of f7_t2) = true /\
  rt hatom_ex no_ops ex_cfg f7_conv false false f7_t1 f7_t2 = (VDict [(AInt 1, VSet [AInt 2])], 0) /\
  veqb (VDict [(AInt 1, VSet [AInt 2])]) f7_t2 = false.
Proof. vm_compute. repeat split; reflexivity. Qed.

(* private keys are invisible to the diff *)
Definition pk_t1 : value := VDict [(s "__a", I 1)].
Definition pk_t2 : value := VDict [(s "__a", I 2)].
Lemma refuted_private_keys :
  rt hatom_ex no_ops ex_cfg conv_none false false pk_t1 pk_t2 = (pk_t1, 0) /\ veqb pk_t1 pk_t2 = false.
Proof. vm_compute. split; reflexivity. Qed.

(** C10 - report_repetition, second part.

    A. the delta view of a report_repetition run: every item of
       iterable_items_added_at_indexes comes from an added level or from the
       record of a repetition_change level, and then its index IS a position of
       that record's hash in t2's list                 ([run_rep_delta_added]).
    B. the exact condition for a t2-side link: which index the code hands to
       the t2 child relationship and when the item of t2 at that index carries
       the level's hash                                ([paired_t2_index_iff],
       [repetition_t2_index_iff]; the two witnesses of finding
       C10-repetition-t2-index are the two ways the condition fails). *)
From Coq Require Import List ZArith NArith Bool Arith Lia.
Import ListNotations.
From DD Require Import Base.PyStr Base.Value Base.ValueFacts Path.PathModel
  Diff.Tree Diff.DiffModel Diff.DiffFacts Diff.DiffFaithful Hash.HashModel Hash.HashProofsBase
  DiffIO.DiffIOModel DiffIO.DiffIOProofs Diff.TextView Delta.DeltaModel Delta.DeltaIO
  Views.ViewsModel Views.ViewsChains Views.ViewsProofs Views.ViewsIO Views.ViewsIOChains Views.ViewsRep Views.ViewsDelta Views.ViewsDeltaProofs.

Lemma Forall2_in_r {A B} (R : A -> B -> Prop) l l' b : Forall2 R l l' -> In b l' -> exists a, In a l /\ R a b.
Proof.
  induction 1 as [|x y l l' Hxy _ IH]; intros Hb; [destruct Hb|].
  destruct Hb as [<-|Hb]; [exists x; split; [left; reflexivity|exact Hxy]|].
  destruct (IH Hb) as (a & Ha & Ra). exists a. split; [right; exact Ha|exact Ra].
Qed.

(* the new indexes of a record are positions of its hash in t2's list (at the true parent path) *)
Lemma rep_rec_new_pos H c t1 t2 e rc i :
  rep_rec_ok H c t1 t2 e rc -> In i (rnew rc) ->
  exists q2 v2 ys y x0, ksim q2 (removelast (ep2 e)) /\ resolve t2 q2 = Some v2 /\ seq_items v2 = Some ys /\
    nth_error ys i = Some y /\ et1 e = Some x0 /\ hv H c true y = hv H c true x0.
Proof.
  intros (_ & p1 & p2 & q1 & q2 & v1 & v2 & xs & ys & h & E1 & E2 & Hs & Ks & R1 & S1 & R2 & S2 & Eo & En & No & Nn & _ & T1 & _) Hi.
  rewrite En in Hi. apply indexes_nth in Hi as [_ Hi]. rewrite Nat.sub_0_r in Hi.
  apply nth_error_map_inv in Hi as (y & Hy & Ey).
  assert (Hf : nth_error (map (hv H c true) xs) (first_of (rold rc)) = Some h).
  { rewrite Eo. apply first_of_index.
    destruct (indexes_of h (map (hv H c true) xs) 0) as [|k ks] eqn:Ek; [rewrite Eo in No; congruence|].
    assert (Hk : In k (indexes_of h (map (hv H c true) xs) 0)) by (rewrite Ek; left; reflexivity).
    apply indexes_nth in Hk as [_ Hk]. eapply nth_error_In; exact Hk. }
  apply nth_error_map_inv in Hf as (x0 & Hx0 & Ex0).
  exists q2, v2, ys, y, x0. rewrite E2. unfold snoc. rewrite removelast_last.
  repeat split; try assumption; [rewrite T1; exact Hx0|congruence].
Qed.

Section DeltaRep.
Variable H : pystr -> pystr.
Variable udiff : pystr -> pystr -> pystr.
Variable skip excl : path -> bool.
Variable c : cfg.
Variable pairs : path -> list (nat * nat).
Variable conv : ty -> value -> option value.

Theorem run_rep_delta_added t1 t2 :
  wf t1 = true -> wf t2 = true ->
  let r := run_diff_io H udiff skip excl c true pairs t1 t2 in
  forall p i v,
    imap_get (pmap_get (io_added (to_delta_io conv false false t1 t2 (fst r) (snd r))) p) i = Some v ->
    (exists e, In e (fst r) /\ ekind e = KIterAdd /\ norm (removelast (ep1 e)) = p /\ last_idx (ep1 e) = i /\ v = item_val e) \/
    (exists e e' rc, In e (fst r) /\ ekind e = KRepetition /\ v = oval (et1 e) /\
       In rc (snd r) /\ rpath rc = ep1 e /\ norm (removelast (ep1 e)) = p /\ In i (rnew rc) /\
       rep_rec_ok H c t1 t2 e' rc /\
       exists q2 v2 ys y x0, ksim q2 (removelast (ep2 e')) /\ resolve t2 q2 = Some v2 /\ seq_items v2 = Some ys /\
         nth_error ys i = Some y /\ et1 e' = Some x0 /\ hv H c true y = hv H c true x0).
Proof.
  intros W1 W2 r p i v Hg. apply io_added_sound in Hg as [Hg|(e & rc & He & K & Hr & Ep & En & Hi & Ev)]; [left; exact Hg|right].
  pose proof (run_io_rep_payload H udiff skip excl c pairs t1 t2 W1 W2) as F. fold r in F.
  destruct (Forall2_in_r _ _ _ rc F Hr) as (e' & _ & Rk).
  exists e, e', rc. split; [exact He|]. split; [exact K|]. split; [exact Ev|]. split; [exact Hr|]. split; [exact Ep|].
  split; [exact En|]. split; [exact Hi|]. split; [exact Rk|]. eapply rep_rec_new_pos; eassumption.
Qed.
End DeltaRep.

(* ---- the t2-side link ---- *)
Section Link.
Variable H : pystr -> pystr.
Variable c : cfg.
Variables xs ys : list value.
Notation hh1 := (h1 H c true xs).
Notation hh2 := (h2 H c true ys).

(* a paired added hash a (removed partner r), reported below t1-index i: the
   code hands the t2 relationship the first index of a when a occurs once in
   t2, else t1's index i.  The t2 item at that index carries a iff ... *)
Theorem paired_t2_index_iff a i :
  In a hh2 ->
  let js := indexes_of a hh2 0 in
  let j' := if Nat.eqb (length js) 1 then first_of js else i in
  (nth_error hh2 j' = Some a <-> (length js = 1 \/ In i js)).
Proof.
  intros Ha js j'. subst j'. destruct (Nat.eqb_spec (length js) 1) as [E|E].
  - split; [intros _; left; exact E|intros _]. apply first_of_index. exact Ha.
  - split.
    + intros Hn. right. subst js.
      assert (G : forall l k i0, nth_error l i0 = Some a -> In (k + i0) (indexes_of a l k)).
      { induction l as [|x l IH]; intros k [|i0] Hn'; cbn in Hn'; try discriminate.
        - inversion Hn'; subst. cbn. rewrite pystr_eqb_refl. left. lia.
        - cbn. apply in_or_app. right. replace (k + S i0) with (S k + i0) by lia. apply IH. exact Hn'. }
      exact (G hh2 0 i Hn).
    + intros [E1|Hi]; [contradiction|]. apply indexes_nth in Hi as [_ Hi]. rewrite Nat.sub_0_r in Hi. exact Hi.
Qed.

(* a repetition_change level of a common hash h sits at t1's first index i0 on
   BOTH sides: right on the t2 side iff h also sits at i0 in t2 *)
Theorem repetition_t2_index_iff h :
  let i0 := first_of (indexes_of h hh1 0) in
  (nth_error hh2 i0 = Some h <-> In i0 (indexes_of h hh2 0)).
Proof.
  intros i0. split.
  - intros Hn.
    assert (G : forall l k i, nth_error l i = Some h -> In (k + i) (indexes_of h l k)).
    { induction l as [|x l IH]; intros k [|i1] Hn'; cbn in Hn'; try discriminate.
      - inversion Hn'; subst. cbn. rewrite pystr_eqb_refl. left. lia.
      - cbn. apply in_or_app. right. replace (k + S i1) with (S k + i1) by lia. apply IH. exact Hn'. }
    exact (G hh2 0 i0 Hn).
  - intros Hi. apply indexes_nth in Hi as [_ Hi]. rewrite Nat.sub_0_r in Hi. exact Hi.
Qed.
End Link.

(* the two witnesses of the finding are the two ways the condition fails:
   [3,1,2] -> [4,4,3]: 4 occurs twice in t2 and t1's index 2 is not one of its places;
   [4,4,1] -> [1,4,2]: 4 is common with different multiplicity and t2 has 1 at t1's first index 0 *)
Example finding_witness_conditions :
  let cfg := mkCfg false 33 100 true in
  let h := hv hexhash cfg true (VAtom (AInt 4)) in
  let ys1 := map (fun z => VAtom (AInt z)) [4; 4; 3]%Z in
  let xs2 := map (fun z => VAtom (AInt z)) [4; 4; 1]%Z in
  let ys2 := map (fun z => VAtom (AInt z)) [1; 4; 2]%Z in
  (length (indexes_of h (h2 hexhash cfg true ys1) 0) = 2 /\ ~ In 2 (indexes_of h (h2 hexhash cfg true ys1) 0)) /\
  ~ In (first_of (indexes_of h (h1 hexhash cfg true xs2) 0)) (indexes_of h (h2 hexhash cfg true ys2) 0).
Proof. vm_compute. repeat split; intros F; repeat (destruct F as [F|F]; [discriminate F|]); exact F. Qed.

From Coq Require Import String.
(* ---- pretty(): the statements of a type change from / to None and of a
   repetition_change level, as the implementation prints them (replayed by the
   harness): the type name of None is NoneType, its value text None ---- *)
Example pretty_none_and_repetition :
  pretty_of 1 (mkEntry KType [PKey (AStr (s2p "a"))] [PKey (AStr (s2p "a"))] (Some (VAtom ANone)) (Some (VAtom (AInt 1))) None)
    = s2p "Type of root['a'] changed from NoneType to int and value changed from None to 1." /\
  pretty_of 1 (mkEntry KType [PIdx 0] [PIdx 0] (Some (VAtom (AInt 1))) (Some (VAtom ANone)) None)
    = s2p "Type of root[0] changed from int to NoneType and value changed from 1 to None." /\
  (exists e, In e (w_io_run (fun _ => []) (ints [4; 4; 1]%Z) (ints [1; 4; 2]%Z)) /\ ekind e = KRepetition /\
             pretty_of 1 e = s2p "Repetition change for item root[0].").
Proof.
  split; [vm_compute; reflexivity|]. split; [vm_compute; reflexivity|].
  exists (mkEntry KRepetition [PIdx 0] [PIdx 0] (Some (VAtom (AInt 4))) (Some (VAtom (AInt 4))) None).
  split; [vm_compute; tauto|]. split; vm_compute; reflexivity.
Qed.

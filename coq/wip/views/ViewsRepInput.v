(** C10 - the guard [sibinj] of the report_repetition theorems as a condition on
    the INPUT alone.

    [sibinj H c t] (ViewsRep.v) speaks about hashes: items of one list with
    equal hashes are structurally equal.  By the exact characterisation of hash
    equality of the Hash block (Hash/HashProofsAlike.v [hash_alike]: for an
    injective, separator-free hasher and tag-safe values, equal hashes iff
    ALIKE, [heqb]) it is the same as [sibinj_in o t]: items of one list that
    are alike under the DeepHash options of the run are structurally equal -
    no hasher in the statement.  It fails only when one list holds two items
    that are alike without being identical in structure: equal sets with
    different iteration order, equal dicts with different insertion order,
    lists that are alike as multisets (ignore_order) but ordered differently. *)
From Coq Require Import List ZArith NArith Bool Arith Lia.
Import ListNotations.
From DD Require Import Base.PyStr Base.Value Base.ValueFacts Diff.Tree Diff.DiffModel Hash.HashModel Hash.HashProofsBase
  Hash.HashProofsC07 Hash.HashAlike Hash.HashProofsAlike Hash.HexHash DiffIO.DiffIOModel DiffIO.DiffIOProofs Views.ViewsRep.

Section Input.
Variable o : hopts.
Fixpoint sibinj_in (v : value) : bool :=
  match v with
  | VList xs | VTuple xs =>
      forallb (fun x => forallb (fun y => implb (heqb o x y) (value_eqb x y)) xs) xs && forallb sibinj_in xs
  | VDict kvs => forallb (fun kv => sibinj_in (snd kv)) kvs
  | _ => true
  end.
End Input.

Lemma io_opts_plain c : plain (io_opts c true) = true.
Proof. reflexivity. Qed.

(* generic: any hasher whose equality is [heqb] on a class [ok] of values closed under items *)
Section Gen.
Variable H : pystr -> pystr.
Variable c : cfg.
Variable ok : value -> Prop.
Hypothesis ok_list : forall xs x, In x xs -> ok (VList xs) -> ok x.
Hypothesis ok_tuple : forall xs x, In x xs -> ok (VTuple xs) -> ok x.
Hypothesis ok_dict : forall kvs k v, In (k, v) kvs -> ok (VDict kvs) -> ok v.
Hypothesis alike : forall x y, ok x -> ok y ->
  (hash_pure H (io_opts c true) x = hash_pure H (io_opts c true) y <-> heqb (io_opts c true) x y = true).

Lemma seq_sibinj_iff xs :
  (forall x, In x xs -> ok x) ->
  forallb (fun x => forallb (fun y => implb (pystr_eqb (hv H c true x) (hv H c true y)) (value_eqb x y)) xs) xs =
  forallb (fun x => forallb (fun y => implb (heqb (io_opts c true) x y) (value_eqb x y)) xs) xs.
Proof.
  intros T. apply forallb_ext_in. intros x Hx. apply forallb_ext_in. intros y Hy. f_equal.
  pose proof (alike x y (T x Hx) (T y Hy)) as A.
  unfold hv. destruct (heqb (io_opts c true) x y) eqn:E.
  - apply pystr_eqb_eq. apply A. reflexivity.
  - destruct (pystr_eqb _ _) eqn:E2; [|reflexivity]. apply pystr_eqb_eq in E2. apply A in E2. congruence.
Qed.

Theorem sibinj_is_input_gen : forall t, ok t -> sibinj H c t = sibinj_in (io_opts c true) t.
Proof.
  induction t as [a|xs IH|xs IH|kvs IH|xs|xs] using value_ind'; intros T; try reflexivity.
  - cbn [sibinj sibinj_in]. rewrite (seq_sibinj_iff xs (fun x Hx => ok_list xs x Hx T)). f_equal.
    apply forallb_ext_in. intros x Hx. rewrite Forall_forall in IH. apply IH; [exact Hx|]. eapply ok_list; eassumption.
  - cbn [sibinj sibinj_in]. rewrite (seq_sibinj_iff xs (fun x Hx => ok_tuple xs x Hx T)). f_equal.
    apply forallb_ext_in. intros x Hx. rewrite Forall_forall in IH. apply IH; [exact Hx|]. eapply ok_tuple; eassumption.
  - cbn [sibinj sibinj_in]. apply forallb_ext_in. intros [k v] Hkv. rewrite Forall_forall in IH. apply (IH (k, v) Hkv).
    eapply ok_dict; eassumption.
Qed.
End Gen.

Lemma val_okb_incl v w : incl (atoms_of v) (atoms_of w) -> val_okb w = true -> val_okb v = true.
Proof.
  unfold val_okb. intros I W. apply forallb_forall. intros a Ha. rewrite forallb_forall in W. apply W, I, Ha.
Qed.

(* every injective hasher with non-empty separator-free outputs, tag-safe values *)
Theorem sibinj_is_input (H : pystr -> pystr) :
  (forall s, s <> [] -> sepfree (H s)) -> (forall s t, H s = H t -> s = t) ->
  forall c t, tag_safe t = true -> sibinj H c t = sibinj_in (io_opts c true) t.
Proof.
  intros H_tok H_inj c t T.
  apply (sibinj_is_input_gen H c (fun v => tag_safe v = true)); try exact T.
  - intros xs x Hx. apply tag_safe_incl, atoms_item_list, Hx.
  - intros xs x Hx. apply tag_safe_incl, atoms_item_tuple, Hx.
  - intros kvs k v Hkv. eapply tag_safe_incl, atoms_dict_val, Hkv.
  - intros x y Tx Ty. apply (hash_alike H H_tok H_inj (io_opts c true) (io_opts_plain c)); assumption.
Qed.

(* no hypothesis on the hasher: the one the correspondence check runs *)
Theorem sibinj_is_input_hexhash c t :
  tag_safe t = true -> val_okb t = true -> sibinj hexhash c t = sibinj_in (io_opts c true) t.
Proof.
  intros T V.
  apply (sibinj_is_input_gen hexhash c (fun v => tag_safe v = true /\ val_okb v = true)); try (split; assumption).
  - intros xs x Hx [A B]. split; [eapply tag_safe_incl|eapply val_okb_incl]; try eassumption; apply atoms_item_list, Hx.
  - intros xs x Hx [A B]. split; [eapply tag_safe_incl|eapply val_okb_incl]; try eassumption; apply atoms_item_tuple, Hx.
  - intros kvs k v Hkv [A B]. split; [eapply tag_safe_incl|eapply val_okb_incl]; try eassumption; eapply atoms_dict_val, Hkv.
  - intros x y [Tx Vx] [Ty Vy]. apply hash_alike_hexhash; try assumption. apply io_opts_plain.
Qed.

(* inputs WITH repeated items satisfy it; a list holding {1, 2} and {2, 1} does not *)
Example sibinj_in_example :
  sibinj_in (io_opts (mkCfg false 33 100 true) true) rep_ex1 = true /\
  sibinj_in (io_opts (mkCfg false 33 100 true) true)
    (VList [VSet [AInt 1; AInt 2]; VSet [AInt 2; AInt 1]]) = false.
Proof. vm_compute. split; reflexivity. Qed.

From Coq Require Import List Bool NArith String Lia.
Import ListNotations.
From DD Require Import Base.Sx Base.PyStr Cli.FsModel Cli.FsProofs Cli.GenModel Cli.GenProofs
  Cli.FormatModel Cli.FormatProofs Cli.HistProofs.

(** non-vacuity of C20_history_good_version_survives: a history (an interrupted patch whose debris does not
    load, then a completed one) inside the guard, with its outcome *)
Definition hx_P : path := s2p "d.pickle".
Definition hx_f2 : fs N := upd hx_P (Some [5%N; 1000%N]) hx_f.
Definition hx_sch1 : schedule N := single SWrite (mkFault KBase (Some [7%N; 8%N; 9%N])).
Definition hx_hist : list (cmd N) := [mkCmd env0 false hx_P hx_sch1; mkCmd env0 true hx_P no_fault].

Example ex_history_guard_satisfiable :
  Forall (fun c => debris_unloadable hx_parse FJson (c_env c) (c_sch c)) hx_hist /\
  (exists cur, hx_Good cur /\ Inv hx_parse (fun _ => true) hx_A hx_f2 cur) /\
  let r := run_hist hx_parse hx_dump (fun _ => true) (fun _ => true) hx_unpickle (fun (d : N) (_ : N) => d)
                    hx_A hx_hist hx_f2 in
  snd r = [Raised KBase SWrite; Raised KExc SLoadDoc] /\
  fst r hx_A = Some [7%N; 8%N; 9%N] /\ fst r (bak hx_A) = Some [1%N].
Proof.
  split; [|split].
  - repeat constructor; intros c H; cbn [c_env c_sch] in H; unfold debris in H; cbn in H;
      destruct H as [H|[H|[[s [ft [Hs H]]]|[H|H]]]]; try discriminate;
      try solve [inversion H; reflexivity];
      try solve [discriminate Hs];
      try solve [unfold hx_sch1, single in Hs; destruct (step_eqb s SWrite); inversion Hs; subst ft;
                 cbn in H; inversion H; reflexivity].
  - exists [1%N]. split; [left; reflexivity | left; reflexivity].
  - vm_compute. repeat split.
Qed.

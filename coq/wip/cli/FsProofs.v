(** Proofs about the model of the CLI save path (Cli/FsModel.v).
    Everything is stated for an arbitrary content type, arbitrary contents,
    arbitrary initial file systems, every placement of the serialisation step
    and - unless a theorem names a particular schedule - EVERY fault schedule
    (any number of faults, of either kind, with arbitrary on-disk debris). *)
From Coq Require Import List Bool NArith String Lia.
Import ListNotations.
From DD Require Import Base.Sx Base.PyStr Cli.FsModel.

Lemma bak_neq : forall p : path, bak p <> p.
Proof.
  intros p H. apply (f_equal (@List.length N)) in H.
  unfold bak in H. rewrite app_length in H. cbn in H. lia.
Qed.

Lemma step_eqb_eq : forall a b, step_eqb a b = true <-> a = b.
Proof. intros a b; split; [destruct a, b; cbn; congruence | intros ->; destruct b; reflexivity]. Qed.

Section Proofs.
  Variable X : Type.
  Notation content := (content X).
  Notation fs := (fs X).
  Notation schedule := (schedule X).
  Notation fault := (fault X).

  (** the steps whose failure the property talks about ("up to and including close") *)
  Definition write_step (s : step) : bool :=
    match s with SBackup | SOpen | SDumps | SWrite | SClose => true | _ => false end.
  (** the steps executed inside the try block, after the file was renamed away *)
  Definition body_step (s : step) : bool :=
    match s with SOpen | SDumps | SWrite | SClose => true | _ => false end.

  (** the part of the file system that is neither A nor A.bak *)
  Definition frame (A : path) (f f' : fs) : Prop :=
    forall q, q <> A -> q <> bak A -> f' q = f q.

  Ltac pe :=
    repeat match goal with
           | |- context [path_eq_dec ?a ?b] => destruct (path_eq_dec a b); try congruence
           | H : context [path_eq_dec ?a ?b] |- _ => destruct (path_eq_dec a b); try congruence
           end.

  (* symbolic evaluation of [save] along one schedule: split lazily on the
     schedule entries the evaluation actually consults *)
  Ltac split_sch sch :=
    repeat match goal with
           | |- context [sch ?s] =>
               let e := fresh "E" in
               destruct (sch s) as [[[|] ?]|] eqn:e; cbn [fkind fdisk]
           | H : context [sch ?s] |- _ =>
               let e := fresh "E" in
               destruct (sch s) as [[[|] ?]|] eqn:e; cbn [fkind fdisk] in H
           end.

  Ltac unfold_save :=
    unfold save, save_content, dumps_at, dumps_res, rename, remove.
  Ltac unfold_save_in H :=
    unfold save, save_content, dumps_at, dumps_res, rename, remove in H.

  (** ** Results that hold for every fault schedule *)

  (** Whenever [save] returns normally - under any schedule whatsoever - the
      target holds the new content, the backup holds the old content iff
      keep_backup, and nothing else changed. *)
  Theorem save_done_correct :
    forall pos keep new A (sch : schedule) (f f' : fs) old,
      f A = Some old ->
      save pos keep new A sch f = (f', Done) ->
      exists c, new = Some c /\ f' A = Some c /\
                f' (bak A) = (if keep then Some old else None) /\ frame A f f'.
  Proof.
    intros pos keep new A sch f f' old HA H.
    pose proof (bak_neq A) as Hb.
    unfold_save_in H. rewrite HA in H.
    destruct pos, new as [c|], keep; split_sch sch; cbn in H; unfold upd in H; pe;
      try discriminate; inversion H; subst; clear H;
      (exists c; repeat split; unfold frame, upd; intros; pe; auto).
  Qed.

  (** Whenever [save] raises - any schedule, any kind of exception, any step -
      the old content is not lost: it is in A or in A.bak; and nothing else
      changed. *)
  Theorem save_raised_keeps_old :
    forall pos keep new A (sch : schedule) (f f' : fs) old k s,
      f A = Some old ->
      save pos keep new A sch f = (f', Raised k s) ->
      (f' A = Some old \/ f' (bak A) = Some old) /\ frame A f f'.
  Proof.
    intros pos keep new A sch f f' old k s HA H.
    pose proof (bak_neq A) as Hb.
    unfold_save_in H. rewrite HA in H.
    destruct pos, new as [c|], keep; split_sch sch; cbn in H; unfold upd in H; pe;
      try discriminate; inversion H; subst; clear H;
      (split; [ unfold upd; pe; auto | unfold frame, upd; intros; pe; auto ]).
  Qed.

  (** Whenever an [Exception] propagates out of [save] from any step other than
      the restoring rename and the final remove - whatever else failed on the
      way (e.g. write and then close) - A has its old content again and the
      backup file this call created is gone.  If the failing step is the first
      rename (or a serialisation placed before it) the file system is
      untouched. *)
  Theorem save_exception_restores :
    forall pos keep new A (sch : schedule) (f f' : fs) old s,
      f A = Some old ->
      save pos keep new A sch f = (f', Raised KExc s) ->
      s <> SRestore -> s <> SRemove ->
      f' A = Some old /\
      (body_step s = true -> (pos = DFirst -> s <> SDumps) -> f' (bak A) = None) /\
      (f (bak A) = None -> f' (bak A) = None) /\
      frame A f f'.
  Proof.
    intros pos keep new A sch f f' old s HA H Hs1 Hs2.
    pose proof (bak_neq A) as Hb.
    unfold_save_in H. rewrite HA in H.
    destruct pos, new as [c|], keep; split_sch sch; cbn in H; unfold upd in H; pe;
      try discriminate; inversion H; subst; clear H; try congruence;
      (repeat split; [ unfold upd; pe; auto
                     | intros; unfold upd; pe; auto; try discriminate; try congruence
                     | intros; unfold upd; pe; auto
                     | unfold frame, upd; intros; pe; auto ]).
  Qed.

  (** a BaseException that is not an Exception (KeyboardInterrupt) raised inside
      the try block is not caught: the backup stays, holding the old content *)
  Theorem save_interrupt_keeps_backup :
    forall pos keep new A (sch : schedule) (f f' : fs) old s,
      f A = Some old ->
      save pos keep new A sch f = (f', Raised KBase s) ->
      body_step s = true -> (pos = DFirst -> s <> SDumps) ->
      f' (bak A) = Some old.
  Proof.
    intros pos keep new A sch f f' old s HA H Hb1 Hb2.
    pose proof (bak_neq A) as Hb.
    unfold_save_in H. rewrite HA in H.
    destruct pos, new as [c|], keep; split_sch sch; cbn in H; unfold upd in H; pe;
      try discriminate; inversion H; subst; clear H; try discriminate; try congruence;
      unfold upd; pe; auto.
  Qed.

  (** ** Particular schedules *)

  Theorem save_success :
    forall pos keep c A (f : fs) old,
      f A = Some old ->
      exists f', save pos keep (Some c) A no_fault f = (f', Done) /\
                 f' A = Some c /\
                 f' (bak A) = (if keep then Some old else None) /\
                 frame A f f'.
  Proof.
    intros pos keep c A f old HA.
    pose proof (bak_neq A) as Hb.
    unfold_save; unfold no_fault. rewrite HA.
    destruct pos, keep; cbn; unfold upd; pe;
      (eexists; split; [reflexivity|]; repeat split; unfold frame; intros; pe; auto).
  Qed.

  Lemma single_same : forall k (ft : fault), single k ft k = Some ft.
  Proof. intros; unfold single. destruct k; reflexivity. Qed.
  Lemma single_other : forall k s (ft : fault), s <> k -> single k ft s = None.
  Proof.
    intros k s ft H; unfold single. destruct (step_eqb s k) eqn:E; auto.
    apply step_eqb_eq in E; congruence.
  Qed.

  (** exactly one fault, an Exception, at any step up to and including close:
      that exception propagates, A = old, no A.bak (if there was none before),
      nothing else touched *)
  Theorem save_single_fault_restores :
    forall pos keep c A (f : fs) old k (ft : fault),
      f A = Some old ->
      write_step k = true -> fkind ft = KExc ->
      exists f', save pos keep (Some c) A (single k ft) f = (f', Raised KExc k) /\
                 f' A = Some old /\
                 (k <> SBackup -> (pos = DFirst -> k <> SDumps) -> f' (bak A) = None) /\
                 (f (bak A) = None -> f' (bak A) = None) /\
                 frame A f f'.
  Proof.
    intros pos keep c A f old k [kk d] HA Hk Hkind. cbn in Hkind; subst kk.
    pose proof (bak_neq A) as Hb.
    unfold_save. rewrite HA.
    destruct k; try discriminate; destruct pos, keep; cbn; unfold upd; pe;
      (eexists; split; [reflexivity|]; repeat split; unfold frame; intros; pe; auto; congruence).
  Qed.

  (** the serialiser itself rejects the document (new = None), nothing else
      fails: same outcome as an injected failure of the serialisation step *)
  Theorem save_unserialisable_restores :
    forall pos keep A (f : fs) old,
      f A = Some old ->
      exists f', save pos keep None A no_fault f = (f', Raised KExc SDumps) /\
                 f' A = Some old /\ (f (bak A) = None -> f' (bak A) = None) /\ frame A f f'.
  Proof.
    intros pos keep A f old HA.
    pose proof (bak_neq A) as Hb.
    unfold_save; unfold no_fault. rewrite HA.
    destruct pos, keep; cbn; unfold upd; pe;
      (eexists; split; [reflexivity|]; repeat split; unfold frame; intros; pe; auto).
  Qed.

  (** the target does not exist: FileNotFoundError from the first rename, nothing changes *)
  Theorem save_missing_target :
    forall pos keep c A (f : fs),
      f A = None -> save pos keep (Some c) A no_fault f = (f, Raised KExc SBackup).
  Proof.
    intros pos keep c A f HA. unfold_save; unfold no_fault. rewrite HA. destruct pos; reflexivity.
  Qed.

  (** ** What happens outside the statement (stated, not hidden) *)

  (** one fault of kind KeyboardInterrupt inside the try block: NOT restored -
      A holds whatever the interrupted step left, the backup stays (with the
      old content).  So "any failure restores A" is false for BaseExceptions. *)
  Theorem save_interrupt_not_restored :
    forall pos keep c A (f : fs) old k d,
      f A = Some old -> body_step k = true -> (pos = DFirst -> k <> SDumps) ->
      exists f', save pos keep (Some c) A (single k (mkFault KBase d)) f = (f', Raised KBase k) /\
                 f' (bak A) = Some old /\
                 f' A = (match k with SDumps => match pos with DInside => Some [] | _ => None end | _ => d end).
  Proof.
    intros pos keep c A f old k d HA Hk Hp.
    pose proof (bak_neq A) as Hb.
    unfold_save. rewrite HA.
    destruct k; try discriminate; destruct pos, keep; cbn; unfold upd; pe;
      try (exfalso; apply Hp; reflexivity);
      (eexists; split; [reflexivity|]; split; pe; auto).
  Qed.

  (** the final os.remove fails (no --backup): the new content is in place, the
      backup stays, and the call raises although the data was written *)
  Theorem save_remove_fault :
    forall pos c A (f : fs) old (ft : fault),
      f A = Some old ->
      exists f', save pos false (Some c) A (single SRemove ft) f = (f', Raised (fkind ft) SRemove) /\
                 f' A = Some c /\ f' (bak A) = Some old.
  Proof.
    intros pos c A f old ft HA.
    pose proof (bak_neq A) as Hb.
    unfold_save. rewrite HA.
    destruct pos; cbn; unfold upd; pe; (eexists; split; [reflexivity|]; split; pe; auto).
  Qed.

  (** double fault: a body step fails and then the restoring rename fails too:
      A holds the debris, the old content survives in A.bak *)
  Theorem save_restore_fault :
    forall pos keep c A (f : fs) old k d (ft2 : fault),
      f A = Some old -> body_step k = true -> k <> SDumps ->
      exists f', save pos keep (Some c) A (sched_of [(k, mkFault KExc d); (SRestore, ft2)]) f
                 = (f', Raised (fkind ft2) SRestore) /\
                 f' A = d /\ f' (bak A) = Some old.
  Proof.
    intros pos keep c A f old k d ft2 HA Hk Hd.
    pose proof (bak_neq A) as Hb.
    unfold_save. rewrite HA.
    destruct k; try discriminate; try congruence; destruct pos, keep; cbn; unfold upd; pe;
      (eexists; split; [reflexivity|]; split; pe; auto).
  Qed.

  (** an A.bak that existed before the call is silently replaced, and deleted
      at the end unless --backup *)
  Theorem save_preexisting_backup_lost :
    forall pos c A (f : fs) old x,
      f A = Some old -> f (bak A) = Some x ->
      exists f', save pos false (Some c) A no_fault f = (f', Done) /\ f' (bak A) = None.
  Proof.
    intros pos c A f old x HA HB.
    pose proof (bak_neq A) as Hb.
    unfold_save; unfold no_fault. rewrite HA.
    destruct pos; cbn; unfold upd; pe; (eexists; split; [reflexivity|]; pe; auto).
  Qed.

  (** ** The command line level *)
  Section CliProofs.
    Variables doc delta : Type.
    Variable parse : content -> option doc.
    Variable dump : doc -> option content.
    Variable pickle : delta -> content.
    Variable unpickle : content -> option delta.
    Variable mk_delta : doc -> doc -> delta.
    Variable apply_delta : delta -> doc -> doc.

    (* property C01: the delta of (a, b) applied to a gives b *)
    Hypothesis C01_delta_reproduces : forall a b, apply_delta (mk_delta a b) a = b.
    (* property C14: a persisted delta is the same delta *)
    Hypothesis C14_pickle_roundtrip : forall d, unpickle (pickle d) = Some d.
    (* JSON text layer: what json_dumps writes, json_loads reads back *)
    Hypothesis json_roundtrip : forall d c, dump d = Some c -> parse c = Some d.

    Notation load := (load (X:=X) parse).
    Notation diff_cmd := (diff_cmd (X:=X) parse pickle mk_delta).
    Notation patch_cmd := (patch_cmd (X:=X) parse dump unpickle apply_delta).

    (** the patch command never touches the file system before the save path *)
    Lemma patch_cmd_presave :
      forall pos keep A P (sch : schedule) (f f' : fs) k s,
        patch_cmd pos keep A P sch f = (f', Raised k s) ->
        (s = SLoadDelta \/ s = SLoadDoc \/ s = SApply) -> f' = f.
    Proof.
      intros pos keep A P sch f f' k s H Hs.
      unfold patch_cmd in H.
      destruct (sch SLoadDelta); [inversion H; auto|].
      destruct (match f P with Some c => unpickle c | None => None end); [|inversion H; auto].
      destruct (sch SLoadDoc); [inversion H; auto|].
      destruct (load f A) as [a|]; [|inversion H; auto].
      destruct (sch SApply); [inversion H; auto|].
      exfalso.
      unfold save, save_content, dumps_at, dumps_res, rename, remove in H.
      destruct pos, (dump (apply_delta d a)), keep, (f A); split_sch sch; cbn in H;
        try discriminate; inversion H; subst;
        destruct Hs as [Hs|[Hs|Hs]]; discriminate.
    Qed.

    (** deep diff A B --create-patch > P ; deep patch A P [--backup]
        with no failure: A now loads as the document B loads as, the backup is
        kept iff --backup and holds A's previous bytes, B and every other file
        are untouched. *)
    Theorem patch_reproduces :
      forall pos keep A B P (f : fs) ca a b pd cb',
        f A = Some ca -> parse ca = Some a -> load f B = Some b ->
        P <> A -> P <> bak A ->
        diff_cmd A B f = Some pd ->
        dump b = Some cb' ->
        exists f', patch_cmd pos keep A P no_fault (upd P (Some pd) f) = (f', Done) /\
                   load f' A = Some b /\
                   f' A = Some cb' /\
                   f' (bak A) = (if keep then Some ca else None) /\
                   (forall q, q <> A -> q <> bak A -> q <> P -> f' q = f q).
    Proof.
      intros pos keep A B P f ca a b pd cb' HA Hpa HB HPA HPb Hdiff Hdump.
      unfold FsModel.diff_cmd, FsModel.load in Hdiff. rewrite HA, Hpa in Hdiff.
      unfold FsModel.load in HB. rewrite HB in Hdiff. inversion Hdiff; subst pd; clear Hdiff.
      set (f1 := upd P (Some (pickle (mk_delta a b))) f).
      assert (H1A : f1 A = Some ca).
      { unfold f1, upd. destruct (path_eq_dec A P); [congruence | exact HA]. }
      unfold FsModel.patch_cmd, no_fault, FsModel.load.
      assert (H1P : f1 P = Some (pickle (mk_delta a b))).
      { unfold f1, upd. destruct (path_eq_dec P P); congruence. }
      rewrite H1P, C14_pickle_roundtrip, H1A, Hpa, C01_delta_reproduces, Hdump.
      destruct (save_success pos keep cb' A f1 ca H1A) as [f' [Hs [HfA [Hfb Hfr]]]].
      unfold no_fault in Hs.
      exists f'. split; [exact Hs|]. repeat split; auto.
      - unfold FsModel.load. rewrite HfA. apply json_roundtrip; exact Hdump.
      - intros q HqA Hqb HqP. rewrite (Hfr q HqA Hqb). unfold f1, upd.
        destruct (path_eq_dec q P); congruence.
    Qed.

    (** any single Exception anywhere in `deep patch` - loading the patch,
        loading the document, applying the delta, or any step of the save path
        up to and including close: A keeps its bytes, no A.bak appears, the
        failure is reported (non-zero exit status or a propagating exception). *)
    Theorem patch_single_fault_restores :
      forall pos keep debug A P (f : fs) ca a dl cnew k (ft : fault),
        f A = Some ca -> parse ca = Some a ->
        (match f P with Some c => unpickle c | None => None end) = Some dl ->
        dump (apply_delta dl a) = Some cnew ->
        f (bak A) = None ->
        (write_step k = true \/ k = SLoadDelta \/ k = SLoadDoc \/ k = SApply) ->
        fkind ft = KExc ->
        exists f', patch_cmd pos keep A P (single k ft) f = (f', Raised KExc k) /\
                   f' A = Some ca /\ f' (bak A) = None /\
                   (forall q, q <> A -> q <> bak A -> f' q = f q) /\
                   cli_report debug (Raised KExc k) <> CExit 0.
    Proof.
      intros pos keep debug A P f ca a dl cnew k [kk d] HA Hpa HP Hdump Hbak Hk Hkind.
      cbn in Hkind; subst kk.
      assert (Hrep : cli_report debug (Raised KExc k) <> CExit 0).
      { destruct k, debug; cbn; discriminate. }
      unfold FsModel.patch_cmd, FsModel.load.
      destruct Hk as [Hk|[Hk|[Hk|Hk]]].
      - rewrite !single_other by (intro; subst k; discriminate).
        rewrite HP, HA, Hpa, Hdump.
        destruct (save_single_fault_restores pos keep cnew A f ca k (mkFault KExc d) HA Hk eq_refl)
          as [f' [Hs [HfA [_ [Hfb Hfr]]]]].
        exists f'. repeat split; auto.
      - subst k. rewrite single_same. cbn. exists f. repeat split; auto.
      - subst k. rewrite single_other by discriminate. rewrite HP, single_same. cbn.
        exists f. repeat split; auto.
      - subst k. rewrite single_other by discriminate. rewrite HP.
        rewrite single_other by discriminate. rewrite HA, Hpa, single_same. cbn.
        exists f. repeat split; auto.
    Qed.

    (** the process reports success exactly when the save returned normally *)
    Lemma cli_report_zero : forall debug o, cli_report debug o = CExit 0 <-> o = Done.
    Proof.
      intros debug o; split.
      - destruct o as [|[|] s]; cbn; auto; destruct s, debug; discriminate.
      - intros ->; reflexivity.
    Qed.
  End CliProofs.
End Proofs.

(** the guards of the theorems above are satisfiable by non-trivial values *)
Example ex_single_fault :
  let A := s2p "a.json" in
  let f : fs N := upd A (Some [1%N]) (fun _ => None) in
  let '(f', o) := save DInside false (Some [2%N]) A (single SWrite (mkFault KExc (Some [9%N]))) f in
  (f' A, f' (bak A), o) = (Some [1%N], None, Raised KExc SWrite).
Proof. vm_compute. reflexivity. Qed.

Example ex_interrupt :
  let A := s2p "a.json" in
  let f : fs N := upd A (Some [1%N]) (fun _ => None) in
  let '(f', o) := save DInside false (Some [2%N]) A (single SWrite (mkFault KBase (Some [9%N]))) f in
  (f' A, f' (bak A), o) = (Some [9%N], Some [1%N], Raised KBase SWrite).
Proof. vm_compute. reflexivity. Qed.

From Coq Require Import List ZArith NArith Bool Arith String.
Import ListNotations.
From DD Require Import Base.Sx Base.PyStr Base.Value Diff.DiffModel Delta.DeltaIOShow.
Definition I z := VAtom (AInt z).
Eval vm_compute in run_dio [] (mkCfg false 0 1 true) true [([], [(3,3);(4,2)])] [] [] [] false false
  (VList [I 1; I 2; I 3; I 4]) (VList [I 2; VAtom (AStr [97%N]); VAtom ANone; I 7; I 9]) (VList [I 1; I 2; I 3; I 4]).

From Coq Require Import List ZArith NArith Bool Arith String.
Import ListNotations.
From DD Require Import Base.Sx Base.PyStr Base.Value Diff.DiffModel Delta.DeltaIOShow.
Definition I z := VAtom (AInt z).
Eval vm_compute in run_dio [] (mkCfg false 0 1 true) true [] [] [] [] false false (VList [I 1]) (VList [VAtom (ABool true); I 1]) (VList [I 1]).

(** C01, ignore_order clause: on lists of distinct scalars, t1 + Delta(DeepDiff(t1, t2,
    ignore_order=True, report_repetition=True)) is a permutation of t2, for every pairing oracle. *)
From Coq Require Import List ZArith NArith Bool Arith Lia Permutation.
Import ListNotations.
From DD Require Import Base.PyStr Base.Value Base.ValueFacts Path.PathModel Diff.Tree Diff.DiffModel
  Diff.DiffFacts Hash.HashModel DiffIO.DiffIOModel
  Delta.DeltaModel Delta.DeltaFacts Delta.DeltaStruct Delta.DeltaGuard Delta.DeltaSeq Delta.DeltaIO.

Definition nosk (_ : path) : bool := false.

(* ---- hash lists without repetition ---- *)
Lemma mem_h_In h l : mem_h h l = true <-> In h l.
Proof.
  unfold mem_h. rewrite existsb_exists. split.
  - intros (x & Hx & E). apply pystr_eqb_eq in E. subst. exact Hx.
  - intros Hin. exists h. split; [exact Hin|apply pystr_eqb_refl].
Qed.
Lemma mem_h_false h l : mem_h h l = false <-> ~ In h l.
Proof.
  split.
  - intros E Hin. apply mem_h_In in Hin. congruence.
  - intros N. destruct (mem_h h l) eqn:E; [|reflexivity]. apply mem_h_In in E. contradiction.
Qed.

Lemma pystr_eqb_neq a b : a <> b -> pystr_eqb a b = false.
Proof. intros N. destruct (pystr_eqb a b) eqn:E; [apply pystr_eqb_eq in E; contradiction|reflexivity]. Qed.

Lemma filter_all_io {A} (f : A -> bool) l : (forall x, In x l -> f x = true) -> filter f l = l.
Proof.
  induction l as [|x l IH]; cbn; intros H; [reflexivity|].
  rewrite (H x (or_introl eq_refl)). f_equal. apply IH. intros y Hy. apply H. right. exact Hy.
Qed.

Lemma dedup_nodup l : NoDup l -> dedup l = l.
Proof.
  induction 1 as [|x l Hx ND IH]; cbn; [reflexivity|]. rewrite IH. f_equal.
  apply filter_all_io. intros y Hy. apply negb_true_iff. apply pystr_eqb_neq. intros ->. contradiction.
Qed.

Lemma indexes_of_single l : forall i k h, NoDup l -> nth_error l k = Some h -> indexes_of h l i = [i + k].
Proof.
  induction l as [|x l IH]; intros i k h ND Hk; [destruct k; discriminate|].
  inversion ND as [|? ? Nx ND']; subst. destruct k as [|k]; cbn in Hk |- *.
  - inversion Hk; subst. rewrite pystr_eqb_refl. rewrite Nat.add_0_r. cbn. f_equal.
    assert (Z : forall j, indexes_of h l j = []).
    { clear -Nx. induction l as [|y l IH]; intros j; cbn; [reflexivity|].
      rewrite pystr_eqb_neq by (intros ->; apply Nx; left; reflexivity). cbn. apply IH. intros Hin. apply Nx. right. exact Hin. }
    apply Z.
  - rewrite pystr_eqb_neq by (intros ->; apply Nx; eapply nth_error_In; exact Hk). cbn.
    rewrite (IH (S i) k h ND' Hk). f_equal. lia.
Qed.

From DD Require Import Delta.DeltaIOProofs.
Print Assumptions io_roundtrip.
Check io_roundtrip.

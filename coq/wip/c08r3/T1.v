From Coq Require Import List ZArith NArith Bool Arith Lia Permutation.
Import ListNotations.
From DD Require Import Base.PyStr Base.Value Base.ValueFacts Path.PathModel
  Diff.Tree Diff.DiffModel Diff.DiffFacts Diff.DiffFaithful
  Delta.DeltaModel Delta.DeltaGuard Delta.DeltaReverseInplace.

Lemma veqb_is_tuple a b : veqb a b = true -> is_tuple a = is_tuple b.
Proof. destruct a, b; cbn; intros H; try discriminate H; reflexivity. Qed.

Lemma Forall2_nth_error {A B} (R : A -> B -> Prop) l l' : Forall2 R l l' ->
  forall n x, nth_error l n = Some x -> exists y, nth_error l' n = Some y /\ R x y.
Proof.
  induction 1 as [|a b l l' Hab H IH]; intros n x Hn; [destruct n; discriminate|].
  destruct n as [|n]; cbn in *.
  - inversion Hn; subst. exists b. split; [reflexivity|exact Hab].
  - apply IH. exact Hn.
Qed.

Lemma Forall2_len {A B} (R : A -> B -> Prop) l l' : Forall2 R l l' -> length l = length l'.
Proof. induction 1; cbn; congruence. Qed.

Lemma seq_index_Forall2 {A B} (R : A -> B -> Prop) (l : list A) (l' : list B) z x :
  Forall2 R l l' -> seq_index l z = Some x -> exists y, seq_index l' z = Some y /\ R x y.
Proof.
  intros F. unfold seq_index. cbv zeta. rewrite <- (Forall2_len _ _ _ F).
  destruct (_ || _); [discriminate|]. apply Forall2_nth_error. exact F.
Qed.

Lemma get_item_veqb a b k o :
  veqb a b = true -> wf b = true -> get_item a k = Some o ->
  exists o', get_item b k = Some o' /\ veqb o o' = true /\ wf o' = true.
Proof.
  intros V W G. destruct a as [x|xs|xs|kvs|xs|xs], b as [y|ys|ys|kvs2|ys|ys]; try (cbn in V; discriminate V); try discriminate G.
  - cbn in V. apply atom_eqb_eq in V. subst y. exists o. split; [exact G|].
    destruct x; try discriminate G; cbn in G; destruct (int_of_atom k); try discriminate G;
      destruct (seq_index _ _); try discriminate G; inversion G; subst; (split; [apply veqb_refl; reflexivity|reflexivity]).
  - rewrite veqb_list in V. apply all2_Forall2 in V. cbn in G |- *. destruct (int_of_atom k) as [z|]; [|discriminate].
    destruct (seq_index_Forall2 _ xs ys z o V G) as (y & Hy & E). exists y. split; [exact Hy|]. split; [exact E|].
    cbn in W. eapply forallb_forall in W; [exact W|]. unfold seq_index in Hy. cbv zeta in Hy. destruct (_ || _); [discriminate|].
    eapply nth_error_In. exact Hy.
  - rewrite veqb_tuple in V. apply all2_Forall2 in V. cbn in G |- *. destruct (int_of_atom k) as [z|]; [|discriminate].
    destruct (seq_index_Forall2 _ xs ys z o V G) as (y & Hy & E). exists y. split; [exact Hy|]. split; [exact E|].
    cbn in W. eapply forallb_forall in W; [exact W|]. unfold seq_index in Hy. cbv zeta in Hy. destruct (_ || _); [discriminate|].
    eapply nth_error_In. exact Hy.
  - cbn in G. rewrite veqb_dict in V. apply andb_true_iff in V as [V V3]. 
    cbn [wf] in W. apply andb_true_iff in W as [N2 W2].
    apply assoc_In in G as (k' & Hin & Ek).
    destruct (dict_veq_elim kvs2 kvs V3 k' o Hin) as (o' & L & E). apply lookup_In in L.
    exists o'. split; [|split; [exact E|]].
    + cbn. apply (assoc_nodup kvs2 k' o' k N2 L Ek).
    + eapply forallb_forall in W2; [|exact L]. exact W2.
Qed.

Lemma resolve_veqb : forall p a b o,
  veqb a b = true -> wf b = true -> resolve a p = Some o ->
  exists o', resolve b p = Some o' /\ veqb o o' = true /\ wf o' = true.
Proof.
  induction p as [|k p IH]; intros a b o V W R.
  - cbn in R. inversion R; subst. exists b. auto.
  - cbn [resolve] in R |- *. destruct (get_item a (key_atom k)) as [c|] eqn:G; [|discriminate].
    destruct (get_item_veqb a b _ c V W G) as (c' & G' & V' & W'). rewrite G'. eapply IH; eassumption.
Qed.

Lemma ntp_veqb v t p : veqb v t = true -> wf t = true -> ntp t p -> ntp v p.
Proof.
  intros V W N. unfold ntp in *. destruct p as [|k0 p0]; [exact I|].
  destruct (resolve v (removelast (k0 :: p0))) as [o|] eqn:R; [|exact I].
  destruct (resolve_veqb _ v t o V W R) as (o' & R' & V' & _). rewrite R' in N.
  rewrite (veqb_is_tuple _ _ V'). exact N.
Qed.


(** * closing a batch: the target is mutated in place *)

Lemma mutate_stack : forall i c st t below,
  stack st = t :: below -> subst i c t = c -> forallb (ids_below i) below = true ->
  stack (mutate i c st) = c :: below.
Proof.
  intros i c st t below Hs Ht Hb. unfold mutate. cbn [stack]. rewrite Hs. cbn [map].
  rewrite Ht, (stack_subst_fresh _ _ _ Hb). reflexivity.
Qed.

(* what filling target [i] does to the memo: its own entry follows, entries older than [i] stay *)
Lemma mutate_memo_own : forall i c st s idx t,
  memo_get idx (memo st) = Some t -> subst i c t = c ->
  memo_get idx (memo (mutate i c (set_stack st s))) = Some c.
Proof. intros i c st s idx t H Ht. cbn [mutate set_stack memo]. rewrite memo_get_map_subst, H. cbn. rewrite Ht. reflexivity. Qed.
Lemma mutate_memo_old : forall i c st s idx o,
  memo_get idx (memo st) = Some o -> ids_below i o = true ->
  memo_get idx (memo (mutate i c (set_stack st s))) = Some o.
Proof.
  intros i c st s idx o H Hb. cbn [mutate set_stack memo]. rewrite memo_get_map_subst, H. cbn.
  rewrite (subst_fresh i c o Hb). reflexivity.
Qed.

Lemma nodup_atoms_prefix : forall l1 l2, nodup_atoms (l1 ++ l2) = true -> nodup_atoms l1 = true.
Proof.
  induction l1 as [|a r IH]; intros l2 H; cbn in *; [reflexivity|].
  apply andb_true_iff in H. destruct H as [H1 H2]. rewrite (IH _ H2), andb_true_r.
  apply negb_true_iff in H1. apply negb_true_iff. unfold mem_atom in *. rewrite existsb_app in H1.
  apply orb_false_iff in H1. apply H1.
Qed.

Lemma forallb_app_split : forall (A : Type) (f : A -> bool) l1 l2,
  forallb f (l1 ++ l2) = true -> forallb f l1 = true /\ forallb f l2 = true.
Proof. intros. rewrite forallb_app in H. apply andb_true_iff in H. exact H. Qed.

(* the bookkeeping every member loop carries for its target [i] (reserved memo index [pidx]) *)
Definition own_entry (pidx : option Z) (st : state) (t : obj) : Prop :=
  forall idx, pidx = Some idx -> memo_get idx (memo st) = Some t.
Definition old_kept (i : nat) (st st' : state) : Prop :=
  forall idx o, memo_get idx (memo st) = Some o -> ids_below i o = true -> memo_get idx (memo st') = Some o.
Lemma old_kept_refl : forall i st, old_kept i st st.
Proof. intros i st idx o H _. exact H. Qed.
Lemma old_kept_trans : forall i a b c, old_kept i a b -> old_kept i b c -> old_kept i a c.
Proof. intros i a b c H1 H2 idx o H Hb. apply H2; [apply H1; assumption | exact Hb]. Qed.
Lemma old_kept_ext : forall i a b, memo_ext a b -> old_kept i a b.
Proof. intros i a b H idx o Hg _. apply H. exact Hg. Qed.
Lemma own_entry_ext : forall pidx a b t, own_entry pidx a t -> memo_ext a b -> own_entry pidx b t.
Proof. intros pidx a b t H He idx E. apply He. apply H. exact E. Qed.

(* ADDITEMS on a set that already has members *)
Lemma additems_step : forall w cs pend st i prevA itemsA below pidx,
  inv cs pend st -> In i pend -> itemsA <> [] -> nodup_atoms (prevA ++ itemsA) = true ->
  stack st = (rev (map obj_of_atom itemsA) ++ OMark :: OSet i (map obj_of_atom prevA) :: below)%list ->
  forallb (ids_below i) below = true -> i < next st ->
  own_entry pidx st (OSet i (map obj_of_atom prevA)) ->
  exists st', step w st ADDITEMS = SNext st' /\
              stack st' = OSet i (map obj_of_atom (prevA ++ itemsA)) :: below /\
              next st' = next st /\ inv cs pend st' /\
              own_entry pidx st' (OSet i (map obj_of_atom (prevA ++ itemsA))) /\ old_kept i st st'.
Proof.
  intros w cs pend st i prevA itemsA below pidx Hinv Hin Hne Hnd Hs Hb Hlt Hown.
  set (c := OSet i (map obj_of_atom (prevA ++ itemsA))).
  exists (mutate i c (set_stack st (OSet i (map obj_of_atom prevA) :: below))).
  assert (Hsub : subst i c (OSet i (map obj_of_atom prevA)) = c) by (cbn [subst]; rewrite Nat.eqb_refl; reflexivity).
  split; [|split; [|split; [|split; [|split]]]].
  - cbn [step]. unfold with_mark. rewrite Hs, (to_mark_rev _ _ (no_mark_atoms itemsA)).
    unfold do_additems. cbn [pop1 is_mark].
    destruct (map obj_of_atom itemsA) as [|x r] eqn:E; [destruct itemsA; [contradiction | discriminate]|].
    rewrite <- E, (set_add_all_atoms itemsA prevA Hnd). reflexivity.
  - apply (mutate_stack i c _ (OSet i (map obj_of_atom prevA)) below); [reflexivity | exact Hsub | exact Hb].
  - reflexivity.
  - apply inv_mutate; [|exact Hin|].
    + apply inv_set_stack_sub; [exact Hinv|]. destruct Hinv as [[Hst _] _]. rewrite Hs in Hst.
      apply forallb_app_split in Hst. destruct Hst as [_ Hst]. cbn in Hst. exact Hst.
    + cbn [ids_below c]. rewrite ids_below_atoms, andb_true_r. apply Nat.ltb_lt. exact Hlt.
  - intros idx E. apply (mutate_memo_own i c st _ idx _ (Hown idx E) Hsub).
  - intros idx o Hg Ho. apply mutate_memo_old; assumption.
Qed.

Lemma set_items_sound : forall w xs inm cs pend prog cs' rest st i prevA batchA below pidx,
  chk_set_items xs inm cs prog = Some (cs', rest) -> inv cs pend st -> In i pend ->
  stack st = ((if inm then rev (map obj_of_atom batchA) ++ [OMark] else []) ++ OSet i (map obj_of_atom prevA) :: below)%list ->
  (inm = false -> batchA = []) ->
  nodup_atoms (prevA ++ batchA ++ xs) = true ->
  forallb (ids_below i) below = true -> i < next st ->
  own_entry pidx st (OSet i (map obj_of_atom prevA)) ->
  exists st', run w st prog = run w st' rest /\
              stack st' = OSet i (map obj_of_atom (prevA ++ batchA ++ xs)) :: below /\
              next st' = next st /\ inv cs' pend st' /\
              own_entry pidx st' (OSet i (map obj_of_atom (prevA ++ batchA ++ xs))) /\ old_kept i st st'.
Proof.
  intros w. induction xs as [|a r IH];
    intros inm cs pend prog cs' rest st i prevA batchA below pidx H Hinv Hin Hs Hbat Hnd Hb Hlt Hown;
    cbn [chk_set_items] in H.
  - destruct inm; [discriminate|]. inversion H; subst cs' rest. rewrite (Hbat eq_refl) in *. cbn [app] in *.
    exists st. rewrite !app_nil_r. split; [reflexivity|]. split; [exact Hs|]. split; [reflexivity|].
    split; [exact Hinv|]. split; [exact Hown | apply old_kept_refl].
  - assert (Henter : exists st0 p0, run w st prog = run w st0 p0 /\
              (if inm then Some prog else match prog with MARK :: p => Some p | _ => None end) = Some p0 /\
              stack st0 = (rev (map obj_of_atom batchA) ++ OMark :: OSet i (map obj_of_atom prevA) :: below)%list /\
              next st0 = next st /\ inv cs pend st0 /\ memo_ext st st0).
    { destruct inm.
      - exists st, prog. rewrite Hs, <- app_assoc. split; [reflexivity|]. split; [reflexivity|]. split; [reflexivity|].
        split; [reflexivity|]. split; [exact Hinv | apply memo_ext_refl].
      - rewrite (Hbat eq_refl) in *. destruct prog as [|q p]; [discriminate|]. destruct q; try discriminate.
        exists (push OMark st), p. split; [apply run_step_next; reflexivity|]. split; [reflexivity|].
        split; [cbn; rewrite Hs; reflexivity|]. split; [reflexivity|].
        split; [apply inv_push; [exact Hinv | reflexivity] | apply memo_ext_same; reflexivity]. }
    destruct Henter as [st0 [p0 [Hr0 [Hp0 [Hs0 [Hn0 [Hi0 He0]]]]]]]. rewrite Hp0 in H. clear Hp0.
    destruct (chk_atom a cs p0) as [[cs1 p1]|] eqn:Ea; [|discriminate].
    destruct (atom_sound w a cs pend p0 cs1 p1 st0 Ea Hi0) as [st1 [Hr1 [Hs1 [Hn1 [Hi1 He1]]]]].
    assert (He01 : memo_ext st st1) by exact (memo_ext_trans _ _ _ He0 He1).
    assert (Hs1' : stack st1 = (rev (map obj_of_atom (batchA ++ [a])) ++ OMark :: OSet i (map obj_of_atom prevA) :: below)%list).
    { rewrite Hs1, Hs0, map_app, rev_app_distr. reflexivity. }
    assert (Hopen : chk_set_items r true cs1 p1 = Some (cs', rest) ->
              exists st', run w st prog = run w st' rest /\
                stack st' = OSet i (map obj_of_atom (prevA ++ batchA ++ a :: r)) :: below /\
                next st' = next st /\ inv cs' pend st' /\
                own_entry pidx st' (OSet i (map obj_of_atom (prevA ++ batchA ++ a :: r))) /\ old_kept i st st').
    { intro H'. destruct (IH true cs1 pend p1 cs' rest st1 i prevA (batchA ++ [a]) below pidx H' Hi1 Hin)
        as [st' [Hr' [Hs' [Hn' [Hi' [Ho' Hk']]]]]].
      - rewrite Hs1', <- app_assoc. reflexivity.
      - discriminate.
      - rewrite <- app_assoc. exact Hnd.
      - exact Hb.
      - lia.
      - exact (own_entry_ext _ _ _ _ Hown He01).
      - exists st'. split; [rewrite Hr0, Hr1; exact Hr'|]. rewrite <- app_assoc in Hs', Ho'.
        split; [exact Hs'|]. split; [lia|]. split; [exact Hi'|]. split; [exact Ho'|].
        exact (old_kept_trans _ _ _ _ (old_kept_ext i _ _ He01) Hk'). }
    destruct p1 as [|q p1']; [apply Hopen; exact H|].
    destruct q; try (apply Hopen; exact H).
    assert (Hnd1 : nodup_atoms (prevA ++ (batchA ++ [a])) = true).
    { apply (nodup_atoms_prefix _ r). rewrite <- !app_assoc. exact Hnd. }
    destruct (additems_step w cs1 pend st1 i prevA (batchA ++ [a]) below pidx Hi1 Hin)
      as [st2 [Hst2 [Hs2 [Hn2 [Hi2 [Ho2 Hk2]]]]]].
    + destruct batchA; discriminate.
    + exact Hnd1.
    + exact Hs1'.
    + exact Hb.
    + lia.
    + exact (own_entry_ext _ _ _ _ Hown He01).
    + destruct (IH false cs1 pend p1' cs' rest st2 i (prevA ++ batchA ++ [a]) [] below pidx H Hi2 Hin)
        as [st' [Hr' [Hs' [Hn' [Hi' [Ho' Hk']]]]]].
      * exact Hs2.
      * reflexivity.
      * cbn [app]. rewrite <- !app_assoc. exact Hnd.
      * exact Hb.
      * lia.
      * exact Ho2.
      * exists st'. split; [rewrite Hr0, Hr1, (run_step_next w st1 ADDITEMS st2 p1' Hst2); exact Hr'|].
        cbn [app] in Hs', Ho'. rewrite <- !app_assoc in Hs', Ho'. split; [exact Hs'|]. split; [lia|]. split; [exact Hi'|].
        split; [exact Ho'|].
        exact (old_kept_trans _ _ _ _ (old_kept_ext i _ _ He01) (old_kept_trans _ _ _ _ Hk2 Hk')).
Qed.

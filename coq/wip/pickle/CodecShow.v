(** Correspondence-side renderings for C14 (no theorem depends on this file). *)
From Coq Require Import List ZArith NArith Bool Arith String.
Import ListNotations.
From DD Require Import Base.Sx Base.PyStr Base.Value Pickle.Vm Pickle.Codec Pickle.PickleShow.
Local Open Scope string_scope.

Fixpoint sx_pv (v : pv) : sx :=
  match v with
  | PAtom a => sx_atom a
  | PFloatBits b => SL [SA "fb"; SZ b]
  | PList xs => SL [SA "L"; SL (map sx_pv xs)]
  | PTuple xs => SL [SA "T"; SL (map sx_pv xs)]
  | PDict kvs => SL [SA "D"; SL (map (fun kv => SL [sx_atom (fst kv); sx_pv (snd kv)]) kvs)]
  | PSet xs => SL [SA "S"; SL (sx_sort (map sx_atom xs))]
  | PFrozen xs => SL [SA "F"; SL (sx_sort (map sx_atom xs))]
  | PType m n => SL [SA "G"; sx_str m; sx_str n]
  | PNoneType => SA "NoneType"
  | POpcode tag i1 i2 j1 j2 old new => SL [SA "Op"; sx_str tag; SZ i1; SZ i2; SZ j1; SZ j2; sx_pv old; sx_pv new]
  | PSetOrdered xs => SL [SA "SO"; SL (map sx_pv xs)]
  end.
Definition sx_opv (o : option pv) : sx := match o with Some v => sx_pv v | None => SA "raises" end.

Fixpoint sx_jv (j : jv) : sx :=
  match j with
  | JNull => SA "None"
  | JBool b => SL [SA "b"; sx_bool b]
  | JInt z => SL [SA "i"; SZ z]
  | JFloat t => SL [SA "f"; SZ t]
  | JStr s => SL [SA "s"; sx_str s]
  | JArr xs => SL [SA "A"; SL (map sx_jv xs)]
  | JObj kvs => SL [SA "O"; SL (map (fun kv => SL [sx_str (fst kv); sx_jv (snd kv)]) kvs)]
  end.
Definition sx_ojv (o : option jv) : sx := match o with Some v => sx_jv v | None => SA "raises" end.

(* [decoded payload or raises; resolved names] of a real dump run on the model *)
Definition sx_load (w : world) (prog : list op) : sx :=
  let '(out, tr) := vm_run w prog in
  match out with
  | Done o => SL [sx_opv (decode o); SL (resolved_of tr)]
  | Err e => SL [sx_err_class e; SL (resolved_of tr)]
  end.

(* canonical encoding rendered one opcode per line: NAME <tab> argument *)
Definition show_fl (f : fl) : string :=
  match f with FHalf t => "h" ++ show_Z t | FBits b => "b" ++ show_Z b end.
Definition show_op (o : op) : string :=
  let a1 (n : string) (x : string) := n ++ tab ++ x in
  match o with
  | PROTO n => a1 "PROTO" (show_Z n) | FRAME n => a1 "FRAME" (show_Z n)
  | STOP => "STOP" | POP => "POP" | POP_MARK => "POP_MARK" | DUP => "DUP" | MARK => "MARK"
  | MEMOIZE => "MEMOIZE" | PUT i => a1 "PUT" (show_Z i) | BINPUT i => a1 "BINPUT" (show_Z i)
  | LONG_BINPUT i => a1 "LONG_BINPUT" (show_Z i) | GET i => a1 "GET" (show_Z i)
  | BINGET i => a1 "BINGET" (show_Z i) | LONG_BINGET i => a1 "LONG_BINGET" (show_Z i)
  | NONE => "NONE" | NEWTRUE => "NEWTRUE" | NEWFALSE => "NEWFALSE"
  | INT z => a1 "INT" (show_Z z) | INTB b => a1 "INTB" (if b then "1" else "0")
  | BININT z => a1 "BININT" (show_Z z) | BININT1 z => a1 "BININT1" (show_Z z) | BININT2 z => a1 "BININT2" (show_Z z)
  | LONG z => a1 "LONG" (show_Z z) | LONG1 z => a1 "LONG1" (show_Z z) | LONG4 z => a1 "LONG4" (show_Z z)
  | FLOAT f => a1 "FLOAT" (show_fl f) | BINFLOAT f => a1 "BINFLOAT" (show_fl f)
  | UNICODE s => a1 "UNICODE" (show_pystr s) | BINUNICODE s => a1 "BINUNICODE" (show_pystr s)
  | SHORT_BINUNICODE s => a1 "SHORT_BINUNICODE" (show_pystr s) | BINUNICODE8 s => a1 "BINUNICODE8" (show_pystr s)
  | BINBYTES s => a1 "BINBYTES" (show_pystr s) | SHORT_BINBYTES s => a1 "SHORT_BINBYTES" (show_pystr s)
  | BINBYTES8 s => a1 "BINBYTES8" (show_pystr s)
  | EMPTY_LIST => "EMPTY_LIST" | EMPTY_DICT => "EMPTY_DICT" | EMPTY_TUPLE => "EMPTY_TUPLE" | EMPTY_SET => "EMPTY_SET"
  | APPEND => "APPEND" | APPENDS => "APPENDS" | SETITEM => "SETITEM" | SETITEMS => "SETITEMS" | ADDITEMS => "ADDITEMS"
  | TUPLE => "TUPLE" | TUPLE1 => "TUPLE1" | TUPLE2 => "TUPLE2" | TUPLE3 => "TUPLE3" | FROZENSET => "FROZENSET"
  | LIST => "LIST" | DICT => "DICT"
  | GLOBAL m n => a1 "GLOBAL" (show_pystr m ++ tab ++ show_pystr n) | STACK_GLOBAL => "STACK_GLOBAL"
  | INST m n => a1 "INST" (show_pystr m ++ tab ++ show_pystr n) | OBJ => "OBJ"
  | NEWOBJ => "NEWOBJ" | NEWOBJ_EX => "NEWOBJ_EX" | REDUCE => "REDUCE" | BUILD => "BUILD"
  | BINPERSID => "BINPERSID" | PERSID s => a1 "PERSID" (show_pystr s)
  | EXT1 c => a1 "EXT1" (show_Z c) | EXT2 c => a1 "EXT2" (show_Z c) | EXT4 c => a1 "EXT4" (show_Z c)
  end.
Fixpoint show_ops (l : list op) : string :=
  match l with [] => "" | o :: r => show_op o ++ nl ++ show_ops r end.
(* several programs, separated by a line "--" *)
Fixpoint show_progs (l : list (list op)) : string :=
  match l with [] => "" | p :: r => show_ops p ++ "--" ++ nl ++ show_progs r end.


(* the state right after EMPTY_LIST / EMPTY_DICT / EMPTY_SET, with the new identity pending *)
Lemma enter_container : forall cs pend st t,
  inv cs pend st -> Forall (fun j => j < next st) pend -> ids_below (S (next st)) t = true ->
  let st1 := fresh (push t st) in
  inv cs (next st :: pend) st1 /\ Forall (fun j => j < next st1) (next st :: pend) /\ memo_ext st st1.
Proof.
  intros cs pend st t Hinv Hp Ht st1. split; [|split].
  - pose proof (inv_enter cs pend st (next st) Hinv (le_n _)) as H1.
    unfold st1, fresh, push, set_stack. cbn [stack memo next ecache trace]. apply inv_stack; [exact H1 | lia|].
    cbn [forallb]. rewrite Ht. destruct Hinv as [[Hs _] _].
    apply (ids_below_all_mono (next st) (S (next st)) _ (Nat.le_succ_diag_r _) Hs).
  - unfold st1. cbn. constructor; [lia|]. apply (pend_mono _ (next st)); [lia | exact Hp].
  - apply memo_ext_same. reflexivity.
Qed.

Lemma list_case : forall w xs, Forall (member_sound w chk) xs ->
  forall cs prog cs' rest pend st, chk (PList xs) cs prog = Some (cs', rest) -> inv cs pend st ->
  Forall (fun j => j < next st) pend -> vres w (PList xs) cs' pend st prog rest.
Proof.
  intros w xs HF cs prog cs' rest pend st H Hinv Hp. destruct prog as [|p r]; [discriminate|]. cbn [chk] in H.
  destruct (match get_index p with Some i => chk_get cs (PList xs) i | None => false end) eqn:Eg.
  { inversion H; subst. apply get_case; assumption. }
  destruct p; try discriminate.
  destruct (chk_put_pending cs r) as [[[cs1 p1] pidx]|] eqn:Ep; [|discriminate].
  destruct (items_gen chk xs false cs1 p1) as [[cs2 p2]|] eqn:Ei; [|discriminate]. inversion H; subst cs' rest. clear H.
  set (i := next st). set (st1 := fresh (push (OList i []) st)).
  destruct (enter_container cs pend st (OList i []) Hinv Hp) as [Hi1 [Hp1 He1]].
  { cbn [ids_below forallb]. rewrite andb_true_r. apply Nat.ltb_lt. unfold i. lia. }
  fold i st1 in Hi1, Hp1, He1.
  destruct (put_pending_sound w cs (i :: pend) r cs1 p1 pidx st1 (OList i []) (stack st) Ep Hi1 eq_refl eq_refl)
    as [st2 [Hr2 [Hs2 [Hn2 [Hi2 [He2 Hown2]]]]]].
  pose proof Hinv as [[Hs0 Hm0] _].
  destruct (items_sound w chk xs HF false cs1 (i :: pend) p1 cs2 p2 st2 i [] [] (stack st) pidx Ei Hi2)
    as [os [st3 [Hr3 [Hs3 [Hd3 [Hno3 [Hi3 [Hn3 [Hown3 Hk3]]]]]]]]].
  - left. reflexivity.
  - rewrite Hn2. exact Hp1.
  - rewrite Hs2. reflexivity.
  - reflexivity.
  - reflexivity.
  - reflexivity.
  - exact Hs0.
  - exact Hown2.
  - cbn [app] in Hs3, Hno3, Hown3.
    assert (Hnol : noccur_all pend (OList i os) = true).
    { apply (noccur_fresh_list pend i os (next st) Hp (le_n _)).
      apply (forallb_imp _ (noccur_all (i :: pend))); [|exact Hno3]. apply Forall_forall. intros x _. apply noccur_all_cons. }
    exists (OList i os), st3.
    split; [rewrite (run_step_next w st EMPTY_LIST st1 r eq_refl), Hr2; exact Hr3|].
    split; [exact Hs3|]. split; [rewrite decode_list_eq, (all_some_map_decode _ _ Hd3); reflexivity|].
    split; [reflexivity|]. split; [intro; discriminate|]. split; [exact Hnol|].
    split; [|split].
    + apply (inv_record cs2 pend st3 pidx (PList xs) (OList i os)); [apply (inv_weaken _ i); exact Hi3 | exact Hown3 | | | exact Hnol].
      * rewrite decode_list_eq, (all_some_map_decode _ _ Hd3). reflexivity.
      * intro; discriminate.
    + rewrite Hn2 in Hn3. unfold st1 in Hn3. cbn in Hn3. lia.
    + apply (old_kept_memo_ext i st st2 st3); [split; assumption | unfold i; lia | exact (memo_ext_trans _ _ _ He1 He2) | exact Hk3].
Qed.

Lemma noccur_fresh_dict : forall pend i (ps : list (obj * obj)) n, Forall (fun j => j < n) pend -> n <= i ->
  forallb (noccur_all pend) (map snd ps) = true ->
  (forall p, In p ps -> noids (fst p) = true) -> noccur_all pend (ODict i ps) = true.
Proof.
  intros pend i ps n Hp Hle H Hk. unfold noccur_all. apply forallb_forall. intros j Hj. cbn [occurs].
  rewrite Forall_forall in Hp. specialize (Hp j Hj).
  replace (Nat.eqb j i) with false by (symmetry; apply Nat.eqb_neq; lia). cbn [orb]. apply negb_true_iff.
  induction ps as [|[k v] r IH]; [reflexivity|]. cbn [map snd forallb] in H. apply andb_true_iff in H. destruct H as [H1 H2].
  cbn [existsb fst snd]. rewrite (noccur_all_in _ _ _ H1 Hj), orb_false_r.
  rewrite (below_noccur 0 j (Nat.le_0_l j) k (noids_below 0 k (Hk (k, v) (or_introl eq_refl)))). cbn.
  apply IH; [exact H2|]. intros p Hin. apply Hk. right. exact Hin.
Qed.

Lemma dict_case : forall w (kvs : list (atom * pv)), Forall (fun kv => member_sound w chk (snd kv)) kvs ->
  nodup_atoms (map fst kvs) = true ->
  forall cs prog cs' rest pend st, chk (PDict kvs) cs prog = Some (cs', rest) -> inv cs pend st ->
  Forall (fun j => j < next st) pend -> vres w (PDict kvs) cs' pend st prog rest.
Proof.
  intros w kvs HF Hnd cs prog cs' rest pend st H Hinv Hp. destruct prog as [|p r]; [discriminate|]. cbn [chk] in H.
  destruct (match get_index p with Some i => chk_get cs (PDict kvs) i | None => false end) eqn:Eg.
  { inversion H; subst. apply get_case; assumption. }
  destruct p; try discriminate.
  destruct (chk_put_pending cs r) as [[[cs1 p1] pidx]|] eqn:Ep; [|discriminate].
  destruct (kitems_gen chk kvs false cs1 p1) as [[cs2 p2]|] eqn:Ei; [|discriminate]. inversion H; subst cs' rest. clear H.
  set (i := next st). set (st1 := fresh (push (ODict i []) st)).
  destruct (enter_container cs pend st (ODict i []) Hinv Hp) as [Hi1 [Hp1 He1]].
  { cbn [ids_below forallb]. rewrite andb_true_r. apply Nat.ltb_lt. unfold i. lia. }
  fold i st1 in Hi1, Hp1, He1.
  destruct (put_pending_sound w cs (i :: pend) r cs1 p1 pidx st1 (ODict i []) (stack st) Ep Hi1 eq_refl eq_refl)
    as [st2 [Hr2 [Hs2 [Hn2 [Hi2 [He2 Hown2]]]]]].
  pose proof Hinv as [[Hs0 Hm0] _].
  destruct (kitems_sound w chk kvs HF false cs1 (i :: pend) p1 cs2 p2 st2 i [] [] (stack st) [] [] pidx Ei Hi2)
    as [ps [st3 [Hr3 [Hs3 [Hd3 [Hno3 [Hi3 [Hn3 [Hown3 Hk3]]]]]]]]].
  - left. reflexivity.
  - rewrite Hn2. exact Hp1.
  - rewrite Hs2. reflexivity.
  - reflexivity.
  - reflexivity.
  - reflexivity.
  - reflexivity.
  - exact Hnd.
  - reflexivity.
  - exact Hs0.
  - exact Hown2.
  - cbn [app] in Hs3, Hno3, Hown3. destruct (kvs_keys _ _ Hd3) as [Hkeys Hdec].
    assert (Hdd : decode (ODict i ps) = Some (PDict kvs)) by (rewrite decode_dict_eq, Hdec; reflexivity).
    assert (Hnol : noccur_all pend (ODict i ps) = true).
    { apply (noccur_fresh_dict pend i ps (next st) Hp (le_n _)).
      - apply (forallb_imp _ (noccur_all (i :: pend))); [|exact Hno3]. apply Forall_forall. intros x _. apply noccur_all_cons.
      - intros q Hin. assert (In (fst q) (map fst ps)) by (apply in_map; exact Hin). rewrite Hkeys in H.
        apply in_map_iff in H. destruct H as [a [Ha _]]. rewrite <- Ha. apply noids_atom. }
    exists (ODict i ps), st3.
    split; [rewrite (run_step_next w st EMPTY_DICT st1 r eq_refl), Hr2; exact Hr3|].
    split; [exact Hs3|]. split; [exact Hdd|].
    split; [reflexivity|]. split; [intro; discriminate|]. split; [exact Hnol|].
    split; [|split].
    + apply (inv_record cs2 pend st3 pidx (PDict kvs) (ODict i ps));
        [apply (inv_weaken _ i); exact Hi3 | exact Hown3 | exact Hdd | intro; discriminate | exact Hnol].
    + rewrite Hn2 in Hn3. unfold st1 in Hn3. cbn in Hn3. lia.
    + apply (old_kept_memo_ext i st st2 st3); [split; assumption | unfold i; lia | exact (memo_ext_trans _ _ _ He1 He2) | exact Hk3].
Qed.

Lemma noccur_fresh_set : forall pend i xs n, Forall (fun j => j < n) pend -> n <= i ->
  noccur_all pend (OSet i (map obj_of_atom xs)) = true.
Proof.
  intros pend i xs n Hp Hle. unfold noccur_all. apply forallb_forall. intros j Hj. cbn [occurs].
  rewrite Forall_forall in Hp. specialize (Hp j Hj).
  replace (Nat.eqb j i) with false by (symmetry; apply Nat.eqb_neq; lia). cbn [orb]. apply negb_true_iff.
  induction xs as [|a r IH]; [reflexivity|]. cbn [map existsb].
  rewrite (below_noccur 0 j (Nat.le_0_l j) _ (ids_below_atom 0 a)). exact IH.
Qed.

Lemma set_case : forall w xs, nodup_atoms xs = true ->
  forall cs prog cs' rest pend st, chk (PSet xs) cs prog = Some (cs', rest) -> inv cs pend st ->
  Forall (fun j => j < next st) pend -> vres w (PSet xs) cs' pend st prog rest.
Proof.
  intros w xs Hnd cs prog cs' rest pend st H Hinv Hp. destruct prog as [|p r]; [discriminate|]. cbn [chk] in H.
  destruct (match get_index p with Some i => chk_get cs (PSet xs) i | None => false end) eqn:Eg.
  { inversion H; subst. apply get_case; assumption. }
  destruct p; try discriminate.
  destruct (chk_put_pending cs r) as [[[cs1 p1] pidx]|] eqn:Ep; [|discriminate].
  destruct (chk_set_items xs false cs1 p1) as [[cs2 p2]|] eqn:Ei; [|discriminate]. inversion H; subst cs' rest. clear H.
  set (i := next st). set (st1 := fresh (push (OSet i []) st)).
  destruct (enter_container cs pend st (OSet i []) Hinv Hp) as [Hi1 [Hp1 He1]].
  { cbn [ids_below forallb]. rewrite andb_true_r. apply Nat.ltb_lt. unfold i. lia. }
  fold i st1 in Hi1, Hp1, He1.
  destruct (put_pending_sound w cs (i :: pend) r cs1 p1 pidx st1 (OSet i []) (stack st) Ep Hi1 eq_refl eq_refl)
    as [st2 [Hr2 [Hs2 [Hn2 [Hi2 [He2 Hown2]]]]]].
  pose proof Hinv as [[Hs0 Hm0] _].
  destruct (set_items_sound w xs false cs1 (i :: pend) p1 cs2 p2 st2 i [] [] (stack st) pidx Ei Hi2)
    as [st3 [Hr3 [Hs3 [Hn3 [Hi3 [Hown3 Hk3]]]]]].
  - left. reflexivity.
  - rewrite Hs2. reflexivity.
  - reflexivity.
  - exact Hnd.
  - exact Hs0.
  - rewrite Hn2. unfold st1, i. cbn. lia.
  - exact Hown2.
  - cbn [app] in Hs3, Hown3.
    assert (Hnol : noccur_all pend (OSet i (map obj_of_atom xs)) = true) by (apply (noccur_fresh_set pend i xs (next st) Hp (le_n _))).
    exists (OSet i (map obj_of_atom xs)), st3.
    split; [rewrite (run_step_next w st EMPTY_SET st1 r eq_refl), Hr2; exact Hr3|].
    split; [exact Hs3|]. split; [apply decode_set_atoms|].
    split; [reflexivity|]. split; [intro; discriminate|]. split; [exact Hnol|].
    split; [|split].
    + apply (inv_record cs2 pend st3 pidx (PSet xs) (OSet i (map obj_of_atom xs)));
        [apply (inv_weaken _ i); exact Hi3 | exact Hown3 | apply decode_set_atoms | intro; discriminate | exact Hnol].
    + rewrite Hn3, Hn2. unfold st1. cbn. lia.
    + apply (old_kept_memo_ext i st st2 st3); [split; assumption | unfold i; lia | exact (memo_ext_trans _ _ _ He1 He2) | exact Hk3].
Qed.

Lemma frozen_case : forall w xs, nodup_atoms xs = true ->
  forall cs prog cs' rest pend st, chk (PFrozen xs) cs prog = Some (cs', rest) -> inv cs pend st ->
  vres w (PFrozen xs) cs' pend st prog rest.
Proof.
  intros w xs Hnd cs prog cs' rest pend st H Hinv. destruct prog as [|p r]; [discriminate|]. cbn [chk] in H.
  destruct (match get_index p with Some i => chk_get cs (PFrozen xs) i | None => false end) eqn:Eg.
  { inversion H; subst. apply get_case; assumption. }
  destruct p; try discriminate.
  destruct (chk_atoms xs cs r) as [[cs1 pp]|] eqn:Ea; [|discriminate].
  destruct pp as [|q p1]; [discriminate|]. destruct q; try discriminate.
  assert (Hi0 : inv cs pend (push OMark st)) by (apply inv_push; [exact Hinv | reflexivity]).
  destruct (atoms_sound w xs cs pend r cs1 _ (push OMark st) Ea Hi0) as [st1 [Hr1 [Hs1 [Hn1 [Hi1 He1]]]]].
  set (o := OFrozen (map obj_of_atom xs)).
  set (st2 := set_stack st1 (o :: stack st)).
  apply (put_after w (PFrozen xs) pend (MARK :: r) p1 cs1 cs' rest st st2 o);
    [ | reflexivity | | | | exact H | apply decode_frozen_atoms | reflexivity | intro; reflexivity | ].
  - rewrite (run_step_next w st MARK (push OMark st) r eq_refl), Hr1. apply run_step_next.
    cbn [step]. unfold with_mark. rewrite Hs1. cbn [push set_stack stack]. rewrite (to_mark_rev _ _ (no_mark_atoms xs)).
    pose proof (set_add_all_atoms xs [] Hnd) as E. cbn [map app] in E. rewrite E. reflexivity.
  - unfold st2. cbn [set_stack next]. rewrite Hn1. cbn. lia.
  - apply inv_set_stack_sub; [exact Hi1|]. destruct Hi1 as [[Hst _] _]. rewrite Hs1 in Hst. cbn [push set_stack stack] in Hst.
    apply forallb_app_split in Hst. destruct Hst as [_ Hst]. cbn in Hst.
    cbn [forallb ids_below o]. rewrite ids_below_atoms. exact Hst.
  - intros idx x Hg. unfold st2. cbn [set_stack memo]. apply He1. exact Hg.
  - apply noccur_all_noids. unfold o. cbn [noids]. apply noids_atoms.
Qed.

Lemma floatbits_case : forall w b cs prog cs' rest pend st,
  chk (PFloatBits b) cs prog = Some (cs', rest) -> inv cs pend st -> vres w (PFloatBits b) cs' pend st prog rest.
Proof.
  intros w b cs prog cs' rest pend st H Hinv. destruct prog as [|p r]; [discriminate|]. cbn [chk] in H.
  destruct (match get_index p with Some i => chk_get cs (PFloatBits b) i | None => false end) eqn:Eg.
  { inversion H; subst. apply get_case; assumption. }
  destruct p; try discriminate; destruct f; try discriminate;
    (destruct (Z.eqb bits b) eqn:Eb; [|discriminate]; apply Z.eqb_eq in Eb; subst bits;
     apply (pushed_then_put w (PFloatBits b) cs pend _ r cs' rest st (push (OFloat (FBits b)) st) (OFloat (FBits b)));
     [reflexivity | reflexivity | cbn; lia | apply inv_push; [exact Hinv | reflexivity] | apply memo_ext_same; reflexivity
     | exact H | reflexivity | reflexivity | intro; reflexivity | apply noccur_all_noids; reflexivity]).
Qed.

Lemma nonetype_case : forall w cs prog cs' rest pend st,
  chk PNoneType cs prog = Some (cs', rest) -> inv cs pend st -> vres w PNoneType cs' pend st prog rest.
Proof.
  intros w cs prog cs' rest pend st H Hinv. destruct prog as [|p r]; [discriminate|]. cbn [chk] in H.
  destruct (match get_index p with Some i => chk_get cs PNoneType i | None => false end) eqn:Eg.
  { inversion H; subst. apply get_case; assumption. }
  assert (Hdef : match chk_atom (AStr NONE_TYPE_PID) cs (p :: r) with
                 | Some (cs1, BINPERSID :: p1) => Some (cs1, p1)
                 | _ => None
                 end = Some (cs', rest) -> vres w PNoneType cs' pend st (p :: r) rest).
  { intro H0. destruct (chk_atom (AStr NONE_TYPE_PID) cs (p :: r)) as [[cs1 pp]|] eqn:Ea; [|discriminate].
    destruct pp as [|q p1]; [discriminate|]. destruct q; try discriminate. inversion H0; subst cs1 p1.
    destruct (atom_sound w _ cs pend (p :: r) cs' _ st Ea Hinv) as [st1 [Hr1 [Hs1 [Hn1 [Hi1 He1]]]]]. cbn [obj_of_atom] in Hs1.
    exists ONoneType, (set_stack (emit (EPersist (OStr NONE_TYPE_PID)) st1) (ONoneType :: stack st)).
    split; [rewrite Hr1; apply run_step_next; cbn [step]; rewrite Hs1; cbn [pop1 is_mark persistent_load];
            rewrite pystr_eqb_refl; reflexivity|].
    split; [reflexivity|]. split; [reflexivity|]. split; [reflexivity|]. split; [reflexivity|].
    split; [apply noccur_all_noids; reflexivity|].
    split; [|split; [cbn; lia | intros idx x Hg; cbn; apply He1; exact Hg]].
    apply inv_set_stack_sub; [apply inv_emit; exact Hi1|]. destruct Hi1 as [[Hst _] _]. rewrite Hs1 in Hst. cbn in Hst. exact Hst. }
  destruct p; try (apply Hdef; exact H).
  destruct (pystr_eqb s NONE_TYPE_PID) eqn:Es; [|discriminate]. inversion H; subst cs' rest.
  apply pystr_eqb_eq in Es. subst s.
  exists ONoneType, (push ONoneType (emit (EPersist (OStr NONE_TYPE_PID)) st)).
  split; [apply run_step_next; cbn [step persistent_load]; rewrite pystr_eqb_refl; reflexivity|].
  split; [reflexivity|]. split; [reflexivity|]. split; [reflexivity|]. split; [reflexivity|].
  split; [apply noccur_all_noids; reflexivity|].
  split; [apply inv_push; [apply inv_emit; exact Hinv | reflexivity] | split; [cbn; lia | apply memo_ext_same; reflexivity]].
Qed.

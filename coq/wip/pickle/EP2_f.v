
(** * the cases of the main theorem *)

Definition vres (w : world) (v : pv) (cs' : cstate) (pend : list nat) (st : state) (prog rest : list op) : Prop :=
  exists o st', run w st prog = run w st' rest /\ stack st' = o :: stack st /\ decode o = Some v /\
    is_mark o = false /\ (idfree v = true -> o = canon_obj v) /\ noccur_all pend o = true /\
    inv cs' pend st' /\ next st <= next st' /\ memo_ext st st'.

Lemma get_case : forall w v cs pend p r st,
  (match get_index p with Some i => chk_get cs v i | None => false end) = true -> inv cs pend st ->
  vres w v cs pend st (p :: r) r.
Proof.
  intros w v cs pend p r st Eg Hinv. destruct (get_index p) as [i|] eqn:Ei; [|discriminate].
  destruct (get_sound w cs pend v i st p Ei Eg Hinv) as [o [Hs [Hd [Hc [Hn Hb]]]]].
  exists o, (push o st).
  split; [apply run_step_next; exact Hs|]. split; [reflexivity|]. split; [exact Hd|].
  split; [|split; [exact Hc | split; [exact Hn | split; [apply inv_push; assumption | split; [cbn; lia | apply memo_ext_same; reflexivity]]]]].
  destruct o; try reflexivity. cbn in Hd. discriminate.
Qed.

Lemma atom_case : forall w a cs pend prog cs' rest st,
  chk_atom a cs prog = Some (cs', rest) -> inv cs pend st -> vres w (PAtom a) cs' pend st prog rest.
Proof.
  intros w a cs pend prog cs' rest st H Hinv.
  destruct (atom_sound w a cs pend prog cs' rest st H Hinv) as [st' [Hr [Hs [Hn [Hi He]]]]].
  exists (obj_of_atom a), st'. split; [exact Hr|]. split; [exact Hs|]. split; [apply decode_obj_of_atom|].
  split; [apply is_mark_atom|]. split; [reflexivity|]. split; [apply noccur_atom|]. split; [exact Hi|]. split; [lia | exact He].
Qed.

Lemma put_after : forall w v pend prog p1 cs1 cs' rest st st1 o,
  run w st prog = run w st1 p1 -> stack st1 = o :: stack st -> next st <= next st1 -> inv cs1 pend st1 ->
  memo_ext st st1 -> chk_put cs1 v p1 = Some (cs', rest) ->
  decode o = Some v -> is_mark o = false -> (idfree v = true -> o = canon_obj v) -> noccur_all pend o = true ->
  vres w v cs' pend st prog rest.
Proof.
  intros w v pend prog p1 cs1 cs' rest st st1 o Hrun Hs1 Hn1 Hi1 He1 Hput Hd Hm Hc Hno.
  destruct (put_sound w cs1 pend v p1 cs' rest st1 o (stack st) Hput Hi1 Hs1 Hm Hd Hc Hno) as [st2 [Hr2 [Hs2 [Hn2 [Hi2 He2]]]]].
  exists o, st2. split; [rewrite Hrun; exact Hr2|].
  split; [rewrite Hs2; exact Hs1|]. split; [exact Hd|]. split; [exact Hm|]. split; [exact Hc|]. split; [exact Hno|].
  split; [exact Hi2|]. split; [lia | exact (memo_ext_trans _ _ _ He1 He2)].
Qed.

Lemma pushed_then_put : forall w v cs pend p r cs' rest st st1 o,
  step w st p = SNext st1 -> stack st1 = o :: stack st -> next st <= next st1 -> inv cs pend st1 -> memo_ext st st1 ->
  chk_put cs v r = Some (cs', rest) ->
  decode o = Some v -> is_mark o = false -> (idfree v = true -> o = canon_obj v) -> noccur_all pend o = true ->
  vres w v cs' pend st (p :: r) rest.
Proof.
  intros w v cs pend p r cs' rest st st1 o Hstep. intros.
  apply (put_after w v pend (p :: r) r cs cs' rest st st1 o); try assumption. apply run_step_next. exact Hstep.
Qed.

Lemma Forall2_decode_length : forall os (xs : list pv), Forall2 (fun o v => decode o = Some v) os xs ->
  List.length os = List.length xs.
Proof. intros os xs H. induction H; cbn; [reflexivity | rewrite IHForall2; reflexivity]. Qed.

Lemma noccur_list : forall pend os, forallb (noccur_all pend) os = true ->
  forall j, In j pend -> existsb (occurs j) os = false.
Proof.
  intros pend os H j Hj. induction os as [|o r IH]; [reflexivity|]. cbn in H. apply andb_true_iff in H. destruct H as [H1 H2].
  cbn. rewrite (noccur_all_in _ _ _ H1 Hj), (IH H2). reflexivity.
Qed.
Lemma noccur_tuple : forall pend os, forallb (noccur_all pend) os = true -> noccur_all pend (OTuple os) = true.
Proof.
  intros pend os H. unfold noccur_all. apply forallb_forall. intros j Hj. cbn [occurs].
  rewrite (noccur_list pend os H j Hj). reflexivity.
Qed.
(* a container created at or after the current [next] *)
Lemma noccur_fresh_list : forall pend i os n, Forall (fun j => j < n) pend -> n <= i ->
  forallb (noccur_all pend) os = true -> noccur_all pend (OList i os) = true.
Proof.
  intros pend i os n Hp Hle H. unfold noccur_all. apply forallb_forall. intros j Hj. cbn [occurs].
  rewrite (noccur_list pend os H j Hj), orb_false_r. rewrite Forall_forall in Hp. specialize (Hp j Hj).
  apply negb_true_iff. apply Nat.eqb_neq. lia.
Qed.

Lemma fresh_memo_below : forall st idx o, fresh_state st -> memo_get idx (memo st) = Some o -> ids_below (next st) o = true.
Proof.
  intros st idx o [_ Hm] Hg. induction (memo st) as [|[k x] r IH]; cbn in *; [discriminate|].
  apply andb_true_iff in Hm. destruct Hm as [H1 H2]. destruct (Z.eqb idx k); [inversion Hg; subst; exact H1 | apply IH; assumption].
Qed.
Lemma old_kept_memo_ext : forall i st st1 st', fresh_state st -> next st <= i -> memo_ext st st1 -> old_kept i st1 st' -> memo_ext st st'.
Proof.
  intros i st st1 st' Hf Hle He Hk idx o Hg. apply Hk; [apply He; exact Hg|].
  apply (ids_below_mono (next st) i Hle). apply (fresh_memo_below st idx o Hf Hg).
Qed.

Lemma tuple_case : forall w xs, Forall (member_sound w chk) xs ->
  forall cs prog cs' rest pend st, chk (PTuple xs) cs prog = Some (cs', rest) -> inv cs pend st ->
  Forall (fun j => j < next st) pend -> vres w (PTuple xs) cs' pend st prog rest.
Proof.
  intros w xs HF cs prog cs' rest pend st H Hinv Hp. destruct prog as [|p r]; [discriminate|]. cbn [chk] in H.
  destruct (match get_index p with Some i => chk_get cs (PTuple xs) i | None => false end) eqn:Eg.
  { inversion H; subst. apply get_case; assumption. }
  assert (Hfin : forall cs1 p1 st1 os, run w st (p :: r) = run w st1 p1 -> stack st1 = OTuple os :: stack st ->
            next st <= next st1 -> inv cs1 pend st1 -> memo_ext st st1 -> Forall2 (fun o v => decode o = Some v) os xs ->
            (forallb idfree xs = true -> os = map canon_obj xs) -> forallb (noccur_all pend) os = true ->
            chk_put cs1 (PTuple xs) p1 = Some (cs', rest) -> vres w (PTuple xs) cs' pend st (p :: r) rest).
  { intros cs1 p1 st1 os Hrun Hs1 Hn1 Hi1 He1 Hd Hc Hno Hput.
    apply (put_after w (PTuple xs) pend (p :: r) p1 cs1 cs' rest st st1 (OTuple os)); try assumption.
    - rewrite decode_tuple_eq, (all_some_map_decode _ _ Hd). reflexivity.
    - reflexivity.
    - intro Hf. cbn [idfree] in Hf. cbn [canon_obj]. rewrite (Hc Hf). reflexivity.
    - apply noccur_tuple. exact Hno. }
  assert (Hsmall : match seq_gen chk xs cs (p :: r) with
                   | Some (cs1, TUPLE1 :: p1) => if Nat.eqb (List.length xs) 1 then chk_put cs1 (PTuple xs) p1 else None
                   | Some (cs1, TUPLE2 :: p1) => if Nat.eqb (List.length xs) 2 then chk_put cs1 (PTuple xs) p1 else None
                   | Some (cs1, TUPLE3 :: p1) => if Nat.eqb (List.length xs) 3 then chk_put cs1 (PTuple xs) p1 else None
                   | _ => None
                   end = Some (cs', rest) -> vres w (PTuple xs) cs' pend st (p :: r) rest).
  { intro H0. destruct (seq_gen chk xs cs (p :: r)) as [[cs1 pp]|] eqn:Es; [|discriminate].
    destruct (seq_sound w chk xs HF cs (p :: r) cs1 pp pend st Es Hinv Hp)
      as [os [st1 [Hr1 [Hs1 [Hd1 [Hm1 [Hc1 [Hno1 [Hi1 [Hn1 He1]]]]]]]]]].
    pose proof (Forall2_decode_length _ _ Hd1) as Hlen.
    destruct pp as [|q p1]; [discriminate|]. destruct q; try discriminate.
    - destruct (Nat.eqb (List.length xs) 1) eqn:El; [|discriminate]. apply Nat.eqb_eq in El.
      rewrite El in Hlen. destruct os as [|a [|b os']]; try discriminate.
      cbn in Hm1. apply orb_false_iff in Hm1. destruct Hm1 as [Ma _].
      set (st2 := set_stack st1 (OTuple [a] :: stack st)).
      apply (Hfin cs1 p1 st2 [a]); try assumption; try reflexivity.
      + rewrite Hr1. apply run_step_next. cbn [step]. rewrite Hs1. cbn [rev app pop1]. rewrite Ma. reflexivity.
      + apply inv_set_stack_sub; [exact Hi1|]. destruct Hi1 as [[Hst _] _]. rewrite Hs1 in Hst. cbn in Hst. cbn. rewrite andb_true_r. exact Hst.
    - destruct (Nat.eqb (List.length xs) 2) eqn:El; [|discriminate]. apply Nat.eqb_eq in El.
      rewrite El in Hlen. destruct os as [|a [|b [|c os']]]; try discriminate.
      cbn in Hm1. apply orb_false_iff in Hm1. destruct Hm1 as [Ma Hm1]. apply orb_false_iff in Hm1. destruct Hm1 as [Mb _].
      set (st2 := set_stack st1 (OTuple [a; b] :: stack st)).
      apply (Hfin cs1 p1 st2 [a; b]); try assumption; try reflexivity.
      + rewrite Hr1. apply run_step_next. cbn [step]. rewrite Hs1. cbn [rev app pop1]. rewrite Mb. cbn [pop1]. rewrite Ma. reflexivity.
      + apply inv_set_stack_sub; [exact Hi1|]. destruct Hi1 as [[Hst _] _]. rewrite Hs1 in Hst. cbn in Hst.
        apply andb_true_iff in Hst. destruct Hst as [Hb' Hst]. apply andb_true_iff in Hst. destruct Hst as [Ha' Hst].
        cbn. rewrite Ha', Hb', Hst. reflexivity.
    - destruct (Nat.eqb (List.length xs) 3) eqn:El; [|discriminate]. apply Nat.eqb_eq in El.
      rewrite El in Hlen. destruct os as [|a [|b [|c [|d os']]]]; try discriminate.
      cbn in Hm1. apply orb_false_iff in Hm1. destruct Hm1 as [Ma Hm1]. apply orb_false_iff in Hm1. destruct Hm1 as [Mb Hm1].
      apply orb_false_iff in Hm1. destruct Hm1 as [Mc _].
      set (st2 := set_stack st1 (OTuple [a; b; c] :: stack st)).
      apply (Hfin cs1 p1 st2 [a; b; c]); try assumption; try reflexivity.
      + rewrite Hr1. apply run_step_next. cbn [step]. rewrite Hs1. cbn [rev app pop1]. rewrite Mc. cbn [pop1]. rewrite Mb.
        cbn [pop1]. rewrite Ma. reflexivity.
      + apply inv_set_stack_sub; [exact Hi1|]. destruct Hi1 as [[Hst _] _]. rewrite Hs1 in Hst. cbn in Hst.
        apply andb_true_iff in Hst. destruct Hst as [Hc' Hst]. apply andb_true_iff in Hst. destruct Hst as [Hb' Hst].
        apply andb_true_iff in Hst. destruct Hst as [Ha' Hst].
        cbn. rewrite Ha', Hb', Hc', Hst. reflexivity. }
  destruct p; try (apply Hsmall; exact H).
  - destruct (seq_gen chk xs cs r) as [[cs1 pp]|] eqn:Es; [|apply Hsmall; exact H].
    destruct pp as [|q p1]; [apply Hsmall; exact H|]. destruct q; try (apply Hsmall; exact H).
    assert (Hi0 : inv cs pend (push OMark st)) by (apply inv_push; [exact Hinv | reflexivity]).
    destruct (seq_sound w chk xs HF cs r cs1 _ pend (push OMark st) Es Hi0 Hp)
      as [os [st1 [Hr1 [Hs1 [Hd1 [Hm1 [Hc1 [Hno1 [Hi1 [Hn1 He1]]]]]]]]]].
    set (st2 := set_stack st1 (OTuple os :: stack st)).
    apply (Hfin cs1 p1 st2 os); try assumption; try reflexivity.
    + rewrite (run_step_next w st MARK (push OMark st) r eq_refl), Hr1. apply run_step_next.
      cbn [step]. unfold with_mark. rewrite Hs1. cbn [push set_stack stack]. rewrite (to_mark_rev os _ Hm1). reflexivity.
    + apply inv_set_stack_sub; [exact Hi1|]. destruct Hi1 as [[Hst _] _]. rewrite Hs1 in Hst. cbn [push set_stack stack] in Hst.
      apply forallb_app_split in Hst. destruct Hst as [Ho Hst]. rewrite forallb_rev' in Ho. cbn in Hst.
      cbn [forallb ids_below]. rewrite Ho. exact Hst.
  - destruct xs as [|x xs']; [|discriminate].
    apply (pushed_then_put w (PTuple []) cs pend EMPTY_TUPLE r cs' rest st (push (OTuple []) st) (OTuple []));
      [reflexivity | reflexivity | cbn; lia | apply inv_push; [exact Hinv | reflexivity] | apply memo_ext_same; reflexivity
      | exact H | reflexivity | reflexivity | intro; reflexivity | apply noccur_all_noids; reflexivity].
Qed.


(** * the generic member loops *)

Definition member_sound (w : world) (chkf : pv -> cstate -> list op -> option (cstate * list op)) (x : pv) : Prop :=
  forall cs prog cs' rest, chkf x cs prog = Some (cs', rest) ->
  forall pend st, inv cs pend st -> Forall (fun j => j < next st) pend ->
  exists o st', run w st prog = run w st' rest /\ stack st' = o :: stack st /\ decode o = Some x /\
    is_mark o = false /\ (idfree x = true -> o = canon_obj x) /\ noccur_all pend o = true /\
    inv cs' pend st' /\ next st <= next st' /\ memo_ext st st'.

Lemma pend_mono : forall pend n m, n <= m -> Forall (fun j => j < n) pend -> Forall (fun j => j < m) pend.
Proof. intros pend n m H HF. induction HF; constructor; [lia | assumption]. Qed.

Lemma seq_sound : forall w chkf xs, Forall (member_sound w chkf) xs ->
  forall cs prog cs' rest pend st, seq_gen chkf xs cs prog = Some (cs', rest) -> inv cs pend st ->
  Forall (fun j => j < next st) pend ->
  exists os st', run w st prog = run w st' rest /\ stack st' = (rev os ++ stack st)%list /\
    Forall2 (fun o v => decode o = Some v) os xs /\ existsb is_mark os = false /\
    (forallb idfree xs = true -> os = map canon_obj xs) /\ forallb (noccur_all pend) os = true /\
    inv cs' pend st' /\ next st <= next st' /\ memo_ext st st'.
Proof.
  intros w chkf xs HF. induction HF as [|x r Hx Hr IH]; intros cs prog cs' rest pend st H Hinv Hp; cbn [seq_gen] in H.
  - inversion H; subst. exists [], st. cbn.
    split; [reflexivity|]. split; [reflexivity|]. split; [constructor|]. split; [reflexivity|].
    split; [reflexivity|]. split; [reflexivity|]. split; [exact Hinv|]. split; [lia | apply memo_ext_refl].
  - destruct (chkf x cs prog) as [[cs1 p1]|] eqn:E; [|discriminate].
    destruct (Hx cs prog cs1 p1 E pend st Hinv Hp) as [o [st1 [Hr1 [Hs1 [Hd1 [Hm1 [Hc1 [Hno1 [Hi1 [Hn1 He1]]]]]]]]]].
    destruct (IH cs1 p1 cs' rest pend st1 H Hi1 (pend_mono _ _ _ Hn1 Hp))
      as [os [st2 [Hr2 [Hs2 [Hd2 [Hm2 [Hc2 [Hno2 [Hi2 [Hn2 He2]]]]]]]]]].
    exists (o :: os), st2. split; [rewrite Hr1; exact Hr2|].
    split; [rewrite Hs2, Hs1; cbn [rev]; rewrite <- app_assoc; reflexivity|].
    split; [constructor; assumption|]. split; [cbn; rewrite Hm1; exact Hm2|].
    split; [|split; [cbn; rewrite Hno1; exact Hno2|]].
    + intro Hf. cbn in Hf. apply andb_true_iff in Hf. destruct Hf as [F1 F2]. cbn [map]. rewrite (Hc1 F1), (Hc2 F2). reflexivity.
    + split; [exact Hi2|]. split; [lia | exact (memo_ext_trans _ _ _ He1 He2)].
Qed.

Lemma appends_step : forall w cs pend st i prev items below pidx,
  inv cs pend st -> In i pend -> items <> [] -> existsb is_mark items = false ->
  stack st = (rev items ++ OMark :: OList i prev :: below)%list ->
  forallb (ids_below i) below = true -> i < next st -> own_entry pidx st (OList i prev) ->
  exists st', step w st APPENDS = SNext st' /\ stack st' = OList i (prev ++ items) :: below /\
              next st' = next st /\ inv cs pend st' /\ own_entry pidx st' (OList i (prev ++ items)) /\ old_kept i st st'.
Proof.
  intros w cs pend st i prev items below pidx Hinv Hin Hne Hm Hs Hb Hlt Hown.
  set (c := OList i (prev ++ items)).
  exists (mutate i c (set_stack st (OList i prev :: below))).
  assert (Hsub : subst i c (OList i prev) = c) by (cbn [subst]; rewrite Nat.eqb_refl; reflexivity).
  pose proof Hinv as [[Hst _] _]. rewrite Hs in Hst.
  apply forallb_app_split in Hst. destruct Hst as [Hit Hst']. rewrite forallb_rev' in Hit.
  cbn [forallb] in Hst'. apply andb_true_iff in Hst'. destruct Hst' as [_ Hst'].
  split; [|split; [|split; [|split; [|split]]]].
  - cbn [step]. unfold with_mark. rewrite Hs, (to_mark_rev _ _ Hm). unfold do_extend. cbn [pop1 is_mark].
    destruct items as [|x r]; [contradiction|]. reflexivity.
  - apply (mutate_stack i c _ (OList i prev) below); [reflexivity | exact Hsub | exact Hb].
  - reflexivity.
  - apply inv_mutate; [apply inv_set_stack_sub; assumption | exact Hin|].
    cbn [forallb ids_below] in Hst'. apply andb_true_iff in Hst'. destruct Hst' as [Ht _].
    apply andb_true_iff in Ht. destruct Ht as [Hl Hp].
    cbn [ids_below c set_stack next]. rewrite Hl, forallb_app, Hp, Hit. reflexivity.
  - intros idx E. apply (mutate_memo_own i c st _ idx _ (Hown idx E) Hsub).
  - intros idx o Hg Ho. apply mutate_memo_old; assumption.
Qed.

Lemma append_step : forall w cs pend st i prev o below pidx,
  inv cs pend st -> In i pend -> is_mark o = false ->
  stack st = o :: OList i prev :: below ->
  forallb (ids_below i) below = true -> i < next st -> own_entry pidx st (OList i prev) ->
  exists st', step w st APPEND = SNext st' /\ stack st' = OList i (prev ++ [o]) :: below /\
              next st' = next st /\ inv cs pend st' /\ own_entry pidx st' (OList i (prev ++ [o])) /\ old_kept i st st'.
Proof.
  intros w cs pend st i prev o below pidx Hinv Hin Hm Hs Hb Hlt Hown.
  set (c := OList i (prev ++ [o])).
  exists (mutate i c (set_stack st (OList i prev :: below))).
  assert (Hsub : subst i c (OList i prev) = c) by (cbn [subst]; rewrite Nat.eqb_refl; reflexivity).
  pose proof Hinv as [[Hst _] _]. rewrite Hs in Hst.
  cbn [forallb] in Hst. apply andb_true_iff in Hst. destruct Hst as [Ho Hst'].
  split; [|split; [|split; [|split; [|split]]]].
  - cbn [step]. rewrite Hs. cbn [pop1]. rewrite Hm. unfold do_extend. cbn [pop1 is_mark]. reflexivity.
  - apply (mutate_stack i c _ (OList i prev) below); [reflexivity | exact Hsub | exact Hb].
  - reflexivity.
  - apply inv_mutate; [apply inv_set_stack_sub; assumption | exact Hin|].
    cbn [forallb ids_below] in Hst'. apply andb_true_iff in Hst'. destruct Hst' as [Ht _].
    apply andb_true_iff in Ht. destruct Ht as [Hl Hp].
    cbn [ids_below c set_stack next]. rewrite Hl, forallb_app, Hp. cbn. rewrite Ho. reflexivity.
  - intros idx E. apply (mutate_memo_own i c st _ idx _ (Hown idx E) Hsub).
  - intros idx x Hg Hx. apply mutate_memo_old; assumption.
Qed.

Definition items_res (w : world) (cs' : cstate) (pend : list nat) (st : state) (prog rest : list op)
    (i : nat) (prev batch below : list obj) (pidx : option Z) (xs : list pv) : Prop :=
  exists os st', run w st prog = run w st' rest /\ stack st' = OList i (prev ++ batch ++ os) :: below /\
     Forall2 (fun o v => decode o = Some v) os xs /\ forallb (noccur_all pend) (prev ++ batch ++ os) = true /\
     inv cs' pend st' /\ next st <= next st' /\
     own_entry pidx st' (OList i (prev ++ batch ++ os)) /\ old_kept i st st'.

Lemma items_sound : forall w chkf xs, Forall (member_sound w chkf) xs ->
  forall inm cs pend prog cs' rest st i prev batch below pidx,
  items_gen chkf xs inm cs prog = Some (cs', rest) -> inv cs pend st -> In i pend ->
  Forall (fun j => j < next st) pend ->
  stack st = ((if inm then rev batch ++ [OMark] else []) ++ OList i prev :: below)%list ->
  (inm = false -> batch = []) -> existsb is_mark batch = false ->
  forallb (noccur_all pend) (prev ++ batch) = true ->
  forallb (ids_below i) below = true -> own_entry pidx st (OList i prev) ->
  items_res w cs' pend st prog rest i prev batch below pidx xs.
Proof.
  intros w chkf xs HF. induction HF as [|x r Hx Hr IH];
    intros inm cs pend prog cs' rest st i prev batch below pidx H Hinv Hin Hp Hs Hbat Hmk Hno Hb Hown;
    cbn [items_gen] in H; unfold items_res.
  - destruct inm; [discriminate|]. inversion H; subst cs' rest. rewrite (Hbat eq_refl) in *. cbn [app] in *.
    exists [], st. rewrite !app_nil_r in *.
    split; [reflexivity|]. split; [exact Hs|]. split; [constructor|]. split; [exact Hno|]. split; [exact Hinv|].
    split; [lia|]. split; [exact Hown | apply old_kept_refl].
  - assert (Hilt : i < next st) by (rewrite Forall_forall in Hp; apply Hp; exact Hin).
    assert (Hbatch : forall st0 p0,
              run w st prog = run w st0 p0 -> next st0 = next st -> inv cs pend st0 -> memo_ext st st0 ->
              stack st0 = (rev batch ++ OMark :: OList i prev :: below)%list ->
              match chkf x cs p0 with
              | Some (cs1, p1) => match p1 with
                                  | APPENDS :: p2 => items_gen chkf r false cs1 p2
                                  | _ => items_gen chkf r true cs1 p1
                                  end
              | None => None
              end = Some (cs', rest) ->
              items_res w cs' pend st prog rest i prev batch below pidx (x :: r)).
    { intros st0 p0 Hr0 Hn0 Hi0 He0 Hs0 H0. unfold items_res.
      destruct (chkf x cs p0) as [[cs1 p1]|] eqn:E; [|discriminate].
      assert (Hp0 : Forall (fun j => j < next st0) pend) by (rewrite Hn0; exact Hp).
      destruct (Hx cs p0 cs1 p1 E pend st0 Hi0 Hp0) as [o [st1 [Hr1 [Hs1 [Hd1 [Hm1 [_ [Hno1 [Hi1 [Hn1 He1]]]]]]]]]].
      assert (He01 : memo_ext st st1) by exact (memo_ext_trans _ _ _ He0 He1).
      assert (Hs1' : stack st1 = (rev (batch ++ [o]) ++ OMark :: OList i prev :: below)%list).
      { rewrite Hs1, Hs0, rev_app_distr. reflexivity. }
      assert (Hmk1 : existsb is_mark (batch ++ [o]) = false).
      { rewrite existsb_app, Hmk. cbn. rewrite Hm1. reflexivity. }
      assert (Hno' : forallb (noccur_all pend) (prev ++ batch ++ [o]) = true).
      { rewrite app_assoc, forallb_app, Hno. cbn. rewrite Hno1. reflexivity. }
      assert (Hp1 : Forall (fun j => j < next st1) pend) by (apply (pend_mono _ (next st)); [lia | exact Hp]).
      assert (Hopen : items_gen chkf r true cs1 p1 = Some (cs', rest) ->
                items_res w cs' pend st prog rest i prev batch below pidx (x :: r)).
      { intro H'. destruct (IH true cs1 pend p1 cs' rest st1 i prev (batch ++ [o]) below pidx H' Hi1 Hin Hp1)
          as [os [st' [Hr' [Hs' [Hd' [Hno'' [Hi' [Hn' [Ho' Hk']]]]]]]]].
        - rewrite Hs1', <- app_assoc. reflexivity.
        - discriminate.
        - exact Hmk1.
        - exact Hno'.
        - exact Hb.
        - exact (own_entry_ext _ _ _ _ Hown He01).
        - exists (o :: os), st'. rewrite <- !app_assoc in Hs', Hno'', Ho'. cbn [app] in Hs', Hno'', Ho'.
          split; [rewrite Hr0, Hr1; exact Hr'|]. split; [exact Hs'|]. split; [constructor; assumption|].
          split; [exact Hno''|]. split; [exact Hi'|]. split; [lia|]. split; [exact Ho'|].
          exact (old_kept_trans _ _ _ _ (old_kept_ext i _ _ He01) Hk'). }
      destruct p1 as [|q p1']; [apply Hopen; exact H0|].
      destruct q; try (apply Hopen; exact H0).
      destruct (appends_step w cs1 pend st1 i prev (batch ++ [o]) below pidx Hi1 Hin)
        as [st2 [Hst2 [Hs2 [Hn2 [Hi2 [Ho2 Hk2]]]]]].
      + destruct batch; discriminate.
      + exact Hmk1.
      + exact Hs1'.
      + exact Hb.
      + lia.
      + exact (own_entry_ext _ _ _ _ Hown He01).
      + assert (Hp2 : Forall (fun j => j < next st2) pend) by (rewrite Hn2; exact Hp1).
        destruct (IH false cs1 pend p1' cs' rest st2 i (prev ++ batch ++ [o]) [] below pidx H0 Hi2 Hin Hp2)
          as [os [st' [Hr' [Hs' [Hd' [Hno'' [Hi' [Hn' [Ho' Hk']]]]]]]]].
        * exact Hs2.
        * reflexivity.
        * reflexivity.
        * rewrite app_nil_r. exact Hno'.
        * exact Hb.
        * exact Ho2.
        * exists (o :: os), st'. cbn [app] in Hs', Hno'', Ho'. rewrite <- !app_assoc in Hs', Hno'', Ho'. cbn [app] in Hs', Hno'', Ho'.
          split; [rewrite Hr0, Hr1, (run_step_next w st1 APPENDS st2 p1' Hst2); exact Hr'|].
          split; [exact Hs'|]. split; [constructor; assumption|]. split; [exact Hno''|]. split; [exact Hi'|].
          split; [lia|]. split; [exact Ho'|].
          exact (old_kept_trans _ _ _ _ (old_kept_ext i _ _ He01) (old_kept_trans _ _ _ _ Hk2 Hk')). }
    assert (Hsingle : inm = false ->
              match chkf x cs prog with
              | Some (cs1, p1) => match p1 with APPEND :: p2 => items_gen chkf r false cs1 p2 | _ => None end
              | None => None
              end = Some (cs', rest) ->
              items_res w cs' pend st prog rest i prev batch below pidx (x :: r)).
    { intros Einm H0. unfold items_res. subst inm. rewrite (Hbat eq_refl) in *. cbn [app] in Hs. rewrite app_nil_r in Hno.
      destruct (chkf x cs prog) as [[cs1 p1]|] eqn:E; [|discriminate].
      destruct p1 as [|q p2]; [discriminate|]. destruct q; try discriminate.
      destruct (Hx cs prog cs1 _ E pend st Hinv Hp) as [o [st1 [Hr1 [Hs1 [Hd1 [Hm1 [_ [Hno1 [Hi1 [Hn1 He1]]]]]]]]]].
      assert (Hp1 : Forall (fun j => j < next st1) pend) by (apply (pend_mono _ (next st)); [lia | exact Hp]).
      destruct (append_step w cs1 pend st1 i prev o below pidx Hi1 Hin Hm1) as [st2 [Hst2 [Hs2 [Hn2 [Hi2 [Ho2 Hk2]]]]]].
      + rewrite Hs1, Hs. reflexivity.
      + exact Hb.
      + lia.
      + exact (own_entry_ext _ _ _ _ Hown He1).
      + assert (Hp2 : Forall (fun j => j < next st2) pend) by (rewrite Hn2; exact Hp1).
        destruct (IH false cs1 pend p2 cs' rest st2 i (prev ++ [o]) [] below pidx H0 Hi2 Hin Hp2)
          as [os [st' [Hr' [Hs' [Hd' [Hno'' [Hi' [Hn' [Ho' Hk']]]]]]]]].
        * exact Hs2.
        * reflexivity.
        * reflexivity.
        * rewrite app_nil_r, forallb_app, Hno. cbn. rewrite Hno1. reflexivity.
        * exact Hb.
        * exact Ho2.
        * exists (o :: os), st'. cbn [app] in Hs', Hno'', Ho'. rewrite <- !app_assoc in Hs', Hno'', Ho'. cbn [app] in *.
          split; [rewrite Hr1, (run_step_next w st1 APPEND st2 p2 Hst2); exact Hr'|].
          split; [exact Hs'|]. split; [constructor; assumption|]. split; [exact Hno''|]. split; [exact Hi'|].
          split; [lia|]. split; [exact Ho'|].
          exact (old_kept_trans _ _ _ _ (old_kept_ext i _ _ He1) (old_kept_trans _ _ _ _ Hk2 Hk')). }
    destruct inm.
    + apply (Hbatch st prog); [reflexivity | reflexivity | exact Hinv | apply memo_ext_refl | | exact H].
      rewrite Hs, <- app_assoc. reflexivity.
    + destruct prog as [|q p]; [apply Hsingle; [reflexivity | exact H]|].
      destruct q; try (apply Hsingle; [reflexivity | exact H]).
      rewrite (Hbat eq_refl) in *.
      apply (Hbatch (push OMark st) p); [| reflexivity | | apply memo_ext_same; reflexivity | | exact H].
      * apply run_step_next. reflexivity.
      * apply inv_push; [exact Hinv | reflexivity].
      * cbn. rewrite Hs. reflexivity.
Qed.


(** * dict batches *)

Lemma flatten_app : forall a b, flatten (a ++ b) = (flatten a ++ flatten b)%list.
Proof. intros. unfold flatten. apply flat_map_app. Qed.

Lemma forallb_flatten : forall n ps, forallb (ids_below n) (flatten ps) = true ->
  forallb (fun kv => ids_below n (fst kv) && ids_below n (snd kv)) ps = true.
Proof.
  intros n. induction ps as [|[k v] r IH]; cbn; [auto|]. intro H.
  apply andb_true_iff in H. destruct H as [Hk H]. apply andb_true_iff in H. destruct H as [Hv H].
  rewrite Hk, Hv, (IH H). reflexivity.
Qed.

Lemma hashable_atoms : forall xs, forallb hashable (map obj_of_atom xs) = true.
Proof. induction xs as [|a r IH]; cbn; [reflexivity|]. rewrite hashable_atom. exact IH. Qed.

Lemma dict_step_common : forall cs pend st i prev ps below ka kb pidx,
  inv cs pend st -> In i pend -> forallb (ids_below (next st)) (flatten ps) = true ->
  forallb (ids_below (next st)) (ODict i prev :: below) = true ->
  map fst prev = map obj_of_atom ka -> map fst ps = map obj_of_atom kb -> nodup_atoms (ka ++ kb) = true ->
  forallb (ids_below i) below = true -> own_entry pidx st (ODict i prev) ->
  let st' := mutate i (ODict i (prev ++ ps)) (set_stack st (ODict i prev :: below)) in
  dict_set_all ps prev = Some (prev ++ ps)%list /\
  stack st' = ODict i (prev ++ ps) :: below /\ inv cs pend st' /\
  own_entry pidx st' (ODict i (prev ++ ps)) /\ old_kept i st st'.
Proof.
  intros cs pend st i prev ps below ka kb pidx Hinv Hin Hps Hst Hka Hkb Hnd Hb Hown st'.
  assert (Hsub : subst i (ODict i (prev ++ ps)) (ODict i prev) = ODict i (prev ++ ps))
    by (cbn [subst]; rewrite Nat.eqb_refl; reflexivity).
  split; [|split; [|split; [|split]]].
  - apply dict_set_all_fresh; [rewrite Hkb; apply hashable_atoms|].
    rewrite Hka, Hkb, <- map_app, nodup_keys_atoms. exact Hnd.
  - apply (mutate_stack i _ _ (ODict i prev) below); [reflexivity | exact Hsub | exact Hb].
  - apply inv_mutate; [apply inv_set_stack_sub; assumption | exact Hin|].
    cbn [forallb ids_below] in Hst. apply andb_true_iff in Hst. destruct Hst as [Ht _].
    apply andb_true_iff in Ht. destruct Ht as [Hl Hp].
    cbn [ids_below set_stack next]. rewrite Hl, forallb_app, Hp, (forallb_flatten _ _ Hps). reflexivity.
  - intros idx E. apply (mutate_memo_own i _ st _ idx _ (Hown idx E) Hsub).
  - intros idx o Hg Ho. apply mutate_memo_old; assumption.
Qed.

Lemma setitems_step : forall w cs pend st i prev ps below ka kb pidx,
  inv cs pend st -> In i pend -> ps <> [] -> existsb is_mark (flatten ps) = false ->
  stack st = (rev (flatten ps) ++ OMark :: ODict i prev :: below)%list ->
  map fst prev = map obj_of_atom ka -> map fst ps = map obj_of_atom kb -> nodup_atoms (ka ++ kb) = true ->
  forallb (ids_below i) below = true -> own_entry pidx st (ODict i prev) ->
  exists st', step w st SETITEMS = SNext st' /\ stack st' = ODict i (prev ++ ps) :: below /\
              next st' = next st /\ inv cs pend st' /\ own_entry pidx st' (ODict i (prev ++ ps)) /\ old_kept i st st'.
Proof.
  intros w cs pend st i prev ps below ka kb pidx Hinv Hin Hne Hm Hs Hka Hkb Hnd Hb Hown.
  pose proof Hinv as [[Hst _] _]. rewrite Hs in Hst. apply forallb_app_split in Hst. destruct Hst as [Hit Hst].
  rewrite forallb_rev' in Hit. cbn [forallb] in Hst. apply andb_true_iff in Hst. destruct Hst as [_ Hst].
  destruct (dict_step_common cs pend st i prev ps below ka kb pidx Hinv Hin Hit Hst Hka Hkb Hnd Hb Hown)
    as [Hd [Hs' [Hi' [Ho' Hk']]]].
  eexists. split; [|split; [exact Hs' | split; [reflexivity | split; [exact Hi' | split; [exact Ho' | exact Hk']]]]].
  cbn [step]. unfold with_mark. rewrite Hs, (to_mark_rev _ _ Hm). unfold do_setitems. cbn [pop1 is_mark].
  destruct (flatten ps) as [|x r] eqn:E; [destruct ps as [|[k v] ps']; [contradiction | discriminate]|].
  rewrite <- E, pairs_of_flatten, Hd. reflexivity.
Qed.

Lemma setitem_step : forall w cs pend st i prev v below ka a pidx,
  inv cs pend st -> In i pend -> is_mark v = false ->
  stack st = v :: obj_of_atom a :: ODict i prev :: below ->
  map fst prev = map obj_of_atom ka -> nodup_atoms (ka ++ [a]) = true ->
  forallb (ids_below i) below = true -> own_entry pidx st (ODict i prev) ->
  exists st', step w st SETITEM = SNext st' /\ stack st' = ODict i (prev ++ [(obj_of_atom a, v)]) :: below /\
              next st' = next st /\ inv cs pend st' /\
              own_entry pidx st' (ODict i (prev ++ [(obj_of_atom a, v)])) /\ old_kept i st st'.
Proof.
  intros w cs pend st i prev v below ka a pidx Hinv Hin Hm Hs Hka Hnd Hb Hown.
  pose proof Hinv as [[Hst _] _]. rewrite Hs in Hst. cbn [forallb] in Hst.
  apply andb_true_iff in Hst. destruct Hst as [Hv Hst]. apply andb_true_iff in Hst. destruct Hst as [Hk Hst].
  destruct (dict_step_common cs pend st i prev [(obj_of_atom a, v)] below ka [a] pidx Hinv Hin)
    as [Hd [Hs' [Hi' [Ho' Hk']]]]; try assumption; try reflexivity.
  { cbn. rewrite Hk, Hv. reflexivity. }
  eexists. split; [|split; [exact Hs' | split; [reflexivity | split; [exact Hi' | split; [exact Ho' | exact Hk']]]]].
  cbn [step]. rewrite Hs. cbn [pop1]. rewrite Hm. cbn [pop1]. rewrite (is_mark_atom a).
  unfold do_setitems. cbn [pop1 is_mark pairs_of]. rewrite Hd. reflexivity.
Qed.

Definition kitems_res (w : world) (cs' : cstate) (pend : list nat) (st : state) (prog rest : list op)
    (i : nat) (prev batch : list (obj * obj)) (below : list obj) (pidx : option Z) (kvs : list (atom * pv)) : Prop :=
  exists ps st', run w st prog = run w st' rest /\ stack st' = ODict i (prev ++ batch ++ ps) :: below /\
     Forall2 (fun p kv => fst p = obj_of_atom (fst kv) /\ decode (snd p) = Some (snd kv)) ps kvs /\
     forallb (noccur_all pend) (map snd (prev ++ batch ++ ps)) = true /\
     inv cs' pend st' /\ next st <= next st' /\
     own_entry pidx st' (ODict i (prev ++ batch ++ ps)) /\ old_kept i st st'.

Lemma kitems_sound : forall w chkf (kvs : list (atom * pv)), Forall (fun kv => member_sound w chkf (snd kv)) kvs ->
  forall inm cs pend prog cs' rest st i prev batch below ka kb pidx,
  kitems_gen chkf kvs inm cs prog = Some (cs', rest) -> inv cs pend st -> In i pend ->
  Forall (fun j => j < next st) pend ->
  stack st = ((if inm then rev (flatten batch) ++ [OMark] else []) ++ ODict i prev :: below)%list ->
  (inm = false -> batch = []) -> existsb is_mark (flatten batch) = false ->
  map fst prev = map obj_of_atom ka -> map fst batch = map obj_of_atom kb ->
  nodup_atoms (ka ++ kb ++ map fst kvs) = true ->
  forallb (noccur_all pend) (map snd (prev ++ batch)) = true ->
  forallb (ids_below i) below = true -> own_entry pidx st (ODict i prev) ->
  kitems_res w cs' pend st prog rest i prev batch below pidx kvs.
Proof.
  intros w chkf kvs HF. induction HF as [|[k x] r Hx Hr IH];
    intros inm cs pend prog cs' rest st i prev batch below ka kb pidx H Hinv Hin Hp Hs Hbat Hmk Hka Hkb Hnd Hno Hb Hown;
    cbn [kitems_gen] in H; unfold kitems_res.
  - destruct inm; [discriminate|]. inversion H; subst cs' rest. rewrite (Hbat eq_refl) in *. cbn [app] in *.
    exists [], st. rewrite !app_nil_r in *.
    split; [reflexivity|]. split; [exact Hs|]. split; [constructor|]. split; [exact Hno|]. split; [exact Hinv|].
    split; [lia|]. split; [exact Hown | apply old_kept_refl].
  - cbn [snd] in Hx. cbn [map fst] in Hnd.
    assert (Hbatch : forall st0 p0,
              run w st prog = run w st0 p0 -> next st0 = next st -> inv cs pend st0 -> memo_ext st st0 ->
              stack st0 = (rev (flatten batch) ++ OMark :: ODict i prev :: below)%list ->
              match chk_atom k cs p0 with
              | Some (cs2, p2) =>
                  match chkf x cs2 p2 with
                  | Some (cs3, p3) => match p3 with
                                      | SETITEMS :: p4 => kitems_gen chkf r false cs3 p4
                                      | _ => kitems_gen chkf r true cs3 p3
                                      end
                  | None => None
                  end
              | None => None
              end = Some (cs', rest) ->
              kitems_res w cs' pend st prog rest i prev batch below pidx ((k, x) :: r)).
    { intros st0 p0 Hr0 Hn0 Hi0 He0 Hs0 H0. unfold kitems_res.
      destruct (chk_atom k cs p0) as [[cs2 p2]|] eqn:Ek; [|discriminate].
      destruct (atom_sound w k cs pend p0 cs2 p2 st0 Ek Hi0) as [sta [Hra [Hsa [Hna [Hia Hea]]]]].
      destruct (chkf x cs2 p2) as [[cs3 p3]|] eqn:E; [|discriminate].
      assert (Hpa : Forall (fun j => j < next sta) pend) by (rewrite Hna, Hn0; exact Hp).
      destruct (Hx cs2 p2 cs3 p3 E pend sta Hia Hpa) as [o [st1 [Hr1 [Hs1 [Hd1 [Hm1 [_ [Hno1 [Hi1 [Hn1 He1]]]]]]]]]].
      assert (He01 : memo_ext st st1) by exact (memo_ext_trans _ _ _ He0 (memo_ext_trans _ _ _ Hea He1)).
      set (batch1 := (batch ++ [(obj_of_atom k, o)])%list).
      assert (Hs1' : stack st1 = (rev (flatten batch1) ++ OMark :: ODict i prev :: below)%list).
      { unfold batch1. rewrite Hs1, Hsa, Hs0, flatten_app, rev_app_distr. reflexivity. }
      assert (Hmk1 : existsb is_mark (flatten batch1) = false).
      { unfold batch1. rewrite flatten_app, existsb_app, Hmk. cbn. rewrite is_mark_atom, Hm1. reflexivity. }
      assert (Hkb1 : map fst batch1 = map obj_of_atom (kb ++ [k])).
      { unfold batch1. rewrite !map_app, Hkb. reflexivity. }
      assert (Hno' : forallb (noccur_all pend) (map snd (prev ++ batch1)) = true).
      { unfold batch1. rewrite app_assoc, map_app, forallb_app, Hno. cbn. rewrite Hno1. reflexivity. }
      assert (Hp1 : Forall (fun j => j < next st1) pend) by (apply (pend_mono _ (next st)); [lia | exact Hp]).
      assert (Hopen : kitems_gen chkf r true cs3 p3 = Some (cs', rest) ->
                kitems_res w cs' pend st prog rest i prev batch below pidx ((k, x) :: r)).
      { intro H'.
        destruct (IH true cs3 pend p3 cs' rest st1 i prev batch1 below ka (kb ++ [k]) pidx H' Hi1 Hin Hp1)
          as [ps [st' [Hr' [Hs' [Hd' [Hno'' [Hi' [Hn' [Ho' Hk']]]]]]]]].
        - rewrite Hs1', <- app_assoc. reflexivity.
        - discriminate.
        - exact Hmk1.
        - exact Hka.
        - exact Hkb1.
        - rewrite <- app_assoc. exact Hnd.
        - exact Hno'.
        - exact Hb.
        - exact (own_entry_ext _ _ _ _ Hown He01).
        - exists ((obj_of_atom k, o) :: ps), st'. unfold batch1 in Hs', Hno'', Ho'. rewrite <- !app_assoc in Hs', Hno'', Ho'.
          cbn [app] in Hs', Hno'', Ho'.
          split; [rewrite Hr0, Hra, Hr1; exact Hr'|]. split; [exact Hs'|].
          split; [constructor; [split; [reflexivity | exact Hd1] | exact Hd']|]. split; [exact Hno''|].
          split; [exact Hi'|]. split; [lia|]. split; [exact Ho'|].
          exact (old_kept_trans _ _ _ _ (old_kept_ext i _ _ He01) Hk'). }
      destruct p3 as [|q p4]; [apply Hopen; exact H0|].
      destruct q; try (apply Hopen; exact H0).
      destruct (setitems_step w cs3 pend st1 i prev batch1 below ka (kb ++ [k]) pidx Hi1 Hin)
        as [st2 [Hst2 [Hs2 [Hn2 [Hi2 [Ho2 Hk2]]]]]].
      + unfold batch1. destruct batch; discriminate.
      + exact Hmk1.
      + exact Hs1'.
      + exact Hka.
      + exact Hkb1.
      + apply (nodup_atoms_prefix _ (map fst r)). rewrite <- !app_assoc. exact Hnd.
      + exact Hb.
      + exact (own_entry_ext _ _ _ _ Hown He01).
      + assert (Hp2 : Forall (fun j => j < next st2) pend) by (rewrite Hn2; exact Hp1).
        destruct (IH false cs3 pend p4 cs' rest st2 i (prev ++ batch1) [] below (ka ++ kb ++ [k]) [] pidx H0 Hi2 Hin Hp2)
          as [ps [st' [Hr' [Hs' [Hd' [Hno'' [Hi' [Hn' [Ho' Hk']]]]]]]]].
        * exact Hs2.
        * reflexivity.
        * reflexivity.
        * rewrite map_app, Hka, Hkb1, <- map_app. reflexivity.
        * reflexivity.
        * cbn [app]. rewrite <- !app_assoc. exact Hnd.
        * rewrite app_nil_r. exact Hno'.
        * exact Hb.
        * exact Ho2.
        * exists ((obj_of_atom k, o) :: ps), st'.
          unfold batch1 in Hs', Hno'', Ho'. cbn [app] in Hs', Hno'', Ho'. rewrite <- !app_assoc in Hs', Hno'', Ho'.
          cbn [app] in Hs', Hno'', Ho'.
          split; [rewrite Hr0, Hra, Hr1, (run_step_next w st1 SETITEMS st2 p4 Hst2); exact Hr'|].
          split; [exact Hs'|]. split; [constructor; [split; [reflexivity | exact Hd1] | exact Hd']|].
          split; [exact Hno''|]. split; [exact Hi'|]. split; [lia|]. split; [exact Ho'|].
          exact (old_kept_trans _ _ _ _ (old_kept_ext i _ _ He01) (old_kept_trans _ _ _ _ Hk2 Hk')). }
    assert (Hsingle : inm = false ->
              match chk_atom k cs prog with
              | Some (cs2, p2) =>
                  match chkf x cs2 p2 with
                  | Some (cs3, p3) => match p3 with SETITEM :: p4 => kitems_gen chkf r false cs3 p4 | _ => None end
                  | None => None
                  end
              | None => None
              end = Some (cs', rest) ->
              kitems_res w cs' pend st prog rest i prev batch below pidx ((k, x) :: r)).
    { intros Einm H0. unfold kitems_res. subst inm. rewrite (Hbat eq_refl) in *. cbn [app] in Hs. cbn [map] in Hkb.
      rewrite app_nil_r in Hno.
      assert (Ekb : kb = []) by (destruct kb; [reflexivity | discriminate]). subst kb. cbn [app] in Hnd.
      destruct (chk_atom k cs prog) as [[cs2 p2]|] eqn:Ek; [|discriminate].
      destruct (atom_sound w k cs pend prog cs2 p2 st Ek Hinv) as [sta [Hra [Hsa [Hna [Hia Hea]]]]].
      destruct (chkf x cs2 p2) as [[cs3 p3]|] eqn:E; [|discriminate].
      destruct p3 as [|q p4]; [discriminate|]. destruct q; try discriminate.
      assert (Hpa : Forall (fun j => j < next sta) pend) by (rewrite Hna; exact Hp).
      destruct (Hx cs2 p2 cs3 _ E pend sta Hia Hpa) as [o [st1 [Hr1 [Hs1 [Hd1 [Hm1 [_ [Hno1 [Hi1 [Hn1 He1]]]]]]]]]].
      assert (He01 : memo_ext st st1) by exact (memo_ext_trans _ _ _ Hea He1).
      assert (Hp1 : Forall (fun j => j < next st1) pend) by (apply (pend_mono _ (next st)); [lia | exact Hp]).
      destruct (setitem_step w cs3 pend st1 i prev o below ka k pidx Hi1 Hin Hm1) as [st2 [Hst2 [Hs2 [Hn2 [Hi2 [Ho2 Hk2]]]]]].
      + rewrite Hs1, Hsa, Hs. reflexivity.
      + exact Hka.
      + apply (nodup_atoms_prefix _ (map fst r)). rewrite <- app_assoc. exact Hnd.
      + exact Hb.
      + exact (own_entry_ext _ _ _ _ Hown He01).
      + assert (Hp2 : Forall (fun j => j < next st2) pend) by (rewrite Hn2; exact Hp1).
        destruct (IH false cs3 pend p4 cs' rest st2 i (prev ++ [(obj_of_atom k, o)]) [] below (ka ++ [k]) [] pidx H0 Hi2 Hin Hp2)
          as [ps [st' [Hr' [Hs' [Hd' [Hno'' [Hi' [Hn' [Ho' Hk']]]]]]]]].
        * exact Hs2.
        * reflexivity.
        * reflexivity.
        * rewrite !map_app, Hka. reflexivity.
        * reflexivity.
        * cbn [app]. rewrite <- app_assoc. exact Hnd.
        * rewrite app_nil_r, map_app, forallb_app, Hno. cbn. rewrite Hno1. reflexivity.
        * exact Hb.
        * exact Ho2.
        * exists ((obj_of_atom k, o) :: ps), st'.
          cbn [app] in Hs', Hno'', Ho'. rewrite <- !app_assoc in Hs', Hno'', Ho'. cbn [app] in *.
          split; [rewrite Hra, Hr1, (run_step_next w st1 SETITEM st2 p4 Hst2); exact Hr'|].
          split; [exact Hs'|]. split; [constructor; [split; [reflexivity | exact Hd1] | exact Hd']|].
          split; [exact Hno''|]. split; [exact Hi'|]. split; [lia|]. split; [exact Ho'|].
          exact (old_kept_trans _ _ _ _ (old_kept_ext i _ _ He01) (old_kept_trans _ _ _ _ Hk2 Hk')). }
    destruct inm.
    + apply (Hbatch st prog); [reflexivity | reflexivity | exact Hinv | apply memo_ext_refl | | exact H].
      rewrite Hs, <- app_assoc. reflexivity.
    + destruct prog as [|q p]; [apply Hsingle; [reflexivity | exact H]|].
      destruct q; try (apply Hsingle; [reflexivity | exact H]).
      rewrite (Hbat eq_refl) in *.
      apply (Hbatch (push OMark st) p); [| reflexivity | | apply memo_ext_same; reflexivity | | exact H].
      * apply run_step_next. reflexivity.
      * apply inv_push; [exact Hinv | reflexivity].
      * cbn. rewrite Hs. reflexivity.
Qed.

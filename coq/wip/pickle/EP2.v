(** Pickle/EncodesProofs.v - every encoding in the class [accepts] decodes, on the
    restricted-unpickler model, to the payload it was checked against. *)
From Coq Require Import List ZArith NArith Bool Arith Lia.
Import ListNotations.
From DD Require Import Base.Sx Base.PyStr Base.Value Pickle.Vm Pickle.Codec Pickle.PickleProofs Pickle.CodecProofs Pickle.Encodes.

(** * equality tests are exact *)

Lemma atom_eqb_eq : forall a b, atom_eqb a b = true -> a = b.
Proof.
  intros a b. destruct a as [|x|x|x|x|x], b as [|y|y|y|y|y]; cbn; intro H; try discriminate; try reflexivity.
  - apply Bool.eqb_prop in H. subst. reflexivity.
  - apply Z.eqb_eq in H. subst. reflexivity.
  - apply Z.eqb_eq in H. subst. reflexivity.
  - apply pystr_eqb_eq in H. subst. reflexivity.
  - apply pystr_eqb_eq in H. subst. reflexivity.
Qed.

Lemma atoms_eqb_eq : forall xs ys, atoms_eqb xs ys = true -> xs = ys.
Proof.
  induction xs as [|x r IH]; destruct ys as [|y s]; cbn; intro H; try discriminate; [reflexivity|].
  apply andb_true_iff in H. destruct H as [H1 H2]. apply atom_eqb_eq in H1. rewrite (IH _ H2), H1. reflexivity.
Qed.

Lemma pv_eqb_eq : forall a b, pv_eqb a b = true -> a = b.
Proof.
  induction a using pv_ind'; intro bb; destruct bb; cbn [pv_eqb]; intro E; try discriminate.
  - apply atom_eqb_eq in E. subst. reflexivity.
  - apply Z.eqb_eq in E. subst. reflexivity.
  - f_equal. revert xs0 E. induction H as [|x r Hx Hr IH]; destruct xs0 as [|y s]; intro E; try discriminate; [reflexivity|].
    apply andb_true_iff in E. destruct E as [E1 E2]. rewrite (Hx _ E1), (IH _ E2). reflexivity.
  - f_equal. revert xs0 E. induction H as [|x r Hx Hr IH]; destruct xs0 as [|y s]; intro E; try discriminate; [reflexivity|].
    apply andb_true_iff in E. destruct E as [E1 E2]. rewrite (Hx _ E1), (IH _ E2). reflexivity.
  - f_equal. revert kvs0 E. induction H as [|[k x] r Hx Hr IH]; destruct kvs0 as [|[k' y] s]; intro E; try discriminate; [reflexivity|].
    apply andb_true_iff in E. destruct E as [E1 E2]. apply andb_true_iff in E1. destruct E1 as [Ek Ev].
    apply atom_eqb_eq in Ek. cbn in Hx. rewrite (Hx _ Ev), (IH _ E2), Ek. reflexivity.
  - apply atoms_eqb_eq in E. subst. reflexivity.
  - apply atoms_eqb_eq in E. subst. reflexivity.
  - apply andb_true_iff in E. destruct E as [E1 E2]. apply pystr_eqb_eq in E1. apply pystr_eqb_eq in E2. subst. reflexivity.
  - reflexivity.
  - apply andb_true_iff in E. destruct E as [E En]. apply andb_true_iff in E. destruct E as [E Eo].
    apply andb_true_iff in E. destruct E as [E E4]. apply andb_true_iff in E. destruct E as [E E3].
    apply andb_true_iff in E. destruct E as [E E2]. apply andb_true_iff in E. destruct E as [E0 E1].
    apply pystr_eqb_eq in E0. apply Z.eqb_eq in E1. apply Z.eqb_eq in E2. apply Z.eqb_eq in E3. apply Z.eqb_eq in E4.
    subst. rewrite (IHa1 _ Eo), (IHa2 _ En). reflexivity.
  - f_equal. revert xs0 E. induction H as [|x r Hx Hr IH]; destruct xs0 as [|y s]; intro E; try discriminate; [reflexivity|].
    apply andb_true_iff in E. destruct E as [E1 E2]. rewrite (Hx _ E1), (IH _ E2). reflexivity.
Qed.

(** * the object an id-free payload value is *)

Fixpoint canon_obj (v : pv) {struct v} : obj :=
  match v with
  | PAtom a => obj_of_atom a
  | PFloatBits b => OFloat (FBits b)
  | PType m n => OGlobal m n GType
  | PNoneType => ONoneType
  | PFrozen xs => OFrozen (map obj_of_atom xs)
  | PTuple xs => OTuple (map canon_obj xs)
  | _ => ONone
  end.

Fixpoint noids (o : obj) {struct o} : bool :=
  match o with
  | OTuple xs | OFrozen xs => forallb noids xs
  | OList _ _ | ODict _ _ | OSet _ _ | OInst _ _ _ _ _ | OMark => false
  | _ => true
  end.

Lemma noids_atom : forall a, noids (obj_of_atom a) = true.
Proof. destruct a; reflexivity. Qed.
Lemma noids_atoms : forall xs, forallb noids (map obj_of_atom xs) = true.
Proof. induction xs as [|a r IH]; cbn; [reflexivity|]. rewrite noids_atom. exact IH. Qed.

Lemma canon_noids : forall v, idfree v = true -> noids (canon_obj v) = true.
Proof.
  induction v using pv_ind'; cbn [idfree canon_obj noids]; intro Hf; try discriminate; try reflexivity.
  - apply noids_atom.
  - induction H as [|x r Hx Hr IH]; cbn in *; [reflexivity|].
    apply andb_true_iff in Hf. destruct Hf as [F1 F2]. rewrite (Hx F1), (IH F2). reflexivity.
  - apply noids_atoms.
Qed.

Lemma canon_decode : forall v, idfree v = true -> decode (canon_obj v) = Some v.
Proof.
  induction v using pv_ind'; cbn [idfree canon_obj]; intro Hf; try discriminate; try reflexivity.
  - apply decode_obj_of_atom.
  - rewrite decode_tuple_eq.
    assert (E : all_some (map decode (map canon_obj xs)) = Some xs).
    { induction H as [|x r Hx Hr IH]; cbn in *; [reflexivity|].
      apply andb_true_iff in Hf. destruct Hf as [F1 F2]. rewrite (Hx F1), (IH F2). reflexivity. }
    rewrite E. reflexivity.
  - apply decode_frozen_atoms.
Qed.

Lemma noids_subst : forall i c o, noids o = true -> subst i c o = o.
Proof.
  intros i c. induction o using obj_ind'; cbn [noids subst]; intro Hn; try discriminate; try reflexivity.
  - f_equal. apply (map_id_forall _ noids); assumption.
  - f_equal. apply (map_id_forall _ noids); assumption.
Qed.

Lemma noids_below : forall n o, noids o = true -> ids_below n o = true.
Proof.
  intros n. induction o using obj_ind'; cbn [noids ids_below]; intro Hn; try discriminate; try reflexivity.
  - apply (forallb_imp _ noids); assumption.
  - apply (forallb_imp _ noids); assumption.
Qed.

Lemma noids_not_mark : forall o, noids o = true -> is_mark o = false.
Proof. destruct o; cbn; intro H; try reflexivity. discriminate. Qed.

(* substitution keeps the id bound *)
Lemma subst_ids_below : forall n i c, ids_below n c = true ->
  forall o, ids_below n o = true -> ids_below n (subst i c o) = true.
Proof.
  intros n i c Hc. induction o using obj_ind'; cbn [subst ids_below]; intro Hb; try exact Hb.
  - apply forallb_map_imp; assumption.
  - apply forallb_map_imp; assumption.
  - destruct (Nat.eqb i i0); [exact Hc|]. cbn [ids_below]. apply andb_true_iff in Hb. destruct Hb as [Hl Hx].
    rewrite Hl. cbn. apply forallb_map_imp; assumption.
  - destruct (Nat.eqb i i0); [exact Hc|]. cbn [ids_below]. apply andb_true_iff in Hb. destruct Hb as [Hl Hx].
    rewrite Hl. cbn. revert Hx. induction H as [|kv r [Hk Hv] Hr IH]; cbn; [auto|].
    intro E. apply andb_true_iff in E. destruct E as [E1 E2]. apply andb_true_iff in E1. destruct E1 as [Ek Ev].
    rewrite (Hk Ek), (Hv Ev), (IH E2). reflexivity.
  - destruct (Nat.eqb i i0); [exact Hc|]. cbn [ids_below]. apply andb_true_iff in Hb. destruct Hb as [Hl Hx].
    rewrite Hl. cbn. apply forallb_map_imp; assumption.
  - destruct (Nat.eqb i i0); [exact Hc|]. cbn [ids_below].
    apply andb_true_iff in Hb. destruct Hb as [Hb Hs]. apply andb_true_iff in Hb. destruct Hb as [Hb Ha].
    apply andb_true_iff in Hb. destruct Hb as [Hl Hf].
    rewrite Hl, (IHo1 Hf), (IHo2 Ha). cbn. apply forallb_map_imp; assumption.
Qed.

(** * memo facts *)

Lemma memo_put_fresh : forall i v (m : list (Z * obj)),
  existsb (Z.eqb i) (map fst m) = false -> memo_put i v m = (m ++ [(i, v)])%list.
Proof.
  intros i v. unfold memo_put. induction m as [|[j x] r IH]; cbn; [reflexivity|].
  intro H. apply orb_false_iff in H. destruct H as [H1 H2]. rewrite H1, (IH H2). reflexivity.
Qed.

Lemma memo_get_app_new : forall i v (m : list (Z * obj)),
  existsb (Z.eqb i) (map fst m) = false -> memo_get i (m ++ [(i, v)]) = Some v.
Proof.
  intros i v. induction m as [|[j x] r IH]; cbn; [rewrite Z.eqb_refl; reflexivity|].
  intro H. apply orb_false_iff in H. destruct H as [H1 H2]. rewrite H1. apply IH. exact H2.
Qed.

Lemma memo_get_app_old : forall j x (m l : list (Z * obj)),
  memo_get j m = Some x -> memo_get j (m ++ l) = Some x.
Proof.
  intros j x. induction m as [|[k y] r IH]; cbn; intros l H; [discriminate|].
  destruct (Z.eqb j k); [exact H | apply IH; exact H].
Qed.

Lemma memo_get_map_subst : forall i c j (m : list (Z * obj)),
  memo_get j (map (fun p => (fst p, subst i c (snd p))) m) = option_map (subst i c) (memo_get j m).
Proof.
  intros i c j. induction m as [|[k y] r IH]; cbn; [reflexivity|]. destruct (Z.eqb j k); [reflexivity | exact IH].
Qed.

Lemma memo_get_in_keys : forall j x (m : list (Z * obj)), memo_get j m = Some x -> existsb (Z.eqb j) (map fst m) = true.
Proof.
  intros j x. induction m as [|[k y] r IH]; cbn; intro H; [discriminate|].
  destruct (Z.eqb j k); [reflexivity | apply IH; exact H].
Qed.

(** * the invariant between checker state and machine state *)

Definition inv (cs : cstate) (st : state) : Prop :=
  fresh_state st /\ map fst (memo st) = snd cs /\
  (forall i v, lm_get i (fst cs) = Some v -> idfree v = true /\ memo_get i (memo st) = Some (canon_obj v)).

Lemma inv_stack : forall cs st s n, inv cs st -> next st <= n ->
  forallb (ids_below n) s = true ->
  inv cs (mkState s (memo st) n (ecache st) (trace st)).
Proof.
  intros cs st s n [[Hs Hm] [Hk Ha]] Hle Hb. split; [|split]; cbn.
  - split; cbn; [exact Hb | apply (memo_mono _ _ _ Hle Hm)].
  - exact Hk.
  - exact Ha.
Qed.

Lemma inv_trace : forall cs s m n e t t', inv cs (mkState s m n e t) -> inv cs (mkState s m n e t').
Proof. intros cs s m n e t t' H. exact H. Qed.

Lemma inv_mutate : forall cs st i c, inv cs st -> ids_below (next st) c = true -> inv cs (mutate i c st).
Proof.
  intros cs st i c [[Hs Hm] [Hk Ha]] Hc. split; [|split]; cbn.
  - split; cbn.
    + apply forallb_map_imp; [|exact Hs]. apply Forall_forall. intros x _. apply subst_ids_below. exact Hc.
    + clear - Hm Hc. induction (memo st) as [|[j x] r IH]; cbn in *; [reflexivity|].
      apply andb_true_iff in Hm. destruct Hm as [H1 H2]. rewrite (subst_ids_below _ i c Hc x H1), (IH H2). reflexivity.
  - rewrite map_map. cbn. exact Hk.
  - intros j v Hj. destruct (Ha j v Hj) as [Hf Hg]. split; [exact Hf|].
    rewrite memo_get_map_subst, Hg. cbn. rewrite (noids_subst i c _ (canon_noids v Hf)). reflexivity.
Qed.

(** * single opcodes *)

Lemma inv_push : forall cs st o, inv cs st -> ids_below (next st) o = true -> inv cs (push o st).
Proof.
  intros cs st o H Ho. unfold push, set_stack. apply inv_stack; [exact H | lia|].
  cbn. rewrite Ho. destruct H as [[Hs _] _]. exact Hs.
Qed.

Lemma inv_emit : forall cs st e, inv cs st -> inv cs (emit e st).
Proof. intros cs st e H. exact H. Qed.

Lemma inv_keys_len : forall cs st, inv cs st -> List.length (memo st) = List.length (snd cs).
Proof. intros cs st [_ [Hk _]]. rewrite <- Hk, map_length. reflexivity. Qed.

(* the machine's PUT with a fresh index *)
Lemma do_put_fresh : forall cs st v o s idx,
  inv cs st -> stack st = o :: s -> is_mark o = false -> (idfree v = true -> o = canon_obj v) ->
  existsb (Z.eqb idx) (snd cs) = false ->
  exists st', do_put st idx = SNext st' /\ stack st' = stack st /\ next st' = next st /\
              inv (if idfree v then (idx, v) :: fst cs else fst cs, (snd cs ++ [idx])%list) st'.
Proof.
  intros cs st v o s idx Hinv Hst Hm Hcan Hfr. destruct Hinv as [[Hs Hmm] [Hk Ha]].
  assert (Hp : pop1 (stack st) = Some (o, s)) by (rewrite Hst; cbn [pop1]; rewrite Hm; reflexivity).
  unfold do_put. rewrite Hp.
  rewrite <- Hk in Hfr. rewrite (memo_put_fresh idx o (memo st) Hfr).
  eexists. split; [reflexivity|]. split; [reflexivity|]. split; [reflexivity|].
  assert (Ho : ids_below (next st) o = true).
  { rewrite Hst in Hs. cbn in Hs. apply andb_true_iff in Hs. apply Hs. }
  split; [|split]; cbn.
  - split; cbn; [exact Hs|]. rewrite forallb_app. rewrite Hmm. cbn. rewrite Ho. reflexivity.
  - rewrite map_app, Hk. reflexivity.
  - intros j w Hj. destruct (idfree v) eqn:Ef.
    + cbn [fst lm_get] in Hj. destruct (Z.eqb j idx) eqn:Ej.
      * inversion Hj; subst w. apply Z.eqb_eq in Ej. subst j. split; [exact Ef|].
        rewrite (memo_get_app_new idx o (memo st) Hfr). rewrite (Hcan eq_refl). reflexivity.
      * destruct (Ha j w Hj) as [Hf Hg]. split; [exact Hf|]. apply memo_get_app_old. exact Hg.
    + cbn [fst] in Hj. destruct (Ha j w Hj) as [Hf Hg]. split; [exact Hf|]. apply memo_get_app_old. exact Hg.
Qed.

Lemma put_sound : forall w cs v prog cs' rest st o s,
  chk_put cs v prog = Some (cs', rest) -> inv cs st -> stack st = o :: s ->
  is_mark o = false -> (idfree v = true -> o = canon_obj v) ->
  exists st', run w st prog = run w st' rest /\ stack st' = stack st /\ next st' = next st /\ inv cs' st'.
Proof.
  intros w cs v prog cs' rest st o s H Hinv Hst Hm Hcan. unfold chk_put in H.
  destruct prog as [|p r]; [inversion H; subst; exists st; auto|].
  destruct (put_index (snd cs) p) as [idx|] eqn:Ep; [|inversion H; subst; exists st; auto].
  destruct (existsb (Z.eqb idx) (snd cs)) eqn:Ef; [discriminate|]. inversion H; subst cs' rest. clear H.
  destruct (do_put_fresh cs st v o s idx Hinv Hst Hm Hcan Ef) as [st' [Hd [Hs' [Hn' Hi']]]].
  exists st'. split; [|auto]. apply run_step_next.
  destruct p; cbn in Ep; try discriminate; cbn [step].
  - inversion Ep; subst idx. rewrite (inv_keys_len cs st Hinv). exact Hd.
  - destruct (Z.ltb i 0); [discriminate|]. inversion Ep; subst. exact Hd.
  - inversion Ep; subst. exact Hd.
  - inversion Ep; subst. exact Hd.
Qed.

Lemma get_sound : forall w cs v i st p,
  get_index p = Some i -> chk_get cs v i = true -> inv cs st ->
  step w st p = SNext (push (canon_obj v) st) /\ idfree v = true.
Proof.
  intros w cs v i st p Hg Hc Hinv. unfold chk_get in Hc.
  destruct (lm_get i (fst cs)) as [v'|] eqn:El; [|discriminate]. apply pv_eqb_eq in Hc. subst v'.
  destruct Hinv as [_ [_ Ha]]. destruct (Ha i v El) as [Hf Hm]. split; [|exact Hf].
  destruct p; cbn in Hg; try discriminate; inversion Hg; subst; cbn [step]; unfold do_get; rewrite Hm; reflexivity.
Qed.

Lemma atom_of_push_step : forall w st p a, atom_of_push p = Some a -> step w st p = SNext (push (obj_of_atom a) st).
Proof.
  intros w st p a H. destruct p; cbn in H; try discriminate; try (inversion H; subst; reflexivity).
  - destruct f; [inversion H; subst; reflexivity | discriminate].
  - destruct f; [inversion H; subst; reflexivity | discriminate].
Qed.

Lemma canon_below : forall n v, idfree v = true -> ids_below n (canon_obj v) = true.
Proof. intros n v H. apply noids_below. apply canon_noids. exact H. Qed.

Lemma atom_sound : forall w a cs prog cs' rest st,
  chk_atom a cs prog = Some (cs', rest) -> inv cs st ->
  exists st', run w st prog = run w st' rest /\ stack st' = obj_of_atom a :: stack st /\
              next st' = next st /\ inv cs' st'.
Proof.
  intros w a cs prog cs' rest st H Hinv. unfold chk_atom in H. destruct prog as [|p r]; [discriminate|].
  destruct (get_index p) as [i|] eqn:Eg.
  - destruct (chk_get cs (PAtom a) i) eqn:Ec; [|discriminate]. inversion H; subst cs' rest.
    destruct (get_sound w cs (PAtom a) i st p Eg Ec Hinv) as [Hs _]. cbn [canon_obj] in Hs.
    exists (push (obj_of_atom a) st). split; [apply run_step_next; exact Hs|].
    split; [reflexivity | split; [reflexivity|]]. apply inv_push; [exact Hinv | apply ids_below_atom].
  - destruct (atom_of_push p) as [a'|] eqn:Ea; [|discriminate].
    destruct (atom_eqb a' a) eqn:Ee; [|discriminate]. apply atom_eqb_eq in Ee. subst a'.
    assert (Hinv1 : inv cs (push (obj_of_atom a) st)) by (apply inv_push; [exact Hinv | apply ids_below_atom]).
    destruct (put_sound w cs (PAtom a) r cs' rest (push (obj_of_atom a) st) (obj_of_atom a) (stack st) H Hinv1
                        eq_refl (is_mark_atom a) (fun _ => eq_refl)) as [st' [Hr [Hs [Hn Hi]]]].
    exists st'. split; [|split; [exact Hs | split; [exact Hn | exact Hi]]].
    rewrite (run_step_next w st p _ r (atom_of_push_step w st p a Ea)). exact Hr.
Qed.

Lemma atoms_sound : forall w xs cs prog cs' rest st,
  chk_atoms xs cs prog = Some (cs', rest) -> inv cs st ->
  exists st', run w st prog = run w st' rest /\ stack st' = (rev (map obj_of_atom xs) ++ stack st)%list /\
              next st' = next st /\ inv cs' st'.
Proof.
  intros w. induction xs as [|a r IH]; intros cs prog cs' rest st H Hinv; cbn [chk_atoms] in H.
  - inversion H; subst. exists st. auto.
  - destruct (chk_atom a cs prog) as [[cs1 p1]|] eqn:Ea; [|discriminate].
    destruct (atom_sound w a cs prog cs1 p1 st Ea Hinv) as [st1 [Hr1 [Hs1 [Hn1 Hi1]]]].
    destruct (IH cs1 p1 cs' rest st1 H Hi1) as [st2 [Hr2 [Hs2 [Hn2 Hi2]]]].
    exists st2. split; [rewrite Hr1; exact Hr2|]. split; [|split; [lia | exact Hi2]].
    rewrite Hs2, Hs1. cbn [map rev]. rewrite <- app_assoc. reflexivity.
Qed.

(* a class object *)
Lemma type_default_sound : forall w m n cs prog cs' rest st,
  match chk_atom (AStr m) cs prog with
  | Some (cs1, p1) =>
      match chk_atom (AStr n) cs1 p1 with
      | Some (cs2, STACK_GLOBAL :: p2) => chk_put cs2 (PType m n) p2
      | _ => None
      end
  | None => None
  end = Some (cs', rest) ->
  inv cs st -> find_class w m n = FCResolved GType ->
  exists st', run w st prog = run w st' rest /\ stack st' = OGlobal m n GType :: stack st /\
              next st' = next st /\ inv cs' st'.
Proof.
  intros w m n cs prog cs' rest st H Hinv Hfc.
  destruct (chk_atom (AStr m) cs prog) as [[cs1 p1]|] eqn:E1; [|discriminate].
  destruct (chk_atom (AStr n) cs1 p1) as [[cs2 p2]|] eqn:E2; [|discriminate].
  destruct p2 as [|q p2]; [discriminate|]. destruct q; try discriminate.
  destruct (atom_sound w _ _ _ _ _ st E1 Hinv) as [st1 [Hr1 [Hs1 [Hn1 Hi1]]]].
  destruct (atom_sound w _ _ _ _ _ st1 E2 Hi1) as [st2 [Hr2 [Hs2 [Hn2 Hi2]]]].
  cbn [obj_of_atom] in Hs1, Hs2.
  set (st3 := mkState (OGlobal m n GType :: stack st) (memo st2) (next st2) (ecache st2) (EResolve m n :: trace st2)).
  assert (H3 : step w st2 STACK_GLOBAL = SNext st3).
  { cbn [step]. rewrite Hs2, Hs1. cbn [pop1 is_mark]. unfold do_global. rewrite Hfc. reflexivity. }
  assert (Hi3 : inv cs2 st3).
  { unfold st3. apply (inv_trace _ _ _ _ _ (trace st2)). apply inv_stack; [exact Hi2 | lia|].
    cbn. destruct Hi2 as [[Hs _] _]. rewrite Hs2, Hs1 in Hs. cbn in Hs. exact Hs. }
  destruct (put_sound w cs2 (PType m n) p2 cs' rest st3 (OGlobal m n GType) (stack st) H Hi3 eq_refl eq_refl
                      (fun _ => eq_refl)) as [st4 [Hr4 [Hs4 [Hn4 Hi4]]]].
  exists st4. split; [|split; [exact Hs4 | split; [cbn in Hn4; lia | exact Hi4]]].
  rewrite Hr1, Hr2, (run_step_next w st2 STACK_GLOBAL st3 p2 H3). exact Hr4.
Qed.

Lemma type_sound : forall w m n cs prog cs' rest st,
  chk_type m n cs prog = Some (cs', rest) -> inv cs st -> find_class w m n = FCResolved GType ->
  exists st', run w st prog = run w st' rest /\ stack st' = OGlobal m n GType :: stack st /\
              next st' = next st /\ inv cs' st'.
Proof.
  intros w m n cs prog cs' rest st H Hinv Hfc. unfold chk_type in H. destruct prog as [|p r]; [discriminate|].
  destruct (match get_index p with Some i => chk_get cs (PType m n) i | None => false end) eqn:Eg.
  - inversion H; subst cs' rest. destruct (get_index p) as [i|] eqn:Ei; [|discriminate].
    destruct (get_sound w cs (PType m n) i st p Ei Eg Hinv) as [Hs _]. cbn [canon_obj] in Hs.
    exists (push (OGlobal m n GType) st). split; [apply run_step_next; exact Hs|].
    split; [reflexivity | split; [reflexivity|]]. apply inv_push; [exact Hinv | reflexivity].
  - destruct p;
      try (match type of H with
           | match chk_atom _ _ ?pp with _ => _ end = _ => exact (type_default_sound w m n cs pp cs' rest st H Hinv Hfc)
           end).
    (* GLOBAL *)
    match type of H with (if (pystr_eqb ?a m && pystr_eqb ?b n && _ && _)%bool then _ else _) = _ =>
      rename a into m0; rename b into n0 end.
    destruct (pystr_eqb m0 m && pystr_eqb n0 n && negb (empty_line m) && negb (empty_line n))%bool eqn:Ec; [|discriminate].
    apply andb_true_iff in Ec. destruct Ec as [Ec En]. apply andb_true_iff in Ec. destruct Ec as [Ec Em].
    apply andb_true_iff in Ec. destruct Ec as [E1 E2]. apply pystr_eqb_eq in E1. apply pystr_eqb_eq in E2. subst m0 n0.
    apply negb_true_iff in Em. apply negb_true_iff in En.
    set (st1 := mkState (OGlobal m n GType :: stack st) (memo st) (next st) (ecache st) (EResolve m n :: trace st)).
    assert (H1 : step w st (GLOBAL m n) = SNext st1).
    { cbn [step]. rewrite Em, En. cbn [orb]. unfold do_global. rewrite Hfc. reflexivity. }
    assert (Hi1 : inv cs st1).
    { unfold st1. apply (inv_trace _ _ _ _ _ (trace st)). apply inv_stack; [exact Hinv | lia|].
      cbn. destruct Hinv as [[Hs _] _]. exact Hs. }
    destruct (put_sound w cs (PType m n) r cs' rest st1 (OGlobal m n GType) (stack st) H Hi1 eq_refl eq_refl
                        (fun _ => eq_refl)) as [st2 [Hr2 [Hs2 [Hn2 Hi2]]]].
    exists st2. split; [|split; [exact Hs2 | split; [exact Hn2 | exact Hi2]]].
    rewrite (run_step_next w st _ st1 r H1). exact Hr2.
Qed.

(** * closing a batch: the target is mutated in place *)

Lemma mutate_stack : forall i c st t below,
  stack st = t :: below -> subst i c t = c -> forallb (ids_below i) below = true ->
  stack (mutate i c st) = c :: below.
Proof.
  intros i c st t below Hs Ht Hb. unfold mutate. cbn [stack]. rewrite Hs. cbn [map].
  rewrite Ht, (stack_subst_fresh _ _ _ Hb). reflexivity.
Qed.

Lemma nodup_atoms_prefix : forall l1 l2, nodup_atoms (l1 ++ l2) = true -> nodup_atoms l1 = true.
Proof.
  induction l1 as [|a r IH]; intros l2 H; cbn in *; [reflexivity|].
  apply andb_true_iff in H. destruct H as [H1 H2]. rewrite (IH _ H2), andb_true_r.
  apply negb_true_iff in H1. apply negb_true_iff. unfold mem_atom in *. rewrite existsb_app in H1.
  apply orb_false_iff in H1. apply H1.
Qed.

Lemma inv_set_stack_sub : forall cs st s, inv cs st ->
  forallb (ids_below (next st)) s = true -> inv cs (set_stack st s).
Proof. intros cs st s H Hs. unfold set_stack. apply inv_stack; [exact H | lia | exact Hs]. Qed.

Lemma fresh_stack_tail : forall st a s, fresh_state st -> stack st = a :: s ->
  ids_below (next st) a = true /\ forallb (ids_below (next st)) s = true.
Proof. intros st a s [Hs _] E. rewrite E in Hs. cbn in Hs. apply andb_true_iff in Hs. exact Hs. Qed.

Lemma forallb_app_split : forall (A : Type) (f : A -> bool) l1 l2,
  forallb f (l1 ++ l2) = true -> forallb f l1 = true /\ forallb f l2 = true.
Proof. intros. rewrite forallb_app in H. apply andb_true_iff in H. exact H. Qed.

(* ADDITEMS on a set that already has members *)
Lemma additems_step : forall w cs st i prevA itemsA below,
  inv cs st -> itemsA <> [] -> nodup_atoms (prevA ++ itemsA) = true ->
  stack st = (rev (map obj_of_atom itemsA) ++ OMark :: OSet i (map obj_of_atom prevA) :: below)%list ->
  forallb (ids_below i) below = true -> i < next st ->
  exists st', step w st ADDITEMS = SNext st' /\
              stack st' = OSet i (map obj_of_atom (prevA ++ itemsA)) :: below /\
              next st' = next st /\ inv cs st'.
Proof.
  intros w cs st i prevA itemsA below Hinv Hne Hnd Hs Hb Hlt.
  set (c := OSet i (map obj_of_atom (prevA ++ itemsA))).
  exists (mutate i c (set_stack st (OSet i (map obj_of_atom prevA) :: below))).
  split; [|split; [|split]].
  - cbn [step]. unfold with_mark. rewrite Hs, (to_mark_rev _ _ (no_mark_atoms itemsA)).
    unfold do_additems. cbn [pop1 is_mark].
    destruct (map obj_of_atom itemsA) as [|x r] eqn:E; [destruct itemsA; [contradiction | discriminate]|].
    rewrite <- E, (set_add_all_atoms itemsA prevA Hnd). reflexivity.
  - apply (mutate_stack i c _ (OSet i (map obj_of_atom prevA)) below); [reflexivity | | exact Hb].
    cbn [subst]. rewrite Nat.eqb_refl. reflexivity.
  - reflexivity.
  - apply inv_mutate.
    + apply inv_set_stack_sub; [exact Hinv|]. destruct Hinv as [[Hst _] _]. rewrite Hs in Hst.
      apply forallb_app_split in Hst. destruct Hst as [_ Hst]. cbn in Hst. exact Hst.
    + cbn [ids_below c]. rewrite ids_below_atoms, andb_true_r. apply Nat.ltb_lt. exact Hlt.
Qed.

Lemma set_items_sound : forall w xs inm cs prog cs' rest st i prevA batchA below,
  chk_set_items xs inm cs prog = Some (cs', rest) -> inv cs st ->
  stack st = ((if inm then rev (map obj_of_atom batchA) ++ [OMark] else []) ++ OSet i (map obj_of_atom prevA) :: below)%list ->
  (inm = false -> batchA = []) ->
  nodup_atoms (prevA ++ batchA ++ xs) = true ->
  forallb (ids_below i) below = true -> i < next st ->
  exists st', run w st prog = run w st' rest /\
              stack st' = OSet i (map obj_of_atom (prevA ++ batchA ++ xs)) :: below /\
              next st' = next st /\ inv cs' st'.
Proof.
  intros w. induction xs as [|a r IH]; intros inm cs prog cs' rest st i prevA batchA below H Hinv Hs Hbat Hnd Hb Hlt;
    cbn [chk_set_items] in H.
  - destruct inm; [discriminate|]. inversion H; subst cs' rest. rewrite (Hbat eq_refl) in *. cbn [app] in *.
    exists st. rewrite !app_nil_r. auto.
  - (* enter the batch if necessary *)
    assert (Henter : exists st0 p0, run w st prog = run w st0 p0 /\
              (if inm then Some prog else match prog with MARK :: p => Some p | _ => None end) = Some p0 /\
              stack st0 = (rev (map obj_of_atom batchA) ++ OMark :: OSet i (map obj_of_atom prevA) :: below)%list /\
              next st0 = next st /\ inv cs st0).
    { destruct inm.
      - exists st, prog. rewrite Hs, <- app_assoc. auto.
      - rewrite (Hbat eq_refl) in *. destruct prog as [|q p]; [discriminate|]. destruct q; try discriminate.
        exists (push OMark st), p. split; [apply run_step_next; reflexivity|]. split; [reflexivity|].
        split; [cbn; rewrite Hs; reflexivity|]. split; [reflexivity|]. apply inv_push; [exact Hinv | reflexivity]. }
    destruct Henter as [st0 [p0 [Hr0 [Hp0 [Hs0 [Hn0 Hi0]]]]]]. rewrite Hp0 in H. clear Hp0.
    destruct (chk_atom a cs p0) as [[cs1 p1]|] eqn:Ea; [|discriminate].
    destruct (atom_sound w a cs p0 cs1 p1 st0 Ea Hi0) as [st1 [Hr1 [Hs1 [Hn1 Hi1]]]].
    assert (Hs1' : stack st1 = (rev (map obj_of_atom (batchA ++ [a])) ++ OMark :: OSet i (map obj_of_atom prevA) :: below)%list).
    { rewrite Hs1, Hs0, map_app, rev_app_distr. reflexivity. }
    (* the default continuation: the batch stays open *)
    assert (Hopen : chk_set_items r true cs1 p1 = Some (cs', rest) ->
              exists st', run w st prog = run w st' rest /\
                stack st' = OSet i (map obj_of_atom (prevA ++ batchA ++ a :: r)) :: below /\
                next st' = next st /\ inv cs' st').
    { intro H'. destruct (IH true cs1 p1 cs' rest st1 i prevA (batchA ++ [a]) below H' Hi1) as [st' [Hr' [Hs' [Hn' Hi']]]].
      - rewrite Hs1', <- app_assoc. reflexivity.
      - discriminate.
      - rewrite <- app_assoc. exact Hnd.
      - exact Hb.
      - lia.
      - exists st'. split; [rewrite Hr0, Hr1; exact Hr'|]. rewrite <- app_assoc in Hs'. split; [exact Hs'|]. split; [lia | exact Hi']. }
    destruct p1 as [|q p1']; [apply Hopen; exact H|].
    destruct q; try (apply Hopen; exact H).
    (* ADDITEMS closes the batch *)
    assert (Hnd1 : nodup_atoms (prevA ++ (batchA ++ [a])) = true).
    { apply (nodup_atoms_prefix _ r). rewrite <- !app_assoc. exact Hnd. }
    destruct (additems_step w cs1 st1 i prevA (batchA ++ [a]) below Hi1) as [st2 [Hst2 [Hs2 [Hn2 Hi2]]]].
    + destruct batchA; discriminate.
    + exact Hnd1.
    + exact Hs1'.
    + exact Hb.
    + lia.
    + destruct (IH false cs1 p1' cs' rest st2 i (prevA ++ batchA ++ [a]) [] below H Hi2) as [st' [Hr' [Hs' [Hn' Hi']]]].
      * exact Hs2.
      * reflexivity.
      * cbn [app]. rewrite <- !app_assoc. exact Hnd.
      * exact Hb.
      * lia.
      * exists st'. split; [rewrite Hr0, Hr1, (run_step_next w st1 ADDITEMS st2 p1' Hst2); exact Hr'|].
        cbn [app] in Hs'. rewrite <- !app_assoc in Hs'. split; [exact Hs'|]. split; [lia | exact Hi'].
Qed.

(** * the generic member loops *)

Definition member_sound (w : world) (chkf : pv -> cstate -> list op -> option (cstate * list op)) (x : pv) : Prop :=
  forall cs prog cs' rest, chkf x cs prog = Some (cs', rest) -> forall st, inv cs st ->
  exists o st', run w st prog = run w st' rest /\ stack st' = o :: stack st /\ decode o = Some x /\
    is_mark o = false /\ (idfree x = true -> o = canon_obj x) /\ inv cs' st' /\ next st <= next st'.

Lemma seq_sound : forall w chkf xs, Forall (member_sound w chkf) xs ->
  forall cs prog cs' rest st, seq_gen chkf xs cs prog = Some (cs', rest) -> inv cs st ->
  exists os st', run w st prog = run w st' rest /\ stack st' = (rev os ++ stack st)%list /\
    Forall2 (fun o v => decode o = Some v) os xs /\ existsb is_mark os = false /\
    (forallb idfree xs = true -> os = map canon_obj xs) /\ inv cs' st' /\ next st <= next st'.
Proof.
  intros w chkf xs HF. induction HF as [|x r Hx Hr IH]; intros cs prog cs' rest st H Hinv; cbn [seq_gen] in H.
  - inversion H; subst. exists [], st. cbn.
    split; [reflexivity|]. split; [reflexivity|]. split; [constructor|]. split; [reflexivity|].
    split; [reflexivity|]. split; [exact Hinv | lia].
  - destruct (chkf x cs prog) as [[cs1 p1]|] eqn:E; [|discriminate].
    destruct (Hx cs prog cs1 p1 E st Hinv) as [o [st1 [Hr1 [Hs1 [Hd1 [Hm1 [Hc1 [Hi1 Hn1]]]]]]]].
    destruct (IH cs1 p1 cs' rest st1 H Hi1) as [os [st2 [Hr2 [Hs2 [Hd2 [Hm2 [Hc2 [Hi2 Hn2]]]]]]]].
    exists (o :: os), st2. split; [rewrite Hr1; exact Hr2|].
    split; [rewrite Hs2, Hs1; cbn [rev]; rewrite <- app_assoc; reflexivity|].
    split; [constructor; assumption|]. split; [cbn; rewrite Hm1; exact Hm2|].
    split; [|split; [exact Hi2 | lia]].
    intro Hf. cbn in Hf. apply andb_true_iff in Hf. destruct Hf as [F1 F2]. cbn [map]. rewrite (Hc1 F1), (Hc2 F2). reflexivity.
Qed.

Lemma appends_step : forall w cs st i prev items below,
  inv cs st -> items <> [] -> existsb is_mark items = false ->
  stack st = (rev items ++ OMark :: OList i prev :: below)%list ->
  forallb (ids_below i) below = true -> i < next st ->
  exists st', step w st APPENDS = SNext st' /\ stack st' = OList i (prev ++ items) :: below /\
              next st' = next st /\ inv cs st'.
Proof.
  intros w cs st i prev items below Hinv Hne Hm Hs Hb Hlt.
  set (c := OList i (prev ++ items)).
  exists (mutate i c (set_stack st (OList i prev :: below))).
  destruct Hinv as [[Hst Hmm] Hrest]. pose proof Hst as Hst'. rewrite Hs in Hst'.
  apply forallb_app_split in Hst'. destruct Hst' as [Hit Hst']. rewrite forallb_rev' in Hit.
  cbn [forallb] in Hst'. apply andb_true_iff in Hst'. destruct Hst' as [_ Hst'].
  split; [|split; [|split]].
  - cbn [step]. unfold with_mark. rewrite Hs, (to_mark_rev _ _ Hm). unfold do_extend. cbn [pop1 is_mark].
    destruct items as [|x r]; [contradiction|]. reflexivity.
  - apply (mutate_stack i c _ (OList i prev) below); [reflexivity | | exact Hb].
    cbn [subst]. rewrite Nat.eqb_refl. reflexivity.
  - reflexivity.
  - apply inv_mutate.
    + apply inv_set_stack_sub; [split; [split|]; assumption | exact Hst'].
    + cbn [forallb ids_below] in Hst'. apply andb_true_iff in Hst'. destruct Hst' as [Ht _].
      apply andb_true_iff in Ht. destruct Ht as [Hl Hp].
      cbn [ids_below c set_stack next]. rewrite Hl, forallb_app, Hp, Hit. reflexivity.
Qed.

Lemma append_step : forall w cs st i prev o below,
  inv cs st -> is_mark o = false ->
  stack st = o :: OList i prev :: below ->
  forallb (ids_below i) below = true -> i < next st ->
  exists st', step w st APPEND = SNext st' /\ stack st' = OList i (prev ++ [o]) :: below /\
              next st' = next st /\ inv cs st'.
Proof.
  intros w cs st i prev o below Hinv Hm Hs Hb Hlt.
  set (c := OList i (prev ++ [o])).
  exists (mutate i c (set_stack st (OList i prev :: below))).
  destruct Hinv as [[Hst Hmm] Hrest]. pose proof Hst as Hst'. rewrite Hs in Hst'.
  cbn [forallb] in Hst'. apply andb_true_iff in Hst'. destruct Hst' as [Ho Hst'].
  split; [|split; [|split]].
  - cbn [step]. rewrite Hs. cbn [pop1]. rewrite Hm. unfold do_extend. cbn [pop1 is_mark]. reflexivity.
  - apply (mutate_stack i c _ (OList i prev) below); [reflexivity | | exact Hb].
    cbn [subst]. rewrite Nat.eqb_refl. reflexivity.
  - reflexivity.
  - apply inv_mutate.
    + apply inv_set_stack_sub; [split; [split|]; assumption | exact Hst'].
    + cbn [forallb ids_below] in Hst'. apply andb_true_iff in Hst'. destruct Hst' as [Ht _].
      apply andb_true_iff in Ht. destruct Ht as [Hl Hp].
      cbn [ids_below c set_stack next]. rewrite Hl, forallb_app, Hp. cbn. rewrite Ho. reflexivity.
Qed.

Lemma items_sound : forall w chkf xs, Forall (member_sound w chkf) xs ->
  forall inm cs prog cs' rest st i prev batch below,
  items_gen chkf xs inm cs prog = Some (cs', rest) -> inv cs st ->
  stack st = ((if inm then rev batch ++ [OMark] else []) ++ OList i prev :: below)%list ->
  (inm = false -> batch = []) -> existsb is_mark batch = false ->
  forallb (ids_below i) below = true -> i < next st ->
  exists os st', run w st prog = run w st' rest /\ stack st' = OList i (prev ++ batch ++ os) :: below /\
     Forall2 (fun o v => decode o = Some v) os xs /\ inv cs' st' /\ next st <= next st'.
Proof.
  intros w chkf xs HF. induction HF as [|x r Hx Hr IH];
    intros inm cs prog cs' rest st i prev batch below H Hinv Hs Hbat Hmk Hb Hlt; cbn [items_gen] in H.
  - destruct inm; [discriminate|]. inversion H; subst cs' rest. rewrite (Hbat eq_refl) in *. cbn [app] in *.
    exists [], st. rewrite !app_nil_r.
    split; [reflexivity|]. split; [exact Hs|]. split; [constructor|]. split; [exact Hinv | lia].
  - (* inside a batch (already open, or opened by MARK now) *)
    assert (Hbatch : forall st0 p0 bat,
              run w st prog = run w st0 p0 -> next st0 = next st -> inv cs st0 ->
              stack st0 = (rev bat ++ OMark :: OList i prev :: below)%list -> bat = batch ->
              match chkf x cs p0 with
              | Some (cs1, p1) => match p1 with
                                  | APPENDS :: p2 => items_gen chkf r false cs1 p2
                                  | _ => items_gen chkf r true cs1 p1
                                  end
              | None => None
              end = Some (cs', rest) ->
              exists os st', run w st prog = run w st' rest /\ stack st' = OList i (prev ++ batch ++ os) :: below /\
                Forall2 (fun o v => decode o = Some v) os (x :: r) /\ inv cs' st' /\ next st <= next st').
    { intros st0 p0 bat Hr0 Hn0 Hi0 Hs0 Ebat H0. subst bat.
      destruct (chkf x cs p0) as [[cs1 p1]|] eqn:E; [|discriminate].
      destruct (Hx cs p0 cs1 p1 E st0 Hi0) as [o [st1 [Hr1 [Hs1 [Hd1 [Hm1 [_ [Hi1 Hn1]]]]]]]].
      assert (Hs1' : stack st1 = (rev (batch ++ [o]) ++ OMark :: OList i prev :: below)%list).
      { rewrite Hs1, Hs0, rev_app_distr. reflexivity. }
      assert (Hmk1 : existsb is_mark (batch ++ [o]) = false).
      { rewrite existsb_app, Hmk. cbn. rewrite Hm1. reflexivity. }
      assert (Hopen : items_gen chkf r true cs1 p1 = Some (cs', rest) ->
                exists os st', run w st prog = run w st' rest /\ stack st' = OList i (prev ++ batch ++ os) :: below /\
                  Forall2 (fun o v => decode o = Some v) os (x :: r) /\ inv cs' st' /\ next st <= next st').
      { intro H'. destruct (IH true cs1 p1 cs' rest st1 i prev (batch ++ [o]) below H' Hi1) as [os [st' [Hr' [Hs' [Hd' [Hi' Hn']]]]]].
        - rewrite Hs1', <- app_assoc. reflexivity.
        - discriminate.
        - exact Hmk1.
        - exact Hb.
        - lia.
        - exists (o :: os), st'. split; [rewrite Hr0, Hr1; exact Hr'|].
          rewrite <- app_assoc in Hs'. split; [exact Hs'|]. split; [constructor; assumption|]. split; [exact Hi' | lia]. }
      destruct p1 as [|q p1']; [apply Hopen; exact H0|].
      destruct q; try (apply Hopen; exact H0).
      destruct (appends_step w cs1 st1 i prev (batch ++ [o]) below Hi1) as [st2 [Hst2 [Hs2 [Hn2 Hi2]]]].
      + destruct batch; discriminate.
      + exact Hmk1.
      + exact Hs1'.
      + exact Hb.
      + lia.
      + destruct (IH false cs1 p1' cs' rest st2 i (prev ++ batch ++ [o]) [] below H0 Hi2) as [os [st' [Hr' [Hs' [Hd' [Hi' Hn']]]]]].
        * exact Hs2.
        * reflexivity.
        * reflexivity.
        * exact Hb.
        * lia.
        * exists (o :: os), st'. split; [rewrite Hr0, Hr1, (run_step_next w st1 APPENDS st2 p1' Hst2); exact Hr'|].
          cbn [app] in Hs'. rewrite <- !app_assoc in Hs'. split; [exact Hs'|].
          split; [constructor; assumption|]. split; [exact Hi' | lia]. }
    (* a single item followed by APPEND *)
    assert (Hsingle : inm = false ->
              match chkf x cs prog with
              | Some (cs1, p1) => match p1 with APPEND :: p2 => items_gen chkf r false cs1 p2 | _ => None end
              | None => None
              end = Some (cs', rest) ->
              exists os st', run w st prog = run w st' rest /\ stack st' = OList i (prev ++ batch ++ os) :: below /\
                Forall2 (fun o v => decode o = Some v) os (x :: r) /\ inv cs' st' /\ next st <= next st').
    { intros Einm H0. subst inm. rewrite (Hbat eq_refl) in *. cbn [app] in Hs.
      destruct (chkf x cs prog) as [[cs1 p1]|] eqn:E; [|discriminate].
      destruct p1 as [|q p2]; [discriminate|]. destruct q; try discriminate.
      destruct (Hx cs prog cs1 _ E st Hinv) as [o [st1 [Hr1 [Hs1 [Hd1 [Hm1 [_ [Hi1 Hn1]]]]]]]].
      destruct (append_step w cs1 st1 i prev o below Hi1 Hm1) as [st2 [Hst2 [Hs2 [Hn2 Hi2]]]].
      + rewrite Hs1, Hs. reflexivity.
      + exact Hb.
      + lia.
      + destruct (IH false cs1 p2 cs' rest st2 i (prev ++ [o]) [] below H0 Hi2) as [os [st' [Hr' [Hs' [Hd' [Hi' Hn']]]]]].
        * exact Hs2.
        * reflexivity.
        * reflexivity.
        * exact Hb.
        * lia.
        * exists (o :: os), st'. split; [rewrite Hr1, (run_step_next w st1 APPEND st2 p2 Hst2); exact Hr'|].
          cbn [app] in Hs'. rewrite <- !app_assoc in Hs'. cbn [app]. split; [exact Hs'|].
          split; [constructor; assumption|]. split; [exact Hi' | lia]. }
    destruct inm.
    + apply (Hbatch st prog batch); [reflexivity | reflexivity | exact Hinv | | reflexivity | exact H].
      rewrite Hs, <- app_assoc. reflexivity.
    + destruct prog as [|q p]; [apply Hsingle; [reflexivity | exact H]|].
      destruct q; try (apply Hsingle; [reflexivity | exact H]).
      (* MARK opens a batch *)
      rewrite (Hbat eq_refl) in *.
      apply (Hbatch (push OMark st) p []); [| reflexivity | | | reflexivity | exact H].
      * apply run_step_next. reflexivity.
      * apply inv_push; [exact Hinv | reflexivity].
      * cbn. rewrite Hs. reflexivity.
Qed.

(** * dict batches *)

Lemma flatten_app : forall a b, flatten (a ++ b) = (flatten a ++ flatten b)%list.
Proof. intros. unfold flatten. apply flat_map_app. Qed.

Lemma forallb_flatten : forall n ps, forallb (ids_below n) (flatten ps) = true ->
  forallb (fun kv => ids_below n (fst kv) && ids_below n (snd kv)) ps = true.
Proof.
  intros n. induction ps as [|[k v] r IH]; cbn; [auto|]. intro H.
  apply andb_true_iff in H. destruct H as [Hk H]. apply andb_true_iff in H. destruct H as [Hv H].
  rewrite Hk, Hv, (IH H). reflexivity.
Qed.

Lemma hashable_atoms : forall xs, forallb hashable (map obj_of_atom xs) = true.
Proof. induction xs as [|a r IH]; cbn; [reflexivity|]. rewrite hashable_atom. exact IH. Qed.

Lemma dict_step_common : forall cs st i prev ps below ka kb,
  inv cs st -> forallb (ids_below (next st)) (flatten ps) = true ->
  forallb (ids_below (next st)) (ODict i prev :: below) = true ->
  map fst prev = map obj_of_atom ka -> map fst ps = map obj_of_atom kb -> nodup_atoms (ka ++ kb) = true ->
  forallb (ids_below i) below = true ->
  dict_set_all ps prev = Some (prev ++ ps)%list /\
  stack (mutate i (ODict i (prev ++ ps)) (set_stack st (ODict i prev :: below))) = ODict i (prev ++ ps) :: below /\
  inv cs (mutate i (ODict i (prev ++ ps)) (set_stack st (ODict i prev :: below))).
Proof.
  intros cs st i prev ps below ka kb Hinv Hps Hst Hka Hkb Hnd Hb. split; [|split].
  - apply dict_set_all_fresh; [rewrite Hkb; apply hashable_atoms|].
    rewrite Hka, Hkb, <- map_app, nodup_keys_atoms. exact Hnd.
  - apply (mutate_stack i _ _ (ODict i prev) below); [reflexivity | | exact Hb].
    cbn [subst]. rewrite Nat.eqb_refl. reflexivity.
  - apply inv_mutate; [apply inv_set_stack_sub; assumption|].
    cbn [forallb ids_below] in Hst. apply andb_true_iff in Hst. destruct Hst as [Ht _].
    apply andb_true_iff in Ht. destruct Ht as [Hl Hp].
    cbn [ids_below set_stack next]. rewrite Hl, forallb_app, Hp, (forallb_flatten _ _ Hps). reflexivity.
Qed.

Lemma setitems_step : forall w cs st i prev ps below ka kb,
  inv cs st -> ps <> [] -> existsb is_mark (flatten ps) = false ->
  stack st = (rev (flatten ps) ++ OMark :: ODict i prev :: below)%list ->
  map fst prev = map obj_of_atom ka -> map fst ps = map obj_of_atom kb -> nodup_atoms (ka ++ kb) = true ->
  forallb (ids_below i) below = true ->
  exists st', step w st SETITEMS = SNext st' /\ stack st' = ODict i (prev ++ ps) :: below /\
              next st' = next st /\ inv cs st'.
Proof.
  intros w cs st i prev ps below ka kb Hinv Hne Hm Hs Hka Hkb Hnd Hb.
  pose proof Hinv as [[Hst _] _]. rewrite Hs in Hst. apply forallb_app_split in Hst. destruct Hst as [Hit Hst].
  rewrite forallb_rev' in Hit. cbn [forallb] in Hst. apply andb_true_iff in Hst. destruct Hst as [_ Hst].
  destruct (dict_step_common cs st i prev ps below ka kb Hinv Hit Hst Hka Hkb Hnd Hb) as [Hd [Hs' Hi']].
  eexists. split; [|split; [exact Hs' | split; [reflexivity | exact Hi']]].
  cbn [step]. unfold with_mark. rewrite Hs, (to_mark_rev _ _ Hm). unfold do_setitems. cbn [pop1 is_mark].
  destruct (flatten ps) as [|x r] eqn:E; [destruct ps as [|[k v] ps']; [contradiction | discriminate]|].
  rewrite <- E, pairs_of_flatten, Hd. reflexivity.
Qed.

Lemma setitem_step : forall w cs st i prev k v below ka a,
  inv cs st -> is_mark v = false ->
  stack st = v :: obj_of_atom a :: ODict i prev :: below -> k = obj_of_atom a ->
  map fst prev = map obj_of_atom ka -> nodup_atoms (ka ++ [a]) = true ->
  forallb (ids_below i) below = true ->
  exists st', step w st SETITEM = SNext st' /\ stack st' = ODict i (prev ++ [(k, v)]) :: below /\
              next st' = next st /\ inv cs st'.
Proof.
  intros w cs st i prev k v below ka a Hinv Hm Hs Hk Hka Hnd Hb. subst k.
  pose proof Hinv as [[Hst _] _]. rewrite Hs in Hst. cbn [forallb] in Hst.
  apply andb_true_iff in Hst. destruct Hst as [Hv Hst]. apply andb_true_iff in Hst. destruct Hst as [Hk Hst].
  destruct (dict_step_common cs st i prev [(obj_of_atom a, v)] below ka [a] Hinv) as [Hd [Hs' Hi']];
    try assumption; try reflexivity.
  { cbn. rewrite Hk, Hv. reflexivity. }
  eexists. split; [|split; [exact Hs' | split; [reflexivity | exact Hi']]].
  cbn [step]. rewrite Hs. cbn [pop1]. rewrite Hm. cbn [pop1]. rewrite (is_mark_atom a).
  unfold do_setitems. cbn [pop1 is_mark pairs_of]. rewrite Hd. reflexivity.
Qed.

Lemma kitems_sound : forall w chkf (kvs : list (atom * pv)), Forall (fun kv => member_sound w chkf (snd kv)) kvs ->
  forall inm cs prog cs' rest st i prev batch below ka kb,
  kitems_gen chkf kvs inm cs prog = Some (cs', rest) -> inv cs st ->
  stack st = ((if inm then rev (flatten batch) ++ [OMark] else []) ++ ODict i prev :: below)%list ->
  (inm = false -> batch = []) -> existsb is_mark (flatten batch) = false ->
  map fst prev = map obj_of_atom ka -> map fst batch = map obj_of_atom kb ->
  nodup_atoms (ka ++ kb ++ map fst kvs) = true ->
  forallb (ids_below i) below = true -> i < next st ->
  exists ps st', run w st prog = run w st' rest /\ stack st' = ODict i (prev ++ batch ++ ps) :: below /\
     Forall2 (fun p kv => fst p = obj_of_atom (fst kv) /\ decode (snd p) = Some (snd kv)) ps kvs /\
     inv cs' st' /\ next st <= next st'.
Proof.
  intros w chkf kvs HF. induction HF as [|[k x] r Hx Hr IH];
    intros inm cs prog cs' rest st i prev batch below ka kb H Hinv Hs Hbat Hmk Hka Hkb Hnd Hb Hlt; cbn [kitems_gen] in H.
  - destruct inm; [discriminate|]. inversion H; subst cs' rest. rewrite (Hbat eq_refl) in *. cbn [app] in *.
    exists [], st. rewrite !app_nil_r.
    split; [reflexivity|]. split; [exact Hs|]. split; [constructor|]. split; [exact Hinv | lia].
  - cbn [snd] in Hx. cbn [map fst] in Hnd.
    assert (Hbatch : forall st0 p0,
              run w st prog = run w st0 p0 -> next st0 = next st -> inv cs st0 ->
              stack st0 = (rev (flatten batch) ++ OMark :: ODict i prev :: below)%list ->
              match chk_atom k cs p0 with
              | Some (cs2, p2) =>
                  match chkf x cs2 p2 with
                  | Some (cs3, p3) => match p3 with
                                      | SETITEMS :: p4 => kitems_gen chkf r false cs3 p4
                                      | _ => kitems_gen chkf r true cs3 p3
                                      end
                  | None => None
                  end
              | None => None
              end = Some (cs', rest) ->
              exists ps st', run w st prog = run w st' rest /\ stack st' = ODict i (prev ++ batch ++ ps) :: below /\
                Forall2 (fun p kv => fst p = obj_of_atom (fst kv) /\ decode (snd p) = Some (snd kv)) ps ((k, x) :: r) /\
                inv cs' st' /\ next st <= next st').
    { intros st0 p0 Hr0 Hn0 Hi0 Hs0 H0.
      destruct (chk_atom k cs p0) as [[cs2 p2]|] eqn:Ek; [|discriminate].
      destruct (atom_sound w k cs p0 cs2 p2 st0 Ek Hi0) as [sta [Hra [Hsa [Hna Hia]]]].
      destruct (chkf x cs2 p2) as [[cs3 p3]|] eqn:E; [|discriminate].
      destruct (Hx cs2 p2 cs3 p3 E sta Hia) as [o [st1 [Hr1 [Hs1 [Hd1 [Hm1 [_ [Hi1 Hn1]]]]]]]].
      set (batch1 := (batch ++ [(obj_of_atom k, o)])%list).
      assert (Hs1' : stack st1 = (rev (flatten batch1) ++ OMark :: ODict i prev :: below)%list).
      { unfold batch1. rewrite Hs1, Hsa, Hs0, flatten_app, rev_app_distr. reflexivity. }
      assert (Hmk1 : existsb is_mark (flatten batch1) = false).
      { unfold batch1. rewrite flatten_app, existsb_app, Hmk. cbn. rewrite is_mark_atom, Hm1. reflexivity. }
      assert (Hkb1 : map fst batch1 = map obj_of_atom (kb ++ [k])).
      { unfold batch1. rewrite !map_app, Hkb. reflexivity. }
      assert (Hopen : kitems_gen chkf r true cs3 p3 = Some (cs', rest) ->
                exists ps st', run w st prog = run w st' rest /\ stack st' = ODict i (prev ++ batch ++ ps) :: below /\
                  Forall2 (fun p kv => fst p = obj_of_atom (fst kv) /\ decode (snd p) = Some (snd kv)) ps ((k, x) :: r) /\
                  inv cs' st' /\ next st <= next st').
      { intro H'.
        destruct (IH true cs3 p3 cs' rest st1 i prev batch1 below ka (kb ++ [k]) H' Hi1) as [ps [st' [Hr' [Hs' [Hd' [Hi' Hn']]]]]].
        - rewrite Hs1', <- app_assoc. reflexivity.
        - discriminate.
        - exact Hmk1.
        - exact Hka.
        - exact Hkb1.
        - rewrite <- app_assoc. exact Hnd.
        - exact Hb.
        - lia.
        - exists ((obj_of_atom k, o) :: ps), st'. split; [rewrite Hr0, Hra, Hr1; exact Hr'|].
          unfold batch1 in Hs'. rewrite <- app_assoc in Hs'. split; [exact Hs'|].
          split; [constructor; [split; [reflexivity | exact Hd1] | exact Hd']|]. split; [exact Hi' | lia]. }
      destruct p3 as [|q p4]; [apply Hopen; exact H0|].
      destruct q; try (apply Hopen; exact H0).
      destruct (setitems_step w cs3 st1 i prev batch1 below ka (kb ++ [k]) Hi1) as [st2 [Hst2 [Hs2 [Hn2 Hi2]]]].
      + unfold batch1. destruct batch; discriminate.
      + exact Hmk1.
      + exact Hs1'.
      + exact Hka.
      + exact Hkb1.
      + apply (nodup_atoms_prefix _ (map fst r)). rewrite <- !app_assoc. exact Hnd.
      + exact Hb.
      + destruct (IH false cs3 p4 cs' rest st2 i (prev ++ batch1) [] below (ka ++ kb ++ [k]) [] H0 Hi2)
          as [ps [st' [Hr' [Hs' [Hd' [Hi' Hn']]]]]].
        * exact Hs2.
        * reflexivity.
        * reflexivity.
        * rewrite map_app, Hka, Hkb1, <- map_app. reflexivity.
        * reflexivity.
        * cbn [app]. rewrite <- !app_assoc. exact Hnd.
        * exact Hb.
        * lia.
        * exists ((obj_of_atom k, o) :: ps), st'.
          split; [rewrite Hr0, Hra, Hr1, (run_step_next w st1 SETITEMS st2 p4 Hst2); exact Hr'|].
          unfold batch1 in Hs'. cbn [app] in Hs'. rewrite <- !app_assoc in Hs'. split; [exact Hs'|].
          split; [constructor; [split; [reflexivity | exact Hd1] | exact Hd']|]. split; [exact Hi' | lia]. }
    assert (Hsingle : inm = false ->
              match chk_atom k cs prog with
              | Some (cs2, p2) =>
                  match chkf x cs2 p2 with
                  | Some (cs3, p3) => match p3 with SETITEM :: p4 => kitems_gen chkf r false cs3 p4 | _ => None end
                  | None => None
                  end
              | None => None
              end = Some (cs', rest) ->
              exists ps st', run w st prog = run w st' rest /\ stack st' = ODict i (prev ++ batch ++ ps) :: below /\
                Forall2 (fun p kv => fst p = obj_of_atom (fst kv) /\ decode (snd p) = Some (snd kv)) ps ((k, x) :: r) /\
                inv cs' st' /\ next st <= next st').
    { intros Einm H0. subst inm. rewrite (Hbat eq_refl) in *. cbn [app] in Hs. cbn [map] in Hkb.
      assert (Ekb : kb = []) by (destruct kb; [reflexivity | discriminate]). subst kb. cbn [app] in Hnd.
      destruct (chk_atom k cs prog) as [[cs2 p2]|] eqn:Ek; [|discriminate].
      destruct (atom_sound w k cs prog cs2 p2 st Ek Hinv) as [sta [Hra [Hsa [Hna Hia]]]].
      destruct (chkf x cs2 p2) as [[cs3 p3]|] eqn:E; [|discriminate].
      destruct p3 as [|q p4]; [discriminate|]. destruct q; try discriminate.
      destruct (Hx cs2 p2 cs3 _ E sta Hia) as [o [st1 [Hr1 [Hs1 [Hd1 [Hm1 [_ [Hi1 Hn1]]]]]]]].
      destruct (setitem_step w cs3 st1 i prev (obj_of_atom k) o below ka k Hi1 Hm1) as [st2 [Hst2 [Hs2 [Hn2 Hi2]]]].
      + rewrite Hs1, Hsa, Hs. reflexivity.
      + reflexivity.
      + exact Hka.
      + apply (nodup_atoms_prefix _ (map fst r)). rewrite <- app_assoc. exact Hnd.
      + exact Hb.
      + destruct (IH false cs3 p4 cs' rest st2 i (prev ++ [(obj_of_atom k, o)]) [] below (ka ++ [k]) [] H0 Hi2)
          as [ps [st' [Hr' [Hs' [Hd' [Hi' Hn']]]]]].
        * exact Hs2.
        * reflexivity.
        * reflexivity.
        * rewrite !map_app, Hka. reflexivity.
        * reflexivity.
        * cbn [app]. rewrite <- app_assoc. exact Hnd.
        * exact Hb.
        * lia.
        * exists ((obj_of_atom k, o) :: ps), st'.
          split; [rewrite Hra, Hr1, (run_step_next w st1 SETITEM st2 p4 Hst2); exact Hr'|].
          cbn [app] in Hs'. rewrite <- !app_assoc in Hs'. cbn [app]. split; [exact Hs'|].
          split; [constructor; [split; [reflexivity | exact Hd1] | exact Hd']|]. split; [exact Hi' | lia]. }
    destruct inm.
    + apply (Hbatch st prog); [reflexivity | reflexivity | exact Hinv | | exact H].
      rewrite Hs, <- app_assoc. reflexivity.
    + destruct prog as [|q p]; [apply Hsingle; [reflexivity | exact H]|].
      destruct q; try (apply Hsingle; [reflexivity | exact H]).
      rewrite (Hbat eq_refl) in *.
      apply (Hbatch (push OMark st) p); [| reflexivity | | | exact H].
      * apply run_step_next. reflexivity.
      * apply inv_push; [exact Hinv | reflexivity].
      * cbn. rewrite Hs. reflexivity.
Qed.

(** * the cases of the main theorem *)

Definition vres (w : world) (v : pv) (cs' : cstate) (st : state) (prog rest : list op) : Prop :=
  exists o st', run w st prog = run w st' rest /\ stack st' = o :: stack st /\ decode o = Some v /\
    is_mark o = false /\ (idfree v = true -> o = canon_obj v) /\ inv cs' st' /\ next st <= next st'.

Lemma get_case : forall w v cs p r st,
  (match get_index p with Some i => chk_get cs v i | None => false end) = true -> inv cs st ->
  vres w v cs st (p :: r) r.
Proof.
  intros w v cs p r st Eg Hinv. destruct (get_index p) as [i|] eqn:Ei; [|discriminate].
  destruct (get_sound w cs v i st p Ei Eg Hinv) as [Hs Hf].
  exists (canon_obj v), (push (canon_obj v) st).
  split; [apply run_step_next; exact Hs|]. split; [reflexivity|]. split; [apply canon_decode; exact Hf|].
  split; [apply noids_not_mark; apply canon_noids; exact Hf|]. split; [reflexivity|].
  split; [apply inv_push; [exact Hinv | apply canon_below; exact Hf] | cbn; lia].
Qed.

Lemma atom_case : forall w a cs prog cs' rest st,
  chk_atom a cs prog = Some (cs', rest) -> inv cs st -> vres w (PAtom a) cs' st prog rest.
Proof.
  intros w a cs prog cs' rest st H Hinv.
  destruct (atom_sound w a cs prog cs' rest st H Hinv) as [st' [Hr [Hs [Hn Hi]]]].
  exists (obj_of_atom a), st'. split; [exact Hr|]. split; [exact Hs|]. split; [apply decode_obj_of_atom|].
  split; [apply is_mark_atom|]. split; [reflexivity|]. split; [exact Hi | lia].
Qed.

(* an object has just been pushed by one step; an optional put follows *)
Lemma pushed_then_put : forall w v cs p r cs' rest st st1 o,
  step w st p = SNext st1 -> stack st1 = o :: stack st -> next st <= next st1 -> inv cs st1 ->
  chk_put cs v r = Some (cs', rest) ->
  decode o = Some v -> is_mark o = false -> (idfree v = true -> o = canon_obj v) ->
  vres w v cs' st (p :: r) rest.
Proof.
  intros w v cs p r cs' rest st st1 o Hstep Hs1 Hn1 Hi1 Hput Hd Hm Hc.
  destruct (put_sound w cs v r cs' rest st1 o (stack st) Hput Hi1 Hs1 Hm Hc) as [st2 [Hr2 [Hs2 [Hn2 Hi2]]]].
  exists o, st2. split; [rewrite (run_step_next w st p st1 r Hstep); exact Hr2|].
  split; [rewrite Hs2; exact Hs1|]. split; [exact Hd|]. split; [exact Hm|]. split; [exact Hc|]. split; [exact Hi2 | lia].
Qed.

Lemma put_after : forall w v prog p1 cs1 cs' rest st st1 o,
  run w st prog = run w st1 p1 -> stack st1 = o :: stack st -> next st <= next st1 -> inv cs1 st1 ->
  chk_put cs1 v p1 = Some (cs', rest) ->
  decode o = Some v -> is_mark o = false -> (idfree v = true -> o = canon_obj v) ->
  vres w v cs' st prog rest.
Proof.
  intros w v prog p1 cs1 cs' rest st st1 o Hrun Hs1 Hn1 Hi1 Hput Hd Hm Hc.
  destruct (put_sound w cs1 v p1 cs' rest st1 o (stack st) Hput Hi1 Hs1 Hm Hc) as [st2 [Hr2 [Hs2 [Hn2 Hi2]]]].
  exists o, st2. split; [rewrite Hrun; exact Hr2|].
  split; [rewrite Hs2; exact Hs1|]. split; [exact Hd|]. split; [exact Hm|]. split; [exact Hc|]. split; [exact Hi2 | lia].
Qed.

Lemma Forall2_decode_length : forall os (xs : list pv), Forall2 (fun o v => decode o = Some v) os xs ->
  List.length os = List.length xs.
Proof. intros os xs H. induction H; cbn; [reflexivity | rewrite IHForall2; reflexivity]. Qed.

Lemma tuple_case : forall w xs, Forall (member_sound w chk) xs ->
  forall cs prog cs' rest st, chk (PTuple xs) cs prog = Some (cs', rest) -> inv cs st ->
  vres w (PTuple xs) cs' st prog rest.
Proof.
  intros w xs HF cs prog cs' rest st H Hinv. destruct prog as [|p r]; [discriminate|]. cbn [chk] in H.
  destruct (match get_index p with Some i => chk_get cs (PTuple xs) i | None => false end) eqn:Eg.
  { inversion H; subst. apply get_case; assumption. }
  (* what is common once the tuple object is on the stack *)
  assert (Hfin : forall cs1 p1 st1 os, run w st (p :: r) = run w st1 p1 -> stack st1 = OTuple os :: stack st ->
            next st <= next st1 -> inv cs1 st1 -> Forall2 (fun o v => decode o = Some v) os xs ->
            (forallb idfree xs = true -> os = map canon_obj xs) ->
            chk_put cs1 (PTuple xs) p1 = Some (cs', rest) -> vres w (PTuple xs) cs' st (p :: r) rest).
  { intros cs1 p1 st1 os Hrun Hs1 Hn1 Hi1 Hd Hc Hput.
    apply (put_after w (PTuple xs) (p :: r) p1 cs1 cs' rest st st1 (OTuple os)); try assumption.
    - rewrite decode_tuple_eq, (all_some_map_decode _ _ Hd). reflexivity.
    - reflexivity.
    - intro Hf. cbn [idfree] in Hf. cbn [canon_obj]. rewrite (Hc Hf). reflexivity. }
  (* TUPLE1 / TUPLE2 / TUPLE3 *)
  assert (Hsmall : match seq_gen chk xs cs (p :: r) with
                   | Some (cs1, TUPLE1 :: p1) => if Nat.eqb (List.length xs) 1 then chk_put cs1 (PTuple xs) p1 else None
                   | Some (cs1, TUPLE2 :: p1) => if Nat.eqb (List.length xs) 2 then chk_put cs1 (PTuple xs) p1 else None
                   | Some (cs1, TUPLE3 :: p1) => if Nat.eqb (List.length xs) 3 then chk_put cs1 (PTuple xs) p1 else None
                   | _ => None
                   end = Some (cs', rest) -> vres w (PTuple xs) cs' st (p :: r) rest).
  { intro H0. destruct (seq_gen chk xs cs (p :: r)) as [[cs1 pp]|] eqn:Es; [|discriminate].
    destruct (seq_sound w chk xs HF cs (p :: r) cs1 pp st Es Hinv) as [os [st1 [Hr1 [Hs1 [Hd1 [Hm1 [Hc1 [Hi1 Hn1]]]]]]]].
    pose proof (Forall2_decode_length _ _ Hd1) as Hlen.
    destruct pp as [|q p1]; [discriminate|]. destruct q; try discriminate.
    - (* TUPLE1 *) destruct (Nat.eqb (List.length xs) 1) eqn:El; [|discriminate]. apply Nat.eqb_eq in El.
      rewrite El in Hlen. destruct os as [|a [|b os']]; try discriminate.
      cbn in Hm1. apply orb_false_iff in Hm1. destruct Hm1 as [Ma _].
      set (st2 := set_stack st1 (OTuple [a] :: stack st)).
      apply (Hfin cs1 p1 st2 [a]); try assumption; try reflexivity.
      + rewrite Hr1. apply run_step_next. cbn [step]. rewrite Hs1. cbn [rev app pop1]. rewrite Ma. reflexivity.
      + apply inv_set_stack_sub; [exact Hi1|]. destruct Hi1 as [[Hst _] _]. rewrite Hs1 in Hst. cbn in Hst. cbn. rewrite andb_true_r. exact Hst.
    - (* TUPLE2 *) destruct (Nat.eqb (List.length xs) 2) eqn:El; [|discriminate]. apply Nat.eqb_eq in El.
      rewrite El in Hlen. destruct os as [|a [|b [|c os']]]; try discriminate.
      cbn in Hm1. apply orb_false_iff in Hm1. destruct Hm1 as [Ma Hm1]. apply orb_false_iff in Hm1. destruct Hm1 as [Mb _].
      set (st2 := set_stack st1 (OTuple [a; b] :: stack st)).
      apply (Hfin cs1 p1 st2 [a; b]); try assumption; try reflexivity.
      + rewrite Hr1. apply run_step_next. cbn [step]. rewrite Hs1. cbn [rev app pop1]. rewrite Mb. cbn [pop1]. rewrite Ma. reflexivity.
      + apply inv_set_stack_sub; [exact Hi1|]. destruct Hi1 as [[Hst _] _]. rewrite Hs1 in Hst. cbn in Hst.
        apply andb_true_iff in Hst. destruct Hst as [Hb' Hst]. apply andb_true_iff in Hst. destruct Hst as [Ha' Hst].
        cbn. rewrite Ha', Hb', Hst. reflexivity.
    - (* TUPLE3 *) destruct (Nat.eqb (List.length xs) 3) eqn:El; [|discriminate]. apply Nat.eqb_eq in El.
      rewrite El in Hlen. destruct os as [|a [|b [|c [|d os']]]]; try discriminate.
      cbn in Hm1. apply orb_false_iff in Hm1. destruct Hm1 as [Ma Hm1]. apply orb_false_iff in Hm1. destruct Hm1 as [Mb Hm1].
      apply orb_false_iff in Hm1. destruct Hm1 as [Mc _].
      set (st2 := set_stack st1 (OTuple [a; b; c] :: stack st)).
      apply (Hfin cs1 p1 st2 [a; b; c]); try assumption; try reflexivity.
      + rewrite Hr1. apply run_step_next. cbn [step]. rewrite Hs1. cbn [rev app pop1]. rewrite Mc. cbn [pop1]. rewrite Mb.
        cbn [pop1]. rewrite Ma. reflexivity.
      + apply inv_set_stack_sub; [exact Hi1|]. destruct Hi1 as [[Hst _] _]. rewrite Hs1 in Hst. cbn in Hst.
        apply andb_true_iff in Hst. destruct Hst as [Hc' Hst]. apply andb_true_iff in Hst. destruct Hst as [Hb' Hst].
        apply andb_true_iff in Hst. destruct Hst as [Ha' Hst].
        cbn. rewrite Ha', Hb', Hc', Hst. reflexivity. }
  destruct p; try (apply Hsmall; exact H).
  - (* MARK: the tuple's own mark, or the first member's *)
    destruct (seq_gen chk xs cs r) as [[cs1 pp]|] eqn:Es; [|apply Hsmall; exact H].
    destruct pp as [|q p1]; [apply Hsmall; exact H|]. destruct q; try (apply Hsmall; exact H).
    assert (Hi0 : inv cs (push OMark st)) by (apply inv_push; [exact Hinv | reflexivity]).
    destruct (seq_sound w chk xs HF cs r cs1 _ (push OMark st) Es Hi0) as [os [st1 [Hr1 [Hs1 [Hd1 [Hm1 [Hc1 [Hi1 Hn1]]]]]]]].
    set (st2 := set_stack st1 (OTuple os :: stack st)).
    apply (Hfin cs1 p1 st2 os); try assumption; try reflexivity.
    + rewrite (run_step_next w st MARK (push OMark st) r eq_refl), Hr1. apply run_step_next.
      cbn [step]. unfold with_mark. rewrite Hs1. cbn [push set_stack stack]. rewrite (to_mark_rev os _ Hm1). reflexivity.
    + apply inv_set_stack_sub; [exact Hi1|]. destruct Hi1 as [[Hst _] _]. rewrite Hs1 in Hst. cbn [push set_stack stack] in Hst.
      apply forallb_app_split in Hst. destruct Hst as [Ho Hst]. rewrite forallb_rev' in Ho. cbn in Hst.
      cbn [forallb ids_below]. rewrite Ho. exact Hst.
  - (* EMPTY_TUPLE *)
    destruct xs as [|x xs']; [|discriminate].
    apply (pushed_then_put w (PTuple []) cs EMPTY_TUPLE r cs' rest st (push (OTuple []) st) (OTuple [])); try reflexivity; try assumption.
Qed.

Lemma list_case : forall w xs, Forall (member_sound w chk) xs ->
  forall cs prog cs' rest st, chk (PList xs) cs prog = Some (cs', rest) -> inv cs st ->
  vres w (PList xs) cs' st prog rest.
Proof.
  intros w xs HF cs prog cs' rest st H Hinv. destruct prog as [|p r]; [discriminate|]. cbn [chk] in H.
  destruct (match get_index p with Some i => chk_get cs (PList xs) i | None => false end) eqn:Eg.
  { inversion H; subst. apply get_case; assumption. }
  destruct p; try discriminate.
  destruct (chk_put cs (PList xs) r) as [[cs1 p1]|] eqn:Ep; [|discriminate].
  set (i := next st).
  set (st1 := fresh (push (OList i []) st)).
  assert (Hi1 : inv cs st1).
  { unfold st1, fresh, push, set_stack. cbn [stack memo next ecache trace]. apply inv_stack; [exact Hinv | lia|].
    cbn [forallb ids_below]. rewrite andb_true_r. destruct Hinv as [[Hs _] _].
    rewrite (ids_below_all_mono (next st) (S (next st)) _ (Nat.le_succ_diag_r _) Hs), andb_true_r. apply Nat.ltb_lt. unfold i. lia. }
  destruct (put_sound w cs (PList xs) r cs1 p1 st1 (OList i []) (stack st) Ep Hi1 eq_refl eq_refl)
    as [st2 [Hr2 [Hs2 [Hn2 Hi2]]]]; [intro; discriminate|].
  destruct Hinv as [[Hs0 Hm0] Hrest0].
  destruct (items_sound w chk xs HF false cs1 p1 cs' rest st2 i [] [] (stack st) H Hi2) as [os [st3 [Hr3 [Hs3 [Hd3 [Hi3 Hn3]]]]]].
  - rewrite Hs2. reflexivity.
  - reflexivity.
  - reflexivity.
  - exact Hs0.
  - rewrite Hn2. unfold st1, i. cbn. lia.
  - exists (OList i os), st3. cbn [app] in Hs3.
    split; [rewrite (run_step_next w st EMPTY_LIST st1 r eq_refl), Hr2; exact Hr3|].
    split; [exact Hs3|]. split; [rewrite decode_list_eq, (all_some_map_decode _ _ Hd3); reflexivity|].
    split; [reflexivity|]. split; [intro; discriminate|]. split; [exact Hi3|].
    rewrite Hn2 in Hn3. unfold st1 in Hn3. cbn in Hn3. lia.
Qed.

Lemma dict_case : forall w (kvs : list (atom * pv)), Forall (fun kv => member_sound w chk (snd kv)) kvs ->
  nodup_atoms (map fst kvs) = true ->
  forall cs prog cs' rest st, chk (PDict kvs) cs prog = Some (cs', rest) -> inv cs st ->
  vres w (PDict kvs) cs' st prog rest.
Proof.
  intros w kvs HF Hnd cs prog cs' rest st H Hinv. destruct prog as [|p r]; [discriminate|]. cbn [chk] in H.
  destruct (match get_index p with Some i => chk_get cs (PDict kvs) i | None => false end) eqn:Eg.
  { inversion H; subst. apply get_case; assumption. }
  destruct p; try discriminate.
  destruct (chk_put cs (PDict kvs) r) as [[cs1 p1]|] eqn:Ep; [|discriminate].
  set (i := next st).
  set (st1 := fresh (push (ODict i []) st)).
  assert (Hi1 : inv cs st1).
  { unfold st1, fresh, push, set_stack. cbn [stack memo next ecache trace]. apply inv_stack; [exact Hinv | lia|].
    cbn [forallb ids_below]. rewrite andb_true_r. destruct Hinv as [[Hs _] _].
    rewrite (ids_below_all_mono (next st) (S (next st)) _ (Nat.le_succ_diag_r _) Hs), andb_true_r. apply Nat.ltb_lt. unfold i. lia. }
  destruct (put_sound w cs (PDict kvs) r cs1 p1 st1 (ODict i []) (stack st) Ep Hi1 eq_refl eq_refl)
    as [st2 [Hr2 [Hs2 [Hn2 Hi2]]]]; [intro; discriminate|].
  destruct Hinv as [[Hs0 Hm0] Hrest0].
  destruct (kitems_sound w chk kvs HF false cs1 p1 cs' rest st2 i [] [] (stack st) [] [] H Hi2)
    as [ps [st3 [Hr3 [Hs3 [Hd3 [Hi3 Hn3]]]]]].
  - rewrite Hs2. reflexivity.
  - reflexivity.
  - reflexivity.
  - reflexivity.
  - reflexivity.
  - exact Hnd.
  - exact Hs0.
  - rewrite Hn2. unfold st1, i. cbn. lia.
  - exists (ODict i ps), st3. cbn [app] in Hs3. destruct (kvs_keys _ _ Hd3) as [_ Hdec].
    split; [rewrite (run_step_next w st EMPTY_DICT st1 r eq_refl), Hr2; exact Hr3|].
    split; [exact Hs3|]. split; [rewrite decode_dict_eq, Hdec; reflexivity|].
    split; [reflexivity|]. split; [intro; discriminate|]. split; [exact Hi3|].
    rewrite Hn2 in Hn3. unfold st1 in Hn3. cbn in Hn3. lia.
Qed.

Lemma set_case : forall w xs, nodup_atoms xs = true ->
  forall cs prog cs' rest st, chk (PSet xs) cs prog = Some (cs', rest) -> inv cs st ->
  vres w (PSet xs) cs' st prog rest.
Proof.
  intros w xs Hnd cs prog cs' rest st H Hinv. destruct prog as [|p r]; [discriminate|]. cbn [chk] in H.
  destruct (match get_index p with Some i => chk_get cs (PSet xs) i | None => false end) eqn:Eg.
  { inversion H; subst. apply get_case; assumption. }
  destruct p; try discriminate.
  destruct (chk_put cs (PSet xs) r) as [[cs1 p1]|] eqn:Ep; [|discriminate].
  set (i := next st).
  set (st1 := fresh (push (OSet i []) st)).
  assert (Hi1 : inv cs st1).
  { unfold st1, fresh, push, set_stack. cbn [stack memo next ecache trace]. apply inv_stack; [exact Hinv | lia|].
    cbn [forallb ids_below]. rewrite andb_true_r. destruct Hinv as [[Hs _] _].
    rewrite (ids_below_all_mono (next st) (S (next st)) _ (Nat.le_succ_diag_r _) Hs), andb_true_r. apply Nat.ltb_lt. unfold i. lia. }
  destruct (put_sound w cs (PSet xs) r cs1 p1 st1 (OSet i []) (stack st) Ep Hi1 eq_refl eq_refl)
    as [st2 [Hr2 [Hs2 [Hn2 Hi2]]]]; [intro; discriminate|].
  destruct Hinv as [[Hs0 Hm0] Hrest0].
  destruct (set_items_sound w xs false cs1 p1 cs' rest st2 i [] [] (stack st) H Hi2) as [st3 [Hr3 [Hs3 [Hn3 Hi3]]]].
  - rewrite Hs2. reflexivity.
  - reflexivity.
  - exact Hnd.
  - exact Hs0.
  - rewrite Hn2. unfold st1, i. cbn. lia.
  - exists (OSet i (map obj_of_atom xs)), st3. cbn [app] in Hs3.
    split; [rewrite (run_step_next w st EMPTY_SET st1 r eq_refl), Hr2; exact Hr3|].
    split; [exact Hs3|]. split; [apply decode_set_atoms|].
    split; [reflexivity|]. split; [intro; discriminate|]. split; [exact Hi3|].
    rewrite Hn3, Hn2. unfold st1. cbn. lia.
Qed.

Lemma frozen_case : forall w xs, nodup_atoms xs = true ->
  forall cs prog cs' rest st, chk (PFrozen xs) cs prog = Some (cs', rest) -> inv cs st ->
  vres w (PFrozen xs) cs' st prog rest.
Proof.
  intros w xs Hnd cs prog cs' rest st H Hinv. destruct prog as [|p r]; [discriminate|]. cbn [chk] in H.
  destruct (match get_index p with Some i => chk_get cs (PFrozen xs) i | None => false end) eqn:Eg.
  { inversion H; subst. apply get_case; assumption. }
  destruct p; try discriminate.
  destruct (chk_atoms xs cs r) as [[cs1 pp]|] eqn:Ea; [|discriminate].
  destruct pp as [|q p1]; [discriminate|]. destruct q; try discriminate.
  assert (Hi0 : inv cs (push OMark st)) by (apply inv_push; [exact Hinv | reflexivity]).
  destruct (atoms_sound w xs cs r cs1 _ (push OMark st) Ea Hi0) as [st1 [Hr1 [Hs1 [Hn1 Hi1]]]].
  set (o := OFrozen (map obj_of_atom xs)).
  set (st2 := set_stack st1 (o :: stack st)).
  apply (put_after w (PFrozen xs) (MARK :: r) p1 cs1 cs' rest st st2 o); try reflexivity; try assumption.
  - rewrite (run_step_next w st MARK (push OMark st) r eq_refl), Hr1. apply run_step_next.
    cbn [step]. unfold with_mark. rewrite Hs1. cbn [push set_stack stack]. rewrite (to_mark_rev _ _ (no_mark_atoms xs)).
    pose proof (set_add_all_atoms xs [] Hnd) as E. cbn [map app] in E. rewrite E. reflexivity.
  - unfold st2. cbn [set_stack next]. rewrite Hn1. cbn. lia.
  - apply inv_set_stack_sub; [exact Hi1|]. destruct Hi1 as [[Hst _] _]. rewrite Hs1 in Hst. cbn [push set_stack stack] in Hst.
    apply forallb_app_split in Hst. destruct Hst as [_ Hst]. cbn in Hst.
    cbn [forallb ids_below o]. rewrite ids_below_atoms. exact Hst.
  - apply decode_frozen_atoms.
Qed.

Lemma floatbits_case : forall w b cs prog cs' rest st,
  chk (PFloatBits b) cs prog = Some (cs', rest) -> inv cs st -> vres w (PFloatBits b) cs' st prog rest.
Proof.
  intros w b cs prog cs' rest st H Hinv. destruct prog as [|p r]; [discriminate|]. cbn [chk] in H.
  destruct (match get_index p with Some i => chk_get cs (PFloatBits b) i | None => false end) eqn:Eg.
  { inversion H; subst. apply get_case; assumption. }
  destruct p; try discriminate; destruct f; try discriminate;
    (destruct (Z.eqb bits b) eqn:Eb; [|discriminate]; apply Z.eqb_eq in Eb; subst bits;
     apply (pushed_then_put w (PFloatBits b) cs _ r cs' rest st (push (OFloat (FBits b)) st) (OFloat (FBits b)));
     try reflexivity; try assumption).
Qed.

Lemma nonetype_case : forall w cs prog cs' rest st,
  chk PNoneType cs prog = Some (cs', rest) -> inv cs st -> vres w PNoneType cs' st prog rest.
Proof.
  intros w cs prog cs' rest st H Hinv. destruct prog as [|p r]; [discriminate|]. cbn [chk] in H.
  destruct (match get_index p with Some i => chk_get cs PNoneType i | None => false end) eqn:Eg.
  { inversion H; subst. apply get_case; assumption. }
  assert (Hdef : match chk_atom (AStr NONE_TYPE_PID) cs (p :: r) with
                 | Some (cs1, BINPERSID :: p1) => Some (cs1, p1)
                 | _ => None
                 end = Some (cs', rest) -> vres w PNoneType cs' st (p :: r) rest).
  { intro H0. destruct (chk_atom (AStr NONE_TYPE_PID) cs (p :: r)) as [[cs1 pp]|] eqn:Ea; [|discriminate].
    destruct pp as [|q p1]; [discriminate|]. destruct q; try discriminate. inversion H0; subst cs1 p1.
    destruct (atom_sound w _ cs (p :: r) cs' _ st Ea Hinv) as [st1 [Hr1 [Hs1 [Hn1 Hi1]]]]. cbn [obj_of_atom] in Hs1.
    exists ONoneType, (set_stack (emit (EPersist (OStr NONE_TYPE_PID)) st1) (ONoneType :: stack st)).
    split; [rewrite Hr1; apply run_step_next; cbn [step]; rewrite Hs1; cbn [pop1 is_mark persistent_load];
            rewrite pystr_eqb_refl; reflexivity|].
    split; [reflexivity|]. split; [reflexivity|]. split; [reflexivity|]. split; [reflexivity|].
    split; [|cbn; lia].
    apply inv_set_stack_sub; [apply inv_emit; exact Hi1|]. destruct Hi1 as [[Hst _] _]. rewrite Hs1 in Hst. cbn in Hst. exact Hst. }
  destruct p; try (apply Hdef; exact H).
  (* PERSID *)
  destruct (pystr_eqb s NONE_TYPE_PID) eqn:Es; [|discriminate]. inversion H; subst cs' rest.
  apply pystr_eqb_eq in Es. subst s.
  exists ONoneType, (push ONoneType (emit (EPersist (OStr NONE_TYPE_PID)) st)).
  split; [apply run_step_next; cbn [step persistent_load]; rewrite pystr_eqb_refl; reflexivity|].
  split; [reflexivity|]. split; [reflexivity|]. split; [reflexivity|]. split; [reflexivity|].
  split; [apply inv_push; [apply inv_emit; exact Hinv | reflexivity] | cbn; lia].
Qed.

Lemma opcode_case : forall w tag i1 i2 j1 j2 old new,
  calls_ok w -> find_class w HELPER OPCODE = FCResolved GType ->
  member_sound w chk old -> member_sound w chk new ->
  forall cs prog cs' rest st, chk (POpcode tag i1 i2 j1 j2 old new) cs prog = Some (cs', rest) -> inv cs st ->
  vres w (POpcode tag i1 i2 j1 j2 old new) cs' st prog rest.
Proof.
  intros w tag i1 i2 j1 j2 old new Hco Hfc Hold Hnew cs prog cs' rest st H Hinv.
  destruct prog as [|p r]; [discriminate|]. cbn [chk] in H.
  destruct (match get_index p with Some i => chk_get cs (POpcode tag i1 i2 j1 j2 old new) i | None => false end) eqn:Eg.
  { inversion H; subst. apply get_case; assumption. }
  destruct (chk_type HELPER OPCODE cs (p :: r)) as [[cs1 pp]|] eqn:Et; [|discriminate].
  destruct pp as [|q p1]; [discriminate|]. destruct q; try discriminate.
  destruct (chk_atoms [AStr tag; AInt i1; AInt i2; AInt j1; AInt j2] cs1 p1) as [[cs2 p2]|] eqn:Ea; [|discriminate].
  destruct (chk old cs2 p2) as [[cs3 p3]|] eqn:Eo; [|discriminate].
  destruct (chk new cs3 p3) as [[cs4 pp4]|] eqn:En; [|discriminate].
  destruct pp4 as [|q p4]; [discriminate|]. destruct q; try discriminate.
  destruct (chk_put cs4 (opcode_args tag i1 i2 j1 j2 old new) p4) as [[cs5 pp5]|] eqn:Ep; [|discriminate].
  destruct pp5 as [|q p5]; [discriminate|]. destruct q; try discriminate.
  set (cls := OGlobal HELPER OPCODE GType).
  destruct (type_sound w HELPER OPCODE cs (p :: r) cs1 _ st Et Hinv Hfc) as [st1 [Hr1 [Hs1 [Hn1 Hi1]]]].
  assert (Hi1' : inv cs1 (push OMark st1)) by (apply inv_push; [exact Hi1 | reflexivity]).
  destruct (atoms_sound w _ cs1 p1 cs2 p2 (push OMark st1) Ea Hi1') as [st2 [Hr2 [Hs2 [Hn2 Hi2]]]].
  destruct (Hold cs2 p2 cs3 p3 Eo st2 Hi2) as [o1 [st3 [Hr3 [Hs3 [Hd3 [Hm3 [Hc3 [Hi3 Hn3]]]]]]]].
  destruct (Hnew cs3 p3 cs4 _ En st3 Hi3) as [o2 [st4 [Hr4 [Hs4 [Hd4 [Hm4 [Hc4 [Hi4 Hn4]]]]]]]].
  set (args := OTuple [OStr tag; OInt i1; OInt i2; OInt j1; OInt j2; o1; o2]).
  (* TUPLE *)
  assert (Hs4' : stack st4 = (rev [OStr tag; OInt i1; OInt i2; OInt j1; OInt j2; o1; o2] ++ OMark :: cls :: stack st)%list).
  { rewrite Hs4, Hs3, Hs2. cbn [push set_stack stack map obj_of_atom rev app]. rewrite Hs1. reflexivity. }
  set (st5 := set_stack st4 (args :: cls :: stack st)).
  assert (H5 : step w st4 TUPLE = SNext st5).
  { cbn [step]. unfold with_mark. rewrite Hs4', to_mark_rev; [reflexivity|]. cbn. rewrite Hm3, Hm4. reflexivity. }
  assert (Hi5 : inv cs4 st5).
  { apply inv_set_stack_sub; [exact Hi4|]. destruct Hi4 as [[Hst _] _]. rewrite Hs4' in Hst. cbn in Hst.
    repeat (apply andb_true_iff in Hst; destruct Hst as [? Hst]).
    cbn. repeat match goal with E : ids_below _ _ = true |- _ => rewrite E; clear E end. exact Hst. }
  assert (Hd5 : decode args = Some (opcode_args tag i1 i2 j1 j2 old new)).
  { unfold args, opcode_args. rewrite decode_tuple_eq. cbn [map all_some decode atom_of_obj option_map]. rewrite Hd3, Hd4. reflexivity. }
  destruct (put_sound w cs4 (opcode_args tag i1 i2 j1 j2 old new) p4 cs5 _ st5 args (cls :: stack st) Ep Hi5 eq_refl eq_refl)
    as [st6 [Hr6 [Hs6 [Hn6 Hi6]]]].
  { intro Hf. unfold opcode_args in Hf. cbn [idfree forallb andb] in Hf.
    apply andb_true_iff in Hf. destruct Hf as [F1 Hf]. apply andb_true_iff in Hf. destruct Hf as [F2 _].
    unfold args, opcode_args. cbn [canon_obj map obj_of_atom]. rewrite (Hc3 F1), (Hc4 F2). reflexivity. }
  (* NEWOBJ *)
  set (inst := OInst (next st6) KNewobj cls args []).
  set (st7 := fresh (set_stack (emit (ECall KNewobj cls args) (set_stack st6 (stack st))) (inst :: stack st))).
  assert (H7 : step w st6 NEWOBJ = SNext st7).
  { cbn [step]. rewrite Hs6. unfold st5. cbn [set_stack stack pop1 is_mark args cls is_type].
    unfold do_call. rewrite (co_opcode w Hco). reflexivity. }
  assert (Hn7 : next st <= next st6).
  { rewrite Hn6. unfold st5. cbn [set_stack next]. cbn [push set_stack next] in Hn2. lia. }
  assert (Hi7 : inv cs5 st7).
  { unfold st7, fresh, set_stack, emit. cbn [stack memo next ecache trace]. apply inv_stack; [exact Hi6 | lia|].
    destruct Hi6 as [[Hst _] _]. rewrite Hs6 in Hst. unfold st5 in Hst. cbn [set_stack stack forallb] in Hst.
    apply andb_true_iff in Hst. destruct Hst as [Ha Hst]. apply andb_true_iff in Hst. destruct Hst as [_ Hst].
    cbn [forallb ids_below inst cls]. rewrite (ids_below_mono _ _ (Nat.le_succ_diag_r _) _ Ha).
    rewrite (ids_below_all_mono _ _ _ (Nat.le_succ_diag_r _) Hst). rewrite !andb_true_r. apply Nat.ltb_lt. lia. }
  apply (put_after w _ (p :: r) p5 cs5 cs' rest st st7 inst); try assumption.
  - rewrite Hr1, (run_step_next w st1 MARK (push OMark st1) p1 eq_refl), Hr2, Hr3, Hr4,
      (run_step_next w st4 TUPLE st5 p4 H5), Hr6. apply run_step_next. exact H7.
  - reflexivity.
  - unfold st7. cbn [fresh set_stack emit next]. lia.
  - unfold inst, cls, args. cbn [decode]. rewrite !pystr_eqb_refl. cbn [andb]. rewrite Hd3, Hd4. reflexivity.
  - reflexivity.
  - intro; discriminate.
Qed.

Lemma setordered_case : forall w xs, calls_ok w -> find_class w HELPER SETORDERED = FCResolved GType ->
  Forall (member_sound w chk) xs ->
  forall cs prog cs' rest st, chk (PSetOrdered xs) cs prog = Some (cs', rest) -> inv cs st ->
  vres w (PSetOrdered xs) cs' st prog rest.
Proof.
  intros w xs Hco Hfc HF cs prog cs' rest st H Hinv. destruct prog as [|p r]; [discriminate|]. cbn [chk] in H.
  destruct (match get_index p with Some i => chk_get cs (PSetOrdered xs) i | None => false end) eqn:Eg.
  { inversion H; subst. apply get_case; assumption. }
  destruct (chk_type HELPER SETORDERED cs (p :: r)) as [[cs1 pp]|] eqn:Et; [|discriminate].
  destruct pp as [|q pp]; [discriminate|]. destruct q; try discriminate.
  destruct pp as [|q p1]; [discriminate|]. destruct q; try discriminate.
  destruct (chk_put cs1 (PSetOrdered xs) p1) as [[cs2 pp2]|] eqn:Ep1; [|discriminate].
  destruct pp2 as [|q p2]; [discriminate|]. destruct q; try discriminate.
  destruct (chk_put cs2 (PList xs) p2) as [[cs3 p3]|] eqn:Ep2; [|discriminate].
  destruct (items_gen chk xs false cs3 p3) as [[cs4 pp4]|] eqn:Ei; [|discriminate].
  destruct pp4 as [|q p4]; [discriminate|]. destruct q; try discriminate. inversion H; subst cs4 p4. clear H.
  set (cls := OGlobal HELPER SETORDERED GType).
  destruct (type_sound w HELPER SETORDERED cs (p :: r) cs1 _ st Et Hinv Hfc) as [st1 [Hr1 [Hs1 [Hn1 Hi1]]]].
  (* EMPTY_TUPLE; NEWOBJ *)
  set (j := next st1).
  set (inst0 := OInst j KNewobj cls (OTuple []) []).
  set (st2 := fresh (set_stack (emit (ECall KNewobj cls (OTuple [])) (set_stack (push (OTuple []) st1) (stack st))) (inst0 :: stack st))).
  assert (H2 : step w (push (OTuple []) st1) NEWOBJ = SNext st2).
  { cbn [step push set_stack stack pop1 is_mark]. rewrite Hs1. cbn [pop1 is_mark cls is_type].
    unfold do_call. rewrite (co_setordered w Hco). reflexivity. }
  destruct Hinv as [[Hs0 Hm0] Hrest0].
  assert (Hi2 : inv cs1 st2).
  { unfold st2, fresh, push, emit, set_stack. cbn [stack memo next ecache trace]. apply inv_stack; [exact Hi1 | lia|].
    cbn [forallb ids_below inst0 cls]. rewrite !andb_true_r.
    rewrite (ids_below_all_mono (next st) (S (next st1)) _ ltac:(lia) Hs0), andb_true_r. apply Nat.ltb_lt. unfold j. lia. }
  destruct (put_sound w cs1 (PSetOrdered xs) p1 cs2 _ st2 inst0 (stack st) Ep1 Hi2 eq_refl eq_refl)
    as [st3 [Hr3 [Hs3 [Hn3 Hi3]]]]; [intro; discriminate|].
  (* EMPTY_LIST *)
  set (i := next st3).
  set (st4 := fresh (push (OList i []) st3)).
  assert (Hi4 : inv cs2 st4).
  { unfold st4, fresh, push, set_stack. cbn [stack memo next ecache trace]. apply inv_stack; [exact Hi3 | lia|].
    cbn [forallb ids_below]. rewrite andb_true_r. destruct Hi3 as [[Hs _] _].
    rewrite (ids_below_all_mono (next st3) (S (next st3)) _ (Nat.le_succ_diag_r _) Hs), andb_true_r. apply Nat.ltb_lt. unfold i. lia. }
  destruct (put_sound w cs2 (PList xs) p2 cs3 p3 st4 (OList i []) (stack st3) Ep2 Hi4 eq_refl eq_refl)
    as [st5 [Hr5 [Hs5 [Hn5 Hi5]]]]; [intro; discriminate|].
  assert (Hn3' : next st3 = S j) by (rewrite Hn3; unfold st2; cbn; reflexivity).
  destruct (items_sound w chk xs HF false cs3 p3 cs' _ st5 i [] [] (stack st3) Ei Hi5) as [os [st6 [Hr6 [Hs6 [Hd6 [Hi6 Hn6]]]]]].
  - rewrite Hs5. reflexivity.
  - reflexivity.
  - reflexivity.
  - destruct Hi3 as [[Hs _] _]. exact Hs.
  - rewrite Hn5. unfold st4, i. cbn. lia.
  - cbn [app] in Hs6. rewrite Hs3 in Hs6. unfold st2 in Hs6. cbn [fresh set_stack stack] in Hs6.
    (* BUILD *)
    set (lst := OList i os).
    set (c := OInst j KNewobj cls (OTuple []) [lst]).
    set (st7 := mutate j c (emit (EBuild inst0 lst) (set_stack st6 (inst0 :: stack st)))).
    assert (H7 : step w st6 BUILD = SNext st7).
    { cbn [step]. rewrite Hs6. unfold lst, inst0, cls. cbn [pop1 is_mark]. rewrite (co_build w Hco). reflexivity. }
    assert (Hst6 : forallb (ids_below (next st6)) (lst :: inst0 :: stack st) = true).
    { destruct Hi6 as [[Hst _] _]. rewrite Hs6 in Hst. exact Hst. }
    cbn [forallb] in Hst6. apply andb_true_iff in Hst6. destruct Hst6 as [Hl Hst6].
    apply andb_true_iff in Hst6. destruct Hst6 as [Hin Hst6].
    assert (Hi7 : inv cs' st7).
    { unfold st7. apply inv_mutate.
      - apply inv_emit. apply inv_set_stack_sub; [exact Hi6|]. cbn [forallb]. rewrite Hin, Hst6. reflexivity.
      - cbn [emit set_stack next]. cbn [ids_below c inst0 cls forallb] in *. rewrite Hl.
        apply andb_true_iff in Hin. destruct Hin as [Hin _]. rewrite Hin. reflexivity. }
    assert (Hs7 : stack st7 = c :: stack st).
    { unfold st7. apply (mutate_stack j c _ inst0 (stack st)); [reflexivity | | ].
      - cbn [subst inst0]. rewrite Nat.eqb_refl. reflexivity.
      - apply (ids_below_all_mono (next st) j); [unfold j; lia | exact Hs0]. }
    exists c, st7.
    split; [rewrite Hr1, (run_step_next w st1 EMPTY_TUPLE (push (OTuple []) st1) _ eq_refl),
              (run_step_next w _ NEWOBJ st2 p1 H2), Hr3, (run_step_next w st3 EMPTY_LIST st4 p2 eq_refl), Hr5, Hr6;
            apply run_step_next; exact H7|].
    split; [exact Hs7|].
    split; [unfold c, lst, cls; rewrite decode_setordered_eq, (all_some_map_decode _ _ Hd6); reflexivity|].
    split; [reflexivity|]. split; [intro; discriminate|]. split; [exact Hi7|].
    unfold st7. cbn [mutate emit set_stack next]. rewrite Hn5 in Hn6. unfold st4 in Hn6. cbn in Hn6. unfold j in *. lia.
Qed.

(** * the main theorem *)

Theorem chk_sound : forall w, calls_ok w -> forall v, wfp v = true -> types_ok w v -> member_sound w chk v.
Proof.
  intros w Hco. induction v using pv_ind'; intros Hw Ht cs prog cs' rest Hc st Hinv.
  - (* atom *) destruct prog as [|p r]; [discriminate|]. cbn [chk] in Hc.
    destruct (match get_index p with Some i => chk_get cs (PAtom a) i | None => false end) eqn:Eg.
    + inversion Hc; subst. exact (get_case w (PAtom a) cs' p rest st Eg Hinv).
    + exact (atom_case w a cs (p :: r) cs' rest st Hc Hinv).
  - exact (floatbits_case w b cs prog cs' rest st Hc Hinv).
  - refine (list_case w xs _ cs prog cs' rest st Hc Hinv).
    apply (Forall_wfp_types w _ _ H); [exact Hw | exact Ht].
  - refine (tuple_case w xs _ cs prog cs' rest st Hc Hinv).
    apply (Forall_wfp_types w _ _ H); [exact Hw | exact Ht].
  - cbn [wfp] in Hw. apply andb_true_iff in Hw. destruct Hw as [Hnd Hw].
    refine (dict_case w kvs _ Hnd cs prog cs' rest st Hc Hinv).
    apply (Forall_wfp_types_kv w (member_sound w chk) _ H); [exact Hw | exact Ht].
  - exact (set_case w xs Hw cs prog cs' rest st Hc Hinv).
  - exact (frozen_case w xs Hw cs prog cs' rest st Hc Hinv).
  - (* type *) destruct prog as [|p r]; [discriminate|]. cbn [chk] in Hc.
    destruct (match get_index p with Some i => chk_get cs (PType m n) i | None => false end) eqn:Eg.
    + inversion Hc; subst. exact (get_case w (PType m n) cs' p rest st Eg Hinv).
    + assert (Hfc : find_class w m n = FCResolved GType) by (apply Ht; left; reflexivity).
      destruct (type_sound w m n cs (p :: r) cs' rest st Hc Hinv Hfc) as [st' [Hr [Hs [Hn Hi]]]].
      exists (OGlobal m n GType), st'. split; [exact Hr|]. split; [exact Hs|]. split; [reflexivity|].
      split; [reflexivity|]. split; [reflexivity|]. split; [exact Hi | lia].
  - exact (nonetype_case w cs prog cs' rest st Hc Hinv).
  - (* opcode *) cbn [wfp] in Hw. apply andb_true_iff in Hw. destruct Hw as [Hw1 Hw2].
    refine (opcode_case w tag i1 i2 j1 j2 v1 v2 Hco _ _ _ cs prog cs' rest st Hc Hinv).
    + apply Ht. left. reflexivity.
    + apply IHv1; [exact Hw1|]. intros m n Hin. apply Ht. cbn. right. apply in_or_app. left. exact Hin.
    + apply IHv2; [exact Hw2|]. intros m n Hin. apply Ht. cbn. right. apply in_or_app. right. exact Hin.
  - (* SetOrdered *) refine (setordered_case w xs Hco _ _ cs prog cs' rest st Hc Hinv).
    + apply Ht. left. reflexivity.
    + apply (Forall_wfp_types w _ _ H); [exact Hw|]. intros m n Hin. apply Ht. cbn. right. exact Hin.
Qed.

Lemma inv_init : forall w, inv cs0 (init w).
Proof. intro w. split; [split; reflexivity|]. split; [reflexivity|]. intros i v H. discriminate. Qed.

(* every encoding in the class loads to the payload it was checked against *)
Theorem accepts_sound : forall w prog d,
  calls_ok w -> types_ok w d -> wfp d = true -> accepts prog d = true -> load w prog = Some d.
Proof.
  intros w prog d Hco Ht Hw H. unfold accepts in H.
  set (p1 := match prog with PROTO n :: p => if (Z.leb 0 n && Z.leb n 5)%bool then p else prog | _ => prog end) in *.
  set (p2 := match p1 with FRAME _ :: p => p | _ => p1 end) in *.
  assert (E1 : run w (init w) prog = run w (init w) p1).
  { unfold p1. destruct prog as [|q p]; [reflexivity|]. destruct q; try reflexivity.
    destruct (Z.leb 0 n && Z.leb n 5)%bool eqn:E; [|reflexivity]. apply run_step_next. cbn [step]. rewrite E. reflexivity. }
  assert (E2 : run w (init w) p1 = run w (init w) p2).
  { unfold p2. destruct p1 as [|q p]; [reflexivity|]. destruct q; try reflexivity. }
  destruct (chk d cs0 p2) as [[cs' pp]|] eqn:Ec; [|discriminate].
  destruct pp as [|q rest]; [discriminate|]. destruct q; try discriminate.
  destruct (chk_sound w Hco d Hw Ht cs0 p2 cs' _ Ec (init w) (inv_init w)) as [o [st' [Hr [Hs [Hd [Hm _]]]]]].
  unfold load, vm_run. rewrite E1, E2, Hr. cbn [run step]. rewrite Hs. cbn [pop1]. rewrite Hm. cbn. exact Hd.
Qed.

(* in the default process, also under any safe_to_import *)
Theorem accepted_dumps_load : forall (a : safe_arg) prog d,
  wfp d = true -> types_default_b d = true -> accepts prog d = true ->
  load (with_allow (effective_allow a) default_world) prog = Some d.
Proof.
  intros a prog d Hw Ht Ha. apply accepts_sound; [constructor; intros; reflexivity | | exact Hw | exact Ha].
  intros m n Hin. pose proof (types_default_ok d Ht m n Hin) as H.
  apply find_class_resolved in H. destruct H as [Hal Hl].
  apply (proj2 (find_class_exact (with_allow (effective_allow a) default_world) m n) GType).
  split; [|exact Hl]. cbn [allow with_allow]. apply effective_allow_spec. left. exact Hal.
Qed.

(* the class is not empty: the canonical encoding, and an encoding in CPython's
   style (MEMOIZE after every object, BINGET of a repeated string and class) *)
From Coq Require Import String.
Local Open Scope string_scope.
Example accepts_canonical : accepts (enc_prog sample_payload) sample_payload = true.
Proof. vm_compute. reflexivity. Qed.
Definition cpython_style_dump : list op :=
  [PROTO 4; FRAME 120; EMPTY_DICT; MEMOIZE; SHORT_BINUNICODE (s2p "type_changes"); MEMOIZE; EMPTY_DICT; MEMOIZE;
   SHORT_BINUNICODE (s2p "root"); MEMOIZE; EMPTY_DICT; MEMOIZE; MARK;
   SHORT_BINUNICODE (s2p "old_type"); MEMOIZE; SHORT_BINUNICODE (s2p "builtins"); MEMOIZE; SHORT_BINUNICODE (s2p "int"); MEMOIZE;
   STACK_GLOBAL; MEMOIZE;
   SHORT_BINUNICODE (s2p "new_type"); MEMOIZE; BINGET 6; SHORT_BINUNICODE (s2p "str"); MEMOIZE; STACK_GLOBAL; MEMOIZE;
   SHORT_BINUNICODE (s2p "old_value"); MEMOIZE; BININT1 1;
   SHORT_BINUNICODE (s2p "new_value"); MEMOIZE; BINGET 9;
   SETITEMS; SETITEM; SETITEM; STOP].
Definition cpython_style_payload : pv :=
  PDict [(AStr (s2p "type_changes"),
          PDict [(AStr (s2p "root"),
                  PDict [(AStr (s2p "old_type"), PType (s2p "builtins") (s2p "int"));
                         (AStr (s2p "new_type"), PType (s2p "builtins") (s2p "str"));
                         (AStr (s2p "old_value"), PAtom (AInt 1%Z));
                         (AStr (s2p "new_value"), PAtom (AStr (s2p "new_type")))])])].
Example accepts_cpython_style : accepts cpython_style_dump cpython_style_payload = true.
Proof. vm_compute. reflexivity. Qed.
Local Close Scope string_scope.

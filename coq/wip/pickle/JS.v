(** C14 proofs (draft): the JSON path *)
From Coq Require Import List ZArith NArith Bool Arith Lia String.
Import ListNotations.
From DD Require Import Base.Sx Base.PyStr Base.Value Pickle.Vm Pickle.Codec Pickle.PickleProofs.
Require Import RT.

(** * the fragment on which the JSON round trip is the identity *)

Definition is_type_key (a : atom) : bool :=
  match a with AStr k => pystr_eqb k OLD_TYPE || pystr_eqb k NEW_TYPE | _ => false end.
Definition str_key (a : atom) : bool := match a with AStr _ => true | _ => false end.
(* a builtin class whose name TYPE_STR_TO_TYPE maps back to itself *)
Definition self_type (v : pv) : bool :=
  match v with
  | PType m n => pystr_eqb m BUILTINS && existsb (fun t => pystr_eqb n (s2p t)) TYPE_NAMES
  | _ => false
  end.

Fixpoint jfrag (v : pv) {struct v} : bool :=
  match v with
  | PAtom (ABytes _) => false
  | PAtom _ => true
  | PList xs => forallb jfrag xs
  | PDict kvs =>
      forallb (fun kv => str_key (fst kv)) kvs && nodup_atoms (map fst kvs) &&
      (if has_key OLD_TYPE kvs && has_key NEW_TYPE kvs
       then forallb (fun kv => if is_type_key (fst kv) then self_type (snd kv) else jfrag (snd kv)) kvs
       else forallb (fun kv => jfrag (snd kv)) kvs)
  | _ => false
  end.

Definition json_ok (d : pv) : bool :=
  match d with
  | PDict kvs => jfrag d && negb (has_key ITERABLE_OPCODES kvs)
  | _ => false
  end.

(** * the local fixpoints as list functions *)

Definition to_kv (kv : atom * pv) : option (pystr * jv) :=
  match json_key (fst kv), to_json (snd kv) with Some s, Some y => Some (s, y) | _, _ => None end.

Lemma to_json_list_eq : forall xs, to_json (PList xs) = option_map JArr (all_some (map to_json xs)).
Proof.
  intros xs. cbn [to_json]. f_equal. induction xs as [|x r IH]; cbn; [reflexivity|].
  rewrite IH. destruct (to_json x); [|reflexivity]. destruct (all_some (map to_json r)); reflexivity.
Qed.
Lemma to_json_dict_eq : forall kvs, to_json (PDict kvs) = option_map JObj (all_some (map to_kv kvs)).
Proof.
  intros kvs. cbn [to_json]. f_equal. induction kvs as [|[k x] r IH]; cbn; [reflexivity|].
  rewrite IH. unfold to_kv. cbn. destruct (json_key k); [|reflexivity].
  destruct (to_json x); [|reflexivity]. destruct (all_some (map to_kv r)); reflexivity.
Qed.
Lemma of_json_arr_eq : forall xs, of_json (JArr xs) = option_map PList (all_some (map of_json xs)).
Proof.
  intros xs. cbn [of_json]. f_equal. induction xs as [|x r IH]; cbn; [reflexivity|].
  rewrite IH. destruct (of_json x); [|reflexivity]. destruct (all_some (map of_json r)); reflexivity.
Qed.
Fixpoint ofkv (kvs : list (pystr * jv)) (acc : list (atom * pv)) : option (list (atom * pv)) :=
  match kvs with
  | [] => Some acc
  | (k, x) :: r => match of_json x with Some y => ofkv r (obj_set k y acc) | None => None end
  end.
Lemma of_json_obj_eq : forall kvs,
  of_json (JObj kvs) =
  match ofkv kvs [] with
  | Some d => if has_key OLD_TYPE d && has_key NEW_TYPE d then option_map PDict (hook_kvs d) else Some (PDict d)
  | None => None
  end.
Proof.
  intros kvs. cbn [of_json].
  match goal with |- match ?f kvs [] with _ => _ end = _ => assert (E : forall l acc, f l acc = ofkv l acc) end.
  { induction l as [|[k x] r IH]; intro acc; cbn; [reflexivity|]. destruct (of_json x); [apply IH | reflexivity]. }
  rewrite E. reflexivity.
Qed.

(** * parsing an object with distinct keys *)

Lemma py_eq_str : forall s t, py_eq (AStr s) (AStr t) = pystr_eqb s t.
Proof. reflexivity. Qed.

Lemma obj_set_fresh : forall k y acc,
  existsb (py_eq (AStr k)) (map fst acc) = false -> obj_set k y acc = (acc ++ [(AStr k, y)])%list.
Proof.
  intros k y. induction acc as [|[a v] r IH]; cbn; [reflexivity|].
  intro H. apply orb_false_iff in H. destruct H as [H1 H2].
  destruct a; try (rewrite (IH H2); reflexivity).
  change (pystr_eqb k s = false) in H1. rewrite pystr_eqb_sym in H1. rewrite H1, (IH H2). reflexivity.
Qed.

Lemma ofkv_fresh : forall (jk : list (pystr * jv)) (kvs : list (atom * pv)) acc,
  Forall2 (fun sj kv => fst kv = AStr (fst sj) /\ of_json (snd sj) = Some (snd kv)) jk kvs ->
  nodup_atoms (map fst acc ++ map fst kvs) = true ->
  ofkv jk acc = Some (acc ++ kvs)%list.
Proof.
  intros jk kvs acc H. revert acc. induction H as [|[s j] [a v] jk kvs [Hk Hv] Hr IH]; intros acc Hn; cbn.
  - rewrite app_nil_r. reflexivity.
  - cbn in Hk, Hv. subst a. rewrite Hv. cbn [map fst] in Hn.
    destruct (nodup_atoms_app_mid _ _ _ Hn) as [He Hn'].
    rewrite (obj_set_fresh s v acc He). rewrite IH.
    + rewrite <- app_assoc. reflexivity.
    + rewrite map_app. exact Hn'.
Qed.

(** * the object hook undoes the type names *)

Definition type_name (v : pv) : pv := match v with PType _ n => PAtom (AStr n) | _ => v end.
Definition pre_hook (kv : atom * pv) : atom * pv :=
  if is_type_key (fst kv) then (fst kv, type_name (snd kv)) else kv.

Lemma self_type_inv : forall v, self_type v = true ->
  exists n, v = PType BUILTINS n /\ type_of_name n = PType BUILTINS n.
Proof.
  intros v H. destruct v; try discriminate. cbn [self_type] in H. apply andb_true_iff in H. destruct H as [Hm Hn].
  apply pystr_eqb_eq in Hm. subst m. exists n. split; [reflexivity|]. unfold type_of_name. rewrite Hn. reflexivity.
Qed.

Lemma hook_pre : forall kvs,
  forallb (fun kv => str_key (fst kv)) kvs = true ->
  forallb (fun kv => if is_type_key (fst kv) then self_type (snd kv) else true) kvs = true ->
  hook_kvs (map pre_hook kvs) = Some kvs.
Proof.
  induction kvs as [|[a x] r IH]; intros Hk Ht; [reflexivity|].
  cbn in Hk, Ht. apply andb_true_iff in Hk. destruct Hk as [Ha Hk]. apply andb_true_iff in Ht. destruct Ht as [Hx Ht].
  destruct a; try discriminate. cbn [map]. unfold pre_hook at 1. cbn [fst snd is_type_key] in *.
  destruct (pystr_eqb s OLD_TYPE || pystr_eqb s NEW_TYPE) eqn:E.
  - destruct (self_type_inv x Hx) as [n [-> Hn]]. cbn [type_name hook_kvs]. rewrite E. cbn [hook_value].
    rewrite Hn, (IH Hk Ht). reflexivity.
  - cbn [hook_kvs]. rewrite E, (IH Hk Ht). reflexivity.
Qed.

Lemma has_key_pre : forall k kvs, has_key k (map pre_hook kvs) = has_key k kvs.
Proof.
  intros k kvs. unfold has_key. rewrite existsb_map. apply existsb_ext_in. intros [a x].
  unfold pre_hook. cbn. destruct (is_type_key a); reflexivity.
Qed.

Lemma map_fst_pre : forall kvs, map fst (map pre_hook kvs) = map fst kvs.
Proof.
  induction kvs as [|[a x] r IH]; cbn; [reflexivity|]. rewrite IH. unfold pre_hook. cbn.
  destruct (is_type_key a); reflexivity.
Qed.

(** * the round trip on the fragment *)

Lemma json_key_str : forall a, str_key a = true -> exists s, a = AStr s /\ json_key a = Some s.
Proof. intros a H. destruct a; try discriminate. eauto. Qed.

Lemma kvs_rt : forall (b : bool) (kvs : list (atom * pv)),
  Forall (fun kv => jfrag (snd kv) = true -> exists j, to_json (snd kv) = Some j /\ of_json j = Some (snd kv)) kvs ->
  forallb (fun kv => str_key (fst kv)) kvs = true ->
  (if b then forallb (fun kv => if is_type_key (fst kv) then self_type (snd kv) else jfrag (snd kv)) kvs
   else forallb (fun kv => jfrag (snd kv)) kvs) = true ->
  exists jk, all_some (map to_kv kvs) = Some jk /\
    Forall2 (fun sj kv => fst kv = AStr (fst sj) /\ of_json (snd sj) = Some (snd kv)) jk
            (map (fun kv => if b then pre_hook kv else kv) kvs).
Proof.
  intros b kvs H. induction H as [|[a x] r Hx Hr IH]; intros Hkeys Hvals; [exists []; split; [reflexivity | constructor]|].
  cbn [forallb fst snd] in Hkeys. apply andb_true_iff in Hkeys. destruct Hkeys as [Ka Kr].
  destruct (json_key_str a Ka) as [s [-> Ks]].
  assert (Hr' : (if b then forallb (fun kv => if is_type_key (fst kv) then self_type (snd kv) else jfrag (snd kv)) r
                 else forallb (fun kv => jfrag (snd kv)) r) = true).
  { destruct b; cbn [forallb] in Hvals; apply andb_true_iff in Hvals; apply Hvals. }
  destruct (IH Kr Hr') as [jk [Tk Fk]].
  assert (Hx' : exists j, to_json x = Some j /\ of_json j = Some (snd (if b then pre_hook (AStr s, x) else (AStr s, x)))).
  { destruct b.
    - cbn [forallb fst snd] in Hvals. apply andb_true_iff in Hvals. destruct Hvals as [V _].
      unfold pre_hook. cbn [fst snd]. destruct (is_type_key (AStr s)).
      + destruct (self_type_inv x V) as [n [-> _]]. exists (JStr n). split; reflexivity.
      + apply Hx. exact V.
    - cbn [forallb fst snd] in Hvals. apply andb_true_iff in Hvals. destruct Hvals as [V _]. apply Hx. exact V. }
  destruct Hx' as [j [Tj Oj]].
  exists ((s, j) :: jk). cbn [map all_some]. unfold to_kv at 1. cbn [fst snd]. rewrite Ks, Tj, Tk.
  split; [reflexivity|]. constructor; [|exact Fk]. split; [|exact Oj].
  destruct b; [unfold pre_hook; cbn [fst snd]; destruct (is_type_key (AStr s)); reflexivity | reflexivity].
Qed.

Lemma jfrag_rt : forall v, jfrag v = true -> exists j, to_json v = Some j /\ of_json j = Some v.
Proof.
  induction v using pv_ind'; intro Hj; try discriminate.
  - (* atoms *) destruct a; try discriminate; cbn; eauto.
  - (* list *) cbn [jfrag] in Hj. rewrite to_json_list_eq.
    assert (E : exists js, all_some (map to_json xs) = Some js /\ all_some (map of_json js) = Some xs).
    { induction H as [|x r Hx Hr IH]; [exists []; split; reflexivity|].
      cbn in Hj. apply andb_true_iff in Hj. destruct Hj as [J1 J2].
      destruct (Hx J1) as [j [T O]]. destruct (IH J2) as [js [Ts Os]].
      exists (j :: js). cbn. rewrite T, Ts, O, Os. split; reflexivity. }
    destruct E as [js [Ts Os]]. rewrite Ts. exists (JArr js). split; [reflexivity|].
    rewrite of_json_arr_eq, Os. reflexivity.
  - (* dict *) cbn [jfrag] in Hj. apply andb_true_iff in Hj. destruct Hj as [Hj Hvals].
    apply andb_true_iff in Hj. destruct Hj as [Hkeys Hnd].
    remember (has_key OLD_TYPE kvs && has_key NEW_TYPE kvs) as both eqn:Eb.
    destruct (kvs_rt both kvs H Hkeys Hvals) as [jk [Tk Fk]].
    rewrite to_json_dict_eq, Tk. exists (JObj jk). split; [reflexivity|].
    rewrite of_json_obj_eq.
    assert (Hfst : map fst (map (fun kv => if both then pre_hook kv else kv) kvs) = map fst kvs).
    { destruct both; [apply map_fst_pre | rewrite map_id; reflexivity]. }
    rewrite (ofkv_fresh jk _ [] Fk) by (cbn [map app]; rewrite Hfst; exact Hnd).
    cbn [app].
    assert (Hhk : forall k, has_key k (map (fun kv => if both then pre_hook kv else kv) kvs) = has_key k kvs).
    { intro k. destruct both; [apply has_key_pre | rewrite map_id; reflexivity]. }
    rewrite !Hhk. rewrite <- Eb. destruct both.
    + rewrite hook_pre; [reflexivity | exact Hkeys|].
      clear - Hvals. induction kvs as [|[a x] r IH]; [reflexivity|]. cbn [forallb fst snd] in *.
      apply andb_true_iff in Hvals. destruct Hvals as [V1 V2]. rewrite (IH V2), andb_true_r.
      destruct (is_type_key a); [exact V1 | reflexivity].
    + rewrite map_id. reflexivity.
Qed.

Lemma has_key_find : forall k kvs, has_key k kvs = false ->
  find (fun kv : atom * pv => match fst kv with AStr s => pystr_eqb s k | _ => false end) kvs = None.
Proof.
  intros k. induction kvs as [|[a x] r IH]; cbn; [reflexivity|].
  intro H. apply orb_false_iff in H. destruct H as [H1 H2]. rewrite H1. apply IH. exact H2.
Qed.

(* on the fragment, Delta(json_dumps(payload), deserializer=json_loads).diff is the payload *)
Theorem json_roundtrip_partial : forall d, json_ok d = true -> json_roundtrip d = Some d.
Proof.
  intros d H. destruct d; try discriminate. cbn [json_ok] in H. apply andb_true_iff in H. destruct H as [Hj Hk].
  apply negb_true_iff in Hk. destruct (jfrag_rt _ Hj) as [j [T O]].
  unfold json_roundtrip, json_load. rewrite T, O. unfold wrapper. rewrite (has_key_find _ _ Hk). reflexivity.
Qed.

(** * where the real code fails *)
Local Open Scope string_scope.

(* K12: a delta with iterable opcodes, serialised to JSON, raises on load *)
Definition opcode_payload : pv :=
  PDict [(AStr (s2p "_iterable_opcodes"),
          PDict [(AStr (s2p "root"),
                  PList [POpcode (s2p "insert") 0 0 0 2 (PAtom ANone) (PList [PAtom (AInt 9%Z); PAtom (AInt 8%Z)]);
                         POpcode (s2p "equal") 0 4 2 6 (PAtom ANone) (PAtom ANone)])])].
Theorem json_opcode_refuted :
  exists d j, wfp d = true /\ to_json d = Some j /\ json_load j = None.
Proof. exists opcode_payload. eexists. split; [reflexivity|]. split; vm_compute; reflexivity. Qed.

(* a type change from / to None comes back with None instead of NoneType *)
Definition nonetype_payload : pv :=
  PDict [(AStr (s2p "type_changes"),
          PDict [(AStr (s2p "root['a']"),
                  PDict [(AStr (s2p "old_type"), PNoneType);
                         (AStr (s2p "new_type"), PType (s2p "builtins") (s2p "int"));
                         (AStr (s2p "new_value"), PAtom (AInt 1%Z))])])].
Theorem json_nonetype_refuted :
  exists d d', wfp d = true /\ json_roundtrip d = Some d' /\ d' <> d.
Proof.
  exists nonetype_payload. eexists. split; [reflexivity|]. split; [vm_compute; reflexivity|]. discriminate.
Qed.

(* in general (tuples, sets, int keys, bytes ...) the JSON round trip is not the identity *)
Theorem json_roundtrip_refuted :
  exists d d', wfp d = true /\ json_roundtrip d = Some d' /\ d' <> d.
Proof.
  exists (PDict [(AStr (s2p "values_changed"),
                  PDict [(AStr (s2p "root"), PDict [(AStr (s2p "new_value"), PTuple [PAtom (AInt 1%Z)])])])]).
  eexists. split; [reflexivity|]. split; [vm_compute; reflexivity|]. discriminate.
Qed.

(* the guard is satisfiable by a delta with a type change, values and nesting *)
Definition json_sample : pv :=
  PDict [(AStr (s2p "type_changes"),
          PDict [(AStr (s2p "root['a']"),
                  PDict [(AStr (s2p "old_type"), PType (s2p "builtins") (s2p "int"));
                         (AStr (s2p "new_type"), PType (s2p "builtins") (s2p "str"));
                         (AStr (s2p "old_value"), PAtom (AInt 1%Z)); (AStr (s2p "new_value"), PAtom (AStr (s2p "x")))])]);
         (AStr (s2p "dictionary_item_added"),
          PDict [(AStr (s2p "root['f']"), PList [PAtom (AHalf 3%Z); PAtom ANone; PDict [(AStr (s2p "k"), PAtom (ABool true))]])])].
Example json_sample_ok : json_ok json_sample = true.
Proof. vm_compute. reflexivity. Qed.

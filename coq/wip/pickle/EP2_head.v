(** Pickle/EncodesProofs.v - every encoding in the class [accepts] decodes, on the
    restricted-unpickler model, to the payload it was checked against. *)
From Coq Require Import List ZArith NArith Bool Arith Lia.
Import ListNotations.
From DD Require Import Base.Sx Base.PyStr Base.Value Pickle.Vm Pickle.Codec Pickle.PickleProofs Pickle.CodecProofs.
Require Import Encodes2.

(** * equality tests are exact *)

Lemma atom_eqb_eq : forall a b, atom_eqb a b = true -> a = b.
Proof.
  intros a b. destruct a as [|x|x|x|x|x], b as [|y|y|y|y|y]; cbn; intro H; try discriminate; try reflexivity.
  - apply Bool.eqb_prop in H. subst. reflexivity.
  - apply Z.eqb_eq in H. subst. reflexivity.
  - apply Z.eqb_eq in H. subst. reflexivity.
  - apply pystr_eqb_eq in H. subst. reflexivity.
  - apply pystr_eqb_eq in H. subst. reflexivity.
Qed.

Lemma atoms_eqb_eq : forall xs ys, atoms_eqb xs ys = true -> xs = ys.
Proof.
  induction xs as [|x r IH]; destruct ys as [|y s]; cbn; intro H; try discriminate; [reflexivity|].
  apply andb_true_iff in H. destruct H as [H1 H2]. apply atom_eqb_eq in H1. rewrite (IH _ H2), H1. reflexivity.
Qed.

Lemma pv_eqb_eq : forall a b, pv_eqb a b = true -> a = b.
Proof.
  induction a using pv_ind'; intro bb; destruct bb; cbn [pv_eqb]; intro E; try discriminate.
  - apply atom_eqb_eq in E. subst. reflexivity.
  - apply Z.eqb_eq in E. subst. reflexivity.
  - f_equal. revert xs0 E. induction H as [|x r Hx Hr IH]; destruct xs0 as [|y s]; intro E; try discriminate; [reflexivity|].
    apply andb_true_iff in E. destruct E as [E1 E2]. rewrite (Hx _ E1), (IH _ E2). reflexivity.
  - f_equal. revert xs0 E. induction H as [|x r Hx Hr IH]; destruct xs0 as [|y s]; intro E; try discriminate; [reflexivity|].
    apply andb_true_iff in E. destruct E as [E1 E2]. rewrite (Hx _ E1), (IH _ E2). reflexivity.
  - f_equal. revert kvs0 E. induction H as [|[k x] r Hx Hr IH]; destruct kvs0 as [|[k' y] s]; intro E; try discriminate; [reflexivity|].
    apply andb_true_iff in E. destruct E as [E1 E2]. apply andb_true_iff in E1. destruct E1 as [Ek Ev].
    apply atom_eqb_eq in Ek. cbn in Hx. rewrite (Hx _ Ev), (IH _ E2), Ek. reflexivity.
  - apply atoms_eqb_eq in E. subst. reflexivity.
  - apply atoms_eqb_eq in E. subst. reflexivity.
  - apply andb_true_iff in E. destruct E as [E1 E2]. apply pystr_eqb_eq in E1. apply pystr_eqb_eq in E2. subst. reflexivity.
  - reflexivity.
  - apply andb_true_iff in E. destruct E as [E En]. apply andb_true_iff in E. destruct E as [E Eo].
    apply andb_true_iff in E. destruct E as [E E4]. apply andb_true_iff in E. destruct E as [E E3].
    apply andb_true_iff in E. destruct E as [E E2]. apply andb_true_iff in E. destruct E as [E0 E1].
    apply pystr_eqb_eq in E0. apply Z.eqb_eq in E1. apply Z.eqb_eq in E2. apply Z.eqb_eq in E3. apply Z.eqb_eq in E4.
    subst. rewrite (IHa1 _ Eo), (IHa2 _ En). reflexivity.
  - f_equal. revert xs0 E. induction H as [|x r Hx Hr IH]; destruct xs0 as [|y s]; intro E; try discriminate; [reflexivity|].
    apply andb_true_iff in E. destruct E as [E1 E2]. rewrite (Hx _ E1), (IH _ E2). reflexivity.
Qed.

(** * the object an id-free payload value is *)

Fixpoint canon_obj (v : pv) {struct v} : obj :=
  match v with
  | PAtom a => obj_of_atom a
  | PFloatBits b => OFloat (FBits b)
  | PType m n => OGlobal m n GType
  | PNoneType => ONoneType
  | PFrozen xs => OFrozen (map obj_of_atom xs)
  | PTuple xs => OTuple (map canon_obj xs)
  | _ => ONone
  end.

Fixpoint noids (o : obj) {struct o} : bool :=
  match o with
  | OTuple xs | OFrozen xs => forallb noids xs
  | OList _ _ | ODict _ _ | OSet _ _ | OInst _ _ _ _ _ | OMark => false
  | _ => true
  end.

Lemma noids_atom : forall a, noids (obj_of_atom a) = true.
Proof. destruct a; reflexivity. Qed.
Lemma noids_atoms : forall xs, forallb noids (map obj_of_atom xs) = true.
Proof. induction xs as [|a r IH]; cbn; [reflexivity|]. rewrite noids_atom. exact IH. Qed.

Lemma canon_noids : forall v, idfree v = true -> noids (canon_obj v) = true.
Proof.
  induction v using pv_ind'; cbn [idfree canon_obj noids]; intro Hf; try discriminate; try reflexivity.
  - apply noids_atom.
  - induction H as [|x r Hx Hr IH]; cbn in *; [reflexivity|].
    apply andb_true_iff in Hf. destruct Hf as [F1 F2]. rewrite (Hx F1), (IH F2). reflexivity.
  - apply noids_atoms.
Qed.

Lemma canon_decode : forall v, idfree v = true -> decode (canon_obj v) = Some v.
Proof.
  induction v using pv_ind'; cbn [idfree canon_obj]; intro Hf; try discriminate; try reflexivity.
  - apply decode_obj_of_atom.
  - rewrite decode_tuple_eq.
    assert (E : all_some (map decode (map canon_obj xs)) = Some xs).
    { induction H as [|x r Hx Hr IH]; cbn in *; [reflexivity|].
      apply andb_true_iff in Hf. destruct Hf as [F1 F2]. rewrite (Hx F1), (IH F2). reflexivity. }
    rewrite E. reflexivity.
  - apply decode_frozen_atoms.
Qed.

Lemma noids_subst : forall i c o, noids o = true -> subst i c o = o.
Proof.
  intros i c. induction o using obj_ind'; cbn [noids subst]; intro Hn; try discriminate; try reflexivity.
  - f_equal. apply (map_id_forall _ noids); assumption.
  - f_equal. apply (map_id_forall _ noids); assumption.
Qed.

Lemma noids_below : forall n o, noids o = true -> ids_below n o = true.
Proof.
  intros n. induction o using obj_ind'; cbn [noids ids_below]; intro Hn; try discriminate; try reflexivity.
  - apply (forallb_imp _ noids); assumption.
  - apply (forallb_imp _ noids); assumption.
Qed.

Lemma noids_not_mark : forall o, noids o = true -> is_mark o = false.
Proof. destruct o; cbn; intro H; try reflexivity. discriminate. Qed.

(* substitution keeps the id bound *)
Lemma subst_ids_below : forall n i c, ids_below n c = true ->
  forall o, ids_below n o = true -> ids_below n (subst i c o) = true.
Proof.
  intros n i c Hc. induction o using obj_ind'; cbn [subst ids_below]; intro Hb; try exact Hb.
  - apply forallb_map_imp; assumption.
  - apply forallb_map_imp; assumption.
  - destruct (Nat.eqb i i0); [exact Hc|]. cbn [ids_below]. apply andb_true_iff in Hb. destruct Hb as [Hl Hx].
    rewrite Hl. cbn. apply forallb_map_imp; assumption.
  - destruct (Nat.eqb i i0); [exact Hc|]. cbn [ids_below]. apply andb_true_iff in Hb. destruct Hb as [Hl Hx].
    rewrite Hl. cbn. revert Hx. induction H as [|kv r [Hk Hv] Hr IH]; cbn; [auto|].
    intro E. apply andb_true_iff in E. destruct E as [E1 E2]. apply andb_true_iff in E1. destruct E1 as [Ek Ev].
    rewrite (Hk Ek), (Hv Ev), (IH E2). reflexivity.
  - destruct (Nat.eqb i i0); [exact Hc|]. cbn [ids_below]. apply andb_true_iff in Hb. destruct Hb as [Hl Hx].
    rewrite Hl. cbn. apply forallb_map_imp; assumption.
  - destruct (Nat.eqb i i0); [exact Hc|]. cbn [ids_below].
    apply andb_true_iff in Hb. destruct Hb as [Hb Hs]. apply andb_true_iff in Hb. destruct Hb as [Hb Ha].
    apply andb_true_iff in Hb. destruct Hb as [Hl Hf].
    rewrite Hl, (IHo1 Hf), (IHo2 Ha). cbn. apply forallb_map_imp; assumption.
Qed.

(** * memo facts *)

Lemma memo_put_fresh : forall i v (m : list (Z * obj)),
  existsb (Z.eqb i) (map fst m) = false -> memo_put i v m = (m ++ [(i, v)])%list.
Proof.
  intros i v. unfold memo_put. induction m as [|[j x] r IH]; cbn; [reflexivity|].
  intro H. apply orb_false_iff in H. destruct H as [H1 H2]. rewrite H1, (IH H2). reflexivity.
Qed.

Lemma memo_get_app_new : forall i v (m : list (Z * obj)),
  existsb (Z.eqb i) (map fst m) = false -> memo_get i (m ++ [(i, v)]) = Some v.
Proof.
  intros i v. induction m as [|[j x] r IH]; cbn; [rewrite Z.eqb_refl; reflexivity|].
  intro H. apply orb_false_iff in H. destruct H as [H1 H2]. rewrite H1. apply IH. exact H2.
Qed.

Lemma memo_get_app_old : forall j x (m l : list (Z * obj)),
  memo_get j m = Some x -> memo_get j (m ++ l) = Some x.
Proof.
  intros j x. induction m as [|[k y] r IH]; cbn; intros l H; [discriminate|].
  destruct (Z.eqb j k); [exact H | apply IH; exact H].
Qed.

Lemma memo_get_map_subst : forall i c j (m : list (Z * obj)),
  memo_get j (map (fun p => (fst p, subst i c (snd p))) m) = option_map (subst i c) (memo_get j m).
Proof.
  intros i c j. induction m as [|[k y] r IH]; cbn; [reflexivity|]. destruct (Z.eqb j k); [reflexivity | exact IH].
Qed.

Lemma memo_get_in_keys : forall j x (m : list (Z * obj)), memo_get j m = Some x -> existsb (Z.eqb j) (map fst m) = true.
Proof.
  intros j x. induction m as [|[k y] r IH]; cbn; intro H; [discriminate|].
  destruct (Z.eqb j k); [reflexivity | apply IH; exact H].
Qed.


(** Pickle/DeltaCodecProofs.v - C14: the reloaded delta produces the same result on every base.
    pv_of_delta / delta_of_pv are inverse on deltas whose paths print and parse back, so the
    pickle round trip of the payload gives back the very delta of the application model. *)
From Coq Require Import List ZArith NArith Bool Arith Lia String.
Import ListNotations.
From DD Require Import Base.Sx Base.PyStr Base.Value Path.PathModel Path.PathProofs Diff.Tree Diff.DiffModel Delta.DeltaModel
  Pickle.Vm Pickle.Codec Pickle.PickleProofs Pickle.CodecProofs Pickle.DeltaCodec.
Local Open Scope string_scope.

(** * values *)
Section ValInd.
  Variable P : value -> Prop.
  Hypothesis HA : forall a, P (VAtom a).
  Hypothesis HL : forall xs, Forall P xs -> P (VList xs).
  Hypothesis HT : forall xs, Forall P xs -> P (VTuple xs).
  Hypothesis HD : forall kvs, Forall (fun kv => P (snd kv)) kvs -> P (VDict kvs).
  Hypothesis HS : forall xs, P (VSet xs).
  Hypothesis HF : forall xs, P (VFrozen xs).
  Fixpoint val_ind' (v : value) : P v :=
    let fix all (xs : list value) : Forall P xs :=
      match xs with [] => Forall_nil P | x :: r => Forall_cons x (val_ind' x) (all r) end in
    match v with
    | VAtom a => HA a
    | VList xs => HL xs (all xs)
    | VTuple xs => HT xs (all xs)
    | VDict kvs => HD kvs ((fix allp (kvs : list (atom * value)) : Forall (fun kv => P (snd kv)) kvs :=
                              match kvs with [] => Forall_nil _ | kv :: r => Forall_cons kv (val_ind' (snd kv)) (allp r) end) kvs)
    | VSet xs => HS xs
    | VFrozen xs => HF xs
    end.
End ValInd.

Lemma value_of_pv_list_eq : forall xs, value_of_pv (PList xs) = option_map VList (all_some (map value_of_pv xs)).
Proof.
  intros xs. cbn [value_of_pv]. f_equal. induction xs as [|x r IH]; cbn; [reflexivity|].
  rewrite IH. destruct (value_of_pv x); [|reflexivity]. destruct (all_some (map value_of_pv r)); reflexivity.
Qed.
Lemma value_of_pv_tuple_eq : forall xs, value_of_pv (PTuple xs) = option_map VTuple (all_some (map value_of_pv xs)).
Proof.
  intros xs. cbn [value_of_pv]. f_equal. induction xs as [|x r IH]; cbn; [reflexivity|].
  rewrite IH. destruct (value_of_pv x); [|reflexivity]. destruct (all_some (map value_of_pv r)); reflexivity.
Qed.

Lemma all_some_values : forall xs, Forall (fun v => value_of_pv (of_value v) = Some v) xs ->
  all_some (map value_of_pv (map of_value xs)) = Some xs.
Proof. intros xs H. induction H as [|x r Hx Hr IH]; cbn; [reflexivity|]. rewrite Hx, IH. reflexivity. Qed.

Lemma value_of_pv_of_value : forall v, value_of_pv (of_value v) = Some v.
Proof.
  induction v using val_ind'; cbn [of_value]; try reflexivity.
  - rewrite value_of_pv_list_eq, (all_some_values _ H). reflexivity.
  - rewrite value_of_pv_tuple_eq, (all_some_values _ H). reflexivity.
  - cbn [value_of_pv]. induction H as [|[k x] r Hx Hr IH]; [reflexivity|]. cbn [map fst snd] in *.
    rewrite Hx. cbn [option_map] in IH.
    destruct ((fix go (kvs : list (atom * pv)) : option (list (atom * value)) :=
                 match kvs with
                 | [] => Some []
                 | (k0, x0) :: r0 => match value_of_pv x0, go r0 with
                                     | Some y, Some ys => Some ((k0, y) :: ys)
                                     | _, _ => None
                                     end
                 end) (map (fun kv : atom * value => (fst kv, of_value (snd kv))) r)) eqn:E; [|discriminate].
    inversion IH; subst. reflexivity.
Qed.

Lemma values_of_list_of_values : forall xs, values_of_list (PList (map of_value xs)) = Some xs.
Proof.
  intros xs. cbn [values_of_list]. apply all_some_values. apply Forall_forall. intros x _. apply value_of_pv_of_value.
Qed.

(** * types, tags, numbers *)
Lemma ty_of_pv_of_ty : forall t, ty_of_pv (pv_of_ty t) = Some t.
Proof. destruct t; vm_compute; reflexivity. Qed.
Lemma tag_of_name : forall t, tag_of (s2p (tag_name t)) = Some t.
Proof. destruct t; vm_compute; reflexivity. Qed.
Lemma nat_of_Z_of_nat : forall n, nat_of_Z (Z.of_nat n) = Some n.
Proof. intro n. unfold nat_of_Z. destruct (Z.ltb_spec (Z.of_nat n) 0); [lia|]. rewrite Nat2Z.id. reflexivity. Qed.

(** * paths: printed and parsed back *)
Definition gpath (p : path) : Prop := path_ok p = true /\ norm p = p.
Lemma parse_render_gpath : forall p, gpath p -> parse (render p) = Some p.
Proof. intros p [Hok Hn]. rewrite (parse_render p Hok), Hn. reflexivity. Qed.

(** * field lookups in the dicts pv_of_delta builds (keys are closed strings) *)
Lemma fields_val : forall nv o np,
  let f := ((skey "new_value", nv) :: opt_field "old_value" o ++ opt_field "new_path" np)%list in
  lookup_s "new_value" f = Some nv /\ lookup_s "old_value" f = o /\ lookup_s "new_path" f = np.
Proof. intros nv o np. destruct o, np; repeat split; reflexivity. Qed.
Lemma fields_type : forall ot nt np o n,
  let f := ((skey "old_type", ot) :: (skey "new_type", nt)
            :: opt_field "new_path" np ++ opt_field "old_value" o ++ opt_field "new_value" n)%list in
  lookup_s "old_type" f = Some ot /\ lookup_s "new_type" f = Some nt /\ lookup_s "new_path" f = np /\
  lookup_s "old_value" f = o /\ lookup_s "new_value" f = n.
Proof. intros ot nt np o n. destruct np, o, n; repeat split; reflexivity. Qed.

(** * entries *)
Definition vchange_ok (c : vchange) : Prop :=
  gpath (vc_path c) /\ match vc_new_path c with Some q => gpath q | None => True end.
Definition tchange_ok (c : tchange) : Prop :=
  gpath (tc_path c) /\ match tc_new_path c with Some q => gpath q | None => True end.

Lemma opt_path_render : forall o, match o with Some q => gpath q | None => True end ->
  opt_path (option_map (fun q => PAtom (AStr (render q))) o) = Some o.
Proof. intros [q|] H; cbn [opt_path option_map]; [rewrite (parse_render_gpath q H)|]; reflexivity. Qed.
Lemma opt_value_of : forall o, opt_value (option_map of_value o) = Some o.
Proof. intros [v|]; cbn [opt_value option_map]; [rewrite value_of_pv_of_value|]; reflexivity. Qed.

Lemma val_entry_inv : forall c, vchange_ok c -> val_entry (pv_of_vchange c) = Some c.
Proof.
  intros [p np o n] [Hp Hnp]. cbn [vc_path vc_new_path vc_old vc_new] in *.
  unfold val_entry, pv_of_vchange. cbn [fst snd pkey_s path_of_key vc_path vc_new_path vc_old vc_new].
  rewrite (parse_render_gpath p Hp).
  destruct (fields_val (of_value n) (option_map of_value o) (option_map (fun q => PAtom (AStr (render q))) np)) as [F1 [F2 F3]].
  cbn zeta in F1, F2, F3. rewrite F1, F2, F3, (opt_path_render np Hnp), opt_value_of, value_of_pv_of_value. reflexivity.
Qed.

Lemma type_entry_inv : forall c, tchange_ok c -> type_entry (pv_of_tchange c) = Some c.
Proof.
  intros [p np t1 t2 o n] [Hp Hnp]. cbn [tc_path tc_new_path] in *.
  unfold type_entry, pv_of_tchange. cbn [fst snd pkey_s path_of_key tc_path tc_new_path tc_old_ty tc_new_ty tc_old tc_new].
  rewrite (parse_render_gpath p Hp).
  destruct (fields_type (pv_of_ty t1) (pv_of_ty t2) (option_map (fun q => PAtom (AStr (render q))) np)
                        (option_map of_value o) (option_map of_value n)) as [F1 [F2 [F3 [F4 F5]]]].
  cbn zeta in F1, F2, F3, F4, F5. rewrite F1, F2, F3, F4, F5, (opt_path_render np Hnp), !opt_value_of, !ty_of_pv_of_ty. reflexivity.
Qed.

Lemma item_entry_inv : forall pvv, gpath (fst pvv) -> item_entry (pv_of_item pvv) = Some pvv.
Proof.
  intros [p v] Hp. unfold item_entry, pv_of_item. cbn [fst snd pkey_s path_of_key] in *.
  rewrite (parse_render_gpath p Hp), value_of_pv_of_value. reflexivity.
Qed.

Lemma fields_moved : forall np v,
  let f := [(skey "new_path", np); (skey "value", v)] in
  lookup_s "new_path" f = Some np /\ lookup_s "value" f = Some v.
Proof. intros. split; reflexivity. Qed.

Lemma moved_entry_inv : forall m, gpath (fst (fst m)) -> gpath (snd (fst m)) -> moved_entry (pv_of_moved m) = Some m.
Proof.
  intros [[p q] v] Hp Hq. unfold moved_entry, pv_of_moved. cbn [fst snd pkey_s path_of_key] in *.
  rewrite (parse_render_gpath p Hp).
  destruct (fields_moved (PAtom (AStr (render q))) (of_value v)) as [F1 F2]. cbn zeta in F1, F2.
  rewrite F1, F2, (parse_render_gpath q Hq), value_of_pv_of_value. reflexivity.
Qed.

Lemma set_entry_inv : forall pa, gpath (fst pa) -> set_entry (pv_of_setitems pa) = Some pa.
Proof.
  intros [p xs] Hp. unfold set_entry, pv_of_setitems. cbn [fst snd pkey_s path_of_key] in *.
  rewrite (parse_render_gpath p Hp). reflexivity.
Qed.

Lemma opv_inv : forall o, opv_of_pv (pv_of_opv o) = Some o.
Proof.
  intros [t a1 a2 b1 b2 n o]. unfold opv_of_pv, pv_of_opv. cbn [ov_tag ov_i1 ov_i2 ov_j1 ov_j2 ov_new ov_old].
  rewrite tag_of_name, !nat_of_Z_of_nat, values_of_list_of_values.
  destruct o as [l|]; [rewrite values_of_list_of_values|]; reflexivity.
Qed.

Lemma ops_entry_inv : forall po, gpath (fst po) -> ops_entry (pv_of_ops po) = Some po.
Proof.
  intros [p ops] Hp. unfold ops_entry, pv_of_ops. cbn [fst snd pkey_s path_of_key] in *.
  rewrite (parse_render_gpath p Hp).
  assert (E : all_some (map opv_of_pv (map pv_of_opv ops)) = Some ops).
  { induction ops as [|o r IH]; [reflexivity|]. cbn [map all_some]. rewrite opv_inv, IH. reflexivity. }
  rewrite E. reflexivity.
Qed.

Lemma all_some_inv : forall (A B : Type) (f : A -> B) (g : B -> option A) (ok : A -> Prop) l,
  (forall x, ok x -> g (f x) = Some x) -> Forall ok l -> all_some (map g (map f l)) = Some l.
Proof.
  intros A B f g ok l H HF. induction HF as [|x r Hx Hr IH]; cbn; [reflexivity|]. rewrite (H x Hx), IH. reflexivity.
Qed.

(** * categories; empty ones are removed and read back as empty *)
Definition kmatch (k : string) (kv : atom * pv) : bool :=
  match fst kv with AStr s => pystr_eqb s (s2p k) | _ => false end.

Lemma find_none_later : forall k a (r : list (atom * pv)) x,
  kmatch k (a, x) = true -> negb (mem_atom a (map fst r)) = true -> find (kmatch k) r = None.
Proof.
  intros k a r x Hm Hn. apply negb_true_iff in Hn. unfold kmatch in Hm. cbn [fst] in Hm.
  destruct a; try discriminate. apply pystr_eqb_eq in Hm. subst s.
  induction r as [|[b y] r IH]; [reflexivity|]. cbn [map fst mem_atom existsb] in Hn.
  unfold mem_atom in *. cbn [existsb map fst] in Hn. apply orb_false_iff in Hn. destruct Hn as [H1 H2].
  cbn [find]. unfold kmatch at 1. cbn [fst]. destruct b; try (apply IH; exact H2).
  change (py_eq (AStr (s2p k)) (AStr s)) with (pystr_eqb (s2p k) s) in H1.
  rewrite pystr_eqb_sym, H1. apply IH. exact H2.
Qed.

Lemma entries_filter : forall k cats,
  Forall (fun kv : atom * pv => exists es, snd kv = PDict es) cats -> nodup_atoms (map fst cats) = true ->
  entries_of k (filter nonempty_cat cats) = entries_of k cats.
Proof.
  intros k cats H. unfold entries_of, lookup_s. fold (kmatch k).
  induction H as [|[a x] r [es Hx] Hr IH]; intro Hnd; [reflexivity|].
  cbn [snd] in Hx. subst x. cbn [map fst nodup_atoms] in Hnd. apply andb_true_iff in Hnd. destruct Hnd as [Hn Hnd].
  cbn [filter nonempty_cat snd]. destruct es as [|e es'].
  - cbn [find]. destruct (kmatch k (a, PDict [])) eqn:Em.
    + cbn [snd]. rewrite (IH Hnd), (find_none_later k a r (PDict []) Em Hn). reflexivity.
    + exact (IH Hnd).
  - cbn [find]. destruct (kmatch k (a, PDict (e :: es'))); [reflexivity | exact (IH Hnd)].
Qed.

Lemma forallb_filter : forall (A : Type) (f g : A -> bool) l, forallb f l = true -> forallb f (filter g l) = true.
Proof.
  intros A f g l. induction l as [|x r IH]; cbn; [auto|]. intro H. apply andb_true_iff in H. destruct H as [H1 H2].
  destruct (g x); cbn; [rewrite H1|]; apply IH; exact H2.
Qed.

(** * the inverse *)
Record delta_ok (d : delta) : Prop := mkDeltaOk {
  ok_val : Forall vchange_ok (d_val d);
  ok_type : Forall tchange_ok (d_type d);
  ok_dadd : Forall (fun pvv => gpath (fst pvv)) (d_dadd d);
  ok_drem : Forall (fun pvv => gpath (fst pvv)) (d_drem d);
  ok_iadd : Forall (fun pvv => gpath (fst pvv)) (d_iadd d);
  ok_irem : Forall (fun pvv => gpath (fst pvv)) (d_irem d);
  ok_moved : Forall (fun m => gpath (fst (fst m)) /\ gpath (snd (fst m))) (d_moved d);
  ok_sadd : Forall (fun pa => gpath (fst pa)) (d_sadd d);
  ok_srem : Forall (fun pa => gpath (fst pa)) (d_srem d);
  ok_ops : Forall (fun po => gpath (fst po)) (d_ops d)
}.

Lemma all_cats_dicts : forall d, Forall (fun kv : atom * pv => exists es, snd kv = PDict es) (all_categories d).
Proof. intro d. unfold all_categories. repeat (constructor; [eexists; reflexivity|]). constructor. Qed.

Theorem delta_of_pv_of_delta : forall d, delta_ok d -> delta_of_pv (d_bidir d) (pv_of_delta d) = Some d.
Proof.
  intros d [Hv Ht Hda Hdr Hia Hir Hm Hsa Hsr Ho]. unfold delta_of_pv, pv_of_delta.
  rewrite forallb_filter by reflexivity.
  unfold category. rewrite !(entries_filter _ _ (all_cats_dicts d) eq_refl).
  change (entries_of "values_changed" (all_categories d)) with (Some (map pv_of_vchange (d_val d))).
  change (entries_of "type_changes" (all_categories d)) with (Some (map pv_of_tchange (d_type d))).
  change (entries_of "dictionary_item_added" (all_categories d)) with (Some (map pv_of_item (d_dadd d))).
  change (entries_of "dictionary_item_removed" (all_categories d)) with (Some (map pv_of_item (d_drem d))).
  change (entries_of "iterable_item_added" (all_categories d)) with (Some (map pv_of_item (d_iadd d))).
  change (entries_of "iterable_item_removed" (all_categories d)) with (Some (map pv_of_item (d_irem d))).
  change (entries_of "iterable_item_moved" (all_categories d)) with (Some (map pv_of_moved (d_moved d))).
  change (entries_of "set_item_added" (all_categories d)) with (Some (map pv_of_setitems (d_sadd d))).
  change (entries_of "set_item_removed" (all_categories d)) with (Some (map pv_of_setitems (d_srem d))).
  change (entries_of "_iterable_opcodes" (all_categories d)) with (Some (map pv_of_ops (d_ops d))).
  cbn beta iota.
  rewrite (all_some_inv _ _ pv_of_vchange val_entry vchange_ok _ val_entry_inv Hv).
  rewrite (all_some_inv _ _ pv_of_tchange type_entry tchange_ok _ type_entry_inv Ht).
  rewrite (all_some_inv _ _ pv_of_item item_entry _ _ item_entry_inv Hda).
  rewrite (all_some_inv _ _ pv_of_item item_entry _ _ item_entry_inv Hdr).
  rewrite (all_some_inv _ _ pv_of_item item_entry _ _ item_entry_inv Hia).
  rewrite (all_some_inv _ _ pv_of_item item_entry _ _ item_entry_inv Hir).
  rewrite (all_some_inv _ _ pv_of_moved moved_entry (fun m => gpath (fst (fst m)) /\ gpath (snd (fst m))) _
             (fun m H => moved_entry_inv m (proj1 H) (proj2 H)) Hm).
  rewrite (all_some_inv _ _ pv_of_setitems set_entry _ _ set_entry_inv Hsa).
  rewrite (all_some_inv _ _ pv_of_setitems set_entry _ _ set_entry_inv Hsr).
  rewrite (all_some_inv _ _ pv_of_ops ops_entry _ _ ops_entry_inv Ho).
  destruct d; reflexivity.
Qed.

(** * the statement of the property: same result on EVERY base *)
Section SameResult.
  Variable conv : ty -> value -> option value.
  Variable rem_order : list (path * value) -> list (path * value).
  Variable add_order : list (path * option value) -> list (path * option value).

  (* Delta(pickle_load(dump), bidirectional=b) *)
  Definition reload (w : world) (b : bool) (prog : list op) : option delta :=
    match load w prog with Some p => delta_of_pv b p | None => None end.

  Theorem reload_canonical_dump : forall w d,
    calls_ok w -> types_ok w (pv_of_delta d) -> wfp (pv_of_delta d) = true -> delta_ok d ->
    reload w (d_bidir d) (enc_prog (pv_of_delta d)) = Some d.
  Proof.
    intros w d Hc Ht Hw Hok. unfold reload. rewrite (pickle_roundtrip w _ Hc Ht Hw). apply delta_of_pv_of_delta. exact Hok.
  Qed.

  Theorem reloaded_same_result : forall w d,
    calls_ok w -> types_ok w (pv_of_delta d) -> wfp (pv_of_delta d) = true -> delta_ok d ->
    exists d', reload w (d_bidir d) (enc_prog (pv_of_delta d)) = Some d' /\
      (forall base, apply conv rem_order add_order d' base = apply conv rem_order add_order d base) /\
      (forall base, sub conv rem_order add_order d' base = sub conv rem_order add_order d base).
  Proof.
    intros w d Hc Ht Hw Hok. exists d. split; [apply reload_canonical_dump; assumption|]. split; reflexivity.
  Qed.
End SameResult.

(* the same for every encoding in the class [accepts] is in EncodesProofs-dependent DeltaCodecProofs2 *)

(* non-vacuity: a delta with every category meets the hypotheses *)
Definition pk (s : string) : pkey := PKey (AStr (s2p s)).
Definition sample_delta : delta :=
  mkDelta
    [mkVC [pk "a"; PKey (AInt 1)] None (Some (VAtom (AInt 2))) (VAtom (AInt 9))]
    [mkTC [pk "c"] None TNone TInt (Some (VAtom ANone)) (Some (VAtom (AInt 1)))]
    [([pk "f"], VList [VAtom (AInt 1)])] [([pk "g"], VDict [(AStr (s2p "k"), VAtom ANone)])]
    [([pk "a"; PKey (AInt 4)], VAtom (AInt 6))] [([pk "a"; PKey (AInt 0)], VTuple [VAtom (AHalf 3)])]
    [([pk "m"; PKey (AInt 1)], [pk "m"; PKey (AInt 0)], VAtom (AStr (s2p "x")))]
    [([pk "b"], [AInt 3])] [([pk "b"], [AInt 1])]
    [([pk "l"], [mkOV OInsert 0 0 0 2 [VAtom (AInt 9); VAtom (AInt 8)] (Some []); mkOV OEqual 0 4 2 6 [] None])]
    true.
Lemma path_eqb_eq : forall p q : path, path_eqb q p = true -> q = p.
Proof.
  induction p as [|k r IH]; destruct q as [|k' q]; cbn; intro H; try discriminate; [reflexivity|].
  apply andb_true_iff in H. destruct H as [Hk Hr]. rewrite (IH q Hr). f_equal.
  destruct k', k; cbn in Hk; try discriminate.
  - f_equal. clear - Hk. destruct a, a0; cbn in Hk; try discriminate; try reflexivity.
    + apply Bool.eqb_prop in Hk. subst. reflexivity.
    + apply Z.eqb_eq in Hk. subst. reflexivity.
    + apply Z.eqb_eq in Hk. subst. reflexivity.
    + apply pystr_eqb_eq in Hk. subst. reflexivity.
    + apply pystr_eqb_eq in Hk. subst. reflexivity.
  - apply Nat.eqb_eq in Hk. subst. reflexivity.
Qed.
Lemma gpath_by_compute : forall p, path_ok p = true -> path_eqb (norm p) p = true -> gpath p.
Proof. intros p H1 H2. split; [exact H1 | apply path_eqb_eq; exact H2]. Qed.
Example sample_delta_ok : delta_ok sample_delta /\ wfp (pv_of_delta sample_delta) = true /\
                          types_default_b (pv_of_delta sample_delta) = true.
Proof.
  split; [|split; vm_compute; reflexivity].
  constructor; cbn; repeat constructor; try (apply gpath_by_compute; vm_compute; reflexivity).
Qed.


Lemma noccur_fresh_inst : forall pend i k f a sts n, Forall (fun j => j < n) pend -> n <= i ->
  noccur_all pend f = true -> noccur_all pend a = true -> forallb (noccur_all pend) sts = true ->
  noccur_all pend (OInst i k f a sts) = true.
Proof.
  intros pend i k f a sts n Hp Hle Hf Ha Hs. unfold noccur_all. apply forallb_forall. intros j Hj. cbn [occurs].
  rewrite Forall_forall in Hp. specialize (Hp j Hj).
  replace (Nat.eqb j i) with false by (symmetry; apply Nat.eqb_neq; lia).
  rewrite (noccur_all_in _ _ _ Hf Hj), (noccur_all_in _ _ _ Ha Hj), (noccur_list pend sts Hs j Hj). reflexivity.
Qed.

Lemma opcode_case : forall w tag i1 i2 j1 j2 old new,
  calls_ok w -> find_class w HELPER OPCODE = FCResolved GType ->
  member_sound w chk old -> member_sound w chk new ->
  forall cs prog cs' rest pend st, chk (POpcode tag i1 i2 j1 j2 old new) cs prog = Some (cs', rest) -> inv cs pend st ->
  Forall (fun j => j < next st) pend -> vres w (POpcode tag i1 i2 j1 j2 old new) cs' pend st prog rest.
Proof.
  intros w tag i1 i2 j1 j2 old new Hco Hfc Hold Hnew cs prog cs' rest pend st H Hinv Hp.
  destruct prog as [|p r]; [discriminate|]. cbn [chk] in H.
  destruct (match get_index p with Some i => chk_get cs (POpcode tag i1 i2 j1 j2 old new) i | None => false end) eqn:Eg.
  { inversion H; subst. apply get_case; assumption. }
  destruct (chk_type HELPER OPCODE cs (p :: r)) as [[cs1 pp]|] eqn:Et; [|discriminate].
  destruct pp as [|q p1]; [discriminate|]. destruct q; try discriminate.
  destruct (chk_atoms [AStr tag; AInt i1; AInt i2; AInt j1; AInt j2] cs1 p1) as [[cs2 p2]|] eqn:Ea; [|discriminate].
  destruct (chk old cs2 p2) as [[cs3 p3]|] eqn:Eo; [|discriminate].
  destruct (chk new cs3 p3) as [[cs4 pp4]|] eqn:En; [|discriminate].
  destruct pp4 as [|q p4]; [discriminate|]. destruct q; try discriminate.
  destruct (chk_put cs4 (opcode_args tag i1 i2 j1 j2 old new) p4) as [[cs5 pp5]|] eqn:Ep; [|discriminate].
  destruct pp5 as [|q p5]; [discriminate|]. destruct q; try discriminate.
  set (cls := OGlobal HELPER OPCODE GType).
  destruct (type_sound w HELPER OPCODE cs pend (p :: r) cs1 _ st Et Hinv Hfc) as [st1 [Hr1 [Hs1 [Hn1 [Hi1 He1]]]]].
  assert (Hi1' : inv cs1 pend (push OMark st1)) by (apply inv_push; [exact Hi1 | reflexivity]).
  destruct (atoms_sound w _ cs1 pend p1 cs2 p2 (push OMark st1) Ea Hi1') as [st2 [Hr2 [Hs2 [Hn2 [Hi2 He2]]]]].
  assert (Hp2 : Forall (fun j => j < next st2) pend).
  { rewrite Hn2. cbn [push set_stack next]. rewrite Hn1. exact Hp. }
  destruct (Hold cs2 p2 cs3 p3 Eo pend st2 Hi2 Hp2) as [o1 [st3 [Hr3 [Hs3 [Hd3 [Hm3 [Hc3 [Hno3 [Hi3 [Hn3 He3]]]]]]]]]].
  assert (Hp3 : Forall (fun j => j < next st3) pend) by (apply (pend_mono _ _ _ Hn3 Hp2)).
  destruct (Hnew cs3 p3 cs4 _ En pend st3 Hi3 Hp3) as [o2 [st4 [Hr4 [Hs4 [Hd4 [Hm4 [Hc4 [Hno4 [Hi4 [Hn4 He4]]]]]]]]]].
  set (args := OTuple [OStr tag; OInt i1; OInt i2; OInt j1; OInt j2; o1; o2]).
  assert (Hs4' : stack st4 = (rev [OStr tag; OInt i1; OInt i2; OInt j1; OInt j2; o1; o2] ++ OMark :: cls :: stack st)%list).
  { rewrite Hs4, Hs3, Hs2. cbn [push set_stack stack map obj_of_atom rev app]. rewrite Hs1. reflexivity. }
  set (st5 := set_stack st4 (args :: cls :: stack st)).
  assert (H5 : step w st4 TUPLE = SNext st5).
  { cbn [step]. unfold with_mark. rewrite Hs4', to_mark_rev; [reflexivity|]. cbn. rewrite Hm3, Hm4. reflexivity. }
  assert (Hi5 : inv cs4 pend st5).
  { apply inv_set_stack_sub; [exact Hi4|]. destruct Hi4 as [[Hst _] _]. rewrite Hs4' in Hst. cbn in Hst.
    repeat (apply andb_true_iff in Hst; destruct Hst as [? Hst]).
    cbn. repeat match goal with E : ids_below _ _ = true |- _ => rewrite E; clear E end. exact Hst. }
  assert (Hd5 : decode args = Some (opcode_args tag i1 i2 j1 j2 old new)).
  { unfold args, opcode_args. rewrite decode_tuple_eq. cbn [map all_some decode atom_of_obj option_map]. rewrite Hd3, Hd4. reflexivity. }
  assert (Hnoa : noccur_all pend args = true).
  { unfold args. apply noccur_tuple. cbn [forallb]. rewrite Hno3, Hno4.
    rewrite (noccur_all_noids pend (OStr tag) eq_refl), (noccur_all_noids pend (OInt i1) eq_refl),
      (noccur_all_noids pend (OInt i2) eq_refl), (noccur_all_noids pend (OInt j1) eq_refl),
      (noccur_all_noids pend (OInt j2) eq_refl). reflexivity. }
  destruct (put_sound w cs4 pend (opcode_args tag i1 i2 j1 j2 old new) p4 cs5 _ st5 args (cls :: stack st) Ep Hi5 eq_refl eq_refl Hd5)
    as [st6 [Hr6 [Hs6 [Hn6 [Hi6 He6]]]]]; [|exact Hnoa|].
  { intro Hf. unfold opcode_args in Hf. cbn [idfree forallb andb] in Hf.
    apply andb_true_iff in Hf. destruct Hf as [F1 Hf]. apply andb_true_iff in Hf. destruct Hf as [F2 _].
    unfold args, opcode_args. cbn [canon_obj map obj_of_atom]. rewrite (Hc3 F1), (Hc4 F2). reflexivity. }
  set (inst := OInst (next st6) KNewobj cls args []).
  set (st7 := fresh (set_stack (emit (ECall KNewobj cls args) (set_stack st6 (stack st))) (inst :: stack st))).
  assert (H7 : step w st6 NEWOBJ = SNext st7).
  { cbn [step]. rewrite Hs6. unfold st5. cbn [set_stack stack pop1 is_mark args cls is_type].
    unfold do_call. rewrite (co_opcode w Hco). reflexivity. }
  assert (Hn7 : next st <= next st6).
  { rewrite Hn6. unfold st5. cbn [set_stack next]. cbn [push set_stack next] in Hn2. lia. }
  assert (Hi7 : inv cs5 pend st7).
  { unfold st7, fresh, set_stack, emit. cbn [stack memo next ecache trace]. apply inv_stack; [exact Hi6 | lia|].
    destruct Hi6 as [[Hst _] _]. rewrite Hs6 in Hst. unfold st5 in Hst. cbn [set_stack stack forallb] in Hst.
    apply andb_true_iff in Hst. destruct Hst as [Ha Hst]. apply andb_true_iff in Hst. destruct Hst as [_ Hst].
    cbn [forallb ids_below inst cls]. rewrite (ids_below_mono _ _ (Nat.le_succ_diag_r _) _ Ha).
    rewrite (ids_below_all_mono _ _ _ (Nat.le_succ_diag_r _) Hst). rewrite !andb_true_r. apply Nat.ltb_lt. lia. }
  assert (He7 : memo_ext st st7).
  { apply (memo_ext_trans _ _ _ He1). apply (memo_ext_trans _ (push OMark st1)); [apply memo_ext_same; reflexivity|].
    apply (memo_ext_trans _ _ _ He2). apply (memo_ext_trans _ _ _ He3). apply (memo_ext_trans _ _ _ He4).
    apply (memo_ext_trans _ st5); [apply memo_ext_same; reflexivity|]. apply (memo_ext_trans _ _ _ He6).
    apply memo_ext_same. reflexivity. }
  apply (put_after w _ pend (p :: r) p5 cs5 cs' rest st st7 inst);
    [ | reflexivity | | exact Hi7 | exact He7 | exact H | | reflexivity | intro; discriminate | ].
  - rewrite Hr1, (run_step_next w st1 MARK (push OMark st1) p1 eq_refl), Hr2, Hr3, Hr4,
      (run_step_next w st4 TUPLE st5 p4 H5), Hr6. apply run_step_next. exact H7.
  - unfold st7. cbn [fresh set_stack emit next]. lia.
  - unfold inst, cls, args. cbn [decode]. rewrite !pystr_eqb_refl. cbn [andb]. rewrite Hd3, Hd4. reflexivity.
  - apply (noccur_fresh_inst pend _ _ _ _ _ (next st) Hp Hn7); [apply noccur_all_noids; reflexivity | exact Hnoa | reflexivity].
Qed.

Lemma setordered_case : forall w xs, calls_ok w -> find_class w HELPER SETORDERED = FCResolved GType ->
  Forall (member_sound w chk) xs ->
  forall cs prog cs' rest pend st, chk (PSetOrdered xs) cs prog = Some (cs', rest) -> inv cs pend st ->
  Forall (fun j => j < next st) pend -> vres w (PSetOrdered xs) cs' pend st prog rest.
Proof.
  intros w xs Hco Hfc HF cs prog cs' rest pend st H Hinv Hp. destruct prog as [|p r]; [discriminate|]. cbn [chk] in H.
  destruct (match get_index p with Some i => chk_get cs (PSetOrdered xs) i | None => false end) eqn:Eg.
  { inversion H; subst. apply get_case; assumption. }
  destruct (chk_type HELPER SETORDERED cs (p :: r)) as [[cs1 pp]|] eqn:Et; [|discriminate].
  destruct pp as [|q pp]; [discriminate|]. destruct q; try discriminate.
  destruct pp as [|q p1]; [discriminate|]. destruct q; try discriminate.
  destruct (chk_put_pending cs1 p1) as [[[cs2 pp2] iidx]|] eqn:Ep1; [|discriminate].
  destruct pp2 as [|q p2]; [discriminate|]. destruct q; try discriminate.
  destruct (chk_put_pending cs2 p2) as [[[cs3 p3] lidx]|] eqn:Ep2; [|discriminate].
  destruct (items_gen chk xs false cs3 p3) as [[cs4 pp4]|] eqn:Ei; [|discriminate].
  destruct pp4 as [|q p4]; [discriminate|]. destruct q; try discriminate. inversion H; subst cs' rest. clear H.
  set (cls := OGlobal HELPER SETORDERED GType).
  destruct (type_sound w HELPER SETORDERED cs pend (p :: r) cs1 _ st Et Hinv Hfc) as [st1 [Hr1 [Hs1 [Hn1 [Hi1 He1]]]]].
  pose proof Hinv as [[Hs0 Hm0] _].
  (* EMPTY_TUPLE; NEWOBJ: the instance, its identity pending until BUILD *)
  set (j := next st1).
  set (inst0 := OInst j KNewobj cls (OTuple []) []).
  set (st2 := fresh (set_stack (emit (ECall KNewobj cls (OTuple [])) (set_stack (push (OTuple []) st1) (stack st))) (inst0 :: stack st))).
  assert (H2 : step w (push (OTuple []) st1) NEWOBJ = SNext st2).
  { cbn [step push set_stack stack pop1 is_mark]. rewrite Hs1. cbn [pop1 is_mark cls is_type].
    unfold do_call. rewrite (co_setordered w Hco). reflexivity. }
  assert (Hp1 : Forall (fun k => k < next st1) pend) by (rewrite Hn1; exact Hp).
  assert (Hi2 : inv cs1 (j :: pend) st2).
  { pose proof (inv_enter cs1 pend st1 j Hi1 (le_n _)) as Hi1e.
    unfold st2, fresh, push, emit, set_stack. cbn [stack memo next ecache trace]. apply inv_stack; [exact Hi1e | lia|].
    cbn [forallb ids_below inst0 cls]. rewrite !andb_true_r.
    rewrite (ids_below_all_mono (next st) (S (next st1)) _ ltac:(lia) Hs0), andb_true_r. apply Nat.ltb_lt. unfold j. lia. }
  destruct (put_pending_sound w cs1 (j :: pend) p1 cs2 _ iidx st2 inst0 (stack st) Ep1 Hi2 eq_refl eq_refl)
    as [st3 [Hr3 [Hs3 [Hn3 [Hi3 [He3 Hown3]]]]]].
  assert (Hn3' : next st3 = S j) by (rewrite Hn3; unfold st2; cbn; reflexivity).
  (* EMPTY_LIST: the state list, pending as well *)
  set (i := next st3).
  set (st4 := fresh (push (OList i []) st3)).
  assert (Hp3 : Forall (fun k => k < next st3) (j :: pend)).
  { rewrite Hn3'. constructor; [lia|]. apply (pend_mono _ (next st1)); [unfold j; lia | exact Hp1]. }
  destruct (enter_container cs2 (j :: pend) st3 (OList i []) Hi3 Hp3) as [Hi4 [Hp4 He4]].
  { cbn [ids_below forallb]. rewrite andb_true_r. apply Nat.ltb_lt. unfold i. lia. }
  fold i st4 in Hi4, Hp4, He4.
  destruct (put_pending_sound w cs2 (i :: j :: pend) p2 cs3 p3 lidx st4 (OList i []) (stack st3) Ep2 Hi4 eq_refl eq_refl)
    as [st5 [Hr5 [Hs5 [Hn5 [Hi5 [He5 Hown5]]]]]].
  destruct (items_sound w chk xs HF false cs3 (i :: j :: pend) p3 cs4 _ st5 i [] [] (stack st3) lidx Ei Hi5)
    as [os [st6 [Hr6 [Hs6 [Hd6 [Hno6 [Hi6 [Hn6 [Hown6 Hk6]]]]]]]]].
  - left. reflexivity.
  - rewrite Hn5. exact Hp4.
  - rewrite Hs5. reflexivity.
  - reflexivity.
  - reflexivity.
  - reflexivity.
  - destruct Hi3 as [[Hs _] _]. exact Hs.
  - exact Hown5.
  - cbn [app] in Hs6, Hno6, Hown6. rewrite Hs3 in Hs6. unfold st2 in Hs6. cbn [fresh set_stack stack] in Hs6.
    set (lst := OList i os).
    set (c := OInst j KNewobj cls (OTuple []) [lst]).
    assert (Hdl : decode lst = Some (PList xs)) by (unfold lst; rewrite decode_list_eq, (all_some_map_decode _ _ Hd6); reflexivity).
    assert (Hnol : noccur_all (j :: pend) lst = true).
    { apply (noccur_fresh_list (j :: pend) i os (next st3) Hp3 (le_n _)).
      apply (forallb_imp _ (noccur_all (i :: j :: pend))); [|exact Hno6]. apply Forall_forall. intros x _. apply noccur_all_cons. }
    (* the list is complete: record it; then BUILD mutates the instance *)
    assert (Hi6r : inv (record cs4 lidx (PList xs)) (j :: pend) st6).
    { apply (inv_record cs4 (j :: pend) st6 lidx (PList xs) lst);
        [apply (inv_weaken _ i); exact Hi6 | exact Hown6 | exact Hdl | intro; discriminate | exact Hnol]. }
    set (st7 := mutate j c (emit (EBuild inst0 lst) (set_stack st6 (inst0 :: stack st)))).
    assert (H7 : step w st6 BUILD = SNext st7).
    { cbn [step]. rewrite Hs6. unfold lst, inst0, cls. cbn [pop1 is_mark]. rewrite (co_build w Hco). reflexivity. }
    assert (Hst6 : forallb (ids_below (next st6)) (lst :: inst0 :: stack st) = true).
    { destruct Hi6 as [[Hst _] _]. rewrite Hs6 in Hst. exact Hst. }
    cbn [forallb] in Hst6. apply andb_true_iff in Hst6. destruct Hst6 as [Hl Hst6].
    apply andb_true_iff in Hst6. destruct Hst6 as [Hin Hst6].
    assert (Hi7 : inv (record cs4 lidx (PList xs)) (j :: pend) st7).
    { unfold st7. apply inv_mutate; [|left; reflexivity|].
      - apply inv_emit. apply inv_set_stack_sub; [exact Hi6r|]. cbn [forallb]. rewrite Hin, Hst6. reflexivity.
      - cbn [emit set_stack next]. cbn [ids_below c inst0 cls forallb] in *. rewrite Hl.
        apply andb_true_iff in Hin. destruct Hin as [Hin _]. rewrite Hin. reflexivity. }
    assert (Hsub : subst j c inst0 = c) by (cbn [subst inst0]; rewrite Nat.eqb_refl; reflexivity).
    assert (Hs7 : stack st7 = c :: stack st).
    { unfold st7. apply (mutate_stack j c _ inst0 (stack st)); [reflexivity | exact Hsub|].
      apply (ids_below_all_mono (next st) j); [unfold j; lia | exact Hs0]. }
    (* the instance's reserved entry followed the mutation *)
    assert (Hown7 : own_entry iidx st7 c).
    { intros idx E. unfold st7. apply (mutate_memo_own j c (emit (EBuild inst0 lst) st6) _ idx inst0); [|exact Hsub].
      cbn [emit memo]. apply Hk6; [apply He5; apply He4; exact (Hown3 idx E)|].
      cbn [ids_below inst0 cls forallb]. rewrite !andb_true_r. apply Nat.ltb_lt. unfold i. lia. }
    assert (Hdc : decode c = Some (PSetOrdered xs)).
    { unfold c, lst, cls. rewrite decode_setordered_eq, (all_some_map_decode _ _ Hd6). reflexivity. }
    assert (Hn7 : next st1 <= next st6) by (rewrite Hn5 in Hn6; unfold st4 in Hn6; cbn in Hn6; unfold i in *; lia).
    assert (Hnoc : noccur_all pend c = true).
    { apply (noccur_fresh_inst pend j _ _ _ _ (next st1) Hp1 (le_n _));
        [apply noccur_all_noids; reflexivity | apply noccur_all_noids; reflexivity|].
      cbn [forallb]. rewrite (noccur_all_cons j pend lst Hnol). reflexivity. }
    exists c, st7.
    split; [rewrite Hr1, (run_step_next w st1 EMPTY_TUPLE (push (OTuple []) st1) _ eq_refl),
              (run_step_next w _ NEWOBJ st2 p1 H2), Hr3, (run_step_next w st3 EMPTY_LIST st4 p2 eq_refl), Hr5, Hr6;
            apply run_step_next; exact H7|].
    split; [exact Hs7|]. split; [exact Hdc|]. split; [reflexivity|]. split; [intro; discriminate|]. split; [exact Hnoc|].
    split; [|split].
    + apply (inv_record _ pend st7 iidx (PSetOrdered xs) c);
        [apply (inv_weaken _ j); exact Hi7 | exact Hown7 | exact Hdc | intro; discriminate | exact Hnoc].
    + unfold st7. cbn [mutate emit set_stack next]. lia.
    + (* entries that existed before are older than both identities *)
      intros idx x Hg. assert (Hbx : ids_below (next st) x = true) by (apply (fresh_memo_below st idx x); [split; assumption | exact Hg]).
      unfold st7. apply mutate_memo_old; [|apply (ids_below_mono (next st) j); [unfold j; lia | exact Hbx]].
      cbn [emit memo]. apply Hk6; [|apply (ids_below_mono (next st) i); [unfold i; lia | exact Hbx]].
      apply He5. apply He4. apply He3. unfold st2. cbn [fresh set_stack emit push memo]. apply He1. exact Hg.
Qed.

(** * the main theorem *)

Theorem chk_sound : forall w, calls_ok w -> forall v, wfp v = true -> types_ok w v -> member_sound w chk v.
Proof.
  intros w Hco. induction v using pv_ind'; intros Hw Ht cs prog cs' rest Hc pend st Hinv Hp.
  - destruct prog as [|p r]; [discriminate|]. cbn [chk] in Hc.
    destruct (match get_index p with Some i => chk_get cs (PAtom a) i | None => false end) eqn:Eg.
    + inversion Hc; subst. exact (get_case w (PAtom a) cs' pend p rest st Eg Hinv).
    + exact (atom_case w a cs pend (p :: r) cs' rest st Hc Hinv).
  - exact (floatbits_case w b cs prog cs' rest pend st Hc Hinv).
  - refine (list_case w xs _ cs prog cs' rest pend st Hc Hinv Hp).
    apply (Forall_wfp_types w _ _ H); [exact Hw | exact Ht].
  - refine (tuple_case w xs _ cs prog cs' rest pend st Hc Hinv Hp).
    apply (Forall_wfp_types w _ _ H); [exact Hw | exact Ht].
  - cbn [wfp] in Hw. apply andb_true_iff in Hw. destruct Hw as [Hnd Hw].
    refine (dict_case w kvs _ Hnd cs prog cs' rest pend st Hc Hinv Hp).
    apply (Forall_wfp_types_kv w (member_sound w chk) _ H); [exact Hw | exact Ht].
  - exact (set_case w xs Hw cs prog cs' rest pend st Hc Hinv Hp).
  - exact (frozen_case w xs Hw cs prog cs' rest pend st Hc Hinv).
  - destruct prog as [|p r]; [discriminate|]. cbn [chk] in Hc.
    destruct (match get_index p with Some i => chk_get cs (PType m n) i | None => false end) eqn:Eg.
    + inversion Hc; subst. exact (get_case w (PType m n) cs' pend p rest st Eg Hinv).
    + assert (Hfc : find_class w m n = FCResolved GType) by (apply Ht; left; reflexivity).
      destruct (type_sound w m n cs pend (p :: r) cs' rest st Hc Hinv Hfc) as [st' [Hr [Hs [Hn [Hi He]]]]].
      exists (OGlobal m n GType), st'. split; [exact Hr|]. split; [exact Hs|]. split; [reflexivity|].
      split; [reflexivity|]. split; [reflexivity|]. split; [apply noccur_all_noids; reflexivity|].
      split; [exact Hi|]. split; [lia | exact He].
  - exact (nonetype_case w cs prog cs' rest pend st Hc Hinv).
  - cbn [wfp] in Hw. apply andb_true_iff in Hw. destruct Hw as [Hw1 Hw2].
    refine (opcode_case w tag i1 i2 j1 j2 v1 v2 Hco _ _ _ cs prog cs' rest pend st Hc Hinv Hp).
    + apply Ht. left. reflexivity.
    + apply IHv1; [exact Hw1|]. intros m n Hin. apply Ht. cbn. right. apply in_or_app. left. exact Hin.
    + apply IHv2; [exact Hw2|]. intros m n Hin. apply Ht. cbn. right. apply in_or_app. right. exact Hin.
  - refine (setordered_case w xs Hco _ _ cs prog cs' rest pend st Hc Hinv Hp).
    + apply Ht. left. reflexivity.
    + apply (Forall_wfp_types w _ _ H); [exact Hw|]. intros m n Hin. apply Ht. cbn. right. exact Hin.
Qed.

Lemma inv_init : forall w, inv cs0 [] (init w).
Proof. intro w. split; [split; reflexivity|]. split; [reflexivity|]. intros i v H. discriminate. Qed.

(* every encoding in the class loads to the payload it was checked against *)
Theorem accepts_sound : forall w prog d,
  calls_ok w -> types_ok w d -> wfp d = true -> accepts prog d = true -> load w prog = Some d.
Proof.
  intros w prog d Hco Ht Hw H. unfold accepts in H.
  set (p1 := match prog with PROTO n :: p => if (Z.leb 0 n && Z.leb n 5)%bool then p else prog | _ => prog end) in *.
  set (p2 := match p1 with FRAME _ :: p => p | _ => p1 end) in *.
  assert (E1 : run w (init w) prog = run w (init w) p1).
  { unfold p1. destruct prog as [|q p]; [reflexivity|]. destruct q; try reflexivity.
    destruct (Z.leb 0 n && Z.leb n 5)%bool eqn:E; [|reflexivity]. apply run_step_next. cbn [step]. rewrite E. reflexivity. }
  assert (E2 : run w (init w) p1 = run w (init w) p2).
  { unfold p2. destruct p1 as [|q p]; [reflexivity|]. destruct q; try reflexivity. }
  destruct (chk d cs0 p2) as [[cs' pp]|] eqn:Ec; [|discriminate].
  destruct pp as [|q rest]; [discriminate|]. destruct q; try discriminate.
  destruct (chk_sound w Hco d Hw Ht cs0 p2 cs' _ Ec [] (init w) (inv_init w) (Forall_nil _)) as [o [st' [Hr [Hs [Hd [Hm _]]]]]].
  unfold load, vm_run. rewrite E1, E2, Hr. cbn [run step]. rewrite Hs. cbn [pop1]. rewrite Hm. cbn. exact Hd.
Qed.

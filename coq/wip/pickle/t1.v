From Coq Require Import List ZArith NArith Bool Arith Lia.
Import ListNotations.
From DD Require Import Base.Sx Base.PyStr Base.Value Pickle.Vm Pickle.Codec.
Lemma enc_list_eq : forall xs, enc (PList xs) =
  match xs with [] => [EMPTY_LIST] | _ => (EMPTY_LIST :: MARK :: flat_map enc xs ++ [APPENDS])%list end.
Proof.
  intros [|x r]; [reflexivity|]. cbn [enc]. Show.
Abort.

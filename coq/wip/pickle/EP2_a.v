
(** * occurrences of an identity *)

Fixpoint occurs (i : nat) (o : obj) {struct o} : bool :=
  match o with
  | OTuple xs | OFrozen xs => existsb (occurs i) xs
  | OList j xs | OSet j xs => Nat.eqb i j || existsb (occurs i) xs
  | ODict j kvs => Nat.eqb i j || existsb (fun kv => occurs i (fst kv) || occurs i (snd kv)) kvs
  | OInst j _ f a sts => Nat.eqb i j || occurs i f || occurs i a || existsb (occurs i) sts
  | _ => false
  end.

Lemma map_id_noccur : forall (g : obj -> obj) (f : obj -> bool) xs,
  Forall (fun x => f x = false -> g x = x) xs -> existsb f xs = false -> map g xs = xs.
Proof.
  intros g f xs H. induction H as [|x r Hx Hr IH]; cbn; [reflexivity|].
  intro E. apply orb_false_iff in E. destruct E as [E1 E2]. rewrite (Hx E1), (IH E2). reflexivity.
Qed.

Lemma subst_noccur : forall i c o, occurs i o = false -> subst i c o = o.
Proof.
  intros i c. induction o using obj_ind'; cbn [occurs subst]; intro Hn; try reflexivity.
  - f_equal. apply (map_id_noccur _ (occurs i)); assumption.
  - f_equal. apply (map_id_noccur _ (occurs i)); assumption.
  - apply orb_false_iff in Hn. destruct Hn as [He Hx]. rewrite He. f_equal. apply (map_id_noccur _ (occurs i)); assumption.
  - apply orb_false_iff in Hn. destruct Hn as [He Hx]. rewrite He. f_equal.
    revert Hx. induction H as [|kv r [Hk Hv] Hr IH]; cbn; [reflexivity|].
    intro E. apply orb_false_iff in E. destruct E as [E1 E2]. apply orb_false_iff in E1. destruct E1 as [Ek Ev].
    rewrite (Hk Ek), (Hv Ev), (IH E2). destruct kv; reflexivity.
  - apply orb_false_iff in Hn. destruct Hn as [He Hx]. rewrite He. f_equal. apply (map_id_noccur _ (occurs i)); assumption.
  - apply orb_false_iff in Hn. destruct Hn as [Hn Hs]. apply orb_false_iff in Hn. destruct Hn as [Hn Ha].
    apply orb_false_iff in Hn. destruct Hn as [He Hf]. rewrite He, (IHo1 Hf), (IHo2 Ha). f_equal.
    apply (map_id_noccur _ (occurs i)); assumption.
Qed.

Lemma existsb_false_forall : forall (f g : obj -> bool) xs,
  Forall (fun x => g x = true -> f x = false) xs -> forallb g xs = true -> existsb f xs = false.
Proof.
  intros f g xs H. induction H as [|x r Hx Hr IH]; cbn; [reflexivity|].
  intro E. apply andb_true_iff in E. destruct E as [E1 E2]. rewrite (Hx E1), (IH E2). reflexivity.
Qed.

Lemma ltb_neq' : forall i j n, Nat.ltb j n = true -> n <= i -> Nat.eqb i j = false.
Proof. intros i j n H Hle. apply Nat.ltb_lt in H. apply Nat.eqb_neq. lia. Qed.

(* an identity at or above the bound does not occur *)
Lemma below_noccur : forall n i, n <= i -> forall o, ids_below n o = true -> occurs i o = false.
Proof.
  intros n i Hle. induction o using obj_ind'; cbn [ids_below occurs]; intro Hb; try reflexivity.
  - apply (existsb_false_forall _ (ids_below n)); assumption.
  - apply (existsb_false_forall _ (ids_below n)); assumption.
  - apply andb_true_iff in Hb. destruct Hb as [Hl Hx]. rewrite (ltb_neq' _ _ _ Hl Hle). cbn.
    apply (existsb_false_forall _ (ids_below n)); assumption.
  - apply andb_true_iff in Hb. destruct Hb as [Hl Hx]. rewrite (ltb_neq' _ _ _ Hl Hle). cbn.
    revert Hx. induction H as [|kv r [Hk Hv] Hr IH]; cbn; [reflexivity|].
    intro E. apply andb_true_iff in E. destruct E as [E1 E2]. apply andb_true_iff in E1. destruct E1 as [Ek Ev].
    rewrite (Hk Ek), (Hv Ev), (IH E2). reflexivity.
  - apply andb_true_iff in Hb. destruct Hb as [Hl Hx]. rewrite (ltb_neq' _ _ _ Hl Hle). cbn.
    apply (existsb_false_forall _ (ids_below n)); assumption.
  - apply andb_true_iff in Hb. destruct Hb as [Hb Hs]. apply andb_true_iff in Hb. destruct Hb as [Hb Ha].
    apply andb_true_iff in Hb. destruct Hb as [Hl Hf].
    rewrite (ltb_neq' _ _ _ Hl Hle), (IHo1 Hf), (IHo2 Ha). cbn. apply (existsb_false_forall _ (ids_below n)); assumption.
Qed.

Definition noccur_all (pend : list nat) (o : obj) : bool := forallb (fun j => negb (occurs j o)) pend.

Lemma noccur_all_below : forall pend n o, ids_below n o = true -> Forall (fun j => n <= j) pend -> noccur_all pend o = true.
Proof.
  intros pend n o Hb H. unfold noccur_all. induction H as [|j r Hj Hr IH]; cbn; [reflexivity|].
  rewrite (below_noccur n j Hj o Hb), IH. reflexivity.
Qed.
Lemma noccur_all_noids : forall pend o, noids o = true -> noccur_all pend o = true.
Proof.
  intros pend o H. unfold noccur_all. apply forallb_forall. intros j _.
  rewrite (below_noccur 0 j (Nat.le_0_l j) o (noids_below 0 o H)). reflexivity.
Qed.
Lemma noccur_all_in : forall pend o i, noccur_all pend o = true -> In i pend -> occurs i o = false.
Proof.
  intros pend o i H Hin. unfold noccur_all in H. rewrite forallb_forall in H. apply negb_true_iff. apply H. exact Hin.
Qed.
Lemma noccur_all_cons : forall i pend o, noccur_all (i :: pend) o = true -> noccur_all pend o = true.
Proof. intros i pend o H. cbn in H. apply andb_true_iff in H. apply H. Qed.

(** * the invariant between checker state and machine state *)

(* [pend]: the identities of the containers that are being filled right now.  No completed object
   the checker knows about contains one of them, so filling them (mutation through [subst])
   leaves every known memo entry alone. *)
Definition known_ok (pend : list nat) (m : list (Z * obj)) (i : Z) (v : pv) : Prop :=
  exists o, memo_get i m = Some o /\ decode o = Some v /\ (idfree v = true -> o = canon_obj v) /\
            noccur_all pend o = true.

Definition inv (cs : cstate) (pend : list nat) (st : state) : Prop :=
  fresh_state st /\ map fst (memo st) = snd cs /\
  (forall i v, lm_get i (fst cs) = Some v -> known_ok pend (memo st) i v).

Definition memo_ext (st st' : state) : Prop :=
  forall idx o, memo_get idx (memo st) = Some o -> memo_get idx (memo st') = Some o.
Lemma memo_ext_refl : forall st, memo_ext st st.
Proof. intros st idx o H. exact H. Qed.
Lemma memo_ext_trans : forall a b c, memo_ext a b -> memo_ext b c -> memo_ext a c.
Proof. intros a b c H1 H2 idx o H. apply H2. apply H1. exact H. Qed.
Lemma memo_ext_same : forall st st', memo st' = memo st -> memo_ext st st'.
Proof. intros st st' E idx o H. rewrite E. exact H. Qed.

Lemma inv_stack : forall cs pend st s n, inv cs pend st -> next st <= n ->
  forallb (ids_below n) s = true ->
  inv cs pend (mkState s (memo st) n (ecache st) (trace st)).
Proof.
  intros cs pend st s n [[Hs Hm] [Hk Ha]] Hle Hb. split; [|split]; cbn.
  - split; cbn; [exact Hb | apply (memo_mono _ _ _ Hle Hm)].
  - exact Hk.
  - exact Ha.
Qed.

Lemma inv_trace : forall cs pend s m n e t t', inv cs pend (mkState s m n e t) -> inv cs pend (mkState s m n e t').
Proof. intros cs pend s m n e t t' H. exact H. Qed.

Lemma inv_weaken : forall cs i pend st, inv cs (i :: pend) st -> inv cs pend st.
Proof.
  intros cs i pend st [Hf [Hk Ha]]. split; [exact Hf|]. split; [exact Hk|].
  intros j v Hj. destruct (Ha j v Hj) as [o [Hg [Hd [Hc Hn]]]]. exists o. repeat split; try assumption.
  apply (noccur_all_cons i). exact Hn.
Qed.

(* a container created now has an identity that occurs nowhere yet *)
Lemma inv_enter : forall cs pend st i, inv cs pend st -> next st <= i -> inv cs (i :: pend) st.
Proof.
  intros cs pend st i [[Hs Hm] [Hk Ha]] Hle. split; [split; assumption|]. split; [exact Hk|].
  intros j v Hj. destruct (Ha j v Hj) as [o [Hg [Hd [Hc Hn]]]]. exists o. repeat split; try assumption.
  unfold noccur_all in *. cbn [forallb]. rewrite Hn, andb_true_r. apply negb_true_iff. apply (below_noccur (next st) i Hle).
  clear - Hm Hg. induction (memo st) as [|[k x] r IH]; cbn in *; [discriminate|].
  apply andb_true_iff in Hm. destruct Hm as [H1 H2]. destruct (Z.eqb j k); [inversion Hg; subst; exact H1 | apply IH; assumption].
Qed.

Lemma inv_mutate : forall cs pend st i c, inv cs pend st -> In i pend -> ids_below (next st) c = true ->
  inv cs pend (mutate i c st).
Proof.
  intros cs pend st i c [[Hs Hm] [Hk Ha]] Hin Hc. split; [|split]; cbn.
  - split; cbn.
    + apply forallb_map_imp; [|exact Hs]. apply Forall_forall. intros x _. apply subst_ids_below. exact Hc.
    + clear - Hm Hc. induction (memo st) as [|[j x] r IH]; cbn in *; [reflexivity|].
      apply andb_true_iff in Hm. destruct Hm as [H1 H2]. rewrite (subst_ids_below _ i c Hc x H1), (IH H2). reflexivity.
  - rewrite map_map. cbn. exact Hk.
  - intros j v Hj. destruct (Ha j v Hj) as [o [Hg [Hd [Hcn Hn]]]]. exists o.
    rewrite memo_get_map_subst, Hg. cbn. rewrite (subst_noccur i c o (noccur_all_in _ _ _ Hn Hin)). auto.
Qed.

Lemma inv_push : forall cs pend st o, inv cs pend st -> ids_below (next st) o = true -> inv cs pend (push o st).
Proof.
  intros cs pend st o H Ho. unfold push, set_stack. apply inv_stack; [exact H | lia|].
  cbn. rewrite Ho. destruct H as [[Hs _] _]. exact Hs.
Qed.
Lemma inv_emit : forall cs pend st e, inv cs pend st -> inv cs pend (emit e st).
Proof. intros cs pend st e H. exact H. Qed.
Lemma inv_keys_len : forall cs pend st, inv cs pend st -> List.length (memo st) = List.length (snd cs).
Proof. intros cs pend st [_ [Hk _]]. rewrite <- Hk, map_length. reflexivity. Qed.
Lemma inv_set_stack_sub : forall cs pend st s, inv cs pend st ->
  forallb (ids_below (next st)) s = true -> inv cs pend (set_stack st s).
Proof. intros cs pend st s H Hs. unfold set_stack. apply inv_stack; [exact H | lia | exact Hs]. Qed.

(* the object completed under a reserved index is entered into the logical memo *)
Lemma inv_record : forall cs pend st pidx v o,
  inv cs pend st -> (forall idx, pidx = Some idx -> memo_get idx (memo st) = Some o) ->
  decode o = Some v -> (idfree v = true -> o = canon_obj v) -> noccur_all pend o = true ->
  inv (record cs pidx v) pend st.
Proof.
  intros cs pend st pidx v o Hinv Hown Hd Hc Hn. destruct pidx as [idx|]; [|exact Hinv].
  destruct Hinv as [Hf [Hk Ha]]. split; [exact Hf|]. split; [exact Hk|].
  intros j w Hj. cbn [record fst lm_get] in Hj. destruct (Z.eqb j idx) eqn:E.
  - inversion Hj; subst w. apply Z.eqb_eq in E. subst j. exists o. rewrite (Hown idx eq_refl). auto.
  - apply Ha. exact Hj.
Qed.
